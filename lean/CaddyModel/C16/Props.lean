/-
C16 — property theorems.

Carried by a theorem (for ALL orders in effect, all lists, no size bound other than the one
stated): the route sorter of the Caddyfile adapter

  * only consults the directive order across different directives (`less_cross_kind`),
  * emits directives in the order of the table (`sort_follows_directive_order`),
  * sorts every directive's values independently of all other directives
    (`sort_kind_subsequence`), hence
  * is insensitive to any reordering that never swaps two values of the same directive
    (`sort_cross_kind_invariant`, in directive names: `sort_reorder_directives_invariant`;
    for pairwise distinct directives every permutation: `sort_perm_invariant_of_distinct`),
    for EVERY same-directive comparator — the real one is not a strict weak order
    (`Witness.sameDirLess_not_strict_weak_order`),
  * treats `handle` and `handle_path` as one kind (`handle_and_handle_path_one_kind`),
  * over a duplicate-free default table (`directiveOrder_nodup`).

The sorter is `sort.SliceStable`: one insertion sort up to 20 values.  Above 20 it merges
blocks, and the full statement is FALSE for the code as it is — `Witness.lean` proves the
negation on the model of `stable_func` with a concrete 21-value block; the theorems below
are the `_partial` versions with the explicit decidable exclusion `length ≤ blockSize`.

Two former defects of the tree are repaired and now carried at full strength (`HistProps.lean`):
the `order` global option is scoped to one adaptation (`adapt_history_independent`, old code:
`order_option_old_code_fails`) and import-argument indices never reach a slice access out of
range (`args_index_never_panics`, `negative_index_is_out_of_bounds`, old code:
`args_index_old_code_fails`).

NOT carried by a theorem (implementation-side oracle only; level `partial`): totality of
the parser and the per-directive unmarshalers on all byte strings, determinism of the
map-derived parts of the output, loadability of the output.
-/
import CaddyModel.C16.Spec
import CaddyModel.Gen.Glue
import CaddyModel.Gen.MapRanges
import CaddyModel.Gen.AdapterSources
import CaddyModel.Gen.WeakStringMarshal
import CaddyModel.C16.Lemmas
import CaddyModel.C16.Witness
import CaddyModel.C16.LexProps
import CaddyModel.C16.HistProps
import CaddyModel.C16.GlueProps
import CaddyModel.C16.BindProps
import CaddyModel.C16.ServerOptsProps
import CaddyModel.C16.AddrProps
import CaddyModel.C16.NormalizeProps
import CaddyModel.C16.MapSortProps
import CaddyModel.C16.WeakStringProps
import CaddyModel.C16.ImportProps

namespace CaddyModel.C16

/-! ### the directive order table (regenerated from the source on every run) -/

/-- no directive is listed twice in `defaultDirectiveOrder` -/
theorem directiveOrder_nodup : Gen.defaultDirectiveOrder.Nodup := by decide

example : "handle" ∈ Gen.defaultDirectiveOrder ∧ "handle_path" ∈ Gen.defaultDirectiveOrder := by decide

/-- `handle_path` is sorted as `handle`: after `normalizeDirectiveName` the comparator never
consults the order between the two, although the table lists them at different positions -/
theorem handle_and_handle_path_one_kind :
    normalizeDirectiveName "handle_path" = normalizeDirectiveName "handle" ∧
    (∀ (order : List String) (a b : RouteVal),
      a.dir = normalizeDirectiveName "handle_path" → b.dir = normalizeDirectiveName "handle" →
      less order a b = sameDirLess a b ∧ less order b a = sameDirLess b a) ∧
    dirPos Gen.defaultDirectiveOrder "handle_path" ≠ dirPos Gen.defaultDirectiveOrder "handle" := by
  refine ⟨by decide, ?_, by decide⟩
  intro order a b ha hb
  have h : a.dir = b.dir := by rw [ha, hb]; decide
  simp [less, h]

example : less Gen.defaultDirectiveOrder ⟨normalizeDirectiveName "handle_path", true, 1, [str "/api/*"]⟩
    ⟨normalizeDirectiveName "handle", true, 1, [str "/a"]⟩ = true := by decide

/-! ### the comparator's shape -/

/-- across different kinds the comparator is the order of the table and nothing else; inside
a kind it is whatever it is (`less` itself — no property of it is used anywhere below) -/
theorem less_cross_kind (order : List String) :
    CrossKind (kindOf order) (less order) (less order) where
  diff := by
    intro x y h
    have hd : x.dir ≠ y.dir := fun e => h (by simp [kindOf, e])
    unfold less kindOf
    simp only [bne_iff_ne, ne_eq, hd, not_false_eq_true, if_true]
  same := fun _ _ _ => rfl

example : kindOf Gen.defaultDirectiveOrder ⟨"respond", true, 0, []⟩ ≠ kindOf Gen.defaultDirectiveOrder ⟨"header", true, 1, [str "/a"]⟩ := by decide

/-! ### what insertion sort (≤ 20 values) does with that comparator -/

/-- the result is a permutation of the input -/
theorem insertionSort_perm (order : List String) (l : List RouteVal) :
    (insertionSort (less order) l).Perm l := insertionSort_perm' _ l

/-- directives come out in table order -/
theorem insertionSort_follows_directive_order (order : List String) (l : List RouteVal) :
    KindAscending order (insertionSort (less order) l) := by
  unfold KindAscending insertionSort isortR
  rw [List.pairwise_reverse]
  exact (kindDesc_iff_pairwise _ _).1
    (fold_inv (kindOf order) (less order) (less order) (less_cross_kind order) l [] trivial).1

/-- every kind is sorted on its own: the values of one kind come out exactly as if the other
kinds were not there -/
theorem insertionSort_kind_subsequence (order : List String) (l : List RouteVal) (c : Nat) :
    (insertionSort (less order) l).filter (fun x => kindOf order x == c)
      = insertionSort (less order) (l.filter (fun x => kindOf order x == c)) := by
  unfold insertionSort isortR
  rw [List.filter_reverse]
  have := (fold_inv (kindOf order) (less order) (less order) (less_cross_kind order) l [] trivial).2 c
  simp only [List.filter_nil] at this
  rw [this]

/-- cross-kind order-insensitivity of the insertion sort, for every list length -/
theorem insertionSort_cross_kind_invariant (order : List String) (l l' : List RouteVal)
    (h : SameKindSubsequences order l l') :
    insertionSort (less order) l = insertionSort (less order) l' := by
  unfold insertionSort
  rw [isort_cross_kind_invariant (kindOf order) (less order) (less order) (less_cross_kind order) l l' h]

/-! ### `sortRoutes` -/

/-- FULL STATEMENT (false for the code as it is, see `Witness.sort_cross_kind_invariant_full_fails`):
`∀ order l l', SameKindSubsequences order l l' → sortRoutes (less order) l = sortRoutes (less order) l'`.
PARTIAL: up to `blockSize` = 20 values, where `sort.SliceStable` is one insertion sort. -/
theorem sort_cross_kind_invariant_partial (order : List String) (l l' : List RouteVal)
    (hl : l.length ≤ blockSize) (hl' : l'.length ≤ blockSize)
    (h : SameKindSubsequences order l l') :
    sortRoutes (less order) l = sortRoutes (less order) l' := by
  rw [sortRoutes_small _ l hl, sortRoutes_small _ l' hl']
  exact insertionSort_cross_kind_invariant order l l' h

/-- name used in DESIGN §4 -/
theorem sort_cross_kind_invariant (order : List String) (l l' : List RouteVal)
    (hl : l.length ≤ blockSize) (hl' : l'.length ≤ blockSize)
    (h : SameKindSubsequences order l l') :
    sortRoutes (less order) l = sortRoutes (less order) l' :=
  sort_cross_kind_invariant_partial order l l' hl hl' h

example : SameKindSubsequences Gen.defaultDirectiveOrder
    [⟨"respond", true, 1, [str "/a"]⟩, ⟨"header", true, 0, []⟩, ⟨"respond", true, 1, [str "/abc"]⟩]
    [⟨"header", true, 0, []⟩, ⟨"respond", true, 1, [str "/a"]⟩, ⟨"respond", true, 1, [str "/abc"]⟩] :=
  sameKindSubsequences_of_check _ _ _ (by decide)

theorem sort_follows_directive_order (order : List String) (l : List RouteVal) (hl : l.length ≤ blockSize) :
    KindAscending order (sortRoutes (less order) l) := by
  rw [sortRoutes_small _ l hl]; exact insertionSort_follows_directive_order order l

theorem sort_kind_subsequence (order : List String) (l : List RouteVal) (hl : l.length ≤ blockSize) (c : Nat) :
    (sortRoutes (less order) l).filter (fun x => kindOf order x == c)
      = insertionSort (less order) (l.filter (fun x => kindOf order x == c)) := by
  rw [sortRoutes_small _ l hl]; exact insertionSort_kind_subsequence order l c

theorem sort_perm (order : List String) (l : List RouteVal) (hl : l.length ≤ blockSize) :
    (sortRoutes (less order) l).Perm l := by
  rw [sortRoutes_small _ l hl]; exact insertionSort_perm order l

example : sortRoutes (less Gen.defaultDirectiveOrder)
    [⟨"respond", true, 1, [str "/a"]⟩, ⟨"header", true, 0, []⟩, ⟨"respond", true, 1, [str "/abc"]⟩]
    = [⟨"header", true, 0, []⟩, ⟨"respond", true, 1, [str "/abc"]⟩, ⟨"respond", true, 1, [str "/a"]⟩] := by decide

/-! ### in directive names: what a user reorders -/

/-- for values that passed `buildSubroute`'s guard (every directive is in the order in
effect), "same kind" is "same directive name" -/
theorem sameKind_of_sameDirective (order : List String) (l l' : List RouteVal)
    (ho : AllOrdered order l) (ho' : AllOrdered order l') (h : SameDirectiveSubsequences l l') :
    SameKindSubsequences order l l' := by
  intro c
  by_cases hex : ∃ x, (x ∈ l ∨ x ∈ l') ∧ kindOf order x = c
  · obtain ⟨x, hx, hc⟩ := hex
    have hxo : x.dir ∈ order := hx.elim (ho x) (ho' x)
    have key : ∀ (m : List RouteVal), AllOrdered order m →
        m.filter (fun y => kindOf order y == c) = m.filter (fun y => y.dir == x.dir) := by
      intro m hm
      apply List.filter_congr
      intro y hy
      by_cases hd : y.dir = x.dir
      · have h1 : (kindOf order y == c) = true := by simp [kindOf, hd, ← hc]
        have h2 : (y.dir == x.dir) = true := by simp [hd]
        show (kindOf order y == c) = (y.dir == x.dir)
        rw [h1, h2]
      · have : kindOf order y ≠ c := by
          intro e
          exact hd (dirPos_injective order y.dir x.dir (hm y hy) hxo (by simpa [kindOf] using e.trans hc.symm))
        have h1 : (kindOf order y == c) = false := by simpa using this
        have h2 : (y.dir == x.dir) = false := by simpa using hd
        show (kindOf order y == c) = (y.dir == x.dir)
        rw [h1, h2]
    rw [key l ho, key l' ho', h x.dir]
  · have nil : ∀ (m : List RouteVal), (∀ y ∈ m, y ∈ l ∨ y ∈ l') → m.filter (fun y => kindOf order y == c) = [] := by
      intro m hm
      rw [List.filter_eq_nil_iff]
      intro y hy hk
      exact hex ⟨y, hm y hy, by simpa using hk⟩
    rw [nil l (fun y hy => Or.inl hy), nil l' (fun y hy => Or.inr hy)]

/-- THE PROPERTY'S CLAUSE: reordering directives of different kinds inside a block (never
swapping two of the same directive, handle/handle_path counted as one) does not change the
sorted result — for every order in effect and every same-directive comparator behaviour;
partial: blocks of at most 20 routes -/
theorem sort_reorder_directives_invariant (order : List String) (l l' : List RouteVal)
    (hl : l.length ≤ blockSize) (hl' : l'.length ≤ blockSize)
    (ho : AllOrdered order l) (ho' : AllOrdered order l')
    (h : SameDirectiveSubsequences l l') :
    sortRoutes (less order) l = sortRoutes (less order) l' :=
  sort_cross_kind_invariant_partial order l l' hl hl' (sameKind_of_sameDirective order l l' ho ho' h)

example : AllOrdered Gen.defaultDirectiveOrder [⟨"respond", true, 1, [str "/a"]⟩, ⟨"header", true, 0, []⟩] := by
  intro x hx; simp at hx; rcases hx with rfl | rfl <;> decide

/-- the property's quantifier "all permutations of distinct-directive lines": when no two
values have the same kind, EVERY permutation of the block sorts to the same result -/
theorem sort_perm_invariant_of_distinct (order : List String) (l l' : List RouteVal)
    (hl : l.length ≤ blockSize) (hp : l.Perm l') (hd : (l.map (kindOf order)).Nodup) :
    sortRoutes (less order) l = sortRoutes (less order) l' := by
  refine sort_cross_kind_invariant_partial order l l' hl (hp.length_eq ▸ hl) ?_
  intro c
  exact perm_eq_of_length_le_one _ _ (hp.filter _) (filter_kind_length_le_one (kindOf order) c l hd)

example : ([⟨"respond", true, 0, []⟩, ⟨"header", true, 0, []⟩, ⟨"root", true, 0, []⟩].map
    (kindOf Gen.defaultDirectiveOrder)).Nodup := by decide

/-! ### regenerated facts: the order table and the registered directives -/

/-- every directive of the default order table is a registered directive (a string literal
passed to `RegisterDirective` / `RegisterHandlerDirective` somewhere in the module): the `hist`
correspondence cases and `History.applyOp` take the table as the universe of names the `order`
option accepts, and a directive that is ordered but not registered could never be written -/
theorem directiveOrder_registered_matches_source :
    Gen.defaultDirectiveOrder.all (fun d => Gen.registeredDirectives.contains d) = true := by decide

/-- the `order` global option the model of `History.lean` is about is registered as such -/
theorem order_option_is_registered_matches_source :
    Gen.registeredGlobalOptions.contains "order" = true ∧ Gen.registeredDirectives.contains "handle_path" = true := by decide

/-! ### regenerated fact: map ranges in the Caddyfile unmarshalers -/

/-- the map ranges that collect into a slice WITHOUT a sort of that slice later in the same block,
each with the reason it is (or is not) harmless -/
def unsortedMapRangeExceptions : List (String × String) := [
  -- "The resulting slice is not sorted": both callers sort (httptype.go `slices.Sort(hosts)`, tlsapp.go `sort.Strings(hostsNotHTTP)`)
  ("caddyconfig/httpcaddyfile/directives.go:hostsFromKeys", "hostMap"),
  ("caddyconfig/httpcaddyfile/directives.go:hostsFromKeysNotHTTP", "hostMap")]
-- (buildTLSApp's range over httpsHostsSharedWithHostlessKey used to be a third entry: it fills `al`, sorted all along, and
--  internalAP.SubjectsRaw, sorted since 5feb9e1 — before that the same Caddyfile adapted to different bytes)

/-- every map range in caddyconfig/httpcaddyfile/*.go and modules/**/caddyfile.go that appends to a
slice either (a) appends the map KEY itself and is followed — in the block of the loop or an enclosing one — by a plain sort of that slice
(`sort.Strings` / `slices.Sort`: the sort key is the map key, injective — `sortByKey_perm_invariant`
applies), or (b) is one of the listed exceptions.  A range that sorts by anything else
(`sort.Slice` with a comparator, an appended derived value) makes this theorem fail. -/
theorem map_ranges_sorted_by_key_matches_source :
    Gen.caddyfileMapRanges.all (fun r =>
      r.2.2.1 == "noappend" ||
      (r.2.2.1 == "appendkey" && (r.2.2.2 == "sort.Strings" || r.2.2.2 == "slices.Sort")) ||
      unsortedMapRangeExceptions.contains (r.1, r.2.1)) = true := by decide

/-- the `copy_headers` collection of forward_auth is among them, in the shape `MapSort.lean` models -/
theorem copy_headers_range_matches_source :
    Gen.caddyfileMapRanges.contains
      ("modules/caddyhttp/reverseproxy/forwardauth/caddyfile.go:parseCaddyfile", "headersToCopy", "appendkey", "sort.Strings") = true := by
  decide

/-! ### Glue audit: every other source of nondeterminism around the sorter

`Gen.adapterSortCalls` lists every sort call of caddyconfig/** and modules/**/caddyfile.go with the sort function, the
slice sorted and WHAT ITS COMPARATOR READS besides its own parameters and locals (captured variables and package-level
variables, followed through every same-package function the comparator calls: the fact is the same whether the
comparator is a closure, a named function or any extract-function / inline rewrite of either); `Gen.adapterOutsideInputs` lists every read of the environment, the clock, randomness, a
directory listing, every maps.Keys / maps.Values and every `go` statement there.  Both are regenerated from /repo on
every run; the theorems below pin them, so a new comparator sort, a comparator that starts reading
anything besides the slice it sorts (a counter, a map, a package variable), a stable sort made unstable, a goroutine or a
clock read in the adapter makes the build fail until it is classified here.  (What a comparator COMPUTES is not pinned
by text: sortRoutes' comparator is Model.less under the `sort` / `site` correspondence; the others are under the oracle streams.) -/

/-- the comparator sorts, each with: what the comparator reads (for all six: the slice being sorted — through the
captured variable that holds it — and, for sortRoutes, the directive-position table built just above from directiveOrder;
no other captured or package-level state), where the ORDER OF ITS INPUT comes from, and why ties
cannot make the result vary.  All six take their input in the order of the text (or in an order fixed by an earlier
plain sort); none takes it from a map.  Five are `sort.SliceStable` (ties keep the input order); the one unstable
`sort.Slice` (serverOpts) runs a deterministic algorithm on a deterministic input. -/
def comparatorSortClassification : List (String × String × String × String) := [
  ("caddyconfig/httpcaddyfile/directives.go:sortRoutes", "routes",
   "reads: dirPositions,routes",
   "input: the directives of one block in written order; stable; the comparator is Model.less (not a strict weak order: known finding over-20-routes; Stable.lean runs the library's algorithm)"),
  ("caddyconfig/httpcaddyfile/httptype.go:evaluateGlobalOptionsBlock", "serverOpts",
   "reads: serverOpts",
   "input: the `servers` options in written order; UNSTABLE sort, key = address length (not injective): ties are placed by a deterministic algorithm from a deterministic input; ServerOpts.lean, op sopts, rename oracle (24 adaptations)"),
  ("caddyconfig/httpcaddyfile/httptype.go:serversFromPairings", "p.serverBlocks",
   "reads: p",
   "input: the site blocks of one pairing in written order (consolidateAddrMappings keeps it); stable; oracle streams perm / site / dadapt"),
  ("caddyconfig/httpcaddyfile/httptype.go:serversFromPairings", "errorSubrouteVals",
   "reads: errorSubrouteVals",
   "input: the handle_errors blocks of one site in written order; stable; corpus f19-empty-handle-errors, adapt streams"),
  ("caddyconfig/httpcaddyfile/httptype.go:consolidateConnPolicies", "cps",
   "reads: cps",
   "input: policies appended site block by site block (order fixed above); stable; two classes only; dadapt merge shapes"),
  ("caddyconfig/httpcaddyfile/tlsapp.go:consolidateAutomationPolicies", "aps",
   "reads: aps",
   "input: policies appended pairing by pairing (addresses sorted) and site block by site block; stable; dadapt merge shapes")]

set_option maxRecDepth 100000 in
/-- every sort call of the adapter is either a plain sort of strings (`sort.Strings` / `slices.Sort`: the key is the
element itself, total and injective — `sortByKey_perm_invariant` applies whatever order the input had) or one of the six
classified comparator sorts, whose comparator reads exactly the variables written there -/
theorem adapter_sort_calls_matches_source :
    Gen.adapterSortCalls.all (fun r =>
      ((r.2.1 == "sort.Strings" || r.2.1 == "slices.Sort") && r.2.2.2 == "") ||
      comparatorSortClassification.any (fun c => c.1 == r.1 && c.2.1 == r.2.2.1 && c.2.2.1 == r.2.2.2)) = true
    ∧ comparatorSortClassification.all (fun c =>
        Gen.adapterSortCalls.any (fun r => c.1 == r.1 && c.2.1 == r.2.2.1 && c.2.2.1 == r.2.2.2)) = true := by
  decide

/-- what the order-insensitivity theorems take from the source, whatever the comparator is spelled as: sortRoutes calls
`sort.SliceStable` (the algorithm of Stable.lean; stability is what sort_cross_kind_invariant uses), exactly once, on
`routes`, and its comparator — wherever its code lives — reads nothing but that slice and the directive-position table -/
theorem sortRoutes_call_matches_source :
    Gen.adapterSortCalls.filter (fun r => r.1 == "caddyconfig/httpcaddyfile/directives.go:sortRoutes") =
      [("caddyconfig/httpcaddyfile/directives.go:sortRoutes", "sort.SliceStable", "routes", "reads: dirPositions,routes")] := by
  decide

/-- the only unstable sort of the adapter is the one over the `servers` options -/
theorem adapter_unstable_sorts_matches_source :
    (Gen.adapterSortCalls.filter (fun r => r.2.1 == "sort.Slice")).map (fun r => (r.1, r.2.2.1)) =
      [("caddyconfig/httpcaddyfile/httptype.go:evaluateGlobalOptionsBlock", "serverOpts")] := by decide

/-- the adapter and the unmarshalers start no goroutine, read no clock, no randomness, no host name, call neither
maps.Keys nor maps.Values; they read the environment in exactly one place (`{$VAR}` substitution: ParseGlue.lean, op
env — the environment is an INPUT of the adaptation) and list a directory in exactly one place (`import` with a glob:
filepath.Glob returns its matches sorted — the listing is an input too; stream `adapt` with the fixtures in inc/) -/
theorem adapter_outside_inputs_matches_source :
    Gen.adapterOutsideInputs =
      [("caddyconfig/caddyfile/parse.go:replaceEnvVars", "os.LookupEnv"),
       ("caddyconfig/caddyfile/parse.go:doImport", "filepath.Glob")] := by decide

set_option maxRecDepth 100000 in
/-- the plain sorts of the adapter, one by one: each makes a slice collected from a map (or from several site blocks)
independent of the iteration order — removing one of them makes this theorem fail (and the 8- / 64-fold
adaptation oracle finds the text) -/
theorem adapter_plain_sorts_matches_source :
    (Gen.adapterSortCalls.filter (fun r => r.2.2.2 == "")).map (fun r => (r.1, r.2.2.1)) =
      [("caddyconfig/httpcaddyfile/addresses.go:mapAddressToProtocolToServerBlocks", "addrs"),
       ("caddyconfig/httpcaddyfile/addresses.go:mapAddressToProtocolToServerBlocks", "prots"),
       ("caddyconfig/httpcaddyfile/addresses.go:consolidateAddrMappings", "addrs"),
       ("caddyconfig/httpcaddyfile/addresses.go:consolidateAddrMappings", "prots"),
       ("caddyconfig/httpcaddyfile/addresses.go:consolidateAddrMappings", "addresses"),
       ("caddyconfig/httpcaddyfile/addresses.go:consolidateAddrMappings", "prots"),
       ("caddyconfig/httpcaddyfile/directives.go:Caddyfiles", "filesSlice"),
       ("caddyconfig/httpcaddyfile/httptype.go:Setup", "defaultLog.Exclude"),
       ("caddyconfig/httpcaddyfile/httptype.go:serversFromPairings", "hosts"),
       ("caddyconfig/httpcaddyfile/httptype.go:serversFromPairings", "srv.Logs.SkipHosts"),
       ("caddyconfig/httpcaddyfile/httptype.go:buildSubroute", "keys"),
       ("caddyconfig/httpcaddyfile/tlsapp.go:buildTLSApp", "hostsNotHTTP"),
       ("caddyconfig/httpcaddyfile/tlsapp.go:buildTLSApp", "al"),
       ("caddyconfig/httpcaddyfile/tlsapp.go:buildTLSApp", "internalAP.SubjectsRaw"),
       ("modules/caddyhttp/reverseproxy/forwardauth/caddyfile.go:parseCaddyfile", "sortedHeadersToCopy")] := by
  decide

example : comparatorSortClassification.length = 6 ∧ Gen.adapterSortCalls.length = 21 := by decide


/-- second line of defence for the status-code encoder (WeakString.lean; the op `ws` and the numeric-spelling stream
are what produce the failing input): `WeakString.MarshalJSON` returns the two boolean literals and otherwise ONLY what
json.Marshal wrote — of the int (`weakMarshal`'s `intText`), of the string (`jsonQuote`) — never the token text -/
theorem weakstring_marshal_returns_matches_source :
    Gen.weakStringMarshalReturns =
      ["[]byte(\"true\")", "[]byte(\"false\")", "json.Marshal(num)", "json.Marshal(string(ws))"] := by decide


end CaddyModel.C16
