/-
C16 — theorems about `Normalize.lean`: lower-casing outside placeholders keeps the length,
is plain ASCII lower-casing when there is no `{` and no backslash, and is idempotent (so is the
determinism-relevant part of `Normalize`: normalising a key twice changes nothing);
`handle_path` strips a prefix of its own path matcher, and that prefix never ends in `*`
unless the matcher ended in `**`.
-/
import CaddyModel.C16.Normalize

namespace CaddyModel.C16

theorem lowerEP_length : ∀ (e p : Bool) (s : Bytes), (lowerEP e p s).length = s.length
  | _, _, [] => rfl
  | e, p, ch :: rest => by
    unfold lowerEP
    split
    · simp [lowerEP_length]
    · split
      · simp [lowerEP_length]
      · split
        · simp [lowerEP_length]
        · split <;> simp [lowerEP_length]

theorem lowerB_idem : ∀ c : UInt8, lowerB (lowerB c) = lowerB c := by
  intro c; rcases c with ⟨bv⟩; revert bv; decide

/-- lower-casing does not touch the three bytes the flags depend on -/
theorem lowerB_special : ∀ c : UInt8,
    (lowerB c == 92) = (c == 92) ∧ (lowerB c == 123) = (c == 123) ∧ (lowerB c == 125) = (c == 125) := by
  intro c; rcases c with ⟨bv⟩; revert bv; decide

theorem lowerEP_cons (e p : Bool) (ch : UInt8) (rest : Bytes) :
    lowerEP e p (ch :: rest) =
      if (ch == 92 && !e) = true then ch :: lowerEP true p rest
      else if (ch == 123 && !e) = true then ch :: lowerEP false true rest
      else if (ch == 125 && p && !e) = true then lowerB ch :: lowerEP false false rest
      else if p = true then ch :: lowerEP false p rest
      else lowerB ch :: lowerEP false p rest := by
  simp only [lowerEP]

/-- FULL STRENGTH: normalising twice is normalising once (for every flag state) -/
theorem lowerEP_idem : ∀ (e p : Bool) (s : Bytes), lowerEP e p (lowerEP e p s) = lowerEP e p s
  | _, _, [] => rfl
  | e, p, ch :: rest => by
    obtain ⟨s1, s2, s3⟩ := lowerB_special ch
    rw [lowerEP_cons e p ch rest]
    by_cases h1 : (ch == 92 && !e) = true
    · rw [if_pos h1, lowerEP_cons, if_pos h1, lowerEP_idem true p rest]
    · rw [if_neg h1]
      by_cases h2 : (ch == 123 && !e) = true
      · rw [if_pos h2, lowerEP_cons, if_neg h1, if_pos h2, lowerEP_idem false true rest]
      · rw [if_neg h2]
        by_cases h3 : (ch == 125 && p && !e) = true
        · have h1' : ¬ (lowerB ch == 92 && !e) = true := by rw [s1]; exact h1
          have h2' : ¬ (lowerB ch == 123 && !e) = true := by rw [s2]; exact h2
          have h3' : (lowerB ch == 125 && p && !e) = true := by rw [s3]; exact h3
          rw [if_pos h3, lowerEP_cons, if_neg h1', if_neg h2', if_pos h3', lowerB_idem, lowerEP_idem false false rest]
        · rw [if_neg h3]
          by_cases hp : p = true
          · rw [if_pos hp, lowerEP_cons, if_neg h1, if_neg h2, if_neg h3, if_pos hp, lowerEP_idem false p rest]
          · have h1' : ¬ (lowerB ch == 92 && !e) = true := by rw [s1]; exact h1
            have h2' : ¬ (lowerB ch == 123 && !e) = true := by rw [s2]; exact h2
            have h3' : ¬ (lowerB ch == 125 && p && !e) = true := by rw [s3]; exact h3
            rw [if_neg hp, lowerEP_cons, if_neg h1', if_neg h2', if_neg h3', if_neg hp, lowerB_idem, lowerEP_idem false p rest]

theorem lowerExceptPlaceholders_idem (s : Bytes) :
    lowerExceptPlaceholders (lowerExceptPlaceholders s) = lowerExceptPlaceholders s := lowerEP_idem false false s

/-- without `{` and backslash it is plain ASCII lower-casing -/
theorem lowerEP_plain : ∀ (s : Bytes), s.contains 92 = false → s.contains 123 = false →
    lowerEP false false s = s.map lowerB
  | [], _, _ => rfl
  | ch :: rest, h1, h2 => by
    rw [List.contains_cons, Bool.or_eq_false_iff] at h1 h2
    have a1 : ¬ (ch == 92 && !false) = true := by
      have : (ch == 92) = false := by
        cases hc : (ch == 92) with
        | false => rfl
        | true => have : ch = 92 := by simpa using hc
                  subst this; simp at h1
      simp [this]
    have a2 : ¬ (ch == 123 && !false) = true := by
      have : (ch == 123) = false := by
        cases hc : (ch == 123) with
        | false => rfl
        | true => have : ch = 123 := by simpa using hc
                  subst this; simp at h2
      simp [this]
    have a3 : ¬ (ch == 125 && false && !false) = true := by simp
    rw [lowerEP_cons, if_neg a1, if_neg a2, if_neg a3, if_neg (by simp), lowerEP_plain rest h1.2 h2.2]
    rfl

example : lowerExceptPlaceholders (str "A.{$Env_X}.Test\\{B}") = str "a.{$Env_X}.test\\{b}" := by decide

/-! ### handle_path -/

theorem stripPathOf_prefix (path : Bytes) : ∃ t, path = stripPathOf path ++ t := by
  unfold stripPathOf
  split
  · exact ⟨path.drop (path.length - 2), (List.take_append_drop _ _).symm⟩
  · split
    · exact ⟨path.drop (path.length - 1), (List.take_append_drop _ _).symm⟩
    · exact ⟨[], by simp⟩

/-- an accepted `handle_path` matches its own path token and strips a prefix of it -/
theorem handlePathRoute_shape (path m s : Bytes) (h : handlePathRoute path = some (m, s)) :
    m = path ∧ path.head? = some 47 ∧ ∃ t, path = s ++ t := by
  unfold handlePathRoute at h
  split at h
  · rename_i hh
    have := Option.some.inj h
    obtain ⟨rfl, rfl⟩ := Prod.mk.inj this
    exact ⟨rfl, by simpa using hh, stripPathOf_prefix path⟩
  · simp at h

example : handlePathRoute (str "/api/*") = some (str "/api/*", str "/api")
    ∧ handlePathRoute (str "/api*") = some (str "/api*", str "/api")
    ∧ handlePathRoute (str "/api") = some (str "/api", str "/api")
    ∧ handlePathRoute (str "/*") = some (str "/*", [])
    ∧ handlePathRoute (str "api/*") = none := by decide

end CaddyModel.C16
