/-
C16 — theorems about the bind → servers glue (`BindGlue.lean`).

Validity clause, the part the adapter itself is responsible for: the two arrays `listen` and
`listen_protocols` of every emitted server are parallel (`server_arrays_parallel`; the http app
refuses a config where they are not — "listener protocols count does not match address
count").  Every protocol named by any `bind` of an address is served on it (`bind_protocols_served`,
repaired by 4efd026; `bind_protocols_served_old_code_fails`).  Two clauses one would expect and
the code as it is does NOT satisfy are stated in full and refuted by a concrete witness
(`decide`), each replayed on the implementation: a listener address belongs to one server;
every server has a listener.
-/
import CaddyModel.C16.BindGlue
import CaddyModel.C16.BindKeys

namespace CaddyModel.C16

/-- the tidy-up never changes the number of entries: it blanks entries or drops the whole array -/
theorem tidyProtocols_parallel (lps : List (List String)) :
    tidyProtocols lps = none ∨ ∃ l, tidyProtocols lps = some l ∧ l.length = lps.length := by
  unfold tidyProtocols
  split
  · exact Or.inl rfl
  · exact Or.inr ⟨_, rfl, by simp⟩

/-- FULL STRENGTH: every server the adapter emits for any list of sites has `listen_protocols`
either omitted or exactly as long as `listen` -/
theorem server_arrays_parallel (port : String) (sites : List BSite) :
    ∀ s ∈ serversOf port sites,
      s.listenProtocols = none ∨ ∃ l, s.listenProtocols = some l ∧ l.length = s.listen.length := by
  intro s hs
  simp only [serversOf, List.mem_map] at hs
  obtain ⟨p, _, rfl⟩ := hs
  rcases tidyProtocols_parallel (p.listeners.map (·.2)) with h | ⟨l, h1, h2⟩
  · exact Or.inl h
  · exact Or.inr ⟨l, h1, by simpa [serverOf] using h2⟩

/-- an entry is blanked exactly when it names no protocol -/
theorem blankDefault_none_iff (ps : List String) : blankDefault ps = none ↔ ps.all (· == "") = true := by
  unfold blankDefault
  split
  · rename_i h; simp [h]
  · rename_i h; simp [h]

example : serversOf "8080" [⟨"h0.test", [⟨["127.0.0.1"], ["h1"]⟩, ⟨["127.0.0.2"], []⟩]⟩]
    = [⟨["127.0.0.1:8080", "127.0.0.2:8080"], some [some ["h1"], none], [0]⟩] := by decide
example : tidyProtocols [["h1"], [""]] = some [some ["h1"], none] ∧ tidyProtocols [[""], [""]] = none := by decide

/-! ### clauses the code as it is violates -/

/-- FULL: a listener address is served by ONE server.  Refuted: two sites binding 127.0.0.1 with
`protocols h1` and `protocols h1 h2` become srv0 (h1, both sites) and srv1 (h2, second site) on
the same address — and srv1 has h2 without h1, which the http app refuses. -/
theorem one_address_one_server_full_fails :
    ∃ (sites : List BSite) (a b : BServer) (addr : String),
      serversOf "8080" sites = [a, b] ∧ addr ∈ a.listen ∧ addr ∈ b.listen ∧
      b.listenProtocols = some [some ["h2"]] :=
  ⟨[⟨"h0.test", [⟨["127.0.0.1"], ["h1"]⟩]⟩, ⟨"h1.test", [⟨["127.0.0.1"], ["h1", "h2"]⟩]⟩],
    ⟨["127.0.0.1:8080"], some [some ["h1"]], [0, 1]⟩, ⟨["127.0.0.1:8080"], some [some ["h2"]], [1]⟩, "127.0.0.1:8080",
    by decide⟩

/-! every protocol named by a `bind` of an address is served on it (repaired by 4efd026) -/

theorem mem_insSorted (x y : String) : ∀ l : List String, y ∈ insSorted x l ↔ y = x ∨ y ∈ l
  | [] => by simp [insSorted]
  | z :: zs => by
    unfold insSorted
    split
    · simp
    · split
      · rename_i h
        have : x = z := by simpa using h
        subst this
        simp
      · simp only [List.mem_cons, mem_insSorted x y zs]
        constructor <;> (intro hh; rcases hh with hh | hh | hh <;> simp [hh])

theorem mem_sortKeys_foldl (y : String) : ∀ (l acc : List String),
    y ∈ l.foldl (fun acc x => insSorted x acc) acc ↔ y ∈ l ∨ y ∈ acc
  | [], acc => by simp
  | x :: xs, acc => by
    simp only [List.foldl_cons, mem_sortKeys_foldl y xs, mem_insSorted, List.mem_cons]
    constructor
    · rintro (h1 | h1 | h1)
      · exact Or.inl (Or.inr h1)
      · exact Or.inl (Or.inl h1)
      · exact Or.inr h1
    · rintro ((h1 | h1) | h1)
      · exact Or.inr (Or.inl h1)
      · exact Or.inl h1
      · exact Or.inr (Or.inr h1)

theorem mem_sortKeys (y : String) (l : List String) : y ∈ sortKeys l ↔ y ∈ l := by
  simp [sortKeys, mem_sortKeys_foldl]

theorem lookupS_setS_same {β : Type} (k : String) (v : β) : ∀ m : List (String × β), lookupS (setS m k v) k = some v
  | [] => by simp [setS, lookupS]
  | (k', v') :: rest => by
    by_cases h : k' = k
    · simp [setS, lookupS, h]
    · have ih := lookupS_setS_same k v rest
      simp only [lookupS] at ih
      simp [setS, lookupS, h, ih]

theorem lookupS_setS_other {β : Type} (k k2 : String) (v : β) (hk : k2 ≠ k) :
    ∀ m : List (String × β), lookupS (setS m k v) k2 = lookupS m k2
  | [] => by
    have : ¬ k = k2 := fun e => hk e.symm
    simp [setS, lookupS, this]
  | (k', v') :: rest => by
    have ih := lookupS_setS_other k k2 v hk rest
    simp only [lookupS] at ih
    by_cases h : k' = k
    · subst h
      have : ¬ k' = k2 := fun e => hk e.symm
      simp [setS, lookupS, this]
    · by_cases h2 : k' = k2
      · subst h2
        simp [setS, lookupS, hk]
      · simp [setS, lookupS, h, h2, ih]

/-- protocol `p` is served on listener address `a` -/
def Served (m : List (String × List String)) (a p : String) : Prop :=
  ∃ ps, lookupS m a = some ps ∧ p ∈ ps

/-- one step of `addBind` keeps what is served and serves the bind's protocols on its address -/
theorem served_step (port : String) (acc : List (String × List String)) (h : String) (prots : List String) (a p : String) :
    (Served acc a p → Served (setS acc (lnAddr port h) (sortKeys (((lookupS acc (lnAddr port h)).getD []) ++ prots))) a p) ∧
    (a = lnAddr port h → p ∈ prots →
      Served (setS acc (lnAddr port h) (sortKeys (((lookupS acc (lnAddr port h)).getD []) ++ prots))) a p) := by
  constructor
  · rintro ⟨ps, hl, hp⟩
    by_cases e : a = lnAddr port h
    · subst e
      exact ⟨_, lookupS_setS_same _ _ _, by simp [mem_sortKeys, hl, hp]⟩
    · exact ⟨ps, by rw [lookupS_setS_other _ _ _ e]; exact hl, hp⟩
  · intro e hp
    subst e
    exact ⟨_, lookupS_setS_same _ _ _, by simp [mem_sortKeys, hp]⟩

theorem served_addrs_fold (port : String) (prots : List String) (a p : String) :
    ∀ (addrs : List String) (acc : List (String × List String)),
      (Served acc a p → Served (addrs.foldl (fun acc h => setS acc (lnAddr port h)
          (sortKeys (((lookupS acc (lnAddr port h)).getD []) ++ prots))) acc) a p) ∧
      ((∃ h ∈ addrs, a = lnAddr port h) → p ∈ prots → Served (addrs.foldl (fun acc h => setS acc (lnAddr port h)
          (sortKeys (((lookupS acc (lnAddr port h)).getD []) ++ prots))) acc) a p)
  | [], acc => by simp
  | h :: hs, acc => by
    obtain ⟨s1, s2⟩ := served_step port acc h prots a p
    obtain ⟨i1, i2⟩ := served_addrs_fold port prots a p hs
      (setS acc (lnAddr port h) (sortKeys (((lookupS acc (lnAddr port h)).getD []) ++ prots)))
    simp only [List.foldl_cons]
    refine ⟨fun hs' => i1 (s1 hs'), ?_⟩
    rintro ⟨h', hm, e⟩ hp
    rcases List.mem_cons.1 hm with e' | e'
    · subst e'; exact i1 (s2 e hp)
    · exact i2 ⟨h', e', e⟩ hp

theorem served_binds_fold (port : String) (a p : String) :
    ∀ (binds : List BindVal) (acc : List (String × List String)),
      (Served acc a p → Served (binds.foldl (addBind port) acc) a p) ∧
      ((∃ b ∈ binds, (∃ h ∈ b.addrs, a = lnAddr port h) ∧ p ∈ b.prots) → Served (binds.foldl (addBind port) acc) a p)
  | [], acc => by simp
  | b :: bs, acc => by
    obtain ⟨s1, s2⟩ := served_addrs_fold port b.prots a p b.addrs acc
    obtain ⟨i1, i2⟩ := served_binds_fold port a p bs (addBind port acc b)
    simp only [List.foldl_cons]
    refine ⟨fun h => i1 (s1 h), ?_⟩
    rintro ⟨b', hm, ha, hp⟩
    rcases List.mem_cons.1 hm with e | e
    · subst e; exact i1 (s2 ha hp)
    · exact i2 ⟨b', e, ha, hp⟩

/-- FULL STRENGTH (since 4efd026): every protocol named by ANY `bind` of a listener address is
served on that address, however many `bind` values name it and in whatever order -/
theorem bind_protocols_served (port : String) (binds : List BindVal) (b : BindVal) (h p : String)
    (hb : b ∈ binds) (hh : h ∈ b.addrs) (hp : p ∈ b.prots) :
    Served (listenersFor port binds) (lnAddr port h) p := by
  unfold listenersFor
  have hne : binds.isEmpty = false := by
    cases binds with
    | nil => simp at hb
    | cons _ _ => rfl
  simp only [hne]
  exact (served_binds_fold port (lnAddr port h) p binds []).2 ⟨b, hb, ⟨h, hh, rfl⟩, hp⟩

example : listenersFor "8080" [⟨["127.0.0.1"], ["h1"]⟩, ⟨["127.0.0.1"], ["h2"]⟩] = [("127.0.0.1:8080", ["h1", "h2"])] := by decide

/-- NON-VACUITY (the code before 4efd026): a second `bind` of the same address started its
protocol set afresh (`listeners[addr.String()]` tested the site address, never a key of the
map), so `protocols h1` was lost and `h2` served without it -/
theorem bind_protocols_served_old_code_fails :
    ∃ (binds : List BindVal) (b : BindVal) (p : String),
      b ∈ binds ∧ p ∈ b.prots ∧ b.addrs = ["127.0.0.1"] ∧
      lookupS (listenersForOld "8080" binds) "127.0.0.1:8080" = some ["h2"] ∧ p = "h1" :=
  ⟨[⟨["127.0.0.1"], ["h1"]⟩, ⟨["127.0.0.1"], ["h2"]⟩], ⟨["127.0.0.1"], ["h1"]⟩, "h1", by decide⟩

/-- FULL: every server has a listener.  Refuted: `bind 127.0.0.1 { protocols h1 h2 }` yields the
server and an empty "ghost" server (the shipped golden bind_fd_fdgram_h123 contains one). -/
theorem every_server_listens_full_fails :
    ∃ (sites : List BSite) (s : BServer), s ∈ serversOf "8080" sites ∧ s.listen = [] ∧ s.blocks = [] :=
  ⟨[⟨"h0.test", [⟨["127.0.0.1"], ["h1", "h2"]⟩]⟩], ⟨[], none, []⟩, by decide⟩

/-- PARTIAL: without any `protocols` block (every listener serves the default protocols) the
sites of one port come out as servers whose `listen_protocols` is omitted -/
theorem no_protocols_no_array (lps : List (List String)) (h : ∀ ps ∈ lps, ps = [""]) :
    tidyProtocols lps = none := by
  unfold tidyProtocols
  have : (lps.map blankDefault).all (· == none) = true := by
    rw [List.all_eq_true]
    intro x hx
    obtain ⟨ps, hps, rfl⟩ := List.mem_map.1 hx
    rw [h ps hps]
    decide
  rw [if_pos this]

/-! ### `default_bind` -/

/-- a site's own `bind` directives win over `default_bind` entirely -/
theorem own_binds_override_default (port : String) (dflt : Option (List BindVal)) (binds : List BindVal)
    (h : binds.isEmpty = false) : listenersForD port dflt binds = listenersFor port binds := by
  simp [listenersForD, listenersFor, h]

/-- a site without `bind` serves every protocol of every `default_bind` value on its address -/
theorem default_bind_protocols_served (port : String) (ds : List BindVal) (b : BindVal) (h p : String)
    (hb : b ∈ ds) (hh : h ∈ b.addrs) (hp : p ∈ b.prots) :
    Served (listenersForD port (some ds) []) (lnAddr port h) p := by
  simp only [listenersForD, List.isEmpty_nil, if_true]
  exact (served_binds_fold port (lnAddr port h) p ds []).2 ⟨b, hb, ⟨h, hh, rfl⟩, hp⟩

/-- the parallel-arrays invariant with `default_bind` -/
theorem server_arrays_parallel_D (port : String) (dflt : Option (List BindVal)) (sites : List BSite) :
    ∀ s ∈ serversOfD port dflt sites,
      s.listenProtocols = none ∨ ∃ l, s.listenProtocols = some l ∧ l.length = s.listen.length := by
  intro s hs
  simp only [serversOfD, List.mem_map] at hs
  obtain ⟨p, _, rfl⟩ := hs
  rcases tidyProtocols_parallel (p.listeners.map (·.2)) with h | ⟨l, h1, h2⟩
  · exact Or.inl h
  · exact Or.inr ⟨l, h1, by simpa [serverOf] using h2⟩

example : serversOfD "8080" (some [⟨["127.0.0.1"], ["h1"]⟩, ⟨[""], []⟩]) [⟨"h0.test", []⟩, ⟨"h1.test", [⟨["127.0.0.2"], []⟩]⟩]
    = [⟨["127.0.0.1:8080", ":8080"], some [some ["h1"], none], [0]⟩, ⟨["127.0.0.2:8080"], none, [1]⟩] := by decide

/-! ### several keys per block -/

/-- the parallel-arrays invariant for site blocks with several keys -/
theorem server_arrays_parallel_K (dflt : Option (List BindVal)) (sites : List KSite) :
    ∀ s ∈ serversOfK dflt sites,
      s.listenProtocols = none ∨ ∃ l, s.listenProtocols = some l ∧ l.length = s.listen.length := by
  intro s hs
  simp only [serversOfK, List.mem_map] at hs
  obtain ⟨p, _, rfl⟩ := hs
  rcases tidyProtocols_parallel (p.listeners.map (·.2)) with h | ⟨l, h1, h2⟩
  · exact Or.inl h
  · exact Or.inr ⟨l, h1, by simpa [serverOf] using h2⟩

/-- keys on different ports of one block go to different servers, keys on one port stay together -/
example : (serversOfK none [⟨[("a", "8080"), ("b", "8081"), ("c", "8080")], []⟩]).map
    (fun s => (s.listen, s.blocks.flatMap keysOfCode))
    = [([":8080"], [(0, 0), (0, 2)]), ([":8081"], [(0, 1)])] := by decide

/-- protocol lines of the two counter-examples (replayed on the implementation on every run;
model and implementation agree on them, which is the point) -/
def bindWitnessLines : List String := [
  "bind 127.0.0.1/h1;127.0.0.1/h1+h2",
  "bind 127.0.0.1/h1+h2"
]

end CaddyModel.C16
