/-
C16 — theorems about the bind → servers glue (`BindGlue.lean`).

Validity clause, the part the adapter itself is responsible for: the two arrays `listen` and
`listen_protocols` of every emitted server are parallel (`server_arrays_parallel`; the http app
refuses a config where they are not — "listener protocols count does not match address
count").  Three clauses one would expect and the code as it is does NOT satisfy are stated in
full and refuted by a concrete witness (`decide`), each replayed on the implementation:
a listener address belongs to one server; the protocols of every `bind` of an address are
served; every server has a listener.
-/
import CaddyModel.C16.BindGlue

namespace CaddyModel.C16

/-- the tidy-up never changes the number of entries: it blanks entries or drops the whole array -/
theorem tidyProtocols_parallel (lps : List (List String)) :
    tidyProtocols lps = none ∨ ∃ l, tidyProtocols lps = some l ∧ l.length = lps.length := by
  unfold tidyProtocols
  split
  · exact Or.inl rfl
  · exact Or.inr ⟨_, rfl, by simp⟩

/-- FULL STRENGTH: every server the adapter emits for any list of sites has `listen_protocols`
either omitted or exactly as long as `listen` -/
theorem server_arrays_parallel (port : String) (sites : List BSite) :
    ∀ s ∈ serversOf port sites,
      s.listenProtocols = none ∨ ∃ l, s.listenProtocols = some l ∧ l.length = s.listen.length := by
  intro s hs
  simp only [serversOf, List.mem_map] at hs
  obtain ⟨p, _, rfl⟩ := hs
  rcases tidyProtocols_parallel (p.listeners.map (·.2)) with h | ⟨l, h1, h2⟩
  · exact Or.inl h
  · exact Or.inr ⟨l, h1, by simpa [serverOf] using h2⟩

/-- an entry is blanked exactly when it names no protocol -/
theorem blankDefault_none_iff (ps : List String) : blankDefault ps = none ↔ ps.all (· == "") = true := by
  unfold blankDefault
  split
  · rename_i h; simp [h]
  · rename_i h; simp [h]

example : serversOf "8080" [⟨"h0.test", [⟨["127.0.0.1"], ["h1"]⟩, ⟨["127.0.0.2"], []⟩]⟩]
    = [⟨["127.0.0.1:8080", "127.0.0.2:8080"], some [some ["h1"], none], [0]⟩] := by decide
example : tidyProtocols [["h1"], [""]] = some [some ["h1"], none] ∧ tidyProtocols [[""], [""]] = none := by decide

/-! ### clauses the code as it is violates -/

/-- FULL: a listener address is served by ONE server.  Refuted: two sites binding 127.0.0.1 with
`protocols h1` and `protocols h1 h2` become srv0 (h1, both sites) and srv1 (h2, second site) on
the same address — and srv1 has h2 without h1, which the http app refuses. -/
theorem one_address_one_server_full_fails :
    ∃ (sites : List BSite) (a b : BServer) (addr : String),
      serversOf "8080" sites = [a, b] ∧ addr ∈ a.listen ∧ addr ∈ b.listen ∧
      b.listenProtocols = some [some ["h2"]] :=
  ⟨[⟨"h0.test", [⟨["127.0.0.1"], ["h1"]⟩]⟩, ⟨"h1.test", [⟨["127.0.0.1"], ["h1", "h2"]⟩]⟩],
    ⟨["127.0.0.1:8080"], some [some ["h1"]], [0, 1]⟩, ⟨["127.0.0.1:8080"], some [some ["h2"]], [1]⟩, "127.0.0.1:8080",
    by decide⟩

/-- FULL: every protocol named by a `bind` of an address is served on it.  Refuted: a second
`bind` of the same address starts its protocol set afresh (`listeners[addr.String()]` tests the
site address, never a key of the map). -/
theorem bind_protocols_served_full_fails :
    ∃ (binds : List BindVal) (b : BindVal) (p : String),
      b ∈ binds ∧ p ∈ b.prots ∧ b.addrs = ["127.0.0.1"] ∧
      lookupS (listenersFor "8080" binds) "127.0.0.1:8080" = some ["h2"] ∧ p = "h1" :=
  ⟨[⟨["127.0.0.1"], ["h1"]⟩, ⟨["127.0.0.1"], ["h2"]⟩], ⟨["127.0.0.1"], ["h1"]⟩, "h1", by decide⟩

/-- FULL: every server has a listener.  Refuted: `bind 127.0.0.1 { protocols h1 h2 }` yields the
server and an empty "ghost" server (the shipped golden bind_fd_fdgram_h123 contains one). -/
theorem every_server_listens_full_fails :
    ∃ (sites : List BSite) (s : BServer), s ∈ serversOf "8080" sites ∧ s.listen = [] ∧ s.blocks = [] :=
  ⟨[⟨"h0.test", [⟨["127.0.0.1"], ["h1", "h2"]⟩]⟩], ⟨[], none, []⟩, by decide⟩

/-- PARTIAL: without any `protocols` block (every listener serves the default protocols) the
sites of one port come out as servers whose `listen_protocols` is omitted -/
theorem no_protocols_no_array (lps : List (List String)) (h : ∀ ps ∈ lps, ps = [""]) :
    tidyProtocols lps = none := by
  unfold tidyProtocols
  have : (lps.map blankDefault).all (· == none) = true := by
    rw [List.all_eq_true]
    intro x hx
    obtain ⟨ps, hps, rfl⟩ := List.mem_map.1 hx
    rw [h ps hps]
    decide
  rw [if_pos this]

/-- protocol lines of the three counter-examples (replayed on the implementation on every run;
model and implementation agree on them, which is the point) -/
def bindWitnessLines : List String := [
  "bind 127.0.0.1/h1;127.0.0.1/h1+h2",
  "bind 127.0.0.1/h1,127.0.0.1/h2",
  "bind 127.0.0.1/h1+h2"
]

end CaddyModel.C16
