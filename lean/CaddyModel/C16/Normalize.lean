/-
C16 — `Address.Normalize` (non-IPv6 part) with `lowerExceptPlaceholders`
(httpcaddyfile/addresses.go:454, 477) and the route shape of `handle_path`
(modules/caddyhttp/rewrite/caddyfile.go:233: which prefix is stripped for which path matcher).
ASCII inputs; a host containing `:` (an IPv6 literal, which `netip` would re-spell) is outside.
-/
import CaddyModel.C16.Addr

namespace CaddyModel.C16

def lowerB (c : UInt8) : UInt8 := if 65 ≤ c && c ≤ 90 then c + 32 else c

/-- `lowerExceptPlaceholders`: the loop with its two flags -/
def lowerEP : Bool → Bool → Bytes → Bytes
  | _, _, [] => []
  | escaped, inPH, ch :: rest =>
    if ch == 92 && !escaped then ch :: lowerEP true inPH rest
    else if ch == 123 && !escaped then ch :: lowerEP false true rest             -- inPlaceholder = true; written as is
    else if ch == 125 && inPH && !escaped then lowerB ch :: lowerEP false false rest
    else if inPH then ch :: lowerEP false inPH rest
    else lowerB ch :: lowerEP false inPH rest

def lowerExceptPlaceholders (s : Bytes) : Bytes := lowerEP false false s

/-- `a.Normalize()` for a host that is not an IPv6 literal -/
def normalize (a : Address) : Address :=
  ⟨lowerExceptPlaceholders a.scheme, lowerExceptPlaceholders (C13.trimSpace a.host), a.port, a.path⟩

/-! ### handle_path -/

/-- the prefix `handle_path <path>` strips: the path without a trailing `/*` or `*` -/
def stripPathOf (path : Bytes) : Bytes :=
  if hasSuffixB path [47, 42] then path.take (path.length - 2)
  else if hasSuffixB path [42] then path.take (path.length - 1)
  else path

/-- (path matcher, strip_path_prefix) of the route; `none`: "path matcher must begin with '/'" -/
def handlePathRoute (path : Bytes) : Option (Bytes × Bytes) :=
  if path.head? == some 47 then some (path, stripPathOf path) else none

end CaddyModel.C16
