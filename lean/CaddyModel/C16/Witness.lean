import CaddyModel.C16.Stable

namespace CaddyModel.C16

/-- counter-example lines replayed on the implementation on every run -/
def witnessLines : List String := []

end CaddyModel.C16
