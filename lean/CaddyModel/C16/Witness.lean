/-
C16 — proved counter-examples (clauses the unchanged tree violates).

1. The same-directive comparator of `sortRoutes` is not a strict weak order: incomparability
   is not transitive (`/a` ~ "matcher without a path" ~ `/abc`, yet `/abc` sorts before `/a`).
   Harmless for ONE insertion sort (the theorems of `Props.lean` hold for an arbitrary
   relation), but:
2. above 20 values `sort.SliceStable` insertion-sorts blocks of 20 and merges them, and then
   the relative order of same-directive routes depends on where OTHER directives sit:
   cross-kind order-insensitivity fails for the code as it is.  Witness: 18 `header` routes
   and three `respond` routes; moving the last `header` line behind the `respond` lines
   changes `respond /abc, respond /a, respond @m` into `respond /a, respond @m, respond /abc`
   (a request `GET /abc` is answered by a different route).  Reproduced on the real adapter
   (`witnessLines`, replayed on every run; known finding `order-dependent-output:over-20-routes`).
-/
import CaddyModel.C16.Spec
import CaddyModel.C16.Stable

namespace CaddyModel.C16

/-- `respond /a` -/
def wZ : RouteVal := ⟨"respond", true, 1, [str "/a"]⟩
/-- `respond @m` with `@m method GET`: one matcher set, no path -/
def wX : RouteVal := ⟨"respond", true, 1, []⟩
/-- `respond /abc` -/
def wY : RouteVal := ⟨"respond", true, 1, [str "/abc"]⟩
/-- `header X-k v` -/
def wH : RouteVal := ⟨"header", true, 0, []⟩

def incomparable (a b : RouteVal) : Bool := !sameDirLess a b && !sameDirLess b a

/-- FULL (expected of a sort comparator): incomparability under `sameDirLess` is transitive.
It is not. -/
theorem sameDirLess_not_strict_weak_order :
    ∃ a b c : RouteVal, a.dir = b.dir ∧ b.dir = c.dir ∧
      incomparable a b = true ∧ incomparable b c = true ∧ sameDirLess c a = true :=
  ⟨wZ, wX, wY, by decide⟩

/-- the written order: 18 × header, respond /a, respond @m, respond /abc -/
def wA : List RouteVal := List.replicate 18 wH ++ [wZ, wX, wY]
/-- the last header line moved behind the respond lines -/
def wB : List RouteVal := List.replicate 17 wH ++ [wZ, wX, wY] ++ [wH]

/-- a decidable sufficient condition for `SameKindSubsequences` -/
def sameKindSubseqB (order : List String) (l l' : List RouteVal) : Bool :=
  ((l ++ l').map (kindOf order)).all fun c =>
    l.filter (fun x => kindOf order x == c) == l'.filter (fun x => kindOf order x == c)

theorem sameKindSubsequences_of_check (order : List String) (l l' : List RouteVal)
    (h : sameKindSubseqB order l l' = true) : SameKindSubsequences order l l' := by
  intro c
  by_cases hc : c ∈ (l ++ l').map (kindOf order)
  · have := (List.all_eq_true.1 h) c hc
    simpa using this
  · have nil : ∀ (m : List RouteVal), (∀ y ∈ m, y ∈ l ++ l') → m.filter (fun y => kindOf order y == c) = [] := by
      intro m hm
      rw [List.filter_eq_nil_iff]
      intro y hy hk
      exact hc (List.mem_map.2 ⟨y, hm y hy, by simpa using hk⟩)
    rw [nil l (fun y hy => List.mem_append.2 (Or.inl hy)), nil l' (fun y hy => List.mem_append.2 (Or.inr hy))]

/-- FULL STATEMENT of the order-insensitivity clause for the sorter:
`∀ order l l', SameKindSubsequences order l l' → sortRoutes (less order) l = sortRoutes (less order) l'`.
Its negation, on the model of `sort.SliceStable` (`stable_func` + `symMerge_func`): -/
theorem sort_cross_kind_invariant_full_fails :
    ∃ (order : List String) (l l' : List RouteVal),
      SameKindSubsequences order l l' ∧ sortRoutes (less order) l ≠ sortRoutes (less order) l' :=
  ⟨Gen.defaultDirectiveOrder, wA, wB,
    sameKindSubsequences_of_check _ _ _ (by decide), by decide⟩

/-- what the two orders sort to -/
example : sortRoutes (less Gen.defaultDirectiveOrder) wA = List.replicate 18 wH ++ [wY, wZ, wX] := by decide
example : sortRoutes (less Gen.defaultDirectiveOrder) wB = List.replicate 18 wH ++ [wZ, wX, wY] := by decide

/-- protocol lines of the counter-example, replayed on the implementation on every run:
the two site blocks through the whole adapter (`eqv`: the JSON must not differ — it does). -/
def witnessLines : List String := [
  "eqv 3a38303830207b0a09406d206d6574686f64204745540a0968656164657220582d3120760a0968656164657220582d3220760a0968656164657220582d3320760a0968656164657220582d3420760a0968656164657220582d3520760a0968656164657220582d3620760a0968656164657220582d3720760a0968656164657220582d3820760a0968656164657220582d3920760a0968656164657220582d313020760a0968656164657220582d313120760a0968656164657220582d313220760a0968656164657220582d313320760a0968656164657220582d313420760a0968656164657220582d313520760a0968656164657220582d313620760a0968656164657220582d313720760a0968656164657220582d313820760a09726573706f6e64202f6120227a220a09726573706f6e6420406d202278220a09726573706f6e64202f616263202279220a7d0a 3a38303830207b0a09406d206d6574686f64204745540a0968656164657220582d3120760a0968656164657220582d3220760a0968656164657220582d3320760a0968656164657220582d3420760a0968656164657220582d3520760a0968656164657220582d3620760a0968656164657220582d3720760a0968656164657220582d3820760a0968656164657220582d3920760a0968656164657220582d313020760a0968656164657220582d313120760a0968656164657220582d313220760a0968656164657220582d313320760a0968656164657220582d313420760a0968656164657220582d313520760a0968656164657220582d313620760a0968656164657220582d313720760a09726573706f6e64202f6120227a220a09726573706f6e6420406d202278220a09726573706f6e64202f616263202279220a0968656164657220582d313820760a7d0a"
]

end CaddyModel.C16
