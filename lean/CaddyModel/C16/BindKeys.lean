/-
C16 — the bind → servers glue for site blocks with SEVERAL keys (`http://a:8080, http://b:8081 { … }`).
`mapAddressToProtocolToServerBlocks` treats every key on its own: for each listener address and
protocol it collects the keys of the block that are served there and makes a copy of the block
with just those keys; `consolidateAddrMappings` then merges (address, protocol) entries whose lists
of block copies are `reflect.DeepEqual` — same blocks AND same keys.  A block copy is encoded as
one number, `256 · block index + bit mask of its keys`, so that `BindGlue.consolidate` applies
unchanged (at most 8 keys per block).
-/
import CaddyModel.C16.BindGlue

namespace CaddyModel.C16

/-- a site block: its keys (host, port) and its `bind` directives -/
structure KSite where
  keys : List (String × String)
  binds : List BindVal
  deriving DecidableEq, Repr

/-- addr → prot → key mask, for one block -/
abbrev KeyMap := List (String × List (String × Nat))

def addKeyProt (m : KeyMap) (addr prot : String) (bit : Nat) : KeyMap :=
  setS m addr (setS ((lookupS m addr).getD []) prot ((((lookupS m addr).bind (lookupS · prot)).getD 0) ||| bit))

/-- one key: every listener address of the block for that key's port, every protocol of it -/
def addKey (dflt : Option (List BindVal)) (binds : List BindVal) (m : KeyMap) (j : Nat) (port : String) : KeyMap :=
  (listenersForD port dflt binds).foldl (fun acc (ap : String × List String) =>
    (protsOrDefault ap.2).foldl (fun acc2 prot => addKeyProt acc2 ap.1 prot (2 ^ j)) acc) m

def keyMapFrom (dflt : Option (List BindVal)) (binds : List BindVal) : KeyMap → Nat → List (String × String) → KeyMap
  | m, _, [] => m
  | m, j, (_, port) :: rest => keyMapFrom dflt binds (addKey dflt binds m j port) (j + 1) rest

/-- the block copies of block `i`, appended to the global map in sorted address / protocol order -/
def addBlockK (dflt : Option (List BindVal)) (m : AddrMap) (i : Nat) (s : KSite) : AddrMap :=
  (sortKeys ((keyMapFrom dflt s.binds [] 0 s.keys).map (·.1))).foldl (fun acc addr =>
    (sortKeys (((lookupS (keyMapFrom dflt s.binds [] 0 s.keys) addr).getD []).map (·.1))).foldl
      (fun acc2 prot => addBlockProt acc2 addr prot
        (256 * i + (((lookupS (keyMapFrom dflt s.binds [] 0 s.keys) addr).bind (lookupS · prot)).getD 0))) acc) m

def mapBlocksK (dflt : Option (List BindVal)) : AddrMap → Nat → List KSite → AddrMap
  | m, _, [] => m
  | m, i, s :: rest => mapBlocksK dflt (addBlockK dflt m i s) (i + 1) rest

/-- the servers of a Caddyfile made of these sites; `blocks` holds block-copy codes -/
def serversOfK (dflt : Option (List BindVal)) (sites : List KSite) : List BServer :=
  (consolidate (mapBlocksK dflt [] 0 sites)).map serverOf

/-- the keys (block, key index) a block-copy code stands for -/
def keysOfCode (code : Nat) : List (Nat × Nat) :=
  ((List.range 8).filter fun j => (code % 256) / 2 ^ j % 2 == 1).map fun j => (code / 256, j)

end CaddyModel.C16
