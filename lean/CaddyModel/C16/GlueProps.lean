/-
C16 — theorems about the parser glue of `ParseGlue.lean` (totality clause of the property,
carried for these two steps at full strength):

* `replaceEnvVars_total`: for every input and every environment the `{$…}` pass terminates
  within its fuel and never evaluates a slice expression out of range;
  `replaceEnvVars_plain`: text without `{$` is returned unchanged;
  `replaceEnvVars_deterministic`: the result is a function of the bytes and the environment.
* `parseVariadic_in_bounds`: whenever `parseVariadic` reports a range, `0 ≤ start ≤ end ≤ argCount`;
  `expandVariadic_never_panics`: so the `args[start:end]` of `doImport` is always in range.
-/
import CaddyModel.C16.ParseGlue

namespace CaddyModel.C16

theorem isPrefixB_length : ∀ (p s : Bytes), isPrefixB p s = true → p.length ≤ s.length
  | [], _, _ => by simp
  | _ :: _, [], h => by simp [isPrefixB] at h
  | p :: ps, s :: ss, h => by
    simp only [isPrefixB, Bool.and_eq_true] at h
    have := isPrefixB_length ps ss h.2
    simp; omega

theorem indexOfB_bound (pat : Bytes) : ∀ (s : Bytes) (i : Nat), indexOfB pat s = some i → i + pat.length ≤ s.length
  | [], i, h => by simp [indexOfB] at h
  | x :: xs, i, h => by
    unfold indexOfB at h
    split at h
    · rename_i hp
      have := isPrefixB_length pat (x :: xs) hp
      have : i = 0 := by simpa using h.symm
      omega
    · cases hrec : indexOfB pat xs with
      | none => simp [hrec] at h
      | some j =>
        simp [hrec] at h
        have := indexOfB_bound pat xs j hrec
        simp; omega

theorem envLoop_terminates (env : Bytes → Option Bytes) :
    ∀ (f : Nat) (input : Bytes) (offset : Nat), offset ≤ input.length → input.length - offset < f →
      ∃ out, envLoop env f input offset = .done out
  | 0, _, _, _, h => by omega
  | f + 1, input, offset, hle, hf => by
    unfold envLoop
    have h0 : ¬ offset > input.length := by omega
    simp only [h0, if_false]
    cases h1 : indexOfB spanOpen (input.drop offset) with
    | none => exact ⟨input, rfl⟩
    | some b =>
      have hb := indexOfB_bound spanOpen _ b h1
      simp only [spanOpen, List.length_cons, List.length_nil, List.length_drop] at hb
      have h2 : ¬ b + offset + 2 > input.length := by omega
      simp only [h2, if_false]
      cases h3 : indexOfB spanClose (input.drop (b + offset + 2)) with
      | none => exact ⟨input, rfl⟩
      | some e =>
        have he := indexOfB_bound spanClose _ e h3
        simp only [spanClose, List.length_cons, List.length_nil, List.length_drop] at he
        have h4 : ¬ e + (b + offset + 2) + 1 > input.length := by omega
        simp only [h4, if_false]
        by_cases h5 : (e == 0) = true
        · simp only [h5, if_true]
          exact envLoop_terminates env f input _ (by omega) (by omega)
        · simp only [h5]
          apply envLoop_terminates env f
          · simp only [List.length_append, List.length_take, List.length_drop]; omega
          · simp only [List.length_append, List.length_take, List.length_drop]; omega

/-- FULL STRENGTH: the environment pass is total — it ends by one of its `break`s, never by
running out of fuel and never in a slice expression out of range -/
theorem replaceEnvVars_total (env : Bytes → Option Bytes) (input : Bytes) :
    ∃ out, replaceEnvVars env input = .done out :=
  envLoop_terminates env _ input 0 (by omega) (by omega)

/-- text without `{$` is left alone -/
theorem replaceEnvVars_plain (env : Bytes → Option Bytes) (input : Bytes)
    (h : indexOfB spanOpen input = none) : replaceEnvVars env input = .done input := by
  simp [replaceEnvVars, envLoop, h]

/-- same bytes, same environment ⇒ same bytes -/
theorem replaceEnvVars_deterministic (env env' : Bytes → Option Bytes) (a b : Bytes)
    (he : env = env') (h : a = b) : replaceEnvVars env a = replaceEnvVars env' b := by rw [he, h]

example : replaceEnvVars (fun k => if k = str "A" then some (str "{$A}v") else none) (str "x{$A}y{$U:d}{$}{$U}z")
    = .done (str "x{$A}vyd{$}z") := by decide
example : indexOfB spanOpen (str "plain { $ } text") = none := by decide

/-! ### variadic ranges -/

/-- whenever a range is reported it lies inside the argument list -/
theorem parseVariadic_in_bounds (text : Bytes) (n : Nat) (s e : Int)
    (h : parseVariadic text n = some (s, e)) : 0 ≤ s ∧ s ≤ e ∧ e ≤ (n : Int) := by
  unfold parseVariadic at h
  split at h
  · simp at h
  · split at h
    · simp at h
    · split at h
      · simp at h
      · split at h
        · simp at h
        · split at h
          · simp at h
          · split at h
            · rename_i s' e' _ _
              split at h
              · simp at h
              · rename_i hb
                simp only [Option.some.injEq, Prod.mk.injEq] at h
                obtain ⟨rfl, rfl⟩ := h
                simp at hb
                omega
            · simp at h

/-- FULL STRENGTH: `doImport`'s `args[start:end]` never goes out of range -/
theorem expandVariadic_never_panics (text : Bytes) (args : List Bytes) :
    expandVariadic text args ≠ .panic := by
  unfold expandVariadic
  cases h : parseVariadic text args.length with
  | none => simp
  | some p =>
    obtain ⟨s, e⟩ := p
    have hb := parseVariadic_in_bounds text args.length s e h
    simp [sliceRange]
    exact hb

example : expandVariadic (str "{args[1:]}") [str "a", str "b", str "c"] = .args [str "b", str "c"] := by decide
example : expandVariadic (str "{args[:]}") [] = .args [] := by decide
example : parseVariadic (str "{args[2:1]}") 3 = none ∧ parseVariadic (str "{args[-1:]}") 3 = none
    ∧ parseVariadic (str "{args[0:4]}") 3 = none ∧ parseVariadic (str "{args[1]}") 3 = none := by decide

end CaddyModel.C16
