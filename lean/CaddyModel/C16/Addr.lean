/-
C16 — site addresses: `ParseAddress` (httpcaddyfile/addresses.go:373) byte by byte, and the
listener port a site key implies (`listenersForServerBlockAddress`: explicit port, else the HTTP
port for `http://`, else the HTTPS port; scheme/port combinations that violate convention and
schemes other than http/https are rejected).  `net.SplitHostPort` and `strings.TrimSpace` are the
models of C13 (`CaddyModel/C13/Listen.lean`), `strconv.Atoi` the one of `Args.lean`.
Inputs are ASCII (Go's `TrimSpace` also trims a few non-ASCII runes).
-/
import CaddyModel.C13.Listen
import CaddyModel.C16.ParseGlue

namespace CaddyModel.C16

structure Address where
  scheme : Bytes
  host : Bytes
  port : Bytes
  path : Bytes
  deriving DecidableEq, Repr

def schemeSep : Bytes := [58, 47, 47]   -- "://"

/-- the part before / after the first "://" (`strings.SplitN(s, "://", 2)`) -/
def addrScheme (r : Bytes) : Bytes := match indexOfB schemeSep r with | some i => r.take i | none => []
def addrRest (r : Bytes) : Bytes := match indexOfB schemeSep r with | some i => r.drop (i + 3) | none => r

/-- `strings.SplitN(rest, "/", 2)` -/
def addrHostPort (rest : Bytes) : Bytes := match indexOfB [47] rest with | some j => rest.take j | none => rest
def addrPath (rest : Bytes) : Bytes := match indexOfB [47] rest with | some j => 47 :: rest.drop (j + 1) | none => []

/-- `net.SplitHostPort(hp)`, on error once more with ":" appended, else the whole thing is the host -/
def hostAndPort (hp : Bytes) : Bytes × Bytes :=
  match C13.splitHostPort hp with
  | some r => r
  | none =>
    match C13.splitHostPort (hp ++ [58]) with
    | some r => r
    | none => (hp, [])

def portOK (port : Bytes) : Bool :=
  port.isEmpty ||
    (match atoi port with
     | some v => decide (0 ≤ v) && decide (v ≤ 65535)
     | none => false)

/-- `ParseAddress(str)`; `none` = error -/
def parseAddress (str : Bytes) : Option Address :=
  if portOK (hostAndPort (addrHostPort (addrRest (C13.trimSpace (str.take 4096))))).2 then
    some ⟨addrScheme (C13.trimSpace (str.take 4096)),
          (hostAndPort (addrHostPort (addrRest (C13.trimSpace (str.take 4096))))).1,
          (hostAndPort (addrHostPort (addrRest (C13.trimSpace (str.take 4096))))).2,
          addrPath (addrRest (C13.trimSpace (str.take 4096)))⟩
  else none

/-! ### the listener port of a site key -/

def sHttp : Bytes := [104, 116, 116, 112]
def sHttps : Bytes := [104, 116, 116, 112, 115]

/-- the variable `lnPort` of `listenersForServerBlockAddress`: "default port is the HTTPS port",
"port explicitly defined", "port inferred from scheme" -/
def lnPortOf (httpPort httpsPort scheme port : Bytes) : Bytes :=
  if !port.isEmpty then port else if scheme == sHttp then httpPort else httpsPort

/-- the listener port for the (lower-cased) scheme and the port of the key, given the configured
HTTP and HTTPS ports; `none` = the key is rejected -/
def listenerPort (httpPort httpsPort scheme port : Bytes) : Option Bytes :=
  if !(scheme == sHttps || scheme == sHttp || scheme.isEmpty) then none            -- ws, wss, unsupported
  else if scheme == sHttp && lnPortOf httpPort httpsPort scheme port == httpsPort then none   -- violates convention
  else if scheme == sHttps && lnPortOf httpPort httpsPort scheme port == httpPort then none
  else some (lnPortOf httpPort httpsPort scheme port)

end CaddyModel.C16
