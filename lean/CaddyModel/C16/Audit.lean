import CaddyModel.C16.Props
open CaddyModel.C16
#print axioms directiveOrder_nodup
#print axioms handle_and_handle_path_one_kind
#print axioms less_cross_kind
#print axioms insertionSort_perm
#print axioms insertionSort_follows_directive_order
#print axioms insertionSort_kind_subsequence
#print axioms insertionSort_cross_kind_invariant
#print axioms sort_cross_kind_invariant_partial
#print axioms sort_cross_kind_invariant
#print axioms sort_follows_directive_order
#print axioms sort_kind_subsequence
#print axioms sort_perm
#print axioms sameKind_of_sameDirective
#print axioms sort_reorder_directives_invariant
#print axioms sameDirLess_not_strict_weak_order
#print axioms sort_cross_kind_invariant_full_fails
#print axioms lex_total
#print axioms lex_deterministic
#print axioms sort_perm_invariant_of_distinct
