/-
C16 — theorems about the status-code encoder (WeakString.lean): whatever token text a Caddyfile parser stored,
what `WeakString.MarshalJSON` writes is a JSON value; the "integer is its own encoding" shortcut is not.
-/
import CaddyModel.C16.WeakString

namespace CaddyModel.C16

/-! ### strings -/

/-- a sequence of complete units of a JSON string body: plain bytes and whole escapes -/
def unitsOK : Bytes → Bool
  | [] => true
  | b :: rest =>
    if b == 34 then false
    else if b == 92 then
      match rest with
      | [] => false
      | e :: rest' =>
        if e == 117 then
          match rest' with
          | h1 :: h2 :: h3 :: h4 :: r => isHex h1 && isHex h2 && isHex h3 && isHex h4 && unitsOK r
          | _ => false
        else simpleEsc e && unitsOK rest'
    else 32 ≤ b && unitsOK rest

theorem strBody_units : ∀ (l r : Bytes), unitsOK l = true → strBody (l ++ r) = strBody r := by
  intro l r
  fun_induction unitsOK l with
  | case1 => intro _; rfl
  | case2 b rest h => intro h'; simp at h'
  | case3 b h1 h2 => intro h'; simp at h'
  | case4 b h1 h2 e h3 x1 x2 x3 x4 r ih =>
    intro h'
    simp only [Bool.and_eq_true] at h'
    simp only [List.cons_append]
    conv => lhs; unfold strBody
    simp [h1, h2, h3, h'.1.1.1.1, h'.1.1.1.2, h'.1.1.2, h'.1.2, ih h'.2]
  | case5 b h1 h2 e rest' h3 hne => intro h'; simp at h'
  | case6 b h1 h2 e rest' h3 ih =>
    intro h'
    simp only [Bool.and_eq_true] at h'
    simp only [List.cons_append]
    conv => lhs; unfold strBody
    simp [h1, h2, h3, h'.1, ih h'.2]
  | case7 b rest h1 h2 ih =>
    intro h'
    simp only [Bool.and_eq_true] at h'
    simp only [List.cons_append]
    conv => lhs; unfold strBody
    simp [h1, h2, h'.1, ih h'.2]


theorem escAscii_units (b : UInt8) : unitsOK (escAscii b) = true := by
  rcases b with ⟨bv⟩; revert bv; decide

theorem hexd_low_isHex (b : UInt8) : isHex (hexd (b &&& 15)) = true := by
  rcases b with ⟨bv⟩; revert bv; decide

/-- a byte ≥ 0x80 is a plain byte of a JSON string body -/
theorem high_plain (b : UInt8) : (decide (b < 128)) = false → ((b == 34) = false ∧ (b == 92) = false ∧ decide (32 ≤ b) = true) := by
  rcases b with ⟨bv⟩; revert bv; decide

theorem cont_plain (b : UInt8) : cont b = true → ((b == 34) = false ∧ (b == 92) = false ∧ decide (32 ≤ b) = true) := by
  rcases b with ⟨bv⟩; revert bv; decide

theorem unitsOK_plain (b : UInt8) (l : Bytes)
    (h : (b == 34) = false ∧ (b == 92) = false ∧ decide (32 ≤ b) = true) : unitsOK (b :: l) = unitsOK l := by
  conv => lhs; unfold unitsOK
  simp [h.1, h.2.1, h.2.2]

theorem ufffd_units : unitsOK ufffd = true := by decide

/-- whatever one step of appendString writes is a sequence of complete units -/
theorem step_units (b : UInt8) (rest : Bytes) : unitsOK (step b rest).1 = true := by
  unfold step
  by_cases hb : b < 128
  · simp [hb, escAscii_units]
  · have hp := high_plain b (by simp [hb])
    simp only [hb, if_false]
    split
    · split
      · split
        · rename_i b1 _ hc
          rw [unitsOK_plain b _ hp, unitsOK_plain b1 _ (cont_plain b1 hc)]; rfl
        · exact ufffd_units
      · exact ufffd_units
    · split
      · split
        · split
          · rename_i b1 b2 _ hc
            split
            · show unitsOK [92, 117, 50, 48, 50, hexd (b2 &&& 15)] = true
              have h1 := hexd_low_isHex b2
              have h2 : isHex 50 = true := by decide
              have h3 : isHex 48 = true := by decide
              simp [unitsOK, h1, h2, h3]
            · simp only [Bool.and_eq_true] at hc
              rw [unitsOK_plain b _ hp, unitsOK_plain b1 _ (cont_plain b1 hc.1.1), unitsOK_plain b2 _ (cont_plain b2 hc.2)]; rfl
          · exact ufffd_units
        · exact ufffd_units
      · split
        · split
          · split
            · rename_i b1 b2 b3 _ hc
              simp only [Bool.and_eq_true] at hc
              rw [unitsOK_plain b _ hp, unitsOK_plain b1 _ (cont_plain b1 hc.1.1.1), unitsOK_plain b2 _ (cont_plain b2 hc.1.2),
                unitsOK_plain b3 _ (cont_plain b3 hc.2)]; rfl
            · exact ufffd_units
          · exact ufffd_units
        · exact ufffd_units

/-- the body `quoteGo` writes is a JSON string body, closing quote included -/
theorem quoteGo_strBody : ∀ (bs : Bytes) (k : Nat), strBody (quoteGo k bs) = true := by
  intro bs
  induction bs with
  | nil =>
    intro k
    have : quoteGo k [] = [34] := by cases k <;> rfl
    rw [this]; decide
  | cons b rest ih =>
    intro k
    cases k with
    | succ k => simpa [quoteGo] using ih k
    | zero =>
      simp only [quoteGo]
      rw [strBody_units _ _ (step_units b rest)]
      exact ih _

/-- json.Marshal of ANY byte string is a JSON string -/
theorem jsonQuote_is_string (s : Bytes) : isJsonString (jsonQuote s) = true := by
  simp [jsonQuote, isJsonString, quoteGo_strBody]


/-! ### integers -/

theorem dropDigits_all : ∀ (ds : Bytes), ds.all isDigit = true → dropDigits ds = [] := by
  intro ds
  induction ds with
  | nil => intro _; rfl
  | cons d t ih =>
    intro h
    simp only [List.all_cons, Bool.and_eq_true] at h
    simp [dropDigits, h.1, ih h.2]

/-- a digit other than `0` starts a JSON number whose other bytes are digits -/
theorem digits_number (d : UInt8) (t : Bytes) (hd : isDigit d = true) (h0 : (d == 48) = false)
    (ht : t.all isDigit = true) : isJsonNumber (d :: t) = true := by
  have h45 : (d == 45) = false := by
    revert hd; rcases d with ⟨bv⟩; revert bv; decide
  have hr : (decide (49 ≤ d) && decide (d ≤ 57)) = true := by
    revert hd h0; rcases d with ⟨bv⟩; revert bv; decide
  have hf : fracExp [] = true := by decide
  simp [isJsonNumber, h45, h0, hr, dropDigits_all t ht, hf]

theorem neg_digits_number (d : UInt8) (t : Bytes) (hd : isDigit d = true) (h0 : (d == 48) = false)
    (ht : t.all isDigit = true) : isJsonNumber (45 :: d :: t) = true := by
  have hr : (decide (49 ≤ d) && decide (d ≤ 57)) = true := by
    revert hd h0; rcases d with ⟨bv⟩; revert bv; decide
  have hf : fracExp [] = true := by decide
  simp [isJsonNumber, h0, hr, dropDigits_all t ht, hf]

/-- stripping zeros of a non-empty digit string leaves `0` alone or a digit string that does not start with `0` -/
theorem stripZeros_spec : ∀ (ds : Bytes), ds ≠ [] → ds.all isDigit = true →
    ∃ d t, stripZeros ds = d :: t ∧ isDigit d = true ∧ t.all isDigit = true ∧ (t = [] ∨ (d == 48) = false) := by
  intro ds
  induction ds with
  | nil => intro h; exact absurd rfl h
  | cons d t ih =>
    intro _ hall
    simp only [List.all_cons, Bool.and_eq_true] at hall
    cases t with
    | nil => exact ⟨d, [], rfl, hall.1, rfl, Or.inl rfl⟩
    | cons e t' =>
      by_cases hz : (d == 48) = true
      · have := ih (by simp) hall.2
        simpa [stripZeros, hz] using this
      · refine ⟨d, e :: t', ?_, hall.1, hall.2, Or.inr (by simpa using hz)⟩
        simp [stripZeros, hz]

/-- `strconv.FormatInt` of a value written as sign + digits is a JSON number -/
theorem intText_is_number (neg : Bool) (ds : Bytes) (hne : ds ≠ []) (hall : ds.all isDigit = true) :
    isJsonNumber (intText neg ds) = true := by
  obtain ⟨d, t, hz, hd, ht, hor⟩ := stripZeros_spec ds hne hall
  unfold intText
  simp only [hz]
  by_cases h48 : (d :: t == [48]) = true
  · simp only [h48, if_true]; decide
  · simp only [h48]
    have h0 : (d == 48) = false := by
      cases hor with
      | inl h => subst h; simpa using h48
      | inr h => exact h
    cases neg with
    | true => simpa using neg_digits_number d t hd h0 ht
    | false => simpa using digits_number d t hd h0 ht

theorem signDigits_other (s : Bytes) (h1 : s = [] → False) (h2 : ∀ ds, s = 45 :: ds → False)
    (h3 : ∀ ds, s = 43 :: ds → False) : signDigits s = (false, s) := by
  unfold signDigits
  split
  · exact absurd rfl h1
  · exact absurd rfl (h2 _)
  · exact absurd rfl (h3 _)
  · rfl

/-- what `strconv.Atoi` accepts is an optional sign and a non-empty string of decimal digits -/
theorem atoi_some_digits (s : Bytes) (v : Int) (h : atoi s = some v) :
    (signDigits s).2 ≠ [] ∧ (signDigits s).2.all isDigit = true := by
  unfold atoi at h
  split at h
  · simp at h
  · rename_i ds
    have hs : signDigits (45 :: ds) = (true, ds) := rfl
    rw [hs]
    by_cases hc : (!ds.isEmpty && ds.all isDigit) = true
    · simp only [Bool.and_eq_true, Bool.not_eq_true', List.isEmpty_eq_false_iff] at hc
      exact ⟨hc.1, hc.2⟩
    · simp [hc] at h
  · rename_i ds
    have hs : signDigits (43 :: ds) = (false, ds) := rfl
    rw [hs]
    by_cases hc : (!ds.isEmpty && ds.all isDigit) = true
    · simp only [Bool.and_eq_true, Bool.not_eq_true', List.isEmpty_eq_false_iff] at hc
      exact ⟨hc.1, hc.2⟩
    · simp [hc] at h
  · rename_i h1 h2 h3
    rw [signDigits_other s h1 h2 h3]
    by_cases hc : s.all isDigit = true
    · exact ⟨fun hx => h1 hx, hc⟩
    · simp [hc] at h

/-! ### the clause across the glue -/

/-- WHATEVER token text a Caddyfile parser stored as a status code, `WeakString.MarshalJSON` writes a JSON value:
a boolean, a JSON number (never `0200`, `+404`, `-007`: the value is re-encoded) or a JSON string.  So the handler
that carries it marshals, and the adapter cannot lose it on the way to the output. -/
theorem weakMarshal_is_json (s : Bytes) : isJsonValue (weakMarshal s) = true := by
  unfold weakMarshal
  by_cases ht : (s == str "true") = true
  · simp only [ht, if_true]; decide
  · by_cases hf : (s == str "false") = true
    · simp only [ht, hf, if_true]; decide
    · simp only [ht, hf]
      cases ha : atoi s with
      | some v =>
        have := atoi_some_digits s v ha
        simp [isJsonValue, intText_is_number _ _ this.1 this.2]
      | none =>
        simp [isJsonValue, jsonQuote_is_string]

/-- the shortcut "an integer is its own JSON encoding" writes text that is not JSON for tokens Atoi accepts -/
theorem weakMarshal_verbatim_fails :
    isJsonValue (weakMarshalVerbatim (str "0200")) = false ∧
    isJsonValue (weakMarshalVerbatim (str "+404")) = false ∧
    isJsonValue (weakMarshalVerbatim (str "-007")) = false := by decide

/-- … which the encoder re-spells as the value -/
theorem weakMarshal_respells :
    weakMarshal (str "0200") = str "200" ∧ weakMarshal (str "+404") = str "404" ∧
    weakMarshal (str "-007") = str "-7" ∧ weakMarshal (str "-0") = str "0" := by decide

example : weakMarshal (str "1e3") = [34, 49, 101, 51, 34] := by decide
example : weakMarshal (str "a<b") = str "\"a\\u003cb\"" := by decide
example : weakMarshal (str "99999999999999999999") = 34 :: (str "99999999999999999999" ++ [34]) := by decide

-- non-vacuity: all three kinds of value occur, and the recognisers reject what is not JSON
example : isJsonNumber (weakMarshal (str "007")) = true ∧ isJsonString (weakMarshal (str "x y")) = true ∧
    weakMarshal (str "true") = str "true" := by decide
example : isJsonValue (str "0200") = false := by decide
example : isJsonValue (str "+1") = false := by decide
example : isJsonValue [34, 97] = false := by decide
example : isJsonValue [34, 97, 92, 120, 34] = false := by decide
example : isJsonValue (str "1.") = false := by decide
example : isJsonValue (str "-") = false := by decide
example : isJsonValue (str "1e3") = true := by decide
example : isJsonValue (str "-0.5E+7") = true := by decide
example : isJsonValue [34, 92, 117, 48, 48, 101, 57, 34] = true := by decide
example : (step 226 [128, 168, 65]).1 = [92, 117, 50, 48, 50, 56] := by decide
example : (step 226 [128, 168, 65]).2 = 2 := by decide
example : (step 237 [160, 128]).1 = ufffd := by decide

end CaddyModel.C16
