/-
C16 — theorems about the `servers` option glue (`ServerOpts.lean`): determinism and validity
clauses of the property for this step, at full strength since 42cbd3d.

* `applyServerOptions_no_server_lost`: an accepted file keeps every server, with its listen
  addresses, in place;
* `applyServerOptions_names_distinct`: the final names are pairwise distinct (the JSON object
  `servers` has one key per server);
* `option_applied_matches`: the block applied to a server has no address or one of the server's;
* the result is a function of the options and the servers — there is no iteration-order
  argument left; `rename_old_code_fails` keeps the counter-example of the loop before: the swap
  of two default names gives different servers under different orders and loses one either way.
-/
import CaddyModel.C16.ServerOpts

namespace CaddyModel.C16

theorem hasDup_false_nodup : ∀ l : List String, hasDup l = false → l.Nodup
  | [], _ => List.nodup_nil
  | x :: xs, h => by
    simp only [hasDup, Bool.or_eq_false_iff] at h
    refine List.nodup_cons.2 ⟨?_, hasDup_false_nodup xs h.2⟩
    simpa using h.1

/-- FULL STRENGTH: whatever the option blocks, an accepted file keeps every server (same number,
same listen addresses, same order) — no site is lost -/
theorem applyServerOptions_no_server_lost (opts : List SrvOpt) (servers res : List Srv)
    (h : applyServerOptions opts servers = some res) :
    res.length = servers.length ∧ res.map (·.listen) = servers.map (·.listen) := by
  unfold applyServerOptions at h
  split at h
  · simp at h
  · split at h
    · simp at h
    · split at h
      · simp at h
      · have : res = servers.map (applyOne (sortOpts opts)) := by simpa using h.symm
        subst this
        refine ⟨by simp, ?_⟩
        rw [List.map_map]
        apply List.map_congr_left
        intro s _
        simp only [Function.comp, applyOne]
        split <;> rfl

/-- FULL STRENGTH: the final server names of an accepted file are pairwise distinct -/
theorem applyServerOptions_names_distinct (opts : List SrvOpt) (servers res : List Srv)
    (h : applyServerOptions opts servers = some res) : (res.map (·.name)).Nodup := by
  unfold applyServerOptions at h
  split at h
  · simp at h
  · split at h
    · simp at h
    · split at h
      · simp at h
      · rename_i hd
        have : res = servers.map (applyOne (sortOpts opts)) := by simpa using h.symm
        subst this
        exact hasDup_false_nodup _ (by simpa using hd)

/-- the block applied to a server is a global one or names one of its listen addresses -/
theorem option_applied_matches (sorted : List SrvOpt) (s : Srv) (o : SrvOpt)
    (h : optFor sorted s = some o) : o.addr = "" ∨ o.addr ∈ s.listen := by
  have := List.find?_some h
  simpa using this

example : applyServerOptions [⟨":8080", some "srv1", none⟩, ⟨":8082", some "srv0", some 5⟩]
    [⟨"srv0", [":8080"], none⟩, ⟨"srv1", [":8082"], none⟩]
    = some [⟨"srv1", [":8080"], none⟩, ⟨"srv0", [":8082"], some 5⟩] := by decide
example : applyServerOptions [⟨":8080", some "srv1", none⟩]
    [⟨"srv0", [":8080"], none⟩, ⟨"srv1", [":8082"], none⟩] = none := by decide
example : applyServerOptions [⟨"", none, some 7⟩, ⟨":8082", none, some 3⟩]
    [⟨"srv0", [":8080"], none⟩, ⟨"srv1", [":8082"], none⟩]
    = some [⟨"srv0", [":8080"], some 7⟩, ⟨"srv1", [":8082"], some 3⟩] := by decide

/-- NON-VACUITY (the loop before 42cbd3d): swapping the default names of two servers — the two
possible map iteration orders leave different servers, and each loses one -/
theorem rename_old_code_fails :
    ∃ (m : List (String × Srv)) (r1 r2 : List (String × String)),
      r1.Perm r2 ∧ renameOld r1 m ≠ renameOld r2 m ∧
      (renameOld r1 m).length < m.length ∧ (renameOld r2 m).length < m.length :=
  ⟨[("srv0", ⟨"srv0", [":8080"], none⟩), ("srv1", ⟨"srv1", [":8082"], none⟩)],
   [("srv0", "srv1"), ("srv1", "srv0")], [("srv1", "srv0"), ("srv0", "srv1")],
   List.Perm.swap _ _ _, by decide, by decide, by decide⟩

end CaddyModel.C16
