/-
C16 line-protocol driver.

  order                          the directive order table          → `order a,b,c,…`
  sort <order> <items>           sortRoutes on described values     → `ok i,j,…` | `ok .`
  site <variant> <items>         a generated site block through the whole adapter; the model's
                                 answer is that of `sort = <items>` (variant = spelling choices)
  adapt|madapt <text>            adapter-wide clauses (totality, determinism, validity): evaluated by
                                 the implementation-side oracle only; the model answers for the
                                 first stage, the lexer                     → `lex:ok:<#tokens>` | `lex:err`
  hist <file>/<file>/…           a PROCESS adapting several generated files in turn (nothing reset in
                                 between); file = <ops>~<variant>~<items>, ops = `.` | op,op,…
                                 op = f:dir | l:dir | b:dir:other | a:dir:other  (`order dir first|last|before|after other`)
                                                                            → `ok i,j,…|rej|…` one answer per file
  argidx <b|d> <idx> <n>         `{args[idx]}` (b) / `{args.idx}` (d) inside a snippet imported with the
                                 n arguments a0 … a(n-1)                    → `val <hex>` | `kept` | `panic`
  ws <text>                      `caddyhttp.WeakString(text).MarshalJSON()` through json.Marshal (the encoder of every
                                 status code the adapter emits)                → `ok <hex>` | `err` (never, says the model)
  env <input> <table>            `replaceEnvVars` (the `{$NAME:default}` pass before lexing) under the environment
                                 <table> = `.` | name:value;…  (hex; the process environment is exactly that)
                                                                            → `ok <hex>` | `panic` | `fuel`
  var <text> <n>                 `parseVariadic` on a token with that text and n import arguments
                                                                            → `no` | `yes <start> <end>`
  kbind <sites>                  site blocks with several keys: site = ports~binds, ports = p+p+… (p ∈ 0,1 → 8080, 8081;
                                 key j of site i is http://h<i>k<j>.test:<port>), binds as in `bind` (`.` = none)
                                                                            → `L=… P=… K=i.j,…|…` one per server
  dbind <dflt> <sites>           like `bind`, with `default_bind` global options <dflt> = bind,bind,… (a bind address `0`
                                 stands for "no address": `default_bind { protocols … }`)
  bind <sites>                   site blocks `http://h<i>.test:8080 { bind … }` through the whole adapter: the
                                 servers' listen / listen_protocols / sites.  <sites> = site;site;…  site = `.` (no
                                 bind) | bind,bind,…  bind = addr+addr/prot+prot (`-` = no protocols block)
                                                                            → `L=a,b P=<none|h1+h2,-> B=0,1|…` one per server
  sopts <sites> <opts>           sites on port 8080+2i, listening on `:port` (1) or, through `bind 127.0.0.1 127.0.0.2`, on two addresses (2) and `servers` option blocks
                                 <opts> = `.` | a/n/d;…   a = `*` (no address) | i.k (port k of site i)   n = `-` | name
                                 d = `-` | idle seconds; through the whole adapter       → `name=:p+:q:idle|…` (by name) | `rej`
  addr <text>                    `ParseAddress` on ASCII bytes              → `ok <scheme> <host> <port> <path>` (hex) | `err`
  norm <text>                    `ParseAddress(text).Normalize()` on ASCII bytes → `ok <scheme> <host> <port> <path>` | `err` | `v6`
                                 (`v6`: the host contains `:`; netip's re-spelling of IPv6 literals is outside the model)
  hp <path>                      `handle_path <path> { respond x }` through the whole adapter → `ok <matcher> <strip>` | `rej`
  lnp <scheme> <port>            the site key [<scheme>://]a.test[:<port>] through the whole adapter: the port of
                                 the listener address                       → `ok <port>` | `rej`
  nr <routes> <site>             named routes `&(name) { … }` and a site invoking them: no directive lost, every invoked
                                 route emitted — oracle only                                  → `oracle-only`
  rename <n> <opts>              n sites on ports 8080+i and `servers :<port> { name … }` options (i:name,…): repeated
                                 adaptation and "no server lost", oracle only                 → `oracle-only`
  perm <text> <seed>             \
  fauth <args>                   `forward_auth … { copy_headers <args> }` through the whole adapter (args = from[>to];…):
                                 the copy routes in order                   → `To<From,To<From,…`
  imp <defs>                     import expansion under the cycle check through caddyfile.Parse: defs = def;def;…  def 0 =
                                 `b=<items>` (site block body), def k = `s=<items>` (snippet s<k>) | `f=<items>` (file f<k>.conf),
                                 items = `-` | m<N> (directive line) , i<K> (import of def K)   → `ok <markers>` | `cycle` | `missing`
  dadapt <text>                  a text with case-variant duplicate names, adapted 64 times (oracle only) → `oracle-only`
  nmeq <textA> <textB>           like eqv, for sites whose named matchers are used at top level, in nested blocks and
                                 inside handle_errors (plus "a named matcher means the same at every use")
  eqv <textA> <textB>             | oracle only, no model answer            → `oracle-only`
  leak <textP> <textT>           /

  <order> = `=` (the default table) | `.` (empty) | name,name,…        name = [a-z_0-9]+
  <items> = `.` | item;item;…    item = name:<r|n>:<nsets 0-9>:<paths>
  <paths> = `.` (no path matcher) | hex,hex,…  (`-` = empty string)
-/
import CaddyModel.C16.Model
import CaddyModel.C16.Import
import CaddyModel.C16.Stable
import CaddyModel.C16.LexProps
import CaddyModel.C16.History
import CaddyModel.C16.Args
import CaddyModel.C16.ParseGlue
import CaddyModel.C16.BindGlue
import CaddyModel.C16.BindKeys
import CaddyModel.C16.ServerOpts
import CaddyModel.C16.Addr
import CaddyModel.C16.Normalize
import CaddyModel.C16.MapSort
import CaddyModel.C16.WeakString

namespace CaddyModel.C16

def nameChar (c : Char) : Bool := ('a' ≤ c && c ≤ 'z') || c == '_' || ('0' ≤ c && c ≤ '9')

def nameOK (s : String) : Bool := !s.isEmpty && s.toList.all nameChar

/-- canonical lower-case hex only (the harness rejects anything else) -/
def hexField (s : String) : Option Bytes :=
  match Hex.decode s with
  | some b => if Hex.encode b == s then some b else none
  | none => none

def canonNat (s : String) : Option Nat :=
  match s.toNat? with
  | some n => if toString n == s then some n else none
  | none => none

def parseOrder (s : String) : Option (List String) :=
  if s == "=" then some Gen.defaultDirectiveOrder
  else if s == "." then some []
  else
    let names := s.splitOn ","
    if names.all nameOK then some names else none

def parsePaths (s : String) : Option (List Bytes) :=
  if s == "." then some [] else (s.splitOn ",").mapM hexField

def parseItem (s : String) : Option RouteVal :=
  match s.splitOn ":" with
  | [d, rn, ns, ps] =>
    if !nameOK d then none else
    match (if rn == "r" then some true else if rn == "n" then some false else none), canonNat ns, parsePaths ps with
    | some r, some n, some p => if n ≤ 9 then some ⟨normalizeDirectiveName d, r, n, p⟩ else none
    | _, _, _ => none
  | _ => none

def parseItems (s : String) : Option (List RouteVal) :=
  if s == "." then some [] else (s.splitOn ";").mapM parseItem

def showIdx (l : List Nat) : String :=
  if l.isEmpty then "." else ",".intercalate (l.map toString)

def answerSort (order : List String) (items : List RouteVal) : String :=
  "ok " ++ showIdx ((sortRoutes (fun (a b : Nat × RouteVal) => less order a.2 b.2)
      ((List.range items.length).zip items)).map (·.1))

/-! `site`: the shapes a Caddyfile line can realise (mirrors `shapeOK` of the harness) -/

def siteDirs : List String :=
  ["map", "vars", "fs", "root", "log_append", "log_name", "header", "redir", "method", "rewrite", "uri",
   "request_header", "templates", "handle", "handle_path", "route", "error", "respond",
   "reverse_proxy", "php_fastcgi", "file_server", "tracing", "push"]

def sitePathChar (c : UInt8) : Bool :=
  (97 ≤ c && c ≤ 122) || (48 ≤ c && c ≤ 57) || c == 47 || c == 42 || c == 46 || c == 95 || c == 45

def sitePathOK (p : Bytes) : Bool := p.head? == some 47 && p.all sitePathChar

/-- `rawDir` is the name as written (before `handle_path ↦ handle`), `hasPaths` = a path matcher is present -/
def siteShapeOK (rawDir : String) (hasPaths : Bool) (x : RouteVal) : Bool :=
  siteDirs.contains rawDir && x.paths.all sitePathOK &&
  (if !x.isRoute then rawDir == "php_fastcgi" && x.nsets == 0 && !hasPaths
   else if rawDir == "php_fastcgi" && x.nsets == 0 then false
   else if rawDir == "handle_path" then x.nsets == 1 && x.paths.length == 1
   else if x.nsets == 0 then !hasPaths
   else if x.nsets == 1 then (!hasPaths || x.paths.length == 1 || x.paths.length == 2)
   else false)

def siteItemOK (s : String) : Bool :=
  match s.splitOn ":", parseItem s with
  | [d, _, _, ps], some x => siteShapeOK d (ps != ".") x
  | _, _ => false

/-! `hist` -/

def parseOp (s : String) : Option OrderOp :=
  match s.splitOn ":" with
  | ["f", d] => if Gen.defaultDirectiveOrder.contains d then some (.first d) else none
  | ["l", d] => if Gen.defaultDirectiveOrder.contains d then some (.last d) else none
  | ["b", d, o] => if Gen.defaultDirectiveOrder.contains d && nameOK o then some (.before d o) else none
  | ["a", d, o] => if Gen.defaultDirectiveOrder.contains d && nameOK o then some (.after d o) else none
  | _ => none

def parseOps (s : String) : Option (List OrderOp) :=
  if s == "." then some [] else (s.splitOn ",").mapM parseOp

def parseHistFile (s : String) : Option CFile :=
  match s.splitOn "~" with
  | [ops, variant, items] =>
    match parseOps ops, canonNat variant, parseItems items with
    | some o, some _, some its =>
      if items == "." || (items.splitOn ";").all siteItemOK then some ⟨o, its⟩ else none
    | _, _, _ => none
  | _ => none

/-- one file of a history: the model's `adapt` decides acceptance and the order left behind;
the indices come from the same sort carried out on (index, value) pairs -/
def answerHistFile (g : List String) (f : CFile) : String :=
  match (adapt Gen.defaultDirectiveOrder g f).1 with
  | .rejected => "rej"
  | .ok sorted =>
    if (sortRoutes (fun (a b : Nat × RouteVal) => less (applyOps Gen.defaultDirectiveOrder g f.ops).1 a.2 b.2)
        ((List.range f.routes.length).zip f.routes)).map (·.2) == sorted then
      answerSort (applyOps Gen.defaultDirectiveOrder g f.ops).1 f.routes
    else "model-inconsistent"

def answerHist : List String → List CFile → List String
  | _, [] => []
  | g, f :: fs => answerHistFile g f :: answerHist (adapt Gen.defaultDirectiveOrder g f).2 fs

/-! `argidx` -/

def idxChar (c : UInt8) : Bool :=
  (48 ≤ c && c ≤ 57) || c == 43 || c == 45 || (97 ≤ c && c ≤ 122) || c == 95 || c == 46 || c == 58

def argList (n : Nat) : List Bytes := (List.range n).map fun i => [97, (48 + i).toUInt8]

def showArgRes : ArgRes → String
  | .val a => "val " ++ Hex.encode a
  | .kept => "kept"
  | .panic => "panic"

/-! `env`, `var` -/

def envNameOK (k : Bytes) : Bool := !k.isEmpty && !k.contains 61 && !k.contains 0

def parseEnvTable (s : String) : Option (List (Bytes × Bytes)) :=
  if s == "." then some [] else
  (s.splitOn ";").mapM fun kv =>
    match kv.splitOn ":" with
    | [k, v] =>
      match hexField k, hexField v with
      | some kb, some vb => if envNameOK kb && !vb.contains 0 then some (kb, vb) else none
      | _, _ => none
    | _ => none

/-- `os.LookupEnv` in a process whose environment is exactly the table (a later `Setenv` of the
same name overwrites an earlier one) -/
def envOfTable (l : List (Bytes × Bytes)) : Bytes → Option Bytes :=
  fun k => (l.reverse.find? (·.1 == k)).map (·.2)

def showEnvRes : EnvRes → String
  | .done o => "ok " ++ Hex.encode o
  | .panic => "panic"
  | .fuel => "fuel"

/-! `bind` -/

def bindAddrOK (a : String) : Bool := !a.isEmpty && a.toList.all fun c => ('0' ≤ c && c ≤ '9') || c == '.'
def bindProtOK (p : String) : Bool := p == "h1" || p == "h2" || p == "h3"

def parseBind (s : String) : Option BindVal :=
  match s.splitOn "/" with
  | [as, ps] =>
    if (as.splitOn "+").all bindAddrOK && (ps == "-" || (ps.splitOn "+").all bindProtOK) then
      some ⟨as.splitOn "+", if ps == "-" then [] else ps.splitOn "+"⟩
    else none
  | _ => none

def parseBSites (s : String) : Option (List BSite) :=
  ((s.splitOn ";").zip (List.range (s.splitOn ";").length)).mapM fun (t, i) =>
    if t == "." then some ⟨"h" ++ toString i ++ ".test", []⟩
    else ((t.splitOn ",").mapM parseBind).map fun bs => ⟨"h" ++ toString i ++ ".test", bs⟩

def showLP : Option (List (Option (List String))) → String
  | none => "none"
  | some l => ",".intercalate (l.map fun | none => "-" | some ps => "+".intercalate ps)

def showBServer (b : BServer) : String :=
  "L=" ++ ",".intercalate b.listen ++ " P=" ++ showLP b.listenProtocols ++ " B=" ++ ",".intercalate (b.blocks.map toString)

/-! `sopts` -/

/-- the listen addresses of the sites, in file order -/
def parseSitesListen (s : String) : Option (List (List String)) :=
  ((s.splitOn ",").zip (List.range (s.splitOn ",").length)).mapM fun (t, i) =>
    if t == "1" then some [":" ++ toString (8080 + 2 * i)]
    else if t == "2" then some ["127.0.0.1:" ++ toString (8080 + 2 * i), "127.0.0.2:" ++ toString (8080 + 2 * i)]
    else none

/-- default names: pairings are numbered in the order `consolidateAddrMappings` meets them while it
walks the sorted listener addresses (`BindGlue.consolidate`), i.e. by smallest address -/
def defaultName (all : List (List String)) (l : List String) : String :=
  "srv" ++ toString ((all.filter fun o => decide (o.headD "" < l.headD "")).length)

def parseSitesPorts (s : String) : Option (List Srv) :=
  (parseSitesListen s).map fun ls => ls.map fun l => ⟨defaultName ls l, l, none⟩

def parseSrvOpt (servers : List Srv) (s : String) : Option SrvOpt :=
  match s.splitOn "/" with
  | [a, n, d] =>
    let addr : Option String :=
      if a == "*" then some "" else
      match a.splitOn "." with
      | [i, k] =>
        match canonNat i, canonNat k with
        | some i', some k' => (servers[i']?).bind fun sv => sv.listen[k']?
        | _, _ => none
      | _ => none
    let name : Option (Option String) :=
      if n == "-" then some none
      else if nameOK n && !n.contains '_' && a != "*" then some (some n) else none
    let idle : Option (Option Nat) :=
      if d == "-" then some none
      else match canonNat d with
        | some v => if 1 ≤ v && v ≤ 99 then some (some v) else none
        | none => none
    match addr, name, idle with
    | some a', some n', some d' => some ⟨a', n', d'⟩
    | _, _, _ => none
  | _ => none

def showSrv (s : Srv) : String :=
  s.name ++ "=" ++ "+".intercalate s.listen ++ ":" ++ (match s.idle with | none => "-" | some v => toString v)

/-! `addr`, `lnp` -/

def asciiOnly (b : Bytes) : Bool := b.all (· < 128)

def lowerA (b : Bytes) : Bytes := b.map fun c => if 65 ≤ c && c ≤ 90 then c + 32 else c

def siteKeyText (scheme port : Bytes) : Bytes :=
  (if scheme.isEmpty then [] else scheme ++ schemeSep) ++ str "a.test" ++ (if port.isEmpty then [] else 58 :: port)

def parseImpItem (s : String) : Option Import.Item :=
  match s.toList with
  | 'm' :: ds => (canonNat (String.ofList ds)).bind fun n => if n ≤ 99 then some (.marker n) else none
  | 'i' :: ds => (canonNat (String.ofList ds)).bind fun n => if 1 ≤ n && n ≤ 99 then some (.imp n) else none
  | _ => none

def parseImpDef (k : Nat) (s : String) : Option Import.Def :=
  match s.toList with
  | c :: '=' :: rest =>
    if rest.isEmpty then none else
    if (k == 0) != (c == 'b') || (k > 0 && c != 's' && c != 'f') then none else
    let body := String.ofList rest
    if body == "-" then some ⟨c == 's', []⟩ else
    match (body.splitOn ",").mapM parseImpItem with
    | some its => if its.length ≤ 6 then some ⟨c == 's', its⟩ else none
    | none => none
  | _ => none

def answerImp (field : String) : String :=
  let parts := field.splitOn ";"
  if parts.length > 8 then "bad-op" else
  match (parts.zipIdx).mapM (fun (p : String × Nat) => parseImpDef p.2 p.1) with
  | none => "bad-op"
  | some defs =>
    match Import.run defs with
    | .ok ms => "ok " ++ (if ms.isEmpty then "-" else ",".intercalate (ms.map toString))
    | .cycle => "cycle"
    | .missing => "missing"
    | .noNode => "no-node"
    | .fuel => "fuel"

def handle : List String → String
  | ["imp", defs] => answerImp defs
  | ["addr", t] =>
    match hexField t with
    | some b =>
      if !asciiOnly b then "bad-op" else
      match parseAddress b with
      | some a => "ok " ++ Hex.encode a.scheme ++ " " ++ Hex.encode a.host ++ " " ++ Hex.encode a.port ++ " " ++ Hex.encode a.path
      | none => "err"
    | none => "bad-op"
  | ["norm", t] =>
    match hexField t with
    | some b =>
      if !asciiOnly b then "bad-op" else
      match parseAddress b with
      | some a =>
        if (C13.trimSpace a.host).contains 58 then "v6" else
        "ok " ++ Hex.encode (normalize a).scheme ++ " " ++ Hex.encode (normalize a).host ++ " " ++
          Hex.encode (normalize a).port ++ " " ++ Hex.encode (normalize a).path
      | none => "err"
    | none => "bad-op"
  | ["hp", t] =>
    match hexField t with
    | some b =>
      if !b.isEmpty && b.all sitePathChar then
        match handlePathRoute b with
        | some (m, st) => "ok " ++ Hex.encode m ++ " " ++ Hex.encode st
        | none => "rej"
      else "bad-op"
    | none => "bad-op"
  | ["lnp", sc, po] =>
    match hexField sc, hexField po with
    | some s, some p =>
      if s.all (fun c => (65 ≤ c && c ≤ 90) || (97 ≤ c && c ≤ 122)) && p.all (fun c => 48 ≤ c && c ≤ 57) && p.length ≤ 5 then
        match parseAddress (siteKeyText s p) with
        | some a =>
          (match listenerPort (str "80") (str "443") (lowerA a.scheme) a.port with
           | some lp => "ok " ++ bytesToString lp
           | none => "rej")
        | none => "rej"
      else "bad-op"
    | _, _ => "bad-op"
  | ["sopts", sites, opts] =>
    match parseSitesPorts sites with
    | some servers =>
      if servers.length > 6 then "bad-op" else
      match (if opts == "." then some [] else (opts.splitOn ";").mapM (parseSrvOpt servers)) with
      | some os =>
        if os.length > 8 then "bad-op" else
        match applyServerOptions os servers with
        | none => "rej"
        | some res => "|".intercalate ((insertionSort (fun (a b : Srv) => decide (a.name < b.name)) res).map showSrv)
      | none => "bad-op"
    | none => "bad-op"
  | ["kbind", sites] =>
    let parseSite := fun (t : String) =>
      match t.splitOn "~" with
      | [ps, bs] =>
        let ports := (ps.splitOn "+").mapM fun p => if p == "0" then some "8080" else if p == "1" then some "8081" else none
        let binds := if bs == "." then some [] else (bs.splitOn ",").mapM parseBind
        match ports, binds with
        | some pl, some bl =>
          if pl.length ≤ 4 then some (KSite.mk (((List.range pl.length).zip pl).map fun (jp : Nat × String) => ("k" ++ toString jp.1, jp.2)) bl) else none
        | _, _ => none
      | _ => none
    match (sites.splitOn ";").mapM parseSite with
    | some ss =>
      if ss.length ≤ 6 then
        "|".intercalate ((serversOfK none ss).map fun (b : BServer) =>
          "L=" ++ ",".intercalate b.listen ++ " P=" ++ showLP b.listenProtocols ++ " K=" ++
            ",".intercalate ((b.blocks.flatMap keysOfCode).map fun (ij : Nat × Nat) => toString ij.1 ++ "." ++ toString ij.2))
      else "bad-op"
    | none => "bad-op"
  | ["dbind", dflt, sites] =>
    match (dflt.splitOn ",").mapM parseBind, parseBSites sites with
    | some ds, some ss =>
      if ss.length ≤ 10 && ds.length ≤ 4 then
        "|".intercalate ((serversOfD "8080"
          (some (ds.map fun b => ⟨b.addrs.map (fun a => if a == "0" then "" else a), b.prots⟩)) ss).map showBServer)
      else "bad-op"
    | _, _ => "bad-op"
  | ["bind", sites] =>
    match parseBSites sites with
    | some ss => if ss.length ≤ 10 then "|".intercalate ((serversOf "8080" ss).map showBServer) else "bad-op"
    | none => "bad-op"
  | ["ws", t] =>
    match hexField t with
    | some b => "ok " ++ Hex.encode (weakMarshal b)
    | none => "bad-op"
  | ["env", inp, table] =>
    match hexField inp, parseEnvTable table with
    | some i, some t => showEnvRes (replaceEnvVars (envOfTable t) i)
    | _, _ => "bad-op"
  | ["var", text, n] =>
    match hexField text, canonNat n with
    | some t, some k =>
      if k ≤ 9 then
        match parseVariadic t k with
        | none => "no"
        | some (a, b) => "yes " ++ toString a ++ " " ++ toString b
      else "bad-op"
    | _, _ => "bad-op"
  | ["hist", files] =>
    match (files.splitOn "/").mapM parseHistFile with
    | some fs => "|".intercalate (answerHist Gen.defaultDirectiveOrder fs)
    | none => "bad-op"
  | ["argidx", form, idx, n] =>
    match (if form == "b" then some true else if form == "d" then some false else none), hexField idx, canonNat n with
    | some br, some i, some k => if k ≤ 6 && i.all idxChar then showArgRes (lookup br i (argList k)) else "bad-op"
    | _, _, _ => "bad-op"
  | ["order"] => "order " ++ ",".intercalate Gen.defaultDirectiveOrder
  | ["sort", ord, items] =>
    match parseOrder ord, parseItems items with
    | some o, some its => answerSort o its
    | _, _ => "bad-op"
  | ["site", variant, items] =>
    match canonNat variant, parseItems items with
    | some _, some its =>
      if items == "." || (items.splitOn ";").all siteItemOK then answerSort Gen.defaultDirectiveOrder its
      else "bad-op"
    | _, _ => "bad-op"
  | ["adapt", t] => match hexField t with | some b => lexSummary b | none => "bad-op"
  | ["madapt", t] => match hexField t with | some b => lexSummary b | none => "bad-op"
  | ["nr", routes, site] =>
    let itemOK := fun (it : String) => it == "h" || it == "r" || it == "v" ||
      (match it.splitOn ":" with | ["i", n] => n.length == 1 && n.toList.all (fun c => 'a' ≤ c && c ≤ 'z') | _ => false)
    let routeOK := fun (r : String) =>
      match r.splitOn "=" with
      | [n, its] => n.length == 1 && n.toList.all (fun c => 'a' ≤ c && c ≤ 'z') && !its.isEmpty &&
          (its.splitOn ",").all itemOK && (its.splitOn ",").length ≤ 5
      | _ => false
    if (routes == "." || ((routes.splitOn ";").all routeOK && (routes.splitOn ";").length ≤ 5)) &&
        !site.isEmpty && (site.splitOn ",").all itemOK && (site.splitOn ",").length ≤ 5 then "oracle-only" else "bad-op"
  | ["rename", n, opts] =>
    match canonNat n with
    | some k =>
      if 1 ≤ k && k ≤ 6 && (opts == "." || (opts.splitOn ",").all fun o =>
          match o.splitOn ":" with
          | [i, nm] => (match canonNat i with | some j => decide (j < k) | none => false) && !nm.isEmpty &&
              nm.toList.all (fun c => ('a' ≤ c && c ≤ 'z') || ('0' ≤ c && c ≤ '9'))
          | _ => false) then "oracle-only" else "bad-op"
    | none => "bad-op"
  | ["perm", t, seed] => if (hexField t).isSome && (canonNat seed).isSome then "oracle-only" else "bad-op"
  | ["fauth", args] =>
    let nameOK' := fun (n : String) => !n.isEmpty && n.toList.all fun c => c.isAlphanum || c == '-' || c == '.' || c == '_'
    let parseArg := fun (a : String) =>
      match a.splitOn ">" with
      | [f] => if nameOK' f then some (f, f) else none
      | [f, t] => if nameOK' f && nameOK' t then some (f, t) else none
      | _ => none
    match (args.splitOn ";").mapM parseArg with
    | some as =>
      if as.length ≤ 8 then
        ",".intercalate ((copyHeaderRoutes (headersToCopy as)).map fun (r : String × String) => r.1 ++ "<" ++ r.2)
      else "bad-op"
    | none => "bad-op"
  | ["dadapt", t] => if (hexField t).isSome then "oracle-only" else "bad-op"
  | ["nmeq", a, b] => if (hexField a).isSome && (hexField b).isSome then "oracle-only" else "bad-op"
  | ["eqv", a, b] => if (hexField a).isSome && (hexField b).isSome then "oracle-only" else "bad-op"
  | ["leak", a, b] => if (hexField a).isSome && (hexField b).isSome then "oracle-only" else "bad-op"
  | _ => "bad-op"

end CaddyModel.C16
