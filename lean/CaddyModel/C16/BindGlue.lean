/-
C16 — from `bind` values to servers: the glue of addresses.go
(`listenersForServerBlockAddress`, `mapAddressToProtocolToServerBlocks`,
`consolidateAddrMappings`) and the `listen` / `listen_protocols` part of
`serversFromPairings` (httptype.go), for site blocks with ONE key `http://<host>:<port>` each.
Transliterated with its quirks:

* `listenersForServerBlockAddress` keeps one protocol set per listener address and every `bind`
  value naming the address ADDS to it (`addBind`; since 4efd026 — before, the lookup used the
  site address, never a key of that map, so every `bind` started the set afresh and only the
  protocols of the last one survived: `addBindOld`);
* `consolidateAddrMappings` snapshots the protocols of an address before visiting them and
  deletes merged entries while it goes, so a protocol whose entry was merged into an earlier
  one is still visited, finds nothing, and yields a pairing without addresses and blocks — an
  empty "ghost" server in the JSON (`consolidate`);
* pairings are keyed by (address, protocol): two sites that bind one address with different
  protocol lists end up as two servers on that address.

Go maps are association lists; every place where the code sorts keys sorts here too.
-/
import CaddyModel.Util.Hex

namespace CaddyModel.C16

/-- one `bind` directive: its addresses (hosts) and its `protocols` -/
structure BindVal where
  addrs : List String
  prots : List String
  deriving DecidableEq, Repr

/-- a site block `http://<host>:<port>` -/
structure BSite where
  host : String
  binds : List BindVal
  deriving DecidableEq, Repr

/-! ### small map / sort helpers -/

def lookupS {β : Type} (m : List (String × β)) (k : String) : Option β := (m.find? (·.1 == k)).map (·.2)

def setS {β : Type} (m : List (String × β)) (k : String) (v : β) : List (String × β) :=
  match m with
  | [] => [(k, v)]
  | (k', v') :: rest => if k' == k then (k, v) :: rest else (k', v') :: setS rest k v

def insSorted (x : String) : List String → List String
  | [] => [x]
  | y :: ys => if x < y then x :: y :: ys else if x == y then y :: ys else y :: insSorted x ys

/-- `sort.Strings` of a key set -/
def sortKeys (l : List String) : List String := l.foldl (fun acc x => insSorted x acc) []

/-! ### listenersForServerBlockAddress -/

/-- `networkAddr.String()` for a tcp host and the site's port -/
def lnAddr (port host : String) : String := host ++ ":" ++ port

/-- one `lnCfgVal`: each of its addresses gets a protocol set if it has none yet, then the protocols -/
def addBind (port : String) (m : List (String × List String)) (b : BindVal) : List (String × List String) :=
  b.addrs.foldl (fun acc h => setS acc (lnAddr port h) (sortKeys (((lookupS acc (lnAddr port h)).getD []) ++ b.prots))) m

/-- before 4efd026: `listeners[addr.String()]` tested the SITE address, so the set was always
started afresh -/
def addBindOld (port : String) (m : List (String × List String)) (b : BindVal) : List (String × List String) :=
  b.addrs.foldl (fun acc h => setS acc (lnAddr port h) (sortKeys b.prots)) m

/-- listener address → protocol set; without any `bind`: the wildcard host with default protocols -/
def listenersFor (port : String) (binds : List BindVal) : List (String × List String) :=
  if binds.isEmpty then [(lnAddr port "", [])] else binds.foldl (addBind port) []

/-- the same with the `default_bind` global options: a site without `bind` uses ALL of them
(`none`: the option is not used at all) -/
def listenersForD (port : String) (dflt : Option (List BindVal)) (binds : List BindVal) : List (String × List String) :=
  if binds.isEmpty then
    match dflt with
    | some ds => ds.foldl (addBind port) []
    | none => [(lnAddr port "", [])]
  else binds.foldl (addBind port) []

def listenersForOld (port : String) (binds : List BindVal) : List (String × List String) :=
  if binds.isEmpty then [(lnAddr port "", [])] else binds.foldl (addBindOld port) []

/-! ### mapAddressToProtocolToServerBlocks -/

abbrev AddrMap := List (String × List (String × List Nat))   -- addr → protocol → block indices

/-- an empty protocol set means the default protocol "" -/
def protsOrDefault (ps : List String) : List String := if ps.isEmpty then [""] else ps

def addBlockProt (m : AddrMap) (addr prot : String) (i : Nat) : AddrMap :=
  setS m addr (setS ((lookupS m addr).getD []) prot ((((lookupS m addr).getD []).find? (·.1 == prot)).map (·.2) |>.getD [] |>.concat i))

/-- one site block, given its listeners -/
def addBlockL (ls : List (String × List String)) (m : AddrMap) (i : Nat) : AddrMap :=
  (sortKeys (ls.map (·.1))).foldl (fun acc addr =>
    (sortKeys (protsOrDefault ((lookupS ls addr).getD []))).foldl
      (fun acc2 prot => addBlockProt acc2 addr prot i) acc) m

def addBlock (port : String) (m : AddrMap) (i : Nat) (s : BSite) : AddrMap :=
  addBlockL (listenersFor port s.binds) m i

def mapBlocks (port : String) : AddrMap → Nat → List BSite → AddrMap
  | m, _, [] => m
  | m, i, s :: rest => mapBlocks port (addBlock port m i s) (i + 1) rest

def mapBlocksD (port : String) (dflt : Option (List BindVal)) : AddrMap → Nat → List BSite → AddrMap
  | m, _, [] => m
  | m, i, s :: rest => mapBlocksD port dflt (addBlockL (listenersForD port dflt s.binds) m i) (i + 1) rest

/-! ### consolidateAddrMappings -/

/-- a pairing: listener addresses with their protocols, and the blocks served there -/
structure Pairing where
  listeners : List (String × List String)
  blocks : List Nat
  deriving DecidableEq, Repr

/-- all (addr, prot) entries of the map, flattened -/
def entries (m : AddrMap) : List (String × String × List Nat) :=
  m.flatMap fun (a, ps) => ps.map fun (p, bs) => (a, p, bs)

/-- `delete(otherProtocolToServerBlocks, otherProt)` for every collected entry -/
def deleteEntries (m : AddrMap) (del : List (String × String)) : AddrMap :=
  m.map fun (a, ps) => (a, ps.filter fun (p, _) => !del.contains (a, p))

/-- the entries merged into the pairing of (addr, prot): itself, and every entry whose block
list is `reflect.DeepEqual` to its own (`sb = none`: the entry was deleted, Go reads a nil slice) -/
def merged (m : AddrMap) (addr prot : String) (sb : Option (List Nat)) : List (String × String × List Nat) :=
  (entries m).filter fun (a, p, bs) => (a == addr && p == prot) || sb == some bs

def pairingOf (es : List (String × String × List Nat)) (sb : Option (List Nat)) : Pairing :=
  ⟨(sortKeys (es.map (·.1))).map (fun a => (a, sortKeys ((es.filter (·.1 == a)).map (·.2.1)))), sb.getD []⟩

/-- the loop over the snapshot `prots` of one address -/
def visitProts (addr : String) : List String → AddrMap → List Pairing → AddrMap × List Pairing
  | [], m, acc => (m, acc)
  | prot :: rest, m, acc =>
    visitProts addr rest
      (deleteEntries m ((merged m addr prot ((lookupS m addr).bind (lookupS · prot))).map fun (a, p, _) => (a, p)))
      (acc.concat (pairingOf (merged m addr prot ((lookupS m addr).bind (lookupS · prot))) ((lookupS m addr).bind (lookupS · prot))))

/-- the loop over the sorted addresses (fixed before any deletion) -/
def visitAddrs : List String → AddrMap → List Pairing → List Pairing
  | [], _, acc => acc
  | addr :: rest, m, acc =>
    visitAddrs rest
      (visitProts addr (sortKeys (((lookupS m addr).getD []).map (·.1))) m acc).1
      (visitProts addr (sortKeys (((lookupS m addr).getD []).map (·.1))) m acc).2

def consolidate (m : AddrMap) : List Pairing := visitAddrs (sortKeys (m.map (·.1))) m []

/-! ### serversFromPairings: `listen`, `listen_protocols` -/

structure BServer where
  listen : List String
  /-- `none`: the array is omitted; an entry `none`: JSON null (default protocols) -/
  listenProtocols : Option (List (Option (List String)))
  blocks : List Nat
  deriving DecidableEq, Repr

/-- "remove srv.ListenProtocols[j] if it only contains the default protocols" -/
def blankDefault (ps : List String) : Option (List String) := if ps.all (· == "") then none else some ps

/-- "remove srv.ListenProtocols if it only contains the default protocols for all listen addresses" -/
def tidyProtocols (lps : List (List String)) : Option (List (Option (List String))) :=
  if (lps.map blankDefault).all (· == none) then none else some (lps.map blankDefault)

def serverOf (p : Pairing) : BServer :=
  ⟨p.listeners.map (·.1), tidyProtocols (p.listeners.map (·.2)), p.blocks⟩

/-- the servers `srv0, srv1, …` of a Caddyfile made of these sites -/
def serversOf (port : String) (sites : List BSite) : List BServer :=
  (consolidate (mapBlocks port [] 0 sites)).map serverOf

/-- … with `default_bind` global options -/
def serversOfD (port : String) (dflt : Option (List BindVal)) (sites : List BSite) : List BServer :=
  (consolidate (mapBlocksD port dflt [] 0 sites)).map serverOf

end CaddyModel.C16
