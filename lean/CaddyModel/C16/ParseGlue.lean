/-
C16 — two pure helpers of the Caddyfile parser, transliterated:

* `replaceEnvVars` (caddyfile/parse.go:69): `{$NAME}` / `{$NAME:default}` substitution on the raw
  bytes BEFORE lexing.  One loop over `offset`; `bytes.Index` finds `{$` from `offset` and `}`
  after it; an empty span is skipped; the value (environment, else the default, else nothing)
  is spliced in and the scan continues BEHIND the spliced value.  Go slice expressions are
  explicit: an out-of-range bound is the `panic` outcome.
* `parseVariadic` (caddyfile/importargs.go:31): does a token `{args[a:b]}` select a range of the
  import arguments, and which; `doImport` then ranges over `args[start:end]` (`expandVariadic`).

Core Lean only, structural recursion (fuel for the loop).
-/
import CaddyModel.C16.Args

namespace CaddyModel.C16

/-! ### `bytes.Index`, `strings.Cut` -/

def isPrefixB : Bytes → Bytes → Bool
  | [], _ => true
  | _ :: _, [] => false
  | p :: ps, s :: ss => p == s && isPrefixB ps ss

/-- `bytes.Index(s, pat)` for a non-empty `pat` -/
def indexOfB (pat : Bytes) : Bytes → Option Nat
  | [] => none
  | s :: ss => if isPrefixB pat (s :: ss) then some 0 else (indexOfB pat ss).map (· + 1)

def spanOpen : Bytes := [123, 36]   -- "{$"
def spanClose : Bytes := [125]      -- "}"

/-- `strings.SplitN(s, ":", 2)`: the key and, if there is a colon, the default -/
def envKey (s : Bytes) : Bytes :=
  match indexOfB [58] s with
  | none => s
  | some i => s.take i

def envDefault (s : Bytes) : Option Bytes :=
  match indexOfB [58] s with
  | none => none
  | some i => some (s.drop (i + 1))

/-- `os.LookupEnv(key)`, else the default, else "" -/
def envValue (env : Bytes → Option Bytes) (span : Bytes) : Bytes :=
  match env (envKey span) with
  | some v => v
  | none => (envDefault span).getD []

inductive EnvRes where
  | done (out : Bytes)
  | panic
  | fuel
  deriving DecidableEq, Repr

/-- the loop of `replaceEnvVars`; `b` = result of the first `bytes.Index`, `e` of the second -/
def envLoop (env : Bytes → Option Bytes) : Nat → Bytes → Nat → EnvRes
  | 0, _, _ => .fuel
  | f + 1, input, offset =>
    if offset > input.length then .panic                       -- input[offset:]
    else match indexOfB spanOpen (input.drop offset) with
      | none => .done input
      | some b =>
        if b + offset + 2 > input.length then .panic             -- input[begin+2:]
        else match indexOfB spanClose (input.drop (b + offset + 2)) with
          | none => .done input
          | some e =>
            if e + (b + offset + 2) + 1 > input.length then .panic   -- input[begin+2:end], input[end+1:]
            else if e == 0 then envLoop env f input (e + (b + offset + 2) + 1)
            else envLoop env f
              (input.take (b + offset) ++ envValue env ((input.drop (b + offset + 2)).take e)
                ++ input.drop (e + (b + offset + 2) + 1))
              (b + offset + (envValue env ((input.drop (b + offset + 2)).take e)).length)

/-- `replaceEnvVars(input)` -/
def replaceEnvVars (env : Bytes → Option Bytes) (input : Bytes) : EnvRes :=
  envLoop env (input.length + 1) input 0

/-! ### variadic import arguments -/

def hasPrefixB (s pre : Bytes) : Bool := isPrefixB pre s
def hasSuffixB (s suf : Bytes) : Bool := decide (suf.length ≤ s.length) && s.drop (s.length - suf.length) == suf

def argsOpen : Bytes := [123, 97, 114, 103, 115, 91]   -- "{args["
def argsClose : Bytes := [93, 125]                      -- "]}"

/-- the text between `{args[` and `]}` -/
def argRange (text : Bytes) : Bytes := (text.drop argsOpen.length).take (text.length - argsOpen.length - argsClose.length)

/-- `strings.Cut(r, ":")` -/
def cutStart (r : Bytes) (i : Nat) : Bytes := r.take i
def cutEnd (r : Bytes) (i : Nat) : Bytes := r.drop (i + 1)

/-- `parseVariadic(token, argCount)`: `none` = not a variadic placeholder -/
def parseVariadic (text : Bytes) (argCount : Nat) : Option (Int × Int) :=
  if !hasPrefixB text argsOpen then none
  else if !hasSuffixB text argsClose then none
  else if (argRange text).isEmpty then none
  else match indexOfB [58] (argRange text) with
    | none => none
    | some i =>
      if (cutStart (argRange text) i).contains 125 || (cutEnd (argRange text) i).contains 123 then none
      else
        match (if (cutStart (argRange text) i).isEmpty then some (0 : Int) else atoi (cutStart (argRange text) i)),
              (if (cutEnd (argRange text) i).isEmpty then some (argCount : Int) else atoi (cutEnd (argRange text) i)) with
        | some s, some e =>
          if s < 0 || s > e || e > (argCount : Int) then none else some (s, e)
        | _, _ => none

inductive Expanded where
  | notVariadic
  | args (l : List Bytes)
  | panic
  deriving DecidableEq, Repr

/-- `args[start:end]` -/
def sliceRange (args : List Bytes) (s e : Int) : Expanded :=
  if s < 0 || e < s || e > (args.length : Int) then .panic
  else .args ((args.drop s.toNat).take (e.toNat - s.toNat))

/-- what `doImport` splices in for a token -/
def expandVariadic (text : Bytes) (args : List Bytes) : Expanded :=
  match parseVariadic text args.length with
  | none => .notVariadic
  | some (s, e) => sliceRange args s e

end CaddyModel.C16
