/-
C06 line-protocol driver.
  host   <entries> <r.Host>                 Provision + MatchHost           → ood | err:dup | m:0 | m:1
  path   <patterns> <URL.Path> <EscapedPath> Provision + MatchPath          → ood | bad-op | m:0 | m:1
  pathre <full|pre|sub> <lit> <URL.Path>    MatchPathRE with ^lit$ / ^lit / lit → ood | m:0 | m:1
Lists: `.` = empty list, else hex items joined by `,` (`-` = empty string).
`ood` = outside the correspondence domain (see `inDomain…`): the model treats
`strings.ToLower`/`EqualFold`/rune iteration as ASCII operations and `idna.ToASCII` /
`Replacer.ReplaceAll` as the identity, which is what they are on this domain.
`path`: `bad-op` unless EscapedPath is what `(*url.URL).EscapedPath()` returns for
`URL{Path, RawPath: EscapedPath}` (a valid encoding of Path).
-/
import CaddyModel.C06.Model

namespace CaddyModel.C06

def parseList (s : String) : Option (List Bytes) :=
  if s == "." then some [] else (s.splitOn ",").mapM Hex.decode

def isAscii (s : Bytes) : Bool := s.all (· < 128)

/-- `Replacer.ReplaceAll(s, "")` is the identity: no `}`, no `\{`, short -/
def replIdentity (s : Bytes) : Bool :=
  !s.contains 125 && !containsSub s [cBack, cBrace] && decide (s.length ≤ 255)

/-- `idna.ToASCII` is the identity: ASCII without an ACE label -/
def hostEntryOk (e : Bytes) : Bool :=
  isAscii e && replIdentity e && !e.contains cBack && !containsSub (lower e) [120, 110, 45, 45]

def inDomainHost (l : List Bytes) (h : Bytes) : Bool := l.all hostEntryOk && isAscii h

def inDomainPath (l : List Bytes) (p e : Bytes) : Bool :=
  l.all (fun x => isAscii x && replIdentity x) && isAscii p && isAscii e

/-- bytes `validEncoded(·, encodePath)` accepts -/
def validEncByte (c : UInt8) : Bool :=
  (97 ≤ c && c ≤ 122) || (65 ≤ c && c ≤ 90) || (48 ≤ c && c ≤ 57) ||
  (str "-_.~$&+,/:;=@!'()*[]%").contains c

/-- `URL{Path: p, RawPath: e}.EscapedPath() == e` -/
def escConsistent (p e : Bytes) : Bool :=
  if e.isEmpty then p.isEmpty
  else e.all validEncByte && pathUnescape e == some p

def showBool (b : Bool) : String := if b then "m:1" else "m:0"

def reLitOk (s : Bytes) : Bool :=
  s.all fun c => (97 ≤ c && c ≤ 122) || (65 ≤ c && c ≤ 90) || (48 ≤ c && c ≤ 57) || c == 47 || c == 46 || c == 45 || c == 95

def largeThreshold : Nat := 100

def handle : List String → String
  | ["host", entries, rhost] =>
    match parseList entries, Hex.decode rhost with
    | some l, some h =>
      if !inDomainHost l h then "ood"
      else match hostCase largeThreshold l h with
        | .dup => "err:dup"
        | .res b => showBool b
    | _, _ => "bad-op"
  | ["path", pats, p, e] =>
    match parseList pats, Hex.decode p, Hex.decode e with
    | some l, some p, some e =>
      if !inDomainPath l p e then "ood"
      else if !escConsistent p e then "bad-op"
      else showBool (pathCase l p e)
    | _, _, _ => "bad-op"
  | ["pathre", kind, lit, p] =>
    match (match kind with | "full" => some ReKind.full | "pre" => some ReKind.pre | "sub" => some ReKind.sub | _ => none),
          Hex.decode lit, Hex.decode p with
    | some k, some lit, some p =>
      if !(reLitOk lit && isAscii p) then "ood" else showBool (matchPathRE k lit p)
    | _, _, _ => "bad-op"
  | _ => "bad-op"

/-- counter-example lines replayed on the implementation on every run (see Witness.lean) -/
def witnessLines : List String := []

end CaddyModel.C06
