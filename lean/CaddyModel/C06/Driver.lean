/-
C06 line-protocol driver.
  host   <entries> <r.Host>                 Provision + MatchHost           → ood | err:dup | m:0 | m:1
  path   <patterns> <URL.Path> <EscapedPath> Provision + MatchPath          → ood | bad-op | m:0 | m:1
  pathre <full|pre|sub> <lit> <URL.Path>    MatchPathRE with ^lit$ / ^lit / lit → ood | m:0 | m:1
  pathpair <case|slash|pct> <patterns> <Path1> <Esc1> <Path2> <Esc2>
                                            two spellings of one request (differing only by letter case /
                                            by runs of slashes / by percent-encoding)  → ood | bad-op | m:x m:y
Lists: `.` = empty list, else hex items joined by `,` (`-` = empty string).
`ood` = outside the correspondence domain (see `inDomain…`): the model treats
`strings.ToLower`/`EqualFold`/rune iteration as ASCII operations and `idna.ToASCII` /
`Replacer.ReplaceAll` as the identity, which is what they are on this domain.
`path`: `bad-op` unless EscapedPath is what `(*url.URL).EscapedPath()` returns for
`URL{Path, RawPath: EscapedPath}` (a valid encoding of Path).
-/
import CaddyModel.C06.Model

namespace CaddyModel.C06

def parseList (s : String) : Option (List Bytes) :=
  if s == "." then some [] else (s.splitOn ",").mapM Hex.decode

def isAscii (s : Bytes) : Bool := s.all (· < 128)

/-- `Replacer.ReplaceAll(s, "")` is the identity: no `}`, no `\{`, short -/
def replIdentity (s : Bytes) : Bool :=
  !s.contains 125 && !containsSub s [cBack, cBrace] && decide (s.length ≤ 255)

/-- `idna.ToASCII` is the identity: ASCII without an ACE label -/
def hostEntryOk (e : Bytes) : Bool :=
  isAscii e && replIdentity e && !e.contains cBack && !containsSub (lower e) [120, 110, 45, 45]

def inDomainHost (l : List Bytes) (h : Bytes) : Bool := l.all hostEntryOk && isAscii h

def inDomainPath (l : List Bytes) (p e : Bytes) : Bool :=
  l.all (fun x => isAscii x && replIdentity x) && isAscii p && isAscii e

/-- bytes `validEncoded(·, encodePath)` accepts -/
def validEncByte (c : UInt8) : Bool :=
  (97 ≤ c && c ≤ 122) || (65 ≤ c && c ≤ 90) || (48 ≤ c && c ≤ 57) ||
  (str "-_.~$&+,/:;=@!'()*[]%").contains c

/-- `URL{Path: p, RawPath: e}.EscapedPath() == e` -/
def escConsistent (p e : Bytes) : Bool :=
  if e.isEmpty then p.isEmpty
  else e.all validEncByte && pathUnescape e == some p

def showBool (b : Bool) : String := if b then "m:1" else "m:0"

def reLitOk (s : Bytes) : Bool :=
  s.all fun c => (97 ≤ c && c ≤ 122) || (65 ≤ c && c ≤ 90) || (48 ≤ c && c ≤ 57) || c == 47 || c == 46 || c == 45 || c == 95

def largeThreshold : Nat := 100

def handleSingle : List String → String
  | ["host", entries, rhost] =>
    match parseList entries, Hex.decode rhost with
    | some l, some h =>
      if !inDomainHost l h then "ood"
      else match hostCase largeThreshold l h with
        | .dup => "err:dup"
        | .res b => showBool b
    | _, _ => "bad-op"
  | ["path", pats, p, e] =>
    match parseList pats, Hex.decode p, Hex.decode e with
    | some l, some p, some e =>
      if !inDomainPath l p e then "ood"
      else if !escConsistent p e then "bad-op"
      else showBool (pathCase l p e)
    | _, _, _ => "bad-op"
  | ["pathre", kind, lit, p] =>
    match (match kind with | "full" => some ReKind.full | "pre" => some ReKind.pre | "sub" => some ReKind.sub | _ => none),
          Hex.decode lit, Hex.decode p with
    | some k, some lit, some p =>
      if !(reLitOk lit && isAscii p) then "ood" else showBool (matchPathRE k lit p)
    | _, _, _ => "bad-op"
  | _ => "bad-op"

/-- merge every run of slashes into one slash -/
def squeeze : Bytes → Bytes
  | [] => []
  | [x] => [x]
  | x :: y :: rest => if x = cSlash ∧ y = cSlash then squeeze (y :: rest) else x :: squeeze (y :: rest)

/-- the relation a `pathpair` line claims between its two spellings -/
def pairRelated (kind : String) (p1 e1 p2 e2 : Bytes) : Option Bool :=
  match kind with
  | "case" => some (lower p1 == lower p2 && lower e1 == lower e2)
  | "slash" => some (squeeze p1 == squeeze p2 && squeeze e1 == squeeze e2)
  | "pct" => some (p1 == p2)
  | _ => none

def handlePair (kind : String) (l : List Bytes) (p1 e1 p2 e2 : Bytes) : String :=
  if !(inDomainPath l p1 e1 && inDomainPath l p2 e2) then "ood"
  else if !(escConsistent p1 e1 && escConsistent p2 e2) then "bad-op"
  else match pairRelated kind p1 e1 p2 e2 with
    | some true => showBool (pathCase l p1 e1) ++ " " ++ showBool (pathCase l p2 e2)
    | _ => "bad-op"

/-- bytes that can stand in a CEL single-quoted string literal unchanged -/
def celSafe (s : Bytes) : Bool :=
  s.all fun c => decide (32 ≤ c) && decide (c < 127) && c != 39 && c != 92 && c != 34

/-- the same matchers reached through other front doors of the real code: a CEL `expression`
    (`host(…)`, `path(…)`, `path_regexp(…)`: the CEL library wrappers build and provision the
    very same matcher types) and JSON-configured matcher sets loaded by `Route.ProvisionMatchers`.
    The model is the same function; the extra domain rule is that CEL needs a non-empty list of
    literal-safe strings. -/
def handleVia : List String → String
  | ["cel-host", entries, rhost] =>
    match parseList entries with
    | some l => if l.isEmpty || !l.all celSafe then "ood" else handleSingle ["host", entries, rhost]
    | none => "bad-op"
  | ["cel-path", pats, p, e] =>
    match parseList pats with
    | some l => if l.isEmpty || !l.all celSafe then "ood" else handleSingle ["path", pats, p, e]
    | none => "bad-op"
  | ["cel-pathre", kind, lit, p] => handleSingle ["pathre", kind, lit, p]
  | ["json-host", entries, rhost] => handleSingle ["host", entries, rhost]
  | ["json-path", pats, p, e] => handleSingle ["path", pats, p, e]
  | ["json-pathre", kind, lit, p] => handleSingle ["pathre", kind, lit, p]
  | ["json-set", entries, pats, rhost, p, e] =>
    match parseList entries, parseList pats, Hex.decode rhost, Hex.decode p, Hex.decode e with
    | some l, some ps, some h, some p, some e =>
      if !(inDomainHost l h && inDomainPath ps p e) then "ood"
      else if !escConsistent p e then "bad-op"
      else match setCase largeThreshold l ps h p e with
        | .dup => "err:dup"
        | .res b => showBool b
    | _, _, _, _, _ => "bad-op"
  | ["json-not", entries, pats, rhost, p, e] =>
    match parseList entries, parseList pats, Hex.decode rhost, Hex.decode p, Hex.decode e with
    | some l, some ps, some h, some p, some e =>
      if !(inDomainHost l h && inDomainPath ps p e) then "ood"
      else if !escConsistent p e then "bad-op"
      else match notCase largeThreshold l ps h p e with
        | .dup => "err:dup"
        | .res b => showBool b
    | _, _, _, _, _ => "bad-op"
  | other => handleSingle other

/-! ### `cfsite`: a Caddyfile site block through the real adapter -/

def isAlnum (c : UInt8) : Bool := (97 ≤ c && c ≤ 122) || (65 ≤ c && c ≤ 90) || (48 ≤ c && c ≤ 57)

def hostTokByte (c : UInt8) : Bool := isAlnum c || c == 46 || c == 42 || c == 95 || c == 45
def keyPathByte (c : UInt8) : Bool := isAlnum c || (str "./*_-%~").contains c
def patTokByte (c : UInt8) : Bool := isAlnum c || (str "./*_-%?[]^~:@+=,;!$&()").contains c

def digitsVal (ds : Bytes) : Nat := ds.foldl (fun n d => n * 10 + (d.toNat - 48)) 0

/-- `[http://]host[:port][/path]`, host or port present, port 1..65535 (and not 443 under http://) -/
def siteKeyOk (key : Bytes) : Bool :=
  let rest := dropScheme key
  let hp := rest.takeWhile (· != cSlash)
  let path := rest.dropWhile (· != cSlash)
  let host := hp.takeWhile (· != cColon)
  let portPart := hp.dropWhile (· != cColon)
  let port := portPart.drop 1
  host.all hostTokByte && path.all (fun c => keyPathByte c || c == cSlash) &&
  (portPart.isEmpty || (!port.isEmpty && port.all (fun c => 48 ≤ c && c ≤ 57) && decide (port.length ≤ 5) &&
     decide (1 ≤ digitsVal port) && decide (digitsVal port ≤ 65535) &&
     !(hasPrefix key httpScheme && digitsVal port == 443) && !(hasPrefix key httpsScheme && digitsVal port == 80))) &&
  !(host.isEmpty && portPart.isEmpty) && !containsSub rest [58, 47, 47]

def parseMode : String → Option TokMode
  | "none" => some .none | "star" => some .star | "implicit" => some .implicit | "named" => some .named
  | "handle" => some .handle | "handlepath" => some .handlePath
  | _ => none

def cfTokensOk (mode : TokMode) (hosts pats : List Bytes) : Bool :=
  hosts.all (fun h => !h.isEmpty && h.all hostTokByte) && pats.all (fun p => !p.isEmpty && p.all patTokByte) &&
  (match mode with
   | .none => hosts.isEmpty && pats.isEmpty
   | .star => hosts.isEmpty && pats.isEmpty
   | .implicit => hosts.isEmpty && pats.length == 1 && pats.all (fun p => p.head? == some cSlash)
   | .handle => hosts.isEmpty && pats.length == 1 && pats.all (fun p => p.head? == some cSlash)
   | .handlePath => hosts.isEmpty && pats.length == 1 && pats.all (fun p => p.head? == some cSlash)
   | .named => !(hosts.isEmpty && pats.isEmpty))

def handleSite : List String → String
  | ["cfsite", key, mode, hosts, pats, rhost, p, e] =>
    match Hex.decode key, parseMode mode, parseList hosts, parseList pats, Hex.decode rhost, Hex.decode p, Hex.decode e with
    | some key, some mode, some hs, some ps, some h, some p, some e =>
      if !(siteKeyOk key && cfTokensOk mode hs ps && isAscii h && isAscii p && isAscii e) then "ood"
      else if !escConsistent p e then "bad-op"
      else match siteCase largeThreshold key mode hs ps h p e with
        | .dup => "err:dup"
        | .res b => showBool b
    | _, _, _, _, _, _, _ => "bad-op"
  | other => handleVia other

/-! ### `hosti` / `provision`: MatchHost.Provision with the values `idna.ToASCII` returned shipped
    in the case (`=` = unchanged, `!` = error, else hex) -/

inductive Conv where
  | same | err | to (a : Bytes)

def parseConv (s : String) : Option Conv :=
  if s == "=" then some .same else if s == "!" then some .err else (Hex.decode s).map .to

def parseTable (s : String) : Option (List Conv) :=
  if s == "." then some [] else (s.splitOn ",").mapM parseConv

def convOf (e : Bytes) : Conv → Option Bytes
  | .same => some e
  | .err => none
  | .to a => some a

/-- the conversion function the case describes -/
def idnaOf (entries : List Bytes) (tbl : List Conv) : Bytes → Option Bytes := fun e =>
  match (entries.zip tbl).find? (·.1 == e) with
  | some (_, c) => convOf e c
  | none => none

/-- what the model itself knows about `idna.ToASCII`: ASCII without an ACE label is unchanged -/
def rowPlausible (e : Bytes) (c : Conv) : Bool :=
  if isAscii e && !containsSub (lower e) [120, 110, 45, 45] then
    (match c with | .same => true | .to a => a == e | .err => false)
  else true

def convertedOk (a : Bytes) : Bool := isAscii a && replIdentity a && !a.contains cBack

def tableOk (entries : List Bytes) (tbl : List Conv) : Bool :=
  (entries.zip tbl).all fun (e, c) => match convOf e c with | some a => convertedOk a | none => true

def showProv : ProvRes → String
  | .idnaErr => "err:idna"
  | .dup => "err:dup"
  | .ok m => "ok " ++ (if m.isEmpty then "." else ",".intercalate (m.map Hex.encode))

def handleProv : List String → String
  | ["hosti", entries, table, rhost] =>
    match parseList entries, parseTable table, Hex.decode rhost with
    | some l, some t, some h =>
      if l.length != t.length || !(l.zip t).all (fun (e, c) => rowPlausible e c) then "bad-op"
      else if !(tableOk l t && isAscii h) then "ood"
      else match hostCaseI (idnaOf l t) largeThreshold l h with
        | .idnaErr => "err:idna"
        | .dup => "err:dup"
        | .res b => showBool b
    | _, _, _ => "bad-op"
  | ["provision", entries, table] =>
    match parseList entries, parseTable table with
    | some l, some t =>
      if l.length != t.length || !(l.zip t).all (fun (e, c) => rowPlausible e c) then "bad-op"
      else if !tableOk l t then "ood"
      else showProv (provisionHostI (idnaOf l t) largeThreshold l)
    | _, _ => "bad-op"
  | other => handleSite other

/-! ### `srvhost`: host matching through the provisioned server (caddy.Run: ProvisionMatchers,
    automatic HTTPS phase 1, Server.ServeHTTP) with placeholder-bearing entries -/

def kEnvA : Bytes := str "env.C06_A"
def kEnvB : Bytes := str "env.C06_B"
def kHdr : Bytes := str "http.request.header.X-T"

/-- braces of an entry are exactly placeholders with one of the three keys -/
def bracesOk : Nat → Bytes → Bool
  | 0, s => s.isEmpty
  | _ + 1, [] => true
  | fuel + 1, c :: r =>
    if c = cBrace then
      match takeKey r with
      | some (k, rest) => (k == kEnvA || k == kEnvB || k == kHdr) && bracesOk fuel rest
      | none => false
    else if c = cRBrace then false
    else hostTokByte c && bracesOk fuel r

def srvReqHostByte (c : UInt8) : Bool := hostTokByte c || c == cColon || c == cLBr || c == cRBr

def handleSrv : List String → String
  | ["srvhost", entries, envA, envB, hdr, rhost] =>
    match parseList entries, Hex.decode envA, Hex.decode envB, Hex.decode hdr, Hex.decode rhost with
    | some l, some a, some b, some x, some h =>
      if !(l.all (fun e => bracesOk e.length e && decide (e.length ≤ 255)) && a.all hostTokByte && b.all hostTokByte &&
           x.all hostTokByte && h.all srvReqHostByte) then "ood"
      else match srvHostCase largeThreshold l
          (fun k => if k == kEnvA then a else if k == kEnvB then b else if k == kHdr then x else [])
          (fun k => (k == kEnvA && a.isEmpty) || (k == kEnvB && b.isEmpty)) h with
        | .dup => "err:dup"
        | .phase1Err => "err:phase1"
        | .res r => showBool r
    | _, _, _, _, _ => "bad-op"
  | other => handleProv other

/-! ### `srvredir`: the automatic HTTP→HTTPS redirect route of a server with one or two
    host-matched routes (caddy.ProvisionContext, then the redirect server's ServeHTTP) -/

/-- the code provisions the redirect route's host matcher (since the `fix:` commit "provision the
    host matcher of the automatic HTTP->HTTPS redirect route"; before, `MatchHost(domains)` was
    used as built: `redirCase false`, see `Props.redirHost_size_invariant_old_code_fails`) -/
def redirProvisioned : Bool := true

def handleRedir : List String → String
  | ["srvredir", la, lb, envA, envB, hdr, rhost] =>
    match parseList la, parseList lb, Hex.decode envA, Hex.decode envB, Hex.decode hdr, Hex.decode rhost with
    | some l1, some l2, some a, some b, some x, some h =>
      if !((l1 ++ l2).all (fun e => bracesOk e.length e && decide (e.length ≤ 255)) && !l1.isEmpty && a.all hostTokByte &&
           b.all hostTokByte && x.all hostTokByte && h.all srvReqHostByte) then "ood"
      else match redirCase redirProvisioned largeThreshold (if l2.isEmpty then [l1] else [l1, l2])
          (fun k => if k == kEnvA then a else if k == kEnvB then b else [cBrace] ++ k ++ [cRBrace])
          (fun k => if k == kEnvA then a else if k == kEnvB then b else if k == kHdr then x else [])
          (fun k => (k == kEnvA && a.isEmpty) || (k == kEnvB && b.isEmpty)) h with
        | .dup => "err:dup"
        | .phase1Err => "err:phase1"
        | .res true => "r:own-port"
        | .res false => "r:default-port"
    | _, _, _, _, _, _ => "bad-op"
  | other => handleSrv other

def handle : List String → String
  | ["pathpair", kind, pats, p1, e1, p2, e2] =>
    match parseList pats, Hex.decode p1, Hex.decode e1, Hex.decode p2, Hex.decode e2 with
    | some l, some p1, some e1, some p2, some e2 => handlePair kind l p1 e1 p2 e2
    | _, _, _, _, _ => "bad-op"
  | other => handleRedir other

/-! ### the counter-examples proved in `Witness.lean` -/

structure PathPair where
  kind : String
  pats : List Bytes
  p1 : Bytes
  e1 : Bytes
  p2 : Bytes
  e2 : Bytes

/-- pattern `/a%2fb`: `/a%2fb` matched and `/A%2fb` did not before the repair (now a regression
    case in corpus/C06, no longer a witness line) -/
def wCasePct : PathPair := ⟨"case", [[47, 97, 37, 50, 102, 98]], [47, 97, 47, 98], [47, 97, 37, 50, 102, 98], [47, 65, 47, 98], [47, 65, 37, 50, 102, 98]⟩
/-- pattern `/a//b`: `/a//b` matches, `/a/b` does not -/
def wDupSlash : PathPair := ⟨"slash", [[47, 97, 47, 47, 98]], [47, 97, 47, 47, 98], [47, 97, 47, 47, 98], [47, 97, 47, 98], [47, 97, 47, 98]⟩
/-- pattern `/%61`: target `/%61` matches, target `/a` does not -/
def wPctEnc : PathPair := ⟨"pct", [[47, 37, 54, 49]], [47, 97], [47, 37, 54, 49], [47, 97], [47, 97]⟩

/-- pattern `/sp%20ace` (no star): the request `/sp%20acex` matched before /repo 84b6e63 — the lock-step
    loop stops when the pattern is used up and the rest of the path was ignored (now a regression
    case in corpus/C06/escaped-pattern-rest.txt, no longer a witness line) -/
def wEscRest : PathPair := ⟨"path", [[47, 115, 112, 37, 50, 48, 97, 99, 101]], [47, 115, 112, 32, 97, 99, 101], [47, 115, 112, 37, 50, 48, 97, 99, 101], [47, 115, 112, 32, 97, 99, 101, 120], [47, 115, 112, 37, 50, 48, 97, 99, 101, 120]⟩
/-- pattern `/k%20*z`: `/k%20axz` matches, the equivalent `/k%20ax%7A` does not (span terminator
    searched in the raw text) -/
def wEscTerm : PathPair := ⟨"pct", [[47, 107, 37, 50, 48, 42, 122]], [47, 107, 32, 97, 120, 122], [47, 107, 37, 50, 48, 97, 120, 122], [47, 107, 32, 97, 120, 122], [47, 107, 37, 50, 48, 97, 120, 37, 55, 65]⟩
/-- pattern `/%*/y`: `/./dx/y` matches, the equivalent `/%2e/dx/y` does not (CleanPath runs over
    the escaped text) -/
def wEscDot : PathPair := ⟨"pct", [[47, 37, 42, 47, 121]], [47, 46, 47, 100, 120, 47, 121], [47, 46, 47, 100, 120, 47, 121], [47, 46, 47, 100, 120, 47, 121], [47, 37, 50, 101, 47, 100, 120, 47, 121]⟩
/-- pattern `/foo%2fbar/baz`: canonical request and the spelling with an escape in the LAST three
    bytes of the path (boundary `len(escapedPath) >= iPath+3`) -/
def wEscEnd : PathPair := ⟨"pct", [[47, 102, 111, 111, 37, 50, 102, 98, 97, 114, 47, 98, 97, 122]], [47, 102, 111, 111, 47, 98, 97, 114, 47, 98, 97, 122], [47, 102, 111, 111, 37, 50, 70, 98, 97, 114, 47, 98, 97, 122], [47, 102, 111, 111, 47, 98, 97, 114, 47, 98, 97, 122], [47, 102, 111, 111, 37, 50, 70, 98, 97, 114, 47, 98, 97, 37, 55, 65]⟩

def encodeList (l : List Bytes) : String :=
  if l.isEmpty then "." else ",".intercalate (l.map Hex.encode)

def PathPair.line (w : PathPair) : String :=
  " ".intercalate ["C06", "pathpair", w.kind, encodeList w.pats, Hex.encode w.p1, Hex.encode w.e1, Hex.encode w.p2, Hex.encode w.e2]

/-- the second request of a pair as a `path` line -/
def PathPair.pathLine (w : PathPair) : String :=
  " ".intercalate ["C06", "path", encodeList w.pats, Hex.encode w.p2, Hex.encode w.e2]

/-- counter-example lines replayed on the implementation on every run (see Witness.lean) -/
def witnessLines : List String :=
  [wDupSlash.line, wPctEnc.line, wEscTerm.line, wEscTerm.pathLine, wEscDot.line, wEscDot.pathLine, wEscEnd.line]

end CaddyModel.C06
