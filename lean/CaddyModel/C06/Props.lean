/-
C06 — property theorems (kept apart from the helper lemmas).

Statement: whether a host or path matcher matches depends only on the request's canonical
host and path: changing letter case, adding or removing the port, percent-encoding unreserved
characters, or inserting duplicate slashes and dot segments never changes the result, and
neither does the number or order of entries in the matcher's list.  On canonical inputs
matching follows the documented pattern rules.

All statements are about the executable model `Model.lean` (tied to the Go code by the
correspondence stream); byte strings under ASCII case folding; no bound on list sizes.
Clauses the tree violates are in `Witness.lean` (`…_full_fails`), their provable parts here
under an explicit decidable exclusion; clauses that failed before a `fix:` commit are proved
here at full strength and have an `…_old_code_fails` theorem in `Witness.lean`.
-/
import CaddyModel.C06.GlobLemmas
import CaddyModel.C06.SiteLemmas
import CaddyModel.C06.ProvLemmas
import CaddyModel.C06.ElemLemmas
import CaddyModel.C06.SrvLemmas
import CaddyModel.C06.Witness
import CaddyModel.Gen.Consts
import CaddyModel.Gen.HostMatcherWrites

namespace CaddyModel.C06

/-! ## MatchHost -/

/-- **host matching is a function of the canonical host, and it is the documented rule.**
    Whatever the size of the list (small: linear scan; large: lower-cased, sorted, binary
    search + scan of the fuzzy prefix) and whatever the threshold between the two code
    paths: unless Provision rejects the list (repeated name), the matcher matches iff some
    entry matches the canonical host by the documented rules (exact name, or `*` labels). -/
theorem matchHost_follows_rules (thr : Nat) (l : List Bytes) (rhost : Bytes)
    (hnd : hasDup (l.map lower) = false) :
    ∃ b, hostCase thr l rhost = .res b ∧ (b = true ↔ HostRule l (canonHost rhost)) := by
  refine ⟨l.any (entryMatches (canonHost rhost)), ?_, ?_⟩
  · rw [hostCase_canon, hnd]; rfl
  · have hc : lower (canonHost rhost) = canonHost rhost := by unfold canonHost; rw [lower_idem]
    rw [List.any_eq_true]
    unfold HostRule
    constructor
    · rintro ⟨e, he, hm⟩; exact ⟨e, he, (entryMatches_iff_rule e _ hc).mp hm⟩
    · rintro ⟨e, he, hm⟩; exact ⟨e, he, (entryMatches_iff_rule e _ hc).mpr hm⟩

/-- Provision rejects exactly the lists with a name repeated up to letter case -/
theorem provisionHost_rejects_iff_dup (thr : Nat) (l : List Bytes) (rhost : Bytes) :
    hostCase thr l rhost = .dup ↔ ¬ (l.map lower).Nodup := by
  rw [hostCase_canon, ← hasDup_iff]
  cases hasDup (l.map lower) <;> simp

theorem matchHost_depends_only_on_canonical_host (thr : Nat) (l : List Bytes) (h h' : Bytes)
    (e : canonHost h = canonHost h') : hostCase thr l h = hostCase thr l h' := by
  rw [hostCase_canon, hostCase_canon, e]

/-- **letter case of the request host never matters** (any list size: this is the clause the
    large-list fast path used to violate before the `fix:` commit) -/
theorem matchHost_case_invariant (thr : Nat) (l : List Bytes) (h h' : Bytes)
    (e : lower h = lower h') : hostCase thr l h = hostCase thr l h' :=
  matchHost_depends_only_on_canonical_host thr l h h' (canonHost_of_lower_eq e)

/-- **adding or removing the port never matters** (`name` ↔ `name:port`) -/
theorem matchHost_port_invariant (thr : Nat) (l : List Bytes) (h p : Bytes)
    (hh : plainHost h = true) (hp : plainHost p = true) :
    hostCase thr l (h ++ cColon :: p) = hostCase thr l h := by
  apply matchHost_depends_only_on_canonical_host
  unfold canonHost
  rw [stripPort_with_port h p hh hp, stripPort_plain h hh]

/-- the same for bracketed IPv6 literals: `[addr]:port`, `[addr]` and `addr` are one host -/
theorem matchHost_port_invariant_ipv6 (thr : Nat) (l : List Bytes) (h p : Bytes)
    (hh : bracketFree h = true) (hp : plainHost p = true) :
    hostCase thr l (cLBr :: h ++ cRBr :: cColon :: p) = hostCase thr l (cLBr :: h ++ [cRBr]) := by
  apply matchHost_depends_only_on_canonical_host
  unfold canonHost
  rw [stripPort_bracketed_port h p hh hp, stripPort_bracketed h hh]

/-- **the order of the entries never matters** -/
theorem matchHost_perm_invariant (thr : Nat) (l l' : List Bytes) (h : Bytes) (hp : l.Perm l') :
    hostCase thr l h = hostCase thr l' h := by
  rw [hostCase_canon, hostCase_canon, hasDup_perm (hp.map lower), hp.any_eq]

/-- **the number of entries never matters (1)**: the optimised code path for large lists and the
    plain scan compute the same function — the answer does not depend on where the threshold is -/
theorem matchHost_size_invariant (thr thr' : Nat) (l : List Bytes) (h : Bytes) :
    hostCase thr l h = hostCase thr' l h := by
  rw [hostCase_canon, hostCase_canon]

/-- **the number of entries never matters (2)**: appending any number of entries that do not
    themselves match the request (and do not repeat a name) leaves the answer unchanged,
    in particular when it moves the list across the threshold -/
theorem matchHost_padding_invariant (thr : Nat) (l extra : List Bytes) (h : Bytes)
    (hnd : hasDup ((l ++ extra).map lower) = false)
    (hx : ∀ e, e ∈ extra → entryMatches (canonHost h) e = false) :
    hostCase thr (l ++ extra) h = hostCase thr l h := by
  have hnd' : hasDup (l.map lower) = false := by
    rw [Bool.eq_false_iff, Ne, hasDup_iff, Classical.not_not] at *
    rw [List.map_append] at hnd
    exact (List.nodup_append.mp hnd).1
  rw [hostCase_canon, hostCase_canon, hnd, hnd', List.any_append]
  have : extra.any (entryMatches (canonHost h)) = false := List.any_eq_false.mpr (fun e he => by simp [hx e he])
  rw [this, Bool.or_false]


/-- **whatever `sort.Slice` does.** The large-list code path is correct for EVERY slice that is a
    sorted permutation of the lower-cased entries, not just for the one the model's insertion
    sort produces (`sort.Slice` is not stable; this theorem makes that irrelevant). -/
theorem matchHost_independent_of_sort_algorithm (thr : Nat) (l m : List Bytes) (rhost : Bytes)
    (hl : l.length > thr) (hperm : m.Perm (l.map lowerExact)) (hs : Sorted m) :
    matchHost thr m rhost = l.any (entryMatches (canonHost rhost)) := by
  rw [matchHost_sorted thr l m rhost hl hperm hs]
  unfold canonHost
  have : entryMatches (lower (stripPort rhost)) = entryMatches (stripPort rhost) :=
    funext (entryMatches_lower _)
  rw [this]

/-- **non-ASCII request hosts never reach the optimised code.** For a request host with a byte
    ≥ 0x80 the matcher — whatever the size of its list — is literally the linear scan of the
    small-list code path over its slice: no binary search, no early `break`.  So for such hosts
    the size-invariance above does not rest on `strings.ToLower`-equality and
    `strings.EqualFold` agreeing (they do not beyond ASCII: U+017F, U+0130), which is what the
    `fix:` commit "host matcher: large lists take the fast path for ASCII hosts only" repaired. -/
theorem matchHost_nonascii_is_linear_scan (thr : Nat) (m : List Bytes) (rhost : Bytes)
    (h : asciiOnly (stripPort rhost) = false) :
    matchHost thr m rhost = m.any (entryMatches (stripPort rhost)) := by
  unfold matchHost useFast
  simp only [h, Bool.and_false, Bool.false_and, Bool.false_eq_true, if_false]
  exact hostLoop_small _ _

/-! ## MatchHost.Provision with `idna.ToASCII` as a parameter (any conversion function) -/

/-- **what Provision leaves in the slice, for every list size**: Provision succeeds only if every
    entry converts and no two converted entries agree up to letter case; then a small list is
    exactly the converted entries in order, and a large list is a *sorted permutation of the
    converted entries with the exact ones lower-cased* — never the unconverted spelling. -/
theorem provision_entries_are_converted (idna : Bytes → Option Bytes) (thr : Nat) (l m : List Bytes)
    (h : provisionHostI idna thr l = .ok m) :
    ∃ as, convAll idna l = some as ∧ hasDup (as.map lower) = false ∧
      (if l.length > thr then m.Perm (as.map lowerExact) ∧ Sorted m else m = as) := by
  have hconv : ∃ as, convAll idna l = some as := by
    unfold provisionHostI at h
    cases hp : provPass1 idna l [] [] with
    | ok m0 => exact provPass1_ok_conv idna l [] [] m0 hp
    | idnaErr => rw [hp] at h; cases h
    | dup => rw [hp] at h; cases h
  rcases hconv with ⟨as, has⟩
  refine ⟨as, has, ?_⟩
  rw [provisionHostI_eq idna thr l as has] at h
  have hlen := convAll_length idna l as has
  unfold provisionHost at h
  by_cases hd : hasDup (as.map lower) = true
  · rw [if_pos hd] at h; cases h
  · have hd' : hasDup (as.map lower) = false := by simpa using hd
    refine ⟨hd', ?_⟩
    rw [if_neg hd] at h
    by_cases hl : as.length > thr
    · rw [if_pos hl] at h
      rw [if_pos (hlen ▸ hl)]
      cases h
      exact ⟨sortHosts_perm _, sortHosts_sorted _⟩
    · rw [if_neg hl] at h
      rw [if_neg (hlen ▸ hl)]
      cases h; rfl

/-- in a large list every exact entry of the provisioned slice is `lower (idna entry)` of a
    configured entry (what the byte-wise binary search needs) -/
theorem provision_large_exact_entries (idna : Bytes → Option Bytes) (thr : Nat) (l m : List Bytes)
    (h : provisionHostI idna thr l = .ok m) (hl : l.length > thr) :
    ∀ x, x ∈ m → fuzzy x = false → ∃ e a, e ∈ l ∧ idna e = some a ∧ x = lower a := by
  rcases provision_entries_are_converted idna thr l m h with ⟨as, has, _, hm⟩
  rw [if_pos hl] at hm
  intro x hx hfx
  rcases mem_map_lowerExact (hm.1.mem_iff.mp hx) with ⟨a, ha, ⟨hfa, hxa⟩ | ⟨_, hxa⟩⟩
  · rw [hxa, hfa] at hfx; cases hfx
  · rcases convAll_mem idna l as has a ha with ⟨e, he, hea⟩
    exact ⟨e, a, he, hea, hxa⟩

/-- **matching is decided on the converted entries, for every list size and threshold** -/
theorem matchHostI_follows_rules (idna : Bytes → Option Bytes) (thr : Nat) (l as : List Bytes) (rhost : Bytes)
    (h : convAll idna l = some as) (hnd : hasDup (as.map lower) = false) :
    hostCaseI idna thr l rhost = .res (as.any (entryMatches (canonHost rhost))) := by
  rw [hostCaseI_eq idna thr l as rhost h, hostCase_canon, hnd]
  rfl

/-- Provision fails exactly when a conversion fails or two converted entries agree up to case -/
theorem provision_fails_iff (idna : Bytes → Option Bytes) (thr : Nat) (l : List Bytes) :
    (∃ m, provisionHostI idna thr l = .ok m) ↔
      ∃ as, convAll idna l = some as ∧ hasDup (as.map lower) = false := by
  constructor
  · rintro ⟨m, hm⟩
    rcases provision_entries_are_converted idna thr l m hm with ⟨as, h1, h2, _⟩
    exact ⟨as, h1, h2⟩
  · rintro ⟨as, h1, h2⟩
    rw [provisionHostI_eq idna thr l as h1]
    unfold provisionHost
    rw [h2]
    simp only [Bool.false_eq_true, if_false]
    by_cases hl : as.length > thr
    · rw [if_pos hl]; exact ⟨_, rfl⟩
    · rw [if_neg hl]; exact ⟨_, rfl⟩

/-! ## host matching through the provisioned server (Provision → automatic HTTPS phase 1 → request) -/

/-- **automatic HTTPS phase 1 is read-only on host matchers**: the slice the request-time
    matcher sees is the slice `MatchHost.Provision` left (sorted, partitioned, lower-cased) -/
theorem autohttps_phase1_leaves_host_matcher_alone (emptyGlobal : Bytes → Bool) (m m' : List Bytes)
    (h : autohttpsHostView emptyGlobal m = some m') : m' = m :=
  autohttpsHostView_read_only emptyGlobal m m' h

/-- the provisioned server, for every list size and every threshold: duplicate check, phase-1
    check, then "some CONFIGURED entry, expanded by the request's replacer, matches the canonical host" -/
theorem srvHostCase_eq (thr : Nat) (l : List Bytes) (look : Bytes → Bytes) (emptyGlobal : Bytes → Bool)
    (rhost : Bytes) :
    srvHostCase thr l look emptyGlobal rhost =
      if hasDup (l.map lower) then .dup
      else if l.any (fun e => (keysOf e.length e).any emptyGlobal) then .phase1Err
      else .res (l.any (fun e => entryMatches (canonHost rhost) (expand look e.length e))) := by
  have hcanon : (fun e => entryMatches (canonHost rhost) (expand look e.length e)) =
      (fun e => entryMatches (stripPort rhost) (expand look e.length e)) := by
    funext e; unfold canonHost; exact entryMatches_lower _ _
  rw [hcanon]
  unfold srvHostCase provisionHost
  by_cases hd : hasDup (l.map lower) = true
  · simp [hd]
  · have hd' : hasDup (l.map lower) = false := by simpa using hd
    simp only [hd', Bool.false_eq_true, if_false]
    by_cases hl : l.length > thr
    · simp only [hl, if_true]
      unfold autohttpsHostView
      rw [phase1_fails_perm emptyGlobal l _ (sortHosts_perm _)]
      by_cases hp : l.any (fun e => (keysOf e.length e).any emptyGlobal) = true
      · simp [hp]
      · have hp' : l.any (fun e => (keysOf e.length e).any emptyGlobal) = false := by simpa using hp
        simp only [hp', Bool.false_eq_true, if_false]
        rw [matchHostX_sorted _ (fun e he => expand_exact look e he) thr l _ rhost hl
          (sortHosts_perm _) (sortHosts_sorted _)]
    · simp only [hl, if_false]
      unfold autohttpsHostView
      by_cases hp : l.any (fun e => (keysOf e.length e).any emptyGlobal) = true
      · simp [hp]
      · have hp' : l.any (fun e => (keysOf e.length e).any emptyGlobal) = false := by simpa using hp
        simp only [hp', Bool.false_eq_true, if_false]
        rw [matchHostX_small _ thr l rhost hl]

/-- **match result of the provisioned server = match result of the configured list, for every
    size**: Provision's large-list layout, phase 1 and the per-request expansion of placeholder
    entries together compute the plain scan of the list as configured -/
theorem srvHost_matches_configured_list (thr : Nat) (l : List Bytes) (look : Bytes → Bytes)
    (emptyGlobal : Bytes → Bool) (rhost : Bytes) (hnd : hasDup (l.map lower) = false)
    (hok : l.any (fun e => (keysOf e.length e).any emptyGlobal) = false) :
    srvHostCase thr l look emptyGlobal rhost =
      .res (hostLoopX (fun e => expand look e.length e) false (canonHost rhost) l) := by
  rw [srvHostCase_eq, hnd, hok, hostLoopX_small]
  rfl

/-- the provisioned server's answer never depends on where the large-list threshold is … -/
theorem srvHost_size_invariant (thr thr' : Nat) (l : List Bytes) (look : Bytes → Bytes)
    (emptyGlobal : Bytes → Bool) (rhost : Bytes) :
    srvHostCase thr l look emptyGlobal rhost = srvHostCase thr' l look emptyGlobal rhost := by
  rw [srvHostCase_eq, srvHostCase_eq]

/-- … nor on the spelling of the request host (letter case, port) -/
theorem srvHost_depends_only_on_canonical_host (thr : Nat) (l : List Bytes) (look : Bytes → Bytes)
    (emptyGlobal : Bytes → Bool) (h h' : Bytes) (e : canonHost h = canonHost h') :
    srvHostCase thr l look emptyGlobal h = srvHostCase thr l look emptyGlobal h' := by
  rw [srvHostCase_eq, srvHostCase_eq, e]

/-- … nor on the order of the configured entries -/
theorem srvHost_perm_invariant (thr : Nat) (l l' : List Bytes) (look : Bytes → Bytes)
    (emptyGlobal : Bytes → Bool) (rhost : Bytes) (hp : l.Perm l') :
    srvHostCase thr l look emptyGlobal rhost = srvHostCase thr l' look emptyGlobal rhost := by
  rw [srvHostCase_eq, srvHostCase_eq, hasDup_perm (hp.map lower), hp.any_eq, hp.any_eq]

/-! ## the host matcher of the automatic HTTP→HTTPS redirect route -/

/-- **the clause was false for the code before the `fix:` commit "provision the host matcher of
    the automatic HTTP->HTTPS redirect route"** (`provisioned = false`): which redirect a name gets
    depended on how many other names the server had.  Counter-example (threshold 2 in place of
    100): one route with `Example.com` — `example.com` is redirected by the host-matched route;
    the same route plus a second route with two unrelated names — it fell to the catch-all.
    The matcher was used without `Provision`, so a "large" list was neither lower-cased nor
    laid out for the binary search.  With the matcher provisioned (the code as it is) the same
    case is answered correctly, and `redirHost_provisioned_is_plain_scan` holds for every size.
    Regression case: `corpus/C06/redirect-hostmatcher-size.txt`. -/
theorem redirHost_size_invariant_old_code_fails :
    redirCase false 2 [[[69, 120, 97, 109, 112, 108, 101, 46, 99, 111, 109]]] (fun _ => []) (fun _ => []) (fun _ => false) [101, 120, 97, 109, 112, 108, 101, 46, 99, 111, 109] = .res true ∧
    redirCase false 2 [[[69, 120, 97, 109, 112, 108, 101, 46, 99, 111, 109]], [[122, 122, 49, 46, 105, 110, 118, 97, 108, 105, 100], [122, 122, 50, 46, 105, 110, 118, 97, 108, 105, 100]]] (fun _ => []) (fun _ => []) (fun _ => false) [101, 120, 97, 109, 112, 108, 101, 46, 99, 111, 109] = .res false ∧
    redirCase true 2 [[[69, 120, 97, 109, 112, 108, 101, 46, 99, 111, 109]], [[122, 122, 49, 46, 105, 110, 118, 97, 108, 105, 100], [122, 122, 50, 46, 105, 110, 118, 97, 108, 105, 100]]] (fun _ => []) (fun _ => []) (fun _ => false) [101, 120, 97, 109, 112, 108, 101, 46, 99, 111, 109] = .res true := by
  decide

/-- what did hold for the old code: up to `thr` redirect domains the unprovisioned matcher was
    the plain scan of the domain list -/
theorem redirHost_unprovisioned_partial (thr : Nat) (domains : List Bytes) (look : Bytes → Bytes) (rhost : Bytes)
    (h : ¬ domains.length > thr) :
    redirMatch false thr domains look rhost =
      domains.any (fun d => entryMatches (stripPort rhost) (expand look d.length d)) := by
  unfold redirMatch
  simp only [Bool.false_eq_true, if_false]
  exact matchHostX_small _ thr domains rhost h

/-- **with the redirect matcher provisioned, it answers like the plain scan of the
    (case-insensitively de-duplicated) domain list, for every number of names and every threshold** -/
theorem redirHost_provisioned_is_plain_scan (thr : Nat) (domains : List Bytes) (look : Bytes → Bytes) (rhost : Bytes) :
    redirMatch true thr domains look rhost =
      (dedupCI [] domains).any (fun d => entryMatches (stripPort rhost) (expand look d.length d)) := by
  unfold redirMatch
  simp only [if_true]
  rcases provisioned_matchX (fun e => expand look e.length e) (fun e he => expand_exact look e he) thr
      (dedupCI [] domains) rhost (dedupCI_no_dup domains) with ⟨m, hm, hx⟩
  rw [hm]
  exact hx

theorem redirHost_provisioned_size_invariant (thr thr' : Nat) (domains : List Bytes) (look : Bytes → Bytes) (rhost : Bytes) :
    redirMatch true thr domains look rhost = redirMatch true thr' domains look rhost := by
  rw [redirHost_provisioned_is_plain_scan, redirHost_provisioned_is_plain_scan]

/-! ## path.Clean / cleanPath -/

/-- `path.Clean` is idempotent -/
theorem pathClean_idempotent (p : Bytes) : pathClean (pathClean p) = pathClean p := pathClean_idem p


/-- `cleanPath` (hence the canonical form used by the matchers) is idempotent -/
theorem cleanPath_idempotent (p : Bytes) : cleanPath (cleanPath p) = cleanPath p := cleanPath_idem p

/-- **what a cleaned request path looks like**: `/` followed by ordinary segments (non-empty, not
    `.`, not `..`, slash-free) joined by single slashes — no dot segment survives -/
theorem pathClean_rooted_form (p : Bytes) (hr : isRooted p = true) :
    ∃ segs : List Bytes, pathClean p = cSlash :: joinSep cSlash segs ∧
      ∀ s, s ∈ segs → normalSeg s = true := pathClean_rooted_spec p hr

/-- **a duplicated slash never changes the cleaned path** -/
theorem cleanPath_dup_slash (a b : Bytes) :
    cleanPath (a ++ cSlash :: cSlash :: b) = cleanPath (a ++ cSlash :: b) :=
  cleanPath_insert a b [[]] (by simp) (by intro s hs; simp at hs; subst hs; rfl) neutral_empty

/-- **an inserted `/./` never changes the cleaned path** -/
theorem cleanPath_dot_segment (a b : Bytes) :
    cleanPath (a ++ cSlash :: cDot :: cSlash :: b) = cleanPath (a ++ cSlash :: b) :=
  cleanPath_insert a b [dot] (by simp) (by intro s hs; simp at hs; subst hs; rfl) neutral_dot

/-- **an inserted `/x/../` (x an ordinary segment) never changes the cleaned path** -/
theorem cleanPath_dotdot_segment (a b x : Bytes) (hx : normalSeg x = true) :
    cleanPath (a ++ cSlash :: (x ++ cSlash :: cDot :: cDot :: cSlash :: b)) = cleanPath (a ++ cSlash :: b) := by
  have := cleanPath_insert a b [x, dotdot] (by simp) (by
    intro s hs
    simp only [List.mem_cons, List.not_mem_nil, or_false] at hs
    rcases hs with hs | hs
    · subst hs
      unfold normalSeg at hx
      simp only [Bool.and_eq_true, Bool.not_eq_eq_eq_not, Bool.not_true] at hx
      exact hx.2
    · subst hs; rfl) (neutral_dotdot x hx)
  simp only [joinSep, dotdot, List.append_assoc, List.cons_append, List.nil_append] at this
  exact this

/-- letter case never changes the canonical path -/
theorem canonPath_case_invariant (p p' : Bytes) (e : lower p = lower p') : canonPath p = canonPath p' := by
  unfold canonPath; rw [e]

/-! ## MatchPath -/

/-- no pattern of the list asks for escaped-space comparison (`%`) or slash preservation (`//`) -/
def plainPatterns (l : List Bytes) : Bool :=
  l.all (fun pat => !pat.contains cPct && !containsSub pat [cSlash, cSlash])

/-- no pattern of the list asks for escaped-space comparison (`%`) -/
def unescapedPatterns (l : List Bytes) : Bool := l.all (fun pat => !pat.contains cPct)

/-- **what MatchPath respects, in every mode**: the answer is a function of the two cleaned
    forms (slashes merged / empty segments kept) of the lower-cased path and of the lower-cased
    escaped path. -/
theorem matchPath_depends_only_on_clean_forms (l : List Bytes) (p e p' e' : Bytes)
    (hp : ∀ m, cleanPathMode m (lower p) = cleanPathMode m (lower p'))
    (he : ∀ m, cleanPathMode m (lower e) = cleanPathMode m (lower e')) :
    pathCase l p e = pathCase l p' e' := by
  rw [pathCase_eq_any, pathCase_eq_any]
  congr 1
  funext pat
  unfold patMatches
  simp only [hp, he]

/-- **spelling invariance.** For patterns without `%` and `//` the answer depends only on the
    canonical path: any two requests with the same canonical path — whatever their letter
    case, duplicate slashes, dot segments, and whatever their escaped form (hence however
    unreserved characters were percent-encoded, `net/url` having decoded them into
    `URL.Path`) — get the same answer. -/
theorem matchPath_spelling_invariant (l : List Bytes) (p e p' e' : Bytes)
    (hl : plainPatterns l = true) (hc : canonPath p = canonPath p') :
    pathCase l p e = pathCase l p' e' := by
  rw [pathCase_eq_any, pathCase_eq_any]
  apply any_congr_mem
  intro pat hpat
  unfold plainPatterns at hl
  have := List.all_eq_true.mp hl pat hpat
  simp only [Bool.and_eq_true, Bool.not_eq_eq_eq_not, Bool.not_true] at this
  have h1 : (lower pat).contains cPct = false := by rw [contains_lower _ nl_pct]; exact this.1
  have h2 : containsSub (lower pat) [cSlash, cSlash] = false := by
    rw [containsSub_lower _ _ (by intro c hm; simp only [List.mem_cons, List.not_mem_nil, or_false, or_self] at hm; subst hm; exact nl_slash)]
    exact this.2
  unfold canonPath at hc
  unfold patMatches
  simp only [h1, h2, cleanPathMode, Bool.not_false, if_true, Bool.false_eq_true, if_false, hc]

/-- patterns with `//` (but no `%`): additionally the empty segments of the path are looked at,
    nothing else — letter case, dot segments and the escaped form still never matter -/
theorem matchPath_keepslashes_invariant (l : List Bytes) (p e p' e' : Bytes)
    (hl : unescapedPatterns l = true)
    (hc : canonPath p = canonPath p') (hk : canonPathKeepSlashes p = canonPathKeepSlashes p') :
    pathCase l p e = pathCase l p' e' := by
  rw [pathCase_eq_any, pathCase_eq_any]
  apply any_congr_mem
  intro pat hpat
  unfold unescapedPatterns at hl
  have := List.all_eq_true.mp hl pat hpat
  simp only [Bool.not_eq_eq_eq_not, Bool.not_true] at this
  have h1 : (lower pat).contains cPct = false := by rw [contains_lower _ nl_pct]; exact this
  have hm : ∀ m, cleanPathMode m (lower p) = cleanPathMode m (lower p') := by
    intro m; cases m
    · exact hk
    · unfold cleanPathMode; simp only [if_true]; exact hc
  unfold patMatches
  simp only [h1, Bool.false_eq_true, if_false, hm]


/-- no pattern of the list asks for slash preservation (`//`) -/
def mergingPatterns (l : List Bytes) : Bool := l.all (fun pat => !containsSub pat [cSlash, cSlash])

/-- lists without a `//` pattern only ever look at the slash-merged forms -/
theorem matchPath_merge_only (l : List Bytes) (p e p' e' : Bytes) (hl : mergingPatterns l = true)
    (hp : cleanPath (lower p) = cleanPath (lower p')) (he : cleanPath (lower e) = cleanPath (lower e')) :
    pathCase l p e = pathCase l p' e' := by
  rw [pathCase_eq_any, pathCase_eq_any]
  apply any_congr_mem
  intro pat hpat
  unfold mergingPatterns at hl
  have := List.all_eq_true.mp hl pat hpat
  simp only [Bool.not_eq_eq_eq_not, Bool.not_true] at this
  have h2 : containsSub (lower pat) [cSlash, cSlash] = false := by
    rw [containsSub_lower _ _ (by intro c hm; simp only [List.mem_cons, List.not_mem_nil, or_false, or_self] at hm; subst hm; exact nl_slash)]
    exact this
  unfold patMatches
  simp only [h2, cleanPathMode, Bool.not_false, if_true, hp, he]

/-- **percent-encoding (model part).** Lists without a `%` pattern never look at the escaped
    form of the path: however the client percent-encoded the target, only the decoded
    `URL.Path` counts. -/
theorem matchPath_ignores_escaped_form (l : List Bytes) (p e e' : Bytes) (hl : unescapedPatterns l = true) :
    pathCase l p e = pathCase l p e' :=
  matchPath_keepslashes_invariant l p e p e' hl rfl rfl

/-- **letter case never matters, for every pattern list** (`%` patterns included: the escaped
    path is lower-cased like the unescaped one; before that `fix:` commit this clause failed,
    see `Witness.matchPath_case_invariant_old_code_fails`) -/
theorem matchPath_case_invariant (l : List Bytes) (p e p' e' : Bytes)
    (hc : lower p = lower p') (he : lower e = lower e') :
    pathCase l p e = pathCase l p' e' := by
  apply matchPath_depends_only_on_clean_forms
  · intro m; rw [hc]
  · intro m; rw [he]

/-- **duplicate slashes**, provable part (full statement: `Witness.matchPath_dup_slash_full_fails`):
    excluded are lists with a `//` pattern, for which keeping empty segments is the documented intent -/
theorem matchPath_dup_slash_invariant_partial (l : List Bytes) (a b ea eb : Bytes)
    (hl : mergingPatterns l = true) :
    pathCase l (a ++ cSlash :: cSlash :: b) (ea ++ cSlash :: cSlash :: eb) =
      pathCase l (a ++ cSlash :: b) (ea ++ cSlash :: eb) := by
  apply matchPath_merge_only l _ _ _ _ hl
  · simp only [lower_append, lower_cons]
    exact cleanPath_dup_slash _ _
  · simp only [lower_append, lower_cons]
    exact cleanPath_dup_slash _ _

/-- both cleaning modes ignore an inserted `/./` … -/
theorem cleanPathMode_dot_segment (mode : Bool) (a b : Bytes) :
    cleanPathMode mode (a ++ cSlash :: cDot :: cSlash :: b) = cleanPathMode mode (a ++ cSlash :: b) :=
  cleanPathMode_insert mode a b [dot] (by simp) (by intro s hs; simp at hs; subst hs; rfl) neutral_dot inert_dot

/-- … and an inserted `/x/../` -/
theorem cleanPathMode_dotdot_segment (mode : Bool) (a b x : Bytes) (hx : normalSeg x = true) :
    cleanPathMode mode (a ++ cSlash :: (x ++ cSlash :: cDot :: cDot :: cSlash :: b)) = cleanPathMode mode (a ++ cSlash :: b) := by
  have := cleanPathMode_insert mode a b [x, dotdot] (by simp) (by
    intro s hs
    simp only [List.mem_cons, List.not_mem_nil, or_false] at hs
    rcases hs with hs | hs
    · subst hs
      unfold normalSeg at hx
      simp only [Bool.and_eq_true, Bool.not_eq_eq_eq_not, Bool.not_true] at hx
      exact hx.2
    · subst hs; rfl) (neutral_dotdot x hx) (inert_seg_dotdot x hx)
  simp only [joinSep, dotdot, List.append_assoc, List.cons_append, List.nil_append] at this
  exact this

/-- **dot segments never matter, for every pattern list** (`%` and `//` patterns included):
    `/./` inserted into the request target -/
theorem matchPath_dot_segment_invariant (l : List Bytes) (a b ea eb : Bytes) :
    pathCase l (a ++ cSlash :: cDot :: cSlash :: b) (ea ++ cSlash :: cDot :: cSlash :: eb) =
      pathCase l (a ++ cSlash :: b) (ea ++ cSlash :: eb) := by
  apply matchPath_depends_only_on_clean_forms
  · intro m
    simp only [lower_append, lower_cons]
    exact cleanPathMode_dot_segment m _ _
  · intro m
    simp only [lower_append, lower_cons]
    exact cleanPathMode_dot_segment m _ _

/-- … and `/x/../` inserted into the request target (`x` an ordinary segment; `x'` is its
    spelling in the escaped form) -/
theorem matchPath_dotdot_segment_invariant (l : List Bytes) (a b ea eb x x' : Bytes)
    (hx : normalSeg (lower x) = true) (hx' : normalSeg (lower x') = true) :
    pathCase l (a ++ cSlash :: (x ++ cSlash :: cDot :: cDot :: cSlash :: b))
               (ea ++ cSlash :: (x' ++ cSlash :: cDot :: cDot :: cSlash :: eb)) =
      pathCase l (a ++ cSlash :: b) (ea ++ cSlash :: eb) := by
  apply matchPath_depends_only_on_clean_forms
  · intro m
    simp only [lower_append, lower_cons]
    exact cleanPathMode_dotdot_segment m _ _ _ hx
  · intro m
    simp only [lower_append, lower_cons]
    exact cleanPathMode_dotdot_segment m _ _ _ hx'

/-- **the order of the patterns never matters** (Provision's `*` shuffle included) -/
theorem matchPath_perm_invariant (l l' : List Bytes) (p e : Bytes) (hp : l.Perm l') :
    pathCase l p e = pathCase l' p e := by
  rw [pathCase_eq_any, pathCase_eq_any, hp.any_eq]

/-- **the number of patterns never matters**: a list matches iff one of its parts does; patterns
    that do not match can be added or removed freely -/
theorem matchPath_size_invariant (l l' : List Bytes) (p e : Bytes) :
    pathCase (l ++ l') p e = (pathCase l p e || pathCase l' p e) := by
  rw [pathCase_eq_any, pathCase_eq_any, pathCase_eq_any, List.any_append]


/-! ## documented pattern rules on the canonical path (the shapes that are not globs) -/

/-- `*` matches every request -/
theorem matchPath_star_rule (p e : Bytes) : pathCase [star] p e = true := by
  rw [pathCase_eq_any]; simp [lower_star, patMatches_star]

/-- a pattern of literal bytes matches exactly the requests whose canonical path it is -/
theorem matchPath_exact_rule (pat p e : Bytes) (hl : lower pat = pat) (hp : plainPat pat = true)
    (h1 : pat.contains cPct = false) (h2 : containsSub pat [cSlash, cSlash] = false) :
    pathCase [pat] p e = (canonPath p == pat) := by
  rw [pathCase_eq_any]
  simp only [List.any_cons, List.any_nil, Bool.or_false]
  rw [hl, patMatches_exact _ _ _ hp h1 h2]; rfl

/-- `pre*` matches exactly the requests whose canonical path starts with `pre` -/
theorem matchPath_prefix_rule (pre p e : Bytes) (hl : lower pre = pre) (hp : plainPat pre = true) (hne : pre ≠ [])
    (h1 : (pre ++ [cStar]).contains cPct = false) (h2 : containsSub (pre ++ [cStar]) [cSlash, cSlash] = false) :
    pathCase [pre ++ [cStar]] p e = true ↔ ∃ rest, canonPath p = pre ++ rest := by
  rw [pathCase_eq_any]
  simp only [List.any_cons, List.any_nil, Bool.or_false]
  have : lower (pre ++ [cStar]) = pre ++ [cStar] := by rw [lower_append, hl]; rfl
  rw [this, patMatches_prefix _ _ _ hp hne h1 h2, hasPrefix_iff]; rfl

/-- `*suf` matches exactly the requests whose canonical path ends with `suf` -/
theorem matchPath_suffix_rule (suf p e : Bytes) (hl : lower suf = suf) (hp : plainPat suf = true) (hne : suf ≠ [])
    (h1 : (cStar :: suf).contains cPct = false) (h2 : containsSub (cStar :: suf) [cSlash, cSlash] = false) :
    pathCase [cStar :: suf] p e = true ↔ ∃ front, canonPath p = front ++ suf := by
  rw [pathCase_eq_any]
  simp only [List.any_cons, List.any_nil, Bool.or_false]
  have : lower (cStar :: suf) = cStar :: suf := by rw [lower_cons, hl]; rfl
  rw [this, patMatches_suffix _ _ _ hp hne h1 h2, hasSuffix_iff]; rfl

/-- `*mid*` matches exactly the requests whose canonical path contains `mid` -/
theorem matchPath_substring_rule (mid p e : Bytes) (hl : lower mid = mid) (hp : plainPat mid = true)
    (h1 : (cStar :: mid ++ [cStar]).contains cPct = false)
    (h2 : containsSub (cStar :: mid ++ [cStar]) [cSlash, cSlash] = false) :
    pathCase [cStar :: mid ++ [cStar]] p e = true ↔ ∃ front back, canonPath p = front ++ mid ++ back := by
  rw [pathCase_eq_any]
  simp only [List.any_cons, List.any_nil, Bool.or_false]
  have : lower (cStar :: mid ++ [cStar]) = cStar :: mid ++ [cStar] := by
    rw [List.cons_append, lower_cons, lower_append, hl]; rfl
  rw [this, patMatches_substring _ _ _ hp h1 h2, containsSub_iff]; rfl

/-! ## glob semantics of the single-character operators (`c`, `\\c`, `?`, `[…]`, `[^…]`) -/

/-- **`matchChunk` is parse-then-match**: a star-free chunk denotes a list of elements (literal,
    `?`, character class), each consuming exactly one byte; a malformed chunk is `ErrBadPattern`
    whatever the name -/
theorem matchChunk_is_elementwise (chunk s : Bytes) :
    matchChunk chunk.length chunk s false = chunkSpec (parseChunk chunk.length chunk) s false :=
  matchChunk_eq_spec _ _ _ _

/-- **a pattern without `*` matches exactly the names of its own length whose bytes are accepted
    element by element** (`?` = any byte but `/`, a class = its ranges, negated or not, `\\c` = `c`);
    a malformed pattern matches nothing -/
theorem globMatch_starfree_rule (pat s : Bytes) (es : List Elem) (hne : pat ≠ [])
    (hstar : pat.head? ≠ some cStar) (hchunk : scanLen false pat = pat.length)
    (hparse : parseChunk pat.length pat = .ok es) :
    globMatch pat s = .yes ↔ ElemsAccept es s := by
  rw [globMatch_single_chunk pat s hne hstar hchunk, hparse, ← elemsMatch_iff]
  simp only [ofBool]
  cases h : (elemsMatch es s == some []) with
  | true => simp at h; simp [h]
  | false =>
    have : ¬ elemsMatch es s = some [] := by simpa using h
    simp [this]

theorem globMatch_starfree_bad (pat s : Bytes) (hne : pat ≠ [])
    (hstar : pat.head? ≠ some cStar) (hchunk : scanLen false pat = pat.length)
    (hparse : parseChunk pat.length pat = .bad) :
    globMatch pat s = .bad := by
  rw [globMatch_single_chunk pat s hne hstar hchunk, hparse]

/-! ## the recursion budgets of the model are never exhausted -/

/-- `path.Match` terminates within its budget (one unit per chunk) -/
theorem globMatch_never_runs_out_of_fuel (pattern name : Bytes) : globMatch pattern name ≠ .fuel :=
  globLoop_no_fuel _ _ _ (Nat.le_succ _)

/-- the lock-step loop of `matchPatternWithEscapeSequence` terminates within its budget -/
theorem escLoop_never_runs_out_of_fuel (pat ep : Bytes) : escLoop (pat.length + 1) pat ep [] ≠ .fuel :=
  escLoop_no_fuel _ _ _ _ (Nat.le_succ _)

/-- `matchChunk` and the character-class parser terminate within their budgets -/
theorem matchChunk_never_runs_out_of_fuel (chunk s : Bytes) : matchChunk chunk.length chunk s false ≠ .fuel :=
  matchChunk_no_fuel _ _ _ _ (Nat.le_refl _)

/-! ## matcher sets (`{"host": […], "path": […]}` as configured in JSON / produced by the Caddyfile adapter) -/

/-- a set with a host and a path matcher is their conjunction (after Provision's duplicate check) -/
theorem matcherSet_is_conjunction (thr : Nat) (hosts pats : List Bytes) (rhost p e : Bytes)
    (hnd : hasDup (hosts.map lower) = false) :
    setCase thr hosts pats rhost p e =
      .res (hosts.any (entryMatches (canonHost rhost)) && pathCase pats p e) := by
  unfold setCase
  rw [hostCase_canon, hnd]
  rfl

/-- **a matcher set, too, depends only on the canonical host and the cleaned forms of the path** -/
theorem matcherSet_depends_only_on_canonical_request (thr : Nat) (hosts pats : List Bytes)
    (h h' p e p' e' : Bytes) (hh : canonHost h = canonHost h')
    (hp : ∀ m, cleanPathMode m (lower p) = cleanPathMode m (lower p'))
    (he : ∀ m, cleanPathMode m (lower e) = cleanPathMode m (lower e')) :
    setCase thr hosts pats h p e = setCase thr hosts pats h' p' e' := by
  unfold setCase
  rw [matchHost_depends_only_on_canonical_host thr hosts h h' hh,
    matchPath_depends_only_on_clean_forms pats p e p' e' hp he]

/-- order and number of entries of either matcher of the set never matter -/
theorem matcherSet_perm_invariant (thr : Nat) (hosts hosts' pats pats' : List Bytes) (h p e : Bytes)
    (h1 : hosts.Perm hosts') (h2 : pats.Perm pats') :
    setCase thr hosts pats h p e = setCase thr hosts' pats' h p e := by
  unfold setCase
  rw [matchHost_perm_invariant thr hosts hosts' h h1, matchPath_perm_invariant pats pats' p e h2]

/-! ## Caddyfile glue: a site block `<key> { respond <matcher> "hit" }` through the adapter -/

/-- **the whole site block depends only on the canonical host and the cleaned forms of the path**:
    the site key's host and path matchers, the directive's implicit / named matcher set and
    their conjunction add no other dependence on the spelling of the request -/
theorem siteCase_depends_only_on_canonical_request (thr : Nat) (key : Bytes) (mode : TokMode)
    (hosts pats : List Bytes) (h h' p e p' e' : Bytes) (hh : canonHost h = canonHost h')
    (hp : ∀ m, cleanPathMode m (lower p) = cleanPathMode m (lower p'))
    (he : ∀ m, cleanPathMode m (lower e) = cleanPathMode m (lower e')) :
    siteCase thr key mode hosts pats h p e = siteCase thr key mode hosts pats h' p' e' := by
  unfold siteCase tokCase
  rw [matchHost_depends_only_on_canonical_host thr [(parseSiteKey key).1] h h' hh,
    matchHost_depends_only_on_canonical_host thr hosts h h' hh,
    matchPath_depends_only_on_clean_forms [(parseSiteKey key).2] p e p' e' hp he,
    matchPath_depends_only_on_clean_forms pats p e p' e' hp he]

/-- **the spelling of the site key never matters**: `Name:port/path` and `name/path` (any letter
    case of the name, any port or none) configure the same site — the adapter stores the
    lower-cased name without the port as the host matcher -/
theorem siteCase_key_spelling_invariant (thr : Nat) (n n' port q : Bytes) (mode : TokMode)
    (hosts pats : List Bytes) (h p e : Bytes)
    (hn : plainHost n = true) (hn' : plainHost n' = true) (hport : plainHost port = true)
    (hs : (n ++ cColon :: port).contains cSlash = false) (hs' : n'.contains cSlash = false)
    (hq : keyPathShape q = true)
    (hns : hasPrefix (n ++ cColon :: port ++ q) httpScheme = false)
    (hns2 : hasPrefix (n ++ cColon :: port ++ q) httpsScheme = false)
    (hns' : hasPrefix (n' ++ q) httpScheme = false) (hns2' : hasPrefix (n' ++ q) httpsScheme = false)
    (hcase : lower n = lower n') :
    siteCase thr (n ++ cColon :: port ++ q) mode hosts pats h p e =
      siteCase thr (n' ++ q) mode hosts pats h p e := by
  unfold siteCase
  rw [parseSiteKey_name_port n port q hn hport hs hq hns hns2, parseSiteKey_name n' q hn' hs' hq hns' hns2', hcase]

/-- `handle /pat`, `route /pat` and `handle_path /pat` guard their block with the path matcher
    `[pat]` — the very token, not the prefix `handle_path` strips afterwards -/
theorem tokCase_handle_and_handle_path (thr : Nat) (pat rhost p e : Bytes) :
    tokCase thr .handle [] [pat] rhost p e = .res (pathCase [pat] p e) ∧
    tokCase thr .handlePath [] [pat] rhost p e = .res (pathCase [pat] p e) := ⟨rfl, rfl⟩

/-- the scheme prefix of a site key never reaches the host matcher: `https://name` = `name` -/
theorem parseSiteKey_scheme_dropped (rest : Bytes) (h1 : hasPrefix rest httpScheme = false)
    (h2 : hasPrefix rest httpsScheme = false) :
    parseSiteKey (httpsScheme ++ rest) = parseSiteKey rest ∧ parseSiteKey (httpScheme ++ rest) = parseSiteKey rest := by
  have e1 : dropScheme rest = rest := by unfold dropScheme; rw [h1, h2]; rfl
  have e2 : dropScheme (httpsScheme ++ rest) = rest := by
    unfold dropScheme
    have a : hasPrefix (httpsScheme ++ rest) httpScheme = false := by
      simp [httpsScheme, httpScheme, hasPrefix]
    have b : hasPrefix (httpsScheme ++ rest) httpsScheme = true := by
      rw [hasPrefix_iff]; exact ⟨rest, rfl⟩
    rw [a, b]; simp [httpsScheme]
  have e3 : dropScheme (httpScheme ++ rest) = rest := by
    unfold dropScheme
    have b : hasPrefix (httpScheme ++ rest) httpScheme = true := by
      rw [hasPrefix_iff]; exact ⟨rest, rfl⟩
    rw [b]; simp [httpScheme]
  unfold parseSiteKey
  rw [e1, e2, e3]
  exact ⟨rfl, rfl⟩

/-- the implicit matcher token `/pattern` is the path matcher with that one pattern, `*` is no matcher -/
theorem tokCase_implicit_and_star (thr : Nat) (pat rhost p e : Bytes) :
    tokCase thr .implicit [] [pat] rhost p e = .res (pathCase [pat] p e) ∧
    tokCase thr .star [] [] rhost p e = .res true := ⟨rfl, rfl⟩

/-- **negation adds no dependence on the spelling**: `not {host …} {path …}` depends only on the
    canonical host and the cleaned forms of the path -/
theorem notCase_depends_only_on_canonical_request (thr : Nat) (hosts pats : List Bytes)
    (h h' p e p' e' : Bytes) (hh : canonHost h = canonHost h')
    (hp : ∀ m, cleanPathMode m (lower p) = cleanPathMode m (lower p'))
    (he : ∀ m, cleanPathMode m (lower e) = cleanPathMode m (lower e')) :
    notCase thr hosts pats h p e = notCase thr hosts pats h' p' e' := by
  unfold notCase
  rw [matchHost_depends_only_on_canonical_host thr hosts h h' hh,
    matchPath_depends_only_on_clean_forms pats p e p' e' hp he]

/-! ## MatchPathRE -/

/-- the expression only ever sees the cleaned path -/
theorem matchPathRE_spelling_invariant (k : ReKind) (lit p p' : Bytes) (h : cleanPath p = cleanPath p') :
    matchPathRE k lit p = matchPathRE k lit p' := by
  unfold matchPathRE; rw [h]

/-! ## non-vacuity: every hypothesis above is met by concrete, non-trivial inputs (kernel-evaluated) -/

-- three entries, threshold 2 (⇒ the large code path), mixed-case entry, request in another case with a port
example : hostCase 2 [[69, 120, 97, 109, 112, 108, 101, 46, 99, 111, 109], [98, 46, 116, 101, 115, 116], [42, 46, 99, 46, 116, 101, 115, 116]] [69, 88, 65, 77, 80, 76, 69, 46, 99, 111, 109, 58, 56, 48] = .res true := by decide
example : hasDup ([[69, 120, 97, 109, 112, 108, 101, 46, 99, 111, 109], [98, 46, 116, 101, 115, 116], [42, 46, 99, 46, 116, 101, 115, 116]].map lower) = false := by decide
-- the same list on the small code path (threshold 100)
example : hostCase 100 [[69, 120, 97, 109, 112, 108, 101, 46, 99, 111, 109], [98, 46, 116, 101, 115, 116], [42, 46, 99, 46, 116, 101, 115, 116]] [69, 88, 65, 77, 80, 76, 69, 46, 99, 111, 109, 58, 56, 48] = .res true := by decide
-- wildcard label, large path
example : hostCase 2 [[69, 120, 97, 109, 112, 108, 101, 46, 99, 111, 109], [98, 46, 116, 101, 115, 116], [42, 46, 99, 46, 116, 101, 115, 116]] [88, 46, 99, 46, 84, 101, 115, 116] = .res true := by decide
example : hostCase 2 [[69, 120, 97, 109, 112, 108, 101, 46, 99, 111, 109], [98, 46, 116, 101, 115, 116], [42, 46, 99, 46, 116, 101, 115, 116]] [120, 46, 121, 46, 99, 46, 116, 101, 115, 116] = .res false := by decide
-- a repeated name (up to case) is rejected
example : hostCase 2 [[69, 120, 97, 109, 112, 108, 101, 46, 99, 111, 109], [101, 120, 97, 109, 112, 108, 101, 46, 99, 111, 109]] [101, 120, 97, 109, 112, 108, 101, 46, 99, 111, 109] = .dup := by decide
-- case / port / brackets
example : lower [69, 120, 97, 109, 112, 108, 101, 46, 99, 111, 109] = lower [101, 120, 97, 109, 112, 108, 101, 46, 99, 111, 109] := by decide
example : plainHost [101, 120, 97, 109, 112, 108, 101, 46, 99, 111, 109] = true ∧ plainHost [56, 48] = true := by decide
example : bracketFree [50, 48, 48, 49, 58, 100, 98, 56, 58, 58, 49] = true := by decide
example : canonHost (cLBr :: [50, 48, 48, 49, 58, 100, 98, 56, 58, 58, 49] ++ cRBr :: cColon :: [56, 48]) = [50, 48, 48, 49, 58, 100, 98, 56, 58, 58, 49] := by decide
example : [[69, 120, 97, 109, 112, 108, 101, 46, 99, 111, 109], [98, 46, 116, 101, 115, 116], [42, 46, 99, 46, 116, 101, 115, 116]].Perm [[42, 46, 99, 46, 116, 101, 115, 116], [69, 120, 97, 109, 112, 108, 101, 46, 99, 111, 109], [98, 46, 116, 101, 115, 116]] := by decide
example : ∀ e, e ∈ [[98, 46, 116, 101, 115, 116], [42, 46, 99, 46, 116, 101, 115, 116]] → entryMatches (canonHost [69, 88, 65, 77, 80, 76, 69, 46, 99, 111, 109, 58, 56, 48]) e = false := by decide
-- path.Clean
example : pathClean [47, 97, 47, 46, 46, 47, 98, 47, 47, 99, 47, 46, 47, 100, 47] = [47, 98, 47, 99, 47, 100] := by decide
example : cleanPath [47, 97, 47, 46, 46, 47, 98, 47, 47, 99, 47, 46, 47, 100, 47] = [47, 98, 47, 99, 47, 100, 47] := by decide
example : normalSeg [122, 122, 57] = true := by decide
-- MatchPath: plain patterns, two spellings of one canonical path
example : plainPatterns [[47, 97, 112, 105, 47, 42], [42, 46, 112, 104, 112]] = true := by decide
example : canonPath [47, 65, 80, 73, 47, 47, 118, 49, 47, 46, 47, 120, 47, 46, 46, 47, 117, 115, 101, 114, 115] = canonPath [47, 97, 112, 105, 47, 118, 49, 47, 117, 115, 101, 114, 115] := by decide
example : pathCase [[47, 97, 112, 105, 47, 42], [42, 46, 112, 104, 112]] [47, 65, 80, 73, 47, 47, 118, 49, 47, 46, 47, 120, 47, 46, 46, 47, 117, 115, 101, 114, 115] [47, 65, 80, 73, 47, 47, 118, 49, 47, 46, 47, 120, 47, 46, 46, 47, 117, 115, 101, 114, 115] = true := by decide
example : pathCase [[47, 97, 112, 105, 47, 42], [42, 46, 112, 104, 112]] [47, 97, 112, 105, 47, 118, 49, 47, 117, 115, 101, 114, 115] [47, 97, 112, 105, 47, 118, 49, 47, 117, 115, 101, 114, 115] = true := by decide
example : unescapedPatterns [[47, 97, 47, 47, 98]] = true ∧ plainPatterns [[47, 97, 47, 47, 98]] = false := by decide
example : pathCase [[47, 97, 47, 47, 98]] [47, 65, 47, 46, 47, 47, 98] [47, 65, 47, 46, 47, 47, 98] = true := by decide
example : [[47, 97, 112, 105, 47, 42], [42, 46, 112, 104, 112]].Perm [[42, 46, 112, 104, 112], [47, 97, 112, 105, 47, 42]] := by decide
example : matchPathRE .pre [47, 97, 112, 105] [47, 120, 47, 46, 46, 47, 47, 97, 112, 105, 47, 46, 47, 118, 49] = true := by decide

example : mergingPatterns [[47, 97, 112, 105, 47, 42], [47, 97, 37, 50, 102, 98, 47, 42]] = true ∧ unescapedPatterns [[47, 97, 112, 105, 47, 42], [47, 97, 37, 50, 102, 98, 47, 42]] = false := by decide
example : pathCase [[47, 97, 37, 50, 102, 98, 47, 42]] [47, 120, 47, 46, 46, 47, 47, 97, 47, 98, 47, 46, 47, 99] [47, 120, 47, 46, 46, 47, 47, 97, 37, 50, 70, 98, 47, 46, 47, 99] = true := by decide
example : normalSeg (lower [122, 122, 57]) = true := by decide

example : lower [47, 97, 100, 109, 105, 110] = [47, 97, 100, 109, 105, 110] ∧ plainPat [47, 97, 100, 109, 105, 110] = true ∧ [47, 97, 100, 109, 105, 110].contains cPct = false ∧
    containsSub [47, 97, 100, 109, 105, 110] [cSlash, cSlash] = false := by decide
example : pathCase [[47, 97, 100, 109, 105, 110]] [47, 47, 65, 100, 109, 105, 110] [47, 47, 65, 100, 109, 105, 110] = true := by decide
example : pathCase [[47, 97, 100, 109, 105, 110] ++ [cStar]] [47, 120, 47, 46, 46, 47, 65, 68, 77, 73, 78, 47, 112, 97, 110, 101, 108] [47, 120, 47, 46, 46, 47, 65, 68, 77, 73, 78, 47, 112, 97, 110, 101, 108] = true := by decide
example : pathCase [cStar :: [46, 112, 104, 112]] [47, 97, 47, 46, 47, 73, 110, 100, 101, 120, 46, 80, 72, 80] [47, 97, 47, 46, 47, 73, 110, 100, 101, 120, 46, 80, 72, 80] = true := by decide
example : pathCase [cStar :: [115, 101, 99, 114, 101, 116] ++ [cStar]] [47, 97, 47, 83, 69, 67, 82, 69, 84, 45, 102, 105, 108, 101, 115, 47, 120] [47, 97, 47, 83, 69, 67, 82, 69, 84, 45, 102, 105, 108, 101, 115, 47, 120] = true := by decide
example : globMatch [47, 97, 47, 42, 47, 91, 99, 45, 101, 93, 63] [47, 97, 47, 120, 121, 122, 47, 100, 113] = .yes ∧ globMatch [47, 97, 47, 42, 47, 91, 99, 45] [47, 97, 47, 120, 121, 122, 47, 100, 113] = .bad := by decide
example : Sorted (sortHosts ([[69, 120, 97, 109, 112, 108, 101, 46, 99, 111, 109], [98, 46, 116, 101, 115, 116], [42, 46, 99, 46, 116, 101, 115, 116]].map lowerExact)) := sortHosts_sorted _
example : isRooted [47, 120, 47, 46, 46, 47, 65, 68, 77, 73, 78, 47, 112, 97, 110, 101, 108] = true := by decide

/-- **regenerated tie: outside matchers.go, package caddyhttp only reads provisioned host matchers.**
    `tools/extract` lists, on every run, every statement of the non-test files of modules/caddyhttp
    (matchers.go excepted) that stores into a value obtained by a `.(*MatchHost)` type assertion —
    an element (`(*hm)[i] = …`) or the whole slice — and the loops that read one. There is such a
    loop (automatic HTTPS phase 1) and there is no such store: this is the source-level side of
    `autohttpsHostView` being the identity on the slice (`autohttps_phase1_leaves_host_matcher_alone`). -/
theorem host_matcher_read_only_matches_source :
    Gen.hostMatcherWrites = [] ∧
    Gen.hostMatcherRanges = ["autohttps.go:automaticHTTPSPhase1: range *hm"] := by decide

/-- **regenerated tie.** The large-list threshold the driver instantiates (`Driver.largeThreshold = 100`)
    is the constant `tools/extract` reads out of `MatchHost.large` on every run. (The host theorems above
    hold for EVERY threshold, so a changed constant cannot break the property — it would only make the
    executable model disagree with the code, and this statement says why.) -/
theorem large_threshold_matches_source : Gen.matchHostLargeThreshold = some 100 := by decide

example : pathCase [[47, 97, 37, 50, 102, 98, 47, 106]] [47, 97, 47, 98, 47, 106] [47, 97, 37, 50, 102, 98, 47, 106] = true ∧ pathCase [[47, 97, 37, 50, 102, 98, 47, 106]] [47, 65, 47, 98, 47, 74] [47, 65, 37, 50, 70, 98, 47, 74] = true ∧
    lower [47, 97, 47, 98, 47, 106] = lower [47, 65, 47, 98, 47, 74] ∧ lower [47, 97, 37, 50, 102, 98, 47, 106] = lower [47, 65, 37, 50, 70, 98, 47, 74] := by decide
-- an escape that decodes to an upper-case letter (`%4A` = `J`) matches the lower-case pattern too
example : pathCase [[47, 97, 37, 50, 102, 98, 47, 106]] [47, 65, 47, 98, 47, 74] [47, 65, 37, 50, 70, 98, 47, 37, 52, 65] = true := by decide

-- a non-ASCII request host (U+017F `ſ`, bytes C5 BF) against a "large" list
example : asciiOnly (stripPort [197, 191, 46, 99, 111, 109]) = false := by decide
example : hostCase 2 [[115, 46, 99, 111, 109], [98, 46, 116, 101, 115, 116], [42, 46, 99, 46, 116, 101, 115, 116]] [197, 191, 46, 99, 111, 109] = .res false := by decide

example : setCase 2 [[69, 120, 97, 109, 112, 108, 101, 46, 99, 111, 109], [98, 46, 116, 101, 115, 116], [42, 46, 99, 46, 116, 101, 115, 116]] [[47, 97, 112, 105, 47, 42]] [69, 88, 65, 77, 80, 76, 69, 46, 99, 111, 109, 58, 56, 48] [47, 65, 80, 73, 47, 47, 118, 49, 47, 46, 47, 120, 47, 46, 46, 47, 117, 115, 101, 114, 115] [47, 65, 80, 73, 47, 47, 118, 49, 47, 46, 47, 120, 47, 46, 46, 47, 117, 115, 101, 114, 115] = .res true := by decide
example : setCase 2 [[69, 120, 97, 109, 112, 108, 101, 46, 99, 111, 109], [98, 46, 116, 101, 115, 116], [42, 46, 99, 46, 116, 101, 115, 116]] [[47, 97, 112, 105, 47, 42]] [120, 46, 121] [47, 65, 80, 73, 47, 47, 118, 49, 47, 46, 47, 120, 47, 46, 46, 47, 117, 115, 101, 114, 115] [47, 65, 80, 73, 47, 47, 118, 49, 47, 46, 47, 120, 47, 46, 46, 47, 117, 115, 101, 114, 115] = .res false := by decide

example : parseSiteKey [69, 120, 97, 109, 112, 108, 101, 46, 67, 79, 77, 58, 56, 48, 56, 48, 47, 97, 112, 105, 42] = ([101, 120, 97, 109, 112, 108, 101, 46, 99, 111, 109], [47, 97, 112, 105, 42]) ∧ parseSiteKey [101, 120, 97, 109, 112, 108, 101, 46, 99, 111, 109, 47, 97, 112, 105, 42] = ([101, 120, 97, 109, 112, 108, 101, 46, 99, 111, 109], [47, 97, 112, 105, 42]) := by decide
example : plainHost [69, 120, 97, 109, 112, 108, 101, 46, 67, 79, 77] = true ∧ plainHost [56, 48, 56, 48] = true ∧ keyPathShape [47, 97, 112, 105, 42] = true ∧
    hasPrefix [69, 120, 97, 109, 112, 108, 101, 46, 67, 79, 77, 58, 56, 48, 56, 48, 47, 97, 112, 105, 42] httpScheme = false ∧ lower [69, 120, 97, 109, 112, 108, 101, 46, 67, 79, 77] = lower [101, 120, 97, 109, 112, 108, 101, 46, 99, 111, 109] := by decide
example : siteCase 100 [69, 120, 97, 109, 112, 108, 101, 46, 67, 79, 77, 58, 56, 48, 56, 48, 47, 97, 112, 105, 42] .named [[119, 119, 119, 46, 101, 120, 97, 109, 112, 108, 101, 46, 99, 111, 109]] [[42, 46, 112, 104, 112]] [69, 88, 65, 77, 80, 76, 69, 46, 99, 111, 109, 58, 52, 52, 51] [47, 65, 80, 73, 47, 120, 46, 112, 104, 112] [47, 65, 80, 73, 47, 120, 46, 112, 104, 112] = .res false := by decide
example : siteCase 100 [69, 120, 97, 109, 112, 108, 101, 46, 67, 79, 77, 58, 56, 48, 56, 48, 47, 97, 112, 105, 42] .implicit [] [[47, 97, 112, 105, 47, 118, 49, 47, 42]] [69, 88, 65, 77, 80, 76, 69, 46, 99, 111, 109, 58, 52, 52, 51] [47, 120, 47, 46, 46, 47, 47, 65, 112, 105, 47, 86, 49, 47, 117, 115, 101, 114, 115] [47, 120, 47, 46, 46, 47, 47, 65, 112, 105, 47, 86, 49, 47, 117, 115, 101, 114, 115] = .res true := by decide
example : siteCase 100 [104, 116, 116, 112, 58, 47, 47, 58, 57, 48, 48, 48] .star [] [] [69, 88, 65, 77, 80, 76, 69, 46, 99, 111, 109, 58, 52, 52, 51] [47, 65, 80, 73, 47, 120, 46, 112, 104, 112] [47, 65, 80, 73, 47, 120, 46, 112, 104, 112] = .res true := by decide

/-- a conversion table as the harness ships it: `bücher.example ↦ xn--bcher-kva.example`, identity on two ASCII names -/
def exIdna : Bytes → Option Bytes := fun e =>
  if e = [98, 195, 188, 99, 104, 101, 114, 46, 101, 120, 97, 109, 112, 108, 101] then some [120, 110, 45, 45, 98, 99, 104, 101, 114, 45, 107, 118, 97, 46, 101, 120, 97, 109, 112, 108, 101] else if e = [98, 46, 116, 101, 115, 116] then some [98, 46, 116, 101, 115, 116] else if e = [83, 46, 99, 111, 109] then some [83, 46, 99, 111, 109] else none
example : provisionHostI exIdna 2 [[83, 46, 99, 111, 109], [98, 195, 188, 99, 104, 101, 114, 46, 101, 120, 97, 109, 112, 108, 101], [98, 46, 116, 101, 115, 116]] = .ok [[98, 46, 116, 101, 115, 116], [115, 46, 99, 111, 109], [120, 110, 45, 45, 98, 99, 104, 101, 114, 45, 107, 118, 97, 46, 101, 120, 97, 109, 112, 108, 101]] := by decide
example : provisionHostI exIdna 100 [[83, 46, 99, 111, 109], [98, 195, 188, 99, 104, 101, 114, 46, 101, 120, 97, 109, 112, 108, 101], [98, 46, 116, 101, 115, 116]] = .ok [[83, 46, 99, 111, 109], [120, 110, 45, 45, 98, 99, 104, 101, 114, 45, 107, 118, 97, 46, 101, 120, 97, 109, 112, 108, 101], [98, 46, 116, 101, 115, 116]] := by decide
example : hostCaseI exIdna 2 [[83, 46, 99, 111, 109], [98, 195, 188, 99, 104, 101, 114, 46, 101, 120, 97, 109, 112, 108, 101], [98, 46, 116, 101, 115, 116]] [88, 78, 45, 45, 66, 67, 72, 69, 82, 45, 75, 86, 65, 46, 69, 120, 97, 109, 112, 108, 101, 58, 52, 52, 51] = .res true := by decide
example : provisionHostI exIdna 2 [[83, 46, 99, 111, 109], [98, 195, 188, 99, 104, 101, 114, 46, 101, 120, 97, 109, 112, 108, 101], [115, 46, 99, 111, 109]] = .idnaErr := by decide

example : notCase 2 [[69, 120, 97, 109, 112, 108, 101, 46, 99, 111, 109], [98, 46, 116, 101, 115, 116], [42, 46, 99, 46, 116, 101, 115, 116]] [[47, 97, 112, 105, 47, 42]] [120, 46, 121] [47, 111, 116, 104, 101, 114] [47, 111, 116, 104, 101, 114] = .res true := by decide
example : notCase 2 [[69, 120, 97, 109, 112, 108, 101, 46, 99, 111, 109], [98, 46, 116, 101, 115, 116], [42, 46, 99, 46, 116, 101, 115, 116]] [[47, 97, 112, 105, 47, 42]] [120, 46, 121] [47, 65, 80, 73, 47, 47, 118, 49, 47, 46, 47, 120, 47, 46, 46, 47, 117, 115, 101, 114, 115] [47, 65, 80, 73, 47, 47, 118, 49, 47, 46, 47, 120, 47, 46, 46, 47, 117, 115, 101, 114, 115] = .res false := by decide

example : parseChunk [47, 102, 63, 91, 97, 45, 99, 120, 93, 91, 94, 48, 45, 57, 93, 92, 42].length [47, 102, 63, 91, 97, 45, 99, 120, 93, 91, 94, 48, 45, 57, 93, 92, 42] = .ok [.lit 47, .lit 102, .any, .cls false [(97, 99), (120, 120)], .cls true [(48, 57)], .lit 42] := by decide
example : scanLen false [47, 102, 63, 91, 97, 45, 99, 120, 93, 91, 94, 48, 45, 57, 93, 92, 42] = [47, 102, 63, 91, 97, 45, 99, 120, 93, 91, 94, 48, 45, 57, 93, 92, 42].length ∧ [47, 102, 63, 91, 97, 45, 99, 120, 93, 91, 94, 48, 45, 57, 93, 92, 42].head? ≠ some cStar := by decide
example : globMatch [47, 102, 63, 91, 97, 45, 99, 120, 93, 91, 94, 48, 45, 57, 93, 92, 42] [47, 102, 111, 98, 122, 42] = .yes ∧ globMatch [47, 102, 63, 91, 97, 45, 99, 120, 93, 91, 94, 48, 45, 57, 93, 92, 42] [47, 102, 47, 98, 122, 42] = .no := by decide
example : parseChunk [47, 97, 91, 98, 45].length [47, 97, 91, 98, 45] = .bad := by decide

/-- `{env.C06_A}` = `Tenant.example.test`, `{http.request.header.X-T}` = `acme` -/
def exLook : Bytes → Bytes := fun k =>
  if k = [101, 110, 118, 46, 67, 48, 54, 95, 65] then [84, 101, 110, 97, 110, 116, 46, 101, 120, 97, 109, 112, 108, 101, 46, 116, 101, 115, 116] else if k = [104, 116, 116, 112, 46, 114, 101, 113, 117, 101, 115, 116, 46, 104, 101, 97, 100, 101, 114, 46, 88, 45, 84] then [97, 99, 109, 101] else []
-- three entries over threshold 2 (large path): env placeholder, request placeholder, exact name
example : srvHostCase 2 [[123, 101, 110, 118, 46, 67, 48, 54, 95, 65, 125], [123, 104, 116, 116, 112, 46, 114, 101, 113, 117, 101, 115, 116, 46, 104, 101, 97, 100, 101, 114, 46, 88, 45, 84, 125, 46, 100, 121, 110, 46, 116, 101, 115, 116], [72, 49, 46, 101, 120, 97, 109, 112, 108, 101, 46, 116, 101, 115, 116]] exLook (fun _ => false) [84, 69, 78, 65, 78, 84, 46, 101, 120, 97, 109, 112, 108, 101, 46, 116, 101, 115, 116, 58, 56, 52, 52, 51] = .res true := by decide
example : srvHostCase 2 [[123, 101, 110, 118, 46, 67, 48, 54, 95, 65, 125], [123, 104, 116, 116, 112, 46, 114, 101, 113, 117, 101, 115, 116, 46, 104, 101, 97, 100, 101, 114, 46, 88, 45, 84, 125, 46, 100, 121, 110, 46, 116, 101, 115, 116], [72, 49, 46, 101, 120, 97, 109, 112, 108, 101, 46, 116, 101, 115, 116]] exLook (fun _ => false) [65, 99, 109, 101, 46, 100, 121, 110, 46, 116, 101, 115, 116] = .res true := by decide
example : srvHostCase 100 [[123, 101, 110, 118, 46, 67, 48, 54, 95, 65, 125], [123, 104, 116, 116, 112, 46, 114, 101, 113, 117, 101, 115, 116, 46, 104, 101, 97, 100, 101, 114, 46, 88, 45, 84, 125, 46, 100, 121, 110, 46, 116, 101, 115, 116], [72, 49, 46, 101, 120, 97, 109, 112, 108, 101, 46, 116, 101, 115, 116]] exLook (fun _ => false) [84, 69, 78, 65, 78, 84, 46, 101, 120, 97, 109, 112, 108, 101, 46, 116, 101, 115, 116, 58, 56, 52, 52, 51] = .res true := by decide
example : srvHostCase 2 [[123, 101, 110, 118, 46, 67, 48, 54, 95, 65, 125], [123, 104, 116, 116, 112, 46, 114, 101, 113, 117, 101, 115, 116, 46, 104, 101, 97, 100, 101, 114, 46, 88, 45, 84, 125, 46, 100, 121, 110, 46, 116, 101, 115, 116], [72, 49, 46, 101, 120, 97, 109, 112, 108, 101, 46, 116, 101, 115, 116]] exLook (fun k => k == [101, 110, 118, 46, 67, 48, 54, 95, 65]) [84, 69, 78, 65, 78, 84, 46, 101, 120, 97, 109, 112, 108, 101, 46, 116, 101, 115, 116, 58, 56, 52, 52, 51] = .phase1Err := by decide
example : keysOf [123, 104, 116, 116, 112, 46, 114, 101, 113, 117, 101, 115, 116, 46, 104, 101, 97, 100, 101, 114, 46, 88, 45, 84, 125, 46, 100, 121, 110, 46, 116, 101, 115, 116].length [123, 104, 116, 116, 112, 46, 114, 101, 113, 117, 101, 115, 116, 46, 104, 101, 97, 100, 101, 114, 46, 88, 45, 84, 125, 46, 100, 121, 110, 46, 116, 101, 115, 116] = [[104, 116, 116, 112, 46, 114, 101, 113, 117, 101, 115, 116, 46, 104, 101, 97, 100, 101, 114, 46, 88, 45, 84]] ∧ expand exLook [123, 104, 116, 116, 112, 46, 114, 101, 113, 117, 101, 115, 116, 46, 104, 101, 97, 100, 101, 114, 46, 88, 45, 84, 125, 46, 100, 121, 110, 46, 116, 101, 115, 116].length [123, 104, 116, 116, 112, 46, 114, 101, 113, 117, 101, 115, 116, 46, 104, 101, 97, 100, 101, 114, 46, 88, 45, 84, 125, 46, 100, 121, 110, 46, 116, 101, 115, 116] = [97, 99, 109, 101, 46, 100, 121, 110, 46, 116, 101, 115, 116] := by decide

end CaddyModel.C06
