/-
C06 — model of `MatchHost` / `MatchPath` / `MatchPathRE` (modules/caddyhttp/matchers.go) and of
`CleanPath` / `cleanPath` (modules/caddyhttp/caddyhttp.go), as the code is NOW (after the
`fix:` commits that lower-case exact entries and the probe of the large-list fast path, that
restrict that fast path to ASCII request hosts, and
that lower-case the escaped path (and the text built from it) for patterns containing `%`).

Byte strings are `List UInt8`.  `strings.ToLower` / `strings.EqualFold` are modelled by ASCII
case folding (they coincide with it on ASCII strings; the correspondence domain is ASCII, see
`Driver.inDomain`).  Standard-library functions are modelled by what they compute, not by
their loops: `path.Clean` as a segment stack, `net.SplitHostPort` by its case analysis,
`sort.Slice` as insertion sort (the comparator is a strict total order on duplicate-free lists,
so every correct sort returns the same slice), `sort.Search` as its binary-search loop,
`path.Match` chunk by chunk with its back-tracking star loop.  `idna.ToASCII` and
`Replacer.ReplaceAll` are the identity on the correspondence domain.
-/
import CaddyModel.Util.Hex

namespace CaddyModel.C06

/-! ### strings -/

def lowerByte (b : UInt8) : UInt8 := if 65 ≤ b ∧ b ≤ 90 then b + 32 else b

/-- `strings.ToLower` on ASCII -/
def lower (s : Bytes) : Bytes := s.map lowerByte

/-- `strings.EqualFold` on ASCII -/
def equalFold (a b : Bytes) : Bool := lower a == lower b

def cSlash : UInt8 := 47
def cDot : UInt8 := 46
def cStar : UInt8 := 42
def cPct : UInt8 := 37
def cColon : UInt8 := 58
def cLBr : UInt8 := 91     -- '['
def cRBr : UInt8 := 93     -- ']'
def cBack : UInt8 := 92    -- '\\'
def cBrace : UInt8 := 123  -- '{'

/-- `strings.HasPrefix s pre` -/
def hasPrefix : Bytes → Bytes → Bool
  | _, [] => true
  | [], _ :: _ => false
  | x :: xs, p :: ps => x == p && hasPrefix xs ps

/-- `strings.HasSuffix s suf` -/
def hasSuffix (s suf : Bytes) : Bool := hasPrefix s.reverse suf.reverse

/-- `strings.Contains s sub` -/
def containsSub : Bytes → Bytes → Bool
  | [], sub => sub.isEmpty
  | x :: xs, sub => hasPrefix (x :: xs) sub || containsSub xs sub

/-- `strings.Count s c` for a single byte -/
def countByte (c : UInt8) (s : Bytes) : Nat := (s.filter (· == c)).length

def consHead (x : UInt8) : List Bytes → List Bytes
  | [] => [[x]]
  | s :: ss => (x :: s) :: ss

/-- `strings.Split s (string c)`: always at least one piece -/
def splitOn (c : UInt8) : Bytes → List Bytes
  | [] => [[]]
  | x :: xs => if x = c then [] :: splitOn c xs else consHead x (splitOn c xs)

/-- `strings.Join segs (string c)` -/
def joinSep (c : UInt8) : List Bytes → Bytes
  | [] => []
  | [s] => s
  | s :: t :: ss => s ++ c :: joinSep c (t :: ss)

/-- Go's `a < b` on strings (byte-wise lexicographic) -/
def bytesLt : Bytes → Bytes → Bool
  | _, [] => false
  | [], _ :: _ => true
  | x :: xs, y :: ys => x < y || (x == y && bytesLt xs ys)

/-! ### MatchHost -/

def trimPrefixByte (c : UInt8) : Bytes → Bytes
  | [] => []
  | x :: xs => if x = c then xs else x :: xs

/-- `strings.TrimPrefix(·, "[")` then `strings.TrimSuffix(·, "]")` -/
def trimBrackets (h : Bytes) : Bytes :=
  (trimPrefixByte cRBr (trimPrefixByte cLBr h).reverse).reverse

/-- position of the last `c` in `s` (`bytealg.LastIndexByteString`) -/
def lastIndexOf (c : UInt8) : Bytes → Option Nat
  | [] => none
  | x :: xs => match lastIndexOf c xs with
    | some i => some (i + 1)
    | none => if x = c then some 0 else none

def indexOf (c : UInt8) : Bytes → Option Nat
  | [] => none
  | x :: xs => if x = c then some 0 else (indexOf c xs).map (· + 1)

/-- the host part of `net.SplitHostPort`, `none` = it returned an error -/
def splitHostPort (hp : Bytes) : Option Bytes :=
  match lastIndexOf cColon hp with
  | none => none                                   -- missing port
  | some i =>
    if hp.head? = some cLBr then
      match indexOf cRBr hp with
      | none => none                               -- missing ']'
      | some e =>
        if e + 1 = i then
          if (hp.drop 1).contains cLBr || (hp.drop (e + 1)).contains cRBr then none
          else some ((hp.take e).drop 1)
        else none                                  -- missing port / too many colons
    else
      if (hp.take i).contains cColon then none     -- too many colons
      else if hp.contains cLBr || hp.contains cRBr then none
      else some (hp.take i)

/-- `reqHost` of `MatchHost.MatchWithError` -/
def stripPort (rhost : Bytes) : Bytes :=
  match splitHostPort rhost with
  | some h => h
  | none => trimBrackets rhost

/-- `MatchHost.fuzzy`: `strings.ContainsAny(h, "{*")` -/
def fuzzy (h : Bytes) : Bool := h.contains cBrace || h.contains cStar

/-- the comparator given to `sort.Slice` in `Provision` -/
def hostLess (a b : Bytes) : Bool :=
  if fuzzy a && !fuzzy b then true
  else if !fuzzy a && fuzzy b then false
  else bytesLt a b

def insertHost (x : Bytes) : List Bytes → List Bytes
  | [] => [x]
  | y :: ys => if hostLess y x then y :: insertHost x ys else x :: y :: ys

/-- the slice after `sort.Slice(m, …)` -/
def sortHosts : List Bytes → List Bytes
  | [] => []
  | x :: xs => insertHost x (sortHosts xs)

/-- the duplicate check of `Provision` (first loop, `seen[strings.ToLower(asciiHost)]`) -/
def hasDup : List Bytes → Bool
  | [] => false
  | x :: xs => xs.contains x || hasDup xs

def lowerExact (h : Bytes) : Bytes := if fuzzy h then h else lower h

/-- `MatchHost.Provision` with `large() = len(m) > thr`; `none` = error (repeated host) -/
def provisionHost (thr : Nat) (l : List Bytes) : Option (List Bytes) :=
  if hasDup (l.map lower) then none
  else if l.length > thr then some (sortHosts (l.map lowerExact))
  else some l

/-- the loop of `sort.Search(n, f)` -/
def searchLoop (f : Nat → Bool) : Nat → Nat → Nat → Nat
  | 0, i, _ => i
  | fuel + 1, i, j =>
    if i < j then
      if f ((i + j) / 2) then searchLoop f fuel i ((i + j) / 2)
      else searchLoop f fuel ((i + j) / 2 + 1) j
    else i

def sortSearch (n : Nat) (f : Nat → Bool) : Nat := searchLoop f n 0 n

/-- the predicate handed to `sort.Search` by the fast path -/
def searchPred (m : List Bytes) (target : Bytes) (i : Nat) : Bool :=
  match m[i]? with
  | some e => !fuzzy e && !bytesLt e target
  | none => false

/-- `pos < len(m) && m[pos] == reqHostLower` -/
def fastHit (m : List Bytes) (target : Bytes) : Bool :=
  m[sortSearch m.length (searchPred m target)]? == some target

/-- one label: `*` stands for exactly one NON-EMPTY label (as in TLS server name matching, since
    the `fix:` commit "a wildcard label of the host matcher no longer matches an empty label");
    any other pattern label is compared case-insensitively -/
def labelMatch (p h : Bytes) : Bool :=
  if p == [cStar] then !h.isEmpty else equalFold p h

/-- label-wise comparison of a wildcard entry -/
def labelsMatch : List Bytes → List Bytes → Bool
  | [], [] => true
  | p :: ps, h :: hs => labelMatch p h && labelsMatch ps hs
  | _, _ => false

/-- one iteration of the `outer:` loop body (after the replacer, which is the identity) -/
def entryMatches (reqHost : Bytes) (e : Bytes) : Bool :=
  if e.contains cStar then labelsMatch (splitOn cDot e) (splitOn cDot reqHost)
  else equalFold reqHost e

/-- the `outer:` loop -/
def hostLoop (large : Bool) (reqHost : Bytes) : List Bytes → Bool
  | [] => false
  | e :: es =>
    if large && !fuzzy e then false      -- `break`
    else entryMatches reqHost e || hostLoop large reqHost es

/-- `isASCII(reqHost)` -/
def asciiOnly (s : Bytes) : Bool := s.all (· < 128)

/-- `large := m.large() && isASCII(reqHost)`: the fast paths are taken for ASCII request hosts only -/
def useFast (thr : Nat) (m : List Bytes) (reqHost : Bytes) : Bool :=
  decide (m.length > thr) && asciiOnly reqHost

/-- `MatchHost.MatchWithError` on a provisioned slice `m` -/
def matchHost (thr : Nat) (m : List Bytes) (rhost : Bytes) : Bool :=
  if useFast thr m (stripPort rhost) && fastHit m (lower (stripPort rhost)) then true
  else hostLoop (useFast thr m (stripPort rhost)) (stripPort rhost) m

/-- Provision + Match -/
inductive HostRes where
  | dup
  | res (b : Bool)
deriving DecidableEq, Repr

def hostCase (thr : Nat) (l : List Bytes) (rhost : Bytes) : HostRes :=
  match provisionHost thr l with
  | none => .dup
  | some m => .res (matchHost thr m rhost)

/-! ### path.Clean, cleanPath, CleanPath -/

def dot : Bytes := [cDot]
def dotdot : Bytes := [cDot, cDot]

/-- one segment of `path.Clean`; `st` is the output so far, last segment first -/
def cleanStep (rooted : Bool) (st : List Bytes) (seg : Bytes) : List Bytes :=
  if seg = [] ∨ seg = dot then st
  else if seg = dotdot then
    match st with
    | [] => if rooted then [] else [dotdot]
    | t :: r => if t = dotdot then dotdot :: t :: r else r
  else seg :: st

def isRooted (p : Bytes) : Bool := p.head? == some cSlash

def cleanSegs (rooted : Bool) (segs : List Bytes) : List Bytes :=
  (segs.foldl (cleanStep rooted) []).reverse

def renderClean (rooted : Bool) (segs : List Bytes) : Bytes :=
  if rooted then cSlash :: joinSep cSlash segs
  else if segs = [] then dot else joinSep cSlash segs

/-- `path.Clean` -/
def pathClean (p : Bytes) : Bytes :=
  if p = [] then dot
  else renderClean (isRooted p) (cleanSegs (isRooted p) (splitOn cSlash p))

def endsWithSlash (p : Bytes) : Bool := p.getLast? == some cSlash

/-- `cleanPath` (caddyhttp.go): `path.Clean` but a trailing slash survives -/
def cleanPath (p : Bytes) : Bytes :=
  if pathClean p ≠ [cSlash] ∧ endsWithSlash p then pathClean p ++ [cSlash] else pathClean p

/-- the loop of `CleanPath(p, false)`: a `0xff` byte goes between two consecutive slashes -/
def expandSlashes : Bool → Bytes → Bytes
  | _, [] => []
  | prevSlash, x :: xs =>
    if x = cSlash ∧ prevSlash then 255 :: x :: expandSlashes true xs
    else x :: expandSlashes (x == cSlash) xs

/-- `CleanPath(p, collapseSlashes)` -/
def cleanPathMode (merge : Bool) (p : Bytes) : Bytes :=
  if merge then cleanPath p
  else (cleanPath (expandSlashes false p)).filter (· ≠ 255)

/-! ### path.Match -/

inductive ChunkRes where
  | ok (rest : Bytes)
  | fail
  | bad           -- ErrBadPattern
  | fuel
deriving DecidableEq, Repr

def dropStars : Bytes → Bytes
  | [] => []
  | x :: xs => if x = cStar then dropStars xs else x :: xs

/-- length of the chunk found by the `Scan:` loop of `scanChunk` -/
def scanLen : Bool → Bytes → Nat
  | _, [] => 0
  | inr, x :: rest =>
    if x = cBack then
      match rest with
      | [] => 1
      | _ :: rest' => 2 + scanLen inr rest'
    else if x = cLBr then 1 + scanLen true rest
    else if x = cRBr then 1 + scanLen false rest
    else if x = cStar ∧ inr = false then 0
    else 1 + scanLen inr rest

/-- `scanChunk`: the chunk … -/
def chunkOf (pat : Bytes) : Bytes := (dropStars pat).take (scanLen false (dropStars pat))

/-- … and the rest of the pattern -/
def restOf (pat : Bytes) : Bytes := (dropStars pat).drop (scanLen false (dropStars pat))

/-- `getEsc`; `none` = ErrBadPattern -/
def getEsc : Bytes → Option (UInt8 × Bytes)
  | [] => none
  | c :: rest =>
    if c = 45 ∨ c = cRBr then none
    else if c = cBack then
      match rest with
      | [] => none
      | d :: rest' => if rest' = [] then none else some (d, rest')
    else if rest = [] then none else some (c, rest)

inductive ClassRes where
  | ok (mt : Bool) (rest : Bytes)
  | bad
  | fuel
deriving DecidableEq, Repr

def inRange (lo hi r : UInt8) : Bool := decide (lo ≤ r) && decide (r ≤ hi)

/-- the `for {…}` loop that parses the ranges of a character class -/
def classLoop (r : UInt8) : Nat → Bytes → Bool → Bool → ClassRes
  | 0, _, _, _ => .fuel
  | fuel + 1, chunk, seen, mt =>
    if chunk.head? = some cRBr ∧ seen = true then .ok mt (chunk.drop 1)
    else match getEsc chunk with
      | none => .bad
      | some (lo, c1) =>
        if c1.head? = some 45 then
          match getEsc (c1.drop 1) with
          | none => .bad
          | some (hi, c2) => classLoop r fuel c2 true (mt || inRange lo hi r)
        else classLoop r fuel c1 true (mt || inRange lo lo r)

def adv (failed : Bool) (s : Bytes) : Bytes := if failed then s else s.drop 1

/-- the rune read by the `[` case (0 when the match has already failed) -/
def classRune (failed : Bool) (s : Bytes) : UInt8 :=
  if failed then 0 else match s with | [] => 0 | x :: _ => x

def negated (chunk : Bytes) : Bool := chunk.head? == some 94

def classBody (chunk : Bytes) : Bytes := if negated chunk then chunk.drop 1 else chunk

/-- `matchChunk(chunk, s)`; `failed` is the Go variable of the same name -/
def matchChunk : Nat → Bytes → Bytes → Bool → ChunkRes
  | _, [], s, failed => if failed then .fail else .ok s
  | 0, _ :: _, _, _ => .fuel
  | fuel + 1, c :: rest, s, failed =>
    if c = cLBr then
      match classLoop (classRune (failed || s.isEmpty) s) (rest.length + 1) (classBody rest) false false with
      | .bad => .bad
      | .fuel => .fuel
      | .ok mt rest' =>
        matchChunk fuel rest' (adv (failed || s.isEmpty) s) (failed || s.isEmpty || (mt == negated rest))
    else if c = 63 then
      matchChunk fuel rest (adv (failed || s.isEmpty) s) (failed || s.isEmpty || s.head? == some cSlash)
    else if c = cBack then
      match rest with
      | [] => .bad
      | d :: rest' =>
        matchChunk fuel rest' (adv (failed || s.isEmpty) s) (failed || s.isEmpty || s.head? != some d)
    else
      matchChunk fuel rest (adv (failed || s.isEmpty) s) (failed || s.isEmpty || s.head? != some c)

inductive StarRes where
  | found (t : Bytes)
  | notFound
  | bad
  | fuel
deriving DecidableEq, Repr

/-- the `for i := 0; i < len(name) && name[i] != '/'; i++` loop of `Match` -/
def starSearch (chunk : Bytes) (last : Bool) : Bytes → StarRes
  | [] => .notFound
  | c :: rest =>
    if c = cSlash then .notFound
    else match matchChunk chunk.length chunk rest false with
      | .ok t => if last && !t.isEmpty then starSearch chunk last rest else .found t
      | .bad => .bad
      | .fuel => .fuel
      | .fail => starSearch chunk last rest

inductive GlobRes where
  | yes
  | no
  | bad
  | fuel
deriving DecidableEq, Repr

def ofBool (b : Bool) : GlobRes := if b then .yes else .no

inductive Step where
  | done (r : GlobRes)
  | next (t : Bytes)
deriving DecidableEq, Repr

/-- the `if star { for i := … }` part of one `Pattern:` iteration -/
def globStar (isStar : Bool) (chunk rest name : Bytes) : Step :=
  if isStar then
    match starSearch chunk rest.isEmpty name with
    | .found t => .next t
    | .notFound => .done .no
    | .bad => .done .bad
    | .fuel => .done .fuel
  else .done .no

/-- one iteration of the `Pattern:` loop after `star, chunk, pattern = scanChunk(pattern)` -/
def globStep (isStar : Bool) (chunk rest name : Bytes) : Step :=
  if isStar && chunk.isEmpty then .done (ofBool (!name.contains cSlash))
  else match matchChunk chunk.length chunk name false with
    | .fuel => .done .fuel
    | .bad => .done .bad
    | .ok t => if t.isEmpty || !rest.isEmpty then .next t else globStar isStar chunk rest name
    | .fail => globStar isStar chunk rest name

/-- `path.Match(pattern, name)`; the `Pattern:` loop, one chunk per unit of fuel -/
def globLoop : Nat → Bytes → Bytes → GlobRes
  | _, [], name => ofBool name.isEmpty
  | 0, _ :: _, _ => .fuel
  | fuel + 1, p :: ps, name =>
    match globStep (p == cStar) (chunkOf (p :: ps)) (restOf (p :: ps)) name with
    | .done r => r
    | .next t => globLoop fuel (restOf (p :: ps)) t

def globMatch (pattern name : Bytes) : GlobRes := globLoop (pattern.length + 1) pattern name

/-! ### MatchPath -/

def hexVal (c : UInt8) : Option UInt8 :=
  if 48 ≤ c ∧ c ≤ 57 then some (c - 48)
  else if 97 ≤ c ∧ c ≤ 102 then some (c - 87)
  else if 65 ≤ c ∧ c ≤ 70 then some (c - 55)
  else none

/-- `url.PathUnescape`; `none` = error -/
def pathUnescape : Bytes → Option Bytes
  | [] => some []
  | c :: rest =>
    if c = cPct then
      match rest with
      | a :: b :: rest' =>
        match hexVal a, hexVal b, pathUnescape rest' with
        | some x, some y, some r => some ((x <<< 4 ||| y) :: r)
        | _, _, _ => none
      | _ => none
    else (pathUnescape rest).map (c :: ·)

/-- `strings.ReplaceAll(p, "%*", "*")` -/
def replacePctStar : Bytes → Bytes
  | [] => []
  | [x] => [x]
  | x :: y :: rest =>
    if x = cPct ∧ y = cStar then cStar :: replacePctStar rest
    else x :: replacePctStar (y :: rest)

inductive EscRes where
  | built (sb : Bytes) (rest : Bytes)   -- loop left: text built, `escapedPath[iPath:]`
  | reject                -- one of the `return false` statements
  | fuel
deriving DecidableEq, Repr

/-- the wildcard arm of the lock-step loop; `pat1` starts at the `*` (or is what follows a
    lone trailing `%`), `ep'` is `escapedPath[iPath:]`.  Result: (text to append, bytes to skip). -/
def escSpan (pat1 ep' : Bytes) (normalize : Bool) : Option (Bytes × Nat) :=
  match (match pat1.drop 1 with
         | nextCh :: _ => indexOf nextCh ep'
         | [] => some ep'.length) with
  | none => none
  | some upto =>
    if upto = 0 then some ([], 0)
    else if normalize then (pathUnescape (ep'.take upto)).map (·, upto)
    else some (ep'.take upto, upto)

/-- the lock-step loop of `matchPatternWithEscapeSequence`: builds `sb` -/
def escLoop : Nat → Bytes → Bytes → Bytes → EscRes
  | _, [], erest, sb => .built sb erest
  | _, _ :: _, [], sb => .built sb []
  | 0, _ :: _, _ :: _, _ => .fuel
  | fuel + 1, pc :: prest, ec :: erest, sb =>
      -- decode an escape sequence of the path
      if ec = cPct ∧ erest.length ≥ 2 then
        match pathUnescape (lower (ec :: erest.take 2)) with
        | none => .reject
        | some pathCh =>
          if pc = cPct then
            if prest.length ≥ 2 ∧ prest.head? ≠ some cStar then
              escLoop fuel (prest.drop 2) (erest.drop 2) (sb ++ lower (ec :: erest.take 2))
            else match escSpan prest (erest.drop 1) false with
              | none => .reject
              | some (txt, n) => escLoop fuel (prest.drop 1) ((erest.drop 1).drop n) (sb ++ txt)
          else if pc = cStar then
            match escSpan (pc :: prest) (erest.drop 1) true with
            | none => .reject
            | some (txt, n) => escLoop fuel prest ((erest.drop 1).drop n) (sb ++ txt)
          else escLoop fuel prest (erest.drop 2) (sb ++ pathCh)
      else
        if pc = cPct then
          if prest.length ≥ 2 ∧ prest.head? ≠ some cStar then
            escLoop fuel (prest.drop 2) erest sb
          else match escSpan prest (ec :: erest) false with
            | none => .reject
            | some (txt, n) => escLoop fuel (prest.drop 1) ((ec :: erest).drop n) (sb ++ txt)
        else if pc = cStar then
          match escSpan (pc :: prest) (ec :: erest) true with
          | none => .reject
          | some (txt, n) => escLoop fuel prest ((ec :: erest).drop n) (sb ++ txt)
        else escLoop fuel prest erest (sb ++ [ec])

/-- `matchPatternWithEscapeSequence(escapedPath, matchPath)` -/
def escMatch (escapedPath pat : Bytes) : Bool :=
  match escLoop (pat.length + 1) pat escapedPath [] with
  | .built sb rest =>
    -- since /repo 84b6e63: whatever the pattern did not reach still is part of the path
    if rest.length > 0 then
      match pathUnescape rest with
      | none => false
      | some r => globMatch (replacePctStar pat) (lower (sb ++ r)) == .yes
    else globMatch (replacePctStar pat) (lower sb) == .yes
  | _ => false

def star : Bytes := [cStar]

/-- `MatchPath.Provision`, indices ≥ 1: (slice, whether a bare `*` was met) -/
def provTail : List Bytes → List Bytes × Bool
  | [] => ([], false)
  | p :: ps => if p = star then (p :: ps, true) else ((lower p :: (provTail ps).1), (provTail ps).2)

/-- `MatchPath.Provision` -/
def provisionPath : List Bytes → List Bytes
  | [] => []
  | p :: ps => (if (provTail ps).2 then star else lower p) :: (provTail ps).1

/-- the body of the loop of `MatchPath.MatchWithError` for one (provisioned) pattern;
    `lp` = `strings.ToLower(r.URL.Path)`, `esc` = `r.URL.EscapedPath()` -/
def patMatches (lp esc : Bytes) (pat : Bytes) : Bool :=
  if pat = star then true
  else if pat.contains cPct then
    escMatch (cleanPathMode (!containsSub pat [cSlash, cSlash]) (lower esc)) pat
  else if countByte cStar pat = 2 ∧ pat.head? = some cStar ∧ pat.getLast? = some cStar then
    containsSub (cleanPathMode (!containsSub pat [cSlash, cSlash]) lp) ((pat.drop 1).dropLast)
  else if countByte cStar pat = 1 ∧ pat.head? = some cStar then
    hasSuffix (cleanPathMode (!containsSub pat [cSlash, cSlash]) lp) (pat.drop 1)
  else if countByte cStar pat = 1 ∧ pat.getLast? = some cStar then
    hasPrefix (cleanPathMode (!containsSub pat [cSlash, cSlash]) lp) pat.dropLast
  else globMatch pat (cleanPathMode (!containsSub pat [cSlash, cSlash]) lp) == .yes

/-- `MatchPath.MatchWithError` on a provisioned slice -/
def matchPath (m : List Bytes) (path esc : Bytes) : Bool :=
  m.any (patMatches (lower path) esc)

/-- Provision + Match -/
def pathCase (l : List Bytes) (path esc : Bytes) : Bool :=
  matchPath (provisionPath l) path esc

/-! ### MatchPathRE (the regular expression itself is `regexp`'s; the harness uses the three
    literal shapes `^lit$`, `^lit`, `lit`) -/

inductive ReKind where
  | full | pre | sub
deriving DecidableEq, Repr

def reMatches (k : ReKind) (lit s : Bytes) : Bool :=
  match k with
  | .full => s == lit
  | .pre => hasPrefix s lit
  | .sub => containsSub s lit

/-- `MatchPathRE.MatchWithError`: the expression sees `cleanPath(r.URL.Path)` (not lower-cased) -/
def matchPathRE (k : ReKind) (lit path : Bytes) : Bool := reMatches k lit (cleanPath path)

/-! ### a matcher set `{"host": […], "path": […]}` (routes.go `MatcherSet.MatchWithError`): every
    matcher of the set must match; Provision of the set fails if one of its matchers' does -/

/-- `Route.ProvisionMatchers` + `MatcherSets.AnyMatchWithError` for one set with a host and a path matcher -/
def setCase (thr : Nat) (hosts pats : List Bytes) (rhost path esc : Bytes) : HostRes :=
  match hostCase thr hosts rhost with
  | .dup => .dup
  | .res b => .res (b && pathCase pats path esc)

/-! ### Caddyfile glue (caddyconfig/httpcaddyfile): a site block `<key> { respond <matcher> "hit" }`

`ParseAddress` + `Address.Normalize` turn the site key into a host and a path;
`compileEncodedMatcherSets` makes them the site's `host` / `path` matchers;
`matcherSetFromMatcherToken` turns the directive's matcher token into a matcher set
(`*` = none, `/…` = `path [tok]`, `@name` = the named set, whose `host …` / `path …` lines
simply collect their arguments).  A request reaches the handler iff the site's set and the
directive's set both match. -/

def httpScheme : Bytes := [104, 116, 116, 112, 58, 47, 47]   -- "http://"

def httpsScheme : Bytes := [104, 116, 116, 112, 115, 58, 47, 47]   -- "https://"

def dropScheme (key : Bytes) : Bytes :=
  if hasPrefix key httpScheme then key.drop httpScheme.length
  else if hasPrefix key httpsScheme then key.drop httpsScheme.length else key

/-- `host, port, err := net.SplitHostPort(s)`, on error retried with `s + ":"`, else `s` itself -/
def addrHost (hostport : Bytes) : Bytes :=
  match splitHostPort hostport with
  | some h => h
  | none =>
    match splitHostPort (hostport ++ [cColon]) with
    | some h => h
    | none => hostport

/-- `ParseAddress(key).Normalize()`: (Host, Path) -/
def parseSiteKey (key : Bytes) : Bytes × Bytes :=
  (lower (addrHost ((dropScheme key).takeWhile (· != cSlash))), (dropScheme key).dropWhile (· != cSlash))

inductive TokMode where
  | none      -- `respond "hit"`
  | star      -- `respond * "hit"`
  | implicit  -- `respond /path "hit"`
  | handle    -- `handle /path { respond "hit" }` (also `route`)
  | handlePath -- `handle_path /path { respond "hit" }`: the same path matcher, then a prefix strip
  | named     -- `@m { host …; path … }` + `respond @m "hit"`
deriving DecidableEq, Repr

def resAnd : HostRes → HostRes → HostRes
  | .dup, _ => .dup
  | _, .dup => .dup
  | .res a, .res b => .res (a && b)

/-- the matcher set of the directive -/
def tokCase (thr : Nat) (mode : TokMode) (hosts pats : List Bytes) (rhost path esc : Bytes) : HostRes :=
  match mode with
  | .none => .res true
  | .star => .res true
  | .implicit => .res (pathCase pats path esc)
  | .handle => .res (pathCase pats path esc)
  | .handlePath => .res (pathCase pats path esc)
  | .named =>
    resAnd (if hosts.isEmpty then .res true else hostCase thr hosts rhost)
           (.res (pats.isEmpty || pathCase pats path esc))

/-- adapt + provision + serve: does the request reach the handler of the site block? -/
def siteCase (thr : Nat) (key : Bytes) (mode : TokMode) (hosts pats : List Bytes)
    (rhost path esc : Bytes) : HostRes :=
  resAnd
    (resAnd (if (parseSiteKey key).1.isEmpty then .res true else hostCase thr [(parseSiteKey key).1] rhost)
            (.res ((parseSiteKey key).2.isEmpty || pathCase [(parseSiteKey key).2] path esc)))
    (tokCase thr mode hosts pats rhost path esc)

/-! ### MatchHost.Provision with `idna.ToASCII` as a parameter

`idna : Bytes → Option Bytes` (`none` = it returned an error) is the value the real
`idna.ToASCII` returned for each entry; the harness ships those values with the case.
First loop: entry by entry, convert, store the converted form, check the lower-cased converted
form against the ones seen so far.  Second part (large lists only): lower-case the exact
entries of the *converted* slice, sort. -/

inductive ProvRes where
  | idnaErr                   -- "converting hostname … to ASCII"
  | dup                       -- "host at index … is repeated"
  | ok (m : List Bytes)
deriving DecidableEq, Repr

/-- the first loop; `seen` = the map keys so far, `acc` = the converted prefix, last first -/
def provPass1 (idna : Bytes → Option Bytes) : List Bytes → List Bytes → List Bytes → ProvRes
  | [], _, acc => .ok acc.reverse
  | h :: t, seen, acc =>
    match idna h with
    | none => .idnaErr
    | some a => if seen.contains (lower a) then .dup else provPass1 idna t (lower a :: seen) (a :: acc)

/-- `MatchHost.Provision` -/
def provisionHostI (idna : Bytes → Option Bytes) (thr : Nat) (l : List Bytes) : ProvRes :=
  match provPass1 idna l [] [] with
  | .ok m => if m.length > thr then .ok (sortHosts (m.map lowerExact)) else .ok m
  | .idnaErr => .idnaErr
  | .dup => .dup

inductive HostResI where
  | idnaErr
  | dup
  | res (b : Bool)
deriving DecidableEq, Repr

/-- Provision + Match with the conversion as a parameter -/
def hostCaseI (idna : Bytes → Option Bytes) (thr : Nat) (l : List Bytes) (rhost : Bytes) : HostResI :=
  match provisionHostI idna thr l with
  | .ok m => .res (matchHost thr m rhost)
  | .idnaErr => .idnaErr
  | .dup => .dup

/-! ### `not` (matchers.go `MatchNot`): `{"not": [{"host": […]}, {"path": […]}]}` matches iff none of
    its matcher sets does -/

def notCase (thr : Nat) (hosts pats : List Bytes) (rhost path esc : Bytes) : HostRes :=
  match hostCase thr hosts rhost with
  | .dup => .dup
  | .res b => .res (!(b || pathCase pats path esc))

/-! ### host matching through the PROVISIONED SERVER (app.go / autohttps.go glue)

`App.Provision` → `automaticHTTPSPhase1`: the route matchers are provisioned
(`MatchHost.Provision`, above), then phase 1 walks over every provisioned `*MatchHost` and
expands the GLOBAL placeholders of each entry (`repl.ReplaceOrErr(d, true, false)`: an
`{env.…}` that evaluates to the empty string is an error, request placeholders are left
alone) to collect the server's domain names.  It only READS the slice.  At request time
`MatchWithError` expands every visited entry with the request's replacer
(`repl.ReplaceAll(host, "")`) before comparing it. -/

def cRBrace : UInt8 := 125

/-- the text up to the first `}` and what follows it -/
def takeKey : Bytes → Option (Bytes × Bytes)
  | [] => none
  | c :: r =>
    if c = cRBrace then some ([], r)
    else match takeKey r with
      | some (k, rest) => some (c :: k, rest)
      | none => none

/-- `Replacer.ReplaceAll(s, "")` on entries whose braces are well-formed placeholders:
    `look key` is the value (empty for unknown / unset) -/
def expand (look : Bytes → Bytes) : Nat → Bytes → Bytes
  | 0, s => s
  | _ + 1, [] => []
  | fuel + 1, c :: r =>
    if c = cBrace then
      match takeKey r with
      | some (k, rest) => look k ++ expand look fuel rest
      | none => c :: r
    else c :: expand look fuel r

/-- the placeholder keys of an entry -/
def keysOf : Nat → Bytes → List Bytes
  | 0, _ => []
  | _ + 1, [] => []
  | fuel + 1, c :: r =>
    if c = cBrace then
      match takeKey r with
      | some (k, rest) => k :: keysOf fuel rest
      | none => []
    else keysOf fuel r

/-- `automaticHTTPSPhase1` as far as a provisioned host matcher is concerned: `none` = it
    returns an error (a global placeholder of an entry evaluates to the empty string);
    otherwise the slice it leaves behind — the slice it was given -/
def autohttpsHostView (emptyGlobal : Bytes → Bool) (m : List Bytes) : Option (List Bytes) :=
  if m.any (fun e => (keysOf e.length e).any emptyGlobal) then none else some m

/-- the `outer:` loop with the per-request expansion `f` of each visited entry -/
def hostLoopX (f : Bytes → Bytes) (large : Bool) (reqHost : Bytes) : List Bytes → Bool
  | [] => false
  | e :: es =>
    if large && !fuzzy e then false
    else entryMatches reqHost (f e) || hostLoopX f large reqHost es

/-- `MatchHost.MatchWithError` with the replacer as the parameter `f` -/
def matchHostX (f : Bytes → Bytes) (thr : Nat) (m : List Bytes) (rhost : Bytes) : Bool :=
  if useFast thr m (stripPort rhost) && fastHit m (lower (stripPort rhost)) then true
  else hostLoopX f (useFast thr m (stripPort rhost)) (stripPort rhost) m

inductive SrvRes where
  | dup           -- Provision: repeated host
  | phase1Err     -- automatic HTTPS phase 1: empty global placeholder
  | res (b : Bool)
deriving DecidableEq, Repr

/-- load the config (provision matchers, automatic HTTPS phase 1), then serve one request:
    does the route behind the host matcher answer? -/
def srvHostCase (thr : Nat) (l : List Bytes) (look : Bytes → Bytes) (emptyGlobal : Bytes → Bool)
    (rhost : Bytes) : SrvRes :=
  match provisionHost thr l with
  | none => .dup
  | some m =>
    match autohttpsHostView emptyGlobal m with
    | none => .phase1Err
    | some m' => .res (matchHostX (fun e => expand look e.length e) thr m' rhost)

/-! ### the HTTP→HTTPS redirect route of automatic HTTPS (autohttps.go, second half of phase 1)

Every name phase 1 read out of the server's provisioned host matchers (global placeholders
expanded) becomes a "redirect domain"; the domains (a map's keys: no exact repeats) are sorted
byte-wise (`slices.Sorted`) and wrapped as `MatchHost(domains)` in a redirect route whose
target carries the server's port; behind it sits a catch-all redirect to the default HTTPS
port.  These matcher modules are not loaded from JSON; the code as it is (`provisioned = true`)
de-duplicates the names case-insensitively and calls `Provision` on the matcher by hand;
`provisioned = false` is the code before that `fix:` commit, which used the matcher as built. -/

def insertBytes (x : Bytes) : List Bytes → List Bytes
  | [] => [x]
  | y :: ys => if bytesLt x y then x :: y :: ys else if x = y then y :: ys else y :: insertBytes x ys

/-- `slices.Sorted(maps.Keys(…))`: distinct strings in byte order -/
def sortDedup : List Bytes → List Bytes
  | [] => []
  | x :: xs => insertBytes x (sortDedup xs)

/-- names that differ only by letter case count as repeated in `Provision`: keep the first -/
def dedupCI : List Bytes → List Bytes → List Bytes
  | _, [] => []
  | seen, d :: ds => if seen.contains (lower d) then dedupCI seen ds else d :: dedupCI (lower d :: seen) ds

/-- the redirect domains of a server whose routes carry the (provisioned) host lists `ms`;
    `lookG` expands global placeholders and re-emits request placeholders -/
def redirDomains (lookG : Bytes → Bytes) (ms : List (List Bytes)) : List Bytes :=
  sortDedup (ms.flatten.map fun e => expand lookG e.length e)

/-- the host matcher of the redirect route at request time -/
def redirMatch (provisioned : Bool) (thr : Nat) (domains : List Bytes) (look : Bytes → Bytes) (rhost : Bytes) : Bool :=
  if provisioned then
    match provisionHost thr (dedupCI [] domains) with
    | some m => matchHostX (fun e => expand look e.length e) thr m rhost
    | none => false
  else matchHostX (fun e => expand look e.length e) thr domains rhost

def provisionAll (thr : Nat) : List (List Bytes) → Option (List (List Bytes))
  | [] => some []
  | l :: ls =>
    match provisionHost thr l, provisionAll thr ls with
    | some m, some r => some (m :: r)
    | _, _ => none

/-- load a server with one host-matched route per list of `lists`, then send a plaintext
    request to the redirect listener: `true` = redirected by the host-matched redirect route (to
    the server's own port), `false` = by the catch-all behind it (to the default HTTPS port) -/
def redirCase (provisioned : Bool) (thr : Nat) (lists : List (List Bytes)) (lookG look : Bytes → Bytes)
    (emptyGlobal : Bytes → Bool) (rhost : Bytes) : SrvRes :=
  match provisionAll thr lists with
  | none => .dup
  | some ms =>
    if ms.any (fun m => (autohttpsHostView emptyGlobal m).isNone) then .phase1Err
    else .res (redirMatch provisioned thr (redirDomains lookG ms) look rhost)

end CaddyModel.C06
