/-
C06 — helper lemmas, part 4: `cleanPath` is idempotent; what a cleaned path looks like.
-/
import CaddyModel.C06.PathLemmas

namespace CaddyModel.C06

theorem getLast?_cons_of_ne_nil (c : UInt8) (l : Bytes) (h : l ≠ []) : (c :: l).getLast? = l.getLast? := by
  cases l with
  | nil => exact absurd rfl h
  | cons x xs => rw [List.getLast?_cons_cons]

theorem joinSep_ne_nil (c : UInt8) (s : Bytes) (ss : List Bytes) (hs : s ≠ []) : joinSep c (s :: ss) ≠ [] := by
  cases ss with
  | nil => simpa [joinSep] using hs
  | cons t ts =>
    simp only [joinSep]
    cases s with
    | nil => exact absurd rfl hs
    | cons x xs => simp

/-- kept segments never end in a slash, so neither does their join -/
theorem endsWithSlash_joinSep : ∀ segs : List Bytes, (∀ s, s ∈ segs → SegOk s) →
    endsWithSlash (joinSep cSlash segs) = false
  | [], _ => rfl
  | [s], h => by
    have hs := h s (List.mem_singleton.mpr rfl)
    simp only [joinSep]
    unfold endsWithSlash
    cases hl : s.getLast? with
    | none => rfl
    | some c =>
      simp only [beq_eq_false_iff_ne, ne_eq, Option.some.injEq]
      intro e; subst e
      have := List.mem_of_getLast? hl
      rw [← List.contains_iff_mem, hs.2.2] at this
      cases this
  | s :: t :: ss, h => by
    have ih := endsWithSlash_joinSep (t :: ss) (fun x hx => h x (List.mem_cons_of_mem _ hx))
    have ht := h t (List.mem_cons_of_mem _ List.mem_cons_self)
    simp only [joinSep] at ih ⊢
    unfold endsWithSlash at *
    rw [getLast?_append_cons, getLast?_cons_of_ne_nil _ _ (joinSep_ne_nil cSlash t ss ht.1)]
    exact ih

theorem cleanSegs_ok (p : Bytes) : ∀ s, s ∈ cleanSegs (isRooted p) (splitOn cSlash p) → SegOk s := by
  intro s hs
  have hok : okSt (isRooted p) ((splitOn cSlash p).foldl (cleanStep (isRooted p)) []) :=
    okSt_foldl _ _ _ trivial (mem_splitOn_not_contains cSlash p)
  unfold cleanSegs at hs
  exact okSt_mem _ _ s hok (List.mem_reverse.mp hs)

/-- a cleaned path ends in a slash only if it is the root -/
theorem pathClean_endsWithSlash (p : Bytes) (h : endsWithSlash (pathClean p) = true) : pathClean p = [cSlash] := by
  by_cases hp : p = []
  · subst hp; exact absurd h (by decide)
  have hok := cleanSegs_ok p
  have e : pathClean p = renderClean (isRooted p) (cleanSegs (isRooted p) (splitOn cSlash p)) := by
    unfold pathClean; rw [if_neg hp]
  rw [e] at h ⊢
  generalize cleanSegs (isRooted p) (splitOn cSlash p) = segs at *
  unfold renderClean at *
  cases hr : isRooted p with
  | true =>
    rw [hr] at h
    simp only [if_true] at h ⊢
    cases segs with
    | nil => rfl
    | cons s ss =>
      exfalso
      have := endsWithSlash_joinSep (s :: ss) hok
      unfold endsWithSlash at h this
      rw [getLast?_cons_of_ne_nil _ _ (joinSep_ne_nil cSlash s ss (hok s List.mem_cons_self).1)] at h
      rw [h] at this; cases this
  | false =>
    rw [hr] at h
    simp only [Bool.false_eq_true, if_false] at h
    exfalso
    split at h
    · exact absurd h (by decide)
    · rw [endsWithSlash_joinSep segs hok] at h; cases h

theorem pathClean_append_slash (c : Bytes) (hc : c ≠ []) : pathClean (c ++ [cSlash]) = pathClean c := by
  unfold pathClean
  rw [if_neg (by simp), if_neg hc]
  have hr : isRooted (c ++ [cSlash]) = isRooted c := by
    cases c with
    | nil => exact absurd rfl hc
    | cons x xs => rfl
  rw [hr]
  congr 1
  unfold cleanSegs
  congr 1
  rw [splitOn_append_sep, List.foldl_append]
  simp [splitOn, cleanStep]

theorem endsWithSlash_append_slash (c : Bytes) : endsWithSlash (c ++ [cSlash]) = true := by
  unfold endsWithSlash
  rw [getLast?_append_cons]
  rfl

/-- `cleanPath` (and with it the canonical path) is idempotent -/
theorem cleanPath_idem (p : Bytes) : cleanPath (cleanPath p) = cleanPath p := by
  unfold cleanPath
  by_cases h : pathClean p ≠ [cSlash] ∧ endsWithSlash p = true
  · rw [if_pos h]
    rw [pathClean_append_slash _ (pathClean_ne_nil p), pathClean_idem, endsWithSlash_append_slash]
    rw [if_pos ⟨h.1, rfl⟩]
  · rw [if_neg h, pathClean_idem]
    rw [if_neg]
    intro hh
    exact hh.1 (pathClean_endsWithSlash p hh.2)

/-! ### what a cleaned rooted path looks like -/

theorem okSt_rooted_no_dotdot : ∀ st : List Bytes, okSt true st → ∀ s, s ∈ st → s ≠ dotdot
  | t :: rest, h, s, hs => by
    rcases List.mem_cons.mp hs with e | e
    · subst e
      intro hd
      have := (h.2.2 hd).1
      cases this
    · exact okSt_rooted_no_dotdot rest h.2.1 s e

/-- **no empty, `.` or `..` segment survives in a rooted path**: `path.Clean` of `/…` is `/`
    followed by ordinary segments joined by single slashes -/
theorem pathClean_rooted_spec (p : Bytes) (hr : isRooted p = true) :
    ∃ segs : List Bytes, pathClean p = cSlash :: joinSep cSlash segs ∧
      ∀ s, s ∈ segs → normalSeg s = true := by
  have hp : p ≠ [] := by intro e; subst e; cases hr
  refine ⟨cleanSegs true (splitOn cSlash p), ?_, ?_⟩
  · unfold pathClean renderClean
    rw [if_neg hp, hr]; rfl
  · intro s hs
    have hok : okSt true ((splitOn cSlash p).foldl (cleanStep true) []) :=
      okSt_foldl _ _ _ trivial (mem_splitOn_not_contains cSlash p)
    unfold cleanSegs at hs
    have hmem := List.mem_reverse.mp hs
    have h1 := okSt_mem _ _ s hok hmem
    have h2 := okSt_rooted_no_dotdot _ hok s hmem
    unfold normalSeg
    simp only [Bool.and_eq_true, bne_iff_ne, ne_eq, Bool.not_eq_eq_eq_not, Bool.not_true]
    exact ⟨⟨⟨h1.1, h1.2.1⟩, h2⟩, h1.2.2⟩

end CaddyModel.C06
