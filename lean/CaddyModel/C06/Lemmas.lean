/-
C06 — helper lemmas, part 1: byte order, ASCII folding, insertion sort, binary search,
the `MatchHost` fast path.
-/
import CaddyModel.C06.Model

namespace CaddyModel.C06

/-! ### order on bytes and byte strings -/

theorem u8_lt_irrefl (a : UInt8) : ¬ a < a := by
  rw [UInt8.lt_iff_toNat_lt]; omega

theorem bytesLt_irrefl : ∀ a : Bytes, bytesLt a a = false
  | [] => rfl
  | x :: xs => by
    simp [bytesLt, bytesLt_irrefl xs]

theorem bytesLt_asymm : ∀ a b : Bytes, bytesLt a b = true → bytesLt b a = false
  | _, [] => by simp [bytesLt]
  | [], _ :: _ => by simp [bytesLt]
  | x :: xs, y :: ys => by
    simp only [bytesLt, Bool.or_eq_true, decide_eq_true_eq, Bool.and_eq_true, beq_iff_eq,
      Bool.or_eq_false_iff, decide_eq_false_iff_not, Bool.and_eq_false_iff]
    intro h
    rcases h with h | ⟨h1, h2⟩
    · refine ⟨?_, Or.inl ?_⟩
      · rw [UInt8.lt_iff_toNat_lt] at *; omega
      · simp only [beq_eq_false_iff_ne, ne_eq]
        intro e; subst e; exact u8_lt_irrefl _ h
    · subst h1
      exact ⟨u8_lt_irrefl _, Or.inr (bytesLt_asymm xs ys h2)⟩

/-- negative transitivity: `c ≥ b → b ≥ a → c ≥ a` -/
theorem bytesLt_neg_trans : ∀ a b c : Bytes, bytesLt c b = false → bytesLt b a = false → bytesLt c a = false
  | [], _, _ => by simp [bytesLt]
  | _ :: _, [], _ => by simp [bytesLt]
  | _ :: _, _ :: _, [] => by simp [bytesLt]
  | x :: xs, y :: ys, z :: zs => by
    simp only [bytesLt, Bool.or_eq_false_iff, decide_eq_false_iff_not, Bool.and_eq_false_iff,
      beq_eq_false_iff_ne, ne_eq]
    intro ⟨h1, h2⟩ ⟨h3, h4⟩
    have hzy : ¬ z.toNat < y.toNat := by rwa [UInt8.lt_iff_toNat_lt] at h1
    have hyx : ¬ y.toNat < x.toNat := by rwa [UInt8.lt_iff_toNat_lt] at h3
    refine ⟨by rw [UInt8.lt_iff_toNat_lt]; omega, ?_⟩
    by_cases hzx : z = x
    · right
      subst hzx
      have hzy' : z = y := by apply UInt8.toNat_inj.mp; omega
      subst hzy'
      rcases h2 with h2 | h2
      · exact absurd rfl h2
      rcases h4 with h4 | h4
      · exact absurd rfl h4
      exact bytesLt_neg_trans xs ys zs h2 h4
    · exact Or.inl hzx

/-- connectedness: `a ≥ b → b ≥ a → a = b` -/
theorem bytesLt_antisymm : ∀ a b : Bytes, bytesLt a b = false → bytesLt b a = false → a = b
  | [], [] => fun _ _ => rfl
  | [], _ :: _ => by simp [bytesLt]
  | _ :: _, [] => by simp [bytesLt]
  | x :: xs, y :: ys => by
    simp only [bytesLt, Bool.or_eq_false_iff, decide_eq_false_iff_not, Bool.and_eq_false_iff,
      beq_eq_false_iff_ne, ne_eq]
    intro ⟨h1, h2⟩ ⟨h3, h4⟩
    have hxy : x = y := by
      apply UInt8.toNat_inj.mp
      rw [UInt8.lt_iff_toNat_lt] at h1 h3; omega
    subst hxy
    rcases h2 with h2 | h2
    · exact absurd rfl h2
    rcases h4 with h4 | h4
    · exact absurd rfl h4
    rw [bytesLt_antisymm xs ys h2 h4]

/-! ### hostLess is a strict weak order whose classes are singletons -/

theorem hostLess_asymm (a b : Bytes) (h : hostLess a b = true) : hostLess b a = false := by
  unfold hostLess at *
  cases ha : fuzzy a <;> cases hb : fuzzy b <;> simp_all
  all_goals exact bytesLt_asymm _ _ h

theorem hostLess_neg_trans (a b c : Bytes) (h1 : hostLess c b = false) (h2 : hostLess b a = false) :
    hostLess c a = false := by
  unfold hostLess at *
  cases ha : fuzzy a <;> cases hb : fuzzy b <;> cases hc : fuzzy c <;> simp_all
  all_goals exact bytesLt_neg_trans _ _ _ h1 h2

/-! ### insertion sort -/

theorem insertHost_perm (x : Bytes) : ∀ l : List Bytes, (insertHost x l).Perm (x :: l)
  | [] => List.Perm.refl _
  | y :: ys => by
    unfold insertHost
    split
    · exact ((insertHost_perm x ys).cons y).trans (List.Perm.swap x y ys)
    · exact List.Perm.refl _

theorem sortHosts_perm : ∀ l : List Bytes, (sortHosts l).Perm l
  | [] => List.Perm.refl _
  | x :: xs => (insertHost_perm x _).trans ((sortHosts_perm xs).cons x)

/-- `Sorted`: nothing later is strictly smaller than something earlier -/
def Sorted (l : List Bytes) : Prop := l.Pairwise (fun a b => hostLess b a = false)

theorem insertHost_sorted (x : Bytes) : ∀ l : List Bytes, Sorted l → Sorted (insertHost x l)
  | [], _ => by simp [insertHost, Sorted]
  | y :: ys, h => by
    unfold Sorted at *
    rw [List.pairwise_cons] at h
    unfold insertHost
    split
    · rename_i hyx
      rw [List.pairwise_cons]
      refine ⟨?_, insertHost_sorted x ys h.2⟩
      intro z hz
      rcases List.mem_cons.mp ((insertHost_perm x ys).mem_iff.mp hz) with hz | hz
      · subst hz; exact hostLess_asymm _ _ hyx
      · exact h.1 z hz
    · rename_i hyx
      have hyx : hostLess y x = false := by simpa using hyx
      rw [List.pairwise_cons]
      refine ⟨?_, List.pairwise_cons.mpr h⟩
      intro z hz
      rcases List.mem_cons.mp hz with hz | hz
      · subst hz; exact hyx
      · exact hostLess_neg_trans _ _ _ (h.1 z hz) hyx

theorem sortHosts_sorted : ∀ l : List Bytes, Sorted (sortHosts l)
  | [] => by simp [sortHosts, Sorted]
  | x :: xs => insertHost_sorted x _ (sortHosts_sorted xs)

/-! ### sort.Search -/

/-- the loop invariant of `sort.Search` for a monotone predicate -/
theorem searchLoop_spec (f : Nat → Bool) (n : Nat)
    (mono : ∀ a b, a ≤ b → b < n → f a = true → f b = true) :
    ∀ fuel i j, j - i ≤ fuel → i ≤ j → j ≤ n →
      (∀ k, k < i → f k = false) → (j < n → f j = true) →
      (∀ k, k < searchLoop f fuel i j → f k = false) ∧
      (searchLoop f fuel i j < n → f (searchLoop f fuel i j) = true) ∧ searchLoop f fuel i j ≤ n
  | 0, i, j, hf, hij, hjn, hlo, hhi => by
    have : i = j := by omega
    subst this
    simp only [searchLoop]
    exact ⟨hlo, hhi, hjn⟩
  | fuel + 1, i, j, hf, hij, hjn, hlo, hhi => by
    unfold searchLoop
    split
    · rename_i hlt
      have hm1 : i ≤ (i + j) / 2 := by omega
      have hm2 : (i + j) / 2 < j := by omega
      split
      · rename_i hfm
        exact searchLoop_spec f n mono fuel i ((i + j) / 2) (by omega) hm1 (by omega) hlo (fun _ => hfm)
      · rename_i hfm
        have hfm : f ((i + j) / 2) = false := by simpa using hfm
        refine searchLoop_spec f n mono fuel ((i + j) / 2 + 1) j (by omega) (by omega) hjn ?_ hhi
        intro k hk
        cases hfk : f k with
        | false => rfl
        | true =>
          have := mono k ((i + j) / 2) (by omega) (by omega) hfk
          rw [hfm] at this; cases this
    · have : i = j := by omega
      subst this
      exact ⟨hlo, hhi, hjn⟩

theorem sortSearch_spec (f : Nat → Bool) (n : Nat)
    (mono : ∀ a b, a ≤ b → b < n → f a = true → f b = true) :
    (∀ k, k < sortSearch n f → f k = false) ∧
    (sortSearch n f < n → f (sortSearch n f) = true) ∧ sortSearch n f ≤ n :=
  searchLoop_spec f n mono n 0 n (by omega) (by omega) (Nat.le_refl _) (fun _ h => absurd h (Nat.not_lt_zero _))
    (fun h => absurd h (Nat.lt_irrefl _))


/-! ### ASCII folding -/

theorem lowerByte_toNat (b : UInt8) :
    (lowerByte b).toNat = if 65 ≤ b.toNat ∧ b.toNat ≤ 90 then b.toNat + 32 else b.toNat := by
  unfold lowerByte
  simp only [UInt8.le_iff_toNat_le]
  split
  · rename_i h
    have h' : 65 ≤ b.toNat ∧ b.toNat ≤ 90 := by simpa using h
    rw [if_pos h', UInt8.toNat_add]
    have : (32 : UInt8).toNat = 32 := rfl
    omega
  · rename_i h
    have h' : ¬ (65 ≤ b.toNat ∧ b.toNat ≤ 90) := by simpa using h
    rw [if_neg h']

/-- a byte that is not a letter is the image of itself only -/
theorem lowerByte_eq_iff (b c : UInt8) (hc : ¬ (97 ≤ c.toNat ∧ c.toNat ≤ 122)) (hc' : ¬ (65 ≤ c.toNat ∧ c.toNat ≤ 90)) :
    lowerByte b = c ↔ b = c := by
  rw [← UInt8.toNat_inj, lowerByte_toNat, ← UInt8.toNat_inj]
  split <;> omega

theorem lowerByte_idem (b : UInt8) : lowerByte (lowerByte b) = lowerByte b := by
  rw [← UInt8.toNat_inj, lowerByte_toNat, lowerByte_toNat]
  split <;> (try split) <;> omega

theorem lower_idem (s : Bytes) : lower (lower s) = lower s := by
  unfold lower
  rw [List.map_map]
  apply List.map_congr_left
  intro a _
  exact lowerByte_idem a

/-- "not a letter" -/
def NonLetter (c : UInt8) : Prop := ¬ (97 ≤ c.toNat ∧ c.toNat ≤ 122) ∧ ¬ (65 ≤ c.toNat ∧ c.toNat ≤ 90)

theorem contains_lower (c : UInt8) (hc : NonLetter c) : ∀ s : Bytes, (lower s).contains c = s.contains c
  | [] => rfl
  | x :: xs => by
    have ih := contains_lower c hc xs
    unfold lower at *
    simp only [List.map_cons, List.contains_cons]
    rw [ih]
    congr 1
    have := lowerByte_eq_iff x c hc.1 hc.2
    by_cases h : x = c
    · have h2 := this.mpr h; rw [h2, h]
    · have h2 : ¬ lowerByte x = c := fun e => h (this.mp e)
      rw [beq_eq_false_iff_ne.mpr (fun e => h2 e.symm), beq_eq_false_iff_ne.mpr (fun e => h e.symm)]

theorem nl_star : NonLetter cStar := by unfold NonLetter; decide
theorem nl_brace : NonLetter cBrace := by unfold NonLetter; decide
theorem nl_dot : NonLetter cDot := by unfold NonLetter; decide
theorem nl_colon : NonLetter cColon := by unfold NonLetter; decide
theorem nl_lbr : NonLetter cLBr := by unfold NonLetter; decide
theorem nl_rbr : NonLetter cRBr := by unfold NonLetter; decide
theorem nl_slash : NonLetter cSlash := by unfold NonLetter; decide
theorem nl_pct : NonLetter cPct := by unfold NonLetter; decide

theorem fuzzy_lower (e : Bytes) : fuzzy (lower e) = fuzzy e := by
  unfold fuzzy
  rw [contains_lower _ nl_brace, contains_lower _ nl_star]

/-! ### the fast path of MatchHost -/

theorem searchPred_iff (m : List Bytes) (t : Bytes) (i : Nat) :
    searchPred m t i = true ↔ ∃ e, m[i]? = some e ∧ fuzzy e = false ∧ bytesLt e t = false := by
  unfold searchPred
  cases h : m[i]? with
  | none => simp
  | some e => simp

theorem searchPred_mono (m : List Bytes) (t : Bytes) (hs : Sorted m) :
    ∀ a b, a ≤ b → b < m.length → searchPred m t a = true → searchPred m t b = true := by
  intro a b hab hb ha
  by_cases e : a = b
  · subst e; exact ha
  have hab : a < b := by omega
  have halt : a < m.length := by omega
  rw [searchPred_iff] at *
  rcases ha with ⟨ea, hea, hfa, hlta⟩
  have hea' : m[a] = ea := by
    rcases List.getElem?_eq_some_iff.mp hea with ⟨_, hh⟩; exact hh
  refine ⟨m[b], List.getElem?_eq_getElem hb, ?_⟩
  have hp := (List.pairwise_iff_getElem.mp hs) a b halt hb hab
  rw [hea'] at hp
  unfold hostLess at hp
  cases hfb : fuzzy m[b] with
  | true => simp [hfb, hfa] at hp
  | false =>
    simp [hfb, hfa] at hp
    exact ⟨rfl, bytesLt_neg_trans _ _ _ hp hlta⟩

theorem fastHit_iff (m : List Bytes) (t : Bytes) (hs : Sorted m) :
    fastHit m t = true ↔ (t ∈ m ∧ fuzzy t = false) := by
  have spec := sortSearch_spec (searchPred m t) m.length (searchPred_mono m t hs)
  unfold fastHit
  simp only [beq_iff_eq]
  generalize sortSearch m.length (searchPred m t) = pos at *
  constructor
  · intro h
    have hlt : pos < m.length := by
      rcases List.getElem?_eq_some_iff.mp h with ⟨hh, _⟩; exact hh
    refine ⟨List.mem_iff_getElem?.mpr ⟨_, h⟩, ?_⟩
    rcases (searchPred_iff m t pos).mp (spec.2.1 hlt) with ⟨e, he, hf, _⟩
    rw [h] at he; cases he; exact hf
  · intro ⟨hmem, hfz⟩
    rcases List.mem_iff_getElem?.mp hmem with ⟨k, hk⟩
    have hklt : k < m.length := by
      rcases List.getElem?_eq_some_iff.mp hk with ⟨hh, _⟩; exact hh
    have hpk : searchPred m t k = true :=
      (searchPred_iff m t k).mpr ⟨t, hk, hfz, bytesLt_irrefl t⟩
    have hle : pos ≤ k := by
      apply Nat.le_of_not_lt
      intro hlt
      have := spec.1 k hlt
      rw [hpk] at this; cases this
    have hplt : pos < m.length := by omega
    rcases (searchPred_iff m t pos).mp (spec.2.1 hplt) with ⟨e, he, hfe, hge⟩
    by_cases eq : pos = k
    · rw [eq]; exact hk
    · have hlt : pos < k := by omega
      have hp := (List.pairwise_iff_getElem.mp hs) _ k hplt hklt hlt
      have hk' : m[k] = t := by
        rcases List.getElem?_eq_some_iff.mp hk with ⟨_, hh⟩; exact hh
      have he' : m[pos] = e := by
        rcases List.getElem?_eq_some_iff.mp he with ⟨_, hh⟩; exact hh
      rw [hk', he'] at hp
      unfold hostLess at hp
      simp [hfz, hfe] at hp
      rw [he, bytesLt_antisymm _ _ hge hp]

theorem hostLoop_small (h : Bytes) : ∀ m : List Bytes, hostLoop false h m = m.any (entryMatches h)
  | [] => rfl
  | e :: es => by simp [hostLoop, hostLoop_small h es]

/-- in a sorted slice the fuzzy entries come first, so breaking at the first exact entry
    loses no fuzzy entry -/
theorem hostLoop_large (h : Bytes) : ∀ m : List Bytes, Sorted m →
    hostLoop true h m = m.any (fun e => fuzzy e && entryMatches h e)
  | [], _ => rfl
  | e :: es, hs => by
    unfold Sorted at hs
    rw [List.pairwise_cons] at hs
    unfold hostLoop
    cases hf : fuzzy e with
    | true =>
      simp only [Bool.not_true, Bool.and_false, Bool.false_eq_true, if_false, List.any_cons, hf, Bool.true_and]
      rw [hostLoop_large h es hs.2]
    | false =>
      simp only [Bool.not_false, Bool.and_true, if_true, List.any_cons, hf, Bool.false_and, Bool.false_or]
      symm
      rw [List.any_eq_false]
      intro x hx
      have := hs.1 x hx
      unfold hostLess at this
      cases hfx : fuzzy x with
      | true => simp [hfx, hf] at this
      | false => simp

theorem entryMatches_exact (h e : Bytes) (hf : fuzzy e = false) :
    entryMatches h e = (lower h == lower e) := by
  unfold entryMatches
  unfold fuzzy at hf
  simp only [Bool.or_eq_false_iff] at hf
  rw [hf.2]
  rfl

theorem mem_map_lowerExact {x : Bytes} {l : List Bytes} (h : x ∈ l.map lowerExact) :
    ∃ e, e ∈ l ∧ ((fuzzy e = true ∧ x = e) ∨ (fuzzy e = false ∧ x = lower e)) := by
  rcases List.mem_map.mp h with ⟨e, he, hx⟩
  refine ⟨e, he, ?_⟩
  unfold lowerExact at hx
  cases hf : fuzzy e with
  | true => left; simp [hf] at hx; exact ⟨rfl, hx.symm⟩
  | false => right; simp [hf] at hx; exact ⟨rfl, hx.symm⟩

theorem entryMatches_lowerExact (h e : Bytes) : entryMatches h (lowerExact e) = entryMatches h e := by
  unfold lowerExact
  cases hf : fuzzy e with
  | true => simp
  | false =>
    simp only [Bool.false_eq_true, if_false]
    rw [entryMatches_exact h (lower e) (by rw [fuzzy_lower]; exact hf), entryMatches_exact h e hf, lower_idem]

/-- **the large-list code path computes the linear scan**, for EVERY slice `m` that is a sorted
    permutation of the lower-cased entries — i.e. whatever `sort.Slice` (unstable) returns. -/
theorem matchHost_sorted (thr : Nat) (l m : List Bytes) (rhost : Bytes) (hl : l.length > thr)
    (hperm : m.Perm (l.map lowerExact)) (hs : Sorted m) :
    matchHost thr m rhost = l.any (entryMatches (stripPort rhost)) := by
  have hlen : m.length > thr := by
    rw [hperm.length_eq, List.length_map]; exact hl
  unfold matchHost useFast
  simp only [hlen, decide_true, Bool.true_and]
  cases hasc : asciiOnly (stripPort rhost) with
  | false =>
    -- non-ASCII request host: the plain linear scan over the (lower-cased, sorted) slice
    simp only [Bool.false_and, Bool.false_eq_true, if_false]
    rw [hostLoop_small, hperm.any_eq, List.any_map]
    apply congrArg (fun f => l.any f)
    funext e
    exact entryMatches_lowerExact _ e
  | true =>
  simp only [Bool.true_and]
  rw [hostLoop_large _ _ hs]
  clear hasc
  generalize stripPort rhost = h
  rw [Bool.eq_iff_iff]
  constructor
  · intro hyp
    rw [List.any_eq_true]
    split at hyp
    · rename_i hfast
      rcases (fastHit_iff _ _ hs).mp hfast with ⟨hmem, hfz⟩
      rcases mem_map_lowerExact (hperm.mem_iff.mp hmem) with ⟨e, he, ⟨hfe, hx⟩ | ⟨hfe, hx⟩⟩
      · rw [hx, hfe] at hfz; cases hfz
      · exact ⟨e, he, by rw [entryMatches_exact h e hfe, hx]; simp⟩
    · rcases List.any_eq_true.mp hyp with ⟨x, hx, hxm⟩
      simp only [Bool.and_eq_true] at hxm
      rcases mem_map_lowerExact (hperm.mem_iff.mp hx) with ⟨e, he, ⟨hfe, hxe⟩ | ⟨hfe, hxe⟩⟩
      · exact ⟨e, he, hxe ▸ hxm.2⟩
      · rw [hxe, fuzzy_lower, hfe] at hxm; cases hxm.1
  · intro hyp
    rcases List.any_eq_true.mp hyp with ⟨e, he, hem⟩
    cases hfe : fuzzy e with
    | true =>
      have hmem : e ∈ m := by
        apply hperm.mem_iff.mpr
        apply List.mem_map.mpr
        exact ⟨e, he, by simp [lowerExact, hfe]⟩
      split
      · rfl
      · exact List.any_eq_true.mpr ⟨e, hmem, by simp [hfe, hem]⟩
    | false =>
      rw [entryMatches_exact h e hfe] at hem
      have hem : lower h = lower e := by simpa using hem
      have hmem : lower h ∈ m := by
        apply hperm.mem_iff.mpr
        apply List.mem_map.mpr
        exact ⟨e, he, by simp [lowerExact, hfe, hem]⟩
      have : fastHit (m) (lower h) = true :=
        (fastHit_iff _ _ hs).mpr ⟨hmem, by rw [hem, fuzzy_lower, hfe]⟩
      simp [this]

/-- the model's own sort (insertion sort) is one such slice -/
theorem matchHost_large (thr : Nat) (l : List Bytes) (rhost : Bytes) (hl : l.length > thr) :
    matchHost thr (sortHosts (l.map lowerExact)) rhost = l.any (entryMatches (stripPort rhost)) :=
  matchHost_sorted thr l _ rhost hl (sortHosts_perm _) (sortHosts_sorted _)

theorem matchHost_small (thr : Nat) (l : List Bytes) (rhost : Bytes) (hl : ¬ l.length > thr) :
    matchHost thr l rhost = l.any (entryMatches (stripPort rhost)) := by
  unfold matchHost useFast
  simp only [hl, decide_false, Bool.false_and, Bool.false_eq_true, if_false]
  exact hostLoop_small _ _

/-- Provision + Match, whatever the size and the threshold: duplicate check, then "some entry matches" -/
theorem hostCase_eq (thr : Nat) (l : List Bytes) (rhost : Bytes) :
    hostCase thr l rhost =
      if hasDup (l.map lower) then .dup else .res (l.any (entryMatches (stripPort rhost))) := by
  unfold hostCase provisionHost
  by_cases hd : hasDup (l.map lower) = true
  · simp [hd]
  · by_cases hl : l.length > thr
    · simp only [hd, hl, if_true, if_false, Bool.false_eq_true]
      rw [matchHost_large thr l rhost hl]
    · simp only [hd, hl, if_false, Bool.false_eq_true]
      rw [matchHost_small thr l rhost hl]

end CaddyModel.C06
