/-
C06 — helper lemmas, part 1: byte order, ASCII folding, insertion sort, binary search,
the `MatchHost` fast path.
-/
import CaddyModel.C06.Model

namespace CaddyModel.C06

/-! ### order on bytes and byte strings -/

theorem u8_lt_irrefl (a : UInt8) : ¬ a < a := by
  rw [UInt8.lt_iff_toNat_lt]; omega

theorem bytesLt_irrefl : ∀ a : Bytes, bytesLt a a = false
  | [] => rfl
  | x :: xs => by
    simp [bytesLt, bytesLt_irrefl xs]

theorem bytesLt_asymm : ∀ a b : Bytes, bytesLt a b = true → bytesLt b a = false
  | _, [] => by simp [bytesLt]
  | [], _ :: _ => by simp [bytesLt]
  | x :: xs, y :: ys => by
    simp only [bytesLt, Bool.or_eq_true, decide_eq_true_eq, Bool.and_eq_true, beq_iff_eq,
      Bool.or_eq_false_iff, decide_eq_false_iff_not, Bool.and_eq_false_iff]
    intro h
    rcases h with h | ⟨h1, h2⟩
    · refine ⟨?_, Or.inl ?_⟩
      · rw [UInt8.lt_iff_toNat_lt] at *; omega
      · simp only [beq_eq_false_iff_ne, ne_eq]
        intro e; subst e; exact u8_lt_irrefl _ h
    · subst h1
      exact ⟨u8_lt_irrefl _, Or.inr (bytesLt_asymm xs ys h2)⟩

/-- negative transitivity: `c ≥ b → b ≥ a → c ≥ a` -/
theorem bytesLt_neg_trans : ∀ a b c : Bytes, bytesLt c b = false → bytesLt b a = false → bytesLt c a = false
  | [], _, _ => by simp [bytesLt]
  | _ :: _, [], _ => by simp [bytesLt]
  | _ :: _, _ :: _, [] => by simp [bytesLt]
  | x :: xs, y :: ys, z :: zs => by
    simp only [bytesLt, Bool.or_eq_false_iff, decide_eq_false_iff_not, Bool.and_eq_false_iff,
      beq_eq_false_iff_ne, ne_eq]
    intro ⟨h1, h2⟩ ⟨h3, h4⟩
    have hzy : ¬ z.toNat < y.toNat := by rwa [UInt8.lt_iff_toNat_lt] at h1
    have hyx : ¬ y.toNat < x.toNat := by rwa [UInt8.lt_iff_toNat_lt] at h3
    refine ⟨by rw [UInt8.lt_iff_toNat_lt]; omega, ?_⟩
    by_cases hzx : z = x
    · right
      subst hzx
      have hzy' : z = y := by apply UInt8.toNat_inj.mp; omega
      subst hzy'
      rcases h2 with h2 | h2
      · exact absurd rfl h2
      rcases h4 with h4 | h4
      · exact absurd rfl h4
      exact bytesLt_neg_trans xs ys zs h2 h4
    · exact Or.inl hzx

/-- connectedness: `a ≥ b → b ≥ a → a = b` -/
theorem bytesLt_antisymm : ∀ a b : Bytes, bytesLt a b = false → bytesLt b a = false → a = b
  | [], [] => fun _ _ => rfl
  | [], _ :: _ => by simp [bytesLt]
  | _ :: _, [] => by simp [bytesLt]
  | x :: xs, y :: ys => by
    simp only [bytesLt, Bool.or_eq_false_iff, decide_eq_false_iff_not, Bool.and_eq_false_iff,
      beq_eq_false_iff_ne, ne_eq]
    intro ⟨h1, h2⟩ ⟨h3, h4⟩
    have hxy : x = y := by
      apply UInt8.toNat_inj.mp
      rw [UInt8.lt_iff_toNat_lt] at h1 h3; omega
    subst hxy
    rcases h2 with h2 | h2
    · exact absurd rfl h2
    rcases h4 with h4 | h4
    · exact absurd rfl h4
    rw [bytesLt_antisymm xs ys h2 h4]

/-! ### hostLess is a strict weak order whose classes are singletons -/

theorem hostLess_asymm (a b : Bytes) (h : hostLess a b = true) : hostLess b a = false := by
  unfold hostLess at *
  cases ha : fuzzy a <;> cases hb : fuzzy b <;> simp_all
  all_goals exact bytesLt_asymm _ _ h

theorem hostLess_neg_trans (a b c : Bytes) (h1 : hostLess c b = false) (h2 : hostLess b a = false) :
    hostLess c a = false := by
  unfold hostLess at *
  cases ha : fuzzy a <;> cases hb : fuzzy b <;> cases hc : fuzzy c <;> simp_all
  all_goals exact bytesLt_neg_trans _ _ _ h1 h2

/-! ### insertion sort -/

theorem insertHost_perm (x : Bytes) : ∀ l : List Bytes, (insertHost x l).Perm (x :: l)
  | [] => List.Perm.refl _
  | y :: ys => by
    unfold insertHost
    split
    · exact ((insertHost_perm x ys).cons y).trans (List.Perm.swap x y ys)
    · exact List.Perm.refl _

theorem sortHosts_perm : ∀ l : List Bytes, (sortHosts l).Perm l
  | [] => List.Perm.refl _
  | x :: xs => (insertHost_perm x _).trans ((sortHosts_perm xs).cons x)

/-- `Sorted`: nothing later is strictly smaller than something earlier -/
def Sorted (l : List Bytes) : Prop := l.Pairwise (fun a b => hostLess b a = false)

theorem insertHost_sorted (x : Bytes) : ∀ l : List Bytes, Sorted l → Sorted (insertHost x l)
  | [], _ => by simp [insertHost, Sorted]
  | y :: ys, h => by
    unfold Sorted at *
    rw [List.pairwise_cons] at h
    unfold insertHost
    split
    · rename_i hyx
      rw [List.pairwise_cons]
      refine ⟨?_, insertHost_sorted x ys h.2⟩
      intro z hz
      rcases List.mem_cons.mp ((insertHost_perm x ys).mem_iff.mp hz) with hz | hz
      · subst hz; exact hostLess_asymm _ _ hyx
      · exact h.1 z hz
    · rename_i hyx
      have hyx : hostLess y x = false := by simpa using hyx
      rw [List.pairwise_cons]
      refine ⟨?_, List.pairwise_cons.mpr h⟩
      intro z hz
      rcases List.mem_cons.mp hz with hz | hz
      · subst hz; exact hyx
      · exact hostLess_neg_trans _ _ _ (h.1 z hz) hyx

theorem sortHosts_sorted : ∀ l : List Bytes, Sorted (sortHosts l)
  | [] => by simp [sortHosts, Sorted]
  | x :: xs => insertHost_sorted x _ (sortHosts_sorted xs)

/-! ### sort.Search -/

/-- the loop invariant of `sort.Search` for a monotone predicate -/
theorem searchLoop_spec (f : Nat → Bool) (n : Nat)
    (mono : ∀ a b, a ≤ b → b < n → f a = true → f b = true) :
    ∀ fuel i j, j - i ≤ fuel → i ≤ j → j ≤ n →
      (∀ k, k < i → f k = false) → (j < n → f j = true) →
      (∀ k, k < searchLoop f fuel i j → f k = false) ∧
      (searchLoop f fuel i j < n → f (searchLoop f fuel i j) = true) ∧ searchLoop f fuel i j ≤ n
  | 0, i, j, hf, hij, hjn, hlo, hhi => by
    have : i = j := by omega
    subst this
    simp only [searchLoop]
    exact ⟨hlo, hhi, hjn⟩
  | fuel + 1, i, j, hf, hij, hjn, hlo, hhi => by
    unfold searchLoop
    split
    · rename_i hlt
      have hm1 : i ≤ (i + j) / 2 := by omega
      have hm2 : (i + j) / 2 < j := by omega
      split
      · rename_i hfm
        exact searchLoop_spec f n mono fuel i ((i + j) / 2) (by omega) hm1 (by omega) hlo (fun _ => hfm)
      · rename_i hfm
        have hfm : f ((i + j) / 2) = false := by simpa using hfm
        refine searchLoop_spec f n mono fuel ((i + j) / 2 + 1) j (by omega) (by omega) hjn ?_ hhi
        intro k hk
        cases hfk : f k with
        | false => rfl
        | true =>
          have := mono k ((i + j) / 2) (by omega) (by omega) hfk
          rw [hfm] at this; cases this
    · have : i = j := by omega
      subst this
      exact ⟨hlo, hhi, hjn⟩

theorem sortSearch_spec (f : Nat → Bool) (n : Nat)
    (mono : ∀ a b, a ≤ b → b < n → f a = true → f b = true) :
    (∀ k, k < sortSearch n f → f k = false) ∧
    (sortSearch n f < n → f (sortSearch n f) = true) ∧ sortSearch n f ≤ n :=
  searchLoop_spec f n mono n 0 n (by omega) (by omega) (Nat.le_refl _) (fun _ h => absurd h (Nat.not_lt_zero _))
    (fun h => absurd h (Nat.lt_irrefl _))

end CaddyModel.C06
