/-
C06 — helper lemmas, part 8: a declarative reading of the single-character operators of
`path.Match` (`c`, `\c`, `?`, `[…]`, `[^…]`): a chunk is a list of elements, each of which
consumes exactly one byte.
-/
import CaddyModel.C06.ProvLemmas

namespace CaddyModel.C06

/-- one single-character operator of a glob pattern -/
inductive Elem where
  | lit (c : UInt8)                                   -- `c` or `\c`
  | any                                               -- `?`
  | cls (neg : Bool) (ranges : List (UInt8 × UInt8))  -- `[lo-hi…]` / `[^lo-hi…]`
deriving DecidableEq, Repr

/-- what an element accepts -/
def elemMatches : Elem → UInt8 → Bool
  | .lit c, b => b == c
  | .any, b => b != cSlash
  | .cls neg rs, b => (rs.any fun p => inRange p.1 p.2 b) != neg

/-- a list of elements against the beginning of `s`: the rest of `s` on success -/
def elemsMatch : List Elem → Bytes → Option Bytes
  | [], s => some s
  | _ :: _, [] => none
  | e :: es, b :: s => if elemMatches e b then elemsMatch es s else none

inductive RangesRes where
  | ok (rs : List (UInt8 × UInt8)) (rest : Bytes)
  | bad
  | fuel
deriving DecidableEq, Repr

/-- the ranges of a character class (the syntax `classLoop` accepts) -/
def parseRanges : Nat → Bytes → Bool → RangesRes
  | 0, _, _ => .fuel
  | fuel + 1, chunk, seen =>
    if chunk.head? = some cRBr ∧ seen = true then .ok [] (chunk.drop 1)
    else match getEsc chunk with
      | none => .bad
      | some (lo, c1) =>
        if c1.head? = some 45 then
          match getEsc (c1.drop 1) with
          | none => .bad
          | some (hi, c2) =>
            match parseRanges fuel c2 true with
            | .ok rs rest => .ok ((lo, hi) :: rs) rest
            | r => r
        else
          match parseRanges fuel c1 true with
          | .ok rs rest => .ok ((lo, lo) :: rs) rest
          | r => r

theorem classLoop_eq (r : UInt8) : ∀ (fuel : Nat) (chunk : Bytes) (seen mt : Bool),
    classLoop r fuel chunk seen mt =
      match parseRanges fuel chunk seen with
      | .ok rs rest => .ok (mt || rs.any fun p => inRange p.1 p.2 r) rest
      | .bad => .bad
      | .fuel => .fuel
  | 0, _, _, _ => rfl
  | fuel + 1, chunk, seen, mt => by
    unfold classLoop parseRanges
    by_cases hc : chunk.head? = some cRBr ∧ seen = true
    · rw [if_pos hc, if_pos hc]; simp
    · rw [if_neg hc, if_neg hc]
      cases h1 : getEsc chunk with
      | none => rfl
      | some q =>
        obtain ⟨lo, c1⟩ := q
        simp only
        by_cases hd : c1.head? = some 45
        · rw [if_pos hd, if_pos hd]
          cases h2 : getEsc (c1.drop 1) with
          | none => rfl
          | some q2 =>
            obtain ⟨hi, c2⟩ := q2
            simp only
            rw [classLoop_eq r fuel c2 true _]
            cases parseRanges fuel c2 true with
            | ok rs rest => simp [Bool.or_assoc]
            | bad => rfl
            | fuel => rfl
        · rw [if_neg hd, if_neg hd, classLoop_eq r fuel c1 true _]
          cases parseRanges fuel c1 true with
          | ok rs rest => simp [Bool.or_assoc]
          | bad => rfl
          | fuel => rfl

inductive ParseRes where
  | ok (es : List Elem)
  | bad
  | fuel
deriving DecidableEq, Repr

def consElem (e : Elem) : ParseRes → ParseRes
  | .ok es => .ok (e :: es)
  | r => r

/-- a star-free chunk as a list of elements (the syntax `matchChunk` accepts) -/
def parseChunk : Nat → Bytes → ParseRes
  | _, [] => .ok []
  | 0, _ :: _ => .fuel
  | fuel + 1, c :: rest =>
    if c = cLBr then
      match parseRanges (rest.length + 1) (classBody rest) false with
      | .bad => .bad
      | .fuel => .fuel
      | .ok rs rest' => consElem (.cls (negated rest) rs) (parseChunk fuel rest')
    else if c = 63 then consElem .any (parseChunk fuel rest)
    else if c = cBack then
      match rest with
      | [] => .bad
      | d :: rest' => consElem (.lit d) (parseChunk fuel rest')
    else consElem (.lit c) (parseChunk fuel rest)

/-- the result of `matchChunk` read off the parsed chunk -/
def chunkSpec (p : ParseRes) (s : Bytes) (failed : Bool) : ChunkRes :=
  match p with
  | .bad => .bad
  | .fuel => .fuel
  | .ok es =>
    if failed then .fail
    else match elemsMatch es s with
      | some r => .ok r
      | none => .fail

theorem chunkSpec_cons (e : Elem) (p : ParseRes) (s : Bytes) (failed : Bool) :
    chunkSpec (consElem e p) s failed =
      match p with
      | .bad => .bad
      | .fuel => .fuel
      | .ok es => chunkSpec (.ok (e :: es)) s failed := by
  cases p <;> rfl

/-- one step: an element in front -/
theorem chunkSpec_step (e : Elem) (es : List Elem) (s : Bytes) (failed : Bool) :
    chunkSpec (.ok (e :: es)) s failed =
      chunkSpec (.ok es) (adv (failed || s.isEmpty) s)
        (failed || s.isEmpty || !(match s with | [] => false | b :: _ => elemMatches e b)) := by
  cases failed with
  | true => simp [chunkSpec]
  | false =>
    cases s with
    | nil => simp [chunkSpec, elemsMatch]
    | cons b s' =>
      simp only [chunkSpec, elemsMatch, adv, Bool.false_or, List.isEmpty_cons, Bool.false_eq_true, if_false,
        List.drop_succ_cons, List.drop_zero]
      cases elemMatches e b <;> simp

theorem chunkSpec_fold (e : Elem) (p : ParseRes) (s : Bytes) (failed : Bool) (flag : Bool)
    (hflag : flag = (failed || s.isEmpty || !(match s with | [] => false | b :: _ => elemMatches e b))) :
    chunkSpec (consElem e p) s failed = chunkSpec p (adv (failed || s.isEmpty) s) flag := by
  subst hflag
  rw [chunkSpec_cons]
  cases p with
  | ok es => exact chunkSpec_step e es s failed
  | bad => rfl
  | fuel => rfl

/-- **`matchChunk` is "parse the chunk into elements, then match them one byte each"** -/
theorem matchChunk_eq_spec : ∀ (fuel : Nat) (chunk s : Bytes) (failed : Bool),
    matchChunk fuel chunk s failed = chunkSpec (parseChunk fuel chunk) s failed
  | fuel, [], s, failed => by
    unfold matchChunk parseChunk
    cases failed <;> simp [chunkSpec, elemsMatch]
  | 0, _ :: _, _, _ => by
    unfold matchChunk parseChunk
    rfl
  | fuel + 1, c :: rest, s, failed => by
    unfold matchChunk parseChunk
    by_cases h1 : c = cLBr
    · rw [if_pos h1, if_pos h1, classLoop_eq]
      cases hp : parseRanges (rest.length + 1) (classBody rest) false with
      | bad => rfl
      | fuel => rfl
      | ok rs rest' =>
        simp only
        rw [matchChunk_eq_spec fuel rest' _ _]
        symm
        apply chunkSpec_fold
        cases failed with
        | true => simp
        | false =>
          cases s with
          | nil => simp
          | cons b s' =>
            simp only [Bool.false_or, List.isEmpty_cons, classRune, Bool.false_eq_true, if_false, elemMatches]
            cases (rs.any fun p => inRange p.1 p.2 b) <;> cases negated rest <;> rfl
    · rw [if_neg h1, if_neg h1]
      by_cases h2 : c = 63
      · rw [if_pos h2, if_pos h2, matchChunk_eq_spec fuel rest _ _]
        symm
        apply chunkSpec_fold
        cases failed with
        | true => simp
        | false =>
          cases s with
          | nil => simp
          | cons b s' =>
            simp only [Bool.false_or, List.isEmpty_cons, List.head?_cons, elemMatches]
            by_cases hb : b = cSlash
            · subst hb; rfl
            · have : (b != cSlash) = true := by simpa using hb
              rw [this]
              have : (some b == some cSlash) = false := by simpa using hb
              rw [this]; rfl
      · rw [if_neg h2, if_neg h2]
        by_cases h3 : c = cBack
        · rw [if_pos h3, if_pos h3]
          cases rest with
          | nil => rfl
          | cons d rest' =>
            simp only
            rw [matchChunk_eq_spec fuel rest' _ _]
            symm
            apply chunkSpec_fold
            cases failed with
            | true => simp
            | false =>
              cases s with
              | nil => simp
              | cons b s' =>
                simp only [Bool.false_or, List.isEmpty_cons, List.head?_cons, elemMatches]
                by_cases hb : b = d
                · subst hb; simp
                · have : (b == d) = false := by simpa using hb
                  rw [this]
                  have : (some b != some d) = true := by simpa using hb
                  rw [this]; rfl
        · rw [if_neg h3, if_neg h3, matchChunk_eq_spec fuel rest _ _]
          symm
          apply chunkSpec_fold
          cases failed with
          | true => simp
          | false =>
            cases s with
            | nil => simp
            | cons b s' =>
              simp only [Bool.false_or, List.isEmpty_cons, List.head?_cons, elemMatches]
              by_cases hb : b = c
              · subst hb; simp
              · have : (b == c) = false := by simpa using hb
                rw [this]
                have : (some b != some c) = true := by simpa using hb
                rw [this]; rfl

/-- element-wise matching, spelt out: same length, every byte accepted by its element -/
inductive ElemsAccept : List Elem → Bytes → Prop
  | nil : ElemsAccept [] []
  | cons {e : Elem} {b : UInt8} {es : List Elem} {s : Bytes} :
      elemMatches e b = true → ElemsAccept es s → ElemsAccept (e :: es) (b :: s)

theorem elemsMatch_iff : ∀ (es : List Elem) (s : Bytes), elemsMatch es s = some [] ↔ ElemsAccept es s
  | [], s => by
    simp only [elemsMatch, Option.some.injEq]
    constructor
    · intro h; subst h; exact .nil
    · intro h; cases h; rfl
  | e :: es, [] => by
    simp only [elemsMatch]
    constructor
    · intro h; cases h
    · intro h; cases h
  | e :: es, b :: s => by
    simp only [elemsMatch]
    constructor
    · intro h
      split at h
      · rename_i hm
        exact .cons hm ((elemsMatch_iff es s).mp h)
      · cases h
    · intro h
      cases h with
      | cons hm hr => rw [if_pos hm]; exact (elemsMatch_iff es s).mpr hr

theorem globMatch_single_chunk (pat s : Bytes) (hne : pat ≠ []) (hstar : pat.head? ≠ some cStar)
    (hchunk : scanLen false pat = pat.length) :
    globMatch pat s =
      match parseChunk pat.length pat with
      | .ok es => ofBool (elemsMatch es s == some [])
      | .bad => .bad
      | .fuel => .fuel := by
  cases pat with
  | nil => exact absurd rfl hne
  | cons p ps =>
    have h1 : ¬ p = cStar := by
      intro e; apply hstar; simp [e]
    have hds : dropStars (p :: ps) = p :: ps := by simp [dropStars, h1]
    have hc : chunkOf (p :: ps) = p :: ps := by
      unfold chunkOf; rw [hds, hchunk]; simp
    have hr : restOf (p :: ps) = [] := by
      unfold restOf; rw [hds, hchunk]; simp
    have hstar' : (p == cStar) = false := by simpa using h1
    unfold globMatch globLoop
    rw [hc, hr, hstar']
    unfold globStep
    rw [matchChunk_eq_spec]
    simp only [Bool.false_and, Bool.false_eq_true, if_false, List.isEmpty_nil, Bool.not_true, Bool.or_false]
    cases hp : parseChunk (p :: ps).length (p :: ps) with
    | bad => rfl
    | fuel => rfl
    | ok es =>
      simp only [chunkSpec, Bool.false_eq_true, if_false]
      cases he : elemsMatch es s with
      | none => simp [globStar, ofBool]
      | some t =>
        cases t with
        | nil => simp [globLoop, ofBool]
        | cons x xs => simp [globStar, ofBool]

end CaddyModel.C06
