/-
C06 — clauses of the property the tree does NOT satisfy (or did not before a repair), each with its full
statement, a proved counter-example (kernel-evaluated) and a pointer to the provable part in
`Props.lean`.  The counter-examples are the data `Driver.witnessLines` exports as protocol
lines; they are replayed on the implementation on every run.
-/
import CaddyModel.C06.PathLemmas
import CaddyModel.C06.Driver

namespace CaddyModel.C06

/-! ### the code before the `fix:` commit "path matcher: patterns containing % match
    case-insensitively": the escaped path and the text built from it were not lower-cased -/

def escMatchOld (escapedPath pat : Bytes) : Bool :=
  match escLoop (pat.length + 1) pat escapedPath [] with
  | .built sb _ => globMatch (replacePctStar pat) sb == .yes
  | _ => false

/-- old `MatchPath` loop body: differs from `patMatches` in the `%` branch only -/
def patMatchesOld (lp esc : Bytes) (pat : Bytes) : Bool :=
  if pat.contains cPct ∧ pat ≠ star then
    escMatchOld (cleanPathMode (!containsSub pat [cSlash, cSlash]) esc) pat
  else patMatches lp esc pat

def pathCaseOld (l : List Bytes) (path esc : Bytes) : Bool :=
  (provisionPath l).any (patMatchesOld (lower path) esc)

/-- **the clause `matchPath_case_invariant` was false for the old code** (so the theorem is not
    vacuous and the repair is what made it true): pattern `/a%2fb`; `/a%2fb` matched, `/A%2fb` did
    not — a pattern with `%` was compared with the *escaped* path, whose letters (outside `%xx`)
    were never lower-cased, although the pattern itself was lower-cased by Provision.
    Regression case: `corpus/C06/escaped-pattern-case.txt` (`wCasePct`). -/
theorem matchPath_case_invariant_old_code_fails :
    ∃ (l : List Bytes) (p e p' e' : Bytes), lower p = lower p' ∧ lower e = lower e' ∧
      pathCaseOld l p e ≠ pathCaseOld l p' e' ∧ pathCase l p e = pathCase l p' e' :=
  ⟨wCasePct.pats, wCasePct.p1, wCasePct.e1, wCasePct.p2, wCasePct.e2, by decide⟩

/-- FULL STATEMENT (false): a duplicated slash never matters, for every pattern list:
      `∀ l a b ea eb, pathCase l (a ++ "//" ++ b) (ea ++ "//" ++ eb) = pathCase l (a ++ "/" ++ b) (ea ++ "/" ++ eb)`.
    Counter-example `wDupSlash`: pattern `/a//b` matches `/a//b` and not `/a/b` — the documented
    intent of a pattern that itself contains `//` ("we preserve them in the path").
    Provable part: `matchPath_dup_slash_invariant_partial` (no pattern contains `//`). -/
theorem matchPath_dup_slash_full_fails :
    ∃ (l : List Bytes) (a b ea eb : Bytes),
      pathCase l (a ++ cSlash :: cSlash :: b) (ea ++ cSlash :: cSlash :: eb) ≠
        pathCase l (a ++ cSlash :: b) (ea ++ cSlash :: eb) :=
  ⟨wDupSlash.pats, [47, 97], [98], [47, 97], [98], by decide⟩

/-- the exported line is this counter-example -/
theorem wDupSlash_is_the_witness :
    wDupSlash.p1 = [47, 97] ++ cSlash :: cSlash :: [98] ∧ wDupSlash.p2 = [47, 97] ++ cSlash :: [98] ∧
    wDupSlash.e1 = wDupSlash.p1 ∧ wDupSlash.e2 = wDupSlash.p2 := by decide

/-- FULL STATEMENT (false): how the client percent-encoded unreserved characters never matters,
    for every pattern list: `∀ l p e e', pathCase l p e = pathCase l p e'` (same decoded path).
    Counter-example `wPctEnc`: pattern `/%61` (an escaped `a`) matches the target `/%61` and not
    the target `/a` — the documented intent of a pattern that contains `%` ("compare in escaped space").
    Provable part: `matchPath_ignores_escaped_form` (no pattern contains `%`). -/
theorem matchPath_pct_encoding_full_fails :
    ∃ (l : List Bytes) (p e e' : Bytes), pathCase l p e ≠ pathCase l p e' :=
  ⟨wPctEnc.pats, wPctEnc.p1, wPctEnc.e1, wPctEnc.e2, by decide⟩

/-! ### the code before the `fix:` commit "a wildcard label of the host matcher no longer matches
    an empty label": a `*` label matched ANY request label, the empty one included -/

def labelsMatchOld : List Bytes → List Bytes → Bool
  | [], [] => true
  | p :: ps, h :: hs => (p == [cStar] || equalFold p h) && labelsMatchOld ps hs
  | _, _ => false

/-- `Host: .example.com` matched the entry `*.example.com` in the old code and does not any more
    (TLS server name matching never matched it: the mismatch bypassed client authentication);
    an ordinary label still matches -/
theorem wildcard_empty_label_old_code_matched :
    labelsMatchOld (splitOn cDot [42, 46, 101, 120, 97, 109, 112, 108, 101, 46, 99, 111, 109]) (splitOn cDot [46, 101, 120, 97, 109, 112, 108, 101, 46, 99, 111, 109]) = true ∧
    entryMatches [46, 101, 120, 97, 109, 112, 108, 101, 46, 99, 111, 109] [42, 46, 101, 120, 97, 109, 112, 108, 101, 46, 99, 111, 109] = false ∧ entryMatches [97, 46, 101, 120, 97, 109, 112, 108, 101, 46, 99, 111, 109] [42, 46, 101, 120, 97, 109, 112, 108, 101, 46, 99, 111, 109] = true ∧
    labelsMatchOld (splitOn cDot [cStar]) (splitOn cDot []) = true ∧ entryMatches [] [cStar] = false := by
  decide

/-! ### wave h: the lock-step comparator of `%` patterns (`matchPatternWithEscapeSequence`) at its
    index boundaries — one clause repaired by /repo 84b6e63 (class
    `path-rule-mismatch:escaped-pattern-matches-longer-path`, fixed) and two the tree still violates (known
    findings `path-spelling:pct-wildcard-terminator`, `path-spelling:pct-encoded-dot-segment`) -/

/-! #### the code before the `fix:` commit /repo 84b6e63 "a path pattern with an escape sequence does
     not match a longer path": the text built by the loop was matched as it stood, the rest of the
     path (`escapedPath[iPath:]`) was dropped -/

def escMatchNoRest (escapedPath pat : Bytes) : Bool :=
  match escLoop (pat.length + 1) pat escapedPath [] with
  | .built sb _ => globMatch (replacePctStar pat) (lower sb) == .yes
  | _ => false

/-- `patMatches` of the code before 84b6e63: differs in the `%` branch only -/
def patMatchesNoRest (lp esc : Bytes) (pat : Bytes) : Bool :=
  if pat.contains cPct ∧ pat ≠ star then
    escMatchNoRest (cleanPathMode (!containsSub pat [cSlash, cSlash]) (lower esc)) pat
  else patMatches lp esc pat

def pathCaseNoRest (l : List Bytes) (path esc : Bytes) : Bool :=
  (provisionPath l).any (patMatchesNoRest (lower path) esc)

/-- **the exact-match clause was false for the old code**: the star-free pattern `/sp%20ace` matched
    `/sp%20ace` AND `/sp%20acex` (the loop ends when the pattern is used up, `iPattern >= len(matchPath)`,
    and the rest of the path was never looked at); the repaired code rejects the longer path.
    Regression case: `corpus/C06/escaped-pattern-rest.txt` (`wEscRest`). -/
theorem matchPath_escaped_exact_old_code_fails :
    ∃ (pat p e x : Bytes), pat.contains cStar = false ∧ x ≠ [] ∧
      pathCaseNoRest [pat] p e = true ∧ pathCaseNoRest [pat] (p ++ x) (e ++ x) = true ∧
      pathCase [pat] p e = true ∧ pathCase [pat] (p ++ x) (e ++ x) = false :=
  ⟨[47, 115, 112, 37, 50, 48, 97, 99, 101], wEscRest.p1, wEscRest.e1, [120], by decide⟩

theorem wEscRest_is_the_old_code_witness :
    wEscRest.p2 = wEscRest.p1 ++ [120] ∧ wEscRest.e2 = wEscRest.e1 ++ [120] ∧
    wEscRest.pats = [[47, 115, 112, 37, 50, 48, 97, 99, 101]] := by decide

/-- the repaired step, for every pattern and path: when the loop leaves a rest `r` of the path, the
    text matched is `sb ++ unescape r` (and an undecodable rest rejects), otherwise `sb` -/
theorem escMatch_appends_rest_of_path (ep pat sb rest : Bytes)
    (h : escLoop (pat.length + 1) pat ep [] = .built sb rest) :
    escMatch ep pat =
      (if rest.length > 0 then
        match pathUnescape rest with
        | none => false
        | some r => globMatch (replacePctStar pat) (lower (sb ++ r)) == .yes
       else globMatch (replacePctStar pat) (lower sb) == .yes) := by
  unfold escMatch; rw [h]; rfl

example : escLoop 10 [47, 115, 112, 37, 50, 48, 97, 99, 101] [47, 115, 112, 37, 50, 48, 97, 99, 101, 120] [] =
    .built [47, 115, 112, 37, 50, 48, 97, 99, 101] [120] := by decide

/-- the exact rule on the repaired code, kernel-evaluated on the family of the finding: the
    star-free patterns `/sp%20ace`, `/a%2fb` match their own path (any spelling of the unreserved
    bytes) and no longer any longer path — a literal byte, a segment, an escaped byte or an encoded
    slash appended; `/a%2fb/*` still matches below the prefix -/
theorem matchPath_escaped_exact_rule_on_repaired_code :
    pathCase [[47, 115, 112, 37, 50, 48, 97, 99, 101]] [47, 115, 112, 32, 97, 99, 101] [47, 115, 112, 37, 50, 48, 97, 99, 101] = true ∧
    pathCase [[47, 115, 112, 37, 50, 48, 97, 99, 101]] [47, 115, 112, 32, 97, 99, 101] [47, 115, 112, 37, 50, 48, 97, 99, 37, 54, 53] = true ∧
    pathCase [[47, 115, 112, 37, 50, 48, 97, 99, 101]] [47, 115, 112, 32, 97, 99, 101, 120] [47, 115, 112, 37, 50, 48, 97, 99, 101, 120] = false ∧
    pathCase [[47, 115, 112, 37, 50, 48, 97, 99, 101]] [47, 115, 112, 32, 97, 99, 101, 120] [47, 115, 112, 37, 50, 48, 97, 99, 101, 37, 55, 56] = false ∧
    pathCase [[47, 115, 112, 37, 50, 48, 97, 99, 101]] [47, 115, 112, 32, 97, 99, 101, 47, 120] [47, 115, 112, 37, 50, 48, 97, 99, 101, 47, 120] = false ∧
    pathCase [[47, 97, 37, 50, 102, 98]] [47, 97, 47, 98] [47, 97, 37, 50, 70, 98] = true ∧
    pathCase [[47, 97, 37, 50, 102, 98]] [47, 97, 47, 98, 47, 120] [47, 97, 37, 50, 70, 98, 37, 50, 70, 120] = false ∧
    pathCase [[47, 97, 37, 50, 102, 98, 47, 42]] [47, 97, 47, 98, 47, 120] [47, 97, 37, 50, 70, 98, 47, 120] = true := by
  decide

/-- FULL STATEMENT (false): percent-encoding an unreserved byte of the request at a place where
    the pattern has no escape never matters.  Counter-example `wEscTerm`: `/k%20*z` matches
    `/k%20axz` and not `/k%20ax%7A`: the byte ending the `*` span is searched with IndexByte in the
    raw text (`escSpan`'s `indexOf nextCh ep'`), an encoded `z` is not found and the loop rejects. -/
theorem matchPath_pct_wildcard_terminator_full_fails :
    ∃ (l : List Bytes) (p e e' : Bytes), pathUnescape e = some p ∧ pathUnescape e' = some p ∧
      pathCase l p e = true ∧ pathCase l p e' = false :=
  ⟨wEscTerm.pats, wEscTerm.p1, wEscTerm.e1, wEscTerm.e2, by decide⟩

/-- FULL STATEMENT (false): dot segments never matter, however they are spelt.  Counter-example
    `wEscDot`: `/%*/y` matches `/./dx/y` and not `/%2e/dx/y` (same decoded path): for a `%` pattern
    `cleanPathMode` runs over the escaped text, where `%2e` is not a dot segment.
    Provable part: `matchPath_dot_segments_invariant` (dot segments spelt literally). -/
theorem matchPath_encoded_dot_segment_full_fails :
    ∃ (l : List Bytes) (p e e' : Bytes), pathUnescape e = some p ∧ pathUnescape e' = some p ∧
      pathCase l p e = true ∧ pathCase l p e' = false :=
  ⟨wEscDot.pats, wEscDot.p1, wEscDot.e1, wEscDot.e2, by decide⟩

/-- boundary of `len(escapedPath) >= iPath+3`: an escape occupying the LAST three bytes of the path
    is decoded (`/foo%2Fbar/ba%7A` matches `/foo%2fbar/baz` like the canonical spelling); an escape in
    the FIRST bytes after the slash and two adjacent escapes as well -/
theorem escape_at_end_of_path_is_decoded :
    pathCase wEscEnd.pats wEscEnd.p1 wEscEnd.e1 = true ∧ pathCase wEscEnd.pats wEscEnd.p2 wEscEnd.e2 = true ∧
    pathCase wEscEnd.pats wEscEnd.p1 [47, 37, 54, 54, 111, 111, 37, 50, 70, 98, 97, 114, 47, 98, 97, 122] = true ∧
    pathCase wEscEnd.pats wEscEnd.p1 [47, 102, 111, 37, 54, 70, 37, 50, 70, 37, 54, 50, 97, 114, 47, 98, 37, 54, 49, 37, 55, 65] = true ∧
    pathCase [[47, 102, 105, 108, 101, 115, 47, 97, 37, 50, 102]] [47, 102, 105, 108, 101, 115, 47, 97, 47] [47, 102, 105, 108, 101, 115, 47, 97, 37, 50, 70] = true := by
  decide

/-- the loop step at the boundary, for every pattern and every text built so far: with a literal
    pattern byte in front and exactly three bytes `%ab` of path left, the escape is decoded and the
    path is used up (the comparison `erest.length ≥ 2` is `len(escapedPath) >= iPath+3`) -/
theorem escLoop_decodes_escape_in_last_three_bytes (fuel : Nat) (pc a b : UInt8) (prest sb : Bytes)
    (h1 : pc ≠ cPct) (h2 : pc ≠ cStar) :
    escLoop (fuel + 1) (pc :: prest) [cPct, a, b] sb =
      match pathUnescape (lower [cPct, a, b]) with
      | none => .reject
      | some ch => escLoop fuel prest [] (sb ++ ch) := by
  cases h : pathUnescape (lower [cPct, a, b]) <;> simp [escLoop, h1, h2, h]

example : escLoop 5 [122] [cPct, 55, 65] [47] = .built [47, 122] [] := by decide

/-- … and with only two bytes left a `%` is an ordinary byte (cannot happen for an EscapedPath) -/
theorem escLoop_short_escape_is_literal (fuel : Nat) (pc a : UInt8) (prest sb : Bytes)
    (h1 : pc ≠ cPct) (h2 : pc ≠ cStar) :
    escLoop (fuel + 1) (pc :: prest) [cPct, a] sb = escLoop fuel prest [a] (sb ++ [cPct]) := by
  simp [escLoop, h1, h2]

example : escLoop 5 [122] [cPct, 55] [47] = .built [47, 37] [55] := by decide

end CaddyModel.C06
