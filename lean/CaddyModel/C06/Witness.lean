/-
C06 — clauses of the property the tree does NOT satisfy (or did not before a repair), each with its full
statement, a proved counter-example (kernel-evaluated) and a pointer to the provable part in
`Props.lean`.  The counter-examples are the data `Driver.witnessLines` exports as protocol
lines; they are replayed on the implementation on every run.
-/
import CaddyModel.C06.PathLemmas
import CaddyModel.C06.Driver

namespace CaddyModel.C06

/-! ### the code before the `fix:` commit "path matcher: patterns containing % match
    case-insensitively": the escaped path and the text built from it were not lower-cased -/

def escMatchOld (escapedPath pat : Bytes) : Bool :=
  match escLoop (pat.length + 1) pat escapedPath [] with
  | .built sb => globMatch (replacePctStar pat) sb == .yes
  | _ => false

/-- old `MatchPath` loop body: differs from `patMatches` in the `%` branch only -/
def patMatchesOld (lp esc : Bytes) (pat : Bytes) : Bool :=
  if pat.contains cPct ∧ pat ≠ star then
    escMatchOld (cleanPathMode (!containsSub pat [cSlash, cSlash]) esc) pat
  else patMatches lp esc pat

def pathCaseOld (l : List Bytes) (path esc : Bytes) : Bool :=
  (provisionPath l).any (patMatchesOld (lower path) esc)

/-- **the clause `matchPath_case_invariant` was false for the old code** (so the theorem is not
    vacuous and the repair is what made it true): pattern `/a%2fb`; `/a%2fb` matched, `/A%2fb` did
    not — a pattern with `%` was compared with the *escaped* path, whose letters (outside `%xx`)
    were never lower-cased, although the pattern itself was lower-cased by Provision.
    Regression case: `corpus/C06/escaped-pattern-case.txt` (`wCasePct`). -/
theorem matchPath_case_invariant_old_code_fails :
    ∃ (l : List Bytes) (p e p' e' : Bytes), lower p = lower p' ∧ lower e = lower e' ∧
      pathCaseOld l p e ≠ pathCaseOld l p' e' ∧ pathCase l p e = pathCase l p' e' :=
  ⟨wCasePct.pats, wCasePct.p1, wCasePct.e1, wCasePct.p2, wCasePct.e2, by decide⟩

/-- FULL STATEMENT (false): a duplicated slash never matters, for every pattern list:
      `∀ l a b ea eb, pathCase l (a ++ "//" ++ b) (ea ++ "//" ++ eb) = pathCase l (a ++ "/" ++ b) (ea ++ "/" ++ eb)`.
    Counter-example `wDupSlash`: pattern `/a//b` matches `/a//b` and not `/a/b` — the documented
    intent of a pattern that itself contains `//` ("we preserve them in the path").
    Provable part: `matchPath_dup_slash_invariant_partial` (no pattern contains `//`). -/
theorem matchPath_dup_slash_full_fails :
    ∃ (l : List Bytes) (a b ea eb : Bytes),
      pathCase l (a ++ cSlash :: cSlash :: b) (ea ++ cSlash :: cSlash :: eb) ≠
        pathCase l (a ++ cSlash :: b) (ea ++ cSlash :: eb) :=
  ⟨wDupSlash.pats, [47, 97], [98], [47, 97], [98], by decide⟩

/-- the exported line is this counter-example -/
theorem wDupSlash_is_the_witness :
    wDupSlash.p1 = [47, 97] ++ cSlash :: cSlash :: [98] ∧ wDupSlash.p2 = [47, 97] ++ cSlash :: [98] ∧
    wDupSlash.e1 = wDupSlash.p1 ∧ wDupSlash.e2 = wDupSlash.p2 := by decide

/-- FULL STATEMENT (false): how the client percent-encoded unreserved characters never matters,
    for every pattern list: `∀ l p e e', pathCase l p e = pathCase l p e'` (same decoded path).
    Counter-example `wPctEnc`: pattern `/%61` (an escaped `a`) matches the target `/%61` and not
    the target `/a` — the documented intent of a pattern that contains `%` ("compare in escaped space").
    Provable part: `matchPath_ignores_escaped_form` (no pattern contains `%`). -/
theorem matchPath_pct_encoding_full_fails :
    ∃ (l : List Bytes) (p e e' : Bytes), pathCase l p e ≠ pathCase l p e' :=
  ⟨wPctEnc.pats, wPctEnc.p1, wPctEnc.e1, wPctEnc.e2, by decide⟩

/-! ### the code before the `fix:` commit "a wildcard label of the host matcher no longer matches
    an empty label": a `*` label matched ANY request label, the empty one included -/

def labelsMatchOld : List Bytes → List Bytes → Bool
  | [], [] => true
  | p :: ps, h :: hs => (p == [cStar] || equalFold p h) && labelsMatchOld ps hs
  | _, _ => false

/-- `Host: .example.com` matched the entry `*.example.com` in the old code and does not any more
    (TLS server name matching never matched it: the mismatch bypassed client authentication);
    an ordinary label still matches -/
theorem wildcard_empty_label_old_code_matched :
    labelsMatchOld (splitOn cDot [42, 46, 101, 120, 97, 109, 112, 108, 101, 46, 99, 111, 109]) (splitOn cDot [46, 101, 120, 97, 109, 112, 108, 101, 46, 99, 111, 109]) = true ∧
    entryMatches [46, 101, 120, 97, 109, 112, 108, 101, 46, 99, 111, 109] [42, 46, 101, 120, 97, 109, 112, 108, 101, 46, 99, 111, 109] = false ∧ entryMatches [97, 46, 101, 120, 97, 109, 112, 108, 101, 46, 99, 111, 109] [42, 46, 101, 120, 97, 109, 112, 108, 101, 46, 99, 111, 109] = true ∧
    labelsMatchOld (splitOn cDot [cStar]) (splitOn cDot []) = true ∧ entryMatches [] [cStar] = false := by
  decide

end CaddyModel.C06
