/-
C06 — helper lemmas, part 7: `MatchHost.Provision` with `idna.ToASCII` as a parameter.
-/
import CaddyModel.C06.SiteLemmas

namespace CaddyModel.C06

/-- all entries converted, `none` if one conversion fails -/
def convAll (idna : Bytes → Option Bytes) : List Bytes → Option (List Bytes)
  | [] => some []
  | h :: t =>
    match idna h, convAll idna t with
    | some a, some r => some (a :: r)
    | _, _ => none

/-- "some element was seen before" (the `seen` map of the first loop) -/
def hasDupWith : List Bytes → List Bytes → Bool
  | _, [] => false
  | seen, x :: r => seen.contains x || hasDupWith (x :: seen) r

theorem hasDupWith_iff : ∀ (xs seen : List Bytes),
    hasDupWith seen xs = true ↔ ((∃ x, x ∈ xs ∧ x ∈ seen) ∨ ¬ xs.Nodup)
  | [], seen => by simp [hasDupWith]
  | x :: r, seen => by
    simp only [hasDupWith, Bool.or_eq_true, List.contains_iff_mem, hasDupWith_iff r (x :: seen),
      List.mem_cons, List.nodup_cons]
    constructor
    · rintro (h | ⟨y, hy, hy' | hy'⟩ | h)
      · exact Or.inl ⟨x, Or.inl rfl, h⟩
      · subst hy'; exact Or.inr (fun hh => hh.1 hy)
      · exact Or.inl ⟨y, Or.inr hy, hy'⟩
      · exact Or.inr (fun hh => h hh.2)
    · rintro (⟨y, hy | hy, hys⟩ | h)
      · subst hy; exact Or.inl hys
      · exact Or.inr (Or.inl ⟨y, hy, Or.inr hys⟩)
      · by_cases hx : x ∈ r
        · exact Or.inr (Or.inl ⟨x, hx, Or.inl rfl⟩)
        · exact Or.inr (Or.inr (fun hn => h ⟨hx, hn⟩))

theorem hasDupWith_nil (xs : List Bytes) : hasDupWith [] xs = hasDup xs := by
  rw [Bool.eq_iff_iff, hasDupWith_iff, hasDup_iff]
  simp

theorem provPass1_of_conv (idna : Bytes → Option Bytes) : ∀ (l as seen acc : List Bytes),
    convAll idna l = some as →
    provPass1 idna l seen acc =
      if hasDupWith seen (as.map lower) then .dup else .ok (acc.reverse ++ as)
  | [], as, seen, acc, h => by
    simp only [convAll, Option.some.injEq] at h
    subst h
    simp [provPass1, hasDupWith]
  | x :: t, as, seen, acc, h => by
    unfold convAll at h
    cases hx : idna x with
    | none => rw [hx] at h; simp at h
    | some a =>
      cases ht : convAll idna t with
      | none => rw [hx, ht] at h; simp at h
      | some r =>
        rw [hx, ht] at h
        simp only [Option.some.injEq] at h
        subst h
        unfold provPass1
        rw [hx]
        simp only [List.map_cons, hasDupWith]
        cases hs : seen.contains (lower a) with
        | true => simp
        | false =>
          simp only [Bool.false_eq_true, if_false, Bool.false_or]
          rw [provPass1_of_conv idna t r _ _ ht]
          simp

theorem provPass1_ok_conv (idna : Bytes → Option Bytes) : ∀ (l seen acc m : List Bytes),
    provPass1 idna l seen acc = .ok m → ∃ as, convAll idna l = some as
  | [], _, _, _, _ => ⟨[], rfl⟩
  | x :: t, seen, acc, m, h => by
    unfold provPass1 at h
    cases hx : idna x with
    | none => rw [hx] at h; cases h
    | some a =>
      rw [hx] at h
      simp only at h
      split at h
      · cases h
      · rcases provPass1_ok_conv idna t _ _ m h with ⟨r, hr⟩
        exact ⟨a :: r, by unfold convAll; rw [hx, hr]⟩

/-- with every conversion succeeding, Provision is the ASCII-level Provision of the converted list -/
theorem provisionHostI_eq (idna : Bytes → Option Bytes) (thr : Nat) (l as : List Bytes)
    (h : convAll idna l = some as) :
    provisionHostI idna thr l =
      match provisionHost thr as with
      | none => .dup
      | some m => .ok m := by
  unfold provisionHostI provisionHost
  rw [provPass1_of_conv idna l as [] [] h, hasDupWith_nil]
  by_cases hd : hasDup (as.map lower) = true
  · simp [hd]
  · have hd' : hasDup (as.map lower) = false := by simpa using hd
    simp only [hd', Bool.false_eq_true, if_false, List.reverse_nil, List.nil_append]
    split <;> rfl

theorem hostCaseI_eq (idna : Bytes → Option Bytes) (thr : Nat) (l as : List Bytes) (rhost : Bytes)
    (h : convAll idna l = some as) :
    hostCaseI idna thr l rhost =
      match hostCase thr as rhost with
      | .dup => .dup
      | .res b => .res b := by
  unfold hostCaseI hostCase
  rw [provisionHostI_eq idna thr l as h]
  cases provisionHost thr as <;> rfl

theorem convAll_length (idna : Bytes → Option Bytes) : ∀ (l as : List Bytes), convAll idna l = some as → as.length = l.length
  | [], as, h => by simp only [convAll, Option.some.injEq] at h; subst h; rfl
  | x :: t, as, h => by
    unfold convAll at h
    cases hx : idna x with
    | none => rw [hx] at h; simp at h
    | some a =>
      cases ht : convAll idna t with
      | none => rw [hx, ht] at h; simp at h
      | some r =>
        rw [hx, ht] at h
        simp only [Option.some.injEq] at h
        subst h
        simp [convAll_length idna t r ht]

theorem convAll_mem (idna : Bytes → Option Bytes) : ∀ (l as : List Bytes), convAll idna l = some as →
    ∀ a, a ∈ as → ∃ e, e ∈ l ∧ idna e = some a
  | [], as, h, a, ha => by simp only [convAll, Option.some.injEq] at h; subst h; cases ha
  | x :: t, as, h, a, ha => by
    unfold convAll at h
    cases hx : idna x with
    | none => rw [hx] at h; simp at h
    | some b =>
      cases ht : convAll idna t with
      | none => rw [hx, ht] at h; simp at h
      | some r =>
        rw [hx, ht] at h
        simp only [Option.some.injEq] at h
        subst h
        rcases List.mem_cons.mp ha with e | e
        · subst e; exact ⟨x, List.mem_cons_self, hx⟩
        · rcases convAll_mem idna t r ht a e with ⟨y, hy, hy'⟩
          exact ⟨y, List.mem_cons_of_mem _ hy, hy'⟩

end CaddyModel.C06
