/-
C06 — the small account the property talks about: canonical host, canonical path, and the
documented pattern rules on canonical inputs.
-/
import CaddyModel.C06.Model

namespace CaddyModel.C06

/-- the canonical host of a request: port (and IPv6 brackets) removed, ASCII lower case -/
def canonHost (rhost : Bytes) : Bytes := lower (stripPort rhost)

/-- the canonical path of a request: lower case, then cleaned (slashes merged, dot segments
    resolved, trailing slash kept) -/
def canonPath (p : Bytes) : Bytes := cleanPath (lower p)

/-- the canonical path seen by a pattern that contains `//` (empty segments are kept) -/
def canonPathKeepSlashes (p : Bytes) : Bytes := cleanPathMode false (lower p)

/-! ### documented host rules -/

/-- a pattern label matches a (canonical) request label: `*` and the request label is not empty,
    or the same label, case-insensitively -/
def LabelRule (p h : Bytes) : Prop := (p = [cStar] ∧ h ≠ []) ∨ (p ≠ [cStar] ∧ lower p = h)

/-- label lists of the same length, related label by label -/
inductive LabelsRule : List Bytes → List Bytes → Prop
  | nil : LabelsRule [] []
  | cons {p h : Bytes} {ps hs : List Bytes} : LabelRule p h → LabelsRule ps hs → LabelsRule (p :: ps) (h :: hs)

/-- one entry of a host matcher against a canonical host: an entry with a `*` is compared label
    by label (`*` = exactly one label), any other entry must be the host itself -/
def EntryRule (e ch : Bytes) : Prop :=
  if e.contains cStar = true then LabelsRule (splitOn cDot e) (splitOn cDot ch) else lower e = ch

/-- a host matcher matches iff one of its entries does -/
def HostRule (l : List Bytes) (ch : Bytes) : Prop := ∃ e, e ∈ l ∧ EntryRule e ch

/-! ### documented path rules: stated in `Props.lean` for the pattern shapes that are not globs
    (exact, `pre*`, `*suf`, `*mid*`) over patterns made of literal bytes -/

/-- `s` has none of the glob metacharacters `* ? [ \` -/
def plainPat (s : Bytes) : Bool := !s.contains cStar && !s.contains 63 && !s.contains cLBr && !s.contains cBack

end CaddyModel.C06
