/-
C06 — helper lemmas, part 5: the recursion budgets of the `path.Match` / escape-comparator
models are never exhausted; the fast paths and literal patterns are the documented rules.
-/
import CaddyModel.C06.CleanLemmas

namespace CaddyModel.C06

/-! ### fuel -/

theorem getEsc_length {c r : Bytes} {x : UInt8} (h : getEsc c = some (x, r)) : r.length < c.length := by
  unfold getEsc at h
  cases c with
  | nil => cases h
  | cons a rest =>
    simp only at h
    split at h
    · cases h
    · split at h
      · cases rest with
        | nil => cases h
        | cons d rest' =>
          simp only at h
          split at h
          · cases h
          · cases h; simp; omega
      · split at h
        · cases h
        · cases h; simp

theorem classLoop_no_fuel (r : UInt8) : ∀ (fuel : Nat) (chunk : Bytes) (seen mt : Bool),
    chunk.length < fuel → classLoop r fuel chunk seen mt ≠ .fuel
  | 0, _, _, _, h => by omega
  | fuel + 1, chunk, seen, mt, h => by
    unfold classLoop
    split
    · intro e; cases e
    · split
      · intro e; cases e
      · rename_i lo c1 h1
        have l1 := getEsc_length h1
        split
        · split
          · intro e; cases e
          · rename_i hi c2 h2
            have l2 := getEsc_length h2
            have : (c1.drop 1).length ≤ c1.length := by simp
            exact classLoop_no_fuel r fuel c2 _ _ (by omega)
        · exact classLoop_no_fuel r fuel c1 _ _ (by omega)

theorem classLoop_length (r : UInt8) : ∀ (fuel : Nat) (chunk : Bytes) (seen mt : Bool) (m : Bool) (rest : Bytes),
    classLoop r fuel chunk seen mt = .ok m rest → rest.length ≤ chunk.length
  | 0, _, _, _, _, _, h => by simp [classLoop] at h
  | fuel + 1, chunk, seen, mt, m, rest, h => by
    unfold classLoop at h
    split at h
    · cases h; simp
    · split at h
      · cases h
      · rename_i lo c1 h1
        have l1 := getEsc_length h1
        split at h
        · split at h
          · cases h
          · rename_i hi c2 h2
            have l2 := getEsc_length h2
            have : (c1.drop 1).length ≤ c1.length := by simp
            have := classLoop_length r fuel c2 _ _ m rest h
            omega
        · have := classLoop_length r fuel c1 _ _ m rest h
          omega

theorem classBody_length (rest : Bytes) : (classBody rest).length ≤ rest.length := by
  unfold classBody; split <;> simp

theorem matchChunk_no_fuel : ∀ (fuel : Nat) (chunk s : Bytes) (failed : Bool),
    chunk.length ≤ fuel → matchChunk fuel chunk s failed ≠ .fuel
  | _, [], s, failed, _ => by unfold matchChunk; split <;> (intro e; cases e)
  | 0, _ :: _, _, _, h => by simp at h
  | fuel + 1, c :: rest, s, failed, h => by
    simp only [List.length_cons] at h
    unfold matchChunk
    split
    · have hb := classBody_length rest
      split
      · intro e; cases e
      · rename_i hf
        exact absurd hf (classLoop_no_fuel _ _ _ _ _ (by omega))
      · rename_i mt rest' hc
        have := classLoop_length _ _ _ _ _ _ _ hc
        exact matchChunk_no_fuel fuel rest' _ _ (by omega)
    · split
      · exact matchChunk_no_fuel fuel rest _ _ (by omega)
      · split
        · split
          · intro e; cases e
          · rename_i d rest'
            exact matchChunk_no_fuel fuel rest' _ _ (by simp at h; omega)
        · exact matchChunk_no_fuel fuel rest _ _ (by omega)

theorem starSearch_no_fuel (chunk : Bytes) (last : Bool) : ∀ name : Bytes, starSearch chunk last name ≠ .fuel
  | [] => by unfold starSearch; intro e; cases e
  | c :: rest => by
    unfold starSearch
    split
    · intro e; cases e
    · split
      · split
        · exact starSearch_no_fuel chunk last rest
        · intro e; cases e
      · intro e; cases e
      · rename_i hf
        exact absurd hf (matchChunk_no_fuel _ _ _ _ (Nat.le_refl _))
      · exact starSearch_no_fuel chunk last rest

theorem globStar_no_fuel (isStar : Bool) (chunk rest name : Bytes) : globStar isStar chunk rest name ≠ .done .fuel := by
  unfold globStar
  split
  · split
    · intro e; cases e
    · intro e; cases e
    · intro e; cases e
    · rename_i hf; exact absurd hf (starSearch_no_fuel _ _ _)
  · intro e; cases e

theorem globStep_no_fuel (isStar : Bool) (chunk rest name : Bytes) : globStep isStar chunk rest name ≠ .done .fuel := by
  unfold globStep
  split
  · unfold ofBool; split <;> (intro e; cases e)
  · split
    · rename_i hf; exact absurd hf (matchChunk_no_fuel _ _ _ _ (Nat.le_refl _))
    · intro e; cases e
    · split
      · intro e; cases e
      · exact globStar_no_fuel _ _ _ _
    · exact globStar_no_fuel _ _ _ _

theorem dropStars_length : ∀ p : Bytes, (dropStars p).length ≤ p.length
  | [] => by simp [dropStars]
  | x :: xs => by
    unfold dropStars
    split
    · have := dropStars_length xs; simp; omega
    · simp

theorem scanLen_pos (inr : Bool) (x : UInt8) (xs : Bytes) (h : ¬ (x = cStar ∧ inr = false)) :
    0 < scanLen inr (x :: xs) := by
  unfold scanLen
  split
  · split <;> omega
  · split
    · omega
    · split
      · omega
      · first | omega | (rw [if_neg h]; omega)

/-- every `Pattern:` iteration consumes at least one byte of the pattern -/
theorem restOf_length (p : UInt8) (ps : Bytes) : (restOf (p :: ps)).length < (p :: ps).length := by
  unfold restOf
  by_cases hp : p = cStar
  · subst hp
    have h1 : dropStars (cStar :: ps) = dropStars ps := by simp [dropStars]
    rw [h1]
    have := dropStars_length ps
    simp only [List.length_drop, List.length_cons]
    omega
  · have h1 : dropStars (p :: ps) = p :: ps := by simp [dropStars, hp]
    rw [h1]
    have := scanLen_pos false p ps (fun h => hp h.1)
    simp only [List.length_drop, List.length_cons]
    omega

theorem globLoop_no_fuel : ∀ (fuel : Nat) (pattern name : Bytes), pattern.length ≤ fuel →
    globLoop fuel pattern name ≠ .fuel
  | _, [], name, _ => by unfold globLoop; unfold ofBool; split <;> (intro e; cases e)
  | 0, _ :: _, _, h => by simp at h
  | fuel + 1, p :: ps, name, h => by
    unfold globLoop
    split
    · rename_i r hr
      intro e; subst e
      exact globStep_no_fuel _ _ _ _ hr
    · have := restOf_length p ps
      exact globLoop_no_fuel fuel _ _ (by omega)

theorem escLoop_no_fuel : ∀ (fuel : Nat) (pat ep sb : Bytes), pat.length ≤ fuel → escLoop fuel pat ep sb ≠ .fuel
  | _, [], _, _, _ => by unfold escLoop; intro e; cases e
  | _, _ :: _, [], _, _ => by unfold escLoop; intro e; cases e
  | 0, _ :: _, _ :: _, _, h => by simp at h
  | fuel + 1, pc :: prest, ec :: erest, sb, h => by
    simp only [List.length_cons] at h
    have d1 : (prest.drop 1).length ≤ fuel := by simp; omega
    have d2 : (prest.drop 2).length ≤ fuel := by simp; omega
    have d0 : prest.length ≤ fuel := by omega
    unfold escLoop
    repeat' split
    all_goals first
      | (intro e; cases e)
      | exact escLoop_no_fuel fuel _ _ _ d0
      | exact escLoop_no_fuel fuel _ _ _ d1
      | exact escLoop_no_fuel fuel _ _ _ d2

/-! ### prefix / suffix / substring tests are what their names say -/

theorem hasPrefix_iff : ∀ (s pre : Bytes), hasPrefix s pre = true ↔ ∃ rest, s = pre ++ rest
  | s, [] => by cases s <;> simp [hasPrefix]
  | [], _ :: _ => by simp [hasPrefix]
  | x :: xs, p :: ps => by
    simp only [hasPrefix, Bool.and_eq_true, beq_iff_eq, hasPrefix_iff xs ps, List.cons_append, List.cons.injEq]
    constructor
    · rintro ⟨h1, r, h2⟩; exact ⟨r, h1, h2⟩
    · rintro ⟨r, h1, h2⟩; exact ⟨h1, r, h2⟩

theorem hasSuffix_iff (s suf : Bytes) : hasSuffix s suf = true ↔ ∃ front, s = front ++ suf := by
  unfold hasSuffix
  rw [hasPrefix_iff]
  constructor
  · rintro ⟨r, h⟩
    refine ⟨r.reverse, ?_⟩
    have := congrArg List.reverse h
    simpa using this
  · rintro ⟨f, h⟩
    exact ⟨f.reverse, by rw [h]; simp⟩

theorem containsSub_iff : ∀ (s sub : Bytes), containsSub s sub = true ↔ ∃ front back, s = front ++ sub ++ back
  | [], sub => by
    simp only [containsSub, List.isEmpty_iff]
    constructor
    · intro h; subst h; exact ⟨[], [], rfl⟩
    · rintro ⟨f, b, h⟩
      have := congrArg List.length h
      simp at this
      exact List.eq_nil_of_length_eq_zero (by omega)
  | x :: xs, sub => by
    simp only [containsSub, Bool.or_eq_true, hasPrefix_iff, containsSub_iff xs sub]
    constructor
    · rintro (⟨r, h⟩ | ⟨f, b, h⟩)
      · exact ⟨[], r, by simpa using h⟩
      · exact ⟨x :: f, b, by simp [h]⟩
    · rintro ⟨f, b, h⟩
      cases f with
      | nil => exact Or.inl ⟨b, by simpa using h⟩
      | cons y ys =>
        simp only [List.cons_append, List.cons.injEq] at h
        exact Or.inr ⟨ys, b, h.2⟩

/-! ### literal patterns -/

theorem plainPat_cons {c : UInt8} {rest : Bytes} (h : plainPat (c :: rest) = true) :
    (c ≠ cStar ∧ c ≠ 63 ∧ c ≠ cLBr ∧ c ≠ cBack) ∧ plainPat rest = true := by
  unfold plainPat at *
  simp only [List.contains_cons, Bool.and_eq_true, Bool.not_eq_eq_eq_not, Bool.not_true,
    Bool.or_eq_false_iff, beq_eq_false_iff_ne, ne_eq] at h ⊢
  obtain ⟨⟨⟨⟨a1, a2⟩, ⟨b1, b2⟩⟩, ⟨c1, c2⟩⟩, ⟨d1, d2⟩⟩ := h
  exact ⟨⟨fun e => a1 e.symm, fun e => b1 e.symm, fun e => c1 e.symm, fun e => d1 e.symm⟩, ⟨⟨⟨a2, b2⟩, c2⟩, d2⟩⟩

theorem matchChunk_plain : ∀ (chunk s : Bytes) (fuel : Nat) (failed : Bool), plainPat chunk = true →
    chunk.length ≤ fuel →
    matchChunk fuel chunk s failed =
      if failed then .fail else if hasPrefix s chunk then .ok (s.drop chunk.length) else .fail
  | [], s, fuel, failed, _, _ => by
    unfold matchChunk
    cases s <;> cases failed <;> simp [hasPrefix]
  | c :: rest, s, 0, failed, _, h => by simp at h
  | c :: rest, s, fuel + 1, failed, hp, h => by
    obtain ⟨⟨h1, h2, h3, h4⟩, hr⟩ := plainPat_cons hp
    simp only [List.length_cons] at h
    unfold matchChunk
    rw [if_neg h3, if_neg h2, if_neg h4]
    rw [matchChunk_plain rest _ fuel _ hr (by omega)]
    cases failed with
    | true => simp
    | false =>
      cases s with
      | nil => simp [hasPrefix]
      | cons x xs =>
        by_cases hx : x = c
        · subst hx; simp [hasPrefix, adv]
        · have : (x == c) = false := by simpa using hx
          simp [hasPrefix, this, hx]

theorem scanLen_plain : ∀ (pat : Bytes) (inr : Bool), plainPat pat = true → scanLen inr pat = pat.length
  | [], _, _ => rfl
  | c :: rest, inr, hp => by
    obtain ⟨⟨h1, _, h3, h4⟩, hr⟩ := plainPat_cons hp
    unfold scanLen
    rw [if_neg h4, if_neg h3]
    split
    · rw [scanLen_plain rest _ hr]; simp; omega
    · rw [if_neg (fun e => h1 e.1), scanLen_plain rest _ hr]; simp; omega

/-- a pattern without metacharacters matches exactly itself -/
theorem globMatch_plain (pat s : Bytes) (hp : plainPat pat = true) : (globMatch pat s == .yes) = (s == pat) := by
  unfold globMatch
  cases pat with
  | nil =>
    unfold globLoop ofBool
    cases s <;> simp
  | cons p ps =>
    obtain ⟨⟨h1, _, _, _⟩, _⟩ := plainPat_cons hp
    have hds : dropStars (p :: ps) = p :: ps := by simp [dropStars, h1]
    have hc : chunkOf (p :: ps) = p :: ps := by
      unfold chunkOf; rw [hds, scanLen_plain _ _ hp]; simp
    have hr : restOf (p :: ps) = [] := by
      unfold restOf; rw [hds, scanLen_plain _ _ hp]; simp
    have hstar : (p == cStar) = false := by simpa using h1
    unfold globLoop
    rw [hc, hr, hstar]
    unfold globStep
    rw [matchChunk_plain _ _ _ _ hp (Nat.le_refl _)]
    simp only [Bool.false_and, Bool.false_eq_true, if_false, List.isEmpty_nil, Bool.not_true, Bool.or_false]
    by_cases hpre : hasPrefix s (p :: ps) = true
    · rw [if_pos hpre]
      obtain ⟨rest, hrest⟩ := (hasPrefix_iff _ _).mp hpre
      subst hrest
      have hd : (p :: ps ++ rest).drop (p :: ps).length = rest := by
        rw [List.drop_append]; simp
      rw [hd]
      cases rest with
      | nil => simp [globLoop, ofBool]
      | cons r rs =>
        simp only [globStar, List.isEmpty_cons, Bool.false_eq_true, if_false]
        have : ¬ (p :: ps ++ r :: rs) = p :: ps := by
          intro e
          have := congrArg List.length e
          simp at this
        rw [beq_eq_false_iff_ne.mpr this]
        rfl
    · rw [if_neg hpre]
      simp only [globStar, Bool.false_eq_true, if_false]
      have : ¬ s = p :: ps := by
        intro e; subst e
        exact hpre ((hasPrefix_iff _ _).mpr ⟨[], by simp⟩)
      rw [beq_eq_false_iff_ne.mpr this]
      rfl

/-! ### the pattern shapes of MatchPath -/

theorem countByte_append (c : UInt8) (a b : Bytes) : countByte c (a ++ b) = countByte c a + countByte c b := by
  unfold countByte; simp

theorem countByte_zero (c : UInt8) : ∀ s : Bytes, s.contains c = false → countByte c s = 0
  | [], _ => rfl
  | x :: xs, h => by
    simp only [List.contains_cons, Bool.or_eq_false_iff, beq_eq_false_iff_ne, ne_eq] at h
    have ih := countByte_zero c xs h.2
    unfold countByte at *
    have : (x == c) = false := by simp; exact fun e => h.1 e.symm
    simp [this, ih]

theorem plainPat_no_star {s : Bytes} (h : plainPat s = true) : s.contains cStar = false := by
  unfold plainPat at h
  simp only [Bool.and_eq_true, Bool.not_eq_eq_eq_not, Bool.not_true] at h
  exact h.1.1.1

theorem head?_not_star {s : Bytes} (h : s.contains cStar = false) : s.head? ≠ some cStar := by
  cases s with
  | nil => simp
  | cons x xs =>
    simp only [List.contains_cons, Bool.or_eq_false_iff, beq_eq_false_iff_ne, ne_eq] at h
    simp only [List.head?_cons, ne_eq, Option.some.injEq]
    exact fun e => h.1 e.symm

theorem count_star_plain {s : Bytes} (h : plainPat s = true) : countByte cStar s = 0 :=
  countByte_zero _ _ (plainPat_no_star h)

theorem patMatches_exact (lp e pat : Bytes) (hp : plainPat pat = true)
    (h1 : pat.contains cPct = false) (h2 : containsSub pat [cSlash, cSlash] = false) :
    patMatches lp e pat = (cleanPath lp == pat) := by
  have hs : pat ≠ star := by
    intro e; subst e; exact absurd (plainPat_no_star hp) (by decide)
  unfold patMatches
  rw [if_neg hs, h1, h2, count_star_plain hp]
  simp only [Bool.false_eq_true, if_false, Bool.not_false, cleanPathMode, if_true]
  rw [if_neg (by omega), if_neg (by omega), if_neg (by omega)]
  exact globMatch_plain pat _ hp

theorem patMatches_prefix (lp e pre : Bytes) (hp : plainPat pre = true) (hne : pre ≠ [])
    (h1 : (pre ++ [cStar]).contains cPct = false) (h2 : containsSub (pre ++ [cStar]) [cSlash, cSlash] = false) :
    patMatches lp e (pre ++ [cStar]) = hasPrefix (cleanPath lp) pre := by
  have hs : pre ++ [cStar] ≠ star := by
    intro e
    have := congrArg List.length e
    cases pre with
    | nil => exact hne rfl
    | cons x xs => simp [star] at this
  have hcount : countByte cStar (pre ++ [cStar]) = 1 := by
    rw [countByte_append, count_star_plain hp]; rfl
  have hhead : (pre ++ [cStar]).head? ≠ some cStar := by
    cases pre with
    | nil => exact absurd rfl hne
    | cons x xs =>
      have := head?_not_star (plainPat_no_star hp)
      simpa using this
  unfold patMatches
  rw [if_neg hs, h1, h2, hcount]
  simp only [Bool.false_eq_true, if_false, Bool.not_false, cleanPathMode, if_true]
  rw [if_neg (by omega), if_neg (fun h => hhead h.2), if_pos ⟨trivial, by simp⟩]
  simp

theorem patMatches_suffix (lp e suf : Bytes) (hp : plainPat suf = true) (hne : suf ≠ [])
    (h1 : (cStar :: suf).contains cPct = false) (h2 : containsSub (cStar :: suf) [cSlash, cSlash] = false) :
    patMatches lp e (cStar :: suf) = hasSuffix (cleanPath lp) suf := by
  have hs : cStar :: suf ≠ star := by
    intro e
    simp [star] at e
    exact hne e
  have hcount : countByte cStar (cStar :: suf) = 1 := by
    have := countByte_append cStar [cStar] suf
    simp only [List.singleton_append] at this
    rw [this, count_star_plain hp]; rfl
  unfold patMatches
  rw [if_neg hs, h1, h2, hcount]
  simp only [Bool.false_eq_true, if_false, Bool.not_false, cleanPathMode, if_true]
  rw [if_neg (by omega), if_pos ⟨trivial, rfl⟩]
  simp

theorem patMatches_substring (lp e mid : Bytes) (hp : plainPat mid = true)
    (h1 : (cStar :: mid ++ [cStar]).contains cPct = false)
    (h2 : containsSub (cStar :: mid ++ [cStar]) [cSlash, cSlash] = false) :
    patMatches lp e (cStar :: mid ++ [cStar]) = containsSub (cleanPath lp) mid := by
  have hs : cStar :: mid ++ [cStar] ≠ star := by
    intro e
    have := congrArg List.length e
    simp [star] at this
  have hcount : countByte cStar (cStar :: mid ++ [cStar]) = 2 := by
    have := countByte_append cStar [cStar] (mid ++ [cStar])
    simp only [List.singleton_append] at this
    rw [List.cons_append, this, countByte_append, count_star_plain hp]; rfl
  unfold patMatches
  rw [if_neg hs, h1, h2, hcount]
  simp only [Bool.false_eq_true, if_false, Bool.not_false, cleanPathMode, if_true]
  rw [if_pos ⟨trivial, rfl, by rw [getLast?_append_cons]; rfl⟩]
  simp

end CaddyModel.C06
