/-
C06 — helper lemmas, part 9: host matching through the provisioned server (Provision, automatic
HTTPS phase 1, per-request expansion of the visited entries).
-/
import CaddyModel.C06.ElemLemmas

namespace CaddyModel.C06

theorem expand_no_brace (look : Bytes → Bytes) : ∀ (fuel : Nat) (s : Bytes),
    s.contains cBrace = false → expand look fuel s = s
  | 0, _, _ => rfl
  | _ + 1, [], _ => rfl
  | fuel + 1, c :: r, h => by
    simp only [List.contains_cons, Bool.or_eq_false_iff, beq_eq_false_iff_ne, ne_eq] at h
    unfold expand
    rw [if_neg (fun e => h.1 e.symm), expand_no_brace look fuel r h.2]

/-- the replacer leaves exact entries alone -/
theorem expand_exact (look : Bytes → Bytes) (e : Bytes) (hf : fuzzy e = false) :
    expand look e.length e = e := by
  unfold fuzzy at hf
  simp only [Bool.or_eq_false_iff] at hf
  exact expand_no_brace look _ e hf.1

theorem hostLoopX_small (f : Bytes → Bytes) (h : Bytes) : ∀ m : List Bytes,
    hostLoopX f false h m = m.any (fun e => entryMatches h (f e))
  | [] => rfl
  | e :: es => by simp [hostLoopX, hostLoopX_small f h es]

theorem hostLoopX_large (f : Bytes → Bytes) (h : Bytes) : ∀ m : List Bytes, Sorted m →
    hostLoopX f true h m = m.any (fun e => fuzzy e && entryMatches h (f e))
  | [], _ => rfl
  | e :: es, hs => by
    unfold Sorted at hs
    rw [List.pairwise_cons] at hs
    unfold hostLoopX
    cases hf : fuzzy e with
    | true =>
      simp only [Bool.not_true, Bool.and_false, Bool.false_eq_true, if_false, List.any_cons, hf, Bool.true_and]
      rw [hostLoopX_large f h es hs.2]
    | false =>
      simp only [Bool.not_false, Bool.and_true, if_true, List.any_cons, hf, Bool.false_and, Bool.false_or]
      symm
      rw [List.any_eq_false]
      intro x hx
      have := hs.1 x hx
      unfold hostLess at this
      cases hfx : fuzzy x with
      | true => simp [hfx, hf] at this
      | false => simp

theorem entryMatches_f_lowerExact (f : Bytes → Bytes) (hf : ∀ e, fuzzy e = false → f e = e) (h e : Bytes) :
    entryMatches h (f (lowerExact e)) = entryMatches h (f e) := by
  cases hfe : fuzzy e with
  | true => simp [lowerExact, hfe]
  | false =>
    have h1 : lowerExact e = lower e := by simp [lowerExact, hfe]
    rw [h1, hf (lower e) (by rw [fuzzy_lower]; exact hfe), hf e hfe]
    rw [entryMatches_exact h (lower e) (by rw [fuzzy_lower]; exact hfe), entryMatches_exact h e hfe, lower_idem]

/-- **the large-list code path with per-request expansion computes the linear scan of the
    configured list**, for every sorted permutation of the lower-cased entries, provided the
    expansion leaves exact entries alone (it does: they contain no `{`) -/
theorem matchHostX_sorted (f : Bytes → Bytes) (hf : ∀ e, fuzzy e = false → f e = e)
    (thr : Nat) (l m : List Bytes) (rhost : Bytes) (hl : l.length > thr)
    (hperm : m.Perm (l.map lowerExact)) (hs : Sorted m) :
    matchHostX f thr m rhost = l.any (fun e => entryMatches (stripPort rhost) (f e)) := by
  have hlen : m.length > thr := by
    rw [hperm.length_eq, List.length_map]; exact hl
  unfold matchHostX useFast
  simp only [hlen, decide_true, Bool.true_and]
  cases hasc : asciiOnly (stripPort rhost) with
  | false =>
    simp only [Bool.false_and, Bool.false_eq_true, if_false]
    rw [hostLoopX_small, hperm.any_eq, List.any_map]
    apply congrArg (fun g => l.any g)
    funext e
    exact entryMatches_f_lowerExact f hf _ e
  | true =>
  simp only [Bool.true_and]
  rw [hostLoopX_large _ _ _ hs]
  clear hasc
  generalize stripPort rhost = h
  rw [Bool.eq_iff_iff]
  constructor
  · intro hyp
    rw [List.any_eq_true]
    split at hyp
    · rename_i hfast
      rcases (fastHit_iff _ _ hs).mp hfast with ⟨hmem, hfz⟩
      rcases mem_map_lowerExact (hperm.mem_iff.mp hmem) with ⟨e, he, ⟨hfe, hx⟩ | ⟨hfe, hx⟩⟩
      · rw [hx, hfe] at hfz; cases hfz
      · exact ⟨e, he, by rw [hf e hfe, entryMatches_exact h e hfe, hx]; simp⟩
    · rcases List.any_eq_true.mp hyp with ⟨x, hx, hxm⟩
      simp only [Bool.and_eq_true] at hxm
      rcases mem_map_lowerExact (hperm.mem_iff.mp hx) with ⟨e, he, ⟨hfe, hxe⟩ | ⟨hfe, hxe⟩⟩
      · exact ⟨e, he, hxe ▸ hxm.2⟩
      · rw [hxe, fuzzy_lower, hfe] at hxm; cases hxm.1
  · intro hyp
    rcases List.any_eq_true.mp hyp with ⟨e, he, hem⟩
    cases hfe : fuzzy e with
    | true =>
      have hmem : e ∈ m := by
        apply hperm.mem_iff.mpr
        apply List.mem_map.mpr
        exact ⟨e, he, by simp [lowerExact, hfe]⟩
      split
      · rfl
      · exact List.any_eq_true.mpr ⟨e, hmem, by simp [hfe, hem]⟩
    | false =>
      rw [hf e hfe, entryMatches_exact h e hfe] at hem
      have hem : lower h = lower e := by simpa using hem
      have hmem : lower h ∈ m := by
        apply hperm.mem_iff.mpr
        apply List.mem_map.mpr
        exact ⟨e, he, by simp [lowerExact, hfe, hem]⟩
      have : fastHit (m) (lower h) = true :=
        (fastHit_iff _ _ hs).mpr ⟨hmem, by rw [hem, fuzzy_lower, hfe]⟩
      simp [this]

theorem matchHostX_small (f : Bytes → Bytes) (thr : Nat) (l : List Bytes) (rhost : Bytes) (hl : ¬ l.length > thr) :
    matchHostX f thr l rhost = l.any (fun e => entryMatches (stripPort rhost) (f e)) := by
  unfold matchHostX useFast
  simp only [hl, decide_false, Bool.false_and, Bool.false_eq_true, if_false]
  exact hostLoopX_small _ _ _

/-- phase 1 hands back the slice it was given -/
theorem autohttpsHostView_read_only (emptyGlobal : Bytes → Bool) (m m' : List Bytes)
    (h : autohttpsHostView emptyGlobal m = some m') : m' = m := by
  unfold autohttpsHostView at h
  split at h
  · cases h
  · cases h; rfl

theorem keysOf_no_brace : ∀ (fuel : Nat) (s : Bytes), s.contains cBrace = false → keysOf fuel s = []
  | 0, _, _ => rfl
  | _ + 1, [], _ => rfl
  | fuel + 1, c :: r, h => by
    simp only [List.contains_cons, Bool.or_eq_false_iff, beq_eq_false_iff_ne, ne_eq] at h
    unfold keysOf
    rw [if_neg (fun e => h.1 e.symm), keysOf_no_brace fuel r h.2]

/-- whether phase 1 fails does not depend on Provision's rearrangement of the list -/
theorem phase1_fails_perm (emptyGlobal : Bytes → Bool) (l m : List Bytes) (hperm : m.Perm (l.map lowerExact)) :
    m.any (fun e => (keysOf e.length e).any emptyGlobal) = l.any (fun e => (keysOf e.length e).any emptyGlobal) := by
  rw [hperm.any_eq, List.any_map]
  apply congrArg (fun g => l.any g)
  funext e
  cases hfe : fuzzy e with
  | true => simp [lowerExact, hfe]
  | false =>
    have h1 : lowerExact e = lower e := by simp [lowerExact, hfe]
    have hb : e.contains cBrace = false := by
      unfold fuzzy at hfe; simp only [Bool.or_eq_false_iff] at hfe; exact hfe.1
    simp only [Function.comp, h1]
    rw [keysOf_no_brace _ _ (by rw [contains_lower _ nl_brace]; exact hb), keysOf_no_brace _ _ hb]

/-- a duplicate-free list, provisioned, matches like its plain scan — every size, every threshold -/
theorem provisioned_matchX (f : Bytes → Bytes) (hf : ∀ e, fuzzy e = false → f e = e) (thr : Nat)
    (l : List Bytes) (rhost : Bytes) (hnd : hasDup (l.map lower) = false) :
    ∃ m, provisionHost thr l = some m ∧
      matchHostX f thr m rhost = l.any (fun e => entryMatches (stripPort rhost) (f e)) := by
  unfold provisionHost
  rw [hnd]
  simp only [Bool.false_eq_true, if_false]
  by_cases hl : l.length > thr
  · rw [if_pos hl]
    exact ⟨_, rfl, matchHostX_sorted f hf thr l _ rhost hl (sortHosts_perm _) (sortHosts_sorted _)⟩
  · rw [if_neg hl]
    exact ⟨_, rfl, matchHostX_small f thr l rhost hl⟩

theorem dedupCI_spec : ∀ (ds seen : List Bytes),
    ((dedupCI seen ds).map lower).Nodup ∧ ∀ x, x ∈ (dedupCI seen ds).map lower → x ∉ seen
  | [], _ => by simp [dedupCI]
  | d :: ds, seen => by
    unfold dedupCI
    by_cases h : seen.contains (lower d) = true
    · rw [if_pos h]; exact dedupCI_spec ds seen
    · rw [if_neg h]
      have ih := dedupCI_spec ds (lower d :: seen)
      have hns : lower d ∉ seen := by
        intro hm; exact h (List.contains_iff_mem.mpr hm)
      simp only [List.map_cons, List.nodup_cons, List.mem_cons]
      refine ⟨⟨?_, ih.1⟩, ?_⟩
      · intro hm
        exact ih.2 _ hm List.mem_cons_self
      · intro x hx
        rcases hx with hx | hx
        · subst hx; exact hns
        · intro hs; exact ih.2 x hx (List.mem_cons_of_mem _ hs)

theorem dedupCI_no_dup (ds : List Bytes) : hasDup ((dedupCI [] ds).map lower) = false := by
  rw [Bool.eq_false_iff, Ne, hasDup_iff, Classical.not_not]
  exact (dedupCI_spec ds []).1

end CaddyModel.C06
