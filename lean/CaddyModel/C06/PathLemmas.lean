/-
C06 — helper lemmas, part 3: `path.Clean` as a segment machine, `cleanPath`, `MatchPath`.
-/
import CaddyModel.C06.HostLemmas

namespace CaddyModel.C06

/-! ### Split / Join -/

theorem splitOn_ne_nil (c : UInt8) : ∀ s : Bytes, splitOn c s ≠ []
  | [] => by simp [splitOn]
  | x :: xs => by
    unfold splitOn
    split
    · simp
    · have := splitOn_ne_nil c xs
      cases h : splitOn c xs with
      | nil => exact absurd h this
      | cons a as => simp [consHead]

theorem consHead_append (x : UInt8) (l l' : List Bytes) (h : l ≠ []) :
    consHead x (l ++ l') = consHead x l ++ l' := by
  cases l with
  | nil => exact absurd rfl h
  | cons a as => rfl

/-- splitting at a separator splits the list of pieces -/
theorem splitOn_append_sep (c : UInt8) (b : Bytes) : ∀ a : Bytes,
    splitOn c (a ++ c :: b) = splitOn c a ++ splitOn c b
  | [] => by simp [splitOn]
  | x :: xs => by
    simp only [List.cons_append, splitOn]
    split
    · rw [splitOn_append_sep c b xs]; rfl
    · rw [splitOn_append_sep c b xs, consHead_append _ _ _ (splitOn_ne_nil c xs)]

theorem splitOn_of_not_mem (c : UInt8) : ∀ s : Bytes, s.contains c = false → splitOn c s = [s]
  | [], _ => rfl
  | x :: xs, h => by
    simp only [List.contains_cons, Bool.or_eq_false_iff, beq_eq_false_iff_ne, ne_eq] at h
    simp only [splitOn]
    rw [if_neg (fun e => h.1 e.symm), splitOn_of_not_mem c xs h.2]
    rfl

theorem splitOn_joinSep (c : UInt8) : ∀ segs : List Bytes, segs ≠ [] →
    (∀ s, s ∈ segs → s.contains c = false) → splitOn c (joinSep c segs) = segs
  | [], h, _ => absurd rfl h
  | [s], _, hs => by
    simp only [joinSep]
    exact splitOn_of_not_mem c s (hs s (List.mem_singleton.mpr rfl))
  | s :: t :: ss, _, hs => by
    simp only [joinSep]
    rw [splitOn_append_sep, splitOn_of_not_mem c s (hs s List.mem_cons_self),
      splitOn_joinSep c (t :: ss) (by simp) (fun x hx => hs x (List.mem_cons_of_mem _ hx))]
    rfl

theorem mem_splitOn_not_contains (c : UInt8) : ∀ (s : Bytes) (seg : Bytes), seg ∈ splitOn c s → seg.contains c = false
  | [], seg, h => by
    simp only [splitOn, List.mem_singleton] at h; subst h; rfl
  | x :: xs, seg, h => by
    simp only [splitOn] at h
    split at h
    · rcases List.mem_cons.mp h with h | h
      · subst h; rfl
      · exact mem_splitOn_not_contains c xs seg h
    · rename_i hx
      cases hsp : splitOn c xs with
      | nil => exact absurd hsp (splitOn_ne_nil c xs)
      | cons a as =>
        rw [hsp] at h
        simp only [consHead] at h
        rcases List.mem_cons.mp h with h | h
        · subst h
          have := mem_splitOn_not_contains c xs a (by rw [hsp]; exact List.mem_cons_self)
          simp only [List.contains_cons, this, Bool.or_false, beq_eq_false_iff_ne, ne_eq]
          exact fun e => hx e.symm
        · exact mem_splitOn_not_contains c xs seg (by rw [hsp]; exact List.mem_cons_of_mem _ h)

/-! ### the segment machine -/

/-- a segment that may sit on the output stack -/
def SegOk (t : Bytes) : Prop := t ≠ [] ∧ t ≠ dot ∧ t.contains cSlash = false

/-- invariant of the output stack (last segment first): kept segments are non-empty, not `.`,
    slash-free; a `..` only survives in a relative path, at the bottom or on another `..` -/
def okSt (r : Bool) : List Bytes → Prop
  | [] => True
  | t :: rest => SegOk t ∧ okSt r rest ∧ (t = dotdot → r = false ∧ (rest = [] ∨ rest.head? = some dotdot))

theorem segOk_dotdot : SegOk dotdot := by
  refine ⟨by decide, by decide, by decide⟩

theorem okSt_step (r : Bool) (st : List Bytes) (seg : Bytes) (hst : okSt r st)
    (hseg : seg.contains cSlash = false) : okSt r (cleanStep r st seg) := by
  unfold cleanStep
  split
  · exact hst
  · rename_i h1
    split
    · cases st with
      | nil =>
        simp only
        split
        · trivial
        · rename_i hr
          exact ⟨segOk_dotdot, trivial, fun _ => ⟨by simpa using hr, Or.inl rfl⟩⟩
      | cons t rest =>
        simp only
        split
        · rename_i ht
          subst ht
          exact ⟨segOk_dotdot, hst, fun _ => ⟨(hst.2.2 rfl).1, Or.inr rfl⟩⟩
        · exact hst.2.1
    · rename_i h2
      refine ⟨⟨fun e => h1 (Or.inl e), fun e => h1 (Or.inr e), hseg⟩, hst, fun e => absurd e h2⟩

theorem okSt_foldl (r : Bool) : ∀ (segs : List Bytes) (st : List Bytes), okSt r st →
    (∀ s, s ∈ segs → s.contains cSlash = false) → okSt r (segs.foldl (cleanStep r) st)
  | [], _, h, _ => h
  | s :: ss, st, h, hs =>
    okSt_foldl r ss _ (okSt_step r st s h (hs s List.mem_cons_self)) (fun x hx => hs x (List.mem_cons_of_mem _ hx))

/-- replaying a clean stack reproduces it -/
theorem replay (r : Bool) : ∀ st : List Bytes, okSt r st → st.reverse.foldl (cleanStep r) [] = st
  | [], _ => rfl
  | t :: rest, h => by
    rw [List.reverse_cons, List.foldl_append, replay r rest h.2.1]
    simp only [List.foldl_cons, List.foldl_nil]
    unfold cleanStep
    rw [if_neg (fun e => e.elim h.1.1 h.1.2.1)]
    split
    · rename_i ht
      rcases h.2.2 ht with ⟨hr, hrest | hrest⟩
      · subst hrest; simp [hr, ht]
      · cases rest with
        | nil => simp at hrest
        | cons t' r' =>
          simp only [List.head?_cons, Option.some.injEq] at hrest
          simp [hrest, ht]
    · rfl

theorem okSt_mem (r : Bool) : ∀ (st : List Bytes) (s : Bytes), okSt r st → s ∈ st → SegOk s
  | t :: rest, s, h, hs => by
    rcases List.mem_cons.mp hs with e | e
    · subst e; exact h.1
    · exact okSt_mem r rest s h.2.1 e

/-! ### idempotence of path.Clean -/

theorem joinSep_head (c : UInt8) : ∀ (segs : List Bytes) (s : Bytes), (s :: segs) ≠ [] → s ≠ [] →
    (joinSep c (s :: segs)).head? = s.head?
  | [], s, _, hs => by simp [joinSep]
  | t :: ss, s, _, hs => by
    cases s with
    | nil => exact absurd rfl hs
    | cons x xs => simp [joinSep]

theorem pathClean_ne_nil (p : Bytes) : pathClean p ≠ [] := by
  unfold pathClean
  split
  · decide
  · unfold renderClean
    split
    · simp
    · split
      · decide
      · rename_i h
        cases hc : cleanSegs (isRooted p) (splitOn cSlash p) with
        | nil => exact absurd hc h
        | cons s ss =>
          intro e
          have hok : okSt (isRooted p) ((splitOn cSlash p).foldl (cleanStep (isRooted p)) []) :=
            okSt_foldl _ _ _ trivial (mem_splitOn_not_contains cSlash p)
          have hs : SegOk s := by
            apply okSt_mem _ _ s hok
            have : s ∈ cleanSegs (isRooted p) (splitOn cSlash p) := by rw [hc]; exact List.mem_cons_self
            unfold cleanSegs at this
            exact List.mem_reverse.mp this
          have := joinSep_head cSlash ss s (by simp) hs.1
          rw [e] at this
          cases s with
          | nil => exact hs.1 rfl
          | cons x xs => simp at this

/-- the segments `path.Clean` outputs, replayed through `path.Clean`, stay as they are -/
theorem cleanSegs_fixed (r : Bool) (segs : List Bytes) (h : ∀ s, s ∈ segs → s.contains cSlash = false) :
    cleanSegs r (cleanSegs r segs) = cleanSegs r segs := by
  unfold cleanSegs
  rw [replay r _ (okSt_foldl r segs [] trivial h)]

theorem cleanSegs_nil_cons (r : Bool) (segs : List Bytes) : cleanSegs r ([] :: segs) = cleanSegs r segs := by
  unfold cleanSegs
  simp [cleanStep]

theorem pathClean_idem (p : Bytes) : pathClean (pathClean p) = pathClean p := by
  by_cases hp : p = []
  · subst hp; decide
  have hne := pathClean_ne_nil p
  have hseg := mem_splitOn_not_contains cSlash p
  have hok : okSt (isRooted p) ((splitOn cSlash p).foldl (cleanStep (isRooted p)) []) :=
    okSt_foldl _ _ _ trivial hseg
  have hmem : ∀ s, s ∈ cleanSegs (isRooted p) (splitOn cSlash p) → SegOk s := by
    intro s hs
    unfold cleanSegs at hs
    exact okSt_mem _ _ s hok (List.mem_reverse.mp hs)
  generalize hq : pathClean p = q at *
  unfold pathClean at hq
  rw [if_neg hp] at hq
  unfold renderClean at hq
  unfold pathClean
  rw [if_neg hne]
  cases hr : isRooted p with
  | true =>
    rw [hr] at hq hmem
    simp only [if_true] at hq
    have hrq : isRooted q = true := by rw [← hq]; rfl
    rw [hrq]
    cases hc : cleanSegs true (splitOn cSlash p) with
    | nil =>
      rw [hc] at hq
      rw [← hq]; decide
    | cons s ss =>
      rw [hc] at hq hmem
      have hsp : splitOn cSlash q = [] :: (s :: ss) := by
        rw [← hq]
        simp only [splitOn, if_true]
        rw [splitOn_joinSep cSlash (s :: ss) (by simp) (fun x hx => (hmem x hx).2.2)]
      rw [hsp, cleanSegs_nil_cons, ← hc, cleanSegs_fixed true _ hseg, hc, ← hq]
      simp [renderClean]
  | false =>
    rw [hr] at hq hmem
    simp only [Bool.false_eq_true, if_false] at hq
    cases hc : cleanSegs false (splitOn cSlash p) with
    | nil =>
      rw [hc] at hq
      simp only [if_true] at hq
      rw [← hq]; decide
    | cons s ss =>
      rw [hc] at hq hmem
      rw [if_neg (by simp)] at hq
      have hs : SegOk s := hmem s List.mem_cons_self
      have hrq : isRooted q = false := by
        rw [← hq]
        unfold isRooted
        rw [joinSep_head cSlash ss s (by simp) hs.1]
        cases s with
        | nil => exact absurd rfl hs.1
        | cons x xs =>
          have := hs.2.2
          simp only [List.contains_cons, Bool.or_eq_false_iff, beq_eq_false_iff_ne, ne_eq] at this
          simp only [List.head?_cons, beq_eq_false_iff_ne, ne_eq, Option.some.injEq]
          exact fun e => this.1 e.symm
      rw [hrq]
      have hsp : splitOn cSlash q = s :: ss := by
        rw [← hq]
        exact splitOn_joinSep cSlash (s :: ss) (by simp) (fun x hx => (hmem x hx).2.2)
      rw [hsp, ← hc, cleanSegs_fixed false _ hseg, hc, ← hq]
      simp [renderClean]

/-! ### the three path re-spellings leave `cleanPath` unchanged -/

/-- a run of segments that `path.Clean` consumes without trace -/
def Neutral (ms : List Bytes) : Prop := ∀ (r : Bool) (st : List Bytes), ms.foldl (cleanStep r) st = st

theorem neutral_empty : Neutral [[]] := by
  intro r st; simp [cleanStep]

theorem neutral_dot : Neutral [dot] := by
  intro r st; simp [cleanStep]

/-- a segment that is kept by `path.Clean` -/
def normalSeg (x : Bytes) : Bool := x != [] && x != dot && x != dotdot && !x.contains cSlash

theorem neutral_dotdot (x : Bytes) (hx : normalSeg x = true) : Neutral [x, dotdot] := by
  unfold normalSeg at hx
  simp only [Bool.and_eq_true, bne_iff_ne, ne_eq, Bool.not_eq_eq_eq_not, Bool.not_true] at hx
  intro r st
  simp only [List.foldl_cons, List.foldl_nil]
  have h1 : cleanStep r st x = x :: st := by
    unfold cleanStep
    rw [if_neg (fun e => e.elim hx.1.1.1 hx.1.1.2), if_neg hx.1.2]
  rw [h1]
  unfold cleanStep
  rw [if_neg (by decide), if_pos rfl]
  simp only
  rw [if_neg hx.1.2]

theorem isRooted_append_sep (a rest : Bytes) : isRooted (a ++ cSlash :: rest) = (a == [] || isRooted a) := by
  cases a with
  | nil => rfl
  | cons x xs => rfl

theorem getLast?_append_cons (a : Bytes) (c : UInt8) (b : Bytes) : (a ++ c :: b).getLast? = (c :: b).getLast? := by
  rw [List.getLast?_append]
  cases h : (c :: b).getLast? with
  | none => simp at h
  | some x => rfl

theorem endsWithSlash_insert (a m b : Bytes) :
    endsWithSlash (a ++ cSlash :: (m ++ cSlash :: b)) = endsWithSlash (a ++ cSlash :: b) := by
  unfold endsWithSlash
  rw [getLast?_append_cons, getLast?_append_cons]
  have : cSlash :: (m ++ cSlash :: b) = (cSlash :: m) ++ cSlash :: b := rfl
  rw [this, getLast?_append_cons]

/-- inserting, at a slash, segments that are consumed without trace changes nothing -/
theorem pathClean_insert (a b : Bytes) (ms : List Bytes) (hms : ms ≠ [])
    (hsl : ∀ s, s ∈ ms → s.contains cSlash = false) (hn : Neutral ms) :
    pathClean (a ++ cSlash :: (joinSep cSlash ms ++ cSlash :: b)) = pathClean (a ++ cSlash :: b) := by
  unfold pathClean
  rw [if_neg (by simp), if_neg (by simp)]
  rw [isRooted_append_sep, isRooted_append_sep]
  congr 1
  unfold cleanSegs
  congr 1
  rw [splitOn_append_sep, splitOn_append_sep, splitOn_append_sep, splitOn_joinSep cSlash ms hms hsl]
  rw [List.foldl_append, List.foldl_append, List.foldl_append, hn]

theorem cleanPath_insert (a b : Bytes) (ms : List Bytes) (hms : ms ≠ [])
    (hsl : ∀ s, s ∈ ms → s.contains cSlash = false) (hn : Neutral ms) :
    cleanPath (a ++ cSlash :: (joinSep cSlash ms ++ cSlash :: b)) = cleanPath (a ++ cSlash :: b) := by
  unfold cleanPath
  rw [pathClean_insert a b ms hms hsl hn, endsWithSlash_insert]

/-! ### MatchPath: Provision, order, size -/

theorem lower_star : lower star = star := by decide

theorem patMatches_star (lp esc : Bytes) : patMatches lp esc star = true := by
  unfold patMatches; rw [if_pos rfl]

theorem provTail_snd : ∀ ps : List Bytes, (provTail ps).2 = ps.contains star
  | [] => rfl
  | p :: ps => by
    unfold provTail
    by_cases h : p = star
    · simp [h]
    · rw [if_neg h]
      simp only [List.contains_cons, provTail_snd ps]
      have : (star == p) = false := by simp; exact fun e => h e.symm
      rw [this]; rfl

theorem provTail_fst_any (f : Bytes → Bool) : ∀ ps : List Bytes, ps.contains star = false →
    (provTail ps).1 = ps.map lower
  | [], _ => rfl
  | p :: ps, h => by
    simp only [List.contains_cons, Bool.or_eq_false_iff, beq_eq_false_iff_ne, ne_eq] at h
    unfold provTail
    rw [if_neg (fun e => h.1 e.symm)]
    simp [provTail_fst_any f ps h.2]

/-- Provision + Match = "some pattern, lower-cased, matches"; the `*` shuffle of Provision is invisible -/
theorem pathCase_eq_any (l : List Bytes) (p e : Bytes) :
    pathCase l p e = l.any (fun pat => patMatches (lower p) e (lower pat)) := by
  unfold pathCase matchPath
  cases l with
  | nil => rfl
  | cons p0 ps =>
    simp only [provisionPath]
    rw [provTail_snd]
    cases hc : ps.contains star with
    | true =>
      simp only [if_true, List.any_cons, patMatches_star, Bool.true_or]
      symm
      have : (ps.any fun pat => patMatches (lower p) e (lower pat)) = true := by
        rw [List.any_eq_true]
        refine ⟨star, List.contains_iff_mem.mp hc, ?_⟩
        rw [lower_star]; exact patMatches_star _ _
      rw [this, Bool.or_true]
    | false =>
      simp only [Bool.false_eq_true, if_false, List.any_cons]
      rw [provTail_fst_any (fun _ => true) ps hc, List.any_map]
      rfl

theorem any_congr_mem {α : Type} : ∀ {l : List α} {f g : α → Bool}, (∀ x, x ∈ l → f x = g x) → l.any f = l.any g
  | [], _, _, _ => rfl
  | x :: xs, f, g, h => by
    simp only [List.any_cons]
    rw [h x List.mem_cons_self, any_congr_mem (fun y hy => h y (List.mem_cons_of_mem _ hy))]

theorem hasPrefix_lower : ∀ (s sub : Bytes), (∀ c, c ∈ sub → NonLetter c) → hasPrefix (lower s) sub = hasPrefix s sub
  | _, [], _ => by simp [hasPrefix]
  | [], _ :: _, _ => by simp [hasPrefix, lower]
  | x :: xs, c :: cs, h => by
    have ih := hasPrefix_lower xs cs (fun d hd => h d (List.mem_cons_of_mem _ hd))
    have hc := h c List.mem_cons_self
    have := lowerByte_eq_iff x c hc.1 hc.2
    unfold lower at *
    simp only [List.map_cons, hasPrefix, ih]
    congr 1
    rw [Bool.eq_iff_iff]
    simp only [beq_iff_eq]
    exact this

theorem containsSub_lower : ∀ (s sub : Bytes), (∀ c, c ∈ sub → NonLetter c) → containsSub (lower s) sub = containsSub s sub
  | [], _, _ => rfl
  | x :: xs, sub, h => by
    have ih := containsSub_lower xs sub h
    have hp := hasPrefix_lower (x :: xs) sub h
    unfold lower at *
    simp only [List.map_cons, containsSub] at *
    rw [ih, hp]

/-! ### the mode that keeps empty segments (`CleanPath(p, false)`) -/

/-- the `p[i-1] == '/'` of the next iteration -/
def lastSlash (s : Bool) (a : Bytes) : Bool :=
  match a.getLast? with
  | none => s
  | some c => c == cSlash

theorem lastSlash_cons (s : Bool) (x : UInt8) (xs : Bytes) : lastSlash s (x :: xs) = lastSlash (x == cSlash) xs := by
  unfold lastSlash
  cases xs with
  | nil => rfl
  | cons y ys =>
    rw [List.getLast?_cons_cons]
    cases h : (y :: ys).getLast? with
    | none => simp at h
    | some c => rfl

theorem expandSlashes_append : ∀ (a : Bytes) (s : Bool) (b : Bytes),
    expandSlashes s (a ++ b) = expandSlashes s a ++ expandSlashes (lastSlash s a) b
  | [], s, b => rfl
  | x :: xs, s, b => by
    rw [lastSlash_cons]
    simp only [List.cons_append, expandSlashes]
    split
    · rename_i h
      have : (x == cSlash) = true := by simp [h.1]
      rw [this, expandSlashes_append xs true b]
      rfl
    · rw [expandSlashes_append xs (x == cSlash) b]
      rfl

theorem expandSlashes_no_slash : ∀ (x : Bytes) (s : Bool), x.contains cSlash = false → expandSlashes s x = x
  | [], _, _ => rfl
  | c :: cs, s, h => by
    simp only [List.contains_cons, Bool.or_eq_false_iff, beq_eq_false_iff_ne, ne_eq] at h
    have hc : ¬ c = cSlash := fun e => h.1 e.symm
    simp only [expandSlashes]
    rw [if_neg (fun e => hc e.1), expandSlashes_no_slash cs _ h.2]

theorem lastSlash_no_slash (x : Bytes) (s : Bool) (hx : x ≠ []) (h : x.contains cSlash = false) :
    lastSlash s x = false := by
  unfold lastSlash
  cases hl : x.getLast? with
  | none => simp at hl; exact absurd hl hx
  | some c =>
    simp only [beq_eq_false_iff_ne, ne_eq]
    intro e
    subst e
    have := List.mem_of_getLast? hl
    rw [← List.contains_iff_mem, h] at this
    cases this

/-- a run of bytes in which `CleanPath(·, false)` has nothing to mark -/
def Inert (m : Bytes) : Prop := expandSlashes true m = m ∧ lastSlash true m = false

theorem inert_dot : Inert dot := by
  constructor <;> decide

theorem inert_seg_dotdot (x : Bytes) (hx : normalSeg x = true) : Inert (x ++ cSlash :: dotdot) := by
  unfold normalSeg at hx
  simp only [Bool.and_eq_true, bne_iff_ne, ne_eq, Bool.not_eq_eq_eq_not, Bool.not_true] at hx
  constructor
  · rw [expandSlashes_append, expandSlashes_no_slash x _ hx.2, lastSlash_no_slash x _ hx.1.1.1 hx.2]
    rfl
  · unfold lastSlash
    rw [getLast?_append_cons]
    rfl

theorem cleanPathMode_insert (mode : Bool) (a b : Bytes) (ms : List Bytes) (hms : ms ≠ [])
    (hsl : ∀ s, s ∈ ms → s.contains cSlash = false) (hn : Neutral ms) (hi : Inert (joinSep cSlash ms)) :
    cleanPathMode mode (a ++ cSlash :: (joinSep cSlash ms ++ cSlash :: b)) = cleanPathMode mode (a ++ cSlash :: b) := by
  unfold cleanPathMode
  cases mode with
  | true => simp only [if_true]; exact cleanPath_insert a b ms hms hsl hn
  | false =>
    simp only [Bool.false_eq_true, if_false]
    congr 1
    have e1 : ∀ rest : Bytes, expandSlashes false (a ++ cSlash :: rest) =
        (expandSlashes false a ++ (if lastSlash false a then [255] else [])) ++ cSlash :: expandSlashes true rest := by
      intro rest
      rw [expandSlashes_append]
      simp only [expandSlashes]
      cases lastSlash false a <;> simp
    rw [e1, e1, expandSlashes_append, hi.1, hi.2]
    simp only [expandSlashes, Bool.false_eq_true, and_false, if_false]
    have : (cSlash == cSlash) = true := by decide
    rw [this]
    exact cleanPath_insert _ _ ms hms hsl hn

theorem lower_cons (x : UInt8) (xs : Bytes) : lower (x :: xs) = lowerByte x :: lower xs := rfl

end CaddyModel.C06
