/-
C06 — helper lemmas, part 2: `net.SplitHostPort`, canonical host, documented host rules.
-/
import CaddyModel.C06.Lemmas
import CaddyModel.C06.Spec

namespace CaddyModel.C06

/-! ### duplicates -/

theorem hasDup_iff : ∀ l : List Bytes, hasDup l = true ↔ ¬ l.Nodup
  | [] => by simp [hasDup]
  | x :: xs => by
    simp only [hasDup, Bool.or_eq_true, List.contains_iff_mem, List.nodup_cons, hasDup_iff xs]
    constructor
    · rintro (h | h)
      · exact fun hh => hh.1 h
      · exact fun hh => h hh.2
    · intro h
      by_cases hx : x ∈ xs
      · exact Or.inl hx
      · exact Or.inr (fun hn => h ⟨hx, hn⟩)

theorem hasDup_perm {l l' : List Bytes} (h : l.Perm l') : hasDup l = hasDup l' := by
  rw [Bool.eq_iff_iff, hasDup_iff, hasDup_iff, h.nodup_iff]

/-! ### lower commutes with everything SplitHostPort looks at -/

theorem lastIndexOf_lower (c : UInt8) (hc : NonLetter c) : ∀ s : Bytes, lastIndexOf c (lower s) = lastIndexOf c s
  | [] => rfl
  | x :: xs => by
    have ih := lastIndexOf_lower c hc xs
    unfold lower at *
    have := lowerByte_eq_iff x c hc.1 hc.2
    simp only [List.map_cons, lastIndexOf, ih, this]

theorem indexOf_lower (c : UInt8) (hc : NonLetter c) : ∀ s : Bytes, indexOf c (lower s) = indexOf c s
  | [] => rfl
  | x :: xs => by
    have ih := indexOf_lower c hc xs
    unfold lower at *
    have := lowerByte_eq_iff x c hc.1 hc.2
    simp only [List.map_cons, indexOf, ih, this]

theorem head_lower_eq (c : UInt8) (hc : NonLetter c) (s : Bytes) :
    ((lower s).head? = some c) ↔ (s.head? = some c) := by
  cases s with
  | nil => simp [lower]
  | cons x xs =>
    simp only [lower, List.map_cons, List.head?_cons, Option.some.injEq]
    exact lowerByte_eq_iff x c hc.1 hc.2

theorem lower_take (n : Nat) (s : Bytes) : lower (s.take n) = (lower s).take n := by
  unfold lower; rw [List.map_take]

theorem lower_drop (n : Nat) (s : Bytes) : lower (s.drop n) = (lower s).drop n := by
  unfold lower; rw [List.map_drop]

theorem lower_reverse (s : Bytes) : lower s.reverse = (lower s).reverse := by
  unfold lower; rw [List.map_reverse]

theorem lower_append (a b : Bytes) : lower (a ++ b) = lower a ++ lower b := by
  unfold lower; rw [List.map_append]

theorem trimPrefixByte_lower (c : UInt8) (hc : NonLetter c) (s : Bytes) :
    trimPrefixByte c (lower s) = lower (trimPrefixByte c s) := by
  cases s with
  | nil => rfl
  | cons x xs =>
    have := lowerByte_eq_iff x c hc.1 hc.2
    simp only [lower, List.map_cons, trimPrefixByte, this]
    split <;> rfl

theorem trimBrackets_lower (s : Bytes) : trimBrackets (lower s) = lower (trimBrackets s) := by
  unfold trimBrackets
  rw [trimPrefixByte_lower _ nl_lbr, ← lower_reverse, trimPrefixByte_lower _ nl_rbr, ← lower_reverse]

theorem splitHostPort_lower (s : Bytes) : splitHostPort (lower s) = (splitHostPort s).map lower := by
  unfold splitHostPort
  rw [lastIndexOf_lower _ nl_colon, indexOf_lower _ nl_rbr]
  cases lastIndexOf cColon s with
  | none => rfl
  | some i =>
    simp only
    have hh := head_lower_eq cLBr nl_lbr s
    by_cases h : s.head? = some cLBr
    · rw [if_pos h, if_pos (hh.mpr h)]
      cases indexOf cRBr s with
      | none => rfl
      | some e =>
        simp only
        rw [← lower_drop, ← lower_drop, contains_lower _ nl_lbr, contains_lower _ nl_rbr,
          ← lower_take, ← lower_drop]
        split
        · split <;> rfl
        · rfl
    · rw [if_neg h, if_neg (fun e => h (hh.mp e))]
      rw [← lower_take, contains_lower _ nl_colon, contains_lower _ nl_lbr, contains_lower _ nl_rbr]
      split
      · rfl
      · split <;> rfl

/-- the canonical host can be computed from the lower-cased `Host` value -/
theorem stripPort_lower (s : Bytes) : stripPort (lower s) = lower (stripPort s) := by
  unfold stripPort
  rw [splitHostPort_lower]
  cases splitHostPort s with
  | none => exact trimBrackets_lower s
  | some h => rfl

theorem canonHost_of_lower_eq {h h' : Bytes} (e : lower h = lower h') : canonHost h = canonHost h' := by
  unfold canonHost
  rw [← stripPort_lower, ← stripPort_lower, e]

/-! ### an entry looks at the request host only through its lower-case form -/

theorem splitOn_lower (c : UInt8) (hc : NonLetter c) : ∀ s : Bytes, splitOn c (lower s) = (splitOn c s).map lower
  | [] => rfl
  | x :: xs => by
    have ih := splitOn_lower c hc xs
    have := lowerByte_eq_iff x c hc.1 hc.2
    unfold lower at *
    simp only [List.map_cons, splitOn, this, ih]
    split
    · rfl
    · cases splitOn c xs with
      | nil => rfl
      | cons a as => rfl

theorem equalFold_lower_right (p h : Bytes) : equalFold p (lower h) = equalFold p h := by
  unfold equalFold; rw [lower_idem]

theorem labelsMatch_lower : ∀ ps hs : List Bytes, labelsMatch ps (hs.map lower) = labelsMatch ps hs
  | [], [] => rfl
  | [], _ :: _ => rfl
  | _ :: _, [] => rfl
  | p :: ps, h :: hs => by
    have he : (lower h).isEmpty = h.isEmpty := by cases h <;> rfl
    simp only [List.map_cons, labelsMatch, labelMatch, equalFold_lower_right, labelsMatch_lower ps hs, he]

theorem entryMatches_lower (h e : Bytes) : entryMatches (lower h) e = entryMatches h e := by
  unfold entryMatches
  split
  · rw [splitOn_lower _ nl_dot, labelsMatch_lower]
  · unfold equalFold; rw [lower_idem]

/-- Provision + Match in terms of the canonical host -/
theorem hostCase_canon (thr : Nat) (l : List Bytes) (rhost : Bytes) :
    hostCase thr l rhost =
      if hasDup (l.map lower) then .dup else .res (l.any (entryMatches (canonHost rhost))) := by
  rw [hostCase_eq]
  unfold canonHost
  have : entryMatches (lower (stripPort rhost)) = entryMatches (stripPort rhost) :=
    funext (entryMatches_lower _)
  rw [this]

/-! ### the loop body is the documented rule -/

theorem labelsMatch_iff : ∀ ps hs : List Bytes, (∀ h, h ∈ hs → lower h = h) →
    (labelsMatch ps hs = true ↔ LabelsRule ps hs)
  | [], [], _ => by simp [labelsMatch]; exact LabelsRule.nil
  | [], _ :: _, _ => by simp [labelsMatch]; intro h; cases h
  | _ :: _, [], _ => by simp [labelsMatch]; intro h; cases h
  | p :: ps, h :: hs, hl => by
    have ih := labelsMatch_iff ps hs (fun x hx => hl x (List.mem_cons_of_mem _ hx))
    have hh : lower h = h := hl h (List.mem_cons_self)
    simp only [labelsMatch, Bool.and_eq_true, ih]
    have key : labelMatch p h = true ↔ LabelRule p h := by
      unfold labelMatch LabelRule
      by_cases hp : p = [cStar]
      · subst hp
        simp only [beq_self_eq_true, if_true, Bool.not_eq_eq_eq_not, Bool.not_true, List.isEmpty_eq_false_iff]
        constructor
        · intro hne; exact Or.inl ⟨trivial, hne⟩
        · rintro (⟨_, hne⟩ | ⟨hne, _⟩)
          · exact hne
          · exact absurd rfl hne
      · have hb : (p == [cStar]) = false := by simpa using hp
        rw [hb]
        simp only [Bool.false_eq_true, if_false]
        unfold equalFold
        rw [hh]
        simp only [beq_iff_eq]
        constructor
        · intro e; exact Or.inr ⟨hp, e⟩
        · rintro (⟨e, _⟩ | ⟨_, e⟩)
          · exact absurd e hp
          · exact e
    constructor
    · intro ⟨h1, h2⟩
      exact LabelsRule.cons (key.mp h1) h2
    · intro hr
      cases hr with
      | cons h1 h2 => exact ⟨key.mpr h1, h2⟩

theorem entryMatches_iff_rule (e ch : Bytes) (hc : lower ch = ch) :
    entryMatches ch e = true ↔ EntryRule e ch := by
  unfold entryMatches EntryRule
  split
  · apply labelsMatch_iff
    intro h hh
    rw [← hc, splitOn_lower _ nl_dot] at hh
    rcases List.mem_map.mp hh with ⟨x, _, hx⟩
    rw [← hx, lower_idem]
  · unfold equalFold
    rw [hc]
    simp only [beq_iff_eq]
    exact ⟨fun h => h.symm, fun h => h.symm⟩

/-! ### adding or removing the port -/

theorem lastIndexOf_none (c : UInt8) : ∀ s : Bytes, s.contains c = false → lastIndexOf c s = none
  | [], _ => rfl
  | x :: xs, h => by
    simp only [List.contains_cons, Bool.or_eq_false_iff, beq_eq_false_iff_ne, ne_eq] at h
    simp only [lastIndexOf, lastIndexOf_none c xs h.2]
    rw [if_neg (fun e => h.1 e.symm)]

theorem lastIndexOf_append (c : UInt8) (p : Bytes) (hp : p.contains c = false) :
    ∀ h : Bytes, lastIndexOf c (h ++ c :: p) = some h.length
  | [] => by simp [lastIndexOf, lastIndexOf_none c p hp]
  | x :: xs => by simp [lastIndexOf, lastIndexOf_append c p hp xs]

theorem lastIndexOf_le (c : UInt8) : ∀ (s : Bytes) (i : Nat), lastIndexOf c s = some i → i < s.length
  | [], _, h => by simp [lastIndexOf] at h
  | x :: xs, i, h => by
    simp only [lastIndexOf] at h
    cases hh : lastIndexOf c xs with
    | some j =>
      rw [hh] at h
      simp only [Option.some.injEq] at h
      have := lastIndexOf_le c xs j hh
      simp only [List.length_cons]; omega
    | none =>
      rw [hh] at h
      simp only at h
      by_cases hx : x = c
      · rw [if_pos hx] at h
        simp only [Option.some.injEq] at h
        subst h; simp
      · rw [if_neg hx] at h; cases h

theorem indexOf_append (c : UInt8) (p : Bytes) :
    ∀ h : Bytes, h.contains c = false → indexOf c (h ++ c :: p) = some h.length
  | [], _ => by simp [indexOf]
  | x :: xs, hh => by
    simp only [List.contains_cons, Bool.or_eq_false_iff, beq_eq_false_iff_ne, ne_eq] at hh
    simp only [List.cons_append, indexOf, indexOf_append c p xs hh.2]
    rw [if_neg (fun e => hh.1 e.symm)]
    simp

theorem trimPrefixByte_of_not_head (c : UInt8) (s : Bytes) (h : s.head? ≠ some c) : trimPrefixByte c s = s := by
  cases s with
  | nil => rfl
  | cons x xs =>
    simp only [List.head?_cons, ne_eq, Option.some.injEq] at h
    simp [trimPrefixByte, h]

theorem head?_of_not_contains (c : UInt8) (s : Bytes) (h : s.contains c = false) : s.head? ≠ some c := by
  cases s with
  | nil => simp
  | cons x xs =>
    simp only [List.contains_cons, Bool.or_eq_false_iff, beq_eq_false_iff_ne, ne_eq] at h
    simp only [List.head?_cons, ne_eq, Option.some.injEq]
    exact fun e => h.1 e.symm

theorem trimBrackets_plain (s : Bytes) (h1 : s.contains cLBr = false) (h2 : s.contains cRBr = false) :
    trimBrackets s = s := by
  unfold trimBrackets
  rw [trimPrefixByte_of_not_head _ _ (head?_of_not_contains _ _ h1)]
  rw [trimPrefixByte_of_not_head _ _ (head?_of_not_contains _ _ (by simpa using h2))]
  simp

theorem trimBrackets_bracketed (s : Bytes) : trimBrackets (cLBr :: s ++ [cRBr]) = s := by
  unfold trimBrackets
  simp [trimPrefixByte]

/-- a host without `:`, `[`, `]` -/
def plainHost (h : Bytes) : Bool := !h.contains cColon && !h.contains cLBr && !h.contains cRBr

theorem stripPort_plain (h : Bytes) (hh : plainHost h = true) : stripPort h = h := by
  unfold plainHost at hh
  simp only [Bool.and_eq_true, Bool.not_eq_eq_eq_not, Bool.not_true] at hh
  unfold stripPort splitHostPort
  rw [lastIndexOf_none _ _ hh.1.1]
  exact trimBrackets_plain h hh.1.2 hh.2

theorem contains_append' (c : UInt8) (a b : Bytes) : (a ++ b).contains c = (a.contains c || b.contains c) := by
  induction a with
  | nil => simp
  | cons x xs ih => simp [Bool.or_assoc]

theorem stripPort_with_port (h p : Bytes) (hh : plainHost h = true) (hp : plainHost p = true) :
    stripPort (h ++ cColon :: p) = h := by
  unfold plainHost at hh hp
  simp only [Bool.and_eq_true, Bool.not_eq_eq_eq_not, Bool.not_true] at hh hp
  unfold stripPort splitHostPort
  rw [lastIndexOf_append _ _ hp.1.1]
  simp only
  have hhead : (h ++ cColon :: p).head? ≠ some cLBr := by
    cases h with
    | nil => simp; decide
    | cons x xs =>
      have := head?_of_not_contains _ _ hh.1.2
      simpa using this
  rw [if_neg hhead]
  have htake : (h ++ cColon :: p).take h.length = h := by simp
  rw [htake, hh.1.1]
  simp only [Bool.false_eq_true, if_false]
  have h1 : (h ++ cColon :: p).contains cLBr = false := by
    rw [contains_append', hh.1.2, List.contains_cons, hp.1.2]; decide
  have h2 : (h ++ cColon :: p).contains cRBr = false := by
    rw [contains_append', hh.2, List.contains_cons, hp.2]; decide
  rw [h1, h2]
  simp

/-- a bracketed (IPv6) host: no brackets inside -/
def bracketFree (h : Bytes) : Bool := !h.contains cLBr && !h.contains cRBr

theorem stripPort_bracketed (h : Bytes) (hh : bracketFree h = true) : stripPort (cLBr :: h ++ [cRBr]) = h := by
  unfold bracketFree at hh
  simp only [Bool.and_eq_true, Bool.not_eq_eq_eq_not, Bool.not_true] at hh
  unfold stripPort splitHostPort
  cases hl : lastIndexOf cColon (cLBr :: h ++ [cRBr]) with
  | none => exact trimBrackets_bracketed h
  | some i =>
    simp only
    have hidx : indexOf cRBr (cLBr :: h ++ [cRBr]) = some (h.length + 1) := by
      have := indexOf_append cRBr [] h hh.2
      simp only [List.cons_append, indexOf]
      rw [if_neg (by decide), this]; rfl
    rw [if_pos (by simp), hidx]
    simp only
    have hi := lastIndexOf_le _ _ _ hl
    have hne : ¬ (h.length + 1 + 1 = i) := by
      simp at hi; omega
    rw [if_neg hne]
    exact trimBrackets_bracketed h

theorem stripPort_bracketed_port (h p : Bytes) (hh : bracketFree h = true) (hp : plainHost p = true) :
    stripPort (cLBr :: h ++ cRBr :: cColon :: p) = h := by
  unfold bracketFree at hh
  unfold plainHost at hp
  simp only [Bool.and_eq_true, Bool.not_eq_eq_eq_not, Bool.not_true] at hh hp
  unfold stripPort splitHostPort
  have hl : lastIndexOf cColon (cLBr :: h ++ cRBr :: cColon :: p) = some (h.length + 2) := by
    have := lastIndexOf_append cColon p hp.1.1 (cLBr :: h ++ [cRBr])
    simp only [List.cons_append, List.append_assoc, List.length_cons,
      List.length_append, List.length_nil] at this
    simpa using this
  have hidx : indexOf cRBr (cLBr :: h ++ cRBr :: cColon :: p) = some (h.length + 1) := by
    have := indexOf_append cRBr (cColon :: p) h hh.2
    simp only [List.cons_append, indexOf]
    rw [if_neg (by decide), this]; rfl
  rw [hl]
  simp only
  rw [if_pos (by simp), hidx]
  simp only [if_true]
  have h1 : ((cLBr :: h ++ cRBr :: cColon :: p).drop 1).contains cLBr = false := by
    simp only [List.cons_append, List.drop_succ_cons, List.drop_zero]
    rw [contains_append', hh.1, List.contains_cons, List.contains_cons, hp.1.2]; decide
  have h2 : ((cLBr :: h ++ cRBr :: cColon :: p).drop (h.length + 1 + 1)).contains cRBr = false := by
    have : (cLBr :: h ++ cRBr :: cColon :: p).drop (h.length + 1 + 1) = cColon :: p := by
      simp only [List.cons_append, List.drop_succ_cons]
      rw [List.drop_append, List.drop_of_length_le (by omega)]
      have : h.length + 1 - h.length = 1 := by omega
      rw [this]; rfl
    rw [this, List.contains_cons, hp.2]; decide
  rw [h1, h2]
  simp only [Bool.or_self, Bool.false_eq_true, if_false]
  have : (cLBr :: h ++ cRBr :: cColon :: p).take (h.length + 1) = cLBr :: h := by
    simp only [List.cons_append, List.take_succ_cons]
    rw [List.take_append_of_le_length (Nat.le_refl _)]
    simp
  rw [this]
  rfl

end CaddyModel.C06
