import CaddyModel.Util.DrvMain
import CaddyModel.C06.Driver

def main (args : List String) : IO Unit :=
  CaddyModel.drvMain "C06" CaddyModel.C06.handle CaddyModel.C06.witnessLines args
