/-
C06 — helper lemmas, part 6: Caddyfile site keys (`ParseAddress` / `Normalize`).
-/
import CaddyModel.C06.GlobLemmas

namespace CaddyModel.C06

/-- `net.SplitHostPort("name:port")` for a name and a port without `:`, `[`, `]` -/
theorem splitHostPort_with_port (h p : Bytes) (hh : plainHost h = true) (hp : plainHost p = true) :
    splitHostPort (h ++ cColon :: p) = some h := by
  unfold plainHost at hh hp
  simp only [Bool.and_eq_true, Bool.not_eq_eq_eq_not, Bool.not_true] at hh hp
  unfold splitHostPort
  rw [lastIndexOf_append _ _ hp.1.1]
  simp only
  have hhead : (h ++ cColon :: p).head? ≠ some cLBr := by
    cases h with
    | nil => simp; decide
    | cons x xs =>
      have := head?_of_not_contains _ _ hh.1.2
      simpa using this
  rw [if_neg hhead]
  have htake : (h ++ cColon :: p).take h.length = h := by simp
  rw [htake, hh.1.1]
  simp only [Bool.false_eq_true, if_false]
  have h1 : (h ++ cColon :: p).contains cLBr = false := by
    rw [contains_append', hh.1.2, List.contains_cons, hp.1.2]; decide
  have h2 : (h ++ cColon :: p).contains cRBr = false := by
    rw [contains_append', hh.2, List.contains_cons, hp.2]; decide
  rw [h1, h2]
  simp

theorem addrHost_with_port (h p : Bytes) (hh : plainHost h = true) (hp : plainHost p = true) :
    addrHost (h ++ cColon :: p) = h := by
  unfold addrHost
  rw [splitHostPort_with_port h p hh hp]

theorem addrHost_plain (h : Bytes) (hh : plainHost h = true) : addrHost h = h := by
  have hc : h.contains cColon = false := by
    unfold plainHost at hh
    simp only [Bool.and_eq_true, Bool.not_eq_eq_eq_not, Bool.not_true] at hh
    exact hh.1.1
  unfold addrHost
  have : splitHostPort h = none := by
    unfold splitHostPort
    rw [lastIndexOf_none _ _ hc]
  rw [this]
  simp only
  rw [splitHostPort_with_port h [] hh (by decide)]

/-- a path part of a site key: empty or starting with `/` -/
def keyPathShape (q : Bytes) : Bool := q.isEmpty || q.head? == some cSlash

theorem takeWhile_to_slash : ∀ (a q : Bytes), a.contains cSlash = false → keyPathShape q = true →
    (a ++ q).takeWhile (· != cSlash) = a ∧ (a ++ q).dropWhile (· != cSlash) = q
  | [], q, _, hq => by
    cases q with
    | nil => exact ⟨rfl, rfl⟩
    | cons x xs =>
      unfold keyPathShape at hq
      simp only [List.isEmpty_cons, List.head?_cons, Bool.false_or, beq_iff_eq, Option.some.injEq] at hq
      subst hq
      constructor
      · simp
      · simp
  | x :: xs, q, ha, hq => by
    simp only [List.contains_cons, Bool.or_eq_false_iff, beq_eq_false_iff_ne, ne_eq] at ha
    have hx : (x != cSlash) = true := by
      simp only [bne_iff_ne, ne_eq]; exact fun e => ha.1 e.symm
    have ih := takeWhile_to_slash xs q ha.2 hq
    simp only [List.cons_append, List.takeWhile, List.dropWhile, hx]
    exact ⟨by rw [ih.1], ih.2⟩

/-- the site key `name[:port][/path]` denotes the host `lower name` and the path `/path` -/
theorem parseSiteKey_name_port (h p q : Bytes) (hh : plainHost h = true) (hp : plainHost p = true)
    (hs : (h ++ cColon :: p).contains cSlash = false) (hq : keyPathShape q = true)
    (hns : hasPrefix (h ++ cColon :: p ++ q) httpScheme = false)
    (hns2 : hasPrefix (h ++ cColon :: p ++ q) httpsScheme = false) :
    parseSiteKey (h ++ cColon :: p ++ q) = (lower h, q) := by
  unfold parseSiteKey dropScheme
  rw [hns, hns2]
  simp only [Bool.false_eq_true, if_false]
  have := takeWhile_to_slash (h ++ cColon :: p) q hs hq
  rw [this.1, this.2, addrHost_with_port h p hh hp]

theorem parseSiteKey_name (h q : Bytes) (hh : plainHost h = true)
    (hs : h.contains cSlash = false) (hq : keyPathShape q = true)
    (hns : hasPrefix (h ++ q) httpScheme = false) (hns2 : hasPrefix (h ++ q) httpsScheme = false) :
    parseSiteKey (h ++ q) = (lower h, q) := by
  unfold parseSiteKey dropScheme
  rw [hns, hns2]
  simp only [Bool.false_eq_true, if_false]
  have := takeWhile_to_slash h q hs hq
  rw [this.1, this.2, addrHost_plain h hh]

end CaddyModel.C06
