/-
C17 — helper lemmas, part 1: how much one loop iteration of `Format` can write, and the
nesting cap (`nesting ≤ 10`, formatter.go:235) that makes that amount finite.
-/
import CaddyModel.C17.Model

namespace CaddyModel.C17

/-- `G k s s'`: going from `s` to `s'` wrote at most `k` runes and kept the nesting cap. -/
def G (k : Nat) (s s' : FState) : Prop :=
  s'.rout.length ≤ s.rout.length + k ∧ s'.nesting ≤ 10

theorem G.mono {k k' : Nat} {s s' : FState} (h : G k s s') (hk : k ≤ k') : G k' s s' :=
  ⟨by have := h.1; omega, h.2⟩

theorem G.trans {a b : Nat} {s s' s'' : FState} (h1 : G a s s') (h2 : G b s' s'') : G (a + b) s s'' :=
  ⟨by have := h1.1; have := h2.1; omega, h2.2⟩

theorem G.refl {s : FState} (h : s.nesting ≤ 10) : G 0 s s := ⟨by omega, h⟩

@[simp] theorem write_rout (s : FState) (c : Rune) : (s.write c).rout = c :: s.rout := rfl
@[simp] theorem write_nesting (s : FState) (c : Rune) : (s.write c).nesting = s.nesting := rfl
@[simp] theorem write_last (s : FState) (c : Rune) : (s.write c).last = c := rfl

theorem tabs_rout (n : Nat) : ∀ s : FState, (s.tabs n).rout = List.replicate n rTAB ++ s.rout := by
  induction n with
  | zero => intro s; rfl
  | succ n ih =>
    intro s
    simp only [FState.tabs, ih, write_rout]
    rw [List.replicate_succ', List.append_assoc]; rfl

theorem tabs_nesting (n : Nat) : ∀ s : FState, (s.tabs n).nesting = s.nesting := by
  induction n with
  | zero => intro s; rfl
  | succ n ih => intro s; simp only [FState.tabs, ih, write_nesting]

theorem nextLines_rout (n : Nat) : ∀ s : FState, (s.nextLines n).rout = List.replicate n rNL ++ s.rout := by
  induction n with
  | zero => intro s; rfl
  | succ n ih =>
    intro s
    simp only [FState.nextLines, ih, FState.nextLine, write_rout]
    rw [List.replicate_succ', List.append_assoc]; rfl

theorem nextLines_nesting (n : Nat) : ∀ s : FState, (s.nextLines n).nesting = s.nesting := by
  induction n with
  | zero => intro s; rfl
  | succ n ih => intro s; simp only [FState.nextLines, ih, FState.nextLine, write_nesting]

theorem G_write {s : FState} (c : Rune) (h : s.nesting ≤ 10) : G 1 s (s.write c) := ⟨by simp, h⟩

theorem G_nextLine {s : FState} (h : s.nesting ≤ 10) : G 1 s s.nextLine := ⟨by simp [FState.nextLine], h⟩

theorem G_indent {s : FState} (h : s.nesting ≤ 10) : G 10 s s.indent := by
  refine ⟨?_, ?_⟩
  · simp only [FState.indent, tabs_rout, List.length_append, List.length_replicate]; omega
  · simp only [FState.indent, tabs_nesting]; exact h

theorem G_nextLines {s : FState} (n : Nat) (h : s.nesting ≤ 10) : G n s (s.nextLines n) := by
  refine ⟨?_, ?_⟩
  · simp only [nextLines_rout, List.length_append, List.length_replicate]; omega
  · simp only [nextLines_nesting]; exact h

/-- a state that differs from `s'` only in flags (same buffer, same nesting) inherits `G` -/
theorem G.flags {k : Nat} {s s' t : FState} (h : G k s s') (hr : t.rout = s'.rout) (hn : t.nesting = s'.nesting) :
    G k s t := ⟨by rw [hr]; exact h.1, by rw [hn]; exact h.2⟩

theorem G_stepWord6 {s : FState} (sp : Bool) (c : Rune) (h : s.nesting ≤ 10) : G 1 s (stepWord6 s sp c) := by
  unfold stepWord6
  exact ⟨by simp, h⟩

theorem G_stepWord5 {s : FState} (sp : Bool) (c : Rune) (h : s.nesting ≤ 10) : G 2 s (stepWord5 s sp c) := by
  unfold stepWord5
  split
  · exact G.trans (s' := { s.write rOpen with openBraceWritten := true }) ⟨by simp, h⟩ (G_stepWord6 sp c h)
  · exact (G_stepWord6 sp c h).mono (by omega)

theorem G_stepWord4 {s : FState} (sp : Bool) (c : Rune) (h : s.nesting ≤ 10) : G 3 s (stepWord4 s sp c) := by
  unfold stepWord4
  split
  · exact G.trans (G_write rSP h) (G_stepWord5 sp c h)
  · exact (G_stepWord5 sp c h).mono (by omega)

theorem G_stepWord3 {s : FState} (sp : Bool) (c : Rune) (h : s.nesting ≤ 10) : G 5 s (stepWord3 s sp c) := by
  unfold stepWord3
  split
  · exact G.trans (G.trans (G_nextLine h) (G_nextLine (s := s.nextLine) h)) (G_stepWord4 sp c h)
  · exact (G_stepWord4 sp c h).mono (by omega)

theorem G_stepWord2 {s : FState} (sp : Bool) (c : Rune) (h : s.nesting ≤ 10) : G 15 s (stepWord2 s sp c) := by
  unfold stepWord2
  split
  · exact G.trans (G_indent h) (G_stepWord3 sp c (G_indent h).2)
  · exact (G_stepWord3 sp c h).mono (by omega)

theorem G_stepWord {s : FState} (sp : Bool) (c : Rune) (h : s.nesting ≤ 10) : G 17 s (stepWord s sp c) := by
  unfold stepWord
  have h1 : G 2 s ({ s.nextLines (min s.newLines 2) with newLines := 0 }) :=
    ((G_nextLines (min s.newLines 2) h).mono (Nat.min_le_right _ _)).flags rfl rfl
  exact G.trans h1 (G_stepWord2 sp c h1.2)

theorem G_flushOpen {s : FState} (h : s.nesting ≤ 10) : G 14 s (flushOpen s) := by
  unfold flushOpen
  have h1 : G 2 s (flush1 s) := by
    unfold flush1
    split
    · exact (G.trans (G_nextLine h) (G_nextLine (s := s.nextLine) h)).flags rfl rfl
    · exact ((G.refl h).mono (by omega)).flags rfl rfl
  have h2 : G 10 (flush1 s) (flush2 (flush1 s)) := by
    unfold flush2
    split
    · exact G_indent h1.2
    · split
      · exact (G_write rSP h1.2).mono (by omega)
      · exact (G.refl h1.2).mono (by omega)
  have h3 : G 2 (flush2 (flush1 s)) (flush3 (flush2 (flush1 s))) := by
    unfold flush3
    exact ⟨by simp [FState.nextLine], h2.2⟩
  have h4 : G 0 (flush3 (flush2 (flush1 s))) (flush4 (flush3 (flush2 (flush1 s)))) := by
    unfold flush4
    split
    · rename_i hlt; exact ⟨by simp, by simp; omega⟩
    · exact G.refl h3.2
  exact (G.trans (G.trans (G.trans h1 h2) h3) h4).mono (by omega)

/-- closes `G k s s'` goals where `s'` is `s` plus a constant number of writes / flag updates -/
macro "gleaf" : tactic =>
  `(tactic| (constructor <;> (try simp [FState.nextLine]) <;> (try omega)))

theorem G_stepBrace {s : FState} (sp : Bool) (c : Rune) (h : s.nesting ≤ 10) : G 17 s (stepBrace s sp c) := by
  unfold stepBrace
  split
  · split <;> gleaf
  · split
    · have h1 : G 1 s ({ (if s.last != rNL || (s.continued && decide (s.newLines > 0)) then s.nextLine else s) with
          nesting := s.nesting - 1 }) := by
        split
        · exact ⟨by simp [FState.nextLine], by simp; omega⟩
        · exact ⟨by simp, by simp; omega⟩
      exact ((G.trans (G.trans h1 (G_indent h1.2)) (G_write rClose (G_indent h1.2).2)).mono (by omega)).flags rfl rfl
    · exact G_stepWord sp c h

theorem G_stepRegular2 {s : FState} (sp : Bool) (c : Rune) (h : s.nesting ≤ 10) : G 31 s (stepRegular2 s sp c) := by
  unfold stepRegular2
  split
  · exact (G.trans (G_flushOpen h) (G_stepBrace sp c (G_flushOpen h).2) : G (14 + 17) _ _).mono (by omega)
  · exact (G_stepBrace sp c h).mono (by omega)

theorem G_stepRegular {s : FState} (sp ts : Bool) (c : Rune) (h : s.nesting ≤ 10) :
    G 31 s (stepRegular s sp ts c) := by
  unfold stepRegular
  split
  · exact (G_stepRegular2 sp c h).flags rfl rfl
  · split
    · exact (G_stepRegular2 (s := { s with comment := true }) sp c h).flags rfl rfl
    · exact G_stepRegular2 sp c h

theorem G_stepLiteral {t : FState} (c : Rune) (ht : t.nesting ≤ 10) : G 31 t (stepLiteral t c) := by
  unfold stepLiteral
  split
  · split
    · gleaf
    · gleaf
  · split
    · gleaf
    · split
      · split <;> gleaf
      · split
        · gleaf
        · split
          · gleaf
          · split
            · split
              · exact (G.refl ht).mono (by omega)
              · gleaf
            · exact G_stepRegular t.space (t.space || t.tokenEnded) c ht

theorem G_stepHeredoc {s : FState} (c : Rune) (h : s.nesting ≤ 10) : G 31 s (stepHeredoc s c) := by
  unfold stepHeredoc
  split
  · split
    · split
      · gleaf
      · gleaf
    · split
      · exact (G.refl h).mono (by omega)
      · split
        · exact G_stepLiteral (t := { s with marker := [], heredoc := 0 }) c h
        · gleaf
  · split
    · split
      · gleaf
      · gleaf
    · exact G_stepLiteral c h

/-- one loop iteration writes at most 31 runes and keeps `nesting ≤ 10` -/
theorem G_step {s : FState} (c : Rune) (h : s.nesting ≤ 10) : G 31 s (step s c) := by
  unfold step
  split
  · gleaf
  · exact G_stepHeredoc (s := { s with heredocStart := s.heredocStart && c == rCR }) c h

/-- the brace written after the loop: at most 13 more runes -/
theorem G_flushEnd {s : FState} (h : s.nesting ≤ 10) : G 13 s (flushEnd s) := by
  unfold flushEnd
  split
  · have h1 : G 2 s (flush1 s) := by
      unfold flush1
      split
      · exact (G.trans (G_nextLine h) (G_nextLine (s := s.nextLine) h)).flags rfl rfl
      · exact ((G.refl h).mono (by omega)).flags rfl rfl
    have h2 : G 10 (flush1 s) (flush2 (flush1 s)) := by
      unfold flush2
      split
      · exact G_indent h1.2
      · split
        · exact (G_write rSP h1.2).mono (by omega)
        · exact (G.refl h1.2).mono (by omega)
    exact (G.trans (G.trans h1 h2) (G_write rOpen h2.2)).mono (by omega)
  · exact (G.refl h).mono (by omega)

/-- the whole loop: at most 31 runes per input rune -/
theorem G_foldl (inp : List Rune) : ∀ {s : FState}, s.nesting ≤ 10 → G (31 * inp.length) s (inp.foldl step s) := by
  induction inp with
  | nil => intro s h; exact G.refl h
  | cons c cs ih =>
    intro s h
    have h1 := G_step c h
    have h2 := ih h1.2
    exact (G.trans h1 h2).mono (by simp only [List.length_cons]; omega)

theorem dropWhile_length_le (p : Rune → Bool) (l : List Rune) : (l.dropWhile p).length ≤ l.length := by
  induction l with
  | nil => simp
  | cons a l ih => simp only [List.dropWhile]; split <;> simp <;> omega

theorem trimSpace_length_le (l : List Rune) : (trimSpace l).length ≤ l.length := by
  unfold trimSpace trimLeft
  simp only [List.length_reverse]
  exact Nat.le_trans (dropWhile_length_le _ _) (by simpa using dropWhile_length_le isSpace l)

theorem finish_length_le (r : List Rune) : (finish r).length ≤ r.length + 1 := by
  unfold finish trimLeft
  simp only [List.length_append, List.length_singleton]
  have h1 := dropWhile_length_le isSpace (List.dropWhile isSpace r).reverse
  have h2 := dropWhile_length_le isSpace r
  simp only [List.length_reverse] at h1
  omega

/-! ### the formatter's marker window (its copy of the heredoc-end rule) -/

/-- the formatter's `heredocClosingMarker` after the runes `l` of one heredoc body line
    (`pushClosing` per rune, starting from the empty window of a fresh line) -/
def closingWindow (marker l : List Rune) : List Rune :=
  l.foldl (fun w ch => pushClosing w marker ch) []

theorem pushClosing_window (m pre : List Rune) (c : Rune) :
    pushClosing (pre.drop (pre.length - m.length)) m c
      = (pre ++ [c]).drop ((pre ++ [c]).length - m.length) := by
  unfold pushClosing
  by_cases h : m.length ≤ pre.length
  · have h1 : (List.drop (pre.length - m.length) pre ++ [c]).length > m.length := by
      simp [List.length_drop]; omega
    rw [if_pos h1]
    have h2 : (pre ++ [c]).length - m.length = (pre.length - m.length) + 1 := by
      simp; omega
    rw [h2, ← List.drop_drop]
    congr 1
    rw [List.drop_append_of_le_length (by omega)]
  · have h1 : ¬ (List.drop (pre.length - m.length) pre ++ [c]).length > m.length := by
      simp [List.length_drop]; omega
    rw [if_neg h1]
    have h2 : (pre ++ [c]).length - m.length = 0 := by simp; omega
    have h3 : pre.length - m.length = 0 := by omega
    rw [h2, h3]; simp

theorem closingWindow_gen (m : List Rune) : ∀ (l pre : List Rune),
    l.foldl (fun w ch => pushClosing w m ch) (pre.drop (pre.length - m.length))
      = (pre ++ l).drop ((pre ++ l).length - m.length) := by
  intro l
  induction l with
  | nil => intro pre; simp
  | cons c t ih =>
    intro pre
    simp only [List.foldl_cons]
    rw [pushClosing_window, ih (pre ++ [c])]
    simp

theorem closingWindow_eq (m l : List Rune) :
    closingWindow m l = l.drop (l.length - m.length) := by
  have := closingWindow_gen m l []
  simpa [closingWindow] using this

end CaddyModel.C17
