/-
C17 — the glue between the formatter / lexer pair and what the property promises
("… and therefore adapts to the same JSON or the same rejection"), as definitions:

* `allTokens` (caddyfile/parse.go:63) — the parser does not lex the file but the file AFTER
  `{$NAME:default}` substitution (`replaceEnvVars`, the C16 model), which runs on the raw bytes;
* `formattingDifference` (caddyfile/adapter.go:69) — the lint that `Adapter.Adapt`, `caddy fmt`,
  `caddy adapt` and `caddy validate` report: CR LF → LF on a private copy, then `Format` and a
  byte comparison; the warning carries the line of the first differing byte.

Both are compared with the real functions on every run (ops `ev`, `fd`; `ad` runs the real adapter
on x and Format(x)).  Theorems: without a `{$` the parser sees exactly the lexer's tokens, so the
`W` theorems reach the parser; WITH one they do not — `env_default_breaks_the_consequence` is a
proved counter-example to the property's "therefore" (known finding env-substitution-after-format).
-/
import CaddyModel.C17.Spec
import CaddyModel.C16.ParseGlue

namespace CaddyModel.C17

/-- `bytes.Replace(body, "\r\n", "\n", -1)` -/
def normCRLF : Bytes → Bytes
  | [] => []
  | [c] => [c]
  | c :: d :: t => if c = 13 ∧ d = 10 then 10 :: normCRLF t else c :: normCRLF (d :: t)

/-- **`caddyfile.allTokens`** (parse.go:63): `Tokenize(replaceEnvVars(input), filename)` — what `Parse`
    (and so the adapter) and `doImport` lex is the text AFTER environment substitution
    (`none` = the Go code would panic on a slice bound; it never does, C16) -/
def allTokens (env : Bytes → Option Bytes) (b : Bytes) : Option (Except LexErr (List Token)) :=
  match C16.replaceEnvVars env b with
  | .done out => some (tokenize (decodeUtf8 out))
  | _ => none

/-- line of the first byte in which the two texts differ (`FormattingDifference`'s loop) -/
def firstDiffLine : Bytes → Bytes → Nat → Nat
  | [], _, l => l
  | _ :: _, [], l => l
  | c :: n, d :: f, l => if c ≠ d then l else firstDiffLine n f (if c = 10 then l + 1 else l)

/-- **`caddyfile.FormattingDifference`** (adapter.go:69): `none` = formatted, `some line` = the warning -/
def formattingDifference (b : Bytes) : Option Nat :=
  if formatBytes (normCRLF b) = normCRLF b then none
  else some (firstDiffLine (normCRLF b) (formatBytes (normCRLF b)) 1)

/-- a text without `{$` passes the substitution unchanged: the parser sees the lexer's tokens, and
    everything proved about `tokenize` (the `W` theorems) is about what the parser works on -/
theorem allTokens_without_env_span (env : Bytes → Option Bytes) (b : Bytes)
    (h : C16.indexOfB C16.spanOpen b = none) :
    allTokens env b = some (tokenize (decodeUtf8 b)) := by
  unfold allTokens C16.replaceEnvVars
  simp [C16.envLoop, h]

theorem normCRLF_of_no_CR : ∀ (b : Bytes), (∀ c ∈ b, c ≠ 13) → normCRLF b = b
  | [], _ => rfl
  | [_], _ => rfl
  | c :: d :: t, h => by
    have hc : c ≠ 13 := h c (by simp)
    have ih := normCRLF_of_no_CR (d :: t) (fun x hx => h x (by simp [hx]))
    simp [normCRLF, hc, ih]

/-- the lint accepts `Format`'s own output wherever `Format` is idempotent and emits no CR
    (so `caddy fmt --overwrite` silences the warning it tells the user to silence that way) -/
theorem fmt_output_is_not_flagged (b : Bytes) (hid : formatBytes (formatBytes b) = formatBytes b)
    (hcr : ∀ c ∈ formatBytes b, c ≠ 13) : formattingDifference (formatBytes b) = none := by
  unfold formattingDifference
  rw [normCRLF_of_no_CR _ hcr, hid]
  simp

/-- the witness of the known finding: `respond {$X:"a  b"}` -/
def envWitness : Bytes :=
  [114, 101, 115, 112, 111, 110, 100, 32, 123, 36, 88, 58, 34, 97, 32, 32, 98, 34, 125]

set_option maxRecDepth 1000000 in
/-- **the property's "therefore" fails in the glue**: `Format` keeps the lexer's tokens of the witness
    (two words), but it collapses the blanks inside the default of the `{$X:…}` span, and with `X`
    unset the parser — which lexes AFTER substitution — sees the quoted token `a  b` in the original and
    `a b` in the formatted file -/
theorem env_default_breaks_the_consequence :
    sameMeaning (tokenize (decodeUtf8 envWitness)) (tokenize (decodeUtf8 (formatBytes envWitness))) = true ∧
    (match allTokens (fun _ => none) envWitness, allTokens (fun _ => none) (formatBytes envWitness) with
     | some a, some b => sameMeaning a b
     | _, _ => true) = false := by
  decide

end CaddyModel.C17
