/-
C17 — the models of `Format` and `Tokenize` AS THEY WERE BEFORE THE FIX ROUND (verbatim copies of
Lexer.lean / Model.lean / Spec.lean at that time, in namespace `CaddyModel.C17.Old`).  Kept only
so that `Witness.lean` can state, for every repaired known-finding class, that its witness
failed in the old code (`…_old_code_fails`) and passes now.  Not used by the driver.
-/
import CaddyModel.Util.Hex

namespace CaddyModel.C17.Old


/-- a Go `rune` as produced by `ReadRune`: a Unicode code point -/
abbrev Rune := Nat

/-! ### named runes -/
def rNL : Rune := 10        -- '\n'
def rCR : Rune := 13        -- '\r'
def rSP : Rune := 32        -- ' '
def rTAB : Rune := 9        -- '\t'
def rDQ : Rune := 34        -- '"'
def rHash : Rune := 35      -- '#'
def rLT : Rune := 60        -- '<'
def rBS : Rune := 92        -- '\\'
def rBQ : Rune := 96        -- '`'
def rOpen : Rune := 123     -- '{'
def rClose : Rune := 125    -- '}'
def rBOM : Rune := 0xFEFF
def rErr : Rune := 0xFFFD   -- utf8.RuneError

/-- `unicode.IsSpace`: the 25 code points of the White_Space property -/
def isSpace (c : Rune) : Bool :=
  c == 9 || c == 10 || c == 11 || c == 12 || c == 13 || c == 32 || c == 0x85 || c == 0xA0 ||
  c == 0x1680 || (decide (0x2000 ≤ c) && decide (c ≤ 0x200A)) || c == 0x2028 || c == 0x2029 ||
  c == 0x202F || c == 0x205F || c == 0x3000

/-- one character of `heredocMarkerRegexp = ^[A-Za-z0-9_-]+$` -/
def isMarkerChar (c : Rune) : Bool :=
  (decide (65 ≤ c) && decide (c ≤ 90)) || (decide (97 ≤ c) && decide (c ≤ 122)) ||
  (decide (48 ≤ c) && decide (c ≤ 57)) || c == 95 || c == 45

/-- `heredocMarkerRegexp.MatchString(string(m))` -/
def markerOK (m : List Rune) : Bool := !m.isEmpty && m.all isMarkerChar

/-! ### UTF-8 with Go's error semantics (`utf8.DecodeRune`, `utf8.AppendRune`) -/

def isCont (b : UInt8) : Bool := decide (0x80 ≤ b) && decide (b ≤ 0xBF)

/-- `utf8.DecodeRune` on a non-empty slice `b0 :: rest`: the rune and its width -/
def decodeRune (b0 : UInt8) (rest : Bytes) : Rune × Nat :=
  if b0 < 0x80 then (b0.toNat, 1)
  else if 0xC2 ≤ b0 ∧ b0 ≤ 0xDF then
    match rest with
    | b1 :: _ => if isCont b1 then ((b0.toNat % 32) * 64 + b1.toNat % 64, 2) else (rErr, 1)
    | _ => (rErr, 1)
  else if 0xE0 ≤ b0 ∧ b0 ≤ 0xEF then
    match rest with
    | b1 :: b2 :: _ =>
      if decide ((if b0 = 0xE0 then 0xA0 else 0x80) ≤ b1) && decide (b1 ≤ (if b0 = 0xED then 0x9F else 0xBF)) && isCont b2 then
        ((b0.toNat % 16) * 4096 + (b1.toNat % 64) * 64 + b2.toNat % 64, 3)
      else (rErr, 1)
    | _ => (rErr, 1)
  else if 0xF0 ≤ b0 ∧ b0 ≤ 0xF4 then
    match rest with
    | b1 :: b2 :: b3 :: _ =>
      if decide ((if b0 = 0xF0 then 0x90 else 0x80) ≤ b1) && decide (b1 ≤ (if b0 = 0xF4 then 0x8F else 0xBF)) && isCont b2 && isCont b3 then
        ((b0.toNat % 8) * 262144 + (b1.toNat % 64) * 4096 + (b2.toNat % 64) * 64 + b3.toNat % 64, 4)
      else (rErr, 1)
    | _ => (rErr, 1)
  else (rErr, 1)

/-- repeated `ReadRune`; `skip` = bytes of the current rune still to be passed over -/
def decodeGo : Nat → Bytes → List Rune
  | _, [] => []
  | skip + 1, _ :: rest => decodeGo skip rest
  | 0, b :: rest => (decodeRune b rest).1 :: decodeGo ((decodeRune b rest).2 - 1) rest

def decodeUtf8 (b : Bytes) : List Rune := decodeGo 0 b

/-- `utf8.AppendRune` (surrogates and out-of-range values are written as U+FFFD) -/
def encodeRune (r : Rune) : Bytes :=
  if r < 0x80 then [r.toUInt8]
  else if r < 0x800 then [(0xC0 + r / 64).toUInt8, (0x80 + r % 64).toUInt8]
  else if (0xD800 ≤ r ∧ r ≤ 0xDFFF) ∨ r > 0x10FFFF then [0xEF, 0xBF, 0xBD]
  else if r < 0x10000 then [(0xE0 + r / 4096).toUInt8, (0x80 + r / 64 % 64).toUInt8, (0x80 + r % 64).toUInt8]
  else [(0xF0 + r / 262144).toUInt8, (0x80 + r / 4096 % 64).toUInt8, (0x80 + r / 64 % 64).toUInt8, (0x80 + r % 64).toUInt8]

def encodeUtf8 : List Rune → Bytes
  | [] => []
  | r :: rs => encodeRune r ++ encodeUtf8 rs

/-! ### tokens -/

structure Token where
  line : Nat
  text : List Rune
  wasQuoted : Rune          -- 0, '"', '`' or '<'
  heredocMarker : List Rune
deriving DecidableEq, Repr

inductive LexErr where
  | eof                 -- `load`: ReadRune on empty input returns io.EOF, which Tokenize returns
  | incompleteHeredoc   -- "incomplete heredoc <<M on line #…"
  | missingMarker       -- "missing opening heredoc marker"
  | tooManyLt           -- "too many '<' for heredoc"
  | badMarker           -- "heredoc marker … must contain only alpha-numeric characters, dashes and underscores"
  | mismatchedWs        -- "mismatched leading whitespace in heredoc"
deriving DecidableEq, Repr

/-- `strings.Count(t.Text, "\n")` -/
def countNL : List Rune → Nat
  | [] => 0
  | c :: cs => (if c = rNL then 1 else 0) + countNL cs

/-- `Token.NumLineBreaks` -/
def Token.numLineBreaks (t : Token) : Nat :=
  countNL t.text + (if t.wasQuoted = rLT then 2 else 0)

/-- `Token.Quoted` -/
def Token.quoted (t : Token) : Bool := decide (t.wasQuoted > 0)

/-- `isNextOnNewLine(t1, t2)` for two tokens of one file without imports -/
def isNextOnNewLine (t1 t2 : Token) : Bool := decide (t1.line + t1.numLineBreaks < t2.line)

/-! ### finalizeHeredoc -/

/-- `strings.Split(s, "\n")` on runes (k newlines ⇒ k+1 pieces) -/
def splitNL : List Rune → List (List Rune)
  | [] => [[]]
  | c :: cs =>
    if c = rNL then [] :: splitNL cs
    else match splitNL cs with
      | [] => [[c]]
      | l :: ls => (c :: l) :: ls

/-- `strings.ReplaceAll(s, "\r", "")` -/
def dropCR (l : List Rune) : List Rune := l.filter (· != rCR)

/-- the loop over `lines[:len(lines)-1]`; `none` = mismatched leading whitespace -/
def stripLines (padding : List Rune) : List (List Rune) → Option (List Rune)
  | [] => some []
  | lt :: rest =>
    if lt = [] ∨ lt = [rCR] then (stripLines padding rest).map (rNL :: ·)
    else if padding.isPrefixOf lt then
      (stripLines padding rest).map (fun tl => dropCR (lt.drop padding.length) ++ rNL :: tl)
    else none

/-- `finalizeHeredoc(val, marker)`: `val` ends with `marker`; the text after the last newline
    minus the marker is the padding to strip from every line. (The Go loop stops at the FIRST
    mismatching line; only the error class is observable, so evaluation order is immaterial.) -/
def finalizeHeredoc (val marker : List Rune) : Option (List Rune) :=
  match stripLines (((splitNL val).getLastD []).take (((splitNL val).getLastD []).length - marker.length))
      (splitNL val).dropLast with
  | none => none
  | some out => some out.dropLast   -- remove the trailing newline (out is empty or ends with '\n')

/-! ### lexer.next / Tokenize -/

/-- the lexer fields that survive from one `next()` to the following one -/
structure LexSt where
  line : Nat := 1
  skipped : Nat := 0
deriving DecidableEq, Repr

/-- the local variables of one `next()` call (plus `l.token.Line`) -/
structure NextSt where
  val : List Rune := []
  comment : Bool := false
  quoted : Bool := false
  btQuoted : Bool := false
  inHeredoc : Bool := false
  heredocEscaped : Bool := false
  escaped : Bool := false
  marker : List Rune := []
  tokLine : Nat := 0
deriving DecidableEq, Repr

/-- `makeToken(q)` -/
def NextSt.mk' (s : NextSt) (q : Rune) : Token := ⟨s.tokLine, s.val, q, s.marker⟩

/-- "detect whether we have the start of a heredoc" -/
def NextSt.heredocStart (s : NextSt) : Bool :=
  !(s.quoted || s.btQuoted) && !(s.inHeredoc || s.heredocEscaped) &&
    decide (s.val.length > 1) && s.val.take 2 == [rLT, rLT]

/-- `len(val) >= len(marker) && marker == string(val[len(val)-len(marker):])` -/
def endsWith (val marker : List Rune) : Bool :=
  decide (val.length ≥ marker.length) && val.drop (val.length - marker.length) == marker

/-- `Tokenize`'s loop around `next()`, fused into one recursion over the remaining input.
    `acc` = tokens appended so far. -/
def lexLoop : List Rune → LexSt → NextSt → List Token → Except LexErr (List Token)
  | [], _, s, acc =>
    -- ReadRune fails with io.EOF
    if s.val.length > 0 then
      if s.inHeredoc then .error .incompleteHeredoc
      else .ok (acc ++ [s.mk' 0])      -- the following next() sees EOF with empty val
    else .ok acc
  | ch :: rest, l, s, acc =>
    if s.heredocStart then
      if ch = rSP then lexLoop rest l {} (acc ++ [s.mk' 0])
      else if ch = rCR then lexLoop rest l s acc
      else if ch = rNL then
        if s.val.length = 2 then .error .missingMarker
        else if s.val.take 3 == [rLT, rLT, rLT] then .error .tooManyLt
        else if !markerOK (s.val.drop 2) then .error .badMarker
        else lexLoop rest { l with skipped := l.skipped + 1 }
          { s with marker := s.val.drop 2, inHeredoc := true, val := [] } acc
      else lexLoop rest l { s with val := s.val ++ [ch] } acc
    else if s.inHeredoc then
      -- val = append(val, ch); if ch == '\n' { skippedLines++ }
      if endsWith (s.val ++ [ch]) s.marker then
        match finalizeHeredoc (s.val ++ [ch]) s.marker with
        | none => .error .mismatchedWs
        | some v =>
          lexLoop rest ⟨l.line + (l.skipped + (if ch = rNL then 1 else 0)), 0⟩ {}
            (acc ++ [({ s with val := v }).mk' rLT])
      else lexLoop rest { l with skipped := l.skipped + (if ch = rNL then 1 else 0) }
        { s with val := s.val ++ [ch] } acc
    else if !s.escaped && !s.btQuoted && ch == rBS then
      lexLoop rest l { s with escaped := true } acc
    else if s.quoted || s.btQuoted then
      if s.quoted && s.escaped then
        -- only `\"` is an escape inside quotes; any other `\x` keeps the backslash
        lexLoop rest (if ch = rNL then ⟨l.line + 1 + l.skipped, 0⟩ else l)
          { s with val := (if ch ≠ rDQ then s.val ++ [rBS] else s.val) ++ [ch], escaped := false } acc
      else if (s.quoted && ch == rDQ) || (s.btQuoted && ch == rBQ) then
        lexLoop rest l {} (acc ++ [s.mk' ch])
      else
        lexLoop rest (if ch = rNL then ⟨l.line + 1 + l.skipped, 0⟩ else l)
          { s with val := s.val ++ [ch] } acc
    else if isSpace ch then
      if ch = rCR then lexLoop rest l s acc
      else if ch = rNL then
        if s.escaped then
          -- escaped newline: the logical line continues
          if s.val.length > 0 then lexLoop rest { l with skipped := l.skipped + 1 } {} (acc ++ [s.mk' 0])
          else lexLoop rest { l with skipped := l.skipped + 1 } { s with escaped := false, comment := false } acc
        else
          if s.val.length > 0 then lexLoop rest ⟨l.line + 1 + l.skipped, 0⟩ {} (acc ++ [s.mk' 0])
          else lexLoop rest ⟨l.line + 1 + l.skipped, 0⟩ { s with comment := false } acc
      else
        if s.val.length > 0 then lexLoop rest l {} (acc ++ [s.mk' 0])
        else lexLoop rest l s acc
    else if (ch == rHash && s.val.length == 0) || s.comment then
      lexLoop rest l { s with comment := true } acc
    else if s.val.length == 0 && ch == rDQ then
      lexLoop rest l { s with tokLine := l.line, quoted := true } acc
    else if s.val.length == 0 && ch == rBQ then
      lexLoop rest l { s with tokLine := l.line, btQuoted := true } acc
    else if s.escaped then
      -- "allow escaping the first < to skip the heredoc syntax"
      if ch = rLT then
        lexLoop rest l { s with tokLine := (if s.val.length == 0 then l.line else s.tokLine),
                                heredocEscaped := true, escaped := false, val := s.val ++ [ch] } acc
      else
        lexLoop rest l { s with tokLine := (if s.val.length == 0 then l.line else s.tokLine),
                                escaped := false, val := s.val ++ [rBS, ch] } acc
    else
      lexLoop rest l { s with tokLine := (if s.val.length == 0 then l.line else s.tokLine),
                              val := s.val ++ [ch] } acc

/-- `load`: a leading U+FEFF is discarded -/
def dropBOM : List Rune → List Rune
  | [] => []
  | c :: rest => if c = rBOM then rest else c :: rest

/-- `Tokenize`.  An empty input is an error: `load`'s first ReadRune returns io.EOF and
    Tokenize returns it. -/
def tokenize (inp : List Rune) : Except LexErr (List Token) :=
  if inp.isEmpty then .error .eof else lexLoop (dropBOM inp) {} {} []

/-- the property's observable of a token list: text, quote kind, and whether the token starts a
    new line relative to its predecessor (the first token counts as starting a line) -/
def groupingFrom : Option Token → List Token → List (List Rune × Rune × Bool)
  | _, [] => []
  | none, t :: ts => (t.text, t.wasQuoted, true) :: groupingFrom (some t) ts
  | some p, t :: ts => (t.text, t.wasQuoted, isNextOnNewLine p t) :: groupingFrom (some t) ts

def grouping (ts : List Token) : List (List Rune × Rune × Bool) := groupingFrom none ts




structure FState where
  rout : List Rune := []          -- out, reversed
  last : Rune := 0                -- the last character that was written to the result
  space : Bool := true
  bol : Bool := true              -- beginningOfLine
  openBrace : Bool := false
  openBraceWritten : Bool := false
  openBraceSpace : Bool := false
  newLines : Nat := 0
  comment : Bool := false
  quoted : Bool := false
  escaped : Bool := false
  heredoc : Nat := 0              -- 0 heredocClosed, 1 heredocOpening, 2 heredocOpened
  heredocEscaped : Bool := false
  marker : List Rune := []        -- heredocMarker
  closing : List Rune := []       -- heredocClosingMarker
  nesting : Nat := 0
  withinBackquote : Bool := false
deriving DecidableEq, Repr

/-- `write(ch)` -/
def FState.write (s : FState) (ch : Rune) : FState := { s with rout := ch :: s.rout, last := ch }

/-- `for tabs := n; tabs > 0; tabs-- { write('\t') }` -/
def FState.tabs (s : FState) : Nat → FState
  | 0 => s
  | n + 1 => (s.write rTAB).tabs n

/-- `indent()` -/
def FState.indent (s : FState) : FState := s.tabs s.nesting

/-- `nextLine()` -/
def FState.nextLine (s : FState) : FState := { s.write rNL with bol := true }

/-- `for i := 0; i < n; i++ { nextLine() }` -/
def FState.nextLines (s : FState) : Nat → FState
  | 0 => s
  | n + 1 => s.nextLine.nextLines n

/-! The loop body, bottom-up (each def is one stretch of the Go loop body; the Go statement it
mirrors is quoted above it). -/

/-- `if spacePrior && ch == '<' { space = true }; write(ch); beginningOfLine = false` (296-302) -/
def stepWord6 (s : FState) (spacePrior : Bool) (ch : Rune) : FState :=
  { (if spacePrior && ch == rLT then { s with space := true } else s).write ch with bol := false }

/-- `if openBrace && !openBraceWritten { write('{'); openBraceWritten = true }` (291-294) -/
def stepWord5 (s : FState) (spacePrior : Bool) (ch : Rune) : FState :=
  stepWord6 (if s.openBrace && !s.openBraceWritten then { s.write rOpen with openBraceWritten := true } else s) spacePrior ch

/-- `if !beginningOfLine && spacePrior { write(' ') }` (287-289) -/
def stepWord4 (s : FState) (spacePrior : Bool) (ch : Rune) : FState :=
  stepWord5 (if !s.bol && spacePrior then s.write rSP else s) spacePrior ch

/-- `if nesting == 0 && last == '}' && beginningOfLine { nextLine(); nextLine() }` (282-285) -/
def stepWord3 (s : FState) (spacePrior : Bool) (ch : Rune) : FState :=
  stepWord4 (if s.nesting == 0 && s.last == rClose && s.bol then s.nextLine.nextLine else s) spacePrior ch

/-- `if beginningOfLine { indent() }` (279-281) -/
def stepWord2 (s : FState) (spacePrior : Bool) (ch : Rune) : FState :=
  stepWord3 (if s.bol then s.indent else s) spacePrior ch

/-- `if newLines > 2 { newLines = 2 }; for i := 0; i < newLines; i++ { nextLine() }; newLines = 0`
    (272-278), then the rest: an ordinary character of a word (also an opening quote, `#`, a
    glued brace) -/
def stepWord (s : FState) (spacePrior : Bool) (ch : Rune) : FState :=
  stepWord2 ({ s.nextLines (min s.newLines 2) with newLines := 0 }) spacePrior ch

/-- `if nesting == 0 && last == '}' { nextLine(); nextLine() }; openBrace = false` (219-224) -/
def flush1 (s : FState) : FState :=
  { (if s.nesting == 0 && s.last == rClose then s.nextLine.nextLine else s) with openBrace := false }

/-- `if beginningOfLine { indent() } else if !openBraceSpace { write(' ') }` (225-229) -/
def flush2 (s : FState) : FState :=
  if s.bol then s.indent else if !s.openBraceSpace then s.write rSP else s

/-- `write('{'); openBraceWritten = true; nextLine(); newLines = 0` (230-233) -/
def flush3 (s : FState) : FState :=
  { ({ s.write rOpen with openBraceWritten := true }).nextLine with newLines := 0 }

/-- `if nesting < 10 { nesting++ }` — "prevent infinite nesting from ridiculous inputs (issue #4169)" -/
def flush4 (s : FState) : FState :=
  if s.nesting < 10 then { s with nesting := s.nesting + 1 } else s

/-- lines 218-238: the pending `{` is written, followed by a newline, when the next word starts -/
def flushOpen (s : FState) : FState := flush4 (flush3 (flush2 (flush1 s)))

/-- lines 240-270: the `switch` on braces, then the ordinary-character tail -/
def stepBrace (s : FState) (spacePrior : Bool) (ch : Rune) : FState :=
  if ch == rOpen then
    -- openBrace = true; openBraceSpace = spacePrior && !beginningOfLine; if openBraceSpace { write(' ') }
    -- openBraceWritten = false; if withinBackquote { write('{'); openBraceWritten = true }; continue
    if s.withinBackquote then
      { ((if spacePrior && !s.bol then s.write rSP else s).write rOpen) with
          openBrace := true, openBraceSpace := spacePrior && !s.bol, openBraceWritten := true }
    else
      { (if spacePrior && !s.bol then s.write rSP else s) with
          openBrace := true, openBraceSpace := spacePrior && !s.bol, openBraceWritten := false }
  else if ch == rClose && (spacePrior || !s.openBrace) then
    if s.withinBackquote then s.write rClose
    else
      -- if last != '\n' { nextLine() }; if nesting > 0 { nesting-- }; indent(); write('}'); newLines = 0
      { ((({ (if s.last != rNL then s.nextLine else s) with nesting := s.nesting - 1 }).indent).write rClose) with newLines := 0 }
  else stepWord s spacePrior ch

/-- `if openBrace && spacePrior && !openBraceWritten { … }` (218) -/
def stepRegular2 (s : FState) (spacePrior : Bool) (ch : Rune) : FState :=
  stepBrace (if s.openBrace && spacePrior && !s.openBraceWritten then flushOpen s else s) spacePrior ch

/-- lines 206-216: "we know we are in a regular part of the file"; `if ch == '#' { comment = true }` -/
def stepRegular (s : FState) (spacePrior : Bool) (ch : Rune) : FState :=
  stepRegular2 (if ch == rHash then { s with comment := true } else s) spacePrior ch

/-- lines 152-204: comments, escapes, quotes, whitespace -/
def stepLiteral2 (s : FState) (ch : Rune) : FState :=
  if s.comment then
    if ch == rNL then ({ s with comment := false, space := true }).nextLine
    else s.write ch
  else if !s.escaped && ch == rBS then
    { ((if s.space then { s.write rSP with space := false } else s).write ch) with escaped := true }
  else if s.escaped then
    { ((if ch == rLT then { s with heredocEscaped := true } else s).write ch) with escaped := false }
  else if s.quoted then
    { s.write ch with quoted := !(ch == rDQ) }
  else if isSpace ch then
    { s with space := true, heredocEscaped := false, newLines := s.newLines + (if ch == rNL then 1 else 0) }
  else
    -- if space && ch == '"' { quoted = true }; spacePrior := space; space = false
    stepRegular { s with quoted := s.space && ch == rDQ, space := false } s.space ch

/-- `if last == '<' && space { space = false }` (148-150) -/
def stepLiteral (s : FState) (ch : Rune) : FState :=
  stepLiteral2 (if s.last == rLT && s.space then { s with space := false } else s) ch

/-- `heredocClosingMarker = append(…, ch); if len > len(marker)+1 { closing = closing[1:] }` -/
def pushClosing (closing marker : List Rune) (ch : Rune) : List Rune :=
  if (closing ++ [ch]).length > marker.length + 1 then (closing ++ [ch]).drop 1 else closing ++ [ch]

/-- lines 105-146: heredoc marker collection and heredoc body -/
def stepHeredoc (s : FState) (ch : Rune) : FState :=
  if s.heredoc == 1 then
    if ch == rNL then
      if markerOK s.marker then ({ s with heredoc := 2 }).write ch
      else ({ s with marker := [], heredoc := 0 }).nextLine
    else if isSpace ch then
      -- a space means it's just a regular token and not a heredoc
      stepLiteral { s with marker := [], heredoc := 0 } ch
    else ({ s with marker := s.marker ++ [ch] }).write ch
  else if s.heredoc == 2 then
    -- if we're in a heredoc, all characters are read&write as-is
    if isSpace ch && (pushClosing s.closing s.marker ch).dropLast == s.marker then
      stepLiteral { s with marker := [], closing := [], heredoc := 0 } ch
    else
      { s.write ch with closing := if ch == rNL then [] else pushClosing s.closing s.marker ch }
  else stepLiteral s ch

/-- lines 96-103: "detect whether we have the start of a heredoc" -/
def step2 (s : FState) (ch : Rune) : FState :=
  if !s.quoted && !(s.heredoc != 0 || s.heredocEscaped) && s.space && s.last == rLT && ch == rLT then
    { s.write ch with heredoc := 1, space := false }
  else stepHeredoc s ch

/-- one iteration of the `for` loop (lines 84-303); 92-94: a backtick toggles `withinBackquote` -/
def step (s : FState) (ch : Rune) : FState :=
  step2 (if ch == rBQ then { s with withinBackquote := !s.withinBackquote } else s) ch

/-- `bytes.TrimSpace` on runes -/
def trimLeft (l : List Rune) : List Rune := l.dropWhile isSpace
def trimSpace (l : List Rune) : List Rune := ((trimLeft l).reverse.dropWhile isSpace).reverse

/-- the loop over the (trimmed) input -/
def run (inp : List Rune) : FState := inp.foldl step {}

/-- `append(bytes.TrimSpace(out.Bytes()), '\n')` for a reversed buffer -/
def finish (rout : List Rune) : List Rune := (trimLeft (trimLeft rout).reverse) ++ [rNL]

/-- `Format` on runes -/
def format (inp : List Rune) : List Rune := finish (run (trimSpace inp)).rout

/-- `Format` on bytes (what `caddy fmt` applies to a file) -/
def formatBytes (b : Bytes) : Bytes := encodeUtf8 (format (decodeUtf8 b))




/-- same rejection, or same texts / quote kinds / line grouping -/
def sameMeaning : Except LexErr (List Token) → Except LexErr (List Token) → Bool
  | .error e1, .error e2 => e1 == e2
  | .ok a, .ok b => grouping a == grouping b
  | _, _ => false

/-- clause 1 at one input: `Tokenize (Format x)` means what `Tokenize x` means -/
def preservesTokens (x : List Rune) : Bool := sameMeaning (tokenize x) (tokenize (format x))

/-- clause 2 at one input: `Format (Format x) = Format x` -/
def idempotentAt (x : List Rune) : Bool := format (format x) == format x

/-- ASCII text of a Lean string literal as runes (for examples and witnesses) -/
def runes (s : String) : List Rune := s.toList.map Char.toNat


end CaddyModel.C17.Old
