/-
C17 — proved counter-examples (filled in below) and their protocol lines.
-/
import CaddyModel.C17.Driver

namespace CaddyModel.C17

/-- counter-example lines replayed on the implementation on every run -/
def witnessLines : List String := []

end CaddyModel.C17
