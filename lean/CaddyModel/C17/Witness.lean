/-
C17 — proved counter-examples: the two clauses of the property that the unchanged tree
violates at full strength.  Each theorem is kernel-evaluated (`decide`) on the models; the same
inputs (`tokenWitnesses`, `idemWitnesses` in Driver.lean, one per known-finding class) are
exported as protocol lines and replayed on the real `caddyfile.Format` / `caddyfile.Tokenize`
on every run.
-/
import CaddyModel.C17.Spec
import CaddyModel.C17.Driver

namespace CaddyModel.C17

/-- FULL STATEMENT (false on the unchanged tree):
    `∀ x, preservesTokens x` — "the formatted text tokenizes to the same tokens with the same
    line grouping as the original".  Counter-example: a trailing `{` is dropped. -/
theorem fmt_preserves_tokens_full_fails : ∃ x : List Rune, preservesTokens x = false :=
  ⟨runes "a {", by decide⟩

/-- FULL STATEMENT (false on the unchanged tree):
    `∀ x, idempotentAt x` — "formatting is idempotent".
    Counter-example: `a< <⏎<` ↦ `a<<⏎<` ↦ `a<<<`. -/
theorem fmt_idempotent_full_fails : ∃ x : List Rune, idempotentAt x = false :=
  ⟨runes "a< <\n<", by decide⟩

set_option maxRecDepth 1000000 in
/-- every exported token-stream witness (one per known class) fails in the model -/
theorem token_witnesses_all_fail : tokenWitnesses.all (fun s => !preservesTokens (runes s)) = true := by
  decide

set_option maxRecDepth 1000000 in
/-- every exported idempotence witness (one per known class) fails in the model -/
theorem idem_witnesses_all_fail : idemWitnesses.all (fun s => !idempotentAt (runes s)) = true := by
  decide

/-- non-vacuity of the spec predicates: they are TRUE on ordinary inputs -/
example : preservesTokens (runes "a {\n  b\n}\n") = true ∧ idempotentAt (runes "a {\n  b\n}\n") = true := by decide

end CaddyModel.C17
