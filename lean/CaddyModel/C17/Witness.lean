/-
C17 — proved counter-examples: the two clauses of the property that the unchanged tree
violates at full strength.  Each theorem is kernel-evaluated (`decide`) on the models; the same
inputs are exported as protocol lines (`witnessLines`, Driver.lean) and replayed on the real
`caddyfile.Format` / `caddyfile.Tokenize` on every run.
-/
import CaddyModel.C17.Spec
import CaddyModel.C17.Driver

namespace CaddyModel.C17

/-- FULL STATEMENT (false): `∀ x, preservesTokens x`.  A trailing `{` is dropped. -/
theorem fmt_preserves_tokens_full_fails : ∃ x : List Rune, preservesTokens x = false :=
  ⟨runes "a {", by decide⟩

/-- FULL STATEMENT (false): `∀ x, idempotentAt x`.  `a< <⏎<` ↦ `a<<⏎<` ↦ `a<<<`. -/
theorem fmt_idempotent_full_fails : ∃ x : List Rune, idempotentAt x = false :=
  ⟨runes "a< <\n<", by decide⟩

end CaddyModel.C17
