/-
C17 — proved counter-examples: the two clauses of the property that the unchanged tree
violates at full strength.  Each theorem is kernel-evaluated (`decide`) on the models; the same
inputs (`tokenWitnesses`, `idemWitnesses` in Driver.lean, one per known-finding class) are
exported as protocol lines and replayed on the real `caddyfile.Format` / `caddyfile.Tokenize`
on every run.
-/
import CaddyModel.C17.Spec
import CaddyModel.C17.Driver
import CaddyModel.C17.OldModel

namespace CaddyModel.C17

/-- FULL STATEMENT (false on the unchanged tree):
    `∀ x, preservesTokens x` — "the formatted text tokenizes to the same tokens with the same
    line grouping as the original".  Counter-example: a brace glued to a word is split off
    (`a{⏎b` ↦ `a {⏎⇥b`). -/
theorem fmt_preserves_tokens_full_fails : ∃ x : List Rune, preservesTokens x = false :=
  ⟨runes "a{\nb\n", by decide⟩

/-- FULL STATEMENT (false on the unchanged tree):
    `∀ x, idempotentAt x` — "formatting is idempotent".
    Counter-example: `{}{`. -/
theorem fmt_idempotent_full_fails : ∃ x : List Rune, idempotentAt x = false :=
  ⟨runes "{}{", by decide⟩

set_option maxRecDepth 1000000 in
/-- every exported token-stream witness (one per known class) fails in the model -/
theorem token_witnesses_all_fail : tokenWitnesses.all (fun s => !preservesTokens (runes s)) = true := by
  decide

set_option maxRecDepth 1000000 in
/-- every exported idempotence witness (one per known class) fails in the model -/
theorem idem_witnesses_all_fail : idemWitnesses.all (fun s => !idempotentAt (runes s)) = true := by
  decide

/-! ### the classes repaired in the fix round: their witnesses failed in the old code and pass now -/

/-- witnesses of the token-stream classes retired by the formatter repairs -/
def repairedTokenWitnesses : List String := [
  "# `\n{\n\ta\n}\n"  /- backtick-in-comment -/,
  "\"back`tick\" {\n}\n"  /- backtick-in-dquote -/,
  "a <<EOF\n\t`\n\tEOF\nb {\n}\n"  /- backtick-in-heredoc -/,
  "a`b {\n}\n"  /- backtick-in-word -/,
  "a\rb\n"  /- cr-inside-word -/,
  "a {\n"  /- dangling-open-brace-at-eof -/,
  ""  /- empty-input -/,
  "a#b \"x\n  y\"\n"  /- hash-in-word -/,
  "`a#b` \"x\n  y\"\n"  /- special-in-backquote -/,
  "a \\\n\"b  c\"\n"  /- special-right-after-line-continuation -/,
  "`{ inner }`\n"  /- ws-or-brace-in-backquote -/,
  "\"a\"\"b  c\"\n"  /- glued-after-quote (second round) -/,
  "{\n\\\na\n}\n"  /- line-continuation-without-token-before (second round) -/,
  "{\n\ta \\\n\n}\n"  /- blank-line-after-line-continuation (third round) -/
]

/-- witnesses of the idempotence classes retired by the repairs -/
def repairedIdemWitnesses : List String := [
  "#`\n\n{}"  /- backtick-in-comment -/,
  "\"`\"\n{}"  /- backtick-in-dquote -/,
  "<<EOF\n} `\nEOF\n {} \n"  /- backtick-in-heredoc -/,
  "a`\n{}"  /- backtick-in-word -/,
  "{\n{x}\u00a0\\\n\n}\nEOF"  /- blank-line-after-line-continuation -/,
  "a#b \"a\n\tb {\n}\" \t\"tab\there\""  /- hash-in-word -/,
  "`a#b` \"a\n\tb {\n}\"\n<<END\n  \"q\"\n  END"  /- special-in-backquote -/,
  "EOF\\\n\"{x}# \n}}  \""  /- special-right-after-line-continuation -/,
  "} \\\n\t\"}\""  /- token-after-close-brace-on-same-line -/,
  "`\n{}`"  /- ws-or-brace-in-backquote -/,
  "\"\"\"\u00a0\n {{\\\nEOF\""  /- glued-after-quote (second round) -/,
  "\\\n\t\"}\""  /- line-continuation-without-token-before (second round) -/,
  "b { \\\nb"  /- token-after-open-brace-on-same-line (second round) -/
]

set_option maxRecDepth 1000000 in
/-- non-vacuity of the repairs: each of these inputs changed its token stream under the OLD code -/
theorem repaired_token_witnesses_old_code_fails :
    repairedTokenWitnesses.all (fun s => !Old.preservesTokens (Old.runes s)) = true := by decide

set_option maxRecDepth 1000000 in
/-- … and keeps it under the repaired code -/
theorem repaired_token_witnesses_now_pass :
    repairedTokenWitnesses.all (fun s => preservesTokens (runes s)) = true := by decide

set_option maxRecDepth 1000000 in
theorem repaired_idem_witnesses_old_code_fails :
    repairedIdemWitnesses.all (fun s => !Old.idempotentAt (Old.runes s)) = true := by decide

set_option maxRecDepth 1000000 in
theorem repaired_idem_witnesses_now_pass :
    repairedIdemWitnesses.all (fun s => idempotentAt (runes s)) = true := by decide

/-- non-vacuity of the spec predicates: they are TRUE on ordinary inputs -/
example : preservesTokens (runes "a {\n  b\n}\n") = true ∧ idempotentAt (runes "a {\n  b\n}\n") = true := by decide

end CaddyModel.C17
