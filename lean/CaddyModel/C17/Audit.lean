import CaddyModel.C17.Props
open CaddyModel.C17
#print axioms fmt_total
#print axioms fmt_output_bound
#print axioms fmt_ends_with_single_newline
#print axioms fmt_empty_stays_empty
#print axioms fmt_canonical_on_W
#print axioms fmt_preserves_tokens_partial
#print axioms fmt_idempotent_partial
#print axioms fmt_preserves_tokens_full_fails
#print axioms fmt_idempotent_full_fails
#print axioms token_witnesses_all_fail
#print axioms idem_witnesses_all_fail
#print axioms repaired_token_witnesses_old_code_fails
#print axioms repaired_token_witnesses_now_pass
#print axioms repaired_idem_witnesses_old_code_fails
#print axioms repaired_idem_witnesses_now_pass
