/-
C17 line-protocol driver.  One case = one whole Caddyfile (bytes, hex):
  rt <hex>     answer: `F:<hex of Format(x)> T:<tokens of x> U:<tokens of Format(x)> I:<0|1> W:<0|1>`
               I = 1 iff Format(Format(x)) = Format(x)
               W = 1 iff x lies in the fragment `inW` on which preservation and idempotence are
                   PROVED (the harness recomputes this predicate independently)
tokens = `err:<class>` | `-` (no token) | `line.q.texthex,…` with q ∈ n (unquoted) d (") b (`) h (heredoc).

  cf <mode> <hex>   the command `caddy fmt` on a file holding the bytes (harness: the real cmdFmt):
               mode p = print, w = --overwrite, s = stdin (`caddy fmt -`), d = --diff
               answer: `C:<hex of the emitted Caddyfile | -> E:<exit status>`; the emitted Caddyfile is
               `cmdFmtOut` = Format of the file's bytes, untouched on the way in and out; E = 1 iff
               the command reports "input is not formatted" (modes p and d; the comparison there,
               `caddyfile.FormattingDifference`, is made after CR LF → LF on a private copy)

  ev <hex>     the tokens the PARSER works on — `allTokens x = Tokenize (replaceEnvVars x)`, the `{$NAME:default}`
               pass runs on the raw bytes before lexing — for x and for Format(x), environment = `envTable`:
               answer `T:<tokens> U:<tokens>` (replaceEnvVars: the C16 model, ParseGlue.lean)
  fd <hex>     `caddyfile.FormattingDifference`: answer `D:0` | `D:1 L:<line of the first differing byte>`
  ad <hex>     the real adapter on x and Format(x): implementation-side oracle only, answer `ad`
-/
import CaddyModel.C17.Fragment
import CaddyModel.C17.Glue

namespace CaddyModel.C17

def showQuote (q : Rune) : String :=
  if q = 0 then "n" else if q = rDQ then "d" else if q = rBQ then "b" else if q = rLT then "h" else "?"

def showTok (t : Token) : String :=
  toString t.line ++ "." ++ showQuote t.wasQuoted ++ "." ++ Hex.encode (encodeUtf8 t.text)

def showErr : LexErr → String
  | .eof => "err:eof"
  | .incompleteHeredoc => "err:incomplete-heredoc"
  | .missingMarker => "err:missing-marker"
  | .tooManyLt => "err:too-many-lt"
  | .badMarker => "err:bad-marker"
  | .mismatchedWs => "err:mismatched-ws"

def showToks : Except LexErr (List Token) → String
  | .error e => showErr e
  | .ok [] => "-"
  | .ok ts => String.intercalate "," (ts.map showTok)

def roundTrip (b : Bytes) : String :=
  "F:" ++ Hex.encode (formatBytes b) ++
  " T:" ++ showToks (tokenize (decodeUtf8 b)) ++
  " U:" ++ showToks (tokenize (decodeUtf8 (formatBytes b))) ++
  " I:" ++ (if formatBytes (formatBytes b) = formatBytes b then "1" else "0") ++
  " W:" ++ (if inW (decodeUtf8 b) then "1" else "0")

/-- **the glue of the command** (cmd/commandfuncs.go cmdFmt): what `caddy fmt <file>` prints, what
    `caddy fmt --overwrite <file>` leaves in the file, what `caddy fmt -` prints for the bytes on
    stdin — in every mode `Format` of exactly the bytes read, emitted unchanged -/
def cmdFmtOut (_mode : String) (b : Bytes) : Bytes := encodeUtf8 (cmdFmtRunes (decodeUtf8 b))

/-- exit status: `caddy fmt <file>` and `--diff` end with status 1 when the file is not formatted
    (`FormattingDifference`: `Format(norm) ≠ norm` for the CR LF-normalised copy `norm`) -/
def cmdFmtExit (mode : String) (b : Bytes) : Nat :=
  if (mode = "p" ∨ mode = "d") ∧ formatBytes (normCRLF b) ≠ normCRLF b then 1 else 0

def cmdFmtLine (mode : String) (b : Bytes) : String :=
  "C:" ++ (if mode = "d" then "-" else Hex.encode (cmdFmtOut mode b)) ++ " E:" ++ toString (cmdFmtExit mode b)

/-! ### the glue towards the parser and the adapter -/

/-- the environment of the `ev` op (the harness sets exactly these; `V17U` is unset) -/
def envTable : List (String × String) :=
  [("V17A", "b c"), ("V17Q", "\"q  r\""), ("V17NL", "x\ny"), ("V17E", ""), ("V17BR", "{"), ("V17HD", "<<EOF"), ("V17N", "{$V17A}")]

def envFn (k : Bytes) : Option Bytes :=
  (envTable.find? fun kv => kv.1.toUTF8.toList == k).map fun kv => kv.2.toUTF8.toList

def parserToks (b : Bytes) : String :=
  match allTokens envFn b with
  | some r => showToks r
  | none => "panic"

def evLine (b : Bytes) : String := "T:" ++ parserToks b ++ " U:" ++ parserToks (formatBytes b)

def fdLine (b : Bytes) : String :=
  match formattingDifference b with
  | none => "D:0"
  | some l => "D:1 L:" ++ toString l

def handle : List String → String
  | ["ev", inp] => match Hex.decode inp with | some b => evLine b | none => "bad-op"
  | ["fd", inp] => match Hex.decode inp with | some b => fdLine b | none => "bad-op"
  | ["ad", inp] => match Hex.decode inp with | some _ => "ad" | none => "bad-op"
  | ["rt", inp] =>
    match Hex.decode inp with
    | some b => roundTrip b
    | none => "bad-op"
  | ["cf", mode, inp] =>
    if mode = "p" ∨ mode = "w" ∨ mode = "s" ∨ mode = "d" then
      match Hex.decode inp with
      | some b => cmdFmtLine mode b
      | none => "bad-op"
    else "bad-op"
  | _ => "bad-op"

/-! ### proved counter-examples (Witness.lean), replayed on the implementation on every run -/

/-- inputs on which `Format` changes the token stream (one per known class, see known_findings.jsonl) -/
def tokenWitnesses : List String := [
  "a <<EOF"  /- angle-word -/,
  "{\n\ta # c \\\n\n}\n"  /- backslash-in-comment -/,
  " \ufeffa\n"  /- bom -/,
  "a{\nb\n"  /- brace-glued-to-word -/,
  "a {\n\tb }\n"  /- close-brace-not-first-on-line -/,
  "{\n\ta <<EOF\n\tEOF\n\n}\n"  /- empty-heredoc -/,
  "a \\\"b  c\\\"\n"  /- escape -/,
  "a { b }\n"  /- multiple-risky-constructs -/,
  "a\n{\n\tb\n}\n"  /- open-brace-first-on-line -/,
  "a {\n} b\n"  /- token-after-close-brace-on-same-line -/,
  "a { b\n}\n"  /- token-after-open-brace-on-same-line -/,
  "\"a b  \n"  /- unterminated-quote -/
]

/-- inputs on which `Format` is not idempotent (one per known class) -/
def idemWitnesses : List String := [
  "# \"quoted\" text \r\n< a< <<EOF  \r\n  \r\n\r\n\r\n\t  <<EOF\t<< <<\n <<a b\r\na\"b\r\n"  /- angle-word -/,
  "{}{"  /- brace-glued-to-word -/,
  "\\\u00a0#\u00a0{x}\u00a0{x}{"  /- escape -/,
  "{}{ }"  /- multiple-risky-constructs -/
]

/-- the protocol lines of the counter-examples -/
def witnessLines : List String :=
  (tokenWitnesses ++ idemWitnesses).map fun s => "rt " ++ Hex.encode s.toUTF8.toList

end CaddyModel.C17
