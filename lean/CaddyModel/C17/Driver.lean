/-
C17 line-protocol driver.  One case = one whole Caddyfile (bytes, hex):
  rt <hex>     answer: `F:<hex of Format(x)> T:<tokens of x> U:<tokens of Format(x)> I:<0|1>`
               I = 1 iff Format(Format(x)) = Format(x)
tokens = `err:<class>` | `-` (no token) | `line.q.texthex,…` with q ∈ n (unquoted) d (") b (`) h (heredoc).
-/
import CaddyModel.C17.Model

namespace CaddyModel.C17

def showQuote (q : Rune) : String :=
  if q = 0 then "n" else if q = rDQ then "d" else if q = rBQ then "b" else if q = rLT then "h" else "?"

def showTok (t : Token) : String :=
  toString t.line ++ "." ++ showQuote t.wasQuoted ++ "." ++ Hex.encode (encodeUtf8 t.text)

def showErr : LexErr → String
  | .eof => "err:eof"
  | .incompleteHeredoc => "err:incomplete-heredoc"
  | .missingMarker => "err:missing-marker"
  | .tooManyLt => "err:too-many-lt"
  | .badMarker => "err:bad-marker"
  | .mismatchedWs => "err:mismatched-ws"

def showToks : Except LexErr (List Token) → String
  | .error e => showErr e
  | .ok [] => "-"
  | .ok ts => String.intercalate "," (ts.map showTok)

def roundTrip (b : Bytes) : String :=
  "F:" ++ Hex.encode (formatBytes b) ++
  " T:" ++ showToks (tokenize (decodeUtf8 b)) ++
  " U:" ++ showToks (tokenize (decodeUtf8 (formatBytes b))) ++
  " I:" ++ (if formatBytes (formatBytes b) = formatBytes b then "1" else "0")

def handle : List String → String
  | ["rt", inp] =>
    match Hex.decode inp with
    | some b => roundTrip b
    | none => "bad-op"
  | _ => "bad-op"

end CaddyModel.C17
