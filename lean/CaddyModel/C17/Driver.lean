/-
C17 line-protocol driver.  One case = one whole Caddyfile (bytes, hex):
  rt <hex>     answer: `F:<hex of Format(x)> T:<tokens of x> U:<tokens of Format(x)> I:<0|1> W:<0|1>`
               I = 1 iff Format(Format(x)) = Format(x)
               W = 1 iff x lies in the fragment `inW` on which preservation and idempotence are
                   PROVED (the harness recomputes this predicate independently)
tokens = `err:<class>` | `-` (no token) | `line.q.texthex,…` with q ∈ n (unquoted) d (") b (`) h (heredoc).
-/
import CaddyModel.C17.Fragment

namespace CaddyModel.C17

def showQuote (q : Rune) : String :=
  if q = 0 then "n" else if q = rDQ then "d" else if q = rBQ then "b" else if q = rLT then "h" else "?"

def showTok (t : Token) : String :=
  toString t.line ++ "." ++ showQuote t.wasQuoted ++ "." ++ Hex.encode (encodeUtf8 t.text)

def showErr : LexErr → String
  | .eof => "err:eof"
  | .incompleteHeredoc => "err:incomplete-heredoc"
  | .missingMarker => "err:missing-marker"
  | .tooManyLt => "err:too-many-lt"
  | .badMarker => "err:bad-marker"
  | .mismatchedWs => "err:mismatched-ws"

def showToks : Except LexErr (List Token) → String
  | .error e => showErr e
  | .ok [] => "-"
  | .ok ts => String.intercalate "," (ts.map showTok)

def roundTrip (b : Bytes) : String :=
  "F:" ++ Hex.encode (formatBytes b) ++
  " T:" ++ showToks (tokenize (decodeUtf8 b)) ++
  " U:" ++ showToks (tokenize (decodeUtf8 (formatBytes b))) ++
  " I:" ++ (if formatBytes (formatBytes b) = formatBytes b then "1" else "0") ++
  " W:" ++ (if inW (decodeUtf8 b) then "1" else "0")

def handle : List String → String
  | ["rt", inp] =>
    match Hex.decode inp with
    | some b => roundTrip b
    | none => "bad-op"
  | _ => "bad-op"

/-! ### proved counter-examples (Witness.lean), replayed on the implementation on every run -/

/-- inputs on which `Format` changes the token stream (one per known class, see known_findings.jsonl) -/
def tokenWitnesses : List String := [
  "<\n<\n"  /- angle-word -/,
  "{\n\ta # c \\\n\n}\n"  /- backslash-in-comment -/,
  "# `\n{\n\ta\n}\n"  /- backtick-in-comment -/,
  "\"back`tick\" {\n}\n"  /- backtick-in-dquote -/,
  "a <<EOF\n\t`\n\tEOF\nb {\n}\n"  /- backtick-in-heredoc -/,
  "a`b {\n}\n"  /- backtick-in-word -/,
  "{\n\ta \\\n\n}\n"  /- blank-line-after-line-continuation -/,
  " \ufeffa\n"  /- bom -/,
  "a{\nb\n"  /- brace-glued-to-word -/,
  "a {\n\tb }\n"  /- close-brace-not-first-on-line -/,
  "a\rb\n"  /- cr-inside-word -/,
  "a {\n"  /- dangling-open-brace-at-eof -/,
  "{\n\ta <<EOF\n\tEOF\n\n}\n"  /- empty-heredoc -/,
  ""  /- empty-input -/,
  "\\{ 200\n"  /- escape -/,
  "\"a\"\"b  c\"\n"  /- glued-after-quote -/,
  "a#b \"x\n  y\"\n"  /- hash-in-word -/,
  "{\n\\\na\n}\n"  /- line-continuation-without-token-before -/,
  "a { b }\n"  /- multiple-risky-constructs -/,
  "a\n{\n\tb\n}\n"  /- open-brace-first-on-line -/,
  "`a#b` \"x\n  y\"\n"  /- special-in-backquote -/,
  "a \\\n\"b  c\"\n"  /- special-right-after-line-continuation -/,
  "a {\n} b\n"  /- token-after-close-brace-on-same-line -/,
  "a { b\n}\n"  /- token-after-open-brace-on-same-line -/,
  "\"a b  \n"  /- unterminated-quote -/,
  "`{ inner }`\n"  /- ws-or-brace-in-backquote -/
]

/-- inputs on which `Format` is not idempotent (one per known class) -/
def idemWitnesses : List String := [
  "a< <\n<"  /- angle-word -/,
  "#`\n\n{}"  /- backtick-in-comment -/,
  "\"`\"\n{}"  /- backtick-in-dquote -/,
  "<<EOF\n} `\nEOF\n {} \n"  /- backtick-in-heredoc -/,
  "a`\n{}"  /- backtick-in-word -/,
  "{\n{x}\u00a0\\\n\n}\nEOF"  /- blank-line-after-line-continuation -/,
  "{\n{{"  /- brace-glued-to-word -/,
  "a {\n\\"  /- escape -/,
  "\"\"\"\u00a0\n {{\\\nEOF\""  /- glued-after-quote -/,
  "a#b \"a\n\tb {\n}\" \t\"tab\there\""  /- hash-in-word -/,
  "\\\n\t\"}\""  /- line-continuation-without-token-before -/,
  "{ {"  /- multiple-risky-constructs -/,
  "`a#b` \"a\n\tb {\n}\"\n<<END\n  \"q\"\n  END"  /- special-in-backquote -/,
  "EOF\\\n\"{x}# \n}}  \""  /- special-right-after-line-continuation -/,
  "} \\\n\t\"}\""  /- token-after-close-brace-on-same-line -/,
  "b { \\\nb"  /- token-after-open-brace-on-same-line -/,
  "`\n{}`"  /- ws-or-brace-in-backquote -/
]

/-- the protocol lines of the counter-examples -/
def witnessLines : List String :=
  (tokenWitnesses ++ idemWitnesses).map fun s => "rt " ++ Hex.encode s.toUTF8.toList

end CaddyModel.C17
