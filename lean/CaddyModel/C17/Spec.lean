/-
C17 — the small abstract account the property talks about.

"Formatting a Caddyfile never changes its meaning: the formatted text tokenizes to the same
tokens with the same line grouping [...] as the original.  Formatting is idempotent and
terminates on every input."

The *meaning* of a file, as far as the lexer is concerned, is either its rejection class or the
sequence of (token text, quote kind, starts-a-new-line) triples (`grouping`): absolute line
numbers are NOT part of it (the formatter is allowed to drop blank lines).
-/
import CaddyModel.C17.Model

namespace CaddyModel.C17

/-- same rejection, or same texts / quote kinds / line grouping -/
def sameMeaning : Except LexErr (List Token) → Except LexErr (List Token) → Bool
  | .error e1, .error e2 => e1 == e2
  | .ok a, .ok b => grouping a == grouping b
  | _, _ => false

/-- clause 1 at one input: `Tokenize (Format x)` means what `Tokenize x` means -/
def preservesTokens (x : List Rune) : Bool := sameMeaning (tokenize x) (tokenize (format x))

/-- clause 2 at one input: `Format (Format x) = Format x` -/
def idempotentAt (x : List Rune) : Bool := format (format x) == format x

/-- **the command `caddy fmt`** (cmd/commandfuncs.go `cmdFmt`, the code that overwrites the user's
    file): what it emits for a file with content `x` — printed (`caddy fmt <file>`), written back
    (`--overwrite`) or printed for stdin (`caddy fmt -`).  The glue does nothing to the text on the
    way in or out: the result is `Format x`.  This is a DEFINITION of the model; that the real
    command behaves so is checked on every run by the `cf` op (harness cmdfmt.go runs the real
    `caddycmd.Main()` on files, CR LF-heavy ones in particular) and by a regenerated source fact. -/
def cmdFmtRunes (x : List Rune) : List Rune := format x

/-- ASCII text of a Lean string literal as runes (for examples and witnesses) -/
def runes (s : String) : List Rune := s.toList.map Char.toNat

end CaddyModel.C17
