/-
C17 — the fragment `W` on which token preservation and idempotence are PROVED
(`Props.fmt_preserves_tokens_partial`, `Props.fmt_idempotent_partial`):

  plain words · arbitrary blanks / tabs / newlines / other Unicode white space (no CR) ·
  nested blocks written `… {⏎ … ⏎}` — an opening brace is the last word of its line (or the
  very first word of the file), a closing brace is alone on its line.

Everything else (quotes, backquotes, heredocs, comments, escapes, `<`, `#`, braces glued to
words, one-line blocks, CR, BOM …) is excluded; most of it is excluded because the property is
FALSE there (Witness.lean, known_findings.jsonl), the rest (comments, quoted tokens, heredocs,
placeholders, continuations) because the proof has not been extended to it.

A file is cut into chunks = (white-space run, following word).  `inW` is a decidable predicate
on rune strings; it re-flattens the chunks and compares with the input, so no correctness
theorem about the cutting is needed.
-/
import CaddyModel.C17.Spec

namespace CaddyModel.C17

/-- a character of a plain word: no white space, none of the lexer's / formatter's specials -/
def plainCh (c : Rune) : Bool :=
  !isSpace c && c != rDQ && c != rHash && c != rLT && c != rBS && c != rBQ && c != rOpen &&
    c != rClose && c != rBOM

/-- white space other than CR (which the lexer ignores instead of ending the token) -/
def wsCh (c : Rune) : Bool := isSpace c && c != rCR

inductive Kind where
  | plain | opn | cls
deriving DecidableEq, Repr

structure Chunk where
  sep : List Rune     -- white space before the word
  word : List Rune
deriving DecidableEq, Repr

def Chunk.kind (c : Chunk) : Kind :=
  if c.word = [rOpen] then .opn else if c.word = [rClose] then .cls else .plain

/-- number of newlines in the separator -/
def Chunk.nl (c : Chunk) : Nat := countNL c.sep

def flatten : List Chunk → List Rune
  | [] => []
  | c :: cs => c.sep ++ (c.word ++ flatten cs)

/-- the word is `{`, `}` or a non-empty run of plain characters -/
def Chunk.wordOK (c : Chunk) : Bool :=
  c.word == [rOpen] || c.word == [rClose] || (!c.word.isEmpty && c.word.all plainCh)

/-- well-formedness of the chunk list, given the kind of the previous word
    (`none` = this is the first word of the file) -/
def goodFrom : Option Kind → List Chunk → Bool
  | prev, [] => prev == some .plain || prev == some .cls      -- non-empty, not ending in a dangling `{`
  | prev, c :: cs =>
    c.sep.all wsCh && c.wordOK &&
    (match prev with
     | none => c.sep.isEmpty && c.kind != .cls
     | some .plain => !c.sep.isEmpty &&
        (match c.kind with | .opn => c.nl == 0 | .cls => decide (c.nl ≥ 1) | .plain => true)
     | some _ => decide (c.nl ≥ 1) && c.kind != .opn) &&
    goodFrom (some c.kind) cs

/-- cutting a string into chunks: `cur` = the chunk being built (reversed fields) -/
def cut : List Rune → (sep word : List Rune) → List Chunk × List Rune
  | [], sep, word => if word.isEmpty then ([], sep.reverse) else ([⟨sep.reverse, word.reverse⟩], [])
  | c :: rest, sep, word =>
    if isSpace c then
      if word.isEmpty then cut rest (c :: sep) []
      else ((⟨sep.reverse, word.reverse⟩ :: (cut rest [c] []).1), (cut rest [c] []).2)
    else cut rest sep (c :: word)

/-- chunks and trailing white space of a string -/
def chunksOf (x : List Rune) : List Chunk × List Rune := cut x [] []

/-- drop the leading white space of the first chunk (what `TrimSpace` does) -/
def dropLead : List Chunk → List Chunk
  | [] => []
  | c :: cs => ⟨[], c.word⟩ :: cs

/-- **the fragment `W`** (decidable): the input is `lead ++ flatten cs ++ trail` with `lead`,
    `trail` non-CR white space and `cs` a good chunk list -/
def inW (x : List Rune) : Bool :=
  (match (chunksOf x).1 with
   | [] => false
   | c :: cs => c.sep.all wsCh && goodFrom none (⟨[], c.word⟩ :: cs)) &&
  (chunksOf x).2.all wsCh &&
  flatten (chunksOf x).1 ++ (chunksOf x).2 == x

/-! ### the canonical rendering that `Format` produces on `W` -/

def tabsN (n : Nat) : List Rune := List.replicate n rTAB
def nlsN (n : Nat) : List Rune := List.replicate n rNL

/-- nesting after a word of the given kind (cap 10, floor 0) -/
def nextN (N : Nat) : Kind → Nat
  | .opn => min (N + 1) 10
  | .cls => N - 1
  | .plain => N

/-- the separator `Format` writes before chunk `c`; `N` = nesting after the previous word -/
def canonSep (prev : Option Kind) (N : Nat) (c : Chunk) : List Rune :=
  match prev with
  | none => []
  | some .opn => rNL :: tabsN (if c.kind = .cls then N - 1 else N)
  | some _ =>
    match c.kind with
    | .opn => [rSP]
    | .cls => rNL :: tabsN (N - 1)
    | .plain => if c.nl = 0 then [rSP] else nlsN (min c.nl 2) ++ tabsN N

def canon : Option Kind → Nat → List Chunk → List Chunk
  | _, _, [] => []
  | prev, N, c :: cs => ⟨canonSep prev N c, c.word⟩ :: canon (some c.kind) (nextN N c.kind) cs

end CaddyModel.C17
