/-
C17 — the fragment `W` on which token preservation and idempotence are PROVED
(`Props.fmt_preserves_tokens_partial`, `Props.fmt_idempotent_partial`):

  plain words, also with placeholders (`{x}`, `a{x}b`, `{$ENV}`) · arbitrary blanks / tabs / newlines / other Unicode white space (no CR) ·
  nested blocks written `… {⏎ … ⏎}` — an opening brace is the last word of its line (or the
  very first word of the file), a closing brace is alone on its line ·
  one-line double-quoted strings `"…"` (escapes allowed: a backslash takes the next character with it; followed by white space) ·
  simple backquoted strings (one line, any characters — a backslash is literal there —, followed by white space) ·
  comments `# …` (on their own line, after a word, or after `{` / `}` on the same line; any text without backslash, no trailing blanks) — not directly before a `{`.

Everything else (multi-line quotes, multi-line backquotes, heredocs, escapes, `<`, `#` inside words, braces glued to
words, one-line blocks, CR, BOM …) is excluded; most of it is excluded because the property is
FALSE there (Witness.lean, known_findings.jsonl), the rest (multi-line quoted tokens,
multi-line backquoted tokens, heredocs, continuations) because the proof has not been extended to it.

A file is cut into chunks = (white-space run, following word).  `inW` is a decidable predicate
on rune strings; it re-flattens the chunks and compares with the input, so no correctness
theorem about the cutting is needed.
-/
import CaddyModel.C17.Spec

namespace CaddyModel.C17

/-- a character of a plain word: no white space, none of the lexer's / formatter's specials -/
def plainCh (c : Rune) : Bool :=
  !isSpace c && c != rDQ && c != rHash && c != rLT && c != rBS && c != rBQ && c != rOpen &&
    c != rClose && c != rBOM

/-- white space other than CR (which the lexer ignores instead of ending the token) -/
def wsCh (c : Rune) : Bool := isSpace c && c != rCR

/-- a character of a comment's text: anything but the newline and the backslash (which makes
    the LEXER treat the comment's newline as a line continuation; a backtick is harmless since
    the formatter repair) -/
def cmtCh (c : Rune) : Bool := c != rNL && c != rBS

/-- last element of `d :: l` -/
def lastOf (d : Rune) : List Rune → Rune
  | [] => d
  | c :: cs => lastOf c cs

/-- a character inside a simple double-quoted string: anything but the quote, the backslash
    and the newline (blanks, braces, `#`, backquotes are all fine) -/
def dqCh (c : Rune) : Bool := c != rDQ && c != rBS && c != rNL

/-- a character inside a simple backquoted string: anything but the backquote and the newline
    (a backslash is an ordinary character there, for the lexer and for the formatter) -/
def bqCh (c : Rune) : Bool := c != rBQ && c != rNL

inductive Kind where
  | plain | opn | cls | cmt | dq
deriving DecidableEq, Repr

structure Chunk where
  sep : List Rune     -- white space before the word
  word : List Rune    -- a word, or a whole comment `#…` up to (excluding) the end of its line
deriving DecidableEq, Repr

def Chunk.kind (c : Chunk) : Kind :=
  if c.word = [rOpen] then .opn else if c.word = [rClose] then .cls
  else if c.word.head? = some rHash then .cmt
  else if c.word.head? = some rDQ then .dq else if c.word.head? = some rBQ then .dq else .plain

/-- number of newlines in the separator -/
def Chunk.nl (c : Chunk) : Nat := countNL c.sep

def flatten : List Chunk → List Rune
  | [] => []
  | c :: cs => c.sep ++ (c.word ++ flatten cs)

/-- a word with placeholders: plain characters and groups `{…}` of plain characters (`{x}`,
    `a{x}b`, `{$ENV}`, `{}`); the flag says whether a group is open -/
def pwOK : Bool → List Rune → Bool
  | false, [] => true
  | true, [] => false
  | false, c :: t => if c == rOpen then pwOK true t else plainCh c && pwOK false t
  | true, c :: t => if c == rClose then pwOK false t else plainCh c && pwOK true t

/-- content of a one-line double-quoted string: no newline, no unescaped quote; a backslash
    takes the next character with it (`\"`, `\\`, `\n` …) -/
def dqBody : List Rune → Bool
  | [] => true
  | c :: t =>
    if c == rBS then
      (match t with
       | [] => false
       | d :: t' => d != rNL && dqBody t')
    else c != rDQ && c != rNL && dqBody t

/-- `t` = content of a one-line string (see `dqBody`) followed by its closing quote; the flag
    says that the previous character was an escaping backslash -/
def dqTailE : Bool → List Rune → Bool
  | _, [] => false
  | true, c :: t => c != rNL && dqTailE false t
  | false, c :: t =>
    if c == rBS then dqTailE true t else if c == rDQ then t.isEmpty else c != rNL && dqTailE false t

def dqTail (t : List Rune) : Bool := dqTailE false t

/-- `t` = content of a simple backquoted string followed by its closing backquote -/
def bqTail : List Rune → Bool
  | [] => false
  | [c] => c == rBQ
  | c :: t => bqCh c && bqTail t

/-- the word is `{`, `}`, a comment without trailing blank, a one-line double-quoted string
    `"…"` (escapes allowed), a simple backquoted string (one line), or a non-empty word of plain characters and placeholder
    groups `{…}` -/
def Chunk.wordOK (c : Chunk) : Bool :=
  c.word == [rOpen] || c.word == [rClose] ||
  (match c.word with
   | [] => false
   | h :: t => (h == rHash && t.all cmtCh && !isSpace (lastOf h t)) || (h == rDQ && dqTail t) ||
               (h == rBQ && bqTail t) || pwOK false (h :: t))

/-- well-formedness of the chunk list, given the kind of the previous word
    (`none` = this is the first word of the file) -/
def goodFrom : Option Kind → List Chunk → Bool
  | prev, [] =>    -- non-empty, no dangling `{`
    prev == some .plain || prev == some .cls || prev == some .cmt || prev == some .dq
  | prev, c :: cs =>
    c.sep.all wsCh && c.wordOK &&
    (match prev with
     | none => c.sep.isEmpty && c.kind != .cls
     | some .plain => !c.sep.isEmpty &&
        (match c.kind with | .opn => c.nl == 0 | .cls => decide (c.nl ≥ 1) | _ => true)
     | some .dq => !c.sep.isEmpty &&
        (match c.kind with | .opn => c.nl == 0 | .cls => decide (c.nl ≥ 1) | _ => true)
     | some .cmt => c.sep.head? == some rNL && c.kind != .opn
     | some .opn =>   -- a comment may follow the brace on the same line (it is moved to the next line)
        (decide (c.nl ≥ 1) || (c.kind == .cmt && !c.sep.isEmpty)) && c.kind != .opn
     | some _ =>      -- after `}`: likewise a comment may follow on the same line
        (decide (c.nl ≥ 1) || (c.kind == .cmt && !c.sep.isEmpty)) && c.kind != .opn) &&
    goodFrom (some c.kind) cs

/-- cutting a string into chunks: `sep`, `word` = the chunk being built (reversed); `mode` 1 = the
    word is a comment (it runs to the end of the line; its trailing blanks go to the next
    separator), 2 = inside a double-quoted string (runs to the closing quote), 3 = inside a backquoted string, 4 = right after a backslash inside a double-quoted string, 0 = otherwise -/
def cut : List Rune → (sep word : List Rune) → (mode : Nat) → List Chunk × List Rune
  | [], sep, word, mode =>
    if word.isEmpty then ([], sep.reverse)
    else if mode = 1 then ([⟨sep.reverse, (word.dropWhile isSpace).reverse⟩], (word.takeWhile isSpace).reverse)
    else ([⟨sep.reverse, word.reverse⟩], [])
  | c :: rest, sep, word, mode =>
    if mode = 1 then
      if c == rNL then
        (⟨sep.reverse, (word.dropWhile isSpace).reverse⟩ :: (cut rest (c :: word.takeWhile isSpace) [] 0).1,
          (cut rest (c :: word.takeWhile isSpace) [] 0).2)
      else cut rest sep (c :: word) 1
    else if mode = 2 then cut rest sep (c :: word) (if c == rDQ then 0 else if c == rBS then 4 else 2)
    else if mode = 4 then cut rest sep (c :: word) 2
    else if mode = 3 then cut rest sep (c :: word) (if c == rBQ then 0 else 3)
    else if isSpace c then
      if word.isEmpty then cut rest (c :: sep) [] 0
      else ((⟨sep.reverse, word.reverse⟩ :: (cut rest [c] [] 0).1), (cut rest [c] [] 0).2)
    else cut rest sep (c :: word) (if word.isEmpty && c == rHash then 1 else if word.isEmpty && c == rDQ then 2 else if word.isEmpty && c == rBQ then 3 else 0)

/-- chunks and trailing white space of a string -/
def chunksOf (x : List Rune) : List Chunk × List Rune := cut x [] [] 0

/-- drop the leading white space of the first chunk (what `TrimSpace` does) -/
def dropLead : List Chunk → List Chunk
  | [] => []
  | c :: cs => ⟨[], c.word⟩ :: cs

/-- **the fragment `W`** (decidable): the input is `lead ++ flatten cs ++ trail` with `lead`,
    `trail` non-CR white space and `cs` a good chunk list -/
def inW (x : List Rune) : Bool :=
  (match (chunksOf x).1 with
   | [] => false
   | c :: cs => c.sep.all wsCh && goodFrom none (⟨[], c.word⟩ :: cs)) &&
  (chunksOf x).2.all wsCh &&
  flatten (chunksOf x).1 ++ (chunksOf x).2 == x

/-! ### the canonical rendering that `Format` produces on `W` -/

def tabsN (n : Nat) : List Rune := List.replicate n rTAB
def nlsN (n : Nat) : List Rune := List.replicate n rNL

/-- nesting after a word of the given kind (cap 10, floor 0) -/
def nextN (N : Nat) : Kind → Nat
  | .opn => if N < 10 then N + 1 else N
  | .cls => N - 1
  | _ => N

/-- a word that starts with a placeholder brace, on a new line after a word or a string: the
    formatter has already written the blank it writes before a `{` when it meets the line break -/
def braceLead (prev : Option Kind) (c : Chunk) : List Rune :=
  if (prev = some .plain ∨ prev = some .dq) ∧ c.word.head? = some rOpen then [rSP] else []

/-- what `Format` writes between a word and the next one on the same line: one blank — except
    after `}` (only a comment can follow there): the indentation goes between brace and comment,
    at nesting 0 the comment is moved two lines down -/
def sameLine (prev : Option Kind) (N : Nat) : List Rune :=
  if prev = some .cls then (if N = 0 then [rNL, rNL] else tabsN N) else [rSP]

/-- the separator `Format` writes before chunk `c`; `N` = nesting after the previous word.
    After a comment the first newline is the one that ends the comment. -/
def canonSep (prev : Option Kind) (N : Nat) (c : Chunk) : List Rune :=
  match prev with
  | none => []
  | some .opn => rNL :: tabsN (if c.kind = .cls then N - 1 else N)
  | some .cmt =>
    if c.kind = .cls then rNL :: tabsN (N - 1) else rNL :: (nlsN (min (c.nl - 1) 2) ++ tabsN N)
  | some _ =>
    match c.kind with
    | .opn => [rSP]
    | .cls => rNL :: tabsN (N - 1)
    | _ => if c.nl = 0 then sameLine prev N else braceLead prev c ++ (nlsN (min c.nl 2) ++ tabsN N)

def canon : Option Kind → Nat → List Chunk → List Chunk
  | _, _, [] => []
  | prev, N, c :: cs => ⟨canonSep prev N c, c.word⟩ :: canon (some c.kind) (nextN N c.kind) cs

end CaddyModel.C17
