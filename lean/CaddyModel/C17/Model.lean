/-
C17 — model of `caddyfile.Format` (caddyconfig/caddyfile/formatter.go, as repaired in the fix
round: patches C17-01..09), transliterated statement by statement: the local variables of the rune loop are the fields of `FState`,
one loop iteration is `step`, `continue` is "return the state".  The output buffer is kept
REVERSED (`rout`, newest rune first) so that `write` is a cons and `last` is its head; the
two `bytes.TrimSpace` calls become `trimSpace` on rune lists (rune boundaries of a Go byte
string are the same from both ends, so trimming commutes with UTF-8 decoding).
Core Lean only; structural recursion only (`List.foldl` over the input: termination of
`Format` is by construction, see `Props.fmt_total`).
-/
import CaddyModel.C17.Lexer

namespace CaddyModel.C17

structure FState where
  rout : List Rune := []          -- out, reversed
  last : Rune := 0                -- the last character that was written to the result
  space : Bool := true
  bol : Bool := true              -- beginningOfLine
  openBrace : Bool := false
  openBraceWritten : Bool := false
  openBraceSpace : Bool := false
  newLines : Nat := 0
  comment : Bool := false
  quoted : Bool := false
  escaped : Bool := false
  heredoc : Nat := 0              -- 0 heredocClosed, 1 heredocOpening, 2 heredocOpened
  heredocStart : Bool := false    -- the previous character was a `<` that begins a token
  heredocEscaped : Bool := false
  marker : List Rune := []        -- heredocMarker
  closing : List Rune := []       -- heredocClosingMarker
  nesting : Nat := 0
  backquoted : Bool := false      -- inside a token that started with a backquote
  tokenEnded : Bool := false      -- the previous character closed a quoted segment (a new token starts here)
  continued : Bool := false       -- the last character written is an escaped newline (the line goes on)
deriving DecidableEq, Repr

/-- `write(ch)` -/
def FState.write (s : FState) (ch : Rune) : FState :=
  { s with rout := ch :: s.rout, last := ch, continued := false }

/-- `for tabs := n; tabs > 0; tabs-- { write('\t') }` -/
def FState.tabs (s : FState) : Nat → FState
  | 0 => s
  | n + 1 => (s.write rTAB).tabs n

/-- `indent()` -/
def FState.indent (s : FState) : FState := s.tabs s.nesting

/-- `nextLine()` -/
def FState.nextLine (s : FState) : FState := { s.write rNL with bol := true }

/-- `for i := 0; i < n; i++ { nextLine() }` -/
def FState.nextLines (s : FState) : Nat → FState
  | 0 => s
  | n + 1 => s.nextLine.nextLines n

/-! The loop body, bottom-up (each def is one stretch of the Go loop body; the Go statement it
mirrors is quoted above it). -/

/-- `write(ch); beginningOfLine = false` (the `heredocStart` update in between is in `stepRegular`) -/
def stepWord6 (s : FState) (_spacePrior : Bool) (ch : Rune) : FState :=
  { s.write ch with bol := false }

/-- `if openBrace && !openBraceWritten { write('{'); openBraceWritten = true }` (291-294) -/
def stepWord5 (s : FState) (spacePrior : Bool) (ch : Rune) : FState :=
  stepWord6 (if s.openBrace && !s.openBraceWritten then { s.write rOpen with openBraceWritten := true } else s) spacePrior ch

/-- `if !beginningOfLine && spacePrior { write(' ') }` (287-289) -/
def stepWord4 (s : FState) (spacePrior : Bool) (ch : Rune) : FState :=
  stepWord5 (if !s.bol && spacePrior then s.write rSP else s) spacePrior ch

/-- `if nesting == 0 && last == '}' && beginningOfLine { nextLine(); nextLine() }` (282-285) -/
def stepWord3 (s : FState) (spacePrior : Bool) (ch : Rune) : FState :=
  stepWord4 (if s.nesting == 0 && s.last == rClose && s.bol then s.nextLine.nextLine else s) spacePrior ch

/-- `if beginningOfLine { indent() }` (279-281) -/
def stepWord2 (s : FState) (spacePrior : Bool) (ch : Rune) : FState :=
  stepWord3 (if s.bol then s.indent else s) spacePrior ch

/-- `if newLines > 2 { newLines = 2 }; for i := 0; i < newLines; i++ { nextLine() }; newLines = 0`
    (272-278), then the rest: an ordinary character of a word (also an opening quote, `#`, a
    glued brace) -/
def stepWord (s : FState) (spacePrior : Bool) (ch : Rune) : FState :=
  stepWord2 ({ s.nextLines (min s.newLines 2) with newLines := 0 }) spacePrior ch

/-- `if nesting == 0 && last == '}' { nextLine(); nextLine() }; openBrace = false` (219-224) -/
def flush1 (s : FState) : FState :=
  { (if s.nesting == 0 && s.last == rClose then s.nextLine.nextLine else s) with openBrace := false }

/-- `if beginningOfLine { indent() } else if !openBraceSpace { write(' ') }` (225-229) -/
def flush2 (s : FState) : FState :=
  if s.bol then s.indent else if !s.openBraceSpace then s.write rSP else s

/-- `write('{'); openBraceWritten = true; nextLine(); newLines = 0` (230-233) -/
def flush3 (s : FState) : FState :=
  { ({ s.write rOpen with openBraceWritten := true }).nextLine with newLines := 0 }

/-- `if nesting < 10 { nesting++ }` — "prevent infinite nesting from ridiculous inputs (issue #4169)" -/
def flush4 (s : FState) : FState :=
  if s.nesting < 10 then { s with nesting := s.nesting + 1 } else s

/-- lines 218-238: the pending `{` is written, followed by a newline, when the next word starts -/
def flushOpen (s : FState) : FState := flush4 (flush3 (flush2 (flush1 s)))

/-- the `switch` on braces, then the ordinary-character tail -/
def stepBrace (s : FState) (spacePrior : Bool) (ch : Rune) : FState :=
  if ch == rOpen then
    -- openBrace = true; openBraceSpace = spacePrior && !beginningOfLine; if openBraceSpace { write(' ') }
    -- openBraceWritten = false; continue
    { (if spacePrior && !s.bol then s.write rSP else s) with
        openBrace := true, openBraceSpace := spacePrior && !s.bol, openBraceWritten := false }
  else if ch == rClose && (spacePrior || !s.openBrace) then
    -- if last != '\n' { nextLine() }; if nesting > 0 { nesting-- }; indent(); write('}'); newLines = 0
    -- (an escaped newline does not end the line: `|| (continued && newLines > 0)`)
    { ((({ (if s.last != rNL || (s.continued && decide (s.newLines > 0)) then s.nextLine else s) with
            nesting := s.nesting - 1 }).indent).write rClose) with newLines := 0 }
  else stepWord s spacePrior ch

/-- `if openBrace && spacePrior && !openBraceWritten { … }` (218) -/
def stepRegular2 (s : FState) (spacePrior : Bool) (ch : Rune) : FState :=
  stepBrace (if s.openBrace && spacePrior && !s.openBraceWritten then flushOpen s else s) spacePrior ch

/-- "we know we are in a regular part of the file".  `tokenStart := spacePrior || tokenEnded`;
    `if ch == '#' && tokenStart { comment = true }`; …; `if tokenStart && ch == '<' { heredocStart = true }`
    (that statement sits just before the final `write(ch)`, which only `<` as an ordinary
    character reaches; nothing reads the flag in between) -/
def stepRegular (s : FState) (spacePrior tokenStart : Bool) (ch : Rune) : FState :=
  if tokenStart && ch == rLT then
    { stepRegular2 s spacePrior ch with heredocStart := true }
  else stepRegular2 (if ch == rHash && tokenStart then { s with comment := true } else s) spacePrior ch

/-- comments, backquoted and quoted segments, escapes, whitespace -/
def stepLiteral (s : FState) (ch : Rune) : FState :=
  if s.comment then
    if ch == rNL then ({ s with comment := false, space := true }).nextLine
    else s.write ch
  else if s.backquoted then
    -- literal up to the closing backquote (no escapes inside); the lexer starts a new token after it
    { s.write ch with backquoted := !(ch == rBQ), tokenEnded := (if ch == rBQ then true else s.tokenEnded) }
  else if s.escaped then
    -- an escaped newline (outside quotes) separates tokens like white space
    { ((if ch == rLT then { s with heredocEscaped := true } else s).write ch) with
        escaped := false, space := (if ch == rNL && !s.quoted then true else s.space),
        continued := ch == rNL && !s.quoted,
        heredocEscaped := (if ch == rNL && !s.quoted then false else (ch == rLT || s.heredocEscaped)) }
  else if ch == rBS && s.quoted then
    { s.write ch with escaped := true }
  else if s.quoted then
    { s.write ch with quoted := !(ch == rDQ), tokenEnded := (if ch == rDQ then true else s.tokenEnded) }
  else if isSpace ch then
    -- CR is ignored altogether, as in the lexer
    if ch == rCR then s
    else { s with space := true, tokenEnded := false, heredocEscaped := false,
                  newLines := s.newLines + (if ch == rNL then 1 else 0) }
  else
    -- if (space || tokenEnded) && ch == '"' { quoted = true }; … '`' { backquoted = true }
    -- spacePrior := space; space = false; tokenStart := spacePrior || tokenEnded; tokenEnded = false
    -- (outside of quotes a backslash sets `escaped` and is then an ordinary character of a word)
    stepRegular { s with quoted := (s.space || s.tokenEnded) && ch == rDQ,
                         backquoted := (s.space || s.tokenEnded) && ch == rBQ, space := false, tokenEnded := false,
                         escaped := ch == rBS }
      s.space (s.space || s.tokenEnded) ch

/-- `heredocClosingMarker = append(…, ch); if len > len(marker) { closing = closing[1:] }` -/
def pushClosing (closing marker : List Rune) (ch : Rune) : List Rune :=
  if (closing ++ [ch]).length > marker.length then (closing ++ [ch]).drop 1 else closing ++ [ch]

/-- heredoc marker collection and heredoc body -/
def stepHeredoc (s : FState) (ch : Rune) : FState :=
  if s.heredoc == 1 then
    if ch == rNL then
      if markerOK s.marker then ({ s with heredoc := 2 }).write ch
      else ({ s with marker := [], heredoc := 0, space := true }).nextLine
    else if ch == rCR then s      -- skip CR, we only care about LF
    else if ch == rSP then
      -- a space means it's just a regular token and not a heredoc
      stepLiteral { s with marker := [], heredoc := 0 } ch
    else ({ s with marker := s.marker ++ [ch] }).write ch
  else if s.heredoc == 2 then
    -- all characters are read&write as-is; like in the lexer the heredoc ends with the first
    -- occurrence of the marker, and a new token may start right after it
    if pushClosing s.closing s.marker ch == s.marker then
      { s.write ch with marker := [], closing := [], heredoc := 0, tokenEnded := true }
    else
      { s.write ch with closing := if ch == rNL then [] else pushClosing s.closing s.marker ch }
  else stepLiteral s ch

/-- one iteration of the `for` loop: "detect whether we have the start of a heredoc"
    (`heredocStart && ch == '<'`), then `if ch != '\\r' { heredocStart = false }` and the rest -/
def step (s : FState) (ch : Rune) : FState :=
  if !s.quoted && !(s.heredoc != 0 || s.heredocEscaped) && s.heredocStart && ch == rLT then
    { s.write ch with heredoc := 1, heredocStart := false }
  else stepHeredoc { s with heredocStart := s.heredocStart && ch == rCR } ch   -- CR is ignored altogether

/-- `bytes.TrimSpace` on runes -/
def trimLeft (l : List Rune) : List Rune := l.dropWhile isSpace
def trimSpace (l : List Rune) : List Rune := ((trimLeft l).reverse.dropWhile isSpace).reverse

/-- the loop over the (trimmed) input -/
def run (inp : List Rune) : FState := inp.foldl step {}

/-- `append(bytes.TrimSpace(out.Bytes()), '\n')` for a reversed buffer -/
def finish (rout : List Rune) : List Rune := (trimLeft (trimLeft rout).reverse) ++ [rNL]

/-- after the loop: "an opening brace at the very end of the input is still waiting for the
    token after it; write it rather than dropping it" -/
def flushEnd (s : FState) : FState :=
  if s.openBrace && !s.openBraceWritten then
    (flush2 (flush1 s)).write rOpen
  else s

/-- `Format` after the empty-input and byte-order-mark prologue -/
def formatCore (inp : List Rune) : List Rune := finish (flushEnd (run (trimSpace inp))).rout

/-- `Format` on runes: the empty input stays empty ("not a Caddyfile; do not turn it into one");
    a byte order mark at the beginning of the trimmed input is kept but is not part of the
    first token (`bytes.TrimSpace`, BOM check, `bytes.TrimSpace` again inside `formatCore`) -/
def format (inp : List Rune) : List Rune :=
  if inp.isEmpty then []
  else match trimSpace inp with
    | [] => formatCore []
    | c :: rest => if c = rBOM then rBOM :: formatCore rest else formatCore (c :: rest)

/-- `Format` on bytes (what `caddy fmt` applies to a file) -/
def formatBytes (b : Bytes) : Bytes := encodeUtf8 (format (decodeUtf8 b))

end CaddyModel.C17
