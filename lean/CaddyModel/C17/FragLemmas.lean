/-
C17 — helper lemmas, part 2: the two machines on the fragment `W` (Fragment.lean).
  §1 character facts            §2 one formatter step in a "regular" state
  §3 the formatter over a chunk §4 the lexer over a chunk
-/
import CaddyModel.C17.Fragment
import CaddyModel.C17.Lemmas

-- (case-split proofs share one simp set; an argument unused in some branch is not worth a warning that
-- drowns real errors in the build log)
set_option linter.unusedSimpArgs false

namespace CaddyModel.C17

/-! ### §1 character facts -/

theorem plainCh_spec {c : Rune} (h : plainCh c = true) :
    isSpace c = false ∧ c ≠ 34 ∧ c ≠ 35 ∧ c ≠ 60 ∧ c ≠ 92 ∧ c ≠ 96 ∧ c ≠ 123 ∧ c ≠ 125 ∧ c ≠ 0xFEFF := by
  simpa [plainCh, rDQ, rHash, rLT, rBS, rBQ, rOpen, rClose, rBOM, and_assoc] using h

theorem isSpace_ne {c : Rune} (h : isSpace c = false) : c ≠ 10 ∧ c ≠ 13 ∧ c ≠ 32 ∧ c ≠ 9 := by
  refine ⟨?_, ?_, ?_, ?_⟩ <;> (intro hc; subst hc; simp [isSpace] at h)

theorem wsCh_spec {c : Rune} (h : wsCh c = true) :
    isSpace c = true ∧ c ≠ 13 ∧ c ≠ 34 ∧ c ≠ 35 ∧ c ≠ 60 ∧ c ≠ 92 ∧ c ≠ 96 ∧ c ≠ 123 ∧ c ≠ 125 := by
  have h1 : isSpace c = true ∧ c ≠ 13 := by simpa [wsCh, rCR] using h
  refine ⟨h1.1, h1.2, ?_, ?_, ?_, ?_, ?_, ?_, ?_⟩ <;>
    (intro hc; subst hc; have := h1.1; simp [isSpace] at this)

/-! ### §2 one formatter step in a regular state -/

/-- no literal mode is active: not in a comment / quote / escape / heredoc / backquote -/
structure Reg (s : FState) : Prop where
  comment : s.comment = false
  quoted : s.quoted = false
  escaped : s.escaped = false
  heredoc : s.heredoc = 0
  bq : s.backquoted = false
  hst : s.heredocStart = false
  te : s.tokenEnded = false
  cont : s.continued = false
  lastLT : s.last ≠ 60

/-- `if openBrace && spacePrior && !openBraceWritten { … }` -/
def maybeFlush (s : FState) (sp : Bool) : FState :=
  if s.openBrace && sp && !s.openBraceWritten then flushOpen s else s

theorem step_ws {s : FState} {c : Rune} (hr : Reg s) (hc : wsCh c = true) :
    step s c = { s with space := true, heredocEscaped := false,
                        newLines := s.newLines + (if c == rNL then 1 else 0) } := by
  obtain ⟨hsp, h13, h34, h35, h60, h92, h96, h123, h125⟩ := wsCh_spec hc
  obtain ⟨h1, h2, h3, h4, h5, h7, h8, h9, h6⟩ := hr
  obtain ⟨rout, last, space, bol, ob, obw, obs, nls, cm, q, esc, hd, hst, hde, mk, cl, nest, wbq, tke, ctd⟩ := s
  simp only at h1 h2 h3 h4 h5 h6 h7 h8 h9
  subst h1 h2 h3 h4 h5 h7 h8 h9
  simp [step, stepHeredoc, stepLiteral, rLT, rBS, rNL, rCR, *]

theorem step_plain {s : FState} {c : Rune} (hr : Reg s) (hc : plainCh c = true) :
    step s c = stepWord (maybeFlush { s with space := false } s.space) s.space c := by
  obtain ⟨hsp, h34, h35, h60, h92, h96, h123, h125, hbom⟩ := plainCh_spec hc
  obtain ⟨h1, h2, h3, h4, h5, h7, h8, h9, h6⟩ := hr
  obtain ⟨rout, last, space, bol, ob, obw, obs, nls, cm, q, esc, hd, hst, hde, mk, cl, nest, wbq, tke, ctd⟩ := s
  simp only at h1 h2 h3 h4 h5 h6 h7 h8 h9
  subst h1 h2 h3 h4 h5 h7 h8 h9
  have hq : (c == 34) = false := by simp [h34]
  have hbq : (c == 96) = false := by simp [h96]
  have hbs : (c == 92) = false := by simp [h92]
  simp [step, stepHeredoc, stepLiteral, stepRegular, stepRegular2, stepBrace, maybeFlush,
    rBQ, rLT, rBS, rDQ, rHash, rOpen, rClose, *]

/-- first character of a plain word or of a comment -/
def startCh (c : Rune) : Bool := plainCh c || c == rHash

theorem startCh_spec {c : Rune} (h : startCh c = true) :
    isSpace c = false ∧ c ≠ 34 ∧ c ≠ 60 ∧ c ≠ 92 ∧ c ≠ 96 ∧ c ≠ 123 ∧ c ≠ 125 := by
  unfold startCh at h
  simp only [Bool.or_eq_true, beq_iff_eq] at h
  rcases h with h | h
  · have := plainCh_spec h
    exact ⟨this.1, this.2.1, this.2.2.2.1, this.2.2.2.2.1, this.2.2.2.2.2.1, this.2.2.2.2.2.2.1, this.2.2.2.2.2.2.2.1⟩
  · subst h; decide

/-- `#` is an ordinary first character that additionally switches comment mode on -/
theorem step_start {s : FState} {c : Rune} (hr : Reg s) (hc : startCh c = true) :
    step s c = stepWord (maybeFlush { s with space := false, comment := (c == rHash && s.space) } s.space) s.space c := by
  obtain ⟨hsp, h34, h60, h92, h96, h123, h125⟩ := startCh_spec hc
  obtain ⟨h1, h2, h3, h4, h5, h7, h8, h9, h6⟩ := hr
  obtain ⟨rout, last, space, bol, ob, obw, obs, nls, cm, q, esc, hd, hst, hde, mk, cl, nest, wbq, tke, ctd⟩ := s
  simp only at h1 h2 h3 h4 h5 h6 h7 h8 h9
  subst h1 h2 h3 h4 h5 h7 h8 h9
  have hq : (c == 34) = false := by simp [h34]
  have hbq : (c == 96) = false := by simp [h96]
  have hbs : (c == 92) = false := by simp [h92]
  by_cases hh : c = 35
  · subst hh
    cases space <;>
    simp [step, stepHeredoc, stepLiteral, stepRegular, stepRegular2, stepBrace, maybeFlush,
      rBQ, rLT, rBS, rDQ, rHash, rOpen, rClose, isSpace]
  · have hh' : (c == 35) = false := by simp [hh]
    simp [step, stepHeredoc, stepLiteral, stepRegular, stepRegular2, stepBrace, maybeFlush,
      rBQ, rLT, rBS, rDQ, rHash, rOpen, rClose, *]

theorem step_open {s : FState} (hr : Reg s) :
    step s rOpen = stepBrace (maybeFlush { s with space := false } s.space) s.space rOpen := by
  obtain ⟨h1, h2, h3, h4, h5, h7, h8, h9, h6⟩ := hr
  obtain ⟨rout, last, space, bol, ob, obw, obs, nls, cm, q, esc, hd, hst, hde, mk, cl, nest, wbq, tke, ctd⟩ := s
  simp only at h1 h2 h3 h4 h5 h6 h7 h8 h9
  subst h1 h2 h3 h4 h5 h7 h8 h9
  simp [step, stepHeredoc, stepLiteral, stepRegular, stepRegular2, maybeFlush,
    rBQ, rLT, rBS, rDQ, rHash, rOpen, isSpace, *]

theorem step_close {s : FState} (hr : Reg s) :
    step s rClose = stepBrace (maybeFlush { s with space := false } s.space) s.space rClose := by
  obtain ⟨h1, h2, h3, h4, h5, h7, h8, h9, h6⟩ := hr
  obtain ⟨rout, last, space, bol, ob, obw, obs, nls, cm, q, esc, hd, hst, hde, mk, cl, nest, wbq, tke, ctd⟩ := s
  simp only at h1 h2 h3 h4 h5 h6 h7 h8 h9
  subst h1 h2 h3 h4 h5 h7 h8 h9
  simp [step, stepHeredoc, stepLiteral, stepRegular, stepRegular2, maybeFlush,
    rBQ, rLT, rBS, rDQ, rHash, rClose, isSpace, *]

/-- closed forms of the two write loops -/
theorem tabs_eq (n : Nat) : ∀ s : FState,
    s.tabs n = { s with rout := List.replicate n rTAB ++ s.rout, last := if n = 0 then s.last else rTAB,
                        continued := if n = 0 then s.continued else false } := by
  induction n with
  | zero => intro s; rfl
  | succ n ih =>
    intro s
    simp only [FState.tabs, ih, FState.write]
    cases n with
    | zero => simp [List.replicate]
    | succ m =>
      simp only [Nat.succ_ne_zero, ↓reduceIte]
      congr 1
      rw [List.replicate_succ' (n := m + 1), List.append_assoc]; rfl

theorem nextLines_eq (n : Nat) : ∀ s : FState,
    s.nextLines n = { s with rout := List.replicate n rNL ++ s.rout, last := if n = 0 then s.last else rNL,
                             bol := if n = 0 then s.bol else true,
                             continued := if n = 0 then s.continued else false } := by
  induction n with
  | zero => intro s; rfl
  | succ n ih =>
    intro s
    simp only [FState.nextLines, ih, FState.nextLine, FState.write]
    cases n with
    | zero => simp [List.replicate]
    | succ m =>
      simp only [Nat.succ_ne_zero, ↓reduceIte]
      congr 1
      rw [List.replicate_succ' (n := m + 1), List.append_assoc]; rfl

/-- a character of a word: plain, or a placeholder brace -/
def wordCh (c : Rune) : Bool := plainCh c || c == rOpen || c == rClose

theorem wordCh_spec {c : Rune} (h : wordCh c = true) : isSpace c = false ∧ c ≠ 60 := by
  unfold wordCh at h
  simp only [Bool.or_eq_true, beq_iff_eq] at h
  rcases h with (h | h) | h
  · have := plainCh_spec h; exact ⟨this.1, this.2.2.2.1⟩
  · subst h; decide
  · subst h; decide

theorem pw_all : ∀ (w : List Rune) (inB : Bool), pwOK inB w = true → w.all wordCh = true
  | [], _, _ => rfl
  | c :: t, false, h => by
    simp only [pwOK] at h
    split at h
    · rename_i hc
      simp only [List.all_cons, Bool.and_eq_true]
      exact ⟨by simp [wordCh, hc], pw_all t true h⟩
    · simp only [Bool.and_eq_true] at h
      simp only [List.all_cons, Bool.and_eq_true]
      exact ⟨by simp [wordCh, h.1], pw_all t false h.2⟩
  | c :: t, true, h => by
    simp only [pwOK] at h
    split at h
    · rename_i hc
      simp only [List.all_cons, Bool.and_eq_true]
      exact ⟨by simp [wordCh, hc], pw_all t false h⟩
    · simp only [Bool.and_eq_true] at h
      simp only [List.all_cons, Bool.and_eq_true]
      exact ⟨by simp [wordCh, h.1], pw_all t true h.2⟩

theorem lastOf_wordCh : ∀ (l : List Rune) (d : Rune), wordCh d = true → l.all wordCh = true → wordCh (lastOf d l) = true
  | [], _, hd, _ => hd
  | c :: cs, _, _, hl => by
    simp only [List.all_cons, Bool.and_eq_true] at hl
    exact lastOf_wordCh cs c hl.1 hl.2

/-- inside a word, no brace pending: a plain character is copied -/
theorem step_plain_mid {s : FState} {c : Rune} (hr : Reg s) (hc : plainCh c = true) (h1 : s.space = false)
    (h2 : s.bol = false) (h3 : s.newLines = 0) (h4 : (s.openBrace && !s.openBraceWritten) = false) :
    step s c = { s with rout := c :: s.rout, last := c } := by
  rw [step_plain hr hc]
  have hcont := hr.cont
  obtain ⟨rout, last, space, bol, ob, obw, obs, nls, cm, q, esc, hd, hst, hde, mk, cl, nest, wbq, tke, ctd⟩ := s
  simp only at h1 h2 h3 h4 hcont
  subst h1 h2 h3 hcont
  cases ob <;> cases obw <;> simp at h4 <;>
  simp [maybeFlush, stepWord, stepWord2, stepWord3, stepWord4, stepWord5, stepWord6, FState.nextLines, FState.write]

/-- inside a word: the opening brace of a placeholder is kept back for one character -/
theorem step_lb_mid {s : FState} (hr : Reg s) (h1 : s.space = false) :
    step s rOpen = { s with openBrace := true, openBraceSpace := false, openBraceWritten := false } := by
  rw [step_open hr]
  obtain ⟨rout, last, space, bol, ob, obw, obs, nls, cm, q, esc, hd, hst, hde, mk, cl, nest, wbq, tke, ctd⟩ := s
  simp only at h1
  subst h1
  simp [maybeFlush, stepBrace, rOpen]

/-- … and written together with the character after it (a plain one, or `}` for `{}`) -/
theorem step_after_lb {s : FState} {c : Rune} (hr : Reg s) (hc : plainCh c = true ∨ c = rClose) (h1 : s.space = false)
    (h2 : s.bol = false) (h3 : s.newLines = 0) (h4 : s.openBrace = true) (h5 : s.openBraceWritten = false) :
    step s c = { s with rout := c :: rOpen :: s.rout, last := c, openBraceWritten := true } := by
  have hcont := hr.cont
  rcases hc with hc | hc
  · rw [step_plain hr hc]
    obtain ⟨rout, last, space, bol, ob, obw, obs, nls, cm, q, esc, hd, hst, hde, mk, cl, nest, wbq, tke, ctd⟩ := s
    simp only at h1 h2 h3 h4 h5 hcont
    subst h1 h2 h3 h4 h5 hcont
    simp [maybeFlush, stepWord, stepWord2, stepWord3, stepWord4, stepWord5, stepWord6, FState.nextLines, FState.write]
  · subst hc
    rw [step_close hr]
    obtain ⟨rout, last, space, bol, ob, obw, obs, nls, cm, q, esc, hd, hst, hde, mk, cl, nest, wbq, tke, ctd⟩ := s
    simp only at h1 h2 h3 h4 h5 hcont
    subst h1 h2 h3 h4 h5 hcont
    simp [maybeFlush, stepBrace, stepWord, stepWord2, stepWord3, stepWord4, stepWord5, stepWord6, FState.nextLines,
      FState.write, rOpen, rClose]

/-- inside a word, after `{…`: the closing brace of the placeholder is an ordinary character -/
theorem step_close_mid {s : FState} (hr : Reg s) (h1 : s.space = false) (h2 : s.bol = false) (h3 : s.newLines = 0)
    (h4 : s.openBrace = true) (h5 : s.openBraceWritten = true) :
    step s rClose = { s with rout := rClose :: s.rout, last := rClose } := by
  have hcont := hr.cont
  rw [step_close hr]
  obtain ⟨rout, last, space, bol, ob, obw, obs, nls, cm, q, esc, hd, hst, hde, mk, cl, nest, wbq, tke, ctd⟩ := s
  simp only at h1 h2 h3 h4 h5 hcont
  subst h1 h2 h3 h4 h5 hcont
  simp [maybeFlush, stepBrace, stepWord, stepWord2, stepWord3, stepWord4, stepWord5, stepWord6, FState.nextLines,
    FState.write, rOpen, rClose]

/-- **the rest of a word** (plain characters and placeholder groups) is copied; afterwards no
    brace is pending (`inB` = we start inside a group) -/
theorem pw_tail : ∀ (w : List Rune) (inB : Bool) (s : FState), Reg s → s.space = false → s.bol = false →
    s.newLines = 0 →
    (if inB then s.openBrace = true ∧ s.openBraceWritten = true else (s.openBrace && !s.openBraceWritten) = false) →
    pwOK inB w = true →
    ∃ ob obw obs, w.foldl step s = { s with rout := w.reverse ++ s.rout, last := lastOf s.last w, openBrace := ob, openBraceWritten := obw, openBraceSpace := obs } ∧ (ob && !obw) = false
  | [], false, s, _, _, _, _, hb, _ => by
    refine ⟨s.openBrace, s.openBraceWritten, s.openBraceSpace, ?_, by simpa using hb⟩
    cases s; simp [lastOf]
  | [], true, _, _, _, _, _, _, h => by simp [pwOK] at h
  | c :: t, false, s, hr, h1, h2, h3, hb, hw => by
    simp only [Bool.false_eq_true, ↓reduceIte] at hb
    simp only [pwOK] at hw
    split at hw
    · -- a placeholder group starts
      rename_i hc
      simp only [beq_iff_eq] at hc
      subst hc
      cases t with
      | nil => simp [pwOK] at hw
      | cons c' t' =>
        have hs1 := step_lb_mid hr h1
        have hr1 : Reg { s with openBrace := true, openBraceSpace := false, openBraceWritten := false } :=
          ⟨hr.comment, hr.quoted, hr.escaped, hr.heredoc, hr.bq, hr.hst, hr.te, hr.cont, hr.lastLT⟩
        simp only [pwOK] at hw
        have hc' : (plainCh c' = true ∨ c' = rClose) ∧ pwOK (!(c' == rClose)) t' = true := by
          split at hw
          · rename_i h; simp only [beq_iff_eq] at h; exact ⟨Or.inr h, by simpa [h] using hw⟩
          · rename_i h
            simp only [Bool.and_eq_true] at hw
            exact ⟨Or.inl hw.1, by simpa [h] using hw.2⟩
        have hs2 := step_after_lb (c := c') hr1 hc'.1 h1 h2 h3 rfl rfl
        have hlt : c' ≠ 60 := by
          rcases hc'.1 with h | h
          · exact (plainCh_spec h).2.2.2.1
          · rw [h]; decide
        have hr2 : Reg { s with rout := c' :: rOpen :: s.rout, last := c', openBrace := true, openBraceSpace := false, openBraceWritten := true } :=
          ⟨hr.comment, hr.quoted, hr.escaped, hr.heredoc, hr.bq, hr.hst, hr.te, hr.cont, hlt⟩
        obtain ⟨ob, obw, obs, hfold, hnb⟩ := pw_tail t' (!(c' == rClose)) _ hr2 h1 h2 h3
          (by cases (c' == rClose) <;> simp) hc'.2
        refine ⟨ob, obw, obs, ?_, hnb⟩
        rw [List.foldl_cons, hs1, List.foldl_cons, hs2, hfold]
        simp [lastOf, List.reverse_cons, List.append_assoc]
    · simp only [Bool.and_eq_true] at hw
      have hs1 := step_plain_mid hr hw.1 h1 h2 h3 hb
      have hr1 : Reg { s with rout := c :: s.rout, last := c } :=
        ⟨hr.comment, hr.quoted, hr.escaped, hr.heredoc, hr.bq, hr.hst, hr.te, hr.cont, (plainCh_spec hw.1).2.2.2.1⟩
      obtain ⟨ob, obw, obs, hfold, hnb⟩ := pw_tail t false _ hr1 h1 h2 h3 (by simpa using hb) hw.2
      refine ⟨ob, obw, obs, ?_, hnb⟩
      rw [List.foldl_cons, hs1, hfold]
      simp [lastOf, List.reverse_cons, List.append_assoc]
  | c :: t, true, s, hr, h1, h2, h3, hb, hw => by
    simp only [↓reduceIte] at hb
    simp only [pwOK] at hw
    split at hw
    · rename_i hc
      simp only [beq_iff_eq] at hc
      subst hc
      have hs1 := step_close_mid hr h1 h2 h3 hb.1 hb.2
      have hr1 : Reg { s with rout := rClose :: s.rout, last := rClose } :=
        ⟨hr.comment, hr.quoted, hr.escaped, hr.heredoc, hr.bq, hr.hst, hr.te, hr.cont, by simp [rClose]⟩
      obtain ⟨ob, obw, obs, hfold, hnb⟩ := pw_tail t false _ hr1 h1 h2 h3 (by simp [hb.1, hb.2]) hw
      refine ⟨ob, obw, obs, ?_, hnb⟩
      rw [List.foldl_cons, hs1, hfold]
      simp [lastOf, List.reverse_cons, List.append_assoc]
    · simp only [Bool.and_eq_true] at hw
      have hs1 := step_plain_mid hr hw.1 h1 h2 h3 (by simp [hb.1, hb.2])
      have hr1 : Reg { s with rout := c :: s.rout, last := c } :=
        ⟨hr.comment, hr.quoted, hr.escaped, hr.heredoc, hr.bq, hr.hst, hr.te, hr.cont, (plainCh_spec hw.1).2.2.2.1⟩
      obtain ⟨ob, obw, obs, hfold, hnb⟩ := pw_tail t true _ hr1 h1 h2 h3 (by simpa using hb) hw.2
      refine ⟨ob, obw, obs, ?_, hnb⟩
      rw [List.foldl_cons, hs1, hfold]
      simp [lastOf, List.reverse_cons, List.append_assoc]

/-- the state after the separator of a chunk -/
def afterSep (s : FState) (sep : List Rune) : FState :=
  { s with space := true, heredocEscaped := false, newLines := s.newLines + countNL sep }

/-- white space only sets `space` and counts newlines -/
theorem foldl_ws : ∀ (ws : List Rune) (s : FState), Reg s → ws.all wsCh = true → ws ≠ [] →
    ws.foldl step s = afterSep s ws
  | [], _, _, _, h => absurd rfl h
  | [c], s, hr, hc, _ => by
    simp only [List.all_cons, List.all_nil, Bool.and_true] at hc
    simp [step_ws hr hc, countNL, afterSep]
  | c :: c' :: ws, s, hr, hc, _ => by
    simp only [List.all_cons, Bool.and_eq_true] at hc
    have hr' : Reg { s with space := true, heredocEscaped := false, newLines := s.newLines + (if c == rNL then 1 else 0) } :=
      ⟨hr.comment, hr.quoted, hr.escaped, hr.heredoc, hr.bq, hr.hst, hr.te, hr.cont, hr.lastLT⟩
    rw [List.foldl_cons, step_ws hr hc.1, foldl_ws (c' :: ws) _ hr' (by simp [hc.2]) (by simp)]
    simp only [countNL, afterSep]
    congr 1
    by_cases h : c = rNL <;> simp [h] <;> omega

/-! first character of a word after white space (`space = true`), by situation -/

set_option hygiene false in
macro "destruct_state" s:ident : tactic =>
  `(tactic| (have hcont := hr.cont
             obtain ⟨rout, last, space, bol, ob, obw, obs, nls, cm, q, esc, hd, hst, hde, mk, cl, nest, wbq, tke, ctd⟩ := $s
             simp only at hcont
             subst hcont))

/-- no `{` pending, at least one newline since the last word: newline(s) + indentation + `c` -/
theorem first_start_nl {t : FState} {c : Rune} (hr : Reg t) (hc : startCh c = true)
    (h1 : t.space = true) (h2 : (t.openBrace && !t.openBraceWritten) = false) (h3 : 1 ≤ t.newLines) :
    step t c = { t with rout := c :: (tabsN t.nesting ++ (nlsN (min t.newLines 2) ++ t.rout)), last := c,
                        space := false, bol := false, newLines := 0, comment := c == rHash } := by
  have h60 : c ≠ 60 := (startCh_spec hc).2.2.1
  rw [step_start hr hc]
  destruct_state t
  simp only at h1 h2 h3
  subst h1
  cases ob <;> cases obw <;> simp at h2
  all_goals (
    have hm : min nls 2 ≠ 0 := by omega
    by_cases hn : nest = 0
    · subst hn
      simp [maybeFlush, stepWord, stepWord2, stepWord3, stepWord4, stepWord5, stepWord6, nextLines_eq, tabs_eq,
        FState.indent, FState.write, tabsN, nlsN, hm, rNL, rClose, rTAB]
    · simp [maybeFlush, stepWord, stepWord2, stepWord3, stepWord4, stepWord5, stepWord6, nextLines_eq, tabs_eq,
        FState.indent, FState.write, tabsN, nlsN, hm, hn, rNL, rClose, rTAB]
  )

/-- no `{` pending, same line, not at the beginning of a line: one blank + `c` -/
theorem first_start_sp {t : FState} {c : Rune} (hr : Reg t) (hc : startCh c = true)
    (h1 : t.space = true) (h2 : (t.openBrace && !t.openBraceWritten) = false) (h3 : t.newLines = 0) (h4 : t.bol = false) :
    step t c = { t with rout := c :: rSP :: t.rout, last := c, space := false, comment := c == rHash } := by
  have h60 : c ≠ 60 := (startCh_spec hc).2.2.1
  rw [step_start hr hc]
  destruct_state t
  simp only at h1 h2 h3 h4
  subst h1 h3 h4
  cases ob <;> cases obw <;> simp at h2
  all_goals (
    simp [maybeFlush, stepWord, stepWord2, stepWord3, stepWord4, stepWord5, stepWord6, FState.nextLines, FState.write]
  )

/-- no `{` pending, at the beginning of a fresh line (right after the newline that ended a
    comment): indentation + `c` -/
theorem first_start_bol {t : FState} {c : Rune} (hr : Reg t) (hc : startCh c = true)
    (h1 : t.space = true) (h2 : (t.openBrace && !t.openBraceWritten) = false) (h3 : t.newLines = 0) (h4 : t.bol = true) (h5 : t.last = 10) :
    step t c = { t with rout := c :: (tabsN t.nesting ++ t.rout), last := c, space := false, bol := false,
                        comment := c == rHash } := by
  have h60 : c ≠ 60 := (startCh_spec hc).2.2.1
  rw [step_start hr hc]
  destruct_state t
  simp only at h1 h2 h3 h4 h5
  subst h1 h3 h4 h5
  cases ob <;> cases obw <;> simp at h2
  all_goals (
    by_cases hn : nest = 0
    · subst hn
      simp [maybeFlush, stepWord, stepWord2, stepWord3, stepWord4, stepWord5, stepWord6, FState.nextLines, tabs_eq,
        FState.indent, FState.write, tabsN, rClose, rTAB]
    · simp [maybeFlush, stepWord, stepWord2, stepWord3, stepWord4, stepWord5, stepWord6, FState.nextLines, tabs_eq,
        FState.indent, FState.write, tabsN, hn, rClose, rTAB]
  )

/-- right after a `}` at nesting 0, on the same line (only a comment gets here in the fragment):
    it is moved two lines down -/
theorem first_start_cls0 {t : FState} {c : Rune} (hr : Reg t) (hc : startCh c = true)
    (h1 : t.space = true) (h2 : (t.openBrace && !t.openBraceWritten) = false) (h3 : t.newLines = 0) (h4 : t.bol = true)
    (h5 : t.last = 125) (h6 : t.nesting = 0) :
    step t c = { t with rout := c :: rNL :: rNL :: t.rout, last := c, space := false, bol := false, comment := c == rHash } := by
  have h60 : c ≠ 60 := (startCh_spec hc).2.2.1
  rw [step_start hr hc]
  destruct_state t
  simp only at h1 h2 h3 h4 h5 h6
  subst h1 h3 h4 h5 h6
  cases ob <;> cases obw <;> simp at h2
  all_goals (
    simp [maybeFlush, stepWord, stepWord2, stepWord3, stepWord4, stepWord5, stepWord6, FState.nextLines, FState.tabs,
      FState.indent, FState.nextLine, FState.write, rClose, rNL]
  )

/-- right after a `}` inside a block, on the same line: the indentation is written between the
    brace and the comment -/
theorem first_start_clsN {t : FState} {c : Rune} (hr : Reg t) (hc : startCh c = true)
    (h1 : t.space = true) (h2 : (t.openBrace && !t.openBraceWritten) = false) (h3 : t.newLines = 0) (h4 : t.bol = true)
    (h6 : t.nesting ≠ 0) :
    step t c = { t with rout := c :: (tabsN t.nesting ++ t.rout), last := c, space := false, bol := false, comment := c == rHash } := by
  have h60 : c ≠ 60 := (startCh_spec hc).2.2.1
  rw [step_start hr hc]
  destruct_state t
  simp only at h1 h2 h3 h4 h6
  subst h1 h3 h4
  cases ob <;> cases obw <;> simp at h2
  all_goals (
    simp [maybeFlush, stepWord, stepWord2, stepWord3, stepWord4, stepWord5, stepWord6, FState.nextLines, tabs_eq,
      FState.indent, FState.write, tabsN, h6, rClose, rTAB]
  )

/-- no `{` pending, right after a newline was written: `}` needs no further newline -/
theorem first_close_bol {t : FState} (hr : Reg t) (h1 : t.space = true) (h2 : (t.openBrace && !t.openBraceWritten) = false) (h3 : t.last = 10) :
    step t rClose = { t with rout := rClose :: (tabsN (t.nesting - 1) ++ t.rout), last := rClose,
                             space := false, nesting := t.nesting - 1, newLines := 0 } := by
  rw [step_close hr]
  destruct_state t
  have hb := hr.bq
  simp only at hb
  subst hb
  simp only at h1 h2 h3
  subst h1 h3
  cases ob <;> cases obw <;> simp at h2
  all_goals (
    simp [maybeFlush, stepBrace, tabs_eq, FState.indent, FState.write, tabsN, rNL, rClose, rOpen]
  )

/-- no `{` pending: `}` goes on its own line, one level less -/
theorem first_close {t : FState} (hr : Reg t) (h1 : t.space = true) (h2 : (t.openBrace && !t.openBraceWritten) = false) (h3 : t.last ≠ 10) :
    step t rClose = { t with rout := rClose :: (tabsN (t.nesting - 1) ++ (rNL :: t.rout)), last := rClose,
                             space := false, bol := true, nesting := t.nesting - 1, newLines := 0 } := by
  rw [step_close hr]
  destruct_state t
  have hb := hr.bq
  simp only at hb
  subst hb
  simp only at h1 h2 h3
  subst h1
  cases ob <;> cases obw <;> simp at h2
  all_goals (
    simp [maybeFlush, stepBrace, tabs_eq, FState.indent, FState.nextLine, FState.write, tabsN, rNL, rClose, rOpen, h3]
  )

/-- no `{` pending, same line after a word: a blank is written, the brace is kept back -/
theorem first_open_sp {t : FState} (hr : Reg t) (h1 : t.space = true) (h2 : (t.openBrace && !t.openBraceWritten) = false) (h4 : t.bol = false) :
    step t rOpen = { t with rout := rSP :: t.rout, last := rSP, space := false, openBrace := true,
                            openBraceSpace := true, openBraceWritten := false } := by
  rw [step_open hr]
  destruct_state t
  have hb := hr.bq
  simp only at hb
  subst hb
  simp only at h1 h2 h4
  subst h1 h4
  cases ob <;> cases obw <;> simp at h2
  all_goals (
    simp [maybeFlush, stepBrace, FState.write, rOpen]
  )

/-- the function `nextN N .opn` as the formatter computes it -/
theorem flush4_nesting (s : FState) : (flush4 s).nesting = nextN s.nesting .opn := by
  unfold flush4 nextN; split <;> rfl

/-- no `{` pending, at the beginning of a line: the brace is kept back, nothing is written -/
theorem first_open_bol {t : FState} (hr : Reg t) (h1 : t.space = true) (h2 : (t.openBrace && !t.openBraceWritten) = false) (h4 : t.bol = true) :
    step t rOpen = { t with space := false, openBrace := true, openBraceSpace := false, openBraceWritten := false } := by
  rw [step_open hr]
  destruct_state t
  simp only at h1 h2 h4
  subst h1 h4
  cases ob <;> cases obw <;> simp at h2
  all_goals (
    simp [maybeFlush, stepBrace, FState.write, rOpen]
  )

/-- a `{` is pending and another `{` (the start of a placeholder word) follows: the pending one is
    written with its newline, the new one is kept back -/
theorem pending_open {t : FState} (hr : Reg t)
    (h1 : t.space = true) (h2 : t.openBrace = true) (h3 : t.openBraceWritten = false) (h4 : t.last ≠ 125)
    (h5 : (t.bol = false ∧ t.openBraceSpace = true) ∨ (t.bol = true ∧ t.nesting = 0)) :
    step t rOpen = { t with rout := rNL :: rOpen :: t.rout, last := rNL, space := false, bol := true, openBrace := true, openBraceWritten := false, openBraceSpace := false, newLines := 0, nesting := nextN t.nesting .opn } := by
  rw [step_open hr]
  destruct_state t
  simp only at h1 h2 h3 h4 h5
  subst h1 h2 h3
  rcases h5 with ⟨rfl, rfl⟩ | ⟨rfl, rfl⟩
  · by_cases hn : nest < 10
    · simp [maybeFlush, flushOpen, flush1, flush2, flush3, flush4, stepBrace, FState.indent, FState.nextLine,
        FState.write, nextN, hn, h4, rNL, rClose, rOpen]
    · simp [maybeFlush, flushOpen, flush1, flush2, flush3, flush4, stepBrace, FState.indent, FState.nextLine,
        FState.write, nextN, hn, h4, rNL, rClose, rOpen]
  · simp [maybeFlush, flushOpen, flush1, flush2, flush3, flush4, stepBrace, FState.indent, FState.tabs, FState.nextLine,
      FState.write, nextN, h4, rNL, rClose, rOpen]

/-- the character after a kept-back `{` (glued to it): an ordinary character of a word, also `}` -/
theorem step_second {s : FState} {c : Rune} (hr : Reg s) (hc : plainCh c = true ∨ c = rClose) (h1 : s.space = false)
    (h4 : s.openBrace = true) : step s c = stepWord s false c := by
  rcases hc with hc | hc
  · rw [step_plain hr hc]
    obtain ⟨rout, last, space, bol, ob, obw, obs, nls, cm, q, esc, hd, hst, hde, mk, cl, nest, wbq, tke, ctd⟩ := s
    simp only at h1 h4
    subst h1 h4
    simp [maybeFlush]
  · subst hc
    rw [step_close hr]
    obtain ⟨rout, last, space, bol, ob, obw, obs, nls, cm, q, esc, hd, hst, hde, mk, cl, nest, wbq, tke, ctd⟩ := s
    simp only at h1 h4
    subst h1 h4
    simp [maybeFlush, stepBrace, rOpen, rClose]

/-- … on a new line: newline(s), indentation, `{`, `c` -/
theorem second_nl {t : FState} {c : Rune} (hr : Reg t) (hc : plainCh c = true ∨ c = rClose) (h1 : t.space = false)
    (h2 : t.openBrace = true) (h3 : t.openBraceWritten = false) (h4 : 1 ≤ t.newLines) :
    step t c = { t with rout := c :: rOpen :: (tabsN t.nesting ++ (nlsN (min t.newLines 2) ++ t.rout)), last := c, bol := false, newLines := 0, openBraceWritten := true } := by
  rw [step_second hr hc h1 h2]
  destruct_state t
  simp only at h1 h2 h3 h4
  subst h1 h2 h3
  have hm : min nls 2 ≠ 0 := by omega
  by_cases hn : nest = 0
  · subst hn
    simp [stepWord, stepWord2, stepWord3, stepWord4, stepWord5, stepWord6, nextLines_eq, tabs_eq,
      FState.indent, FState.write, tabsN, nlsN, hm, rNL, rClose, rTAB]
  · simp [stepWord, stepWord2, stepWord3, stepWord4, stepWord5, stepWord6, nextLines_eq, tabs_eq,
      FState.indent, FState.write, tabsN, nlsN, hm, hn, rNL, rClose, rTAB]

/-- … at the beginning of a fresh line: indentation, `{`, `c` -/
theorem second_bol {t : FState} {c : Rune} (hr : Reg t) (hc : plainCh c = true ∨ c = rClose) (h1 : t.space = false)
    (h2 : t.openBrace = true) (h3 : t.openBraceWritten = false) (h4 : t.newLines = 0) (h5 : t.bol = true)
    (h6 : t.last ≠ 125) :
    step t c = { t with rout := c :: rOpen :: (tabsN t.nesting ++ t.rout), last := c, bol := false, openBraceWritten := true } := by
  rw [step_second hr hc h1 h2]
  destruct_state t
  simp only at h1 h2 h3 h4 h5 h6
  subst h1 h2 h3 h4 h5
  by_cases hn : nest = 0
  · subst hn
    simp [stepWord, stepWord2, stepWord3, stepWord4, stepWord5, stepWord6, FState.nextLines, tabs_eq,
      FState.indent, FState.write, tabsN, h6, rClose, rTAB]
  · simp [stepWord, stepWord2, stepWord3, stepWord4, stepWord5, stepWord6, FState.nextLines, tabs_eq,
      FState.indent, FState.write, tabsN, hn, h6, rClose, rTAB]

/-- a `{` is pending (written neither at the brace nor since): `{`, newline, indentation, `c` -/
theorem pending_start {t : FState} {c : Rune} (hr : Reg t) (hc : startCh c = true)
    (h1 : t.space = true) (h2 : t.openBrace = true) (h3 : t.openBraceWritten = false) (h4 : t.last ≠ 125)
    (h5 : (t.bol = false ∧ t.openBraceSpace = true) ∨ (t.bol = true ∧ t.nesting = 0)) :
    step t c = { t with rout := c :: (tabsN (nextN t.nesting .opn) ++ (rNL :: rOpen :: t.rout)), last := c,
                        space := false, bol := false, openBrace := false, openBraceWritten := true,
                        newLines := 0, nesting := nextN t.nesting .opn, comment := c == rHash } := by
  have h60 : c ≠ 60 := (startCh_spec hc).2.2.1
  rw [step_start hr hc]
  destruct_state t
  simp only at h1 h2 h3 h4 h5
  subst h1 h2 h3
  rcases h5 with ⟨rfl, rfl⟩ | ⟨rfl, rfl⟩
  · by_cases hn : nest < 10
    · simp [maybeFlush, flushOpen, flush1, flush2, flush3, flush4, stepWord, stepWord2, stepWord3, stepWord4, stepWord5,
        stepWord6, FState.nextLines, tabs_eq, FState.indent, FState.nextLine, FState.write, tabsN, nextN, hn, h4,
        rNL, rClose, rTAB, rOpen]
    · have : nest ≠ 0 := by omega
      simp [maybeFlush, flushOpen, flush1, flush2, flush3, flush4, stepWord, stepWord2, stepWord3, stepWord4, stepWord5,
        stepWord6, FState.nextLines, tabs_eq, FState.indent, FState.nextLine, FState.write, tabsN, nextN, hn, h4, this,
        rNL, rClose, rTAB, rOpen]
  · simp [maybeFlush, flushOpen, flush1, flush2, flush3, flush4, stepWord, stepWord2, stepWord3, stepWord4, stepWord5,
      stepWord6, FState.nextLines, FState.tabs, FState.indent, FState.nextLine, FState.write, tabsN, nextN, h4,
      rNL, rClose, rTAB, rOpen]

/-- an opening quote at the start of a token is an ordinary first character that additionally
    switches quoted mode on -/
theorem step_dq {s : FState} (hr : Reg s) :
    step s rDQ = stepWord (maybeFlush { s with space := false, quoted := s.space } s.space) s.space rDQ := by
  obtain ⟨h1, h2, h3, h4, h5, h7, h8, h9, h6⟩ := hr
  obtain ⟨rout, last, space, bol, ob, obw, obs, nls, cm, q, esc, hd, hst, hde, mk, cl, nest, wbq, tke, ctd⟩ := s
  simp only at h1 h2 h3 h4 h5 h6 h7 h8 h9
  subst h1 h2 h3 h4 h5 h7 h8 h9
  simp [step, stepHeredoc, stepLiteral, stepRegular, stepRegular2, stepBrace, maybeFlush,
    rBQ, rLT, rBS, rDQ, rHash, rOpen, rClose, isSpace]

/-- an opening quote at the start of a token is an ordinary first character that additionally
    switches quoted mode on -/
theorem step_bq {s : FState} (hr : Reg s) :
    step s rBQ = stepWord (maybeFlush { s with space := false, backquoted := s.space } s.space) s.space rBQ := by
  obtain ⟨h1, h2, h3, h4, h5, h7, h8, h9, h6⟩ := hr
  obtain ⟨rout, last, space, bol, ob, obw, obs, nls, cm, q, esc, hd, hst, hde, mk, cl, nest, wbq, tke, ctd⟩ := s
  simp only at h1 h2 h3 h4 h5 h6 h7 h8 h9
  subst h1 h2 h3 h4 h5 h7 h8 h9
  simp [step, stepHeredoc, stepLiteral, stepRegular, stepRegular2, stepBrace, maybeFlush,
    rBQ, rLT, rBS, rDQ, rHash, rOpen, rClose, isSpace]

/-- no `{` pending, at least one newline since the last word: newline(s) + indentation + `"` -/
theorem first_dq_nl {t : FState} (hr : Reg t)
    (h1 : t.space = true) (h2 : (t.openBrace && !t.openBraceWritten) = false) (h3 : 1 ≤ t.newLines) :
    step t rDQ = { t with rout := rDQ :: (tabsN t.nesting ++ (nlsN (min t.newLines 2) ++ t.rout)), last := rDQ, space := false, bol := false, newLines := 0, quoted := true } := by
  rw [step_dq hr]
  destruct_state t
  simp only at h1 h2 h3
  subst h1
  cases ob <;> cases obw <;> simp at h2
  all_goals (
    have hm : min nls 2 ≠ 0 := by omega
    by_cases hn : nest = 0
    · subst hn
      simp [maybeFlush, stepWord, stepWord2, stepWord3, stepWord4, stepWord5, stepWord6, nextLines_eq, tabs_eq,
        FState.indent, FState.write, tabsN, nlsN, hm, rDQ, rNL, rClose, rTAB]
    · simp [maybeFlush, stepWord, stepWord2, stepWord3, stepWord4, stepWord5, stepWord6, nextLines_eq, tabs_eq,
        FState.indent, FState.write, tabsN, nlsN, hm, hn, rDQ, rNL, rClose, rTAB]
  )

/-- no `{` pending, at least one newline since the last word: newline(s) + indentation + `` ` `` -/
theorem first_bq_nl {t : FState} (hr : Reg t)
    (h1 : t.space = true) (h2 : (t.openBrace && !t.openBraceWritten) = false) (h3 : 1 ≤ t.newLines) :
    step t rBQ = { t with rout := rBQ :: (tabsN t.nesting ++ (nlsN (min t.newLines 2) ++ t.rout)), last := rBQ, space := false, bol := false, newLines := 0, backquoted := true } := by
  rw [step_bq hr]
  destruct_state t
  simp only at h1 h2 h3
  subst h1
  cases ob <;> cases obw <;> simp at h2
  all_goals (
    have hm : min nls 2 ≠ 0 := by omega
    by_cases hn : nest = 0
    · subst hn
      simp [maybeFlush, stepWord, stepWord2, stepWord3, stepWord4, stepWord5, stepWord6, nextLines_eq, tabs_eq,
        FState.indent, FState.write, tabsN, nlsN, hm, rBQ, rNL, rClose, rTAB]
    · simp [maybeFlush, stepWord, stepWord2, stepWord3, stepWord4, stepWord5, stepWord6, nextLines_eq, tabs_eq,
        FState.indent, FState.write, tabsN, nlsN, hm, hn, rBQ, rNL, rClose, rTAB]
  )

/-- no `{` pending, same line, not at the beginning of a line: one blank + `"` -/
theorem first_dq_sp {t : FState} (hr : Reg t)
    (h1 : t.space = true) (h2 : (t.openBrace && !t.openBraceWritten) = false) (h3 : t.newLines = 0) (h4 : t.bol = false) :
    step t rDQ = { t with rout := rDQ :: rSP :: t.rout, last := rDQ, space := false, quoted := true } := by
  rw [step_dq hr]
  destruct_state t
  simp only at h1 h2 h3 h4
  subst h1 h3 h4
  cases ob <;> cases obw <;> simp at h2
  all_goals (
    simp [maybeFlush, stepWord, stepWord2, stepWord3, stepWord4, stepWord5, stepWord6, FState.nextLines, FState.write]
  )

/-- no `{` pending, same line, not at the beginning of a line: one blank + `` ` `` -/
theorem first_bq_sp {t : FState} (hr : Reg t)
    (h1 : t.space = true) (h2 : (t.openBrace && !t.openBraceWritten) = false) (h3 : t.newLines = 0) (h4 : t.bol = false) :
    step t rBQ = { t with rout := rBQ :: rSP :: t.rout, last := rBQ, space := false, backquoted := true } := by
  rw [step_bq hr]
  destruct_state t
  simp only at h1 h2 h3 h4
  subst h1 h3 h4
  cases ob <;> cases obw <;> simp at h2
  all_goals (
    simp [maybeFlush, stepWord, stepWord2, stepWord3, stepWord4, stepWord5, stepWord6, FState.nextLines, FState.write]
  )

/-- no `{` pending, at the beginning of a fresh line (right after the newline that ended a
    comment): indentation + `"` -/
theorem first_dq_bol {t : FState} (hr : Reg t)
    (h1 : t.space = true) (h2 : (t.openBrace && !t.openBraceWritten) = false) (h3 : t.newLines = 0) (h4 : t.bol = true) (h5 : t.last = 10) :
    step t rDQ = { t with rout := rDQ :: (tabsN t.nesting ++ t.rout), last := rDQ, space := false, bol := false, quoted := true } := by
  rw [step_dq hr]
  destruct_state t
  simp only at h1 h2 h3 h4 h5
  subst h1 h3 h4 h5
  cases ob <;> cases obw <;> simp at h2
  all_goals (
    by_cases hn : nest = 0
    · subst hn
      simp [maybeFlush, stepWord, stepWord2, stepWord3, stepWord4, stepWord5, stepWord6, FState.nextLines, tabs_eq,
        FState.indent, FState.write, tabsN, rClose, rTAB]
    · simp [maybeFlush, stepWord, stepWord2, stepWord3, stepWord4, stepWord5, stepWord6, FState.nextLines, tabs_eq,
        FState.indent, FState.write, tabsN, hn, rClose, rTAB]
  )

/-- no `{` pending, at the beginning of a fresh line (right after the newline that ended a
    comment): indentation + `` ` `` -/
theorem first_bq_bol {t : FState} (hr : Reg t)
    (h1 : t.space = true) (h2 : (t.openBrace && !t.openBraceWritten) = false) (h3 : t.newLines = 0) (h4 : t.bol = true) (h5 : t.last = 10) :
    step t rBQ = { t with rout := rBQ :: (tabsN t.nesting ++ t.rout), last := rBQ, space := false, bol := false, backquoted := true } := by
  rw [step_bq hr]
  destruct_state t
  simp only at h1 h2 h3 h4 h5
  subst h1 h3 h4 h5
  cases ob <;> cases obw <;> simp at h2
  all_goals (
    by_cases hn : nest = 0
    · subst hn
      simp [maybeFlush, stepWord, stepWord2, stepWord3, stepWord4, stepWord5, stepWord6, FState.nextLines, tabs_eq,
        FState.indent, FState.write, tabsN, rClose, rTAB]
    · simp [maybeFlush, stepWord, stepWord2, stepWord3, stepWord4, stepWord5, stepWord6, FState.nextLines, tabs_eq,
        FState.indent, FState.write, tabsN, hn, rClose, rTAB]
  )

/-- a `{` is pending (written neither at the brace nor since): `{`, newline, indentation, `"` -/
theorem pending_dq {t : FState} (hr : Reg t)
    (h1 : t.space = true) (h2 : t.openBrace = true) (h3 : t.openBraceWritten = false) (h4 : t.last ≠ 125)
    (h5 : (t.bol = false ∧ t.openBraceSpace = true) ∨ (t.bol = true ∧ t.nesting = 0)) :
    step t rDQ = { t with rout := rDQ :: (tabsN (nextN t.nesting .opn) ++ (rNL :: rOpen :: t.rout)), last := rDQ, space := false, bol := false, openBrace := false, openBraceWritten := true, newLines := 0, nesting := nextN t.nesting .opn, quoted := true } := by
  rw [step_dq hr]
  destruct_state t
  simp only at h1 h2 h3 h4 h5
  subst h1 h2 h3
  rcases h5 with ⟨rfl, rfl⟩ | ⟨rfl, rfl⟩
  · by_cases hn : nest < 10
    · simp [maybeFlush, flushOpen, flush1, flush2, flush3, flush4, stepWord, stepWord2, stepWord3, stepWord4, stepWord5,
        stepWord6, FState.nextLines, tabs_eq, FState.indent, FState.nextLine, FState.write, tabsN, nextN, hn, h4,
        rNL, rClose, rTAB, rOpen]
    · have : nest ≠ 0 := by omega
      simp [maybeFlush, flushOpen, flush1, flush2, flush3, flush4, stepWord, stepWord2, stepWord3, stepWord4, stepWord5,
        stepWord6, FState.nextLines, tabs_eq, FState.indent, FState.nextLine, FState.write, tabsN, nextN, hn, h4, this,
        rNL, rClose, rTAB, rOpen]
  · simp [maybeFlush, flushOpen, flush1, flush2, flush3, flush4, stepWord, stepWord2, stepWord3, stepWord4, stepWord5,
      stepWord6, FState.nextLines, FState.tabs, FState.indent, FState.nextLine, FState.write, tabsN, nextN, h4,
      rNL, rClose, rTAB, rOpen]

/-- a `{` is pending (written neither at the brace nor since): `{`, newline, indentation, `` ` `` -/
theorem pending_bq {t : FState} (hr : Reg t)
    (h1 : t.space = true) (h2 : t.openBrace = true) (h3 : t.openBraceWritten = false) (h4 : t.last ≠ 125)
    (h5 : (t.bol = false ∧ t.openBraceSpace = true) ∨ (t.bol = true ∧ t.nesting = 0)) :
    step t rBQ = { t with rout := rBQ :: (tabsN (nextN t.nesting .opn) ++ (rNL :: rOpen :: t.rout)), last := rBQ, space := false, bol := false, openBrace := false, openBraceWritten := true, newLines := 0, nesting := nextN t.nesting .opn, backquoted := true } := by
  rw [step_bq hr]
  destruct_state t
  simp only at h1 h2 h3 h4 h5
  subst h1 h2 h3
  rcases h5 with ⟨rfl, rfl⟩ | ⟨rfl, rfl⟩
  · by_cases hn : nest < 10
    · simp [maybeFlush, flushOpen, flush1, flush2, flush3, flush4, stepWord, stepWord2, stepWord3, stepWord4, stepWord5,
        stepWord6, FState.nextLines, tabs_eq, FState.indent, FState.nextLine, FState.write, tabsN, nextN, hn, h4,
        rNL, rClose, rTAB, rOpen]
    · have : nest ≠ 0 := by omega
      simp [maybeFlush, flushOpen, flush1, flush2, flush3, flush4, stepWord, stepWord2, stepWord3, stepWord4, stepWord5,
        stepWord6, FState.nextLines, tabs_eq, FState.indent, FState.nextLine, FState.write, tabsN, nextN, hn, h4, this,
        rNL, rClose, rTAB, rOpen]
  · simp [maybeFlush, flushOpen, flush1, flush2, flush3, flush4, stepWord, stepWord2, stepWord3, stepWord4, stepWord5,
      stepWord6, FState.nextLines, FState.tabs, FState.indent, FState.nextLine, FState.write, tabsN, nextN, h4,
      rNL, rClose, rTAB, rOpen]

/-- a `{` is pending and the block is empty: `{`, newline, indentation one level up, `}` -/
theorem pending_close {t : FState} (hr : Reg t)
    (h1 : t.space = true) (h2 : t.openBrace = true) (h3 : t.openBraceWritten = false) (h4 : t.last ≠ 125)
    (h5 : (t.bol = false ∧ t.openBraceSpace = true) ∨ (t.bol = true ∧ t.nesting = 0)) :
    step t rClose = { t with rout := rClose :: (tabsN (nextN t.nesting .opn - 1) ++ (rNL :: rOpen :: t.rout)),
                             last := rClose, space := false, bol := true, openBrace := false, openBraceWritten := true,
                             newLines := 0, nesting := nextN t.nesting .opn - 1 } := by
  rw [step_close hr]
  destruct_state t
  have hb := hr.bq
  simp only at hb
  subst hb
  simp only at h1 h2 h3 h4 h5
  subst h1 h2 h3
  rcases h5 with ⟨rfl, rfl⟩ | ⟨rfl, rfl⟩
  · by_cases hn : nest < 10
    · simp [maybeFlush, flushOpen, flush1, flush2, flush3, flush4, stepBrace, tabs_eq, FState.indent,
        FState.nextLine, FState.write, tabsN, nextN, hn, h4, rNL, rClose, rTAB, rOpen]
    · simp [maybeFlush, flushOpen, flush1, flush2, flush3, flush4, stepBrace, tabs_eq, FState.indent,
        FState.nextLine, FState.write, tabsN, nextN, hn, h4, rNL, rClose, rTAB, rOpen]
  · simp [maybeFlush, flushOpen, flush1, flush2, flush3, flush4, stepBrace, FState.tabs, FState.indent,
      FState.nextLine, FState.write, tabsN, nextN, h4, rNL, rClose, rTAB, rOpen]

/-! ### §3 the formatter over a chunk list -/

/-- output so far, including a `{` that is kept back until the next word -/
def outOf (s : FState) : List Rune :=
  s.rout.reverse ++ (if s.openBrace && !s.openBraceWritten then [rOpen] else [])

/-- state after a plain word at nesting `N` -/
structure InvP (N : Nat) (s : FState) : Prop where
  reg : Reg s
  space : s.space = false
  bol : s.bol = false
  nl : s.newLines = 0
  nb : (s.openBrace && !s.openBraceWritten) = false
  nest : s.nesting = N
  lastNS : isSpace s.last = false
  head : ∃ r, s.rout = s.last :: r

/-- state after a `}` that brought the nesting to `N` -/
structure InvC (N : Nat) (s : FState) : Prop where
  reg : Reg s
  space : s.space = false
  bol : s.bol = true
  nl : s.newLines = 0
  nb : (s.openBrace && !s.openBraceWritten) = false
  nest : s.nesting = N
  last : s.last = 125
  head : ∃ r, s.rout = 125 :: r

/-- state after a `{` that is still kept back; `N` = nesting once it is written -/
structure InvO (N : Nat) (s : FState) : Prop where
  reg : Reg s
  space : s.space = false
  ob : s.openBrace = true
  obw : s.openBraceWritten = false
  nl : s.newLines = 0
  last : s.last ≠ 125
  nest : N = nextN s.nesting .opn
  shape : (s.bol = false ∧ s.openBraceSpace = true) ∨ (s.bol = true ∧ s.nesting = 0)

/-- state after the text of a comment (still in comment mode: its newline has not been read) -/
structure InvM (N : Nat) (s : FState) : Prop where
  comment : s.comment = true
  quoted : s.quoted = false
  escaped : s.escaped = false
  heredoc : s.heredoc = 0
  bq : s.backquoted = false
  hst : s.heredocStart = false
  te : s.tokenEnded = false
  cont : s.continued = false
  space : s.space = false
  nl : s.newLines = 0
  nb : (s.openBrace && !s.openBraceWritten) = false
  nest : s.nesting = N
  lastNS : isSpace s.last = false
  head : ∃ r, s.rout = s.last :: r

/-- state right after the closing quote of a simple string: like after a plain word, except that
    `tokenEnded` is still set (the white space that follows clears it) -/
structure InvQ (N : Nat) (s : FState) : Prop where
  comment : s.comment = false
  quoted : s.quoted = false
  escaped : s.escaped = false
  heredoc : s.heredoc = 0
  bq : s.backquoted = false
  hst : s.heredocStart = false
  te : s.tokenEnded = true
  cont : s.continued = false
  space : s.space = false
  bol : s.bol = false
  nl : s.newLines = 0
  nb : (s.openBrace && !s.openBraceWritten) = false
  nest : s.nesting = N
  last : s.last = 34 ∨ s.last = 96
  head : ∃ r, s.rout = s.last :: r

def Inv : Option Kind → Nat → FState → Prop
  | none, N, s => s = {} ∧ N = 0
  | some .plain, N, s => InvP N s
  | some .opn, N, s => InvO N s
  | some .cls, N, s => InvC N s
  | some .cmt, N, s => InvM N s
  | some .dq, N, s => InvQ N s

theorem InvQ.toP {N : Nat} {s : FState} (h : InvQ N s) : InvP N { s with tokenEnded := false } := by
  obtain ⟨r, hr⟩ := h.head
  refine ⟨⟨h.comment, h.quoted, h.escaped, h.heredoc, h.bq, h.hst, rfl, h.cont, ?_⟩, h.space, h.bol, h.nl, h.nb, h.nest, ?_, ⟨r, ?_⟩⟩
  · show s.last ≠ 60; rcases h.last with h | h <;> rw [h] <;> decide
  · show isSpace s.last = false; rcases h.last with h | h <;> rw [h] <;> decide
  · exact hr

/-- the first white-space character after a closing quote clears `tokenEnded` -/
theorem step_ws_te {N : Nat} {s : FState} {c : Rune} (h : InvQ N s) (hc : wsCh c = true) :
    step s c = step { s with tokenEnded := false } c := by
  obtain ⟨hsp, h13, h34, h35, h60, h92, h96, h123, h125⟩ := wsCh_spec hc
  obtain ⟨h1, h2, h3, h4, h5, h6, h7, h8, -, -, -, -, -, -, -⟩ := h
  obtain ⟨rout, last, space, bol, ob, obw, obs, nls, cm, q, esc, hd, hst, hde, mk, cl, nest, wbq, tke, ctd⟩ := s
  simp only at h1 h2 h3 h4 h5 h6 h7 h8
  subst h1 h2 h3 h4 h5 h6 h7 h8
  simp [step, stepHeredoc, stepLiteral, rLT, rBS, rNL, rCR, *]

theorem foldl_after_dq {N : Nat} {s : FState} {sep w : List Rune} (h : InvQ N s) (hsep : sep.all wsCh = true)
    (hne : sep ≠ []) :
    (sep ++ w).foldl step s = (sep ++ w).foldl step { s with tokenEnded := false } := by
  cases sep with
  | nil => exact absurd rfl hne
  | cons c ws =>
    simp only [List.all_cons, Bool.and_eq_true] at hsep
    simp only [List.cons_append, List.foldl_cons, step_ws_te h hsep.1]

theorem lastOf_plain : ∀ (l : List Rune) (d : Rune), plainCh d = true → l.all plainCh = true → plainCh (lastOf d l) = true
  | [], _, hd, _ => hd
  | c :: cs, _, _, hl => by
    simp only [List.all_cons, Bool.and_eq_true] at hl
    exact lastOf_plain cs c hl.1 hl.2

theorem reverse_append_lastOf : ∀ (l : List Rune) (a : Rune) (r0 : List Rune),
    ∃ r, l.reverse ++ (a :: r0) = lastOf a l :: r
  | [], a, r0 => ⟨r0, rfl⟩
  | b :: bs, a, r0 => by
    obtain ⟨r, hr⟩ := reverse_append_lastOf bs b (a :: r0)
    exact ⟨r, by simp only [List.reverse_cons, List.append_assoc, List.singleton_append, lastOf]; exact hr⟩

/-- the rest `as` of a word, from a state `t1` inside it, ends in an `InvP` state -/
theorem word_tail {t1 : FState} {as : List Rune} {N : Nat} (inB : Bool)
    (hreg : Reg t1) (h1 : t1.space = false) (h2 : t1.bol = false) (h3 : t1.newLines = 0)
    (h4 : if inB then t1.openBrace = true ∧ t1.openBraceWritten = true else (t1.openBrace && !t1.openBraceWritten) = false)
    (h5 : t1.nesting = N) (h6 : wordCh t1.last = true) (h7 : ∃ r, t1.rout = t1.last :: r)
    (has : pwOK inB as = true) :
    InvP N (as.foldl step t1) ∧ (as.foldl step t1).rout = as.reverse ++ t1.rout := by
  obtain ⟨ob, obw, obs, hfold, hnb⟩ := pw_tail as inB t1 hreg h1 h2 h3 h4 has
  rw [hfold]
  have hl := lastOf_wordCh as t1.last h6 (pw_all as inB has)
  have hls := wordCh_spec hl
  refine ⟨⟨⟨hreg.comment, hreg.quoted, hreg.escaped, hreg.heredoc, hreg.bq, hreg.hst, hreg.te, hreg.cont, hls.2⟩, h1, h2, h3, hnb, h5, hls.1, ?_⟩, rfl⟩
  obtain ⟨r, hr⟩ := h7
  simp only [hr]
  exact reverse_append_lastOf as t1.last r

/-- a word `a :: as` with a plain first character that leads to `t1` (any of the first-character
    situations) ends in an `InvP` state -/
theorem plain_word {t t1 : FState} {a : Rune} {as : List Rune} {N : Nat}
    (hstep : step t a = t1) (ha : plainCh a = true) (has : pwOK false as = true)
    (hreg : Reg t1) (h1 : t1.space = false) (h2 : t1.bol = false) (h3 : t1.newLines = 0) (h4 : (t1.openBrace && !t1.openBraceWritten) = false)
    (h5 : t1.nesting = N) (h6 : t1.last = a) (h7 : ∃ r, t1.rout = a :: r) :
    InvP N ((a :: as).foldl step t) ∧
      ((a :: as).foldl step t).rout = as.reverse ++ t1.rout := by
  rw [List.foldl_cons, hstep]
  exact word_tail false hreg h1 h2 h3 (by simpa using h4) h5 (by rw [h6]; simp [wordCh, ha]) (by rw [h6]; exact h7) has

/-- a word `{ :: c :: as` (it starts with a placeholder) whose first two characters lead to `t2` -/
theorem lb_word {t t2 : FState} {c : Rune} {as : List Rune} {N : Nat}
    (hstep : step (step t rOpen) c = t2) (hc : plainCh c = true ∨ c = rClose) (has : pwOK (!(c == rClose)) as = true)
    (hreg : Reg t2) (h1 : t2.space = false) (h2 : t2.bol = false) (h3 : t2.newLines = 0)
    (h4 : t2.openBrace = true) (h4' : t2.openBraceWritten = true)
    (h5 : t2.nesting = N) (h6 : t2.last = c) (h7 : ∃ r, t2.rout = c :: r) :
    InvP N ((rOpen :: c :: as).foldl step t) ∧
      ((rOpen :: c :: as).foldl step t).rout = as.reverse ++ t2.rout := by
  rw [List.foldl_cons, List.foldl_cons, hstep]
  refine word_tail (!(c == rClose)) hreg h1 h2 h3 ?_ h5 ?_ (by rw [h6]; exact h7) has
  · cases (c == rClose) <;> simp [h4, h4']
  · rw [h6]
    rcases hc with hc | hc
    · simp [wordCh, hc]
    · simp [wordCh, hc]

theorem cmtCh_spec {c : Rune} (h : cmtCh c = true) : c ≠ 10 ∧ c ≠ 92 := by
  simpa [cmtCh, rNL, rBS] using h

/-- in comment mode every character except the newline is copied -/
theorem foldl_comment : ∀ (cs : List Rune) (s : FState), s.comment = true → s.space = false → s.heredoc = 0 →
    s.heredocStart = false → s.continued = false → cs.all cmtCh = true →
    cs.foldl step s = { s with rout := cs.reverse ++ s.rout, last := lastOf s.last cs }
  | [], s, _, _, _, _, _, _ => by simp [lastOf]
  | c :: cs, s, h1, h2, h3, h4, h5, hc => by
    simp only [List.all_cons, Bool.and_eq_true] at hc
    have h10 := (cmtCh_spec hc.1).1
    have hstep : step s c = { s with rout := c :: s.rout, last := c } := by
      obtain ⟨rout, last, space, bol, ob, obw, obs, nls, cm, q, esc, hd, hst, hde, mk, cl, nest, wbq, tke, ctd⟩ := s
      simp only at h1 h2 h3 h4 h5
      subst h1 h2 h3 h4 h5
      simp [step, stepHeredoc, stepLiteral, FState.write, rNL, h10]
    rw [List.foldl_cons, hstep, foldl_comment cs { s with rout := c :: s.rout, last := c } h1 h2 h3 h4 h5 hc.2]
    simp [lastOf, List.reverse_cons, List.append_assoc]

/-- the newline that ends a comment is written at once -/
theorem comment_end {s : FState} (h1 : s.comment = true) (h2 : s.space = false) (h3 : s.heredoc = 0)
    (h4 : s.heredocStart = false) (h5 : s.continued = false) :
    step s rNL = { s with rout := rNL :: s.rout, last := rNL, comment := false, space := true, bol := true } := by
  obtain ⟨rout, last, space, bol, ob, obw, obs, nls, cm, q, esc, hd, hst, hde, mk, cl, nest, wbq, tke, ctd⟩ := s
  simp only at h1 h2 h3 h4 h5
  subst h1 h2 h3 h4 h5
  simp [step, stepHeredoc, stepLiteral, FState.nextLine, FState.write, rNL]

/-- a comment `# as` whose `#` leads to `t1` ends in an `InvM` state -/
theorem cmt_word {t t1 : FState} {as : List Rune} {N : Nat}
    (hstep : step t rHash = t1) (has : as.all cmtCh = true) (hlast : isSpace (lastOf rHash as) = false)
    (hc : t1.comment = true) (hq : t1.quoted = false) (he : t1.escaped = false) (hh : t1.heredoc = 0)
    (hb : t1.backquoted = false) (hs : t1.heredocStart = false) (hte : t1.tokenEnded = false)
    (hct : t1.continued = false) (h1 : t1.space = false) (h3 : t1.newLines = 0)
    (h4 : (t1.openBrace && !t1.openBraceWritten) = false)
    (h5 : t1.nesting = N) (h6 : t1.last = rHash) (h7 : ∃ r, t1.rout = rHash :: r) :
    InvM N ((rHash :: as).foldl step t) ∧
      ((rHash :: as).foldl step t).rout = as.reverse ++ t1.rout := by
  rw [List.foldl_cons, hstep, foldl_comment as t1 hc h1 hh hs hct has]
  refine ⟨⟨hc, hq, he, hh, hb, hs, hte, hct, h1, h3, h4, h5, ?_, ?_⟩, rfl⟩
  · simp only [h6]; exact hlast
  · obtain ⟨r, hr⟩ := h7
    simp only [h6, hr]
    exact reverse_append_lastOf as rHash r

theorem dqCh_spec {c : Rune} (h : dqCh c = true) : c ≠ 34 ∧ c ≠ 92 ∧ c ≠ 10 := by
  simpa [dqCh, rDQ, rBS, rNL, and_assoc] using h

theorem bqCh_spec {c : Rune} (h : bqCh c = true) : c ≠ 96 ∧ c ≠ 10 := by
  simpa [bqCh, rBQ, rNL] using h

/-- an ordinary character inside a string is copied -/
theorem step_dq_ch {s : FState} {c : Rune} (h1 : s.quoted = true) (h2 : s.comment = false) (h3 : s.backquoted = false)
    (h4 : s.escaped = false) (h5 : s.heredoc = 0) (h6 : s.heredocStart = false) (h7 : s.continued = false)
    (h34 : c ≠ 34) (h92 : c ≠ 92) :
    step s c = { s with rout := c :: s.rout, last := c } := by
  obtain ⟨rout, last, space, bol, ob, obw, obs, nls, cm, q, esc, hd, hst, hde, mk, cl, nest, wbq, tke, ctd⟩ := s
  simp only at h1 h2 h3 h4 h5 h6 h7
  subst h1 h2 h3 h4 h5 h6 h7
  simp [step, stepHeredoc, stepLiteral, FState.write, rDQ, rBS, h34, h92]

/-- a backslash inside a string and the character it escapes are both copied -/
theorem step_dq_esc {s : FState} {d : Rune} (h1 : s.quoted = true) (h2 : s.comment = false) (h3 : s.backquoted = false)
    (h4 : s.escaped = false) (h5 : s.heredoc = 0) (h6 : s.heredocStart = false) (h7 : s.continued = false) :
    step (step s rBS) d = { s with rout := d :: rBS :: s.rout, last := d, heredocEscaped := (d == rLT || s.heredocEscaped) } := by
  obtain ⟨rout, last, space, bol, ob, obw, obs, nls, cm, q, esc, hd, hst, hde, mk, cl, nest, wbq, tke, ctd⟩ := s
  simp only at h1 h2 h3 h4 h5 h6 h7
  subst h1 h2 h3 h4 h5 h6 h7
  by_cases hlt : d = rLT
  · subst hlt
    simp [step, stepHeredoc, stepLiteral, FState.write, rDQ, rBS, rLT, rNL, rCR]
  · simp [step, stepHeredoc, stepLiteral, FState.write, rDQ, rBS, rNL, rCR, hlt]

/-- inside a one-line string every character is copied (escapes included) -/
theorem foldl_dq : ∀ (cs : List Rune) (s : FState), s.quoted = true → s.comment = false → s.backquoted = false →
    s.escaped = false → s.heredoc = 0 → s.heredocStart = false → s.continued = false → dqBody cs = true →
    ∃ he, cs.foldl step s = { s with rout := cs.reverse ++ s.rout, last := lastOf s.last cs, heredocEscaped := he }
  | [], s, _, _, _, _, _, _, _, _ => ⟨s.heredocEscaped, by cases s; simp [lastOf]⟩
  | [c], s, h1, h2, h3, h4, h5, h6, h7, hc => by
    simp only [dqBody] at hc
    split at hc
    · simp at hc
    · rename_i hbs
      simp only [Bool.and_eq_true, bne_iff_ne, ne_eq, beq_iff_eq] at hc hbs
      refine ⟨s.heredocEscaped, ?_⟩
      simp only [List.foldl_cons, List.foldl_nil]
      rw [step_dq_ch h1 h2 h3 h4 h5 h6 h7 (by simpa [rDQ] using hc.1.1) (by simpa [rBS] using hbs)]
      cases s; simp [lastOf]
  | c :: d :: t, s, h1, h2, h3, h4, h5, h6, h7, hc => by
    simp only [dqBody] at hc
    split at hc
    · rename_i hbs
      simp only [beq_iff_eq] at hbs
      subst hbs
      simp only [Bool.and_eq_true] at hc
      obtain ⟨he, hfold⟩ := foldl_dq t { s with rout := d :: rBS :: s.rout, last := d, heredocEscaped := (d == rLT || s.heredocEscaped) }
        h1 h2 h3 h4 h5 h6 h7 hc.2
      refine ⟨he, ?_⟩
      rw [List.foldl_cons, List.foldl_cons, step_dq_esc h1 h2 h3 h4 h5 h6 h7, hfold]
      simp [lastOf, List.reverse_cons, List.append_assoc]
    · rename_i hbs
      simp only [Bool.and_eq_true, bne_iff_ne, ne_eq, beq_iff_eq] at hc hbs
      obtain ⟨he, hfold⟩ := foldl_dq (d :: t) { s with rout := c :: s.rout, last := c } h1 h2 h3 h4 h5 h6 h7 hc.2
      refine ⟨he, ?_⟩
      rw [List.foldl_cons, step_dq_ch h1 h2 h3 h4 h5 h6 h7 (by simpa [rDQ] using hc.1.1) (by simpa [rBS] using hbs), hfold]
      simp [lastOf, List.reverse_cons, List.append_assoc]

/-- inside a simple backquoted string every character is copied -/
theorem foldl_bq : ∀ (cs : List Rune) (s : FState), s.backquoted = true → s.comment = false → s.quoted = false →
    s.escaped = false → s.heredoc = 0 → s.heredocStart = false → s.continued = false → cs.all bqCh = true →
    cs.foldl step s = { s with rout := cs.reverse ++ s.rout, last := lastOf s.last cs }
  | [], s, _, _, _, _, _, _, _, _ => by simp [lastOf]
  | c :: cs, s, h1, h2, h3, h4, h5, h6, h7, hc => by
    simp only [List.all_cons, Bool.and_eq_true] at hc
    obtain ⟨h34, h10⟩ := bqCh_spec hc.1
    have hstep : step s c = { s with rout := c :: s.rout, last := c } := by
      obtain ⟨rout, last, space, bol, ob, obw, obs, nls, cm, q, esc, hd, hst, hde, mk, cl, nest, wbq, tke, ctd⟩ := s
      simp only at h1 h2 h3 h4 h5 h6 h7
      subst h1 h2 h3 h4 h5 h6 h7
      simp [step, stepHeredoc, stepLiteral, FState.write, rBQ, rBS, h34]
    rw [List.foldl_cons, hstep, foldl_bq cs { s with rout := c :: s.rout, last := c } h1 h2 h3 h4 h5 h6 h7 hc.2]
    simp [lastOf, List.reverse_cons, List.append_assoc]

/-- the closing quote -/
theorem dq_close {s : FState} (h1 : s.quoted = true) (h2 : s.comment = false) (h3 : s.backquoted = false)
    (h4 : s.escaped = false) (h5 : s.heredoc = 0) (h6 : s.heredocStart = false) (h7 : s.continued = false) :
    step s rDQ = { s with rout := rDQ :: s.rout, last := rDQ, quoted := false, tokenEnded := true } := by
  obtain ⟨rout, last, space, bol, ob, obw, obs, nls, cm, q, esc, hd, hst, hde, mk, cl, nest, wbq, tke, ctd⟩ := s
  simp only at h1 h2 h3 h4 h5 h6 h7
  subst h1 h2 h3 h4 h5 h6 h7
  simp [step, stepHeredoc, stepLiteral, FState.write, rDQ, rBS]

/-- the closing quote -/
theorem bq_close {s : FState} (h1 : s.backquoted = true) (h2 : s.comment = false) (h3 : s.quoted = false)
    (h4 : s.escaped = false) (h5 : s.heredoc = 0) (h6 : s.heredocStart = false) (h7 : s.continued = false) :
    step s rBQ = { s with rout := rBQ :: s.rout, last := rBQ, backquoted := false, tokenEnded := true } := by
  obtain ⟨rout, last, space, bol, ob, obw, obs, nls, cm, q, esc, hd, hst, hde, mk, cl, nest, wbq, tke, ctd⟩ := s
  simp only at h1 h2 h3 h4 h5 h6 h7
  subst h1 h2 h3 h4 h5 h6 h7
  simp [step, stepHeredoc, stepLiteral, FState.write, rBQ, rBS]

/-- a simple string `"as"` whose opening quote leads to `t1` ends in an `InvQ` state -/
theorem dq_word {t t1 : FState} {as : List Rune} {N : Nat}
    (hstep : step t rDQ = t1) (has : dqBody as = true)
    (hq : t1.quoted = true) (hc : t1.comment = false) (he : t1.escaped = false) (hh : t1.heredoc = 0)
    (hb : t1.backquoted = false) (hs : t1.heredocStart = false) (hct : t1.continued = false)
    (h1 : t1.space = false) (h2 : t1.bol = false) (h3 : t1.newLines = 0) (h4 : (t1.openBrace && !t1.openBraceWritten) = false)
    (h5 : t1.nesting = N) :
    InvQ N ((rDQ :: (as ++ [rDQ])).foldl step t) ∧
      ((rDQ :: (as ++ [rDQ])).foldl step t).rout = rDQ :: (as.reverse ++ t1.rout) := by
  obtain ⟨hde, hfold⟩ := foldl_dq as t1 hq hc hb he hh hs hct has
  rw [List.foldl_cons, hstep, List.foldl_append, hfold]
  simp only [List.foldl_cons, List.foldl_nil]
  rw [dq_close (s := { t1 with rout := as.reverse ++ t1.rout, last := lastOf t1.last as, heredocEscaped := hde }) hq hc hb he hh hs hct]
  exact ⟨⟨hc, rfl, he, hh, hb, hs, rfl, hct, h1, h2, h3, h4, h5, Or.inl rfl, ⟨_, rfl⟩⟩, rfl⟩

/-- a simple backquoted string `"as"` whose opening quote leads to `t1` ends in an `InvQ` state -/
theorem bq_word {t t1 : FState} {as : List Rune} {N : Nat}
    (hstep : step t rBQ = t1) (has : as.all bqCh = true)
    (hq : t1.backquoted = true) (hc : t1.comment = false) (he : t1.escaped = false) (hh : t1.heredoc = 0)
    (hb : t1.quoted = false) (hs : t1.heredocStart = false) (hct : t1.continued = false)
    (h1 : t1.space = false) (h2 : t1.bol = false) (h3 : t1.newLines = 0) (h4 : (t1.openBrace && !t1.openBraceWritten) = false)
    (h5 : t1.nesting = N) :
    InvQ N ((rBQ :: (as ++ [rBQ])).foldl step t) ∧
      ((rBQ :: (as ++ [rBQ])).foldl step t).rout = rBQ :: (as.reverse ++ t1.rout) := by
  rw [List.foldl_cons, hstep, List.foldl_append, foldl_bq as t1 hq hc hb he hh hs hct has]
  simp only [List.foldl_cons, List.foldl_nil]
  rw [bq_close (s := { t1 with rout := as.reverse ++ t1.rout, last := lastOf t1.last as }) hq hc hb he hh hs hct]
  exact ⟨⟨hc, hb, he, hh, rfl, hs, rfl, hct, h1, h2, h3, h4, h5, Or.inr rfl, ⟨_, rfl⟩⟩, rfl⟩

theorem dqBody_cons_ne (c : Rune) (t : List Rune) (h1 : (c == rBS) = false) :
    dqBody (c :: t) = (c != rDQ && c != rNL && dqBody t) := by
  cases t <;> simp [dqBody, h1]

theorem dqTail_spec : ∀ (t : List Rune), dqTail t = true → ∃ content, t = content ++ [rDQ] ∧ dqBody content = true
  | [], h => by simp [dqTail, dqTailE] at h
  | [c], h => by
    simp only [dqTail, dqTailE] at h
    split at h
    · simp at h
    · split at h
      · rename_i h1 h2
        simp only [beq_iff_eq] at h2
        exact ⟨[], by simp [h2], rfl⟩
      · simp at h
  | c :: d :: t, h => by
    simp only [dqTail, dqTailE] at h
    split at h
    · rename_i hbs
      simp only [Bool.and_eq_true] at h
      obtain ⟨content, hc, hall⟩ := dqTail_spec t h.2
      exact ⟨c :: d :: content, by simp [hc], by simp [dqBody, hbs, h.1, hall]⟩
    · split at h
      · simp at h
      · rename_i hbs hdq
        simp only [Bool.and_eq_true] at h
        obtain ⟨content, hc, hall⟩ := dqTail_spec (d :: t) h.2
        refine ⟨c :: content, by simp [hc], ?_⟩
        rw [dqBody_cons_ne c content (by simpa using hbs)]
        simp only [Bool.and_eq_true, bne_iff_ne, ne_eq]
        simp only [beq_iff_eq] at hdq
        exact ⟨⟨hdq, by simpa using h.1⟩, hall⟩

theorem bqTail_spec : ∀ (t : List Rune), bqTail t = true → ∃ content, t = content ++ [rBQ] ∧ content.all bqCh = true
  | [], h => by simp [bqTail] at h
  | [c], h => by
    simp only [bqTail, beq_iff_eq] at h
    exact ⟨[], by simp [h], rfl⟩
  | c :: d :: t, h => by
    simp only [bqTail, Bool.and_eq_true] at h
    obtain ⟨content, hc, hall⟩ := bqTail_spec (d :: t) h.2
    exact ⟨c :: content, by simp [hc], by simp [h.1, hall]⟩

theorem plainCh_hash : plainCh rHash = false := by decide

theorem plainCh_dq : plainCh rDQ = false := by decide

theorem pwOK_hash (as : List Rune) : pwOK false (rHash :: as) = false := by
  have h : plainCh 35 = false := by decide
  simp [pwOK, rHash, rOpen, h]

theorem pwOK_dq (as : List Rune) : pwOK false (rDQ :: as) = false := by
  have h : plainCh 34 = false := by decide
  simp [pwOK, rDQ, rOpen, h]

theorem pwOK_bq (as : List Rune) : pwOK false (rBQ :: as) = false := by
  have h : plainCh 96 = false := by decide
  simp [pwOK, rBQ, rOpen, h]

theorem kind_plain_word {c : Chunk} (hw : c.wordOK = true) (hk : c.kind = .plain) :
    ∃ a as, c.word = a :: as ∧ pwOK false (a :: as) = true := by
  unfold Chunk.kind at hk
  unfold Chunk.wordOK at hw
  split at hk
  · cases hk
  · split at hk
    · cases hk
    · split at hk
      · cases hk
      · split at hk
        · cases hk
        · split at hk
          · cases hk
          · rename_i h1 h2 h3 h4 h5
            cases hcw : c.word with
            | nil => simp [hcw] at hw
            | cons a as =>
              rw [hcw] at hw h3 h4 h5
              have ha : (a == rHash) = false := by
                simp only [List.head?_cons, Option.some.injEq] at h3; simp [h3]
              have ha' : (a == rDQ) = false := by
                simp only [List.head?_cons, Option.some.injEq] at h4; simp [h4]
              have ha'' : (a == rBQ) = false := by
                simp only [List.head?_cons, Option.some.injEq] at h5; simp [h5]
              simp only [hcw] at h1 h2
              simp only [Bool.or_eq_true, beq_iff_eq, h1, h2, false_or, ha, ha', ha'', Bool.false_and,
                Bool.false_eq_true] at hw
              exact ⟨a, as, rfl, hw⟩

theorem kind_cmt_word {c : Chunk} (hw : c.wordOK = true) (hk : c.kind = .cmt) :
    ∃ as, c.word = rHash :: as ∧ as.all cmtCh = true ∧ isSpace (lastOf rHash as) = false := by
  unfold Chunk.kind at hk
  unfold Chunk.wordOK at hw
  split at hk
  · cases hk
  · split at hk
    · cases hk
    · split at hk
      · rename_i h1 h2 h3
        cases hcw : c.word with
        | nil => simp [hcw] at h3
        | cons a as =>
          rw [hcw] at hw h3
          simp only [List.head?_cons, Option.some.injEq] at h3
          subst h3
          simp only [hcw] at h1 h2
          have hd : (rHash == rDQ) = false := by decide
          have hd' : (rHash == rBQ) = false := by decide
          simp only [Bool.or_eq_true, beq_iff_eq, h1, h2, false_or, pwOK_hash, Bool.false_and, or_false,
            Bool.and_eq_true, Bool.not_eq_true', true_and, Bool.false_eq_true, hd, hd'] at hw
          exact ⟨as, rfl, hw.1, hw.2⟩
      · split at hk
        · cases hk
        · split at hk <;> cases hk

/-- a quoted word: a simple double-quoted or a simple backquoted string -/
theorem kind_dq_word {c : Chunk} (hw : c.wordOK = true) (hk : c.kind = .dq) :
    ∃ as, (c.word = rDQ :: (as ++ [rDQ]) ∧ dqBody as = true) ∨ (c.word = rBQ :: (as ++ [rBQ]) ∧ as.all bqCh = true) := by
  unfold Chunk.kind at hk
  unfold Chunk.wordOK at hw
  split at hk
  · cases hk
  · split at hk
    · cases hk
    · split at hk
      · cases hk
      · split at hk
        · rename_i h1 h2 h3 h4
          cases hcw : c.word with
          | nil => simp [hcw] at h4
          | cons a t =>
            rw [hcw] at hw h4
            simp only [List.head?_cons, Option.some.injEq] at h4
            subst h4
            simp only [hcw] at h1 h2
            have hd : (rDQ == rHash) = false := by decide
            have hd' : (rDQ == rBQ) = false := by decide
            simp only [Bool.or_eq_true, beq_iff_eq, h1, h2, false_or, pwOK_dq, Bool.false_and, or_false,
              Bool.and_eq_true, true_and, Bool.false_eq_true, hd, hd'] at hw
            obtain ⟨as, hc, hall⟩ := dqTail_spec t hw
            exact ⟨as, Or.inl ⟨by rw [hc], hall⟩⟩
        · split at hk
          · rename_i h1 h2 h3 h4 h5
            cases hcw : c.word with
            | nil => simp [hcw] at h5
            | cons a t =>
              rw [hcw] at hw h5
              simp only [List.head?_cons, Option.some.injEq] at h5
              subst h5
              simp only [hcw] at h1 h2
              have hd : (rBQ == rHash) = false := by decide
              have hd' : (rBQ == rDQ) = false := by decide
              simp only [Bool.or_eq_true, beq_iff_eq, h1, h2, false_or, pwOK_bq, Bool.false_and, or_false,
                Bool.and_eq_true, true_and, Bool.false_eq_true, hd, hd'] at hw
              obtain ⟨as, hc, hall⟩ := bqTail_spec t hw
              exact ⟨as, Or.inr ⟨by rw [hc], hall⟩⟩
          · cases hk

theorem kind_opn_word {c : Chunk} (hk : c.kind = .opn) : c.word = [rOpen] := by
  unfold Chunk.kind at hk
  split at hk
  · assumption
  · split at hk
    · cases hk
    · split at hk
      · cases hk
      · split at hk
        · cases hk
        · split at hk <;> cases hk

theorem kind_cls_word {c : Chunk} (hk : c.kind = .cls) : c.word = [rClose] := by
  unfold Chunk.kind at hk
  split at hk
  · cases hk
  · split at hk
    · assumption
    · split at hk
      · cases hk
      · split at hk
        · cases hk
        · split at hk <;> cases hk

theorem reg_init : Reg ({} : FState) := ⟨rfl, rfl, rfl, rfl, rfl, rfl, rfl, rfl, by decide⟩

/-- what `InvP` and `InvC` have in common: no brace is pending -/
structure NoPend (N : Nat) (s : FState) : Prop where
  reg : Reg s
  space : s.space = false
  nl : s.newLines = 0
  nb : (s.openBrace && !s.openBraceWritten) = false
  nest : s.nesting = N

theorem InvP.np {N : Nat} {s : FState} (h : InvP N s) : NoPend N s := ⟨h.reg, h.space, h.nl, h.nb, h.nest⟩
theorem InvC.np {N : Nat} {s : FState} (h : InvC N s) : NoPend N s := ⟨h.reg, h.space, h.nl, h.nb, h.nest⟩

theorem countNL_pos_ne_nil {l : List Rune} (h : 1 ≤ countNL l) : l ≠ [] := by
  intro hl; subst hl; simp [countNL] at h

theorem reverse_tabsN (n : Nat) : (tabsN n).reverse = tabsN n := by simp [tabsN]
theorem reverse_nlsN (n : Nat) : (nlsN n).reverse = nlsN n := by simp [nlsN]

theorem reg_afterSep {s : FState} (h : Reg s) (sep : List Rune) : Reg (afterSep s sep) :=
  ⟨h.comment, h.quoted, h.escaped, h.heredoc, h.bq, h.hst, h.te, h.cont, h.lastLT⟩

theorem plain_start {a : Rune} (ha : plainCh a = true) : startCh a = true ∧ (a == rHash) = false := by
  have := plainCh_spec ha
  exact ⟨by simp [startCh, ha], by simp [rHash, this.2.2.1]⟩

theorem hash_start : startCh rHash = true := by decide

/-- no brace pending, the word starts a new line -/
theorem np_plain_nl {N : Nat} {s : FState} {sep : List Rune} {a : Rune} {as : List Rune}
    (h : NoPend N s) (hsep : sep.all wsCh = true) (hnl : 1 ≤ countNL sep)
    (ha : plainCh a = true) (has : pwOK false as = true) :
    InvP N ((sep ++ a :: as).foldl step s) ∧
      ((sep ++ a :: as).foldl step s).rout = as.reverse ++ (a :: (tabsN N ++ (nlsN (min (countNL sep) 2) ++ s.rout))) := by
  rw [List.foldl_append, foldl_ws sep s h.reg hsep (countNL_pos_ne_nil hnl)]
  have hreg := reg_afterSep h.reg sep
  have hstep := first_start_nl (t := afterSep s sep) hreg (plain_start ha).1 rfl h.nb (by simp [afterSep, h.nl]; exact hnl)
  rw [(plain_start ha).2] at hstep
  have hp := plainCh_spec ha
  have := plain_word (N := N) (as := as) hstep ha has
    ⟨rfl, hreg.quoted, hreg.escaped, hreg.heredoc, hreg.bq, hreg.hst, hreg.te, hreg.cont, hp.2.2.2.1⟩ rfl rfl rfl h.nb h.nest rfl ⟨_, rfl⟩
  refine ⟨this.1, ?_⟩
  rw [this.2]
  simp [afterSep, h.nl, h.nest]

/-- no brace pending, a comment starts a new line -/
theorem np_cmt_nl {N : Nat} {s : FState} {sep : List Rune} {as : List Rune}
    (h : NoPend N s) (hsep : sep.all wsCh = true) (hnl : 1 ≤ countNL sep)
    (has : as.all cmtCh = true) (hlast : isSpace (lastOf rHash as) = false) :
    InvM N ((sep ++ rHash :: as).foldl step s) ∧
      ((sep ++ rHash :: as).foldl step s).rout = as.reverse ++ (rHash :: (tabsN N ++ (nlsN (min (countNL sep) 2) ++ s.rout))) := by
  rw [List.foldl_append, foldl_ws sep s h.reg hsep (countNL_pos_ne_nil hnl)]
  have hreg := reg_afterSep h.reg sep
  have hstep := first_start_nl (t := afterSep s sep) hreg hash_start rfl h.nb (by simp [afterSep, h.nl]; exact hnl)
  have := cmt_word (N := N) (as := as) hstep has hlast rfl hreg.quoted hreg.escaped hreg.heredoc hreg.bq hreg.hst hreg.te hreg.cont
    rfl rfl h.nb h.nest rfl ⟨_, rfl⟩
  refine ⟨this.1, ?_⟩
  rw [this.2]
  simp [afterSep, h.nl, h.nest]

/-- no brace pending: `}` -/
theorem np_close {N : Nat} {s : FState} {sep : List Rune}
    (h : NoPend N s) (hsep : sep.all wsCh = true) (hne : sep ≠ []) (hl : s.last ≠ 10) :
    InvC (N - 1) ((sep ++ [rClose]).foldl step s) ∧
      ((sep ++ [rClose]).foldl step s).rout = rClose :: (tabsN (N - 1) ++ (rNL :: s.rout)) := by
  rw [List.foldl_append, foldl_ws sep s h.reg hsep hne]
  have hreg := reg_afterSep h.reg sep
  have hstep := first_close (t := afterSep s sep) hreg rfl h.nb hl
  simp only [List.foldl_cons, List.foldl_nil]
  rw [hstep]
  refine ⟨⟨⟨hreg.comment, hreg.quoted, hreg.escaped, hreg.heredoc, hreg.bq, hreg.hst, hreg.te, hreg.cont, by simp [rClose]⟩, rfl, rfl, rfl, h.nb, ?_, rfl, ⟨_, rfl⟩⟩, ?_⟩
  · simp [afterSep, h.nest]
  · simp [afterSep, h.nest]

/-- after a plain word, same line: blank + word -/
theorem p_plain_sp {N : Nat} {s : FState} {sep : List Rune} {a : Rune} {as : List Rune}
    (h : InvP N s) (hsep : sep.all wsCh = true) (hne : sep ≠ []) (hnl : countNL sep = 0)
    (ha : plainCh a = true) (has : pwOK false as = true) :
    InvP N ((sep ++ a :: as).foldl step s) ∧
      ((sep ++ a :: as).foldl step s).rout = as.reverse ++ (a :: rSP :: s.rout) := by
  rw [List.foldl_append, foldl_ws sep s h.reg hsep hne]
  have hreg := reg_afterSep h.reg sep
  have hstep := first_start_sp (t := afterSep s sep) hreg (plain_start ha).1 rfl h.nb (by simp [afterSep, h.nl, hnl]) h.bol
  rw [(plain_start ha).2] at hstep
  have hp := plainCh_spec ha
  have := plain_word (N := N) (as := as) hstep ha has
    ⟨rfl, hreg.quoted, hreg.escaped, hreg.heredoc, hreg.bq, hreg.hst, hreg.te, hreg.cont, hp.2.2.2.1⟩ rfl h.bol (by simp [afterSep, h.nl, hnl]) h.nb h.nest rfl ⟨_, rfl⟩
  refine ⟨this.1, ?_⟩
  rw [this.2]
  simp [afterSep]

/-- after a plain word, same line: blank + comment -/
theorem p_cmt_sp {N : Nat} {s : FState} {sep : List Rune} {as : List Rune}
    (h : InvP N s) (hsep : sep.all wsCh = true) (hne : sep ≠ []) (hnl : countNL sep = 0)
    (has : as.all cmtCh = true) (hlast : isSpace (lastOf rHash as) = false) :
    InvM N ((sep ++ rHash :: as).foldl step s) ∧
      ((sep ++ rHash :: as).foldl step s).rout = as.reverse ++ (rHash :: rSP :: s.rout) := by
  rw [List.foldl_append, foldl_ws sep s h.reg hsep hne]
  have hreg := reg_afterSep h.reg sep
  have hstep := first_start_sp (t := afterSep s sep) hreg hash_start rfl h.nb (by simp [afterSep, h.nl, hnl]) h.bol
  have := cmt_word (N := N) (as := as) hstep has hlast rfl hreg.quoted hreg.escaped hreg.heredoc hreg.bq hreg.hst hreg.te hreg.cont
    rfl (by simp [afterSep, h.nl, hnl]) h.nb h.nest rfl ⟨_, rfl⟩
  refine ⟨this.1, ?_⟩
  rw [this.2]
  simp [afterSep]

/-- after a `}`, same line: a comment (indentation in between; at nesting 0 two newlines) -/
theorem c_cmt_same {N : Nat} {s : FState} {sep : List Rune} {as : List Rune}
    (h : InvC N s) (hsep : sep.all wsCh = true) (hne : sep ≠ []) (hnl : countNL sep = 0)
    (has : as.all cmtCh = true) (hlast : isSpace (lastOf rHash as) = false) :
    InvM N ((sep ++ rHash :: as).foldl step s) ∧
      ((sep ++ rHash :: as).foldl step s).rout = as.reverse ++ (rHash :: (sameLine (some .cls) N).reverse ++ s.rout) := by
  rw [List.foldl_append, foldl_ws sep s h.reg hsep hne]
  have hreg := reg_afterSep h.reg sep
  by_cases hN : N = 0
  · have hstep := first_start_cls0 (t := afterSep s sep) hreg hash_start rfl h.nb (by simp [afterSep, h.nl, hnl]) h.bol h.last
      (by simp [afterSep, h.nest, hN])
    have := cmt_word (N := N) (as := as) hstep has hlast rfl hreg.quoted hreg.escaped hreg.heredoc hreg.bq hreg.hst hreg.te hreg.cont
      rfl (by simp [afterSep, h.nl, hnl]) h.nb h.nest rfl ⟨_, rfl⟩
    refine ⟨this.1, ?_⟩
    rw [this.2]
    simp [afterSep, sameLine, hN]
  · have hstep := first_start_clsN (t := afterSep s sep) hreg hash_start rfl h.nb (by simp [afterSep, h.nl, hnl]) h.bol
      (by simp [afterSep, h.nest, hN])
    have := cmt_word (N := N) (as := as) hstep has hlast rfl hreg.quoted hreg.escaped hreg.heredoc hreg.bq hreg.hst hreg.te hreg.cont
      rfl (by simp [afterSep, h.nl, hnl]) h.nb h.nest rfl ⟨_, rfl⟩
    refine ⟨this.1, ?_⟩
    rw [this.2]
    simp [afterSep, sameLine, hN, h.nest, reverse_tabsN]

/-- after a plain word, same line: `{` (kept back, a blank is written) -/
theorem p_open {N : Nat} {s : FState} {sep : List Rune}
    (h : InvP N s) (hsep : sep.all wsCh = true) (hne : sep ≠ []) (hnl : countNL sep = 0) :
    InvO (nextN N .opn) ((sep ++ [rOpen]).foldl step s) ∧
      ((sep ++ [rOpen]).foldl step s).rout = rSP :: s.rout := by
  rw [List.foldl_append, foldl_ws sep s h.reg hsep hne]
  have hreg := reg_afterSep h.reg sep
  have hstep := first_open_sp (t := afterSep s sep) hreg rfl h.nb h.bol
  simp only [List.foldl_cons, List.foldl_nil]
  rw [hstep]
  refine ⟨⟨⟨hreg.comment, hreg.quoted, hreg.escaped, hreg.heredoc, hreg.bq, hreg.hst, hreg.te, hreg.cont, by simp [rSP]⟩, rfl, rfl, rfl, ?_, by simp [rSP], ?_, Or.inl ⟨h.bol, rfl⟩⟩, rfl⟩
  · simp [afterSep, h.nl, hnl]
  · simp [afterSep, h.nest]

/-- a `{` is pending: it is written with a newline, then the word one level deeper -/
theorem o_plain {N : Nat} {s : FState} {sep : List Rune} {a : Rune} {as : List Rune}
    (h : InvO N s) (hsep : sep.all wsCh = true) (hnl : 1 ≤ countNL sep)
    (ha : plainCh a = true) (has : pwOK false as = true) :
    InvP N ((sep ++ a :: as).foldl step s) ∧
      ((sep ++ a :: as).foldl step s).rout = as.reverse ++ (a :: (tabsN N ++ (rNL :: rOpen :: s.rout))) := by
  rw [List.foldl_append, foldl_ws sep s h.reg hsep (countNL_pos_ne_nil hnl)]
  have hreg := reg_afterSep h.reg sep
  have hstep := pending_start (t := afterSep s sep) hreg (plain_start ha).1 rfl h.ob h.obw h.last h.shape
  rw [(plain_start ha).2] at hstep
  have hp := plainCh_spec ha
  have := plain_word (N := N) (as := as) hstep ha has
    ⟨rfl, hreg.quoted, hreg.escaped, hreg.heredoc, hreg.bq, hreg.hst, hreg.te, hreg.cont, hp.2.2.2.1⟩ rfl rfl rfl rfl (by simp [afterSep, h.nest]) rfl ⟨_, rfl⟩
  refine ⟨this.1, ?_⟩
  rw [this.2]
  simp [afterSep, h.nest]

/-- a `{` is pending and a comment follows, on a later line or on the same line (the brace is
    written with its newline first, so the comment always lands on the next line) -/
theorem o_cmt {N : Nat} {s : FState} {sep : List Rune} {as : List Rune}
    (h : InvO N s) (hsep : sep.all wsCh = true) (hnl : sep ≠ [])
    (has : as.all cmtCh = true) (hlast : isSpace (lastOf rHash as) = false) :
    InvM N ((sep ++ rHash :: as).foldl step s) ∧
      ((sep ++ rHash :: as).foldl step s).rout = as.reverse ++ (rHash :: (tabsN N ++ (rNL :: rOpen :: s.rout))) := by
  rw [List.foldl_append, foldl_ws sep s h.reg hsep hnl]
  have hreg := reg_afterSep h.reg sep
  have hstep := pending_start (t := afterSep s sep) hreg hash_start rfl h.ob h.obw h.last h.shape
  have := cmt_word (N := N) (as := as) hstep has hlast rfl hreg.quoted hreg.escaped hreg.heredoc hreg.bq hreg.hst hreg.te hreg.cont
    rfl rfl rfl (by simp [afterSep, h.nest]) rfl ⟨_, rfl⟩
  refine ⟨this.1, ?_⟩
  rw [this.2]
  simp [afterSep, h.nest]

/-- a `{` is pending and the block is empty -/
theorem o_close {N : Nat} {s : FState} {sep : List Rune}
    (h : InvO N s) (hsep : sep.all wsCh = true) (hnl : 1 ≤ countNL sep) :
    InvC (N - 1) ((sep ++ [rClose]).foldl step s) ∧
      ((sep ++ [rClose]).foldl step s).rout = rClose :: (tabsN (N - 1) ++ (rNL :: rOpen :: s.rout)) := by
  rw [List.foldl_append, foldl_ws sep s h.reg hsep (countNL_pos_ne_nil hnl)]
  have hreg := reg_afterSep h.reg sep
  have hstep := pending_close (t := afterSep s sep) hreg rfl h.ob h.obw h.last h.shape
  simp only [List.foldl_cons, List.foldl_nil]
  rw [hstep]
  refine ⟨⟨⟨hreg.comment, hreg.quoted, hreg.escaped, hreg.heredoc, hreg.bq, hreg.hst, hreg.te, hreg.cont, by simp [rClose]⟩, rfl, rfl, rfl, rfl, ?_, rfl, ⟨_, rfl⟩⟩, ?_⟩
  · simp [afterSep, h.nest]
  · simp [afterSep, h.nest]

/-- the very first word of the (trimmed) input is a plain word -/
theorem init_plain {a : Rune} {as : List Rune} (ha : plainCh a = true) (has : pwOK false as = true) :
    InvP 0 ((a :: as).foldl step {}) ∧ ((a :: as).foldl step {}).rout = as.reverse ++ [a] := by
  have hp := plainCh_spec ha
  have hstep : step ({} : FState) a = { ({} : FState) with rout := [a], last := a, space := false, bol := false } := by
    rw [step_plain reg_init ha]
    simp [maybeFlush, stepWord, stepWord2, stepWord3, stepWord4, stepWord5, stepWord6, FState.nextLines, FState.indent,
      FState.tabs, FState.write, rClose]
  have := plain_word (N := 0) (as := as) hstep ha has
    ⟨rfl, rfl, rfl, rfl, rfl, rfl, rfl, rfl, hp.2.2.2.1⟩ rfl rfl rfl rfl rfl rfl ⟨_, rfl⟩
  exact ⟨this.1, this.2⟩

/-- the input starts with a comment -/
theorem init_cmt {as : List Rune} (has : as.all cmtCh = true) (hlast : isSpace (lastOf rHash as) = false) :
    InvM 0 ((rHash :: as).foldl step {}) ∧ ((rHash :: as).foldl step {}).rout = as.reverse ++ [rHash] := by
  have hstep : step ({} : FState) rHash
      = { ({} : FState) with rout := [rHash], last := rHash, space := false, bol := false, comment := true } := by decide
  have := cmt_word (N := 0) (as := as) hstep has hlast rfl rfl rfl rfl rfl rfl rfl rfl rfl rfl rfl rfl rfl ⟨_, rfl⟩
  exact ⟨this.1, this.2⟩

/-- the very first word is `{` -/
theorem init_open : InvO 1 (([rOpen] : List Rune).foldl step {}) ∧ (([rOpen] : List Rune).foldl step {}).rout = [] := by
  refine ⟨⟨⟨rfl, rfl, rfl, rfl, rfl, rfl, rfl, rfl, by decide⟩, rfl, rfl, rfl, rfl, by decide, rfl, Or.inr ⟨rfl, rfl⟩⟩, rfl⟩

/-- white space in a state whose `space` flag is already set (possibly no white space at all) -/
theorem foldl_ws_space {ws : List Rune} {s : FState} (hr : Reg s) (hws : ws.all wsCh = true) (hs : s.space = true) :
    ∃ he, ws.foldl step s = { s with heredocEscaped := he, newLines := s.newLines + countNL ws } := by
  cases ws with
  | nil =>
    refine ⟨s.heredocEscaped, ?_⟩
    obtain ⟨rout, last, space, bol, ob, obw, obs, nls, cm, q, esc, hd, hst, hde, mk, cl, nest, wbq, tke, ctd⟩ := s
    simp [countNL]
  | cons c ws =>
    refine ⟨false, ?_⟩
    rw [foldl_ws (c :: ws) s hr hws (by simp)]
    obtain ⟨rout, last, space, bol, ob, obw, obs, nls, cm, q, esc, hd, hst, hde, mk, cl, nest, wbq, tke, ctd⟩ := s
    simp only at hs
    subst hs
    rfl

/-- the state after the separator `⏎ :: ws` that follows a comment -/
theorem after_comment_sep {N : Nat} {s : FState} {ws : List Rune} (h : InvM N s) (hws : ws.all wsCh = true) :
    ∃ t, (rNL :: ws).foldl step s = t ∧ Reg t ∧ t.space = true ∧ (t.openBrace && !t.openBraceWritten) = false ∧ t.nesting = N ∧
      t.bol = true ∧ t.last = 10 ∧ t.newLines = countNL ws ∧ t.rout = rNL :: s.rout := by
  rw [List.foldl_cons, comment_end h.comment h.space h.heredoc h.hst h.cont]
  have hreg : Reg { s with rout := rNL :: s.rout, last := rNL, comment := false, space := true, bol := true } :=
    ⟨rfl, h.quoted, h.escaped, h.heredoc, h.bq, h.hst, h.te, h.cont, by simp [rNL]⟩
  obtain ⟨he, hfold⟩ := foldl_ws_space hreg hws rfl
  refine ⟨_, hfold, ⟨rfl, h.quoted, h.escaped, h.heredoc, h.bq, h.hst, h.te, h.cont, by simp [rNL]⟩, rfl, h.nb, h.nest, rfl, rfl, ?_, rfl⟩
  simp [h.nl]

/-- after a comment: a plain word on one of the following lines -/
theorem m_plain {N : Nat} {s : FState} {ws : List Rune} {a : Rune} {as : List Rune}
    (h : InvM N s) (hws : ws.all wsCh = true) (ha : plainCh a = true) (has : pwOK false as = true) :
    InvP N (((rNL :: ws) ++ a :: as).foldl step s) ∧
      (((rNL :: ws) ++ a :: as).foldl step s).rout =
        as.reverse ++ (a :: (tabsN N ++ (nlsN (min (countNL ws) 2) ++ (rNL :: s.rout)))) := by
  obtain ⟨t, ht, hreg, hsp, hob, hnest, hbol, hlast, hnl, hrout⟩ := after_comment_sep h hws
  rw [List.foldl_append, ht]
  have hp := plainCh_spec ha
  by_cases hk : countNL ws = 0
  · have hstep := first_start_bol (t := t) hreg (plain_start ha).1 hsp hob (by rw [hnl, hk]) hbol hlast
    rw [(plain_start ha).2] at hstep
    have := plain_word (N := N) (as := as) hstep ha has
      ⟨rfl, hreg.quoted, hreg.escaped, hreg.heredoc, hreg.bq, hreg.hst, hreg.te, hreg.cont, hp.2.2.2.1⟩ rfl rfl (by simp [hnl, hk]) hob hnest rfl ⟨_, rfl⟩
    refine ⟨this.1, ?_⟩
    rw [this.2]
    simp [hk, hnest, hrout, nlsN]
  · have hstep := first_start_nl (t := t) hreg (plain_start ha).1 hsp hob (by rw [hnl]; omega)
    rw [(plain_start ha).2] at hstep
    have := plain_word (N := N) (as := as) hstep ha has
      ⟨rfl, hreg.quoted, hreg.escaped, hreg.heredoc, hreg.bq, hreg.hst, hreg.te, hreg.cont, hp.2.2.2.1⟩ rfl rfl rfl hob hnest rfl ⟨_, rfl⟩
    refine ⟨this.1, ?_⟩
    rw [this.2]
    simp [hnest, hrout, hnl]

/-- after a comment: another comment -/
theorem m_cmt {N : Nat} {s : FState} {ws : List Rune} {as : List Rune}
    (h : InvM N s) (hws : ws.all wsCh = true) (has : as.all cmtCh = true) (hlast' : isSpace (lastOf rHash as) = false) :
    InvM N (((rNL :: ws) ++ rHash :: as).foldl step s) ∧
      (((rNL :: ws) ++ rHash :: as).foldl step s).rout =
        as.reverse ++ (rHash :: (tabsN N ++ (nlsN (min (countNL ws) 2) ++ (rNL :: s.rout)))) := by
  obtain ⟨t, ht, hreg, hsp, hob, hnest, hbol, hlast, hnl, hrout⟩ := after_comment_sep h hws
  rw [List.foldl_append, ht]
  by_cases hk : countNL ws = 0
  · have hstep := first_start_bol (t := t) hreg hash_start hsp hob (by rw [hnl, hk]) hbol hlast
    have := cmt_word (N := N) (as := as) hstep has hlast' rfl hreg.quoted hreg.escaped hreg.heredoc hreg.bq hreg.hst hreg.te hreg.cont
      rfl (by simp [hnl, hk]) hob hnest rfl ⟨_, rfl⟩
    refine ⟨this.1, ?_⟩
    rw [this.2]
    simp [hk, hnest, hrout, nlsN]
  · have hstep := first_start_nl (t := t) hreg hash_start hsp hob (by rw [hnl]; omega)
    have := cmt_word (N := N) (as := as) hstep has hlast' rfl hreg.quoted hreg.escaped hreg.heredoc hreg.bq hreg.hst hreg.te hreg.cont
      rfl rfl hob hnest rfl ⟨_, rfl⟩
    refine ⟨this.1, ?_⟩
    rw [this.2]
    simp [hnest, hrout, hnl]

/-- after a comment: `}` -/
theorem m_close {N : Nat} {s : FState} {ws : List Rune} (h : InvM N s) (hws : ws.all wsCh = true) :
    InvC (N - 1) (((rNL :: ws) ++ [rClose]).foldl step s) ∧
      (((rNL :: ws) ++ [rClose]).foldl step s).rout = rClose :: (tabsN (N - 1) ++ (rNL :: s.rout)) := by
  obtain ⟨t, ht, hreg, hsp, hob, hnest, hbol, hlast, hnl, hrout⟩ := after_comment_sep h hws
  rw [List.foldl_append, ht]
  have hstep := first_close_bol (t := t) hreg hsp hob hlast
  simp only [List.foldl_cons, List.foldl_nil]
  rw [hstep]
  refine ⟨⟨⟨hreg.comment, hreg.quoted, hreg.escaped, hreg.heredoc, hreg.bq, hreg.hst, hreg.te, hreg.cont, by simp [rClose]⟩, rfl, hbol, rfl, hob, ?_, rfl, ⟨_, rfl⟩⟩, ?_⟩
  · simp [hnest]
  · simp [hnest, hrout]

/-! ### words that start with a placeholder (`{x}…`): the first `{` is kept back like a block
brace and written together with the character glued to it -/

theorem second_ne_lt {c : Rune} (hc : plainCh c = true ∨ c = rClose) : c ≠ 60 := by
  rcases hc with h | h
  · exact (plainCh_spec h).2.2.2.1
  · rw [h]; decide

theorem pw_second {c : Rune} {as : List Rune} (h : pwOK false (rOpen :: c :: as) = true) :
    (plainCh c = true ∨ c = rClose) ∧ pwOK (!(c == rClose)) as = true := by
  simp only [pwOK, beq_self_eq_true, ↓reduceIte] at h
  split at h
  · rename_i h'; simp only [beq_iff_eq] at h'; exact ⟨Or.inr h', by simpa [h'] using h⟩
  · rename_i h'
    simp only [Bool.and_eq_true] at h
    exact ⟨Or.inl h.1, by simpa [h'] using h.2⟩

/-- after a word, same line: blank + `{x…` -/
theorem p_lb_sp {N : Nat} {s : FState} {sep : List Rune} {c : Rune} {as : List Rune}
    (h : InvP N s) (hsep : sep.all wsCh = true) (hne : sep ≠ []) (hnl : countNL sep = 0)
    (hc : plainCh c = true ∨ c = rClose) (has : pwOK (!(c == rClose)) as = true) :
    InvP N ((sep ++ rOpen :: c :: as).foldl step s) ∧
      ((sep ++ rOpen :: c :: as).foldl step s).rout = as.reverse ++ (c :: rOpen :: rSP :: s.rout) := by
  rw [List.foldl_append, foldl_ws sep s h.reg hsep hne]
  have hreg := reg_afterSep h.reg sep
  have hs1 := first_open_sp (t := afterSep s sep) hreg rfl h.nb h.bol
  have hs2 := step_after_lb (s := { afterSep s sep with rout := rSP :: (afterSep s sep).rout, last := rSP, space := false, openBrace := true, openBraceSpace := true, openBraceWritten := false }) (c := c)
    ⟨hreg.comment, hreg.quoted, hreg.escaped, hreg.heredoc, hreg.bq, hreg.hst, hreg.te, hreg.cont, by simp [rSP]⟩ hc rfl h.bol
    (by simp [afterSep, h.nl, hnl]) rfl rfl
  have := lb_word (N := N) (t := afterSep s sep) (as := as) ((congrArg (fun x => step x c) hs1).trans hs2) hc has
    ⟨hreg.comment, hreg.quoted, hreg.escaped, hreg.heredoc, hreg.bq, hreg.hst, hreg.te, hreg.cont, second_ne_lt hc⟩ rfl h.bol
    (by simp [afterSep, h.nl, hnl]) rfl rfl h.nest rfl ⟨_, rfl⟩
  refine ⟨this.1, ?_⟩
  rw [this.2]
  simp [afterSep]

/-- after a word, on a new line: the blank in front of the kept-back brace stays at the end of
    the old line, then newline(s), indentation, `{x…` -/
theorem p_lb_nl {N : Nat} {s : FState} {sep : List Rune} {c : Rune} {as : List Rune}
    (h : InvP N s) (hsep : sep.all wsCh = true) (hnl : 1 ≤ countNL sep)
    (hc : plainCh c = true ∨ c = rClose) (has : pwOK (!(c == rClose)) as = true) :
    InvP N ((sep ++ rOpen :: c :: as).foldl step s) ∧
      ((sep ++ rOpen :: c :: as).foldl step s).rout =
        as.reverse ++ (c :: rOpen :: (tabsN N ++ (nlsN (min (countNL sep) 2) ++ (rSP :: s.rout)))) := by
  rw [List.foldl_append, foldl_ws sep s h.reg hsep (countNL_pos_ne_nil hnl)]
  have hreg := reg_afterSep h.reg sep
  have hs1 := first_open_sp (t := afterSep s sep) hreg rfl h.nb h.bol
  have hs2 := second_nl (t := { afterSep s sep with rout := rSP :: (afterSep s sep).rout, last := rSP, space := false, openBrace := true, openBraceSpace := true, openBraceWritten := false }) (c := c)
    ⟨hreg.comment, hreg.quoted, hreg.escaped, hreg.heredoc, hreg.bq, hreg.hst, hreg.te, hreg.cont, by simp [rSP]⟩ hc rfl rfl rfl
    (by simp [afterSep, h.nl]; exact hnl)
  have := lb_word (N := N) (t := afterSep s sep) (as := as) ((congrArg (fun x => step x c) hs1).trans hs2) hc has
    ⟨hreg.comment, hreg.quoted, hreg.escaped, hreg.heredoc, hreg.bq, hreg.hst, hreg.te, hreg.cont, second_ne_lt hc⟩ rfl rfl rfl rfl rfl
    h.nest rfl ⟨_, rfl⟩
  refine ⟨this.1, ?_⟩
  rw [this.2]
  simp [afterSep, h.nl, h.nest]

/-- after a `}`, on a new line: newline(s), indentation, `{x…` -/
theorem c_lb_nl {N : Nat} {s : FState} {sep : List Rune} {c : Rune} {as : List Rune}
    (h : InvC N s) (hsep : sep.all wsCh = true) (hnl : 1 ≤ countNL sep)
    (hc : plainCh c = true ∨ c = rClose) (has : pwOK (!(c == rClose)) as = true) :
    InvP N ((sep ++ rOpen :: c :: as).foldl step s) ∧
      ((sep ++ rOpen :: c :: as).foldl step s).rout =
        as.reverse ++ (c :: rOpen :: (tabsN N ++ (nlsN (min (countNL sep) 2) ++ s.rout))) := by
  rw [List.foldl_append, foldl_ws sep s h.reg hsep (countNL_pos_ne_nil hnl)]
  have hreg := reg_afterSep h.reg sep
  have hs1 := first_open_bol (t := afterSep s sep) hreg rfl h.nb h.bol
  have hs2 := second_nl (t := { afterSep s sep with space := false, openBrace := true, openBraceSpace := false, openBraceWritten := false }) (c := c)
    ⟨hreg.comment, hreg.quoted, hreg.escaped, hreg.heredoc, hreg.bq, hreg.hst, hreg.te, hreg.cont, hreg.lastLT⟩ hc rfl rfl rfl
    (by simp [afterSep, h.nl]; exact hnl)
  have := lb_word (N := N) (t := afterSep s sep) (as := as) ((congrArg (fun x => step x c) hs1).trans hs2) hc has
    ⟨hreg.comment, hreg.quoted, hreg.escaped, hreg.heredoc, hreg.bq, hreg.hst, hreg.te, hreg.cont, second_ne_lt hc⟩ rfl rfl rfl rfl rfl
    h.nest rfl ⟨_, rfl⟩
  refine ⟨this.1, ?_⟩
  rw [this.2]
  simp [afterSep, h.nl, h.nest]

/-- a `{` is pending: `{`, newline, indentation, `{x…` -/
theorem o_lb {N : Nat} {s : FState} {sep : List Rune} {c : Rune} {as : List Rune}
    (h : InvO N s) (hsep : sep.all wsCh = true) (hnl : 1 ≤ countNL sep)
    (hc : plainCh c = true ∨ c = rClose) (has : pwOK (!(c == rClose)) as = true) :
    InvP N ((sep ++ rOpen :: c :: as).foldl step s) ∧
      ((sep ++ rOpen :: c :: as).foldl step s).rout =
        as.reverse ++ (c :: rOpen :: (tabsN N ++ (rNL :: rOpen :: s.rout))) := by
  rw [List.foldl_append, foldl_ws sep s h.reg hsep (countNL_pos_ne_nil hnl)]
  have hreg := reg_afterSep h.reg sep
  have hs1 := pending_open (t := afterSep s sep) hreg rfl h.ob h.obw h.last h.shape
  have hs2 := second_bol (t := { afterSep s sep with rout := rNL :: rOpen :: (afterSep s sep).rout, last := rNL, space := false, bol := true, openBrace := true, openBraceWritten := false, openBraceSpace := false, newLines := 0, nesting := nextN (afterSep s sep).nesting .opn }) (c := c)
    ⟨hreg.comment, hreg.quoted, hreg.escaped, hreg.heredoc, hreg.bq, hreg.hst, hreg.te, hreg.cont, by simp [rNL]⟩ hc rfl rfl rfl rfl rfl
    (by simp [rNL])
  have := lb_word (N := N) (t := afterSep s sep) (as := as) ((congrArg (fun x => step x c) hs1).trans hs2) hc has
    ⟨hreg.comment, hreg.quoted, hreg.escaped, hreg.heredoc, hreg.bq, hreg.hst, hreg.te, hreg.cont, second_ne_lt hc⟩ rfl rfl rfl rfl rfl
    (by simp [afterSep, h.nest]) rfl ⟨_, rfl⟩
  refine ⟨this.1, ?_⟩
  rw [this.2]
  simp [afterSep, h.nest]

/-- the input starts with `{x…` -/
theorem init_lb {c : Rune} {as : List Rune}
    (hc : plainCh c = true ∨ c = rClose) (has : pwOK (!(c == rClose)) as = true) :
    InvP 0 ((rOpen :: c :: as).foldl step {}) ∧ ((rOpen :: c :: as).foldl step {}).rout = as.reverse ++ [c, rOpen] := by
  have hs1 := first_open_bol (t := {}) reg_init rfl rfl rfl
  have hs2 := second_bol (t := { ({} : FState) with space := false, openBrace := true, openBraceSpace := false, openBraceWritten := false }) (c := c)
    ⟨rfl, rfl, rfl, rfl, rfl, rfl, rfl, rfl, by decide⟩ hc rfl rfl rfl rfl rfl (by decide)
  have := lb_word (N := 0) (t := {}) (as := as) ((congrArg (fun x => step x c) hs1).trans hs2) hc has
    ⟨rfl, rfl, rfl, rfl, rfl, rfl, rfl, rfl, second_ne_lt hc⟩ rfl rfl rfl rfl rfl rfl rfl ⟨_, rfl⟩
  refine ⟨this.1, ?_⟩
  rw [this.2]
  simp [tabsN]

/-- after a comment: `{x…` on one of the following lines -/
theorem m_lb {N : Nat} {s : FState} {ws : List Rune} {c : Rune} {as : List Rune}
    (h : InvM N s) (hws : ws.all wsCh = true)
    (hc : plainCh c = true ∨ c = rClose) (has : pwOK (!(c == rClose)) as = true) :
    InvP N (((rNL :: ws) ++ rOpen :: c :: as).foldl step s) ∧
      (((rNL :: ws) ++ rOpen :: c :: as).foldl step s).rout =
        as.reverse ++ (c :: rOpen :: (tabsN N ++ (nlsN (min (countNL ws) 2) ++ (rNL :: s.rout)))) := by
  obtain ⟨t, ht, hreg, hsp, hob, hnest, hbol, hlast, hnl, hrout⟩ := after_comment_sep h hws
  rw [List.foldl_append, ht]
  have hs1 := first_open_bol (t := t) hreg hsp hob hbol
  have hregu : Reg { t with space := false, openBrace := true, openBraceSpace := false, openBraceWritten := false } :=
    ⟨hreg.comment, hreg.quoted, hreg.escaped, hreg.heredoc, hreg.bq, hreg.hst, hreg.te, hreg.cont, hreg.lastLT⟩
  by_cases hk : countNL ws = 0
  · have hs2 := second_bol (c := c) hregu hc rfl rfl rfl (by simp [hnl, hk]) hbol (by simp [hlast])
    have := lb_word (N := N) (t := t) (as := as) ((congrArg (fun x => step x c) hs1).trans hs2) hc has
      ⟨hreg.comment, hreg.quoted, hreg.escaped, hreg.heredoc, hreg.bq, hreg.hst, hreg.te, hreg.cont, second_ne_lt hc⟩ rfl rfl (by simp [hnl, hk]) rfl rfl
      hnest rfl ⟨_, rfl⟩
    refine ⟨this.1, ?_⟩
    rw [this.2]
    simp [hk, hnest, hrout, nlsN]
  · have hs2 := second_nl (c := c) hregu hc rfl rfl rfl (by simp [hnl]; omega)
    have := lb_word (N := N) (t := t) (as := as) ((congrArg (fun x => step x c) hs1).trans hs2) hc has
      ⟨hreg.comment, hreg.quoted, hreg.escaped, hreg.heredoc, hreg.bq, hreg.hst, hreg.te, hreg.cont, second_ne_lt hc⟩ rfl rfl rfl rfl rfl
      hnest rfl ⟨_, rfl⟩
    refine ⟨this.1, ?_⟩
    rw [this.2]
    simp [hnest, hrout, hnl]

/-- no brace pending, a string starts a new line -/
theorem np_dq_nl {N : Nat} {s : FState} {sep : List Rune} {as : List Rune}
    (h : NoPend N s) (hsep : sep.all wsCh = true) (hnl : 1 ≤ countNL sep) (has : dqBody as = true) :
    InvQ N ((sep ++ rDQ :: (as ++ [rDQ])).foldl step s) ∧
      ((sep ++ rDQ :: (as ++ [rDQ])).foldl step s).rout =
        rDQ :: (as.reverse ++ (rDQ :: (tabsN N ++ (nlsN (min (countNL sep) 2) ++ s.rout)))) := by
  rw [List.foldl_append, foldl_ws sep s h.reg hsep (countNL_pos_ne_nil hnl)]
  have hreg := reg_afterSep h.reg sep
  have hstep := first_dq_nl (t := afterSep s sep) hreg rfl h.nb (by simp [afterSep, h.nl]; exact hnl)
  have := dq_word (N := N) (as := as) hstep has rfl hreg.comment hreg.escaped hreg.heredoc hreg.bq hreg.hst hreg.cont
    rfl rfl rfl h.nb h.nest
  refine ⟨this.1, ?_⟩
  rw [this.2]
  simp [afterSep, h.nl, h.nest]

/-- no brace pending, a backquoted string starts a new line -/
theorem np_bq_nl {N : Nat} {s : FState} {sep : List Rune} {as : List Rune}
    (h : NoPend N s) (hsep : sep.all wsCh = true) (hnl : 1 ≤ countNL sep) (has : as.all bqCh = true) :
    InvQ N ((sep ++ rBQ :: (as ++ [rBQ])).foldl step s) ∧
      ((sep ++ rBQ :: (as ++ [rBQ])).foldl step s).rout =
        rBQ :: (as.reverse ++ (rBQ :: (tabsN N ++ (nlsN (min (countNL sep) 2) ++ s.rout)))) := by
  rw [List.foldl_append, foldl_ws sep s h.reg hsep (countNL_pos_ne_nil hnl)]
  have hreg := reg_afterSep h.reg sep
  have hstep := first_bq_nl (t := afterSep s sep) hreg rfl h.nb (by simp [afterSep, h.nl]; exact hnl)
  have := bq_word (N := N) (as := as) hstep has rfl hreg.comment hreg.escaped hreg.heredoc hreg.quoted hreg.hst hreg.cont
    rfl rfl rfl h.nb h.nest
  refine ⟨this.1, ?_⟩
  rw [this.2]
  simp [afterSep, h.nl, h.nest]

/-- after a plain word (or a string), same line: blank + string -/
theorem p_dq_sp {N : Nat} {s : FState} {sep : List Rune} {as : List Rune}
    (h : InvP N s) (hsep : sep.all wsCh = true) (hne : sep ≠ []) (hnl : countNL sep = 0) (has : dqBody as = true) :
    InvQ N ((sep ++ rDQ :: (as ++ [rDQ])).foldl step s) ∧
      ((sep ++ rDQ :: (as ++ [rDQ])).foldl step s).rout = rDQ :: (as.reverse ++ (rDQ :: rSP :: s.rout)) := by
  rw [List.foldl_append, foldl_ws sep s h.reg hsep hne]
  have hreg := reg_afterSep h.reg sep
  have hstep := first_dq_sp (t := afterSep s sep) hreg rfl h.nb (by simp [afterSep, h.nl, hnl]) h.bol
  have := dq_word (N := N) (as := as) hstep has rfl hreg.comment hreg.escaped hreg.heredoc hreg.bq hreg.hst hreg.cont
    rfl h.bol (by simp [afterSep, h.nl, hnl]) h.nb h.nest
  refine ⟨this.1, ?_⟩
  rw [this.2]
  simp [afterSep]

/-- after a plain word (or a backquoted string), same line: blank + string -/
theorem p_bq_sp {N : Nat} {s : FState} {sep : List Rune} {as : List Rune}
    (h : InvP N s) (hsep : sep.all wsCh = true) (hne : sep ≠ []) (hnl : countNL sep = 0) (has : as.all bqCh = true) :
    InvQ N ((sep ++ rBQ :: (as ++ [rBQ])).foldl step s) ∧
      ((sep ++ rBQ :: (as ++ [rBQ])).foldl step s).rout = rBQ :: (as.reverse ++ (rBQ :: rSP :: s.rout)) := by
  rw [List.foldl_append, foldl_ws sep s h.reg hsep hne]
  have hreg := reg_afterSep h.reg sep
  have hstep := first_bq_sp (t := afterSep s sep) hreg rfl h.nb (by simp [afterSep, h.nl, hnl]) h.bol
  have := bq_word (N := N) (as := as) hstep has rfl hreg.comment hreg.escaped hreg.heredoc hreg.quoted hreg.hst hreg.cont
    rfl h.bol (by simp [afterSep, h.nl, hnl]) h.nb h.nest
  refine ⟨this.1, ?_⟩
  rw [this.2]
  simp [afterSep]

/-- a `{` is pending and a string follows on a later line -/
theorem o_dq {N : Nat} {s : FState} {sep : List Rune} {as : List Rune}
    (h : InvO N s) (hsep : sep.all wsCh = true) (hnl : 1 ≤ countNL sep) (has : dqBody as = true) :
    InvQ N ((sep ++ rDQ :: (as ++ [rDQ])).foldl step s) ∧
      ((sep ++ rDQ :: (as ++ [rDQ])).foldl step s).rout =
        rDQ :: (as.reverse ++ (rDQ :: (tabsN N ++ (rNL :: rOpen :: s.rout)))) := by
  rw [List.foldl_append, foldl_ws sep s h.reg hsep (countNL_pos_ne_nil hnl)]
  have hreg := reg_afterSep h.reg sep
  have hstep := pending_dq (t := afterSep s sep) hreg rfl h.ob h.obw h.last h.shape
  have := dq_word (N := N) (as := as) hstep has rfl hreg.comment hreg.escaped hreg.heredoc hreg.bq hreg.hst hreg.cont
    rfl rfl rfl rfl (by simp [afterSep, h.nest])
  refine ⟨this.1, ?_⟩
  rw [this.2]
  simp [afterSep, h.nest]

/-- a `{` is pending and a backquoted string follows on a later line -/
theorem o_bq {N : Nat} {s : FState} {sep : List Rune} {as : List Rune}
    (h : InvO N s) (hsep : sep.all wsCh = true) (hnl : 1 ≤ countNL sep) (has : as.all bqCh = true) :
    InvQ N ((sep ++ rBQ :: (as ++ [rBQ])).foldl step s) ∧
      ((sep ++ rBQ :: (as ++ [rBQ])).foldl step s).rout =
        rBQ :: (as.reverse ++ (rBQ :: (tabsN N ++ (rNL :: rOpen :: s.rout)))) := by
  rw [List.foldl_append, foldl_ws sep s h.reg hsep (countNL_pos_ne_nil hnl)]
  have hreg := reg_afterSep h.reg sep
  have hstep := pending_bq (t := afterSep s sep) hreg rfl h.ob h.obw h.last h.shape
  have := bq_word (N := N) (as := as) hstep has rfl hreg.comment hreg.escaped hreg.heredoc hreg.quoted hreg.hst hreg.cont
    rfl rfl rfl rfl (by simp [afterSep, h.nest])
  refine ⟨this.1, ?_⟩
  rw [this.2]
  simp [afterSep, h.nest]

/-- the input starts with a string -/
theorem init_dq {as : List Rune} (has : dqBody as = true) :
    InvQ 0 ((rDQ :: (as ++ [rDQ])).foldl step {}) ∧
      ((rDQ :: (as ++ [rDQ])).foldl step {}).rout = rDQ :: (as.reverse ++ [rDQ]) := by
  have hstep : step ({} : FState) rDQ
      = { ({} : FState) with rout := [rDQ], last := rDQ, space := false, bol := false, quoted := true } := by decide
  have := dq_word (N := 0) (as := as) hstep has rfl rfl rfl rfl rfl rfl rfl rfl rfl rfl rfl rfl
  exact ⟨this.1, this.2⟩

/-- the input starts with a backquoted string -/
theorem init_bq {as : List Rune} (has : as.all bqCh = true) :
    InvQ 0 ((rBQ :: (as ++ [rBQ])).foldl step {}) ∧
      ((rBQ :: (as ++ [rBQ])).foldl step {}).rout = rBQ :: (as.reverse ++ [rBQ]) := by
  have hstep : step ({} : FState) rBQ
      = { ({} : FState) with rout := [rBQ], last := rBQ, space := false, bol := false, backquoted := true } := by decide
  have := bq_word (N := 0) (as := as) hstep has rfl rfl rfl rfl rfl rfl rfl rfl rfl rfl rfl rfl
  exact ⟨this.1, this.2⟩

/-- after a comment: a string on one of the following lines -/
theorem m_dq {N : Nat} {s : FState} {ws : List Rune} {as : List Rune}
    (h : InvM N s) (hws : ws.all wsCh = true) (has : dqBody as = true) :
    InvQ N (((rNL :: ws) ++ rDQ :: (as ++ [rDQ])).foldl step s) ∧
      (((rNL :: ws) ++ rDQ :: (as ++ [rDQ])).foldl step s).rout =
        rDQ :: (as.reverse ++ (rDQ :: (tabsN N ++ (nlsN (min (countNL ws) 2) ++ (rNL :: s.rout))))) := by
  obtain ⟨t, ht, hreg, hsp, hob, hnest, hbol, hlast, hnl, hrout⟩ := after_comment_sep h hws
  rw [List.foldl_append, ht]
  by_cases hk : countNL ws = 0
  · have hstep := first_dq_bol (t := t) hreg hsp hob (by rw [hnl, hk]) hbol hlast
    have := dq_word (N := N) (as := as) hstep has rfl hreg.comment hreg.escaped hreg.heredoc hreg.bq hreg.hst hreg.cont
      rfl rfl (by simp [hnl, hk]) hob hnest
    refine ⟨this.1, ?_⟩
    rw [this.2]
    simp [hk, hnest, hrout, nlsN]
  · have hstep := first_dq_nl (t := t) hreg hsp hob (by rw [hnl]; omega)
    have := dq_word (N := N) (as := as) hstep has rfl hreg.comment hreg.escaped hreg.heredoc hreg.bq hreg.hst hreg.cont
      rfl rfl rfl hob hnest
    refine ⟨this.1, ?_⟩
    rw [this.2]
    simp [hnest, hrout, hnl]

/-- after a comment: a backquoted string on one of the following lines -/
theorem m_bq {N : Nat} {s : FState} {ws : List Rune} {as : List Rune}
    (h : InvM N s) (hws : ws.all wsCh = true) (has : as.all bqCh = true) :
    InvQ N (((rNL :: ws) ++ rBQ :: (as ++ [rBQ])).foldl step s) ∧
      (((rNL :: ws) ++ rBQ :: (as ++ [rBQ])).foldl step s).rout =
        rBQ :: (as.reverse ++ (rBQ :: (tabsN N ++ (nlsN (min (countNL ws) 2) ++ (rNL :: s.rout))))) := by
  obtain ⟨t, ht, hreg, hsp, hob, hnest, hbol, hlast, hnl, hrout⟩ := after_comment_sep h hws
  rw [List.foldl_append, ht]
  by_cases hk : countNL ws = 0
  · have hstep := first_bq_bol (t := t) hreg hsp hob (by rw [hnl, hk]) hbol hlast
    have := bq_word (N := N) (as := as) hstep has rfl hreg.comment hreg.escaped hreg.heredoc hreg.quoted hreg.hst hreg.cont
      rfl rfl (by simp [hnl, hk]) hob hnest
    refine ⟨this.1, ?_⟩
    rw [this.2]
    simp [hk, hnest, hrout, nlsN]
  · have hstep := first_bq_nl (t := t) hreg hsp hob (by rw [hnl]; omega)
    have := bq_word (N := N) (as := as) hstep has rfl hreg.comment hreg.escaped hreg.heredoc hreg.quoted hreg.hst hreg.cont
      rfl rfl rfl hob hnest
    refine ⟨this.1, ?_⟩
    rw [this.2]
    simp [hnest, hrout, hnl]

theorem outOf_q {N : Nat} {s : FState} (h : InvQ N s) : outOf s = s.rout.reverse := by
  simp [outOf, h.nb]

theorem outOf_np {N : Nat} {s : FState} (h : NoPend N s) : outOf s = s.rout.reverse := by
  simp [outOf, h.nb]

theorem outOf_m {N : Nat} {s : FState} (h : InvM N s) : outOf s = s.rout.reverse := by
  simp [outOf, h.nb]

theorem outOf_o {N : Nat} {s : FState} (h : InvO N s) : outOf s = s.rout.reverse ++ [rOpen] := by
  simp [outOf, h.ob, h.obw]

/-- **one chunk** of a good chunk list: the invariant moves on and the output grows by the
    canonical separator and the word -/
theorem chunk_step_core {prev : Option Kind} {N : Nat} {s : FState} {c : Chunk} {cs : List Chunk}
    (hp : prev ≠ some .dq)
    (hg : goodFrom prev (c :: cs) = true) (hinv : Inv prev N s) :
    Inv (some c.kind) (nextN N c.kind) ((c.sep ++ c.word).foldl step s) ∧
      outOf ((c.sep ++ c.word).foldl step s) = outOf s ++ (canonSep prev N c ++ c.word) := by
  simp only [goodFrom, Bool.and_eq_true] at hg
  obtain ⟨⟨⟨hsep, hw⟩, hcond⟩, -⟩ := hg
  cases hk : c.kind with
  | plain =>
    obtain ⟨a, as, hword, hpw⟩ := kind_plain_word hw hk
    by_cases hao : a = rOpen
    · -- the word starts with a placeholder
      subst hao
      cases as with
      | nil => simp [pwOK] at hpw
      | cons c' as' =>
      obtain ⟨hc', has⟩ := pw_second hpw
      have hhd : c.word.head? = some rOpen := by rw [hword]; rfl
      rw [hword]
      cases prev with
      | none =>
        obtain ⟨rfl, rfl⟩ := hinv
        simp only [List.isEmpty_iff, Bool.and_eq_true] at hcond
        rw [hcond.1]
        have := init_lb hc' has
        simp only [List.nil_append]
        refine ⟨this.1, ?_⟩
        rw [outOf_np this.1.np, this.2]
        simp [outOf, canonSep]
      | some k =>
        cases k with
        | plain =>
          have hinv' : InvP N s := hinv
          simp only [hk, Bool.and_eq_true, Bool.not_eq_true', List.isEmpty_eq_false_iff] at hcond
          by_cases hnl : countNL c.sep = 0
          · have := p_lb_sp hinv' hsep hcond.1 hnl hc' has
            refine ⟨this.1, ?_⟩
            rw [outOf_np this.1.np, outOf_np hinv'.np, this.2]
            simp [canonSep, sameLine, hk, Chunk.nl, hnl]
          · have := p_lb_nl hinv' hsep (by omega) hc' has
            refine ⟨this.1, ?_⟩
            rw [outOf_np this.1.np, outOf_np hinv'.np, this.2]
            simp [canonSep, braceLead, hhd, hk, Chunk.nl, hnl, reverse_tabsN, reverse_nlsN]
        | opn =>
          have hinv' : InvO N s := hinv
          simp only [hk, Bool.and_eq_true, decide_eq_true_eq] at hcond
          have := o_lb hinv' hsep (by simpa [Chunk.nl] using hcond.1) hc' has
          refine ⟨this.1, ?_⟩
          rw [outOf_np this.1.np, outOf_o hinv', this.2]
          simp [canonSep, hk, reverse_tabsN]
        | cls =>
          have hinv' : InvC N s := hinv
          simp only [hk, Bool.and_eq_true, decide_eq_true_eq] at hcond
          have hge : 1 ≤ countNL c.sep := by simpa [Chunk.nl] using hcond.1
          have := c_lb_nl hinv' hsep hge hc' has
          refine ⟨this.1, ?_⟩
          rw [outOf_np this.1.np, outOf_np hinv'.np, this.2]
          have hnl : countNL c.sep ≠ 0 := by omega
          simp [canonSep, braceLead, hk, Chunk.nl, hnl, reverse_tabsN, reverse_nlsN]
        | dq => exact absurd rfl hp
        | cmt =>
          have hinv' : InvM N s := hinv
          simp only [hk, Bool.and_eq_true, beq_iff_eq] at hcond
          obtain ⟨ws, hws⟩ : ∃ ws, c.sep = rNL :: ws := by
            cases hcs : c.sep with
            | nil => rw [hcs] at hcond; simp at hcond
            | cons x ws =>
              rw [hcs] at hcond
              simp only [List.head?_cons, Option.some.injEq] at hcond
              exact ⟨ws, by rw [hcond.1]⟩
          rw [hws] at hsep ⊢
          simp only [List.all_cons, Bool.and_eq_true] at hsep
          have := m_lb hinv' hsep.2 hc' has
          refine ⟨this.1, ?_⟩
          rw [outOf_np this.1.np, outOf_m hinv', this.2]
          simp [canonSep, hk, Chunk.nl, hws, countNL, reverse_tabsN, reverse_nlsN]
    · have hao' : (a == rOpen) = false := by simp [hao]
      simp only [pwOK, hao', Bool.false_eq_true, ↓reduceIte, Bool.and_eq_true] at hpw
      obtain ⟨ha, has⟩ := hpw
      have hbl : ∀ p, braceLead p c = [] := by intro p; simp [braceLead, hword, hao]
      rw [hword]
      cases prev with
      | none =>
        obtain ⟨rfl, rfl⟩ := hinv
        simp only [List.isEmpty_iff, Bool.and_eq_true] at hcond
        rw [hcond.1]
        have := init_plain ha has
        simp only [List.nil_append]
        refine ⟨this.1, ?_⟩
        rw [outOf_np this.1.np, this.2]
        simp [outOf, canonSep]
      | some k =>
        cases k with
        | plain =>
          have hinv' : InvP N s := hinv
          simp only [hk, Bool.and_eq_true, Bool.not_eq_true', List.isEmpty_eq_false_iff] at hcond
          by_cases hnl : countNL c.sep = 0
          · have := p_plain_sp hinv' hsep hcond.1 hnl ha has
            refine ⟨this.1, ?_⟩
            rw [outOf_np this.1.np, outOf_np hinv'.np, this.2]
            simp [canonSep, sameLine, hbl, hk, Chunk.nl, hnl]
          · have := np_plain_nl hinv'.np hsep (by omega) ha has
            refine ⟨this.1, ?_⟩
            rw [outOf_np this.1.np, outOf_np hinv'.np, this.2]
            simp [canonSep, hbl, hk, Chunk.nl, hnl, reverse_tabsN, reverse_nlsN]
        | opn =>
          have hinv' : InvO N s := hinv
          simp only [hk, Bool.and_eq_true, decide_eq_true_eq] at hcond
          have := o_plain hinv' hsep (by simpa [Chunk.nl] using hcond.1) ha has
          refine ⟨this.1, ?_⟩
          rw [outOf_np this.1.np, outOf_o hinv', this.2]
          simp [canonSep, hk, reverse_tabsN]
        | cls =>
          have hinv' : InvC N s := hinv
          simp only [hk, Bool.and_eq_true, decide_eq_true_eq] at hcond
          have hge : 1 ≤ countNL c.sep := by simpa [Chunk.nl] using hcond.1
          have := np_plain_nl hinv'.np hsep hge ha has
          refine ⟨this.1, ?_⟩
          rw [outOf_np this.1.np, outOf_np hinv'.np, this.2]
          have hnl : countNL c.sep ≠ 0 := by omega
          simp [canonSep, hbl, hk, Chunk.nl, hnl, reverse_tabsN, reverse_nlsN]
        | dq => exact absurd rfl hp
        | cmt =>
          have hinv' : InvM N s := hinv
          simp only [hk, Bool.and_eq_true, beq_iff_eq] at hcond
          obtain ⟨ws, hws⟩ : ∃ ws, c.sep = rNL :: ws := by
            cases hcs : c.sep with
            | nil => rw [hcs] at hcond; simp at hcond
            | cons x ws =>
              rw [hcs] at hcond
              simp only [List.head?_cons, Option.some.injEq] at hcond
              exact ⟨ws, by rw [hcond.1]⟩
          rw [hws] at hsep ⊢
          simp only [List.all_cons, Bool.and_eq_true] at hsep
          have := m_plain hinv' hsep.2 ha has
          refine ⟨this.1, ?_⟩
          rw [outOf_np this.1.np, outOf_m hinv', this.2]
          simp [canonSep, hk, Chunk.nl, hws, countNL, reverse_tabsN, reverse_nlsN]
  | cmt =>
    obtain ⟨as, hword, has, hlast⟩ := kind_cmt_word hw hk
    have hbl : ∀ p, braceLead p c = [] := by intro p; simp [braceLead, hword, rHash, rOpen]
    rw [hword]
    cases prev with
    | none =>
      obtain ⟨rfl, rfl⟩ := hinv
      simp only [List.isEmpty_iff, Bool.and_eq_true] at hcond
      rw [hcond.1]
      have := init_cmt has hlast
      simp only [List.nil_append]
      refine ⟨this.1, ?_⟩
      rw [outOf_m this.1, this.2]
      simp [outOf, canonSep]
    | some k =>
      cases k with
      | plain =>
        have hinv' : InvP N s := hinv
        simp only [hk, Bool.and_eq_true, Bool.not_eq_true', List.isEmpty_eq_false_iff] at hcond
        by_cases hnl : countNL c.sep = 0
        · have := p_cmt_sp hinv' hsep hcond.1 hnl has hlast
          refine ⟨this.1, ?_⟩
          rw [outOf_m this.1, outOf_np hinv'.np, this.2]
          simp [canonSep, sameLine, hbl, hk, Chunk.nl, hnl]
        · have := np_cmt_nl hinv'.np hsep (by omega) has hlast
          refine ⟨this.1, ?_⟩
          rw [outOf_m this.1, outOf_np hinv'.np, this.2]
          simp [canonSep, hbl, hk, Chunk.nl, hnl, reverse_tabsN, reverse_nlsN]
      | opn =>
        have hinv' : InvO N s := hinv
        simp only [hk, Bool.and_eq_true, decide_eq_true_eq] at hcond
        have hne : c.sep ≠ [] := by
          have h1 := hcond.1
          simp only [Bool.or_eq_true, decide_eq_true_eq, Bool.and_eq_true, Bool.not_eq_true',
            List.isEmpty_eq_false_iff] at h1
          rcases h1 with h1 | h1
          · exact countNL_pos_ne_nil h1
          · exact h1.2
        have := o_cmt hinv' hsep hne has hlast
        refine ⟨this.1, ?_⟩
        rw [outOf_m this.1, outOf_o hinv', this.2]
        simp [canonSep, hk, reverse_tabsN]
      | cls =>
        have hinv' : InvC N s := hinv
        simp only [hk, Bool.and_eq_true, decide_eq_true_eq] at hcond
        by_cases hnl : countNL c.sep = 0
        · -- a comment on the same line as the `}`
          have hne : c.sep ≠ [] := by
            have h1 := hcond.1
            simp only [Bool.or_eq_true, decide_eq_true_eq, Bool.and_eq_true, Bool.not_eq_true',
              List.isEmpty_eq_false_iff] at h1
            rcases h1 with h1 | h1
            · exact countNL_pos_ne_nil h1
            · exact h1.2
          have := c_cmt_same hinv' hsep hne hnl has hlast
          refine ⟨this.1, ?_⟩
          rw [outOf_m this.1, outOf_np hinv'.np, this.2]
          simp [canonSep, hk, Chunk.nl, hnl]
        · have := np_cmt_nl hinv'.np hsep (by omega) has hlast
          refine ⟨this.1, ?_⟩
          rw [outOf_m this.1, outOf_np hinv'.np, this.2]
          simp [canonSep, hbl, hk, Chunk.nl, hnl, reverse_tabsN, reverse_nlsN]
      | dq => exact absurd rfl hp
      | cmt =>
        have hinv' : InvM N s := hinv
        simp only [hk, Bool.and_eq_true, beq_iff_eq] at hcond
        obtain ⟨ws, hws⟩ : ∃ ws, c.sep = rNL :: ws := by
          cases hcs : c.sep with
          | nil => rw [hcs] at hcond; simp at hcond
          | cons x ws =>
            rw [hcs] at hcond
            simp only [List.head?_cons, Option.some.injEq] at hcond
            exact ⟨ws, by rw [hcond.1]⟩
        rw [hws] at hsep ⊢
        simp only [List.all_cons, Bool.and_eq_true] at hsep
        have := m_cmt hinv' hsep.2 has hlast
        refine ⟨this.1, ?_⟩
        rw [outOf_m this.1, outOf_m hinv', this.2]
        simp [canonSep, hk, Chunk.nl, hws, countNL, reverse_tabsN, reverse_nlsN]
  | dq =>
    obtain ⟨as, ⟨hword, has⟩ | ⟨hword, has⟩⟩ := kind_dq_word hw hk
    · have hbl : ∀ p, braceLead p c = [] := by intro p; simp [braceLead, hword, rDQ, rOpen]
      rw [hword]
      cases prev with
      | none =>
        obtain ⟨rfl, rfl⟩ := hinv
        simp only [List.isEmpty_iff, Bool.and_eq_true] at hcond
        rw [hcond.1]
        have := init_dq has
        simp only [List.nil_append]
        refine ⟨this.1, ?_⟩
        rw [outOf_q this.1, this.2]
        simp [outOf, canonSep]
      | some k =>
        cases k with
        | plain =>
          have hinv' : InvP N s := hinv
          simp only [hk, Bool.and_eq_true, Bool.not_eq_true', List.isEmpty_eq_false_iff] at hcond
          by_cases hnl : countNL c.sep = 0
          · have := p_dq_sp hinv' hsep hcond.1 hnl has
            refine ⟨this.1, ?_⟩
            rw [outOf_q this.1, outOf_np hinv'.np, this.2]
            simp [canonSep, sameLine, hbl, hk, Chunk.nl, hnl]
          · have := np_dq_nl hinv'.np hsep (by omega) has
            refine ⟨this.1, ?_⟩
            rw [outOf_q this.1, outOf_np hinv'.np, this.2]
            simp [canonSep, hbl, hk, Chunk.nl, hnl, reverse_tabsN, reverse_nlsN]
        | opn =>
          have hinv' : InvO N s := hinv
          simp only [hk, Bool.and_eq_true, decide_eq_true_eq] at hcond
          have := o_dq hinv' hsep (by simpa [Chunk.nl] using hcond.1) has
          refine ⟨this.1, ?_⟩
          rw [outOf_q this.1, outOf_o hinv', this.2]
          simp [canonSep, hk, reverse_tabsN]
        | cls =>
          have hinv' : InvC N s := hinv
          simp only [hk, Bool.and_eq_true, decide_eq_true_eq] at hcond
          have hge : 1 ≤ countNL c.sep := by simpa [Chunk.nl] using hcond.1
          have := np_dq_nl hinv'.np hsep hge has
          refine ⟨this.1, ?_⟩
          rw [outOf_q this.1, outOf_np hinv'.np, this.2]
          have hnl : countNL c.sep ≠ 0 := by omega
          simp [canonSep, hbl, hk, Chunk.nl, hnl, reverse_tabsN, reverse_nlsN]
        | dq => exact absurd rfl hp
        | cmt =>
          have hinv' : InvM N s := hinv
          simp only [hk, Bool.and_eq_true, beq_iff_eq] at hcond
          obtain ⟨ws, hws⟩ : ∃ ws, c.sep = rNL :: ws := by
            cases hcs : c.sep with
            | nil => rw [hcs] at hcond; simp at hcond
            | cons x ws =>
              rw [hcs] at hcond
              simp only [List.head?_cons, Option.some.injEq] at hcond
              exact ⟨ws, by rw [hcond.1]⟩
          rw [hws] at hsep ⊢
          simp only [List.all_cons, Bool.and_eq_true] at hsep
          have := m_dq hinv' hsep.2 has
          refine ⟨this.1, ?_⟩
          rw [outOf_q this.1, outOf_m hinv', this.2]
          simp [canonSep, hk, Chunk.nl, hws, countNL, reverse_tabsN, reverse_nlsN]
    · have hbl : ∀ p, braceLead p c = [] := by intro p; simp [braceLead, hword, rBQ, rOpen]
      rw [hword]
      cases prev with
      | none =>
        obtain ⟨rfl, rfl⟩ := hinv
        simp only [List.isEmpty_iff, Bool.and_eq_true] at hcond
        rw [hcond.1]
        have := init_bq has
        simp only [List.nil_append]
        refine ⟨this.1, ?_⟩
        rw [outOf_q this.1, this.2]
        simp [outOf, canonSep]
      | some k =>
        cases k with
        | plain =>
          have hinv' : InvP N s := hinv
          simp only [hk, Bool.and_eq_true, Bool.not_eq_true', List.isEmpty_eq_false_iff] at hcond
          by_cases hnl : countNL c.sep = 0
          · have := p_bq_sp hinv' hsep hcond.1 hnl has
            refine ⟨this.1, ?_⟩
            rw [outOf_q this.1, outOf_np hinv'.np, this.2]
            simp [canonSep, sameLine, hbl, hk, Chunk.nl, hnl]
          · have := np_bq_nl hinv'.np hsep (by omega) has
            refine ⟨this.1, ?_⟩
            rw [outOf_q this.1, outOf_np hinv'.np, this.2]
            simp [canonSep, hbl, hk, Chunk.nl, hnl, reverse_tabsN, reverse_nlsN]
        | opn =>
          have hinv' : InvO N s := hinv
          simp only [hk, Bool.and_eq_true, decide_eq_true_eq] at hcond
          have := o_bq hinv' hsep (by simpa [Chunk.nl] using hcond.1) has
          refine ⟨this.1, ?_⟩
          rw [outOf_q this.1, outOf_o hinv', this.2]
          simp [canonSep, hk, reverse_tabsN]
        | cls =>
          have hinv' : InvC N s := hinv
          simp only [hk, Bool.and_eq_true, decide_eq_true_eq] at hcond
          have hge : 1 ≤ countNL c.sep := by simpa [Chunk.nl] using hcond.1
          have := np_bq_nl hinv'.np hsep hge has
          refine ⟨this.1, ?_⟩
          rw [outOf_q this.1, outOf_np hinv'.np, this.2]
          have hnl : countNL c.sep ≠ 0 := by omega
          simp [canonSep, hbl, hk, Chunk.nl, hnl, reverse_tabsN, reverse_nlsN]
        | dq => exact absurd rfl hp
        | cmt =>
          have hinv' : InvM N s := hinv
          simp only [hk, Bool.and_eq_true, beq_iff_eq] at hcond
          obtain ⟨ws, hws⟩ : ∃ ws, c.sep = rNL :: ws := by
            cases hcs : c.sep with
            | nil => rw [hcs] at hcond; simp at hcond
            | cons x ws =>
              rw [hcs] at hcond
              simp only [List.head?_cons, Option.some.injEq] at hcond
              exact ⟨ws, by rw [hcond.1]⟩
          rw [hws] at hsep ⊢
          simp only [List.all_cons, Bool.and_eq_true] at hsep
          have := m_bq hinv' hsep.2 has
          refine ⟨this.1, ?_⟩
          rw [outOf_q this.1, outOf_m hinv', this.2]
          simp [canonSep, hk, Chunk.nl, hws, countNL, reverse_tabsN, reverse_nlsN]
  | opn =>
    rw [kind_opn_word hk]
    cases prev with
    | none =>
      obtain ⟨rfl, rfl⟩ := hinv
      simp only [List.isEmpty_iff, Bool.and_eq_true] at hcond
      rw [hcond.1]
      have := init_open
      simp only [List.nil_append]
      refine ⟨this.1, ?_⟩
      rw [outOf_o this.1, this.2]
      simp [outOf, canonSep]
    | some k =>
      cases k with
      | plain =>
        have hinv' : InvP N s := hinv
        simp only [hk, Bool.and_eq_true, Bool.not_eq_true', List.isEmpty_eq_false_iff, beq_iff_eq] at hcond
        have := p_open hinv' hsep hcond.1 hcond.2
        refine ⟨this.1, ?_⟩
        rw [outOf_o this.1, outOf_np hinv'.np, this.2]
        simp [canonSep, hk]
      | opn => simp [hk] at hcond
      | cls => simp [hk] at hcond
      | dq => exact absurd rfl hp
      | cmt => simp [hk] at hcond
  | cls =>
    rw [kind_cls_word hk]
    cases prev with
    | none => simp [hk] at hcond
    | some k =>
      cases k with
      | plain =>
        have hinv' : InvP N s := hinv
        simp only [hk, Bool.and_eq_true, Bool.not_eq_true', List.isEmpty_eq_false_iff, decide_eq_true_eq] at hcond
        have hl : s.last ≠ 10 := by
          intro h10; have := hinv'.lastNS; rw [h10] at this; simp [isSpace] at this
        have := np_close hinv'.np hsep hcond.1 hl
        refine ⟨this.1, ?_⟩
        rw [outOf_np this.1.np, outOf_np hinv'.np, this.2]
        simp [canonSep, hk, reverse_tabsN]
      | opn =>
        have hinv' : InvO N s := hinv
        simp only [hk, Bool.and_eq_true, decide_eq_true_eq] at hcond
        have := o_close hinv' hsep (by simpa [Chunk.nl] using hcond.1)
        refine ⟨this.1, ?_⟩
        rw [outOf_np this.1.np, outOf_o hinv', this.2]
        simp [canonSep, hk, reverse_tabsN]
      | cls =>
        have hinv' : InvC N s := hinv
        simp only [hk, Bool.and_eq_true, decide_eq_true_eq] at hcond
        have hl : s.last ≠ 10 := by rw [hinv'.last]; decide
        have := np_close hinv'.np hsep (countNL_pos_ne_nil (by simpa [Chunk.nl] using hcond.1)) hl
        refine ⟨this.1, ?_⟩
        rw [outOf_np this.1.np, outOf_np hinv'.np, this.2]
        simp [canonSep, hk, reverse_tabsN]
      | dq => exact absurd rfl hp
      | cmt =>
        have hinv' : InvM N s := hinv
        simp only [hk, Bool.and_eq_true, beq_iff_eq] at hcond
        obtain ⟨ws, hws⟩ : ∃ ws, c.sep = rNL :: ws := by
          cases hcs : c.sep with
          | nil => rw [hcs] at hcond; simp at hcond
          | cons x ws =>
            rw [hcs] at hcond
            simp only [List.head?_cons, Option.some.injEq] at hcond
            exact ⟨ws, by rw [hcond.1]⟩
        rw [hws] at hsep ⊢
        simp only [List.all_cons, Bool.and_eq_true] at hsep
        have := m_close hinv' hsep.2
        refine ⟨this.1, ?_⟩
        rw [outOf_np this.1.np, outOf_m hinv', this.2]
        simp [canonSep, hk, reverse_tabsN]

theorem goodFrom_dq_plain (l : List Chunk) (hl : l ≠ []) : goodFrom (some .dq) l = goodFrom (some .plain) l := by
  cases l with
  | nil => exact absurd rfl hl
  | cons c cs => simp only [goodFrom]

theorem canonSep_dq_plain (N : Nat) (c : Chunk) : canonSep (some .dq) N c = canonSep (some .plain) N c := by
  simp [canonSep, braceLead, sameLine]

/-- **one chunk**, for every kind of previous word: after a string the white space first clears
    `tokenEnded`, then everything is as after a plain word -/
theorem chunk_step {prev : Option Kind} {N : Nat} {s : FState} {c : Chunk} {cs : List Chunk}
    (hg : goodFrom prev (c :: cs) = true) (hinv : Inv prev N s) :
    Inv (some c.kind) (nextN N c.kind) ((c.sep ++ c.word).foldl step s) ∧
      outOf ((c.sep ++ c.word).foldl step s) = outOf s ++ (canonSep prev N c ++ c.word) := by
  by_cases hp : prev = some .dq
  · subst hp
    have hq : InvQ N s := hinv
    rw [goodFrom_dq_plain _ (by simp)] at hg
    have hsep : c.sep.all wsCh = true ∧ c.sep ≠ [] := by
      simp only [goodFrom, Bool.and_eq_true, Bool.not_eq_true', List.isEmpty_eq_false_iff] at hg
      exact ⟨hg.1.1.1, hg.1.2.1⟩
    have := chunk_step_core (prev := some .plain) (N := N) (s := { s with tokenEnded := false }) (by simp) hg hq.toP
    rw [foldl_after_dq hq hsep.1 hsep.2, canonSep_dq_plain]
    refine ⟨this.1, ?_⟩
    rw [this.2]
    simp [outOf]
  · exact chunk_step_core hp hg hinv

/-- **the whole chunk list**: the buffer ends up holding exactly the canonical rendering -/
theorem fmt_chunks : ∀ (cs : List Chunk) (prev : Option Kind) (N : Nat) (s : FState),
    goodFrom prev cs = true → Inv prev N s →
    (∃ c r, ((flatten cs).foldl step s).rout = c :: r ∧ isSpace c = false) ∧
      ((flatten cs).foldl step s).rout.reverse = outOf s ++ flatten (canon prev N cs) ∧
      flushEnd ((flatten cs).foldl step s) = (flatten cs).foldl step s
  | [], prev, N, s, hg, hinv => by
    simp only [goodFrom, Bool.or_eq_true, beq_iff_eq] at hg
    simp only [flatten, List.foldl_nil, canon, List.append_nil]
    rcases hg with ((hg | hg) | hg) | hg
    · subst hg
      have h : InvP N s := hinv
      obtain ⟨r, hr⟩ := h.head
      exact ⟨⟨_, r, hr, h.lastNS⟩, (outOf_np h.np).symm, by simp [flushEnd, h.nb]⟩
    · subst hg
      have h : InvC N s := hinv
      obtain ⟨r, hr⟩ := h.head
      exact ⟨⟨_, r, hr, by decide⟩, (outOf_np h.np).symm, by simp [flushEnd, h.nb]⟩
    · subst hg
      have h : InvM N s := hinv
      obtain ⟨r, hr⟩ := h.head
      exact ⟨⟨_, r, hr, h.lastNS⟩, (outOf_m h).symm, by simp [flushEnd, h.nb]⟩
    · subst hg
      have h : InvQ N s := hinv
      obtain ⟨r, hr⟩ := h.head
      have hns : isSpace s.last = false := by rcases h.last with h' | h' <;> rw [h'] <;> decide
      exact ⟨⟨_, r, hr, hns⟩, (outOf_q h).symm, by simp [flushEnd, h.nb]⟩
  | c :: cs, prev, N, s, hg, hinv => by
    have h1 := chunk_step hg hinv
    have hg' : goodFrom (some c.kind) cs = true := by
      simp only [goodFrom, Bool.and_eq_true] at hg; exact hg.2
    have h2 := fmt_chunks cs (some c.kind) (nextN N c.kind) _ hg' h1.1
    have hfl : (flatten (c :: cs)).foldl step s = (flatten cs).foldl step ((c.sep ++ c.word).foldl step s) := by
      simp only [flatten, List.foldl_append]
    rw [hfl]
    refine ⟨h2.1, ?_, h2.2.2⟩
    rw [h2.2.1, h1.2]
    simp only [canon, flatten, List.append_assoc]

theorem dropWhile_all_append (p : Rune → Bool) : ∀ (l r : List Rune), l.all p = true →
    (l ++ r).dropWhile p = r.dropWhile p
  | [], _, _ => rfl
  | a :: l, r, h => by
    simp only [List.all_cons, Bool.and_eq_true] at h
    simp only [List.cons_append, List.dropWhile, h.1]
    exact dropWhile_all_append p l r h.2

theorem dropWhile_head_false (p : Rune → Bool) (a : Rune) (r : List Rune) (h : p a = false) :
    (a :: r).dropWhile p = a :: r := by
  simp [List.dropWhile, h]

/-- `TrimSpace` removes exactly the white space around a block that starts and ends with a
    non-blank character -/
theorem trimSpace_sandwich {lead m trail : List Rune} (hl : lead.all isSpace = true) (ht : trail.all isSpace = true)
    (hm1 : ∃ a r, m = a :: r ∧ isSpace a = false) (hm2 : ∃ z r, m.reverse = z :: r ∧ isSpace z = false) :
    trimSpace (lead ++ (m ++ trail)) = m := by
  obtain ⟨a, r, hm, ha⟩ := hm1
  obtain ⟨z, r', hmr, hz⟩ := hm2
  unfold trimSpace trimLeft
  rw [dropWhile_all_append isSpace lead _ hl]
  have : List.dropWhile isSpace (m ++ trail) = m ++ trail := by
    rw [hm]; exact dropWhile_head_false isSpace a _ ha
  rw [this, List.reverse_append, dropWhile_all_append isSpace trail.reverse _ (by simpa using ht), hmr,
    dropWhile_head_false isSpace z _ hz, ← hmr, List.reverse_reverse]

theorem word_nonspace {c : Chunk} (hw : c.wordOK = true) :
    (∃ a r, c.word = a :: r ∧ isSpace a = false) ∧ (∃ z r, c.word.reverse = z :: r ∧ isSpace z = false) := by
  unfold Chunk.wordOK at hw
  simp only [Bool.or_eq_true, beq_iff_eq] at hw
  rcases hw with (hw | hw) | hw
  · rw [hw]; exact ⟨⟨_, _, rfl, by decide⟩, ⟨_, _, rfl, by decide⟩⟩
  · rw [hw]; exact ⟨⟨_, _, rfl, by decide⟩, ⟨_, _, rfl, by decide⟩⟩
  · cases hcw : c.word with
    | nil => simp [hcw] at hw
    | cons h t =>
      rw [hcw] at hw
      simp only [Bool.or_eq_true, Bool.and_eq_true, beq_iff_eq, Bool.not_eq_true'] at hw
      obtain ⟨r, hr⟩ := reverse_append_lastOf t h []
      have hrev : (h :: t).reverse = lastOf h t :: r := by
        rw [List.reverse_cons]; exact hr
      rcases hw with ((hw | hw) | hw) | hw
      · obtain ⟨⟨hh, -⟩, hl⟩ := hw
        subst hh
        exact ⟨⟨_, _, rfl, by decide⟩, ⟨_, r, hrev, hl⟩⟩
      · obtain ⟨hh, hd⟩ := hw
        subst hh
        obtain ⟨content, hc, -⟩ := dqTail_spec t hd
        exact ⟨⟨_, _, rfl, by decide⟩, ⟨rDQ, content.reverse ++ [rDQ], by simp [hc], by decide⟩⟩
      · obtain ⟨hh, hd⟩ := hw
        subst hh
        obtain ⟨content, hc, -⟩ := bqTail_spec t hd
        exact ⟨⟨_, _, rfl, by decide⟩, ⟨rBQ, content.reverse ++ [rBQ], by simp [hc], by decide⟩⟩
      · have hall := pw_all _ _ hw
        simp only [List.all_cons, Bool.and_eq_true] at hall
        exact ⟨⟨_, _, rfl, (wordCh_spec hall.1).1⟩, ⟨_, r, hrev, (wordCh_spec (lastOf_wordCh t h hall.1 hall.2)).1⟩⟩

theorem flatten_head {prev : Option Kind} {c : Chunk} {cs : List Chunk} (hg : goodFrom prev (c :: cs) = true)
    (hs : c.sep = []) : ∃ a r, flatten (c :: cs) = a :: r ∧ isSpace a = false := by
  simp only [goodFrom, Bool.and_eq_true] at hg
  obtain ⟨a, r, hw, ha⟩ := (word_nonspace hg.1.1.2).1
  exact ⟨a, r ++ flatten cs, by simp [flatten, hs, hw], ha⟩

theorem flatten_last : ∀ (cs : List Chunk) (prev : Option Kind), goodFrom prev cs = true → cs ≠ [] →
    ∃ z r, (flatten cs).reverse = z :: r ∧ isSpace z = false
  | [], _, _, h => absurd rfl h
  | [c], prev, hg, _ => by
    simp only [goodFrom, Bool.and_eq_true] at hg
    obtain ⟨z, r, hw, hz⟩ := (word_nonspace hg.1.1.2).2
    exact ⟨z, r ++ c.sep.reverse, by simp [flatten, hw], hz⟩
  | c :: c' :: cs, prev, hg, _ => by
    have hg' : goodFrom (some c.kind) (c' :: cs) = true := by
      simp only [goodFrom, Bool.and_eq_true] at hg ⊢; exact hg.2
    obtain ⟨z, r, h, hz⟩ := flatten_last (c' :: cs) _ hg' (by simp)
    refine ⟨z, r ++ (c.word.reverse ++ c.sep.reverse), ?_, hz⟩
    rw [show flatten (c :: c' :: cs) = c.sep ++ (c.word ++ flatten (c' :: cs)) from rfl]
    simp only [List.reverse_append, h, List.cons_append, List.append_assoc]

/-- the first chunk of a canonical rendering has no separator -/
theorem canon_none_head (N : Nat) (c : Chunk) (cs : List Chunk) :
    canon none N (c :: cs) = ⟨[], c.word⟩ :: canon (some c.kind) (nextN N c.kind) cs := rfl

theorem word_head_not_bom {c : Chunk} (hw : c.wordOK = true) {a : Rune} {r : List Rune} (h : c.word = a :: r) :
    a ≠ rBOM := by
  unfold Chunk.wordOK at hw
  rw [h] at hw
  simp only [Bool.or_eq_true, beq_iff_eq, Bool.and_eq_true, Bool.not_eq_true', List.cons.injEq] at hw
  rcases hw with (hw | hw) | hw
  · rw [hw.1]; decide
  · rw [hw.1]; decide
  · rcases hw with ((hw | hw) | hw) | hw
    · rw [hw.1.1]; decide
    · rw [hw.1]; decide
    · rw [hw.1]; decide
    · have hall := pw_all _ _ hw
      simp only [List.all_cons, Bool.and_eq_true, wordCh, Bool.or_eq_true, beq_iff_eq] at hall
      rcases hall.1 with (h1 | h1) | h1
      · exact (plainCh_spec h1).2.2.2.2.2.2.2.2
      · rw [h1]; decide
      · rw [h1]; decide

/-- **`Format` on the fragment**: surrounding white space is trimmed and the chunks are
    re-rendered canonically, followed by one newline -/
theorem format_on_chunks {lead trail : List Rune} {c : Chunk} {cs : List Chunk}
    (hl : lead.all isSpace = true) (ht : trail.all isSpace = true) (hs : c.sep = [])
    (hg : goodFrom none (c :: cs) = true) :
    format (lead ++ (flatten (c :: cs) ++ trail)) = flatten (canon none 0 (c :: cs)) ++ [rNL] := by
  have hhead := flatten_head hg hs
  have hlast := flatten_last _ _ hg (by simp)
  have htrim := trimSpace_sandwich hl ht hhead hlast
  have htrim2 : trimSpace (flatten (c :: cs)) = flatten (c :: cs) := by
    have := trimSpace_sandwich (lead := []) (trail := []) rfl rfl hhead hlast
    simpa using this
  have hw : c.wordOK = true := by simp only [goodFrom, Bool.and_eq_true] at hg; exact hg.1.1.2
  obtain ⟨a, r', hw', ha⟩ := (word_nonspace hw).1
  have hbom := word_head_not_bom hw hw'
  have hfl : flatten (c :: cs) = a :: (r' ++ flatten cs) := by simp [flatten, hs, hw']
  have hne : (lead ++ (flatten (c :: cs) ++ trail)).isEmpty = false := by
    rw [hfl]; cases lead <;> simp
  have hmain := fmt_chunks (c :: cs) none 0 {} hg ⟨rfl, rfl⟩
  obtain ⟨⟨z, r, hz, hzs⟩, hout, hfe⟩ := hmain
  have hcore : formatCore (flatten (c :: cs)) = flatten (canon none 0 (c :: cs)) ++ [rNL] := by
    unfold formatCore run finish trimLeft
    rw [htrim2, hfe, hz, dropWhile_head_false isSpace z r hzs, ← hz, hout]
    simp only [outOf, List.reverse_nil, List.nil_append]
    have : flatten (canon none 0 (c :: cs)) = a :: (r' ++ flatten (canon (some c.kind) (nextN 0 c.kind) cs)) := by
      simp [canon_none_head, flatten, hw']
    rw [show ((if ({} : FState).openBrace && !({} : FState).openBraceWritten then [rOpen] else []) : List Rune) = [] from rfl,
      List.nil_append, this, dropWhile_head_false isSpace a _ ha]
  unfold format
  rw [hne, htrim, hfl]
  simp only [Bool.false_eq_true, ↓reduceIte, hbom]
  rw [← hfl]; exact hcore

end CaddyModel.C17
