/-
C17 — helper lemmas, part 3: `Tokenize` on chunk lists whose words are plain characters and
braces: one token per word, line = 1 + newlines before it.
-/
import CaddyModel.C17.FragLemmas

-- (case-split proofs share one simp set; an argument unused in some branch is not worth a warning that
-- drowns real errors in the build log)
set_option linter.unusedSimpArgs false

namespace CaddyModel.C17

/-- a character of a word of the fragment, as the lexer sees it -/
def lexCh (c : Rune) : Bool := plainCh c || c == rOpen || c == rClose

theorem lexCh_spec {c : Rune} (h : lexCh c = true) :
    isSpace c = false ∧ c ≠ 34 ∧ c ≠ 35 ∧ c ≠ 60 ∧ c ≠ 92 ∧ c ≠ 96 ∧ c ≠ 0xFEFF ∧ c ≠ 10 := by
  unfold lexCh at h
  simp only [Bool.or_eq_true, beq_iff_eq] at h
  rcases h with (h | h) | h
  · have := plainCh_spec h
    have h10 := (isSpace_ne this.1).1
    exact ⟨this.1, this.2.1, this.2.2.1, this.2.2.2.1, this.2.2.2.2.1, this.2.2.2.2.2.1, this.2.2.2.2.2.2.2.2, h10⟩
  · subst h; decide
  · subst h; decide

theorem heredocStart_false {v : List Rune} {tl : Nat} (h : v.all lexCh = true) :
    ({ val := v, tokLine := tl } : NextSt).heredocStart = false := by
  unfold NextSt.heredocStart
  match v, h with
  | [], _ => simp
  | [a], _ => simp
  | a :: b :: r, h =>
    simp only [List.all_cons, Bool.and_eq_true] at h
    have := (lexCh_spec h.1).2.2.2.1
    simp [rLT, this]

/-- an ordinary character is appended to the current token -/
theorem lex_char {c : Rune} {rest v : List Rune} {l : LexSt} {tl : Nat} {acc : List Token}
    (hc : lexCh c = true) (hv : v.all lexCh = true) :
    lexLoop (c :: rest) l { val := v, tokLine := tl } acc =
      lexLoop rest l { val := v ++ [c], tokLine := if v.length == 0 then l.line else tl } acc := by
  obtain ⟨hsp, h34, h35, h60, h92, h96, hbom, h10⟩ := lexCh_spec hc
  rw [lexLoop]
  simp [heredocStart_false hv, rBS, rDQ, rBQ, rHash, hsp, h34, h35, h92, h96]

/-- the characters of a word -/
theorem lex_word : ∀ (w rest v : List Rune) (l : LexSt) (tl : Nat) (acc : List Token),
    w.all lexCh = true → v.all lexCh = true → v ≠ [] →
    lexLoop (w ++ rest) l { val := v, tokLine := tl } acc = lexLoop rest l { val := v ++ w, tokLine := tl } acc
  | [], rest, v, l, tl, acc, _, _, _ => by simp
  | c :: w, rest, v, l, tl, acc, hw, hv, hne => by
    simp only [List.all_cons, Bool.and_eq_true] at hw
    have hlen : (v.length == 0) = false := by
      cases v with
      | nil => exact absurd rfl hne
      | cons _ _ => simp
    rw [List.cons_append, lex_char hw.1 hv, hlen]
    simp only [Bool.false_eq_true, ↓reduceIte]
    rw [lex_word w rest (v ++ [c]) l tl acc hw.2 (by simp [hv, hw.1]) (by simp)]
    simp

/-- a word starting in a fresh state -/
theorem lex_word_fresh {c : Rune} {w rest : List Rune} {l : LexSt} {acc : List Token}
    (hc : lexCh c = true) (hw : w.all lexCh = true) :
    lexLoop (c :: w ++ rest) l {} acc = lexLoop rest l { val := c :: w, tokLine := l.line } acc := by
  have h0 : lexLoop (c :: (w ++ rest)) l { val := [], tokLine := 0 } acc
      = lexLoop (w ++ rest) l { val := [c], tokLine := l.line } acc := by
    rw [lex_char hc (by simp)]; simp
  rw [List.cons_append]
  rw [show ({} : NextSt) = { val := [], tokLine := 0 } from rfl, h0,
    lex_word w rest [c] l l.line acc hw (by simp [hc]) (by simp)]
  simp

/-- white space in a fresh state: only the line counter moves -/
theorem lex_ws_fresh : ∀ (ws rest : List Rune) (ln : Nat) (acc : List Token), ws.all wsCh = true →
    lexLoop (ws ++ rest) ⟨ln, 0⟩ {} acc = lexLoop rest ⟨ln + countNL ws, 0⟩ {} acc
  | [], _, _, _, _ => by simp [countNL]
  | c :: ws, rest, ln, acc, h => by
    simp only [List.all_cons, Bool.and_eq_true] at h
    obtain ⟨hsp, h13, h34, h35, h60, h92, h96, h123, h125⟩ := wsCh_spec h.1
    rw [List.cons_append, lexLoop]
    by_cases hnl : c = 10
    · subst hnl
      have := lex_ws_fresh ws rest (ln + 1) acc h.2
      simp [NextSt.heredocStart, rBS, rCR, rNL, isSpace, countNL] at this ⊢
      rw [this]; congr 2; omega
    · have := lex_ws_fresh ws rest ln acc h.2
      simp [NextSt.heredocStart, rBS, rCR, rNL, hsp, h13, h92, hnl, countNL] at this ⊢
      exact this

/-- the first white-space character after a word ends the token -/
theorem lex_ws_end {c : Rune} {rest v : List Rune} {ln tl : Nat} {acc : List Token}
    (hc : wsCh c = true) (hv : v.all lexCh = true) (hne : v ≠ []) :
    lexLoop (c :: rest) ⟨ln, 0⟩ { val := v, tokLine := tl } acc =
      lexLoop rest ⟨ln + countNL [c], 0⟩ {} (acc ++ [⟨tl, v, 0, []⟩]) := by
  obtain ⟨hsp, h13, h34, h35, h60, h92, h96, h123, h125⟩ := wsCh_spec hc
  have hlen : 0 < v.length := by
    cases v with
    | nil => exact absurd rfl hne
    | cons _ _ => simp
  rw [lexLoop]
  by_cases hnl : c = 10
  · subst hnl
    simp [heredocStart_false hv, rBS, rCR, rNL, isSpace, countNL, hlen, NextSt.mk']
  · simp [heredocStart_false hv, rBS, rCR, rNL, hsp, h13, h92, hnl, countNL, hlen, NextSt.mk']

/-! ### comments in the lexer -/

/-- `#` at the start of a token switches comment mode on -/
theorem lex_hash {rest : List Rune} {l : LexSt} {acc : List Token} :
    lexLoop (rHash :: rest) l {} acc = lexLoop rest l { comment := true } acc := by
  rw [lexLoop]
  simp [NextSt.heredocStart, rBS, rHash, isSpace]

/-- in comment mode everything up to the newline is skipped (no backslash: it would make the
    newline a line continuation) -/
theorem lex_comment_text : ∀ (t rest : List Rune) (l : LexSt) (acc : List Token), t.all cmtCh = true →
    lexLoop (t ++ rest) l { comment := true } acc = lexLoop rest l { comment := true } acc
  | [], _, _, _, _ => rfl
  | c :: t, rest, l, acc, h => by
    simp only [List.all_cons, Bool.and_eq_true] at h
    obtain ⟨h10, h92⟩ := cmtCh_spec h.1
    rw [List.cons_append, lexLoop]
    have ih := lex_comment_text t rest l acc h.2
    by_cases hsp : isSpace c = true
    · by_cases h13 : c = 13
      · subst h13
        simp [NextSt.heredocStart, rBS, rCR, isSpace]
        exact ih
      · simp [NextSt.heredocStart, rBS, rCR, rNL, hsp, h13, h10, h92]
        exact ih
    · simp [NextSt.heredocStart, rBS, hsp, h92]
      exact ih

/-- the newline ends the comment and the line -/
theorem lex_comment_nl {rest : List Rune} {ln : Nat} {acc : List Token} :
    lexLoop (rNL :: rest) ⟨ln, 0⟩ { comment := true } acc = lexLoop rest ⟨ln + 1, 0⟩ {} acc := by
  rw [lexLoop]
  simp [NextSt.heredocStart, rBS, rCR, rNL, isSpace]

/-! ### simple double-quoted strings in the lexer -/

/-- the text the lexer keeps of the content of a double-quoted string: `\"` becomes `"`, every
    other backslash pair stays -/
def unesc : List Rune → List Rune
  | [] => []
  | c :: t =>
    if c == rBS then
      (match t with
       | [] => [rBS]
       | d :: t' => (if d == rDQ then [d] else [rBS, d]) ++ unesc t')
    else c :: unesc t

theorem unesc_cons_ne (c : Rune) (t : List Rune) (h1 : (c == rBS) = false) : unesc (c :: t) = c :: unesc t := by
  cases t <;> simp [unesc, h1]

theorem lex_dq_content : ∀ (as rest v : List Rune) (l : LexSt) (tl : Nat) (acc : List Token), dqBody as = true →
    lexLoop (as ++ rest) l { val := v, tokLine := tl, quoted := true } acc =
      lexLoop rest l { val := v ++ unesc as, tokLine := tl, quoted := true } acc
  | [], _, _, _, _, _, _ => by simp [unesc]
  | [c], rest, v, l, tl, acc, h => by
    simp only [dqBody] at h
    split at h
    · simp at h
    · rename_i hbs
      simp only [Bool.and_eq_true, bne_iff_ne, ne_eq, beq_iff_eq] at h hbs
      have h34 : c ≠ 34 := by simpa [rDQ] using h.1.1
      have h10 : c ≠ 10 := by simpa [rNL] using h.1.2
      have h92 : c ≠ 92 := by simpa [rBS] using hbs
      rw [List.cons_append, List.nil_append, lexLoop]
      simp [NextSt.heredocStart, rBS, rDQ, rNL, h34, h92, h10, unesc]
  | c :: d :: t, rest, v, l, tl, acc, h => by
    simp only [dqBody] at h
    split at h
    · rename_i hbs
      simp only [beq_iff_eq] at hbs
      subst hbs
      simp only [Bool.and_eq_true, bne_iff_ne, ne_eq] at h
      have h10 : d ≠ 10 := by simpa [rNL] using h.1
      have ih := lex_dq_content t rest (v ++ (if d == rDQ then [d] else [rBS, d])) l tl acc h.2
      rw [List.cons_append, List.cons_append, lexLoop]
      simp only [NextSt.heredocStart, rBS, rDQ, rNL]
      simp
      rw [lexLoop]
      by_cases hd : d = 34
      · subst hd
        simp [NextSt.heredocStart, rBS, rDQ, rNL, unesc] at ih ⊢
        rw [ih]
      · have hd' : (d == rDQ) = false := by simp [rDQ, hd]
        simp [NextSt.heredocStart, rBS, rDQ, rNL, unesc, hd, h10] at ih ⊢
        rw [ih]
    · rename_i hbs
      simp only [Bool.and_eq_true, bne_iff_ne, ne_eq, beq_iff_eq] at h hbs
      have h34 : c ≠ 34 := by simpa [rDQ] using h.1.1
      have h10 : c ≠ 10 := by simpa [rNL] using h.1.2
      have h92 : c ≠ 92 := by simpa [rBS] using hbs
      have ih := lex_dq_content (d :: t) rest (v ++ [c]) l tl acc h.2
      rw [List.cons_append] at ih
      rw [List.cons_append, lexLoop]
      simp [NextSt.heredocStart, rBS, rDQ, rNL, h34, h92, h10]
      rw [ih, unesc_cons_ne c (d :: t) (by simp [rBS, h92])]
      simp

theorem lex_dq {as rest : List Rune} {l : LexSt} {acc : List Token} (h : dqBody as = true) :
    lexLoop (rDQ :: (as ++ rDQ :: rest)) l {} acc = lexLoop rest l {} (acc ++ [⟨l.line, unesc as, rDQ, []⟩]) := by
  have h1 : lexLoop (rDQ :: (as ++ rDQ :: rest)) l {} acc
      = lexLoop (as ++ rDQ :: rest) l { val := [], tokLine := l.line, quoted := true } acc := by
    rw [lexLoop]; simp [NextSt.heredocStart, rBS, rDQ, rHash, isSpace]
  rw [h1, lex_dq_content as _ [] l l.line acc h, lexLoop]
  simp [NextSt.heredocStart, rBS, rDQ, NextSt.mk']

/-! ### simple backquoted strings in the lexer (a backslash is literal there) -/

theorem lex_bq_content : ∀ (as rest v : List Rune) (l : LexSt) (tl : Nat) (acc : List Token), as.all bqCh = true →
    lexLoop (as ++ rest) l { val := v, tokLine := tl, btQuoted := true } acc =
      lexLoop rest l { val := v ++ as, tokLine := tl, btQuoted := true } acc
  | [], _, _, _, _, _, _ => by simp
  | c :: as, rest, v, l, tl, acc, h => by
    simp only [List.all_cons, Bool.and_eq_true] at h
    obtain ⟨h96, h10⟩ := bqCh_spec h.1
    rw [List.cons_append, lexLoop]
    have ih := lex_bq_content as rest (v ++ [c]) l tl acc h.2
    simp [NextSt.heredocStart, rBS, rBQ, rNL, h96, h10]
    rw [ih]; simp

theorem lex_bq {as rest : List Rune} {l : LexSt} {acc : List Token} (h : as.all bqCh = true) :
    lexLoop (rBQ :: (as ++ rBQ :: rest)) l {} acc = lexLoop rest l {} (acc ++ [⟨l.line, as, rBQ, []⟩]) := by
  have h1 : lexLoop (rBQ :: (as ++ rBQ :: rest)) l {} acc
      = lexLoop (as ++ rBQ :: rest) l { val := [], tokLine := l.line, btQuoted := true } acc := by
    rw [lexLoop]; simp [NextSt.heredocStart, rBS, rBQ, rDQ, rHash, isSpace]
  rw [h1, lex_bq_content as _ [] l l.line acc h, lexLoop]
  simp [NextSt.heredocStart, rBS, rBQ, NextSt.mk']

/-! ### the lexer over chunk lists -/

/-- the word is a comment -/
def isCmtW (w : List Rune) : Bool := w.head? == some rHash

/-- what the lexer needs of a chunk list: separators are non-CR white space (non-empty except
    possibly the first; starting with the newline after a comment), words are comments or
    non-empty runs of word characters -/
def lexGood : (first afterCmt : Bool) → List Chunk → Bool
  | _, _, [] => true
  | first, afterCmt, c :: cs =>
    c.sep.all wsCh && (first || !c.sep.isEmpty) && (!afterCmt || c.sep.head? == some rNL) &&
    (match c.word with
     | [] => false
     | h :: t => (h == rHash && t.all cmtCh) || (h == rDQ && dqTail t) || (h == rBQ && bqTail t) || (h :: t).all lexCh) &&
    lexGood false (isCmtW c.word) cs

/-- the word is a double-quoted string -/
def isDqW (w : List Rune) : Bool := w.head? == some rDQ

/-- the word is a backquoted string -/
def isBqW (w : List Rune) : Bool := w.head? == some rBQ

/-- text and quote kind of the token a word gives -/
def tokText (w : List Rune) : List Rune :=
  if isDqW w then unesc (w.drop 1).dropLast else if isBqW w then (w.drop 1).dropLast else w
def tokQuote (w : List Rune) : Rune := if isDqW w then rDQ else if isBqW w then rBQ else 0

/-- the tokens of a chunk list whose first separator starts on line `ln` (comments give none) -/
def toksOf : Nat → List Chunk → List Token
  | _, [] => []
  | ln, c :: cs =>
    if isCmtW c.word then toksOf (ln + c.nl) cs
    else ⟨ln + c.nl, tokText c.word, tokQuote c.word, []⟩ :: toksOf (ln + c.nl) cs

theorem tokText_dq (as : List Rune) : tokText (rDQ :: (as ++ [rDQ])) = unesc as := by
  simp [tokText, isDqW]

theorem tokQuote_dq (t : List Rune) : tokQuote (rDQ :: t) = rDQ := by simp [tokQuote, isDqW]

theorem tokText_bq (as : List Rune) : tokText (rBQ :: (as ++ [rBQ])) = as := by
  simp [tokText, isBqW, isDqW, rBQ, rDQ]

theorem tokQuote_bq (t : List Rune) : tokQuote (rBQ :: t) = rBQ := by simp [tokQuote, isDqW, isBqW, rDQ, rBQ]

/-- trailing white space, with or without a token in progress -/
theorem lex_trail_fresh (trail : List Rune) (ln : Nat) (acc : List Token) (h : trail.all wsCh = true) :
    lexLoop trail ⟨ln, 0⟩ {} acc = .ok acc := by
  have := lex_ws_fresh trail [] ln acc h
  rw [List.append_nil] at this
  rw [this, lexLoop]; simp

theorem lex_trail_pending (trail v : List Rune) (ln tl : Nat) (acc : List Token) (h : trail.all wsCh = true)
    (hv : v.all lexCh = true) (hne : v ≠ []) :
    lexLoop trail ⟨ln, 0⟩ { val := v, tokLine := tl } acc = .ok (acc ++ [⟨tl, v, 0, []⟩]) := by
  cases trail with
  | nil =>
    have hlen : 0 < v.length := by
      cases v with
      | nil => exact absurd rfl hne
      | cons _ _ => simp
    rw [lexLoop]; simp [hlen, NextSt.mk']
  | cons c ws =>
    simp only [List.all_cons, Bool.and_eq_true] at h
    rw [lex_ws_end h.1 hv hne, lex_trail_fresh ws _ _ h.2]

theorem wsCh_cmtCh {c : Rune} (h : wsCh c = true) (hnl : c ≠ 10) : cmtCh c = true := by
  obtain ⟨-, -, -, -, -, h92, h96, -, -⟩ := wsCh_spec h
  simp [cmtCh, rNL, rBS, hnl, h92]

theorem lex_trail_comment : ∀ (trail : List Rune) (ln : Nat) (acc : List Token), trail.all wsCh = true →
    lexLoop trail ⟨ln, 0⟩ { comment := true } acc = .ok acc
  | [], _, _, _ => by rw [lexLoop]; simp
  | c :: ws, ln, acc, h => by
    simp only [List.all_cons, Bool.and_eq_true] at h
    by_cases hnl : c = 10
    · subst hnl
      rw [show (10 : Rune) = rNL from rfl, lex_comment_nl, lex_trail_fresh ws _ _ h.2]
    · have := lex_comment_text [c] ws ⟨ln, 0⟩ acc (by simp [wsCh_cmtCh h.1 hnl])
      rw [List.singleton_append] at this
      rw [this, lex_trail_comment ws ln acc h.2]

theorem toksOf_shift (ln : Nat) (a : Rune) (ws w : List Rune) (cs : List Chunk) :
    toksOf (ln + countNL [a]) (⟨ws, w⟩ :: cs) = toksOf ln (⟨a :: ws, w⟩ :: cs) := by
  simp only [toksOf, Chunk.nl, countNL]
  have : ln + ((if a = rNL then 1 else 0) + 0) + countNL ws = ln + ((if a = rNL then 1 else 0) + countNL ws) := by omega
  rw [this]

theorem lexGood_retarget {a : Rune} {ws : List Rune} {c : Chunk} {cs : List Chunk} {ac : Bool}
    (hcs : c.sep = a :: ws) (hg : lexGood false ac (c :: cs) = true) :
    lexGood true false (⟨ws, c.word⟩ :: cs) = true ∧ wsCh a = true := by
  simp only [lexGood, Bool.and_eq_true, hcs, List.all_cons] at hg ⊢
  obtain ⟨⟨⟨⟨⟨ha, hws⟩, -⟩, -⟩, hw⟩, hrest⟩ := hg
  exact ⟨⟨⟨⟨⟨hws, by simp⟩, by simp⟩, hw⟩, hrest⟩, ha⟩

/-- **the lexer on a chunk list**, by induction on its length: (A) from a fresh state,
    (B) with the previous word still in `val`, (C) inside the previous comment -/
theorem lex_chunks (trail : List Rune) (ht : trail.all wsCh = true) : ∀ (n : Nat),
    (∀ (cs : List Chunk) (first : Bool) (ln : Nat) (acc : List Token), cs.length = n → lexGood first false cs = true →
      lexLoop (flatten cs ++ trail) ⟨ln, 0⟩ {} acc = .ok (acc ++ toksOf ln cs)) ∧
    (∀ (cs : List Chunk) (v : List Rune) (ln tl : Nat) (acc : List Token), cs.length = n → lexGood false false cs = true →
      v.all lexCh = true → v ≠ [] →
      lexLoop (flatten cs ++ trail) ⟨ln, 0⟩ { val := v, tokLine := tl } acc = .ok (acc ++ ⟨tl, v, 0, []⟩ :: toksOf ln cs)) ∧
    (∀ (cs : List Chunk) (ln : Nat) (acc : List Token), cs.length = n → lexGood false true cs = true →
      lexLoop (flatten cs ++ trail) ⟨ln, 0⟩ { comment := true } acc = .ok (acc ++ toksOf ln cs))
  | 0 => by
    refine ⟨?_, ?_, ?_⟩
    · intro cs first ln acc hl _
      have : cs = [] := List.length_eq_zero_iff.mp hl
      subst this
      simp only [flatten, List.nil_append, toksOf, List.append_nil]
      exact lex_trail_fresh trail ln acc ht
    · intro cs v ln tl acc hl _ hv hne
      have : cs = [] := List.length_eq_zero_iff.mp hl
      subst this
      simp only [flatten, List.nil_append, toksOf]
      exact lex_trail_pending trail v ln tl acc ht hv hne
    · intro cs ln acc hl _
      have : cs = [] := List.length_eq_zero_iff.mp hl
      subst this
      simp only [flatten, List.nil_append, toksOf, List.append_nil]
      exact lex_trail_comment trail ln acc ht
  | n + 1 => by
    obtain ⟨ihA, ihB, ihC⟩ := lex_chunks trail ht n
    -- (A) for length n+1
    have hA : ∀ (cs : List Chunk) (first : Bool) (ln : Nat) (acc : List Token), cs.length = n + 1 →
        lexGood first false cs = true →
        lexLoop (flatten cs ++ trail) ⟨ln, 0⟩ {} acc = .ok (acc ++ toksOf ln cs) := by
      intro cs first ln acc hl hg
      match cs, hl, hg with
      | c :: cs, hl, hg =>
        simp only [lexGood, Bool.and_eq_true] at hg
        obtain ⟨⟨⟨⟨hsep, -⟩, -⟩, hw⟩, hrest⟩ := hg
        have hlen : cs.length = n := by simpa using hl
        cases hcw : c.word with
        | nil => rw [hcw] at hw; simp at hw
        | cons a w =>
          rw [hcw] at hw hrest
          have e1 : flatten (c :: cs) ++ trail = c.sep ++ ((a :: w) ++ (flatten cs ++ trail)) := by
            simp [flatten, hcw, List.append_assoc]
          rw [e1, lex_ws_fresh c.sep _ ln acc hsep]
          by_cases hcm : a = rHash
          · -- a comment: no token
            subst hcm
            have hw' : w.all cmtCh = true := by
              have hd : (rHash == rDQ) = false := by decide
              have hd' : (rHash == rBQ) = false := by decide
              simp only [Bool.or_eq_true, Bool.and_eq_true, beq_self_eq_true, true_and, List.all_cons, hd, hd',
                Bool.false_and, Bool.false_eq_true, or_false] at hw
              rcases hw with hw | hw
              · exact hw
              · have : lexCh rHash = false := by decide
                rw [this] at hw; simp at hw
            have hic : isCmtW (rHash :: w) = true := by simp [isCmtW]
            rw [hic] at hrest
            rw [List.cons_append, lex_hash, lex_comment_text w _ _ _ hw', ihC cs _ acc hlen hrest]
            simp [toksOf, Chunk.nl, hcw, hic]
          · have hne : (a == rHash) = false := by simp [hcm]
            have hic : isCmtW (a :: w) = false := by simp [isCmtW, hcm]
            rw [hic] at hrest
            by_cases hcq : a = rDQ
            · -- a simple string: one quoted token, then a fresh state
              subst hcq
              have hd : dqTail w = true := by
                have hl : lexCh rDQ = false := by decide
                have hb : (rDQ == rBQ) = false := by decide
                simp only [hne, Bool.false_and, Bool.false_or, beq_self_eq_true, Bool.true_and, List.all_cons, hl,
                  hb, Bool.or_false] at hw
                exact hw
              obtain ⟨as, hwas, hall⟩ := dqTail_spec w hd
              subst hwas
              have e2 : rDQ :: (as ++ [rDQ]) ++ (flatten cs ++ trail) = rDQ :: (as ++ rDQ :: (flatten cs ++ trail)) := by
                simp [List.append_assoc]
              rw [e2, lex_dq hall, ihA cs false _ _ hlen hrest]
              simp [toksOf, Chunk.nl, hcw, hic, tokText_dq, tokQuote_dq]
            · have hnq : (a == rDQ) = false := by simp [hcq]
              by_cases hcb : a = rBQ
              · -- a simple backquoted string: one quoted token, then a fresh state
                subst hcb
                have hd : bqTail w = true := by
                  have hl : lexCh rBQ = false := by decide
                  simp only [hne, hnq, Bool.false_and, Bool.false_or, beq_self_eq_true, Bool.true_and, List.all_cons, hl,
                    Bool.or_false] at hw
                  exact hw
                obtain ⟨as, hwas, hall⟩ := bqTail_spec w hd
                subst hwas
                have e2 : rBQ :: (as ++ [rBQ]) ++ (flatten cs ++ trail) = rBQ :: (as ++ rBQ :: (flatten cs ++ trail)) := by
                  simp [List.append_assoc]
                rw [e2, lex_bq hall, ihA cs false _ _ hlen hrest]
                simp [toksOf, Chunk.nl, hcw, hic, tokText_bq, tokQuote_bq]
              · have hnb : (a == rBQ) = false := by simp [hcb]
                simp only [hne, hnq, hnb, Bool.false_and, Bool.false_or, List.all_cons, Bool.and_eq_true] at hw
                rw [lex_word_fresh hw.1 hw.2,
                  ihB cs (a :: w) (ln + countNL c.sep) (ln + countNL c.sep) acc hlen hrest (by simp [hw.1, hw.2]) (by simp)]
                simp [toksOf, Chunk.nl, hcw, hic, tokText, tokQuote, isDqW, isBqW, hcq, hcb]
    refine ⟨hA, ?_, ?_⟩
    · -- (B) for length n+1: the first separator is non-empty; its first character ends the token
      intro cs v ln tl acc hl hg hv hne
      match cs, hl, hg with
      | c :: cs, hl, hg =>
        cases hcs : c.sep with
        | nil => simp [lexGood, hcs] at hg
        | cons a ws =>
          obtain ⟨hg2, ha⟩ := lexGood_retarget hcs hg
          have e1 : flatten (c :: cs) ++ trail = a :: (flatten (⟨ws, c.word⟩ :: cs) ++ trail) := by
            simp [flatten, hcs, List.append_assoc]
          rw [e1, lex_ws_end ha hv hne, hA (⟨ws, c.word⟩ :: cs) true _ _ (by simpa using hl) hg2, toksOf_shift]
          have : (⟨a :: ws, c.word⟩ : Chunk) = c := by cases c; simp_all
          rw [this]; simp
    · -- (C) for length n+1: the separator starts with the newline that ends the comment
      intro cs ln acc hl hg
      match cs, hl, hg with
      | c :: cs, hl, hg =>
        cases hcs : c.sep with
        | nil => simp [lexGood, hcs] at hg
        | cons a ws =>
          obtain ⟨hg2, -⟩ := lexGood_retarget hcs hg
          have ha : a = rNL := by
            simp only [lexGood, Bool.and_eq_true, hcs, List.head?_cons, Bool.not_true, Bool.false_or, beq_iff_eq,
              Option.some.injEq] at hg
            exact hg.1.1.2
          subst ha
          have e1 : flatten (c :: cs) ++ trail = rNL :: (flatten (⟨ws, c.word⟩ :: cs) ++ trail) := by
            simp [flatten, hcs, List.append_assoc]
          rw [e1, lex_comment_nl, hA (⟨ws, c.word⟩ :: cs) true _ _ (by simpa using hl) hg2]
          have := toksOf_shift ln rNL ws c.word cs
          simp only [countNL, ↓reduceIte, Nat.add_zero] at this
          rw [this]
          have : (⟨rNL :: ws, c.word⟩ : Chunk) = c := by cases c; simp_all
          rw [this]

/-! ### from `goodFrom` to `lexGood`, and the canonical rendering -/

theorem kind_cmt_iff (c : Chunk) : (c.kind = .cmt) ↔ isCmtW c.word = true := by
  unfold Chunk.kind isCmtW
  split
  · rename_i h; rw [h]; simp [rOpen, rHash]
  · split
    · rename_i h; rw [h]; simp [rClose, rHash]
    · split
      · simp_all
      · split
        · simp_all
        · split <;> simp_all

theorem wordOK_lex {c : Chunk} (hw : c.wordOK = true) :
    (match c.word with
     | [] => false
     | h :: t => (h == rHash && t.all cmtCh) || (h == rDQ && dqTail t) || (h == rBQ && bqTail t) || (h :: t).all lexCh) = true := by
  unfold Chunk.wordOK at hw
  simp only [Bool.or_eq_true, beq_iff_eq] at hw
  rcases hw with (hw | hw) | hw
  · rw [hw]; decide
  · rw [hw]; decide
  · cases hcw : c.word with
    | nil => simp [hcw] at hw
    | cons h t =>
      rw [hcw] at hw
      simp only [Bool.or_eq_true, Bool.and_eq_true, beq_iff_eq, Bool.not_eq_true'] at hw
      simp only [Bool.or_eq_true, Bool.and_eq_true, beq_iff_eq]
      rcases hw with ((hw | hw) | hw) | hw
      · exact Or.inl (Or.inl (Or.inl hw.1))
      · exact Or.inl (Or.inl (Or.inr hw))
      · exact Or.inl (Or.inr hw)
      · exact Or.inr (pw_all _ _ hw)

theorem good_lexGood : ∀ (cs : List Chunk) (prev : Option Kind), goodFrom prev cs = true →
    lexGood (prev == none) (prev == some .cmt) cs = true
  | [], _, _ => rfl
  | c :: cs, prev, hg => by
    have hrest := good_lexGood cs (some c.kind) (by simp only [goodFrom, Bool.and_eq_true] at hg; exact hg.2)
    simp only [goodFrom, Bool.and_eq_true] at hg
    obtain ⟨⟨⟨hsep, hw⟩, hcond⟩, -⟩ := hg
    have hflag : (some c.kind == some Kind.cmt) = isCmtW c.word := by
      by_cases h : c.kind = .cmt
      · rw [(kind_cmt_iff c).mp h, h]; rfl
      · have : isCmtW c.word = false := by
          cases hi : isCmtW c.word with
          | true => exact absurd ((kind_cmt_iff c).mpr hi) h
          | false => rfl
        rw [this]
        cases hk : c.kind <;> simp_all
    rw [hflag, show (some c.kind == none) = false from rfl] at hrest
    simp only [lexGood, Bool.and_eq_true]
    refine ⟨⟨⟨⟨hsep, ?_⟩, ?_⟩, wordOK_lex hw⟩, hrest⟩
    · cases prev with
      | none => rfl
      | some k =>
        simp only [show (some k == none) = false from rfl, Bool.false_or, Bool.not_eq_true', List.isEmpty_eq_false_iff]
        cases k with
        | plain =>
          simp only [Bool.and_eq_true, Bool.not_eq_true', List.isEmpty_eq_false_iff] at hcond
          exact hcond.1
        | dq =>
          simp only [Bool.and_eq_true, Bool.not_eq_true', List.isEmpty_eq_false_iff] at hcond
          exact hcond.1
        | opn =>
          simp only [Bool.and_eq_true, Bool.or_eq_true, decide_eq_true_eq, Bool.not_eq_true',
            List.isEmpty_eq_false_iff] at hcond
          rcases hcond.1 with h | h
          · exact countNL_pos_ne_nil h
          · exact h.2
        | cls =>
          simp only [Bool.and_eq_true, Bool.or_eq_true, decide_eq_true_eq, Bool.not_eq_true',
            List.isEmpty_eq_false_iff] at hcond
          rcases hcond.1 with h | h
          · exact countNL_pos_ne_nil h
          · exact h.2
        | cmt =>
          simp only [Bool.and_eq_true, beq_iff_eq] at hcond
          intro h; rw [h] at hcond; simp at hcond
    · cases prev with
      | none => rfl
      | some k =>
        cases k with
        | cmt =>
          simp only [Bool.and_eq_true] at hcond
          simp [hcond.1]
        | plain => rfl
        | dq => rfl
        | opn => rfl
        | cls => rfl

theorem countNL_append (a b : List Rune) : countNL (a ++ b) = countNL a + countNL b := by
  induction a with
  | nil => simp [countNL]
  | cons x a ih => simp only [List.cons_append, countNL, ih]; omega

theorem countNL_replicate (n : Nat) (c : Rune) : countNL (List.replicate n c) = if c = rNL then n else 0 := by
  induction n with
  | zero => simp [countNL]
  | succ n ih => simp only [List.replicate_succ, countNL, ih]; split <;> omega

theorem countNL_tabsN (n : Nat) : countNL (tabsN n) = 0 := by
  simp [tabsN, countNL_replicate, rTAB, rNL]

theorem countNL_nlsN (n : Nat) : countNL (nlsN n) = n := by
  simp [nlsN, countNL_replicate]

theorem all_ws_tabsN (n : Nat) : (tabsN n).all wsCh = true := by
  simp only [tabsN, List.all_replicate]; simp; right; decide

theorem all_ws_nlsN (n : Nat) : (nlsN n).all wsCh = true := by
  simp only [nlsN, List.all_replicate]; simp; right; decide

theorem wsCh_NL : wsCh rNL = true := by decide
theorem wsCh_SP : wsCh rSP = true := by decide

theorem all_ws_braceLead (p : Option Kind) (c : Chunk) : (braceLead p c).all wsCh = true := by
  unfold braceLead; split <;> simp [wsCh_SP]

theorem countNL_braceLead (p : Option Kind) (c : Chunk) : countNL (braceLead p c) = 0 := by
  unfold braceLead; split <;> simp [countNL, rSP, rNL]

theorem braceLead_mk (p : Option Kind) (sep : List Rune) (c : Chunk) : braceLead p ⟨sep, c.word⟩ = braceLead p c := rfl

theorem all_ws_sameLine (p : Option Kind) (N : Nat) : (sameLine p N).all wsCh = true := by
  unfold sameLine
  split
  · split
    · simp [wsCh_NL]
    · exact all_ws_tabsN N
  · simp [wsCh_SP]

theorem sameLine_cls_ne (N : Nat) : sameLine (some .cls) N ≠ [] := by
  unfold sameLine
  by_cases hN : N = 0
  · simp [hN]
  · cases N with
    | zero => exact absurd rfl hN
    | succ n => simp [tabsN, List.replicate_succ]

theorem canonSep_all_ws (prev : Option Kind) (N : Nat) (c : Chunk) : (canonSep prev N c).all wsCh = true := by
  cases prev with
  | none => rfl
  | some k =>
    cases k <;> cases hk : c.kind <;>
      simp only [canonSep, hk, List.all_cons, List.all_nil, List.all_append, wsCh_NL, wsCh_SP, all_ws_tabsN,
        all_ws_nlsN, all_ws_braceLead, all_ws_sameLine, Bool.and_self, reduceCtorEq, ↓reduceIte] <;>
      (try (split <;> simp only [List.all_cons, List.all_nil, List.all_append, wsCh_SP, all_ws_tabsN, all_ws_nlsN,
        all_ws_braceLead, all_ws_sameLine, Bool.and_self]))

/-- the canonical separator: non-CR white space, newline iff the original had one, starting
    with a newline after a comment -/
theorem canonSep_props {prev : Option Kind} {N : Nat} {c : Chunk} {cs : List Chunk}
    (hg : goodFrom prev (c :: cs) = true) :
    (canonSep prev N c).all wsCh = true ∧
      (prev ≠ none → canonSep prev N c ≠ [] ∧
        (((prev = some .opn ∨ prev = some .cls) ∧ c.kind = .cmt) ∨ (0 < countNL (canonSep prev N c) ↔ 0 < c.nl))) ∧
      (prev = none → canonSep prev N c = [] ∧ c.nl = 0) ∧
      (prev = some .cmt → (canonSep prev N c).head? = some rNL) := by
  simp only [goodFrom, Bool.and_eq_true] at hg
  obtain ⟨⟨⟨-, -⟩, hcond⟩, -⟩ := hg
  cases prev with
  | none =>
    simp only [Bool.and_eq_true, List.isEmpty_iff] at hcond
    exact ⟨rfl, fun h => absurd rfl h, fun _ => ⟨rfl, by simp [Chunk.nl, hcond.1, countNL]⟩, fun h => by cases h⟩
  | some k =>
    refine ⟨canonSep_all_ws _ _ _, fun _ => ?_, fun h => absurd h (by simp), fun hk => ?_⟩
    · -- non-empty, and newline iff newline (a comment right after `{` is moved to the next line)
      by_cases hoc : (k = .opn ∨ k = .cls) ∧ c.kind = .cmt
      · obtain ⟨hk', hkc⟩ := hoc
        rcases hk' with rfl | rfl
        · exact ⟨by simp [canonSep], Or.inl ⟨Or.inl rfl, hkc⟩⟩
        · refine ⟨?_, Or.inl ⟨Or.inr rfl, hkc⟩⟩
          simp only [canonSep, hkc]
          split
          · exact sameLine_cls_ne N
          · rename_i hnl
            have : min c.nl 2 ≠ 0 := by omega
            cases hm : min c.nl 2 with
            | zero => exact absurd hm this
            | succ n => simp [nlsN, List.replicate_succ]
      · suffices h : canonSep (some k) N c ≠ [] ∧ (0 < countNL (canonSep (some k) N c) ↔ 0 < c.nl) from
          ⟨h.1, Or.inr h.2⟩
        have hplainlike : ∀ (bl : List Rune) (hbl : countNL bl = 0) (hsome : c.nl = 0 ∨ 0 < c.nl),
            (if c.nl = 0 then [rSP] else bl ++ (nlsN (min c.nl 2) ++ tabsN N)) ≠ [] ∧
            (0 < countNL (if c.nl = 0 then [rSP] else bl ++ (nlsN (min c.nl 2) ++ tabsN N)) ↔ 0 < c.nl) := by
          intro bl hbl _
          by_cases hnl : c.nl = 0
          · simp [hnl, countNL, rSP, rNL]
          · have : min c.nl 2 ≠ 0 := by omega
            refine ⟨?_, ?_⟩
            · simp only [hnl, ↓reduceIte]
              intro h
              have := congrArg countNL h
              rw [countNL_append, countNL_append, countNL_nlsN, countNL_tabsN, hbl] at this
              simp [countNL] at this; omega
            · simp only [hnl, ↓reduceIte, countNL_append, countNL_nlsN, countNL_tabsN, hbl]; omega
        cases k with
        | plain =>
          simp only [Bool.and_eq_true, Bool.not_eq_true', List.isEmpty_eq_false_iff] at hcond
          cases hk : c.kind with
          | plain => simpa [canonSep, sameLine, hk] using hplainlike (braceLead _ c) (countNL_braceLead _ c) (by omega)
          | dq => simpa [canonSep, sameLine, hk] using hplainlike (braceLead _ c) (countNL_braceLead _ c) (by omega)
          | cmt => simpa [canonSep, sameLine, hk] using hplainlike (braceLead _ c) (countNL_braceLead _ c) (by omega)
          | opn =>
            rw [hk] at hcond
            simp only [beq_iff_eq] at hcond
            simp [canonSep, hk, hcond.2, countNL, rSP, rNL]
          | cls =>
            rw [hk] at hcond
            simp only [decide_eq_true_eq] at hcond
            simp only [canonSep, hk, countNL, countNL_tabsN]
            exact ⟨by simp, by simp; omega⟩
        | dq =>
          simp only [Bool.and_eq_true, Bool.not_eq_true', List.isEmpty_eq_false_iff] at hcond
          cases hk : c.kind with
          | plain => simpa [canonSep, sameLine, hk] using hplainlike (braceLead _ c) (countNL_braceLead _ c) (by omega)
          | dq => simpa [canonSep, sameLine, hk] using hplainlike (braceLead _ c) (countNL_braceLead _ c) (by omega)
          | cmt => simpa [canonSep, sameLine, hk] using hplainlike (braceLead _ c) (countNL_braceLead _ c) (by omega)
          | opn =>
            rw [hk] at hcond
            simp only [beq_iff_eq] at hcond
            simp [canonSep, hk, hcond.2, countNL, rSP, rNL]
          | cls =>
            rw [hk] at hcond
            simp only [decide_eq_true_eq] at hcond
            simp only [canonSep, hk, countNL, countNL_tabsN]
            exact ⟨by simp, by simp; omega⟩
        | opn =>
          simp only [Bool.and_eq_true, Bool.or_eq_true, decide_eq_true_eq, beq_iff_eq] at hcond
          have hnl : c.nl ≥ 1 := by
            rcases hcond.1 with h | h
            · exact h
            · exact absurd ⟨Or.inl rfl, h.1⟩ hoc
          simp only [canonSep, countNL, countNL_tabsN]
          exact ⟨by simp, by simp; omega⟩
        | cls =>
          simp only [Bool.and_eq_true, Bool.or_eq_true, decide_eq_true_eq, beq_iff_eq, bne_iff_ne, ne_eq] at hcond
          have hnl1 : c.nl ≥ 1 := by
            rcases hcond.1 with h | h
            · exact h
            · exact absurd ⟨Or.inr rfl, h.1⟩ hoc
          have hnl0 : c.nl ≠ 0 := by omega
          cases hk : c.kind with
          | plain => simpa [canonSep, hk, hnl0] using hplainlike (braceLead _ c) (countNL_braceLead _ c) (by omega)
          | dq => simpa [canonSep, hk, hnl0] using hplainlike (braceLead _ c) (countNL_braceLead _ c) (by omega)
          | cmt => exact absurd ⟨Or.inr rfl, hk⟩ hoc
          | opn => exact absurd hk hcond.2
          | cls =>
            simp only [canonSep, hk, countNL, countNL_tabsN]
            exact ⟨by simp, by simp; omega⟩
        | cmt =>
          simp only [Bool.and_eq_true, beq_iff_eq] at hcond
          have hnl : 0 < c.nl := by
            unfold Chunk.nl
            cases hcs : c.sep with
            | nil => rw [hcs] at hcond; simp at hcond
            | cons x ws =>
              rw [hcs] at hcond
              simp only [List.head?_cons, Option.some.injEq] at hcond
              simp [countNL, hcond.1]; omega
          simp only [canonSep]
          split
          · exact ⟨by simp, by simp [countNL]; omega⟩
          · exact ⟨by simp, by simp [countNL]; omega⟩
    · cases hk
      simp only [canonSep]
      try (split <;> rfl)

/-! ### the canonical rendering is again in the fragment, and is a fixed point -/

theorem kind_with_sep (c : Chunk) (sep : List Rune) : (⟨sep, c.word⟩ : Chunk).kind = c.kind := rfl
theorem nl_mk (sep w : List Rune) : (⟨sep, w⟩ : Chunk).nl = countNL sep := rfl

theorem good_canon : ∀ (cs : List Chunk) (prev : Option Kind) (N : Nat), goodFrom prev cs = true →
    goodFrom prev (canon prev N cs) = true
  | [], _, _, h => h
  | c :: cs, prev, N, hg => by
    have hprops := canonSep_props (N := N) hg
    have ih := good_canon cs (some c.kind) (nextN N c.kind)
      (by simp only [goodFrom, Bool.and_eq_true] at hg; exact hg.2)
    simp only [goodFrom, Bool.and_eq_true] at hg
    obtain ⟨⟨⟨-, hw⟩, hcond⟩, -⟩ := hg
    simp only [canon, goodFrom, Bool.and_eq_true, kind_with_sep]
    refine ⟨⟨⟨hprops.1, hw⟩, ?_⟩, ih⟩
    cases prev with
    | none =>
      simp only [Bool.and_eq_true] at hcond ⊢
      exact ⟨by rw [(hprops.2.2.1 rfl).1]; rfl, hcond.2⟩
    | some k =>
      obtain ⟨hne, hiff0⟩ := hprops.2.1 (by simp)
      have hiff : ¬((some k = some Kind.opn ∨ some k = some Kind.cls) ∧ c.kind = .cmt) →
          (0 < (⟨canonSep (some k) N c, c.word⟩ : Chunk).nl ↔ 0 < c.nl) := fun hx => hiff0.resolve_left hx
      cases k with
      | plain =>
        have hiff := hiff (by simp)
        simp only [Bool.and_eq_true, Bool.not_eq_true', List.isEmpty_eq_false_iff] at hcond ⊢
        refine ⟨hne, ?_⟩
        cases hk : c.kind with
        | plain => rfl
        | dq => rfl
        | cmt => rfl
        | opn =>
          rw [hk] at hcond; simp only [beq_iff_eq] at hcond
          have := hcond.2
          simp only [beq_iff_eq]; omega
        | cls =>
          rw [hk] at hcond; simp only [decide_eq_true_eq] at hcond
          have := hcond.2
          simp only [decide_eq_true_eq]; omega
      | dq =>
        have hiff := hiff (by simp)
        simp only [Bool.and_eq_true, Bool.not_eq_true', List.isEmpty_eq_false_iff] at hcond ⊢
        refine ⟨hne, ?_⟩
        cases hk : c.kind with
        | plain => rfl
        | dq => rfl
        | cmt => rfl
        | opn =>
          rw [hk] at hcond; simp only [beq_iff_eq] at hcond
          have := hcond.2
          simp only [beq_iff_eq]; omega
        | cls =>
          rw [hk] at hcond; simp only [decide_eq_true_eq] at hcond
          have := hcond.2
          simp only [decide_eq_true_eq]; omega
      | opn =>
        simp only [Bool.and_eq_true] at hcond ⊢
        refine ⟨?_, hcond.2⟩
        have : (⟨canonSep (some .opn) N c, c.word⟩ : Chunk).nl ≥ 1 := by
          simp only [nl_mk, canonSep, countNL]; simp
        simp [this]
      | cls =>
        simp only [Bool.and_eq_true] at hcond ⊢
        refine ⟨?_, hcond.2⟩
        by_cases hkc : c.kind = .cmt
        · have : (⟨canonSep (some .cls) N c, c.word⟩ : Chunk).sep ≠ [] := hne
          simp [hkc, this]
        · have hiff := hiff (by simp [hkc])
          have h1 := hcond.1
          simp only [Bool.or_eq_true, decide_eq_true_eq, Bool.and_eq_true, beq_iff_eq] at h1
          have hnl : c.nl ≥ 1 := by
            rcases h1 with h | h
            · exact h
            · exact absurd h.1 hkc
          have : (⟨canonSep (some .cls) N c, c.word⟩ : Chunk).nl ≥ 1 := by omega
          simp [this]
      | cmt =>
        simp only [Bool.and_eq_true, beq_iff_eq] at hcond ⊢
        exact ⟨hprops.2.2.2 rfl, hcond.2⟩

theorem canonSep_idem (prev : Option Kind) (N : Nat) (c : Chunk) :
    canonSep prev N ⟨canonSep prev N c, c.word⟩ = canonSep prev N c := by
  have hplainlike : ∀ (bl : List Rune), countNL bl = 0 →
      (if countNL (if c.nl = 0 then [rSP] else bl ++ (nlsN (min c.nl 2) ++ tabsN N)) = 0 then [rSP]
        else bl ++ (nlsN (min (countNL (if c.nl = 0 then [rSP] else bl ++ (nlsN (min c.nl 2) ++ tabsN N))) 2) ++ tabsN N))
      = (if c.nl = 0 then [rSP] else bl ++ (nlsN (min c.nl 2) ++ tabsN N)) := by
    intro bl hbl
    by_cases hnl : c.nl = 0
    · simp [hnl, countNL, rSP, rNL]
    · have h2 : min c.nl 2 ≠ 0 := by omega
      have h3 : min (min c.nl 2) 2 = min c.nl 2 := by omega
      simp [hnl, countNL_append, countNL_nlsN, countNL_tabsN, hbl, h2, h3]
  cases prev with
  | none => rfl
  | some k =>
    cases k with
    | opn => cases hk : c.kind <;> simp [canonSep, kind_with_sep, hk]
    | cmt =>
      by_cases hk : c.kind = .cls
      · simp [canonSep, kind_with_sep, hk]
      · have h3 : min (min (c.nl - 1) 2) 2 = min (c.nl - 1) 2 := by omega
        simp [canonSep, kind_with_sep, nl_mk, hk, countNL, countNL_append, countNL_nlsN, countNL_tabsN, h3]
    | plain =>
      cases hk : c.kind with
      | opn => simp only [canonSep, kind_with_sep, hk]
      | cls => simp only [canonSep, kind_with_sep, hk]
      | plain => simpa [canonSep, kind_with_sep, nl_mk, braceLead_mk, sameLine, hk] using hplainlike (braceLead _ c) (countNL_braceLead _ c)
      | dq => simpa [canonSep, kind_with_sep, nl_mk, braceLead_mk, sameLine, hk] using hplainlike (braceLead _ c) (countNL_braceLead _ c)
      | cmt => simpa [canonSep, kind_with_sep, nl_mk, braceLead_mk, sameLine, hk] using hplainlike (braceLead _ c) (countNL_braceLead _ c)
    | dq =>
      cases hk : c.kind with
      | opn => simp only [canonSep, kind_with_sep, hk]
      | cls => simp only [canonSep, kind_with_sep, hk]
      | plain => simpa [canonSep, kind_with_sep, nl_mk, braceLead_mk, sameLine, hk] using hplainlike (braceLead _ c) (countNL_braceLead _ c)
      | dq => simpa [canonSep, kind_with_sep, nl_mk, braceLead_mk, sameLine, hk] using hplainlike (braceLead _ c) (countNL_braceLead _ c)
      | cmt => simpa [canonSep, kind_with_sep, nl_mk, braceLead_mk, sameLine, hk] using hplainlike (braceLead _ c) (countNL_braceLead _ c)
    | cls =>
      have hcls : (if countNL (if c.nl = 0 then sameLine (some .cls) N else nlsN (min c.nl 2) ++ tabsN N) = 0
            then sameLine (some .cls) N
            else nlsN (min (countNL (if c.nl = 0 then sameLine (some .cls) N else nlsN (min c.nl 2) ++ tabsN N)) 2) ++ tabsN N)
          = (if c.nl = 0 then sameLine (some .cls) N else nlsN (min c.nl 2) ++ tabsN N) := by
        by_cases hnl : c.nl = 0
        · by_cases hN : N = 0
          · simp [hnl, hN, sameLine, countNL, rNL, nlsN, tabsN, List.replicate_succ]
          · simp [hnl, hN, sameLine, countNL_tabsN]
        · have h2 : min c.nl 2 ≠ 0 := by omega
          have h3 : min (min c.nl 2) 2 = min c.nl 2 := by omega
          simp [hnl, countNL_append, countNL_nlsN, countNL_tabsN, h2, h3]
      have hbl0 : ∀ (d : Chunk), braceLead (some .cls) d = [] := by intro d; simp [braceLead]
      cases hk : c.kind with
      | opn => simp only [canonSep, kind_with_sep, hk]
      | cls => simp only [canonSep, kind_with_sep, hk]
      | plain => simpa [canonSep, kind_with_sep, nl_mk, hbl0, hk] using hcls
      | dq => simpa [canonSep, kind_with_sep, nl_mk, hbl0, hk] using hcls
      | cmt => simpa [canonSep, kind_with_sep, nl_mk, hbl0, hk] using hcls

theorem canon_idem : ∀ (cs : List Chunk) (prev : Option Kind) (N : Nat),
    canon prev N (canon prev N cs) = canon prev N cs
  | [], _, _ => rfl
  | c :: cs, prev, N => by
    simp only [canon, kind_with_sep, canonSep_idem, canon_idem cs]

/-! ### line grouping of the tokens of a chunk list -/

/-- the property's observable, computed from the chunks: word, unquoted, starts-a-new-line.
    `acc` = a newline was seen since the previous token (in the separators of skipped comments). -/
def gOf : (first acc : Bool) → List Chunk → List (List Rune × Rune × Bool)
  | _, _, [] => []
  | first, acc, c :: cs =>
    if isCmtW c.word then gOf first (acc || decide (0 < c.nl)) cs
    else (tokText c.word, tokQuote c.word, first || acc || decide (0 < c.nl)) :: gOf false false cs

theorem countNL_lexCh : ∀ (w : List Rune), w.all lexCh = true → countNL w = 0
  | [], _ => rfl
  | c :: w, h => by
    simp only [List.all_cons, Bool.and_eq_true] at h
    have := (lexCh_spec h.1).2.2.2.2.2.2.2
    simp [countNL, rNL, this, countNL_lexCh w h.2]

theorem countNL_unesc : ∀ (w : List Rune), dqBody w = true → countNL (unesc w) = 0
  | [], _ => rfl
  | [c], h => by
    simp only [dqBody] at h
    split at h
    · simp at h
    · rename_i hbs
      simp only [Bool.and_eq_true, bne_iff_ne, ne_eq, beq_iff_eq] at h
      rw [unesc_cons_ne c [] (by simpa using hbs)]
      simp [countNL, unesc, h.1.2]
  | c :: d :: t, h => by
    simp only [dqBody] at h
    split at h
    · rename_i hbs
      simp only [beq_iff_eq] at hbs
      subst hbs
      simp only [Bool.and_eq_true, bne_iff_ne, ne_eq] at h
      have ih := countNL_unesc t h.2
      by_cases hd : d = rDQ
      · subst hd; simp [unesc, countNL, countNL_append, ih, rDQ, rNL]
      · have h10 : d ≠ 10 := by simpa [rNL] using h.1
        simp [unesc, countNL, ih, hd, h10, rBS, rNL]
    · rename_i hbs
      simp only [Bool.and_eq_true, bne_iff_ne, ne_eq, beq_iff_eq] at h
      rw [unesc_cons_ne c (d :: t) (by simpa using hbs)]
      simp [countNL, h.1.2, countNL_unesc (d :: t) h.2]

theorem countNL_bqCh : ∀ (w : List Rune), w.all bqCh = true → countNL w = 0
  | [], _ => rfl
  | c :: w, h => by
    simp only [List.all_cons, Bool.and_eq_true] at h
    have := (bqCh_spec h.1).2
    simp [countNL, rNL, this, countNL_bqCh w h.2]

/-- a word that is not a comment gives a token without line breaks -/
theorem lexGood_word {first ac : Bool} {c : Chunk} {cs : List Chunk} (hg : lexGood first ac (c :: cs) = true)
    (hc : isCmtW c.word = false) :
    (∀ ln, (⟨ln, tokText c.word, tokQuote c.word, []⟩ : Token).numLineBreaks = 0) ∧ lexGood false false cs = true := by
  simp only [lexGood, Bool.and_eq_true, hc] at hg
  refine ⟨?_, hg.2⟩
  have hw := hg.1.2
  cases hcw : c.word with
  | nil => rw [hcw] at hw; simp at hw
  | cons h t =>
    rw [hcw] at hw hc
    have hnh : (h == rHash) = false := by
      simp only [isCmtW, List.head?_cons] at hc
      cases hh : (h == rHash) with
      | false => rfl
      | true => simp only [beq_iff_eq] at hh; subst hh; simp at hc
    intro ln
    by_cases hq : h = rDQ
    · subst hq
      have hl : lexCh rDQ = false := by decide
      have hb : (rDQ == rBQ) = false := by decide
      simp only [hnh, Bool.false_and, Bool.false_or, beq_self_eq_true, Bool.true_and, List.all_cons, hl, hb,
        Bool.or_false] at hw
      obtain ⟨as, hwas, hall⟩ := dqTail_spec t hw
      subst hwas
      rw [tokText_dq, tokQuote_dq]
      simp [Token.numLineBreaks, countNL_unesc _ hall, rLT, rDQ]
    · have hnq : (h == rDQ) = false := by simp [hq]
      by_cases hbq : h = rBQ
      · subst hbq
        have hl : lexCh rBQ = false := by decide
        simp only [hnh, hnq, Bool.false_and, Bool.false_or, beq_self_eq_true, Bool.true_and, List.all_cons, hl,
          Bool.or_false] at hw
        obtain ⟨as, hwas, hall⟩ := bqTail_spec t hw
        subst hwas
        rw [tokText_bq, tokQuote_bq]
        simp [Token.numLineBreaks, countNL_bqCh _ hall, rLT, rBQ]
      · have hnb : (h == rBQ) = false := by simp [hbq]
        simp only [hnh, hnq, hnb, Bool.false_and, Bool.false_or] at hw
        simp [Token.numLineBreaks, tokText, tokQuote, isDqW, isBqW, hq, hbq, countNL_lexCh _ hw, rLT]

theorem groupingFrom_toksOf : ∀ (cs : List Chunk) (ln : Nat) (p : Token) (acc ac : Bool), p.numLineBreaks = 0 →
    p.line ≤ ln → acc = decide (p.line < ln) → lexGood false ac cs = true →
    groupingFrom (some p) (toksOf ln cs) = gOf false acc cs
  | [], _, _, _, _, _, _, _, _ => rfl
  | c :: cs, ln, p, acc, ac, hb, hle, hacc, hg => by
    by_cases hc : isCmtW c.word = true
    · have hrest : lexGood false true cs = true := by
        simp only [lexGood, Bool.and_eq_true, hc] at hg; exact hg.2
      simp only [toksOf, gOf, hc, ↓reduceIte]
      exact groupingFrom_toksOf cs (ln + c.nl) p _ true hb (by omega)
        (by subst hacc; by_cases h1 : p.line < ln <;> by_cases h2 : 0 < c.nl <;> simp [h1, h2] <;> omega) hrest
    · have hc' : isCmtW c.word = false := by simpa using hc
      obtain ⟨hw, hrest⟩ := lexGood_word hg hc'
      have ih := groupingFrom_toksOf cs (ln + c.nl) ⟨ln + c.nl, tokText c.word, tokQuote c.word, []⟩ false false
        (hw _) (Nat.le_refl _) (by simp) hrest
      simp only [toksOf, gOf, hc', Bool.false_eq_true, ↓reduceIte, groupingFrom, ih, isNextOnNewLine, hb,
        Bool.false_or, Nat.add_zero]
      congr 3
      subst hacc
      by_cases h1 : p.line < ln <;> by_cases h2 : 0 < c.nl <;> simp [h1, h2] <;> omega

theorem grouping_toksOf : ∀ (cs : List Chunk) (ln : Nat) (acc first ac : Bool), lexGood first ac cs = true →
    grouping (toksOf ln cs) = gOf true acc cs
  | [], _, _, _, _, _ => rfl
  | c :: cs, ln, acc, first, ac, hg => by
    by_cases hc : isCmtW c.word = true
    · have hrest : lexGood false true cs = true := by
        simp only [lexGood, Bool.and_eq_true, hc] at hg; exact hg.2
      simp only [toksOf, gOf, hc, ↓reduceIte]
      exact grouping_toksOf cs (ln + c.nl) _ false true hrest
    · have hc' : isCmtW c.word = false := by simpa using hc
      obtain ⟨hw, hrest⟩ := lexGood_word hg hc'
      have := groupingFrom_toksOf cs (ln + c.nl) ⟨ln + c.nl, tokText c.word, tokQuote c.word, []⟩ false false
        (hw _) (Nat.le_refl _) (by simp) hrest
      simp only [grouping, toksOf, gOf, hc', Bool.false_eq_true, ↓reduceIte, groupingFrom, this, Bool.true_or]

/-- with `first = true` neither the accumulator nor the first separator matters -/
theorem gOf_true_irrel : ∀ (cs : List Chunk) (acc acc' : Bool), gOf true acc cs = gOf true acc' cs
  | [], _, _ => rfl
  | c :: cs, acc, acc' => by
    simp only [gOf, Bool.true_or]
    split
    · exact gOf_true_irrel cs _ _
    · rfl

theorem gOf_true_sep (sep sep' w : List Rune) (cs : List Chunk) (acc : Bool) :
    gOf true acc (⟨sep, w⟩ :: cs) = gOf true acc (⟨sep', w⟩ :: cs) := by
  simp only [gOf, Bool.true_or]
  split
  · exact gOf_true_irrel cs _ _
  · rfl

/-- the word after a comment starts a new line whatever came before the comment -/
theorem gOf_after_cmt : ∀ (cs : List Chunk) (first acc acc' : Bool), goodFrom (some .cmt) cs = true →
    gOf first acc cs = gOf first acc' cs
  | [], _, _, _, _ => rfl
  | c :: cs, first, acc, acc', hg => by
    simp only [goodFrom, Bool.and_eq_true, beq_iff_eq] at hg
    have hnl : decide (0 < c.nl) = true := by
      unfold Chunk.nl
      cases hcs : c.sep with
      | nil => rw [hcs] at hg; simp at hg
      | cons x ws =>
        rw [hcs] at hg
        have := hg.1.2.1
        simp only [List.head?_cons, Option.some.injEq] at this
        simp [countNL, this]; omega
    simp only [gOf, hnl, Bool.or_true]

theorem gOf_canon : ∀ (cs : List Chunk) (prev : Option Kind) (N : Nat) (first acc : Bool), goodFrom prev cs = true →
    gOf first acc (canon prev N cs) = gOf first acc cs
  | [], _, _, _, _, _ => rfl
  | c :: cs, prev, N, first, acc, hg => by
    have hprops := canonSep_props (N := N) hg
    have hg' : goodFrom (some c.kind) cs = true := by
      simp only [goodFrom, Bool.and_eq_true] at hg; exact hg.2
    by_cases hoc : (prev = some .opn ∨ prev = some .cls) ∧ c.kind = .cmt
    · -- a comment right after `{` or `}`: it moves to the next line, but the token after a comment
      -- starts a new line anyway
      have hcm : isCmtW c.word = true := (kind_cmt_iff c).mp hoc.2
      simp only [canon, gOf, hcm, ↓reduceIte]
      rw [gOf_canon cs _ _ _ _ hg']
      exact gOf_after_cmt cs _ _ _ (by rw [hoc.2] at hg'; exact hg')
    have hbit : decide (0 < (⟨canonSep prev N c, c.word⟩ : Chunk).nl) = decide (0 < c.nl) := by
      cases prev with
      | none =>
        obtain ⟨h1, h2⟩ := hprops.2.2.1 rfl
        rw [h1, h2]; rfl
      | some k =>
        rcases (hprops.2.1 (by simp)).2 with h | h
        · exact absurd h hoc
        · exact decide_eq_decide.mpr h
    simp only [canon, gOf]
    rw [hbit]
    split
    · exact gOf_canon cs _ _ _ _ hg'
    · rw [gOf_canon cs _ _ _ _ hg']

/-! ### `Tokenize` and `Format` on an input of the fragment -/

theorem all_wsCh_isSpace {l : List Rune} (h : l.all wsCh = true) : l.all isSpace = true := by
  simp only [List.all_eq_true] at h ⊢
  intro x hx
  exact (wsCh_spec (h x hx)).1

/-- `Tokenize` on `lead ++ flatten (c :: cs) ++ trail` -/
theorem tokenize_on_chunks {lead trail : List Rune} {c : Chunk} {cs : List Chunk}
    (hl : lead.all wsCh = true) (ht : trail.all wsCh = true) (hs : c.sep = [])
    (hg : goodFrom none (c :: cs) = true) :
    tokenize (lead ++ (flatten (c :: cs) ++ trail)) = .ok (toksOf 1 (⟨lead, c.word⟩ :: cs)) ∧
      lexGood true false (⟨lead, c.word⟩ :: cs) = true := by
  have hlg := good_lexGood _ _ hg
  simp only [show (none == (none : Option Kind)) = true from rfl,
    show ((none : Option Kind) == some Kind.cmt) = false from rfl] at hlg
  have hlg' : lexGood true false (⟨lead, c.word⟩ :: cs) = true := by
    simp only [lexGood, Bool.and_eq_true] at hlg ⊢
    exact ⟨⟨⟨⟨hl, by simp⟩, by simp⟩, hlg.1.2⟩, hlg.2⟩
  refine ⟨?_, hlg'⟩
  have hx : lead ++ (flatten (c :: cs) ++ trail) = flatten (⟨lead, c.word⟩ :: cs) ++ trail := by
    simp [flatten, hs, List.append_assoc]
  -- the input is non-empty and does not start with a byte-order mark
  have hwd : (match c.word with
     | [] => false
     | h :: t => (h == rHash && t.all cmtCh) || (h == rDQ && dqTail t) || (h == rBQ && bqTail t) || (h :: t).all lexCh) = true := by
    simp only [lexGood, Bool.and_eq_true] at hlg; exact hlg.1.2
  obtain ⟨a, w, hw, habom⟩ : ∃ a w, c.word = a :: w ∧ a ≠ rBOM := by
    cases hcw : c.word with
    | nil => rw [hcw] at hwd; simp at hwd
    | cons a w =>
      refine ⟨a, w, rfl, ?_⟩
      rw [hcw] at hwd
      simp only [Bool.or_eq_true, Bool.and_eq_true, beq_iff_eq, List.all_cons] at hwd
      rcases hwd with ((hwd | hwd) | hwd) | hwd
      · rw [hwd.1]; decide
      · rw [hwd.1]; decide
      · rw [hwd.1]; decide
      · exact (lexCh_spec hwd.1).2.2.2.2.2.2.1
  have hfirst : ∃ b r, flatten (⟨lead, c.word⟩ :: cs) ++ trail = b :: r ∧ b ≠ rBOM := by
    cases lead with
    | nil => exact ⟨a, w ++ (flatten cs ++ trail), by simp [flatten, hw], habom⟩
    | cons b r =>
      simp only [List.all_cons, Bool.and_eq_true] at hl
      refine ⟨b, r ++ (c.word ++ (flatten cs ++ trail)), by simp [flatten], ?_⟩
      intro hb; subst hb
      have := (wsCh_spec hl.1).1
      simp [isSpace, rBOM] at this
  obtain ⟨b, r, hbr, hb⟩ := hfirst
  rw [hx]
  have := (lex_chunks trail ht (cs.length + 1)).1 (⟨lead, c.word⟩ :: cs) true 1 [] (by simp) hlg'
  unfold tokenize
  rw [hbr] at this ⊢
  simp only [List.isEmpty_cons, Bool.false_eq_true, ↓reduceIte, dropBOM, hb]
  rw [show ({} : LexSt) = ⟨1, 0⟩ from rfl, this]
  simp

/-- **both clauses on the fragment**, for an input given by its chunks -/
theorem W_core {lead trail : List Rune} {c : Chunk} {cs : List Chunk}
    (hl : lead.all wsCh = true) (ht : trail.all wsCh = true) (hs : c.sep = [])
    (hg : goodFrom none (c :: cs) = true) :
    format (lead ++ (flatten (c :: cs) ++ trail)) = flatten (canon none 0 (c :: cs)) ++ [rNL] ∧
      preservesTokens (lead ++ (flatten (c :: cs) ++ trail)) = true ∧
      idempotentAt (lead ++ (flatten (c :: cs) ++ trail)) = true := by
  have hfmt := format_on_chunks (all_wsCh_isSpace hl) (all_wsCh_isSpace ht) hs hg
  -- the canonical rendering, seen as an input again
  have hcanon : canon none 0 (c :: cs) = ⟨[], c.word⟩ :: canon (some c.kind) (nextN 0 c.kind) cs := rfl
  have hg2 : goodFrom none (canon none 0 (c :: cs)) = true := good_canon _ _ _ hg
  have hnl : ([rNL] : List Rune).all wsCh = true := by decide
  have hfmt2 : flatten (canon none 0 (c :: cs)) ++ [rNL]
      = [] ++ (flatten (canon none 0 (c :: cs)) ++ [rNL]) := rfl
  refine ⟨hfmt, ?_, ?_⟩
  · -- token preservation
    unfold preservesTokens
    rw [hfmt, (tokenize_on_chunks hl ht hs hg).1, hfmt2]
    rw [hcanon] at hg2 ⊢
    rw [(tokenize_on_chunks (lead := []) (by rfl) hnl rfl hg2).1]
    simp only [sameMeaning]
    rw [grouping_toksOf _ _ false _ _ (tokenize_on_chunks hl ht hs hg).2,
      grouping_toksOf _ _ false _ _ (tokenize_on_chunks (lead := []) (by rfl) hnl rfl hg2).2]
    have h1 := gOf_canon (c :: cs) none 0 true false hg
    rw [hcanon] at h1
    rw [h1, gOf_true_sep lead c.sep c.word cs false]
    simp
  · -- idempotence
    unfold idempotentAt
    rw [hfmt, hfmt2]
    rw [hcanon] at hg2 ⊢
    rw [format_on_chunks (lead := []) (by rfl) (all_wsCh_isSpace hnl) rfl hg2, ← hcanon, canon_idem]
    simp

/-- unfolding the decidable membership test `inW` -/
theorem inW_decompose {x : List Rune} (h : inW x = true) :
    ∃ (lead trail : List Rune) (c : Chunk) (cs : List Chunk),
      x = lead ++ (flatten (c :: cs) ++ trail) ∧ lead.all wsCh = true ∧ trail.all wsCh = true ∧ c.sep = [] ∧
        goodFrom none (c :: cs) = true := by
  unfold inW at h
  simp only [Bool.and_eq_true, beq_iff_eq] at h
  obtain ⟨⟨h1, h2⟩, h3⟩ := h
  cases hc : (chunksOf x).1 with
  | nil => rw [hc] at h1; simp at h1
  | cons c cs =>
    rw [hc] at h1 h3
    simp only [Bool.and_eq_true] at h1
    refine ⟨c.sep, (chunksOf x).2, ⟨[], c.word⟩, cs, ?_, h1.1, h2, rfl, h1.2⟩
    have e : flatten (c :: cs) ++ (chunksOf x).2 = c.sep ++ (flatten (⟨[], c.word⟩ :: cs) ++ (chunksOf x).2) := by
      simp [flatten, List.append_assoc]
    rw [← e]; exact h3.symm

end CaddyModel.C17
