/-
C17 — helper lemmas, part 3: `Tokenize` on chunk lists whose words are plain characters and
braces: one token per word, line = 1 + newlines before it.
-/
import CaddyModel.C17.FragLemmas

namespace CaddyModel.C17

/-- a character of a word of the fragment, as the lexer sees it -/
def lexCh (c : Rune) : Bool := plainCh c || c == rOpen || c == rClose

theorem lexCh_spec {c : Rune} (h : lexCh c = true) :
    isSpace c = false ∧ c ≠ 34 ∧ c ≠ 35 ∧ c ≠ 60 ∧ c ≠ 92 ∧ c ≠ 96 ∧ c ≠ 0xFEFF ∧ c ≠ 10 := by
  unfold lexCh at h
  simp only [Bool.or_eq_true, beq_iff_eq] at h
  rcases h with (h | h) | h
  · have := plainCh_spec h
    have h10 := (isSpace_ne this.1).1
    exact ⟨this.1, this.2.1, this.2.2.1, this.2.2.2.1, this.2.2.2.2.1, this.2.2.2.2.2.1, this.2.2.2.2.2.2.2.2, h10⟩
  · subst h; decide
  · subst h; decide

theorem heredocStart_false {v : List Rune} {tl : Nat} (h : v.all lexCh = true) :
    ({ val := v, tokLine := tl } : NextSt).heredocStart = false := by
  unfold NextSt.heredocStart
  match v, h with
  | [], _ => simp
  | [a], _ => simp
  | a :: b :: r, h =>
    simp only [List.all_cons, Bool.and_eq_true] at h
    have := (lexCh_spec h.1).2.2.2.1
    simp [rLT, this]

/-- an ordinary character is appended to the current token -/
theorem lex_char {c : Rune} {rest v : List Rune} {l : LexSt} {tl : Nat} {acc : List Token}
    (hc : lexCh c = true) (hv : v.all lexCh = true) :
    lexLoop (c :: rest) l { val := v, tokLine := tl } acc =
      lexLoop rest l { val := v ++ [c], tokLine := if v.length == 0 then l.line else tl } acc := by
  obtain ⟨hsp, h34, h35, h60, h92, h96, hbom, h10⟩ := lexCh_spec hc
  rw [lexLoop]
  simp [heredocStart_false hv, rBS, rDQ, rBQ, rHash, hsp, h34, h35, h92, h96]

/-- the characters of a word -/
theorem lex_word : ∀ (w rest v : List Rune) (l : LexSt) (tl : Nat) (acc : List Token),
    w.all lexCh = true → v.all lexCh = true → v ≠ [] →
    lexLoop (w ++ rest) l { val := v, tokLine := tl } acc = lexLoop rest l { val := v ++ w, tokLine := tl } acc
  | [], rest, v, l, tl, acc, _, _, _ => by simp
  | c :: w, rest, v, l, tl, acc, hw, hv, hne => by
    simp only [List.all_cons, Bool.and_eq_true] at hw
    have hlen : (v.length == 0) = false := by
      cases v with
      | nil => exact absurd rfl hne
      | cons _ _ => simp
    rw [List.cons_append, lex_char hw.1 hv, hlen]
    simp only [Bool.false_eq_true, ↓reduceIte]
    rw [lex_word w rest (v ++ [c]) l tl acc hw.2 (by simp [hv, hw.1]) (by simp)]
    simp

/-- a word starting in a fresh state -/
theorem lex_word_fresh {c : Rune} {w rest : List Rune} {l : LexSt} {acc : List Token}
    (hc : lexCh c = true) (hw : w.all lexCh = true) :
    lexLoop (c :: w ++ rest) l {} acc = lexLoop rest l { val := c :: w, tokLine := l.line } acc := by
  have h0 : lexLoop (c :: (w ++ rest)) l { val := [], tokLine := 0 } acc
      = lexLoop (w ++ rest) l { val := [c], tokLine := l.line } acc := by
    rw [lex_char hc (by simp)]; simp
  rw [List.cons_append]
  rw [show ({} : NextSt) = { val := [], tokLine := 0 } from rfl, h0,
    lex_word w rest [c] l l.line acc hw (by simp [hc]) (by simp)]
  simp

/-- white space in a fresh state: only the line counter moves -/
theorem lex_ws_fresh : ∀ (ws rest : List Rune) (ln : Nat) (acc : List Token), ws.all wsCh = true →
    lexLoop (ws ++ rest) ⟨ln, 0⟩ {} acc = lexLoop rest ⟨ln + countNL ws, 0⟩ {} acc
  | [], _, _, _, _ => by simp [countNL]
  | c :: ws, rest, ln, acc, h => by
    simp only [List.all_cons, Bool.and_eq_true] at h
    obtain ⟨hsp, h13, h34, h35, h60, h92, h96, h123, h125⟩ := wsCh_spec h.1
    rw [List.cons_append, lexLoop]
    by_cases hnl : c = 10
    · subst hnl
      have := lex_ws_fresh ws rest (ln + 1) acc h.2
      simp [NextSt.heredocStart, rBS, rCR, rNL, isSpace, countNL] at this ⊢
      rw [this]; congr 2; omega
    · have := lex_ws_fresh ws rest ln acc h.2
      simp [NextSt.heredocStart, rBS, rCR, rNL, hsp, h13, h92, hnl, countNL] at this ⊢
      exact this

/-- the first white-space character after a word ends the token -/
theorem lex_ws_end {c : Rune} {rest v : List Rune} {ln tl : Nat} {acc : List Token}
    (hc : wsCh c = true) (hv : v.all lexCh = true) (hne : v ≠ []) :
    lexLoop (c :: rest) ⟨ln, 0⟩ { val := v, tokLine := tl } acc =
      lexLoop rest ⟨ln + countNL [c], 0⟩ {} (acc ++ [⟨tl, v, 0, []⟩]) := by
  obtain ⟨hsp, h13, h34, h35, h60, h92, h96, h123, h125⟩ := wsCh_spec hc
  have hlen : 0 < v.length := by
    cases v with
    | nil => exact absurd rfl hne
    | cons _ _ => simp
  rw [lexLoop]
  by_cases hnl : c = 10
  · subst hnl
    simp [heredocStart_false hv, rBS, rCR, rNL, isSpace, countNL, hlen, NextSt.mk']
  · simp [heredocStart_false hv, rBS, rCR, rNL, hsp, h13, h92, hnl, countNL, hlen, NextSt.mk']

/-! ### the lexer over chunk lists -/

/-- what the lexer needs of a chunk list: separators are non-CR white space (non-empty except
    possibly the first), words are non-empty runs of word characters -/
def lexGood : Bool → List Chunk → Bool
  | _, [] => true
  | first, c :: cs =>
    c.sep.all wsCh && !c.word.isEmpty && c.word.all lexCh && (first || !c.sep.isEmpty) && lexGood false cs

/-- the tokens of a chunk list whose first separator starts on line `ln` -/
def toksOf : Nat → List Chunk → List Token
  | _, [] => []
  | ln, c :: cs => ⟨ln + c.nl, c.word, 0, []⟩ :: toksOf (ln + c.nl) cs

/-- trailing white space, with or without a token in progress -/
theorem lex_trail_fresh (trail : List Rune) (ln : Nat) (acc : List Token) (h : trail.all wsCh = true) :
    lexLoop trail ⟨ln, 0⟩ {} acc = .ok acc := by
  have := lex_ws_fresh trail [] ln acc h
  rw [List.append_nil] at this
  rw [this, lexLoop]; simp

theorem lex_trail_pending (trail v : List Rune) (ln tl : Nat) (acc : List Token) (h : trail.all wsCh = true)
    (hv : v.all lexCh = true) (hne : v ≠ []) :
    lexLoop trail ⟨ln, 0⟩ { val := v, tokLine := tl } acc = .ok (acc ++ [⟨tl, v, 0, []⟩]) := by
  cases trail with
  | nil =>
    have hlen : 0 < v.length := by
      cases v with
      | nil => exact absurd rfl hne
      | cons _ _ => simp
    rw [lexLoop]; simp [hlen, NextSt.mk']
  | cons c ws =>
    simp only [List.all_cons, Bool.and_eq_true] at h
    rw [lex_ws_end h.1 hv hne, lex_trail_fresh ws _ _ h.2]

theorem toksOf_shift (ln : Nat) (a : Rune) (ws w : List Rune) (cs : List Chunk) :
    toksOf (ln + countNL [a]) (⟨ws, w⟩ :: cs) = toksOf ln (⟨a :: ws, w⟩ :: cs) := by
  simp only [toksOf, Chunk.nl, countNL]
  have : ln + ((if a = rNL then 1 else 0) + 0) + countNL ws = ln + ((if a = rNL then 1 else 0) + countNL ws) := by omega
  rw [this]

/-- **the lexer on a chunk list**, by induction on its length: (A) from a fresh state,
    (B) with the previous word still in `val` -/
theorem lex_chunks (trail : List Rune) (ht : trail.all wsCh = true) : ∀ (n : Nat),
    (∀ (cs : List Chunk) (first : Bool) (ln : Nat) (acc : List Token), cs.length = n → lexGood first cs = true →
      lexLoop (flatten cs ++ trail) ⟨ln, 0⟩ {} acc = .ok (acc ++ toksOf ln cs)) ∧
    (∀ (cs : List Chunk) (v : List Rune) (ln tl : Nat) (acc : List Token), cs.length = n → lexGood false cs = true →
      v.all lexCh = true → v ≠ [] →
      lexLoop (flatten cs ++ trail) ⟨ln, 0⟩ { val := v, tokLine := tl } acc = .ok (acc ++ ⟨tl, v, 0, []⟩ :: toksOf ln cs))
  | 0 => by
    constructor
    · intro cs first ln acc hl _
      have : cs = [] := List.length_eq_zero_iff.mp hl
      subst this
      simp only [flatten, List.nil_append, toksOf, List.append_nil]
      exact lex_trail_fresh trail ln acc ht
    · intro cs v ln tl acc hl _ hv hne
      have : cs = [] := List.length_eq_zero_iff.mp hl
      subst this
      simp only [flatten, List.nil_append, toksOf]
      exact lex_trail_pending trail v ln tl acc ht hv hne
  | n + 1 => by
    obtain ⟨ihA, ihB⟩ := lex_chunks trail ht n
    -- (A) for length n+1
    have hA : ∀ (cs : List Chunk) (first : Bool) (ln : Nat) (acc : List Token), cs.length = n + 1 →
        lexGood first cs = true →
        lexLoop (flatten cs ++ trail) ⟨ln, 0⟩ {} acc = .ok (acc ++ toksOf ln cs) := by
      intro cs first ln acc hl hg
      match cs, hl, hg with
      | c :: cs, hl, hg =>
        simp only [lexGood, Bool.and_eq_true, Bool.not_eq_true', List.isEmpty_eq_false_iff] at hg
        obtain ⟨⟨⟨⟨hsep, hwne⟩, hw⟩, _⟩, hrest⟩ := hg
        have hlen : cs.length = n := by simpa using hl
        cases hcw : c.word with
        | nil => exact absurd hcw hwne
        | cons a w =>
          rw [hcw] at hw
          simp only [List.all_cons, Bool.and_eq_true] at hw
          have e1 : flatten (c :: cs) ++ trail = c.sep ++ ((a :: w) ++ (flatten cs ++ trail)) := by
            simp [flatten, hcw, List.append_assoc]
          rw [e1, lex_ws_fresh c.sep _ ln acc hsep, lex_word_fresh hw.1 hw.2,
            ihB cs (a :: w) (ln + countNL c.sep) (ln + countNL c.sep) acc hlen hrest (by simp [hw.1, hw.2]) (by simp)]
          simp [toksOf, Chunk.nl, hcw]
    refine ⟨hA, ?_⟩
    -- (B) for length n+1: the first separator is non-empty; its first character ends the token
    intro cs v ln tl acc hl hg hv hne
    match cs, hl, hg with
    | c :: cs, hl, hg =>
      have hg' := hg
      simp only [lexGood, Bool.and_eq_true, Bool.not_eq_true', List.isEmpty_eq_false_iff, Bool.false_or] at hg
      obtain ⟨⟨⟨⟨hsep, hwne⟩, hw⟩, hsne⟩, hrest⟩ := hg
      cases hcs : c.sep with
      | nil => exact absurd hcs hsne
      | cons a ws =>
        rw [hcs] at hsep
        simp only [List.all_cons, Bool.and_eq_true] at hsep
        have e1 : flatten (c :: cs) ++ trail = a :: (flatten (⟨ws, c.word⟩ :: cs) ++ trail) := by
          simp [flatten, hcs, List.append_assoc]
        have hg2 : lexGood true (⟨ws, c.word⟩ :: cs) = true := by
          simp only [lexGood, Bool.and_eq_true, Bool.not_eq_true', List.isEmpty_eq_false_iff, Bool.true_or, and_true]
          exact ⟨⟨⟨hsep.2, hwne⟩, hw⟩, hrest⟩
        rw [e1, lex_ws_end hsep.1 hv hne, hA (⟨ws, c.word⟩ :: cs) true _ _ (by simpa using hl) hg2, toksOf_shift]
        have : (⟨a :: ws, c.word⟩ : Chunk) = c := by cases c; simp_all
        rw [this]; simp

/-! ### from `goodFrom` to `lexGood`, and the canonical rendering -/

theorem wordOK_lex {c : Chunk} (hw : c.wordOK = true) : c.word ≠ [] ∧ c.word.all lexCh = true := by
  unfold Chunk.wordOK at hw
  simp only [Bool.or_eq_true, beq_iff_eq, Bool.and_eq_true, Bool.not_eq_true'] at hw
  rcases hw with (hw | hw) | hw
  · rw [hw]; exact ⟨by simp, by decide⟩
  · rw [hw]; exact ⟨by simp, by decide⟩
  · refine ⟨by intro h; simp [h] at hw, ?_⟩
    have hall : ∀ x ∈ c.word, plainCh x = true := by simpa [List.all_eq_true] using hw.2
    simp only [List.all_eq_true]
    intro x hx
    simp [lexCh, hall x hx]

theorem good_lexGood : ∀ (cs : List Chunk) (prev : Option Kind), goodFrom prev cs = true →
    lexGood (prev == none) cs = true
  | [], _, _ => rfl
  | c :: cs, prev, hg => by
    have hrest := good_lexGood cs (some c.kind) (by simp only [goodFrom, Bool.and_eq_true] at hg; exact hg.2)
    simp only [goodFrom, Bool.and_eq_true] at hg
    obtain ⟨⟨⟨hsep, hw⟩, hcond⟩, -⟩ := hg
    obtain ⟨hne, hall⟩ := wordOK_lex hw
    simp only [lexGood, Bool.and_eq_true, Bool.not_eq_true', List.isEmpty_eq_false_iff, Bool.or_eq_true]
    refine ⟨⟨⟨⟨hsep, hne⟩, hall⟩, ?_⟩, by simpa using hrest⟩
    cases prev with
    | none => left; rfl
    | some k =>
      right
      cases k with
      | plain =>
        simp only [Bool.and_eq_true, Bool.not_eq_true', List.isEmpty_eq_false_iff] at hcond
        exact hcond.1
      | opn =>
        simp only [Bool.and_eq_true, decide_eq_true_eq] at hcond
        exact countNL_pos_ne_nil hcond.1
      | cls =>
        simp only [Bool.and_eq_true, decide_eq_true_eq] at hcond
        exact countNL_pos_ne_nil hcond.1

theorem countNL_append (a b : List Rune) : countNL (a ++ b) = countNL a + countNL b := by
  induction a with
  | nil => simp [countNL]
  | cons x a ih => simp only [List.cons_append, countNL, ih]; omega

theorem countNL_replicate (n : Nat) (c : Rune) : countNL (List.replicate n c) = if c = rNL then n else 0 := by
  induction n with
  | zero => simp [countNL]
  | succ n ih => simp only [List.replicate_succ, countNL, ih]; split <;> omega

theorem countNL_tabsN (n : Nat) : countNL (tabsN n) = 0 := by
  simp [tabsN, countNL_replicate, rTAB, rNL]

theorem countNL_nlsN (n : Nat) : countNL (nlsN n) = n := by
  simp [nlsN, countNL_replicate]

theorem all_ws_tabsN (n : Nat) : (tabsN n).all wsCh = true := by
  simp only [tabsN, List.all_replicate]; simp; right; decide

theorem all_ws_nlsN (n : Nat) : (nlsN n).all wsCh = true := by
  simp only [nlsN, List.all_replicate]; simp; right; decide

theorem wsCh_NL : wsCh rNL = true := by decide
theorem wsCh_SP : wsCh rSP = true := by decide

theorem canonSep_all_ws (prev : Option Kind) (N : Nat) (c : Chunk) : (canonSep prev N c).all wsCh = true := by
  cases prev with
  | none => rfl
  | some k =>
    cases k <;> cases hk : c.kind <;>
      simp only [canonSep, hk, List.all_cons, List.all_nil, wsCh_NL, wsCh_SP, all_ws_tabsN, Bool.and_self] <;>
      (split <;> simp only [List.all_cons, List.all_nil, List.all_append, wsCh_SP, all_ws_tabsN, all_ws_nlsN, Bool.and_self])

/-- the canonical separator: non-CR white space, newline iff the original had one -/
theorem canonSep_props {prev : Option Kind} {N : Nat} {c : Chunk} {cs : List Chunk}
    (hg : goodFrom prev (c :: cs) = true) :
    (canonSep prev N c).all wsCh = true ∧
      (prev ≠ none → canonSep prev N c ≠ [] ∧ (0 < countNL (canonSep prev N c) ↔ 0 < c.nl)) ∧
      (prev = none → canonSep prev N c = []) := by
  simp only [goodFrom, Bool.and_eq_true] at hg
  obtain ⟨⟨⟨-, -⟩, hcond⟩, -⟩ := hg
  cases prev with
  | none => exact ⟨rfl, fun h => absurd rfl h, fun _ => rfl⟩
  | some k =>
    refine ⟨canonSep_all_ws _ _ _, fun _ => ?_, fun h => by cases h⟩
    · cases k with
      | plain =>
        simp only [Bool.and_eq_true, Bool.not_eq_true', List.isEmpty_eq_false_iff] at hcond
        cases hk : c.kind with
        | plain =>
          by_cases hnl : c.nl = 0
          · simp [canonSep, hk, hnl, countNL, rSP, rNL]
          · have : min c.nl 2 ≠ 0 := by omega
            refine ⟨?_, ?_⟩
            · simp only [canonSep, hk, hnl, ↓reduceIte]
              intro h
              have := congrArg countNL h
              rw [countNL_append, countNL_nlsN, countNL_tabsN] at this
              simp [countNL] at this; omega
            · simp only [canonSep, hk, hnl, ↓reduceIte, countNL_append, countNL_nlsN, countNL_tabsN]; omega
        | opn =>
          rw [hk] at hcond
          simp only [beq_iff_eq] at hcond
          simp [canonSep, hk, hcond.2, countNL, rSP, rNL]
        | cls =>
          rw [hk] at hcond
          simp only [decide_eq_true_eq] at hcond
          simp only [canonSep, hk, countNL, countNL_tabsN]
          exact ⟨by simp, by simp; omega⟩
      | opn =>
        simp only [Bool.and_eq_true, decide_eq_true_eq] at hcond
        simp only [canonSep, countNL, countNL_tabsN]
        exact ⟨by simp, by simp; omega⟩
      | cls =>
        simp only [Bool.and_eq_true, decide_eq_true_eq, bne_iff_ne, ne_eq] at hcond
        have hnl : c.nl ≠ 0 := by omega
        cases hk : c.kind with
        | plain =>
          have : min c.nl 2 ≠ 0 := by omega
          refine ⟨?_, ?_⟩
          · simp only [canonSep, hk, hnl, ↓reduceIte]
            intro h
            have := congrArg countNL h
            rw [countNL_append, countNL_nlsN, countNL_tabsN] at this
            simp [countNL] at this; omega
          · simp only [canonSep, hk, hnl, ↓reduceIte, countNL_append, countNL_nlsN, countNL_tabsN]; omega
        | opn => exact absurd hk hcond.2
        | cls =>
          simp only [canonSep, hk, countNL, countNL_tabsN]
          exact ⟨by simp, by simp; omega⟩

/-! ### the canonical rendering is again in the fragment, and is a fixed point -/

theorem good_canon : ∀ (cs : List Chunk) (prev : Option Kind) (N : Nat), goodFrom prev cs = true →
    goodFrom prev (canon prev N cs) = true
  | [], _, _, h => h
  | c :: cs, prev, N, hg => by
    have hprops := canonSep_props (N := N) hg
    have ih := good_canon cs (some c.kind) (nextN N c.kind)
      (by simp only [goodFrom, Bool.and_eq_true] at hg; exact hg.2)
    simp only [goodFrom, Bool.and_eq_true] at hg
    obtain ⟨⟨⟨-, hw⟩, hcond⟩, -⟩ := hg
    have hkind : (⟨canonSep prev N c, c.word⟩ : Chunk).kind = c.kind := rfl
    have hnl : (⟨canonSep prev N c, c.word⟩ : Chunk).nl = countNL (canonSep prev N c) := rfl
    simp only [canon, goodFrom, Bool.and_eq_true]
    refine ⟨⟨⟨hprops.1, hw⟩, ?_⟩, by rw [hkind]; exact ih⟩
    rw [hkind, hnl]
    cases prev with
    | none =>
      simp only [Bool.and_eq_true] at hcond ⊢
      exact ⟨by rw [hprops.2.2 rfl]; rfl, hcond.2⟩
    | some k =>
      obtain ⟨hne, hiff⟩ := hprops.2.1 (by simp)
      cases k with
      | plain =>
        simp only [Bool.and_eq_true, Bool.not_eq_true', List.isEmpty_eq_false_iff] at hcond ⊢
        refine ⟨hne, ?_⟩
        cases hk : c.kind with
        | plain => rfl
        | opn =>
          rw [hk] at hcond; simp only [beq_iff_eq] at hcond ⊢
          have := hcond.2; omega
        | cls =>
          rw [hk] at hcond; simp only [decide_eq_true_eq] at hcond ⊢
          have := hcond.2; omega
      | opn =>
        simp only [Bool.and_eq_true, decide_eq_true_eq] at hcond ⊢
        exact ⟨by have := hcond.1; omega, hcond.2⟩
      | cls =>
        simp only [Bool.and_eq_true, decide_eq_true_eq] at hcond ⊢
        exact ⟨by have := hcond.1; omega, hcond.2⟩

theorem kind_with_sep (c : Chunk) (sep : List Rune) : (⟨sep, c.word⟩ : Chunk).kind = c.kind := rfl
theorem nl_mk (sep w : List Rune) : (⟨sep, w⟩ : Chunk).nl = countNL sep := rfl

theorem canonSep_idem (prev : Option Kind) (N : Nat) (c : Chunk) :
    canonSep prev N ⟨canonSep prev N c, c.word⟩ = canonSep prev N c := by
  cases prev with
  | none => rfl
  | some k =>
    cases k with
    | opn => cases hk : c.kind <;> simp [canonSep, kind_with_sep, hk]
    | plain =>
      cases hk : c.kind with
      | opn => simp only [canonSep, kind_with_sep, hk]
      | cls => simp only [canonSep, kind_with_sep, hk]
      | plain =>
        by_cases hnl : c.nl = 0
        · simp [canonSep, kind_with_sep, nl_mk, hk, hnl, countNL, rSP, rNL]
        · have h2 : min c.nl 2 ≠ 0 := by omega
          have h3 : min (min c.nl 2) 2 = min c.nl 2 := by omega
          simp [canonSep, kind_with_sep, nl_mk, hk, hnl, countNL_append, countNL_nlsN, countNL_tabsN, h2, h3]
    | cls =>
      cases hk : c.kind with
      | opn => simp only [canonSep, kind_with_sep, hk]
      | cls => simp only [canonSep, kind_with_sep, hk]
      | plain =>
        by_cases hnl : c.nl = 0
        · simp [canonSep, kind_with_sep, nl_mk, hk, hnl, countNL, rSP, rNL]
        · have h2 : min c.nl 2 ≠ 0 := by omega
          have h3 : min (min c.nl 2) 2 = min c.nl 2 := by omega
          simp [canonSep, kind_with_sep, nl_mk, hk, hnl, countNL_append, countNL_nlsN, countNL_tabsN, h2, h3]

theorem canon_idem : ∀ (cs : List Chunk) (prev : Option Kind) (N : Nat),
    canon prev N (canon prev N cs) = canon prev N cs
  | [], _, _ => rfl
  | c :: cs, prev, N => by
    have hkind : (⟨canonSep prev N c, c.word⟩ : Chunk).kind = c.kind := rfl
    simp only [canon, hkind, canonSep_idem, canon_idem cs]

/-! ### line grouping of the tokens of a chunk list -/

/-- the property's observable, computed from the chunks: word, unquoted, starts-a-new-line -/
def gOf : Bool → List Chunk → List (List Rune × Rune × Bool)
  | _, [] => []
  | first, c :: cs => (c.word, 0, first || decide (0 < c.nl)) :: gOf false cs

theorem countNL_lexCh : ∀ (w : List Rune), w.all lexCh = true → countNL w = 0
  | [], _ => rfl
  | c :: w, h => by
    simp only [List.all_cons, Bool.and_eq_true] at h
    have := (lexCh_spec h.1).2.2.2.2.2.2.2
    simp [countNL, rNL, this, countNL_lexCh w h.2]

theorem groupingFrom_toksOf : ∀ (cs : List Chunk) (ln : Nat) (p : Token), p.line = ln → p.numLineBreaks = 0 →
    lexGood false cs = true → groupingFrom (some p) (toksOf ln cs) = gOf false cs
  | [], _, _, _, _, _ => rfl
  | c :: cs, ln, p, hl, hb, hg => by
    simp only [lexGood, Bool.and_eq_true] at hg
    have hw : c.word.all lexCh = true := hg.1.1.2
    have ih := groupingFrom_toksOf cs (ln + c.nl) ⟨ln + c.nl, c.word, 0, []⟩ rfl
      (by simp [Token.numLineBreaks, countNL_lexCh _ hw, rLT]) hg.2
    simp only [toksOf, groupingFrom, gOf, ih, isNextOnNewLine, hl, hb, Bool.false_or]
    congr 3
    simp

theorem grouping_toksOf (c : Chunk) (cs : List Chunk) (ln : Nat) (hg : lexGood true (c :: cs) = true) :
    grouping (toksOf ln (c :: cs)) = gOf true (c :: cs) := by
  simp only [lexGood, Bool.and_eq_true] at hg
  have hw : c.word.all lexCh = true := hg.1.1.2
  have := groupingFrom_toksOf cs (ln + c.nl) ⟨ln + c.nl, c.word, 0, []⟩ rfl
    (by simp [Token.numLineBreaks, countNL_lexCh _ hw, rLT]) hg.2
  simp only [grouping, toksOf, groupingFrom, gOf, this, Bool.true_or]

theorem gOf_canon : ∀ (cs : List Chunk) (prev : Option Kind) (N : Nat), goodFrom prev cs = true →
    gOf (prev == none) (canon prev N cs) = gOf (prev == none) cs
  | [], _, _, _ => rfl
  | c :: cs, prev, N, hg => by
    have hprops := canonSep_props (N := N) hg
    have ih := gOf_canon cs (some c.kind) (nextN N c.kind)
      (by simp only [goodFrom, Bool.and_eq_true] at hg; exact hg.2)
    have hnl : (⟨canonSep prev N c, c.word⟩ : Chunk).nl = countNL (canonSep prev N c) := rfl
    simp only [canon, gOf, hnl]
    have e : (some c.kind == none) = false := rfl
    rw [e] at ih
    rw [ih]
    congr 3
    cases prev with
    | none => rfl
    | some k =>
      have := (hprops.2.1 (by simp)).2
      simp only [show (some k == none) = false from rfl, Bool.false_or]
      exact decide_eq_decide.mpr this

/-! ### `Tokenize` and `Format` on an input of the fragment -/

theorem all_wsCh_isSpace {l : List Rune} (h : l.all wsCh = true) : l.all isSpace = true := by
  simp only [List.all_eq_true] at h ⊢
  intro x hx
  exact (wsCh_spec (h x hx)).1

/-- `Tokenize` on `lead ++ flatten (c :: cs) ++ trail` -/
theorem tokenize_on_chunks {lead trail : List Rune} {c : Chunk} {cs : List Chunk}
    (hl : lead.all wsCh = true) (ht : trail.all wsCh = true) (hs : c.sep = [])
    (hg : goodFrom none (c :: cs) = true) :
    tokenize (lead ++ (flatten (c :: cs) ++ trail)) = .ok (toksOf 1 (⟨lead, c.word⟩ :: cs)) ∧
      lexGood true (⟨lead, c.word⟩ :: cs) = true := by
  have hlg := good_lexGood _ _ hg
  have hlg' : lexGood true (⟨lead, c.word⟩ :: cs) = true := by
    simp only [lexGood, Bool.and_eq_true, show (none == (none : Option Kind)) = true from rfl] at hlg ⊢
    exact ⟨⟨⟨⟨hl, hlg.1.1.1.2⟩, hlg.1.1.2⟩, by simp⟩, hlg.2⟩
  refine ⟨?_, hlg'⟩
  have hx : lead ++ (flatten (c :: cs) ++ trail) = flatten (⟨lead, c.word⟩ :: cs) ++ trail := by
    simp [flatten, hs, List.append_assoc]
  -- the input is non-empty and does not start with a byte-order mark
  simp only [lexGood, Bool.and_eq_true, Bool.not_eq_true', List.isEmpty_eq_false_iff] at hlg'
  obtain ⟨a, w, hw⟩ : ∃ a w, c.word = a :: w := by
    cases hcw : c.word with
    | nil => exact absurd hcw hlg'.1.1.1.2
    | cons a w => exact ⟨a, w, rfl⟩
  have hall := hlg'.1.1.2
  simp only [hw, List.all_cons, Bool.and_eq_true] at hall
  have hfirst : ∃ b r, flatten (⟨lead, c.word⟩ :: cs) ++ trail = b :: r ∧ b ≠ rBOM := by
    cases lead with
    | nil => exact ⟨a, w ++ (flatten cs ++ trail), by simp [flatten, hw], (lexCh_spec hall.1).2.2.2.2.2.2.1⟩
    | cons b r =>
      simp only [List.all_cons, Bool.and_eq_true] at hl
      refine ⟨b, r ++ (c.word ++ (flatten cs ++ trail)), by simp [flatten], ?_⟩
      intro hb; subst hb
      have := (wsCh_spec hl.1).1
      simp [isSpace, rBOM] at this
  obtain ⟨b, r, hbr, hb⟩ := hfirst
  rw [hx]
  have := (lex_chunks trail ht (cs.length + 1)).1 (⟨lead, c.word⟩ :: cs) true 1 [] (by simp)
    (by simp only [lexGood, Bool.and_eq_true, Bool.not_eq_true', List.isEmpty_eq_false_iff]; exact hlg')
  unfold tokenize
  rw [hbr] at this ⊢
  simp only [List.isEmpty_cons, Bool.false_eq_true, ↓reduceIte, dropBOM, hb]
  rw [show ({} : LexSt) = ⟨1, 0⟩ from rfl, this]
  simp

/-- **both clauses on the fragment**, for an input given by its chunks -/
theorem W_core {lead trail : List Rune} {c : Chunk} {cs : List Chunk}
    (hl : lead.all wsCh = true) (ht : trail.all wsCh = true) (hs : c.sep = [])
    (hg : goodFrom none (c :: cs) = true) :
    format (lead ++ (flatten (c :: cs) ++ trail)) = flatten (canon none 0 (c :: cs)) ++ [rNL] ∧
      preservesTokens (lead ++ (flatten (c :: cs) ++ trail)) = true ∧
      idempotentAt (lead ++ (flatten (c :: cs) ++ trail)) = true := by
  have hfmt := format_on_chunks (all_wsCh_isSpace hl) (all_wsCh_isSpace ht) hs hg
  -- the canonical rendering, seen as an input again
  have hcanon : canon none 0 (c :: cs) = ⟨[], c.word⟩ :: canon (some c.kind) (nextN 0 c.kind) cs := rfl
  have hg2 : goodFrom none (canon none 0 (c :: cs)) = true := good_canon _ _ _ hg
  have hnl : ([rNL] : List Rune).all wsCh = true := by decide
  have hfmt2 : flatten (canon none 0 (c :: cs)) ++ [rNL]
      = [] ++ (flatten (canon none 0 (c :: cs)) ++ [rNL]) := rfl
  refine ⟨hfmt, ?_, ?_⟩
  · -- token preservation
    unfold preservesTokens
    rw [hfmt, (tokenize_on_chunks hl ht hs hg).1, hfmt2]
    rw [hcanon] at hg2 ⊢
    rw [(tokenize_on_chunks (lead := []) (by rfl) hnl rfl hg2).1]
    simp only [sameMeaning]
    rw [grouping_toksOf _ _ _ (tokenize_on_chunks hl ht hs hg).2,
      grouping_toksOf _ _ _ (tokenize_on_chunks (lead := []) (by rfl) hnl rfl hg2).2]
    have h1 := gOf_canon (c :: cs) none 0 hg
    rw [hcanon] at h1
    simp only [show (none == (none : Option Kind)) = true from rfl] at h1
    simp only [gOf, Bool.true_or] at h1 ⊢
    rw [h1]; simp
  · -- idempotence
    unfold idempotentAt
    rw [hfmt, hfmt2]
    rw [hcanon] at hg2 ⊢
    rw [format_on_chunks (lead := []) (by rfl) (all_wsCh_isSpace hnl) rfl hg2, ← hcanon, canon_idem]
    simp

/-- unfolding the decidable membership test `inW` -/
theorem inW_decompose {x : List Rune} (h : inW x = true) :
    ∃ (lead trail : List Rune) (c : Chunk) (cs : List Chunk),
      x = lead ++ (flatten (c :: cs) ++ trail) ∧ lead.all wsCh = true ∧ trail.all wsCh = true ∧ c.sep = [] ∧
        goodFrom none (c :: cs) = true := by
  unfold inW at h
  simp only [Bool.and_eq_true, beq_iff_eq] at h
  obtain ⟨⟨h1, h2⟩, h3⟩ := h
  cases hc : (chunksOf x).1 with
  | nil => rw [hc] at h1; simp at h1
  | cons c cs =>
    rw [hc] at h1 h3
    simp only [Bool.and_eq_true] at h1
    refine ⟨c.sep, (chunksOf x).2, ⟨[], c.word⟩, cs, ?_, h1.1, h2, rfl, h1.2⟩
    have e : flatten (c :: cs) ++ (chunksOf x).2 = c.sep ++ (flatten (⟨[], c.word⟩ :: cs) ++ (chunksOf x).2) := by
      simp [flatten, List.append_assoc]
    rw [← e]; exact h3.symm

end CaddyModel.C17
