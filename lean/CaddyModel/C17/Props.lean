/-
C17 — property theorems (kept apart from the helper lemmas).

Statement: "Formatting a Caddyfile never changes its meaning: the formatted text tokenizes to
the same tokens with the same line grouping, and therefore adapts to the same JSON or the same
rejection, as the original.  Formatting is idempotent and terminates on every input."

What is proved here, over the statement-by-statement models of `Format` (Model.lean) and
`Tokenize` (Lexer.lean), for ALL rune strings, no size bound:
  * termination / no blow-up: `fmt_total`, `fmt_output_bound`, `fmt_ends_with_single_newline`;
  * the two remaining clauses FAIL on the unchanged tree at full strength — the negations are
    proved with concrete witnesses in Witness.lean (`fmt_preserves_tokens_full_fails`,
    `fmt_idempotent_full_fails`) — and are proved here on an explicit decidable fragment
    (`fmt_preserves_tokens_partial`, `fmt_idempotent_partial`).
-/
import CaddyModel.Gen.FmtCmd
import CaddyModel.Gen.HeredocEnd
import CaddyModel.C17.Glue
import CaddyModel.C17.Lemmas
import CaddyModel.C17.LexLemmas
import CaddyModel.C17.Witness

namespace CaddyModel.C17

/-! ### termination and size -/

/-- **Termination.**  The model of `Format` is a fold with no fuel: one `step` per input rune.
    Every inner loop of a step (`indent`, the `newLines` loop) performs a `write` per iteration,
    and the total number of writes is linear in the input — so every loop of every iteration
    terminates; the nesting counter never exceeds its cap of 10 (formatter.go), which is
    what bounds `indent`.  (`flushEnd` = the pending `{` written after the loop.) -/
theorem fmt_total (x : List Rune) :
    (flushEnd (run (trimSpace x))).rout.length ≤ 31 * x.length + 13 ∧ (run (trimSpace x)).nesting ≤ 10 := by
  have h := G_foldl (trimSpace x) (s := {}) (by decide)
  have hl := trimSpace_length_le x
  refine ⟨?_, h.2⟩
  have h1 := h.1
  have h2 := (G_flushEnd (s := (trimSpace x).foldl step {}) h.2).1
  unfold run
  have h0 : ({} : FState).rout.length = 0 := rfl
  have : 31 * (trimSpace x).length ≤ 31 * x.length := Nat.mul_le_mul_left 31 hl
  omega

theorem formatCore_length_le (y : List Rune) : (formatCore y).length ≤ 31 * y.length + 14 := by
  unfold formatCore
  have h1 := finish_length_le (flushEnd (run (trimSpace y))).rout
  have h2 := (fmt_total y).1
  omega

/-- **No blow-up.**  `|Format x| ≤ 31·|x| + 14` (runes). -/
theorem fmt_output_bound (x : List Rune) : (format x).length ≤ 31 * x.length + 14 := by
  unfold format
  split
  · simp
  · have hl := trimSpace_length_le x
    split
    · rename_i h
      have := formatCore_length_le []
      simp at this ⊢; omega
    · rename_i c rest h
      rw [h] at hl
      simp only [List.length_cons] at hl
      split
      · have := formatCore_length_le rest
        simp only [List.length_cons]; omega
      · have := formatCore_length_le (c :: rest)
        simp only [List.length_cons] at this; omega

theorem dropWhile_head_not (p : Rune → Bool) : ∀ (l : List Rune) (c : Rune),
    (l.dropWhile p).head? = some c → p c = false
  | [], c, h => by simp at h
  | a :: l, c, h => by
    simp only [List.dropWhile] at h
    split at h
    · exact dropWhile_head_not p l c h
    · simp at h; subst h; assumption

theorem dropWhile_getLast (p : Rune → Bool) : ∀ (l : List Rune),
    l.dropWhile p ≠ [] → (l.dropWhile p).getLast? = l.getLast?
  | [], h => by simp at h
  | a :: l, h => by
    simp only [List.dropWhile] at h ⊢
    split
    · rename_i hp
      simp only [hp] at h
      have ih := dropWhile_getLast p l h
      rw [ih]
      cases l with
      | nil => simp at h
      | cons b l => simp [List.getLast?_cons_cons]
    · rfl

theorem formatCore_shape (y : List Rune) :
    ∃ body, formatCore y = body ++ [rNL] ∧
      (∀ c, body.head? = some c → isSpace c = false) ∧
      (∀ c, body.getLast? = some c → isSpace c = false) := by
  refine ⟨trimLeft (trimLeft (flushEnd (run (trimSpace y))).rout).reverse, rfl, ?_, ?_⟩
  · intro c h; exact dropWhile_head_not isSpace _ c h
  · intro c h
    unfold trimLeft at h
    generalize (flushEnd (run (trimSpace y))).rout = r at h
    by_cases hne : List.dropWhile isSpace (List.dropWhile isSpace r).reverse = []
    · rw [hne] at h; simp at h
    · rw [dropWhile_getLast isSpace _ hne, List.getLast?_reverse] at h
      exact dropWhile_head_not isSpace r c h

/-- **Shape of the result.**  For a non-empty input `Format x` is a body without leading or
    trailing white space (possibly starting with the byte order mark that was set aside)
    followed by exactly one `'\n'`; the empty input stays empty. -/
theorem fmt_ends_with_single_newline (x : List Rune) (hx : x ≠ []) :
    ∃ body, format x = body ++ [rNL] ∧
      (∀ c, body.head? = some c → isSpace c = false) ∧
      (∀ c, body.getLast? = some c → isSpace c = false) := by
  unfold format
  have hne : x.isEmpty = false := by cases x <;> simp_all
  rw [hne]
  simp only [Bool.false_eq_true, ↓reduceIte]
  split
  · exact formatCore_shape []
  · rename_i c rest h
    split
    · rename_i hc
      obtain ⟨body, hb, h1, h2⟩ := formatCore_shape rest
      refine ⟨rBOM :: body, by rw [hb]; rfl, ?_, ?_⟩
      · intro d hd; simp at hd; subst hd; decide
      · intro d hd
        cases body with
        | nil => simp at hd; subst hd; decide
        | cons b bs => exact h2 d (by simpa [List.getLast?_cons_cons] using hd)
    · exact formatCore_shape (c :: rest)

theorem fmt_empty_stays_empty : format [] = [] := rfl

/-! non-vacuity: a concrete, non-trivial run (nested blocks, re-indentation, blank-line squeezing) -/

set_option maxRecDepth 100000 in
example : format (runes "a   {\n\n\nb  c\n }") = runes "a {\n\tb c\n}\n" := by decide
example : (run (trimSpace (runes "a {\nb {\nc\n}\n}"))).nesting = 0 ∧
    (run (trimSpace (runes "a {\nb {\nc"))).nesting = 2 := by decide
-- the cap: twelve opening braces, nesting stays at 10
set_option maxRecDepth 100000 in
example : (run (runes "a {\na {\na {\na {\na {\na {\na {\na {\na {\na {\na {\na {\na")).nesting = 10 := by decide

/-! ### meaning preservation and idempotence

FULL STATEMENTS (both FALSE on the unchanged tree — `Witness.fmt_preserves_tokens_full_fails`,
`Witness.fmt_idempotent_full_fails`, 22 classes of witnesses in `Witness.token_witnesses_all_fail`
/ `idem_witnesses_all_fail`):

    ∀ x, preservesTokens x = true        -- Tokenize (Format x) means what Tokenize x means
    ∀ x, idempotentAt x = true           -- Format (Format x) = Format x

PROVED PART: both hold for every input in the fragment `W` (`inW`, Fragment.lean — an explicit
DECIDABLE predicate on rune strings, no size bound): plain words, also with placeholder groups
(`{x}`, `a{x}b`, `{$ENV}`, `{}` — the formatter keeps their `{` back for one character like a
block brace), any non-CR white space /
indentation / blank lines, arbitrarily nested `… {⏎ … ⏎}` blocks, one-line double-quoted strings
(escapes `\"`, `\\`, `\n` … allowed, followed by white space), simple backquoted strings (one line, any
characters incl. backslash, followed by white space), comments (own line, after a
word, or after `{` / `}` on the same line — after `{` it is moved to the next line, after `}` the
indentation is written in between, at nesting 0 two newlines; any text without backslash / trailing blank).  NOT covered by these two
theorems (only by the correspondence stream and the impl-side oracle): multi-line
quoted strings, heredoc tokens, line continuations, `#`/`"`/`<` inside words, CR, comments
directly before `{`.
-/

/-- on `W`, `Format` is the canonical re-rendering of the chunks (exact output) -/
theorem fmt_canonical_on_W (x : List Rune) (h : inW x = true) :
    ∃ (c : Chunk) (cs : List Chunk), goodFrom none (c :: cs) = true ∧
      format x = flatten (canon none 0 (c :: cs)) ++ [rNL] := by
  obtain ⟨lead, trail, c, cs, hx, hl, ht, hs, hg⟩ := inW_decompose h
  exact ⟨c, cs, hg, by rw [hx]; exact (W_core hl ht hs hg).1⟩

/-- **meaning preservation on `W`**: the formatted text tokenizes to the same token texts,
    quote kinds and line grouping as the original -/
theorem fmt_preserves_tokens_partial (x : List Rune) (h : inW x = true) : preservesTokens x = true := by
  obtain ⟨lead, trail, c, cs, hx, hl, ht, hs, hg⟩ := inW_decompose h
  rw [hx]; exact (W_core hl ht hs hg).2.1

/-- **idempotence on `W`** -/
theorem fmt_idempotent_partial (x : List Rune) (h : inW x = true) : idempotentAt x = true := by
  obtain ⟨lead, trail, c, cs, hx, hl, ht, hs, hg⟩ := inW_decompose h
  rw [hx]; exact (W_core hl ht hs hg).2.2

/-! non-vacuity: `W` contains real files (nested blocks, odd indentation, blank lines, Unicode
words), and the exclusions are tight (each excluded shape is a proved counter-example) -/

set_option maxRecDepth 100000 in
example : inW (runes "  example.com   {\n\n\n  reverse_proxy  10.0.0.1:80\n\thandle /api/* {\n respond 200\n}\n\n\n\n}\nlocalhost\n\n") = true := by
  decide
set_option maxRecDepth 100000 in
example : inW (runes "{\n  admin off\n}\n:443 {\n}\n") = true := by decide
set_option maxRecDepth 100000 in
example : inW (runes "example.com {\n  respond   \"Hello,  {world} # `x`\"  200\n\theader X-A \"\" # c\n}\n") = true := by
  decide
set_option maxRecDepth 100000 in
example : inW (runes "# global\n\n\nexample.com {\n  # \"no\" <<tls> here\n  admin off # really\n}\n\n#\n# end") = true := by decide
-- placeholders: glued into words, at the start of a line (after a word the formatter leaves the
-- blank it writes before a kept-back `{` at the end of the previous line: `canonSep`/`braceLead`)
set_option maxRecDepth 100000 in
example : inW (runes "{$SITE}:443 {\n  root * {env.ROOT}/www\n  {args[0]} a{x}b {}\n\n# c\n{http.request.uri}\n}\n") = true := by
  decide
set_option maxRecDepth 100000 in
example : format (runes "a\n{x} b") = runes "a \n{x} b\n" := by decide
-- a comment after `{` on the same line is moved into the block
set_option maxRecDepth 100000 in
example : inW (runes "a { # c\nb\n}") = true ∧ format (runes "a { # c\nb\n}") = runes "a {\n\t# c\n\tb\n}\n" := by decide
-- escapes inside double-quoted strings
set_option maxRecDepth 100000 in
example : inW (runes "respond \"{\\\"k\\\": \\\"v\\\"} \\\\ \\<<x\" 200") = true := by decide
-- … and after `}` the indentation is written between brace and comment
set_option maxRecDepth 100000 in
example : inW (runes "a {\nb {\n} # c\n} # d") = true ∧
    format (runes "a {\nb {\n} # c\n} # d") = runes "a {\n\tb {\n\t}\t# c\n}\n\n# d\n" := by decide
-- backquoted strings: literal, a backslash is an ordinary character in them
set_option maxRecDepth 100000 in
example : inW (runes "root  `C:\\sites\\a b`  {\n respond `say \"hi\" # {x}` 200\n}\n``") = true := by
  decide
-- excluded, and indeed failing: one-line block, dangling brace, brace first on its line, CR inside a word
set_option maxRecDepth 100000 in
example : inW (runes "a { b }") = false ∧ inW (runes "a {") = false ∧ inW (runes "a\n{\n}") = false ∧
    inW (runes "a\rb") = false ∧ inW (runes "# c\n{\n}") = false ∧ inW (runes "a # \\\n}") = false ∧
    inW (runes "a{") = false ∧ inW (runes "{{x}}") = false ∧ inW (runes "{}{") = false := by decide

/-! ### the command around the formatter

`caddy fmt` (`cmdFmtRunes`, Spec.lean) emits `Format` of the file's text, so both clauses transfer to
what the user's file looks like after `caddy fmt --overwrite` (on `W` as theorems; everywhere
else through the `cf` correspondence op plus the `rt` oracle). -/

/-- the file `caddy fmt` leaves behind means what the original meant -/
theorem cmdFmt_preserves_tokens_partial (x : List Rune) (h : inW x = true) :
    sameMeaning (tokenize x) (tokenize (cmdFmtRunes x)) = true :=
  fmt_preserves_tokens_partial x h

/-- a second `caddy fmt --overwrite` changes nothing -/
theorem cmdFmt_second_run_changes_nothing_partial (x : List Rune) (h : inW x = true) :
    cmdFmtRunes (cmdFmtRunes x) = cmdFmtRunes x := by
  have := fmt_idempotent_partial x h
  unfold idempotentAt at this
  exact eq_of_beq this


/-- **source fact** (regenerated from the tree under test on every run, `Gen/FmtCmd.lean`): in
    `cmdFmt` the bytes read from stdin / the file (`v0`) reach `caddyfile.Format` without being
    assigned again, and its result (`v1`, or the call in place) goes to `os.WriteFile` /
    `fmt.Print` unchanged — the static twin of the `cf` op -/
theorem cmdFmt_data_flow_matches_source :
    Gen.cmdFmtDataFlow =
      ["v0,err = io.ReadAll(os.Stdin)", "fmt.Print(string(caddyfile.Format(v0)))",
       "v0,err = os.ReadFile(configFile)", "v1 = caddyfile.Format(v0)",
       "os.WriteFile(configFile,v1,0o600)", "fmt.Print(string(v1))"] := by decide


/-- **source facts for the glue of Glue.lean** (regenerated on every run): `allTokens` lexes the
    substituted text; `Adapt` hands its untouched parameter to `Parse` and to the lint; the lint
    normalises CR LF on a copy (`v1`), formats that copy and compares the two -/
theorem fmt_glue_matches_source :
    Gen.allTokensReturns = ["Tokenize(replaceEnvVars(input),filename)"] ∧
    Gen.adaptBodyUses = ["Parse(filename,body)", "FormattingDifference(filename,body)"] ∧
    Gen.formattingDifferenceDataFlow =
      ["v1 = bytes.Replace(body,?(\"\\r\\n\"),?(\"\\n\"),-1)", "v0 = Format(v1)", "bytes.Equal(v0,v1)"] := by decide

/-! ### the heredoc-end rule exists twice: lexer.go (*lexer).next and the formatter's own copy -/

/-- **the two copies decide the same way.**  On a heredoc body line `l` (everything read since
    the last newline) the formatter ends the heredoc iff its sliding window
    `heredocClosingMarker` equals the marker (`closingWindow`, `pushClosing` per rune); the
    lexer ends it iff the text read so far ends with the marker (`endsWith`).  For every marker
    and every line the two tests agree — glued to a longer word (`seeEOF`) or not. -/
theorem heredoc_end_rules_agree (m l : List Rune) :
    (closingWindow m l == m) = endsWith l m := by
  rw [closingWindow_eq]
  unfold endsWith
  by_cases h : m.length ≤ l.length
  · simp [h]
  · have h3 : l.length - m.length = 0 := by omega
    have hne : l ≠ m := by intro e; rw [e] at h; omega
    simp [h, h3, hne]

example : (closingWindow ("EOF".toList.map Char.toNat) ("  seeEOF".toList.map Char.toNat)
            == "EOF".toList.map Char.toNat) = true ∧
          endsWith ("  seeEOF".toList.map Char.toNat) ("EOF".toList.map Char.toNat) = true ∧
          endsWith ("  seeEO".toList.map Char.toNat) ("EOF".toList.map Char.toNat) = false := by decide

/-- **source fact** (regenerated from the tree under test on every run, `Gen/HeredocEnd.lean`):
    the block of `(*lexer).next` that reads a heredoc body and the formatter's own copy of it
    are the ones modelled by `Lexer.nextStep` (`endsWith`) and `Model.stepHeredoc`
    (`pushClosing … == marker`, window cleared at a newline) — normalised source text, locals
    renamed in order of appearance.  An edit of ONE of the two sites (say the lexer's marker
    must stand alone) breaks this theorem by name, whatever the generator finds. -/
theorem heredoc_end_rule_matches_source :
    Gen.lexerHeredocEndCond = "len(v1) >= len(v4) && v4 == string(v1[len(v1)-len(v4):])" ∧
    Gen.formatterHeredocEndCond = "slices.Equal(v1, v3)" ∧
    Gen.lexerHeredocBlock =
      ["if v0 {", "v1 = append(v1, v2)", "if v2 == '\\n' {", "v3.skippedLines++", "}",
       "if len(v1) >= len(v4) && v4 == string(v1[len(v1)-len(v4):]) {",
       "v1, v5 = v3.finalizeHeredoc(v1, v4)", "if v5 != nil {", "return false, v5", "}",
       "v3.line += v3.skippedLines", "v3.skippedLines = 0", "return v6('<'), nil", "}",
       "continue", "}"] ∧
    Gen.formatterHeredocBlock =
      ["if v0 == heredocOpened {", "v1 = append(v1, v2)", "if len(v1) > len(v3) {", "v1 = v1[1:]", "}",
       "v4(v2)", "if slices.Equal(v1, v3) {", "v3 = nil", "v1 = nil", "v0 = heredocClosed", "v5 = true",
       "} else if v2 == '\\n' {", "v1 = v1[:0]", "}", "continue", "}"] := by decide


end CaddyModel.C17
