import CaddyModel.Util.DrvMain
import CaddyModel.C17.Driver

def main (args : List String) : IO Unit :=
  CaddyModel.drvMain "C17" CaddyModel.C17.handle CaddyModel.C17.witnessLines args
