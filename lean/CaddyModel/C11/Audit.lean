import CaddyModel.C11.Props
open CaddyModel.C11
#print axioms coverage
#print axioms certs_only_qualifying
#print axioms internal_issuer_for_nonpublic
#print axioms http_only_server_gets_nothing
#print axioms redirect_port_rule
#print axioms redirect_exists_partial
#print axioms only_catchAll_when_no_certs
#print axioms redirect_on_every_https_interface
#print axioms redirect_position
#print axioms served_redirect_port_rule
#print axioms user_host_route_answers
#print axioms redirect_port_deterministic
#print axioms redirect_sources_deterministic
#print axioms old_code_order_independent_part
#print axioms deterministic
#print axioms server_flags
#print axioms policies_same
#print axioms deterministic_old_code_fails
#print axioms receiver_old_code_depends_on_order
#print axioms effective_old_code_depends_on_route_order
#print axioms redirect_port_full_fails
#print axioms redirect_exists_full_fails
#print axioms cf_off_manages_nothing
#print axioms cf_named_site_qualifies
#print axioms cf_http_only_name_not_managed
