import CaddyModel.C11.Props
