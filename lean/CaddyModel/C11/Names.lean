/-
C11 — which names qualify: byte-level models of certmagic's `SubjectQualifiesForCert`,
`SubjectQualifiesForPublicCert`, `SubjectIsIP`, `SubjectIsInternal` (with `hostOnly`,
`isInternalIP` and the private CIDR list) and `MatchWildcard` (certmagic v0.23.0,
certificates.go), and of what they call in the standard library: `net.ParseIP`
(= `netip.ParseAddr` without zone: dotted-quad IPv4 without leading zeros, RFC 4291 IPv6
text with `::` and an embedded IPv4 tail), `net.SplitHostPort` / `strings.TrimSpace` /
`strings.Split` / `strings.Join` (reused from `C10/Glue.lean`).  ASCII names
(`strings.ToLower` is the ASCII one).  Core Lean only.
-/
import CaddyModel.C10.Glue
import CaddyModel.C11.Model

namespace CaddyModel.C11
open CaddyModel.C10 (splitHostPort trimSpace splitOn joinWith)

def dot : UInt8 := 46
def star : UInt8 := 42

def lowerB (s : Bytes) : Bytes := s.map asciiLower

def hasPrefixB (p s : Bytes) : Bool := p.isPrefixOf s
def hasSuffixB (p s : Bytes) : Bool := p.reverse.isPrefixOf s.reverse

/-- `strings.ContainsAny(subj, "()[]{}<> \t\n\"\\!@#$%^&|;'+=")` -/
def specialByte (b : UInt8) : Bool :=
  [40, 41, 91, 93, 123, 125, 60, 62, 32, 9, 10, 34, 92, 33, 64, 35, 36, 37, 94, 38, 124, 59, 39, 43, 61].contains b

/-- `certmagic.SubjectQualifiesForCert` -/
def qualifiesForCert (s : Bytes) : Bool :=
  !(trimSpace s).isEmpty &&
  !hasPrefixB [dot] s && !hasSuffixB [dot] s &&
  (!s.contains star || hasPrefixB [star, dot] s || s == [star]) &&
  !s.any specialByte

/-! ### net.ParseIP -/

def isDigit (b : UInt8) : Bool := 48 ≤ b && b ≤ 57

def hexVal (b : UInt8) : Option Nat :=
  if 48 ≤ b && b ≤ 57 then some (b.toNat - 48)
  else if 97 ≤ b && b ≤ 102 then some (b.toNat - 87)
  else if 65 ≤ b && b ≤ 70 then some (b.toNat - 55)
  else none

def decVal (ds : Bytes) : Nat := ds.foldl (fun acc d => acc * 10 + (d.toNat - 48)) 0

/-- one dotted-quad field: digits only, no leading zero, at most 255 -/
def v4Field (f : Bytes) : Option Nat :=
  if f.isEmpty || !f.all isDigit then none
  else if f.length > 1 && f.head? = some 48 then none
  else if f.length > 3 then none
  else if decVal f > 255 then none else some (decVal f)

/-- `netip.parseIPv4`: exactly four fields -/
def parseV4 (s : Bytes) : Option (List Nat) :=
  match (splitOn dot s).mapM v4Field with
  | some [a, b, c, d] => some [a, b, c, d]
  | _ => none

def hexSpan : Bytes → Bytes × Bytes
  | [] => ([], [])
  | b :: rest => if (hexVal b).isSome then ((hexSpan rest).1.cons b, (hexSpan rest).2) else ([], b :: rest)

def hexNum (ds : Bytes) : Nat := ds.foldl (fun acc d => acc * 16 + (match hexVal d with | some v => v | none => 0)) 0

/-- the loop of `netip.parseIPv6`: `i` bytes written so far, `ell` the position of `::` -/
def v6Loop : Nat → Bytes → Nat → Option Nat → List Nat → Option (List Nat × Nat × Option Nat)
  | 0, _, _, _, _ => none
  | fuel + 1, s, i, ell, out =>
    if i ≥ 16 then (if s.isEmpty then some (out, i, ell) else none)     -- trailing garbage
    else
      if (hexSpan s).1.isEmpty then none                                 -- field without a digit
      else if (hexSpan s).2.head? = some dot then
        -- embedded IPv4 replaces the final two fields
        if ell.isNone && i ≠ 12 then none
        else if i + 4 > 16 then none
        else match parseV4 s with
          | some v4 => some (out ++ v4, i + 4, ell)
          | none => none
      else if (hexSpan s).1.length > 4 then none
      else
        match (hexSpan s).2 with
        | [] => some (out ++ [hexNum (hexSpan s).1 / 256, hexNum (hexSpan s).1 % 256], i + 2, ell)
        | c :: rest =>
          if c ≠ 58 then none                                            -- want colon
          else match rest with
            | [] => none                                                 -- colon must be followed by more characters
            | c2 :: rest2 =>
              if c2 = 58 then
                (if ell.isSome then none                                 -- multiple ::
                 else if rest2.isEmpty then
                   some (out ++ [hexNum (hexSpan s).1 / 256, hexNum (hexSpan s).1 % 256], i + 2, some (i + 2))
                 else v6Loop fuel rest2 (i + 2) (some (i + 2))
                        (out ++ [hexNum (hexSpan s).1 / 256, hexNum (hexSpan s).1 % 256]))
              else v6Loop fuel (c2 :: rest2) (i + 2) ell
                     (out ++ [hexNum (hexSpan s).1 / 256, hexNum (hexSpan s).1 % 256])

/-- `netip.parseIPv6` for a string without zone: the 16 bytes -/
def parseV6 (s : Bytes) : Option (List Nat) :=
  if s.contains 37 then none                                             -- zones are not IPs for net.ParseIP
  else
    match (match s with
           | 58 :: 58 :: rest =>
             if rest.isEmpty then some ([], 0, some 0) else v6Loop (s.length + 1) rest 0 (some 0) []
           | _ => v6Loop (s.length + 1) s 0 none []) with
    | none => none
    | some (out, i, ell) =>
      if i < 16 then
        match ell with
        | none => none                                                   -- address string too short
        | some e => some (out.take e ++ List.replicate (16 - i) 0 ++ out.drop e)
      else if ell.isSome then none                                       -- :: must expand to at least one field
      else some out

/-- `net.ParseIP`: the first `.` or `:` decides the family; result as 16 bytes (IPv4 mapped) -/
def parseIP (s : Bytes) : Option (List Nat) :=
  match s.find? (fun b => b == dot || b == 58 || b == 37) with
  | some 46 => (parseV4 s).map fun v4 => [0, 0, 0, 0, 0, 0, 0, 0, 0, 0, 255, 255] ++ v4
  | some 58 => parseV6 s
  | _ => none

/-- `certmagic.SubjectIsIP` -/
def isIP (s : Bytes) : Bool := (parseIP s).isSome

/-- `IP.To4` -/
def to4 (ip : List Nat) : Option (List Nat) :=
  if ip.take 12 = [0, 0, 0, 0, 0, 0, 0, 0, 0, 0, 255, 255] then some (ip.drop 12) else none

/-- one of certmagic's private networks contains the address: 127/8, 0.0.0.0/16, 10/8,
    172.16/12, 192.168/16, 169.254/16 for IPv4; `::1/7` (= ::/7), fe80::/10, fc00::/7 for IPv6 -/
def inPrivateNet (ip : List Nat) : Bool :=
  match to4 ip with
  | some [a, b, _, _] =>
    a == 127 || (a == 0 && b == 0) || a == 10 || (a == 172 && 16 ≤ b && b ≤ 31) ||
    (a == 192 && b == 168) || (a == 169 && b == 254)
  | some _ => false
  | none =>
    match ip with
    | b0 :: b1 :: _ => b0 / 2 == 0 || (b0 == 254 && b1 / 64 == 2) || b0 / 2 == 126
    | _ => false

/-- `certmagic.hostOnly` -/
def hostOnly (s : Bytes) : Bytes :=
  match splitHostPort s with
  | some hp => hp.1
  | none => s

/-- `certmagic.isInternalIP` -/
def isInternalIP (s : Bytes) : Bool :=
  match parseIP (hostOnly s) with
  | some ip => inPrivateNet ip
  | none => false

def trimSuffixDot (s : Bytes) : Bytes := if hasSuffixB [dot] s then s.take (s.length - 1) else s

/-- the normalised form `SubjectIsInternal` looks at -/
def internalKey (s : Bytes) : Bytes := lowerB (trimSuffixDot (hostOnly s))

/-- `certmagic.SubjectIsInternal` -/
def isInternal (s : Bytes) : Bool :=
  internalKey s == str "localhost" ||
  hasSuffixB (str ".localhost") (internalKey s) || hasSuffixB (str ".local") (internalKey s) ||
  hasSuffixB (str ".internal") (internalKey s) || hasSuffixB (str ".home.arpa") (internalKey s) ||
  isInternalIP (internalKey s)

/-- `certmagic.SubjectQualifiesForPublicCert` -/
def qualifiesForPublic (s : Bytes) : Bool :=
  qualifiesForCert s && !isInternal s &&
  (!s.contains star ||
    (decide (s.count star = 1) && decide (s.count dot > 1) && decide (s.length > 2) && hasPrefixB [star, dot] s))

/-! ### certmagic.MatchWildcard -/

/-- the loop `labels[i] = "*"; candidate := Join(labels, ".")`: the replacement is cumulative
    (the slice is not restored), empty labels are skipped -/
def wildLoop (target : Bytes) : List Bytes → List Bytes → Bool
  | _, [] => false
  | done, l :: rest =>
    if l.isEmpty then wildLoop target (done ++ [l]) rest
    else joinWith [dot] (done ++ [[star]] ++ rest) == target || wildLoop target (done ++ [[star]]) rest

def matchWildcard (subject wildcard : Bytes) : Bool :=
  lowerB subject == lowerB wildcard ||
  ((lowerB wildcard).contains star && wildLoop (lowerB wildcard) [] (splitOn dot (lowerB subject)))


/-! ### automatic HTTPS phase 2: `TLS.Manage(allCertDomains)` -/

/-- `managingWildcardFor`: the candidates `labels[i] = "*"; Join(labels, ".")` of the RAW
    subject (labels that already are `*` are skipped; the replacement is cumulative) -/
def starCands : List Bytes → List Bytes → List Bytes
  | _, [] => []
  | done, l :: rest =>
    if l == [star] then starCands (done ++ [l]) rest
    else joinWith [dot] (done ++ [[star]] ++ rest) :: starCands (done ++ [[star]]) rest

/-- `Manage` skips a subject when a wildcard that covers it is among the subjects being managed
    (nothing is managed before, no `automate` loader): IP addresses must match exactly -/
def coveredByManagedWildcard (names : List Bytes) (certs : List Name) (d : Name) : Bool :=
  match names[d]? with
  | some s =>
    if isIP s then false
    else (starCands [] (splitOn dot s)).any fun cand => certs.any fun e => names[e]? == some cand
  | none => false

/-- the subjects `Manage` hands to certmagic (`TLS.managing` afterwards) -/
def managedOf (names : List Bytes) (certs : List Name) : List Name :=
  certs.filter fun d => !coveredByManagedWildcard names certs d

end CaddyModel.C11
