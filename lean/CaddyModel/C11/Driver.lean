/-
C11 line-protocol driver.

  cfg <K> <hp> <sp> <names> <servers> <policies> <loaded>

  K         number of times the harness provisions the config (1..64; ignored by the model)
  hp sp     App.HTTPPort / App.HTTPSPort as configured (0 = unset)
  names     `;`-joined  <hex>:<qpinl>:<mwrow>   name 0 must be the empty string; q p i n l are
            SubjectQualifiesForCert, …ForPublicCert, SubjectIsIP, SubjectIsInternal,
            HasCertificateForSubject; mwrow[j] = MatchWildcard(this, name j)
  servers   `-` or `;`-joined  <hexname>/<listen>/<flags>/<skip>/<skipcerts>/<routes>
            listen  `-` | addr,addr…      addr = <net>.<hexhost>.<start>.<end>  (net 0 tcp 1 tcp4 2 tcp6 3 udp)
            flags   disable, disable_redirects, disable_certificates, ignore_loaded_certificates (0/1), tls (0 nil / 1 [] / 2 [{}])
            skip*   `-` | idx,idx…
            routes  `-` | route,route…    route = c (no host matcher) | hm_hm…   hm = h | h<idx>+<idx>…
  policies  `-` or `;`-joined  <subjects>/<issuers>    subjects `-` | idx,idx…   issuers `-` | string over {i,a}
  loaded    0/1: the config loads the harness' static certificate

Answer:  err:tls | err:matcher | err:addr |
  ok c=<bit per name> p=<pol;…> s=<srv;…>
    pol = <idx,…|->/<issuers|->/<managers>
    srv = <key>/<disabled><tls>/<listen>/<skeleton>/<redirect table>      key = s<i> | new
-/
import CaddyModel.C11.Spec
import CaddyModel.C11.Caddyfile
import CaddyModel.C11.Names

namespace CaddyModel.C11

def reservedName : Bytes := str "remaining_auto_https_redirects"

structure NameInfo where
  str : Bytes
  q : Bool
  pub : Bool
  ip : Bool
  internal : Bool
  loaded : Bool
  mw : List Bool
  hm : List Bool

def bit? : Char → Option Bool
  | '0' => some false
  | '1' => some true
  | _ => none

def bits? (s : String) : Option (List Bool) := s.toList.mapM bit?

def list? {α} (sep : String) (f : String → Option α) (s : String) : Option (List α) :=
  if s == "-" then some [] else (s.splitOn sep).mapM f

def nat? (s : String) : Option Nat :=
  if s.length > 6 then none else s.toNat?

def parseName (s : String) : Option NameInfo :=
  match s.splitOn ":" with
  | [h, fl, row, hrow] => do
    let b ← Hex.decode h
    let f ← bits? fl
    let r ← bits? row
    let hr ← bits? hrow
    match f with
    | [q, p, i, n, l] => if b.all (· < 128) then some ⟨b, q, p, i, n, l, r, hr⟩ else none
    | _ => none
  | _ => none

def parseAddr (s : String) : Option Addr :=
  match s.splitOn "." with
  | [n, h, a, b] => do
    let n ← nat? n
    let h ← Hex.decode h
    let a ← nat? a
    let b ← nat? b
    if n ≤ 3 ∧ 1 ≤ a ∧ a ≤ b ∧ b < 65536 then some ⟨n, h, a, b⟩ else none
  | _ => none

def parseHM (s : String) : Option (List Name) :=
  match s.toList with
  | 'h' :: rest => if rest.isEmpty then some [] else (String.ofList rest |>.splitOn "+").mapM nat?
  | _ => none

def parseRoute (s : String) : Option URoute :=
  if s == "c" then some ⟨[]⟩ else (s.splitOn "_").mapM parseHM |>.map URoute.mk

def parseServer (s : String) : Option (Bytes × Server) :=
  match s.splitOn "/" with
  | [name, listen, fl, skip, skipc, routes] => do
    let name ← Hex.decode name
    let listen ← list? "," parseAddr listen
    let skip ← list? "," nat? skip
    let skipc ← list? "," nat? skipc
    let routes ← list? "," parseRoute routes
    match fl.toList with
    | [a, b, c, d, t] => do
      let a ← bit? a
      let b ← bit? b
      let c ← bit? c
      let d ← bit? d
      let t ← (match t with | '0' => some 0 | '1' => some 1 | '2' => some 2 | _ => none)
      if name.isEmpty then none else
      some (name, ⟨listen, a, b, c, d, t, skip, skipc, routes⟩)
    | _ => none
  | _ => none

def parseIssuer : Char → Option Issuer
  | 'i' => some .internal
  | 'a' => some .acme
  | _ => none

def parsePolicy (s : String) : Option Policy :=
  match s.splitOn "/" with
  | [subs, iss] => do
    let subs ← list? "," nat? subs
    let iss ← if iss == "-" then some [] else iss.toList.mapM parseIssuer
    some ⟨subs, iss, 0⟩
  | _ => none

def getB (l : List Bool) (i : Nat) : Bool :=
  match l[i]? with
  | some b => b
  | none => false

def paramsOf (names : List NameInfo) : Params :=
  { q := fun d => match names[d]? with | some x => x.q | none => false
    pub := fun d => match names[d]? with | some x => x.pub | none => false
    ip := fun d => match names[d]? with | some x => x.ip | none => false
    internal := fun d => match names[d]? with | some x => x.internal | none => false
    loaded := fun d => match names[d]? with | some x => x.loaded | none => false
    ts := fun d => match names[d]? with | some x => isTailscale x.str | none => false
    mw := fun d e => match names[d]? with | some x => getB x.mw e | none => false
    hm := fun d e => match names[d]? with | some x => getB x.hm e | none => false }

def indexOfName (name : Bytes) : List (Bytes × Server) → Nat → Option Nat
  | [], _ => none
  | (n, _) :: rest, i => if n = name then some i else indexOfName name rest (i + 1)

def serverNamesOk (n : Nat) (s : Server) : Bool :=
  s.skip.all (· < n) && s.skipCerts.all (· < n) && s.routes.all fun r => r.hms.all fun hm => hm.all (· < n)

/-- everything the harness also rejects as `bad-op` -/
def wellFormed (k hp sp : Nat) (names : List NameInfo) (srvs : List (Bytes × Server)) (pols : List Policy)
    (loaded : Bool) : Bool :=
  decide (1 ≤ k ∧ k ≤ 64 ∧ hp < 65536 ∧ sp < 65536) &&
  (match names with | x :: _ => x.str.isEmpty | [] => false) &&
  decide (names.length ≤ 160) && decide (srvs.length ≤ 8) && decide (pols.length ≤ 8) &&
  names.all (fun x => decide (x.mw.length = names.length) && decide (x.hm.length = names.length)) &&
  nodupB (names.map fun x => lowerB x.str) &&
  nodupB (srvs.map (·.1)) &&
  srvs.all (fun s => serverNamesOk names.length s.2) &&
  pols.all (fun p => p.subjects.all (· < names.length)) &&
  (loaded || names.all (fun x => !x.loaded))

/-! ### rendering -/

def showBit (b : Bool) : String := if b then "1" else "0"

def joinOr (sep : String) (l : List String) : String := if l.isEmpty then "-" else sep.intercalate l

def showIssuer : Issuer → String
  | .internal => "i"
  | .acme => "a"

def showPolicy (n : Nat) (p : Policy) : String :=
  joinOr "," (((List.range n).filter p.subjects.contains).map toString) ++
    (if p.subjects.any (fun d => decide (n ≤ d)) then "!" else "") ++ "/" ++
  (if p.issuers.isEmpty then "-" else String.join (p.issuers.map showIssuer)) ++ "/" ++ toString p.managers

def showAddr (a : Addr) : String :=
  toString a.net ++ "." ++ Hex.encode a.host ++ "." ++ toString a.sp ++ "." ++ toString a.ep

def showTok : Tok → String
  | .u i _ => "u" ++ toString i
  | .r => "R"

def showPorts (ports : List Nat) (f : Nat → Bool) : String := "+".intercalate ((ports.filter f).map toString)

def showTable (n : Nat) (ports : List Nat) (rs : List Route) : String :=
  joinOr ","
    (((List.range n).filter fun d => ports.any (hasRedir rs d)).map (fun d =>
        toString d ++ "=" ++ showPorts ports (hasRedir rs d)) ++
     (if ports.any (hasRedirAny rs) then ["*=" ++ showPorts ports (hasRedirAny rs)] else []))

def showServer (c : Config) (n : Nat) (kv : Nat × SrvOut) : String :=
  (if kv.1 < c.servers.length then "s" ++ toString kv.1 else "new") ++ "/" ++
  showBit kv.2.disabled ++ toString kv.2.tls ++ "/" ++
  joinOr "," (((addrUniverse c).filter kv.2.listen.contains).map showAddr) ++
    ":n" ++ toString kv.2.listen.length ++
    (if kv.2.listen.any (fun a => !(addrUniverse c).contains a) then "!" else "") ++ "/" ++
  joinOr "," ((skeleton kv.2.routes).map showTok) ++ "/" ++
  showTable n (portUniverse c) kv.2.routes ++
    (if kv.2.routes.any (Route.strange n (portUniverse c)) then "!" else "")

/-- the name can be the Host of a request as it is: letters, digits, `.`, `-`, `*` -/
def probeable (b : Bytes) : Bool :=
  !b.isEmpty && b.all fun x =>
    (97 ≤ x && x ≤ 122) || (65 ≤ x && x ≤ 90) || (48 ≤ x && x ≤ 57) || x == 46 || x == 45 || x == 42

def showServed : Served → String
  | .user i => "u" ++ toString i
  | .redir p => "r" ++ toString p
  | .nothing => "-"

def userRoutesOf (c : Config) (k : Nat) : List URoute :=
  match c.servers[k]? with
  | some s => s.routes
  | none => []

/-- what plain HTTP requests for every probeable name (and for an unknown host) get from
    every resulting server that listens on the HTTP port -/
def showDispatch (c : Config) (P : Params) (names : List Bytes) (kv : Nat × SrvOut) : String :=
  (if kv.1 < c.servers.length then "s" ++ toString kv.1 else "new") ++ ":" ++
  ",".intercalate
    (((indexed names 0).map fun ib =>
        if probeable ib.2 then showServed (serve P (userRoutesOf c kv.1) (some ib.1) kv.2.routes) else "~") ++
     [showServed (serve P (userRoutesOf c kv.1) none kv.2.routes)])

/-- the canonical answer: a tabulation of the observations of `Spec.lean` over the
    config's own names, ports and addresses -/
def canonS (c : Config) (n : Nat) (r : Result) : String :=
  "ok c=" ++ String.join ((List.range n).map fun d => showBit (r.certs.contains d)) ++
    (if r.certs.any (fun d => decide (n ≤ d)) then "!" else "") ++
  " p=" ++ joinOr ";" (r.policies.map (showPolicy n)) ++
  " s=" ++ joinOr ";" (r.servers.map (showServer c n))

def showFlagsOnly (c : Config) (r : Result) (i : Nat) : String :=
  "s" ++ toString i ++ "/" ++
  (match lookupSrv i r.servers with
   | some so => if c.reserved = some i then "~" else showBit so.disabled ++ toString so.tls
   | none => "~")

/-- the order-independent part only: used when `ambiguous c` -/
def canonAmb (c : Config) (n : Nat) (r : Result) : String :=
  "amb c=" ++ String.join ((List.range n).map fun d => showBit (r.certs.contains d)) ++
    (if r.certs.any (fun d => decide (n ≤ d)) then "!" else "") ++
  " p=" ++ joinOr ";" (r.policies.map (showPolicy n)) ++
  " s=" ++ joinOr ";" ((List.range c.servers.length).map (showFlagsOnly c r))

/-- Go's `<` on strings: lexicographic on bytes -/
def lexLt : Bytes → Bytes → Bool
  | [], [] => false
  | [], _ :: _ => true
  | _ :: _, [] => false
  | x :: xs, y :: ys => if x < y then true else if y < x then false else lexLt xs ys

def insertByName (names : List Bytes) (i : Nat) : List Nat → List Nat
  | [] => [i]
  | j :: rest =>
    if lexLt (names.getD i []) (names.getD j []) then i :: j :: rest else j :: insertByName names i rest

/-- `slices.Sorted(maps.Keys(app.Servers))`: the server indices in the order of their names -/
def sortedServers (names : List Bytes) : List Nat :=
  (List.range names.length).foldl (fun acc i => insertByName names i acc) []

/-- decimal digits of a number, as bytes -/
def natBytes (n : Nat) : Bytes := (toString n).toUTF8.toList

def netPrefix : Nat → Bytes
  | 0 => []
  | 1 => str "tcp4/"
  | 2 => str "tcp6/"
  | _ => str "udp/"

/-- `NetworkAddress.String()`: the default network tcp is omitted, `net.JoinHostPort` brackets a
    host that contains a colon, a port range prints as `start-end` -/
def addrStr (a : Addr) : Bytes :=
  netPrefix a.net ++ (if a.host.contains 58 then [91] ++ a.host ++ [93] else a.host) ++ [58] ++
    natBytes a.sp ++ (if a.ep = a.sp then [] else [45] ++ natBytes a.ep)

def insertBy {α} (key : α → Bytes) (x : α) : List α → List α
  | [] => [x]
  | y :: rest => if lexLt (key x) (key y) then x :: y :: rest else y :: insertBy key x rest

def sortBy {α} (key : α → Bytes) (l : List α) : List α := l.foldl (fun acc x => insertBy key x acc) []

/-- the iteration orders of the repaired code: every `range` runs over
    `slices.Sorted(maps.Keys(m))` — servers by name, domains by name, addresses by their string -/
def sortedOrders (c : Config) (srvNames names : List Bytes) : Orders :=
  { srv := sortedServers srvNames
    uniq := sortBy (fun d => names.getD d []) (List.range names.length)
    dom := sortBy (fun d => names.getD d []) (List.range names.length)
    addr := sortBy addrStr (addrUniverse c)
    raddr := sortBy addrStr (addrUniverse c)
    recv := fun _ => sortedServers srvNames
    laddr := sortBy addrStr (addrUniverse c) }

def canon (c : Config) (P : Params) (names : List Bytes) (r : Result) : String :=
  canonS c names.length r ++ " h=" ++
  joinOr ";" ((r.servers.filter fun kv => kv.2.listen.any fun a => coversPort a (httpPort c)).map (showDispatch c P names))

/-- `TLS.managing` after phase 2: per name `0` not handed to certmagic, `i` handed over under a
    policy whose only issuer is the internal one (issuer key recorded), `a` otherwise -/
def showManaging (P : Params) (names : List Bytes) (r : Result) : String :=
  String.join ((List.range names.length).map fun d =>
    if (managedOf names r.certs).contains d then
      (match policyFor P d r.policies with
       | some p => if p.issuers = [Issuer.internal] then "i" else "a"
       | none => "a")
    else "0")

def showOutcome (c : Config) (P : Params) (names : List Bytes) : Outcome → String
  | .errTLS => "err:tls"
  | .errMatcher => "err:matcher"
  | .errAddr => "err:addr"
  | .ok r => canon c P names r ++ " m=" ++ showManaging P names r

def parseSite (s : String) : Option Site :=
  match s.splitOn "." with
  | [a, b, d, t] => do
    let a ← nat? a
    let b ← nat? b
    let d ← nat? d
    let t ← (match t with | "0" => some false | "1" => some true | _ => none)
    if a ≤ 2 ∧ d < 65536 ∧ ¬(b = 0 ∧ d = 0) then some ⟨a, b, d, t⟩ else none
  | _ => none

def cfHostOK (b : Bytes) : Bool :=
  b.all fun x => (97 ≤ x && x ≤ 122) || (48 ≤ x && x ≤ 57) || x == 46 || x == 45 || x == 42

def showCFServer (s : Server) : String :=
  (match s.listen with | a :: _ => "p" ++ toString a.sp | [] => "p?") ++ "/" ++
  showBit s.disabled ++ showBit s.disableRedir ++ showBit s.disableCerts ++ showBit s.ignoreLoaded ++ "/" ++
  joinOr "," ((s.skip.foldr insertSorted []).map toString) ++ "/" ++
  joinOr "," (((allHosts s).foldr insertSorted []).map toString) ++
  (if s.routes.any (fun r => r.hms.isEmpty) then "*" else "")

/-- the parameters computed from the name strings (no loaded certificate; the HTTP host matcher
    is not consulted by the `cf` answer) -/
def realParamsD (names : List Bytes) : Params :=
  { q := fun d => match names[d]? with | some s => qualifiesForCert s | none => false
    pub := fun d => match names[d]? with | some s => qualifiesForPublic s | none => false
    ip := fun d => match names[d]? with | some s => isIP s | none => false
    internal := fun d => match names[d]? with | some s => isInternal s | none => false
    loaded := fun _ => false
    ts := fun d => match names[d]? with | some s => isTailscale s | none => false
    mw := fun d e => match names[d]?, names[e]? with | some s, some t => matchWildcard s t | _, _ => false
    hm := fun _ _ => false }

/-- the adapter names the servers srv0, srv1, … in ascending port order: any names in that order do -/
def cfSrvName (s : Server) : Bytes :=
  match s.listen with
  | a :: _ => List.replicate (6 - (toString a.sp).length) 48 ++ (toString a.sp).toUTF8.toList
  | [] => []

def showOutcomeCF (P : Params) (names : List Bytes) : Outcome → String
  | .ok r =>
    "c=" ++ String.join ((List.range names.length).map fun d => showBit (r.certs.contains d)) ++
      (if r.certs.any (fun d => decide (names.length ≤ d)) then "!" else "") ++
    " p=" ++ joinOr ";" (r.policies.map (showPolicy names.length)) ++
    " m=" ++ showManaging P names r
  | _ => "perr"

/-- `cf <hp> <sp> <opts> <names> <sites> <T> <A>`: the Caddyfile adapter's part (see
    Caddyfile.lean), then phase 1 + phase 2 on what it produced.  `T` = the automation policies the
    adapter emits (an input here: buildTLSApp's consolidation is not modelled), `A` must be `-`. -/
def handleCF (hp sp opts names sites t a : String) : String :=
  match nat? hp, nat? sp, bits? opts, list? ";" Hex.decode names, list? ";" parseSite sites,
        list? ";" parsePolicy t with
  | some hp, some sp, some [o1, o2, o3, o4], some names, some sites, some pols =>
    if hp < 65536 ∧ sp < 65536 ∧ names.head? = some [] ∧ names.length ≤ 12 ∧ names.all cfHostOK ∧ nodupB names ∧
       sites ≠ [] ∧ sites.length ≤ 8 ∧ sites.all (fun s => decide (s.name < names.length)) ∧ a = "-" ∧
       pols.all (fun p => p.subjects.all (· < names.length)) then
      match adaptWith ⟨hp, sp, o1, o2, o3, o4, sites⟩ pols with
      | none => "err"
      | some c =>
        "ok " ++ joinOr ";" (c.servers.map showCFServer) ++ " T=" ++ t ++ " A=" ++ a ++ " | " ++
          showOutcomeCF (realParamsD names) names
            (phase1 c (realParamsD names) (sortedOrders c (c.servers.map fun s => cfSrvName s) names))
    else "bad-op"
  | _, _, _, _, _, _ => "bad-op"

/-- `nm <hex a> <hex b>`: certmagic's predicates on `a`, and `MatchWildcard(a, b)` -/
def handleNM (a b : String) : String :=
  match Hex.decode a, Hex.decode b with
  | some a, some b =>
    if a.all (· < 128) ∧ b.all (· < 128) then
      "ok " ++ showBit (qualifiesForCert a) ++ showBit (qualifiesForPublic a) ++ showBit (isIP a) ++
        showBit (isInternal a) ++ " " ++ showBit (matchWildcard a b)
    else "bad-op"
  | _, _ => "bad-op"

/-- the certmagic values a `cfg` line carries are the values the byte-level models compute -/
def flagsMatchModel (names : List NameInfo) : Bool :=
  names.all fun x =>
    x.q == qualifiesForCert x.str && x.pub == qualifiesForPublic x.str && x.ip == isIP x.str &&
    x.internal == isInternal x.str && x.mw == names.map (fun y => matchWildcard x.str y.str)

def chunk7 : List String → Option (List (List String))
  | [] => some []
  | a :: b :: c :: d :: e :: f :: g :: rest => (chunk7 rest).map fun t => [a, b, c, d, e, f, g] :: t
  | _ => none

def handle1 : List String → String
  | ["nm", a, b] => handleNM a b
  | ["cf", hp, sp, opts, names, sites, t, a] => handleCF hp sp opts names sites t a
  | ["cfg", k, hp, sp, names, servers, policies, loaded] =>
    match nat? k, nat? hp, nat? sp, list? ";" parseName names, list? ";" parseServer servers,
          list? ";" parsePolicy policies, bits? loaded with
    | some k, some hp, some sp, some names, some srvs, some pols, some [ld] =>
      if wellFormed k hp sp names srvs pols ld && flagsMatchModel names then
        showOutcome ⟨hp, sp, srvs.map (·.2), pols, indexOfName reservedName srvs 0⟩ (paramsOf names) (names.map (·.str))
          (phase1 ⟨hp, sp, srvs.map (·.2), pols, indexOfName reservedName srvs 0⟩ (paramsOf names)
            (sortedOrders ⟨hp, sp, srvs.map (·.2), pols, indexOfName reservedName srvs 0⟩ (srvs.map (·.1)) (names.map (·.str))))
      else "bad-op"
    | _, _, _, _, _, _, _ => "bad-op"
  | _ => "bad-op"

/-- all ops; a history of loads is answered load by load, each config on its own
    (`Props.history_independent`) -/
def handle : List String → String
  | "hist" :: n :: rest =>
    match nat? n, chunk7 rest with
    | some n, some loads =>
      if 1 ≤ n ∧ n ≤ 4 ∧ loads.length = n then
        (if (loads.map fun l => handle1 ("cfg" :: l)).contains "bad-op" then "bad-op"
         else " || ".intercalate (loads.map fun l => handle1 ("cfg" :: l)))
      else "bad-op"
    | _, _ => "bad-op"
  | l => handle1 l

/-- counter-example lines replayed on the implementation on every run (see Witness.lean) -/
def witnessLines : List String := [
  -- Witness.redirect_port_full_fails: catch-all redirect of a name-less TLS server (sorted first) shadows a.test
  "C11 cfg 64 0 0 -:00000:10:00;612e74657374:11000:01:01 7330/0.-.9443.9443/00000/-/-/h1;7331/0.-.8443.8443/00002/-/-/- - 0",
  -- Witness.redirect_exists_full_fails: no managed certificate names, existing HTTP server
  "C11 cfg 64 0 0 -:00000:10:00;612e74657374:11000:01:01 7330/0.-.8443.8443/00100/-/-/h1;7331/0.-.80.80/00000/-/-/c - 0"]

end CaddyModel.C11
