/-
C11 — the Caddyfile side of automatic HTTPS: how the global option `auto_https`
(off / disable_redirects / disable_certs / ignore_loaded_certs), the scheme and port of a
site address and the `http_port` / `https_port` options reach `Server.Listen`,
`Server.AutoHTTPS` (flags and skip list) and the host matchers of the routes —
`httpcaddyfile.listenersForServerBlockAddress` and the parts of `serversFromPairings`
that decide them, for site blocks with one address each and no `bind` / `tls` directive.
The result is a `Config` of the phase-1 model, so the phase-1 theorems compose with it.
NOT modelled: `buildTLSApp`'s construction and consolidation of automation policies (taken as given,
see `adaptWith`), the adapter's prediction whether to add a TLS connection policy
(`addressQualifiesForTLS` / `autoHTTPSWillAddConnPolicy`), route order, `prefer_wildcard`.
-/
import CaddyModel.C11.Spec

namespace CaddyModel.C11

/-- a site address: scheme 0 none / 1 `http://` / 2 `https://`, host (name 0 = none), explicit port (0 = none) -/
structure Site where
  scheme : Nat
  name : Name
  port : Nat
  tlsInternal : Bool := false   -- the block has `tls internal`
deriving DecidableEq, Repr

structure CF where
  hp : Nat            -- global option http_port (0 = unset)
  sp : Nat            -- global option https_port (0 = unset)
  off : Bool          -- auto_https off
  disableRedir : Bool -- auto_https disable_redirects
  disableCerts : Bool -- auto_https disable_certs
  ignoreLoaded : Bool -- auto_https ignore_loaded_certs
  sites : List Site
deriving Repr

def CF.httpPort (cf : CF) : Nat := if cf.hp = 0 then defaultHTTPPort else cf.hp
def CF.httpsPort (cf : CF) : Nat := if cf.sp = 0 then defaultHTTPSPort else cf.sp

/-- `listenersForServerBlockAddress`: explicit port, else the HTTP port for `http://`, else the HTTPS port -/
def sitePort (cf : CF) (s : Site) : Nat :=
  if s.port ≠ 0 then s.port else if s.scheme = 1 then cf.httpPort else cf.httpsPort

/-- "scheme and port violate convention" -/
def conventionBad (cf : CF) (s : Site) : Bool :=
  (decide (s.scheme = 1) && decide (sitePort cf s = cf.httpsPort)) ||
  (decide (s.scheme = 2) && decide (sitePort cf s = cf.httpPort))

/-- "ambiguous site definition": two blocks with the same key text -/
def sameKey (s t : Site) : Bool := decide (s.scheme = t.scheme) && decide (s.name = t.name) && decide (s.port = t.port)

def dupSite : List Site → Bool
  | [] => false
  | s :: rest => rest.any (sameKey s) || dupSite rest

/-- `detectConflictingSchemes`: the site makes its server an HTTP server (`http://`, the HTTP
    port written out, or a bare `:port` that is neither) -/
def siteIsHTTP (cf : CF) (s : Site) : Bool :=
  decide (s.scheme = 1) || (decide (s.port ≠ 0) && decide (s.port = cf.httpPort)) ||
  (!(decide (s.scheme = 2) || (decide (s.port ≠ 0) && decide (s.port = cf.httpsPort))) && decide (s.name = 0))

/-- … or an HTTPS server (`https://` or the HTTPS port written out) -/
def siteIsHTTPS (cf : CF) (s : Site) : Bool :=
  !(decide (s.scheme = 1) || (decide (s.port ≠ 0) && decide (s.port = cf.httpPort))) &&
  (decide (s.scheme = 2) || (decide (s.port ≠ 0) && decide (s.port = cf.httpsPort)))

/-- "cannot natively multiplex HTTP and HTTPS" -/
def multiplexBad (cf : CF) : Bool :=
  cf.sites.any fun s => siteIsHTTP cf s && cf.sites.any fun t =>
    decide (sitePort cf t = sitePort cf s) && siteIsHTTPS cf t

def cfErr (cf : CF) : Bool := cf.sites.any (conventionBad cf) || dupSite cf.sites || multiplexBad cf

/-- the listener ports, ascending: one server per port -/
def cfPorts (cf : CF) : List Nat := (cf.sites.map (sitePort cf)).foldr insertSorted []

def sitesOn (cf : CF) (p : Nat) : List Site := cf.sites.filter fun s => decide (sitePort cf s = p)

/-- hosts "defined explicitly with http:// in the key" are excluded from automatic HTTPS
    (issue 2998) — unless the server only uses the HTTP port anyway -/
def cfSkip (cf : CF) (p : Nat) : List Name :=
  if p = cf.httpPort then []
  else ((sitesOn cf p).filter fun s => decide (s.scheme = 1) && decide (s.name ≠ 0)).foldl (fun acc s => addSet acc s.name) []

def cfRoute (s : Site) : URoute := if s.name = 0 then ⟨[]⟩ else ⟨[[s.name]]⟩

def cfServer (cf : CF) (p : Nat) : Server :=
  ⟨[⟨0, [], p, p⟩], cf.off, cf.disableRedir, cf.disableCerts, cf.ignoreLoaded, 0, cfSkip cf p, [],
   (sitesOn cf p).map cfRoute⟩

/-- the HTTP app the adapter produces, as a configuration of the phase-1 model (`none` = the
    adapter rejects the Caddyfile) -/
def adaptWith (cf : CF) (pols : List Policy) : Option Config :=
  if cfErr cf then none
  else some ⟨cf.hp, cf.sp, (cfPorts cf).map (cfServer cf), pols, none⟩

/-- the adapter's output when it emits no automation policy (no `tls` directive, no global
    issuer option).  With `tls` directives `buildTLSApp` emits policies; its consolidation is not
    modelled: `adaptWith cf pols` takes the emitted policies as they are (the harness carries
    them on the line and re-checks them against the real adapter), and the theorems of
    `CaddyfileProps.lean` hold for EVERY list of policies. -/
def adapt (cf : CF) : Option Config := adaptWith cf []

end CaddyModel.C11
