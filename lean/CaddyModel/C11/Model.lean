/-
C11 — model of phase 1 of automatic HTTPS (`modules/caddyhttp/autohttps.go`,
`automaticHTTPSPhase1`, `makeRedirRoute`, `createAutomationPolicies`), the helpers
it calls in `server.go` (`listenersUseAnyPortOtherThan`, `hasListenerAddress`,
`findLastRouteWithHostMatcher`), `caddytls.(*TLS).AddAutomationPolicy` / `Validate`
and `caddyhttp.(*App).Validate`, transliterated loop by loop.

* Go maps whose iteration order the code observes are association lists in insertion
  order; every `for … := range m` first re-orders the list with `pull π m`, where `π` is
  an arbitrary key list (`Orders`): the keys named by `π` come first, in `π`'s order, the
  rest keep their insertion order.  Every permutation of `m` is `pull π m` for some `π`
  and `pull π m` is always a permutation of `m`, so "for all `π`" is "for all iteration
  orders".  Go draws a fresh order for every `range` statement; so does `Orders`.
* Names are indices into the case's name table; name `0` is the empty string (the code
  uses `""` as the key of the catch-all redirect).  certmagic's predicates, the loaded
  certificate lookup and `isTailscaleDomain` on the concrete strings are the parameter
  `Params` (the harness sends the values the real functions returned).
* Listener addresses arrive parsed (`caddy.ParseNetworkAddress` is a parameter):
  network code, host bytes, start and end port.  `NetworkAddress.String()` followed by
  `ParseNetworkAddress` is modelled as the identity on parsed addresses.
* `hasListenerAddress` is the `runtime.GOOS == "linux"` branch (the host is ignored).
-/
import CaddyModel.Util.Hex

namespace CaddyModel.C11

abbrev Name := Nat

/-- certmagic.SubjectQualifiesForCert / SubjectQualifiesForPublicCert / SubjectIsIP /
    SubjectIsInternal / MatchWildcard, `tlsApp.HasCertificateForSubject`, and
    `isTailscaleDomain`, as functions of the name index -/
structure Params where
  q : Name → Bool
  pub : Name → Bool
  ip : Name → Bool
  internal : Name → Bool
  loaded : Name → Bool
  ts : Name → Bool
  mw : Name → Name → Bool
  hm : Name → Name → Bool   -- caddyhttp.MatchHost{pattern}.Match(request with this Host): `hm host pattern`

structure Addr where
  net : Nat
  host : Bytes
  sp : Nat
  ep : Nat
deriving DecidableEq, Repr

/-- a user route: the host lists of its `*MatchHost` matchers (all matcher sets flattened);
    `[]` = the route has no host matcher -/
structure URoute where
  hms : List (List Name)
deriving Repr

structure Server where
  listen : List Addr
  disabled : Bool        -- automatic_https.disable
  disableRedir : Bool    -- automatic_https.disable_redirects
  disableCerts : Bool    -- automatic_https.disable_certificates
  ignoreLoaded : Bool    -- automatic_https.ignore_loaded_certificates
  tls : Nat              -- TLSConnPolicies: 0 = nil, 1 = non-nil and empty, 2 = non-empty
  skip : List Name
  skipCerts : List Name
  routes : List URoute
deriving Repr

inductive Issuer where
  | internal | acme
deriving DecidableEq, Repr

/-- a TLS automation policy as far as phase 1 reads or writes it -/
structure Policy where
  subjects : List Name
  issuers : List Issuer    -- `[]` = `ap.Issuers == nil`
  managers : Nat
deriving DecidableEq, Repr

structure Config where
  httpPortRaw : Nat        -- App.HTTPPort (0 = unset)
  httpsPortRaw : Nat       -- App.HTTPSPort (0 = unset)
  servers : List Server
  policies : List Policy
  reserved : Option Nat    -- index of a user server that is itself named "remaining_auto_https_redirects"
deriving Repr

/-- one iteration order per `range` statement over a map -/
structure Orders where
  srv : List Nat             -- `for srvName, srv := range app.Servers` (main loop)
  uniq : List Name           -- `for d := range uniqueDomainsForCerts`
  dom : List Name            -- `for domain, addrs := range redirDomains`
  addr : List Addr           -- `for addrStr, domains := range domainsByAddr`
  raddr : List Addr          -- `for redirServerAddr, routes := range redirServers`
  recv : Addr → List Nat     -- `for _, srv := range app.Servers` inside that loop (fresh each time)
  laddr : List Addr          -- `for a := range redirServerAddrs`

def Orders.id : Orders := ⟨[], [], [], [], [], fun _ => [], []⟩

/-- **the repaired code** ranges over `slices.Sorted(maps.Keys(m))`.  `κ` lists the keys in
    sorted order, `ρ` is the runtime order of the map: the keys `κ` names come first, in `κ`'s
    order, and only keys `κ` does not name would still come in runtime order — none, when `κ`
    is complete (`Props.deterministic`). -/
def Orders.over (κ ρ : Orders) : Orders :=
  ⟨κ.srv ++ ρ.srv, κ.uniq ++ ρ.uniq, κ.dom ++ ρ.dom, κ.addr ++ ρ.addr, κ.raddr ++ ρ.raddr,
   fun R => κ.recv R ++ ρ.recv R, κ.laddr ++ ρ.laddr⟩

inductive Route where
  | user (id : Nat) (hasHost : Bool)
  | redir (hosts : Option (List Name)) (port : Nat)   -- `none` = no host matcher; port 0 = no explicit port
deriving DecidableEq, Repr

structure SrvOut where
  listen : List Addr
  disabled : Bool          -- AutoHTTPS.Disabled after phase 1
  tls : Nat
  routes : List Route
deriving DecidableEq, Repr

structure Result where
  certs : List Name                 -- app.allCertDomains
  policies : List Policy            -- tlsApp.Automation.Policies
  servers : List (Nat × SrvOut)     -- app.Servers (key = index in the config; the redirect server gets a fresh key)
deriving Repr

inductive Outcome where
  | errTLS        -- caddytls Validate rejects the automation policies
  | errMatcher    -- MatchHost.Provision: repeated host
  | errAddr       -- caddyhttp Validate: listener address repeated
  | ok (r : Result)
deriving Repr

/-! ### map iteration -/

def extract {κ α} [DecidableEq κ] (k : κ) : List (κ × α) → Option (α × List (κ × α))
  | [] => none
  | (k', v) :: rest =>
    if k' = k then some (v, rest)
    else match extract k rest with
      | none => none
      | some (v', rest') => some (v', (k', v) :: rest')

/-- iterate `m` in the order `π` asks for -/
def pull {κ α} [DecidableEq κ] : List κ → List (κ × α) → List (κ × α)
  | [], m => m
  | k :: ks, m =>
    match extract k m with
    | some (v, m') => (k, v) :: pull ks m'
    | none => pull ks m

def pullKeys {κ} [DecidableEq κ] (π : List κ) (l : List κ) : List κ :=
  (pull π (l.map fun k => (k, ()))).map (·.1)

def indexed {α} : List α → Nat → List (Nat × α)
  | [], _ => []
  | x :: xs, i => (i, x) :: indexed xs (i + 1)

/-- `m[k] = append(m[k], v)` on an insertion-ordered map -/
def assocAppend {κ α} [DecidableEq κ] : List (κ × List α) → κ → α → List (κ × List α)
  | [], k, v => [(k, [v])]
  | (k', vs) :: rest, k, v =>
    if k' = k then (k', vs ++ [v]) :: rest else (k', vs) :: assocAppend rest k v

def hasKey {κ α} [DecidableEq κ] (m : List (κ × α)) (k : κ) : Bool := m.any fun kv => decide (kv.1 = k)

def addSet (l : List Name) (d : Name) : List Name := if l.contains d then l else l ++ [d]

def nodupB {α} [DecidableEq α] : List α → Bool
  | [] => true
  | x :: xs => !xs.contains x && nodupB xs

/-! ### ports and listeners -/

def defaultHTTPPort : Nat := 80
def defaultHTTPSPort : Nat := 443

def httpPort (c : Config) : Nat := if c.httpPortRaw = 0 then defaultHTTPPort else c.httpPortRaw
def httpsPort (c : Config) : Nat := if c.httpsPortRaw = 0 then defaultHTTPSPort else c.httpsPortRaw

/-- `listenersUseAnyPortOtherThan` -/
def usesOther (l : List Addr) (p : Nat) : Bool := l.any fun a => decide (p > a.ep) || decide (p < a.sp)

/-- `hasListenerAddress` for a single-port address `R` (linux branch) -/
def hasListener (listen : List Addr) (R : Addr) : Bool :=
  listen.any fun a => decide (a.net = R.net) && decide (R.sp ≤ a.ep) && decide (R.sp ≥ a.sp)

/-- the address the redirect for `a` is served from: same network and host, the HTTP port -/
def redirAddr (c : Config) (a : Addr) : Addr := { a with sp := httpPort c, ep := httpPort c }

/-- `makeRedirRoute`: the explicit port appended to `https://{http.request.host}` (0 = none) -/
def portRule (c : Config) (p : Nat) : Nat :=
  if p ≠ httpPort c ∧ p ≠ httpsPort c ∧ p ≠ defaultHTTPPort ∧ p ≠ defaultHTTPSPort then p else 0

/-! ### main loop over the servers -/

def allHosts (s : Server) : List Name := s.routes.flatMap fun r => r.hms.flatten

/-- `serverDomainSet` -/
def domainSet (s : Server) : List Name :=
  (allHosts s).foldl (fun acc d => if s.skip.contains d then acc else addSet acc d) []

/-- neither disabled nor confined to the HTTP port -/
def active (c : Config) (s : Server) : Bool := !s.disabled && usesOther s.listen (httpPort c)

/-- TLSConnPolicies after "listening only on the HTTPS port but no connection policies" -/
def tls1 (c : Config) (s : Server) : Nat :=
  if s.tls = 0 && !usesOther s.listen (httpsPort c) then 2 else s.tls

/-- the server reaches the certificate / redirect part of the loop body -/
def engaged (c : Config) (s : Server) : Bool :=
  active c s && !((domainSet s).isEmpty && decide (tls1 c s < 2))

def tlsOut (c : Config) (s : Server) : Nat :=
  if !active c s then s.tls
  else if !engaged c s then tls1 c s
  else if tls1 c s = 0 then 2 else tls1 c s

def disabledOut (c : Config) (s : Server) : Bool := s.disabled || !usesOther s.listen (httpPort c)

def certOk (P : Params) (s : Server) (d : Name) : Bool :=
  P.q d && !s.skipCerts.contains d && !(!s.ignoreLoaded && P.loaded d)

def certNames (P : Params) (s : Server) : List Name :=
  if s.disableCerts then [] else (domainSet s).filter (certOk P s)

abbrev RD := List (Name × List Addr)

def rdStepDom (https : Nat) (a : Addr) (rd : RD) (d : Name) : RD :=
  if !hasKey rd d || decide (a.sp = https) then assocAppend rd d a else rd

def rdStepAddr (https : Nat) (doms : List Name) (rd : RD) (a : Addr) : RD :=
  if doms.isEmpty then assocAppend rd 0 a else doms.foldl (rdStepDom https a) rd

def rdStepSrv (c : Config) (s : Server) (rd : RD) : RD :=
  s.listen.foldl (rdStepAddr (httpsPort c) (domainSet s)) rd

def mainStep (c : Config) (P : Params) (st : List Name × RD) (ks : Nat × Server) : List Name × RD :=
  if engaged c ks.2 then
    ((certNames P ks.2).foldl addSet st.1, if ks.2.disableRedir then st.2 else rdStepSrv c ks.2 st.2)
  else st

def mainLoop (c : Config) (P : Params) (π : Orders) : List Name × RD :=
  (pull π.srv (indexed c.servers 0)).foldl (mainStep c P) ([], [])

/-! ### implicit automation policies -/

def allInternal (P : Params) (p : Policy) : Bool := p.subjects.all P.internal

/-- the first policy that lists `d` gets the internal issuer when it has no issuers and
    only internal subjects -/
def markPolicy (P : Params) (d : Name) : List Policy → List Policy
  | [] => []
  | p :: ps =>
    if p.subjects.contains d then
      (if p.issuers.isEmpty && allInternal P p then { p with issuers := [Issuer.internal] } else p) :: ps
    else p :: markPolicy P d ps

structure LoopB where
  pols : List Policy
  internal : List Name
  tailscale : List Name
  uniq : List Name
deriving Repr

def stepB (P : Params) (noPol : Bool) (b : LoopB) (d : Name) : LoopB :=
  if b.pols.any (fun p => p.subjects.contains d) then { b with pols := markPolicy P d b.pols }
  else if P.ts d then { b with tailscale := b.tailscale ++ [d], uniq := b.uniq.filter (· ≠ d) }
  else if !P.pub d || (P.ip d && noPol) then { b with internal := b.internal ++ [d] }
  else b

def loopB (P : Params) (pols : List Policy) (π : Orders) (uniq : List Name) : LoopB :=
  (pullKeys π.uniq uniq).foldl (stepB P pols.isEmpty) ⟨pols, [], [], uniq⟩

def fillDefault (p : Policy) : Policy := if p.issuers.isEmpty then { p with issuers := [Issuer.acme] } else p

def findBase : List Policy → Option Policy
  | [] => none
  | p :: ps => if p.subjects.isEmpty then some p else findBase ps

def supersetOf (P : Params) (subs : List Name) (ex : Policy) : Bool :=
  subs.any fun s => ex.subjects.any fun o => P.mw s o

/-- `AddAutomationPolicy` -/
def addPolicy (P : Params) (ap : Policy) : List Policy → List Policy
  | [] => [ap]
  | ex :: rest =>
    if supersetOf P ap.subjects ex || decide (ex.subjects.length < ap.subjects.length) then ap :: ex :: rest
    else ex :: addPolicy P ap rest

def newBase : Policy := ⟨[], [Issuer.acme], 0⟩

def baseOf (pols : List Policy) : Policy :=
  match findBase pols with
  | some p => p
  | none => newBase

def withBase (P : Params) (pols : List Policy) : List Policy :=
  match findBase pols with
  | some _ => pols
  | none => addPolicy P newBase pols

def withInternal (P : Params) (base : Policy) (internal : List Name) (pols : List Policy) : List Policy :=
  if internal.isEmpty then pols else addPolicy P ⟨internal, [Issuer.internal], base.managers⟩ pols

def withTailscale (P : Params) (base : Policy) (tailscale : List Name) (pols : List Policy) : List Policy :=
  if tailscale.isEmpty then pols else addPolicy P ⟨tailscale, [], base.managers + 1⟩ pols

/-- `createAutomationPolicies` -/
def createPolicies (P : Params) (pols : List Policy) (internal tailscale : List Name) : List Policy :=
  withTailscale P (baseOf (pols.map fillDefault)) tailscale
    (withInternal P (baseOf (pols.map fillDefault)) internal
      (withBase P (pols.map fillDefault)))

/-- `(*TLS).Validate` on the automation policies -/
def tlsValid (pols : List Policy) : Bool :=
  decide ((pols.filter fun p => p.subjects.isEmpty).length ≤ 1) && nodupB (pols.flatMap (·.subjects))

/-! ### redirect routes -/

abbrev DBA := List (Addr × List Name)
abbrev RS := List (Addr × List Route)

def dbaStep (m : DBA) (da : Name × List Addr) : DBA := da.2.foldl (fun m a => assocAppend m a da.1) m

/-- `domainsByAddr` -/
def domainsByAddr (π : Orders) (rd : RD) : DBA := (pull π.dom rd).foldl dbaStep []

def isCatchAllDomains (doms : List Name) : Bool := decide (doms = [0])

/-- the redirect route for listener address `a`.  Its host matcher is PROVISIONED (fix "provision
    the host matcher of the automatic HTTP->HTTPS redirect route"): repeated names are dropped
    first (the code compares them case-insensitively; the names of a case are pairwise distinct
    ignoring case — the driver rejects anything else — so that is dropping repeated indices),
    then `MatchHost.Provision` lower-cases and sorts the entries of a large list; the model keeps
    the host list as a set of name indices, which neither changes. -/
def mkRedirRoute (c : Config) (a : Addr) (doms : List Name) : Route :=
  Route.redir (if isCatchAllDomains doms then none else some (doms.foldl addSet [])) (portRule c a.sp)

def rsStep (c : Config) (m : RS) (ad : Addr × List Name) : RS :=
  assocAppend m (redirAddr c ad.1) (mkRedirRoute c ad.1 ad.2)

/-- `redirServers` -/
def redirServers (c : Config) (π : Orders) (dba : DBA) : RS := (pull π.addr dba).foldl (rsStep c) []

/-- `appendCatchAll`'s route: redirect to the HTTPS port, no host matcher -/
def catchAllRoute (c : Config) : Route := Route.redir none (portRule c (httpsPort c))

def Route.hasHost : Route → Bool
  | .user _ h => h
  | .redir _ _ => false      -- redirect routes carry a `MatchHost` value, the scan looks for `*MatchHost`

def lastHostIdx : List Route → Nat → Option Nat → Option Nat
  | [], _, acc => acc
  | r :: rs, i, acc => lastHostIdx rs (i + 1) (if r.hasHost then some (i + 1) else acc)

/-- `findLastRouteWithHostMatcher` -/
def findLast (rs : List Route) : Nat :=
  match lastHostIdx rs 0 none with
  | some i => i
  | none => 0

/-- an existing server receives the redirect routes of one redirect address -/
def receive (c : Config) (certsNonEmpty : Bool) (routes : List Route) (s : SrvOut) : SrvOut :=
  { s with routes :=
      (if certsNonEmpty then s.routes.take (findLast s.routes) ++ (routes ++ s.routes.drop (findLast s.routes))
       else s.routes) ++ [catchAllRoute c] }

structure LoopF where
  srvs : List (Nat × SrvOut)
  newAddrs : List Addr
  newRoutes : List Route
deriving Repr

def stepF (c : Config) (certsNonEmpty : Bool) (π : Orders) (st : LoopF) (rr : Addr × List Route) : LoopF :=
  match (pull (π.recv rr.1) st.srvs).find? (fun kv => hasListener kv.2.listen rr.1) with
  | some kv =>
    { st with srvs := st.srvs.map fun kv' =>
        if kv'.1 = kv.1 then (kv'.1, receive c certsNonEmpty rr.2 kv'.2) else kv' }
  | none => { st with newAddrs := st.newAddrs ++ [rr.1], newRoutes := st.newRoutes ++ rr.2 }

def userRoutes : List URoute → Nat → List Route
  | [], _ => []
  | r :: rs, i => Route.user i (!r.hms.isEmpty) :: userRoutes rs (i + 1)

def srvInit (c : Config) (s : Server) : SrvOut :=
  ⟨s.listen, disabledOut c s, tlsOut c s, userRoutes s.routes 0⟩

def loopF (c : Config) (certsNonEmpty : Bool) (π : Orders) (rs : RS) : LoopF :=
  (pull π.raddr rs).foldl (stepF c certsNonEmpty π) ⟨indexed (c.servers.map (srvInit c)) 0, [], []⟩

def newServer (c : Config) (π : Orders) (f : LoopF) : SrvOut :=
  ⟨pullKeys π.laddr f.newAddrs, false, 0, f.newRoutes ++ [catchAllRoute c]⟩

/-- `app.Servers["remaining_auto_https_redirects"] = …` -/
def finalServers (c : Config) (π : Orders) (f : LoopF) : List (Nat × SrvOut) :=
  if f.newAddrs.isEmpty then f.srvs
  else match c.reserved with
    | some i => f.srvs.map fun kv => if kv.1 = i then (i, newServer c π f) else kv
    | none => f.srvs ++ [(c.servers.length, newServer c π f)]

/-! ### validation -/

def hostDup (s : Server) : Bool := s.routes.any fun r => r.hms.any fun hm => !nodupB hm

def expandAddr (a : Addr) : List (Nat × Bytes × Nat) :=
  (List.range (a.ep + 1 - a.sp)).map fun i => (a.net, a.host, a.sp + i)

def addrValid (srvs : List (Nat × SrvOut)) : Bool :=
  nodupB (srvs.flatMap fun kv => kv.2.listen.flatMap expandAddr)

/-! ### phase 1 -/

def certsOf (c : Config) (P : Params) (π : Orders) : List Name :=
  (loopB P c.policies π (mainLoop c P π).1).uniq

def policiesOf (c : Config) (P : Params) (π : Orders) : List Policy :=
  createPolicies P (loopB P c.policies π (mainLoop c P π).1).pols
    (loopB P c.policies π (mainLoop c P π).1).internal
    (loopB P c.policies π (mainLoop c P π).1).tailscale

def serversOf (c : Config) (P : Params) (π : Orders) : List (Nat × SrvOut) :=
  finalServers c π
    (loopF c (!(certsOf c P π).isEmpty) π
      (redirServers c π (domainsByAddr π (mainLoop c P π).2)))

def phase1Result (c : Config) (P : Params) (π : Orders) : Result :=
  ⟨certsOf c P π, policiesOf c P π, serversOf c P π⟩

/-- provisioning of the HTTP app as far as automatic HTTPS phase 1 decides it -/
def phase1 (c : Config) (P : Params) (π : Orders) : Outcome :=
  if !tlsValid c.policies then Outcome.errTLS
  else if c.servers.any hostDup then Outcome.errMatcher
  else if !tlsValid (policiesOf c P π) then Outcome.errTLS
  else if !addrValid (serversOf c P π) then Outcome.errAddr
  else Outcome.ok (phase1Result c P π)

/-! ### `isTailscaleDomain` on concrete bytes -/

def asciiLower (b : UInt8) : UInt8 := if 65 ≤ b ∧ b ≤ 90 then b + 32 else b

/-- `strings.HasSuffix(strings.ToLower(name), ".ts.net")` (ASCII names) -/
def isTailscale (name : Bytes) : Bool :=
  decide (((name.map asciiLower).reverse.take 7).reverse = [46, 116, 115, 46, 110, 101, 116])

end CaddyModel.C11
