/-
C11 — proved counter-examples.
* `…_old_code_…`: the model with ARBITRARY iteration orders `π` is the code before the repair
  "automatic HTTPS phase 1 iterates its maps in sorted key order"; these theorems show that the
  determinism clause was false there (non-vacuity of `Props.deterministic`).  Their protocol
  lines are regression cases in `corpus/C11/`.
* `…_full_fails`: clauses the current tree still violates; their configurations are protocol
  lines in `Driver.witnessLines`, replayed on the implementation on every run (and listed in
  `known_findings.jsonl`).
-/
import CaddyModel.C11.Lemmas

namespace CaddyModel.C11

/-- names: 0 = "", 1 = "a.test" -/
def wP : Params :=
  { q := fun d => d == 1, pub := fun d => d == 1, ip := fun _ => false, internal := fun _ => false,
    loaded := fun _ => false, ts := fun _ => false, mw := fun a b => a == b,
    hm := fun a b => a == b }

def tcp (host : Bytes) (port : Nat) : Addr := ⟨0, host, port, port⟩

/-- a server naming "a.test" in its only route -/
def site (listen : List Addr) : Server := ⟨listen, false, false, false, false, 0, [], [], [⟨[[1]]⟩]⟩

/-- a server with one catch-all user route -/
def plain (listen : List Addr) (tls : Nat) : Server := ⟨listen, false, false, false, false, tls, [], [], [⟨[]⟩]⟩

/-! #### DESIGN F16: a name on two servers, one of them off the HTTPS port -/

/-- "a.test" on :8443 and on :9443 -/
def cfgF16 : Config := ⟨0, 0, [site [tcp [] 8443], site [tcp [] 9443]], [], none⟩

/-- **determinism at full strength is false**: for the same configuration the redirect for
    "a.test" names :8443 when the servers map yields `s0` first and :9443 when it yields `s1`
    first.  (Full statement: `∀ c P π π', SameResult (phase1Result c P π) (phase1Result c P π')`.) -/
theorem deterministic_old_code_fails :
    ∃ (c : Config) (P : Params) (π π' : Orders), ¬ SameResult (phase1Result c P π) (phase1Result c P π') := by
  refine ⟨cfgF16, wP, { Orders.id with srv := [0, 1] }, { Orders.id with srv := [1, 0] }, fun h => ?_⟩
  exact absurd (h.redir 2 1 8443) (by decide)

example : ambiguous cfgF16 = true := by decide

/-! #### two servers on the HTTP port -/

/-- "a.test" on :443, two user servers on 10.1.1.1:80 and 127.0.0.1:80 -/
def cfgRecv : Config :=
  ⟨0, 0, [site [tcp [] 443], plain [tcp (str "10.1.1.1") 80] 0, plain [tcp (str "127.0.0.1") 80] 0], [], none⟩

/-- the redirect routes land in `s1` or in `s2` depending on the order of the inner
    `range app.Servers` (`hasListenerAddress` ignores the host on linux) -/
theorem receiver_old_code_depends_on_order :
    ∃ (c : Config) (P : Params) (π π' : Orders), ¬ SameResult (phase1Result c P π) (phase1Result c P π') := by
  refine ⟨cfgRecv, wP, { Orders.id with recv := fun _ => [1, 2] }, { Orders.id with recv := fun _ => [2, 1] }, fun h => ?_⟩
  exact absurd (h.redir 1 1 0) (by decide)

example : ambRecv cfgRecv = true := by decide

/-! #### one name, two redirect routes -/

/-- one server on :8443 and :443 naming "a.test" -/
def cfgTwoPorts : Config := ⟨0, 0, [site [tcp [] 8443, tcp [] 443]], [], none⟩

/-- same routes, different order: a request for "a.test" is redirected to :8443 or to the
    default port depending on the iteration order of `domainsByAddr` — although the config
    is not `ambiguous` (the set of routes is the same) -/
theorem effective_old_code_depends_on_route_order :
    ∃ (c : Config) (P : Params) (π π' : Orders), ambiguous c = false ∧
      ¬ SameResult (phase1Result c P π) (phase1Result c P π') := by
  refine ⟨cfgTwoPorts, wP, Orders.id, { Orders.id with addr := [tcp [] 443] }, by decide, fun h => ?_⟩
  exact absurd (h.effective 1 1) (by decide)

/-! #### redirect to the right port -/

/-- "a.test" on :9443; a second server on :8443 with TLS connection policies and no names -/
def cfgShadow : Config := ⟨0, 0, [site [tcp [] 9443], ⟨[tcp [] 8443], false, false, false, false, 2, [], [], []⟩], [], none⟩

/-- the sorted key lists of `cfgShadow` (":8443" < ":9443") -/
def κShadow : Orders :=
  ⟨[0, 1], [1], [0, 1], [tcp [] 8443, tcp [] 9443], [tcp [] 80], fun _ => [0, 1], [tcp [] 80]⟩

theorem κShadow_complete : Complete cfgShadow κShadow := by
  refine ⟨?_, ?_, by decide, by decide, by decide, by decide, by decide, by decide⟩
  · intro i hi
    have : i = 0 ∨ i = 1 := by simp [cfgShadow] at hi; omega
    rcases this with rfl | rfl <;> simp [κShadow]
  · intro R i hi
    have : i = 0 ∨ i = 1 := by simp [cfgShadow] at hi; omega
    rcases this with rfl | rfl <;> simp [κShadow]

/-- **redirect to the right port at full strength is false** (1), also with sorted iteration:
    the matcher-less redirect of the name-less TLS server (→ :8443, sorted first) is placed
    before the redirect for "a.test" (→ :9443); "a.test" is sent to a port it is not served on,
    whatever the runtime order of the maps -/
theorem redirect_port_full_fails :
    ∃ (c : Config) (P : Params) (κ : Orders), Complete c κ ∧ ∀ ρ : Orders, ¬ RedirectRight c (serversOf c P (κ.over ρ)) := by
  refine ⟨cfgShadow, wP, κShadow, κShadow_complete, fun ρ h => ?_⟩
  rw [serversOf_over _ _ _ _ κShadow_complete] at h
  obtain ⟨kv, hkv, p, hp, q, hq, hpq⟩ := h (site [tcp [] 9443]) (by simp [cfgShadow]) 1 (by decide)
  have hq8 : q = 9443 := by
    have hm := servedPort_mem hq
    have : ∀ q ∈ (cfgShadow.servers.flatMap fun s => s.listen.map (·.sp)), servedPort cfgShadow 1 q = true → q = 9443 := by
      decide
    exact this q hm hq
  subst hq8
  have hp8 : p = 9443 := by rw [hpq]; decide
  subst hp8
  have : ∀ kv ∈ serversOf cfgShadow wP κShadow, effective 1 kv.2.routes ≠ some 9443 := by decide
  exact this kv hkv hp

/-- "a.test" on :8443 with certificate management disabled; the user's own server on :80 -/
def cfgNoCerts : Config :=
  ⟨0, 0, [⟨[tcp [] 8443], false, false, true, false, 0, [], [], [⟨[[1]]⟩]⟩, plain [tcp [] 80] 0], [], none⟩

/-- **redirect to the right port at full strength is false** (2): when no name of the app has
    a managed certificate, an existing HTTP-port server receives only the catch-all redirect
    (`if len(uniqueDomainsForCerts) != 0`), for every iteration order; "a.test" is sent to the
    default port although it is served on :8443 only -/
theorem redirect_exists_full_fails :
    ∃ (c : Config) (P : Params), ∀ π : Orders, ¬ RedirectRight c (serversOf c P π) := by
  refine ⟨cfgNoCerts, wP, fun π h => ?_⟩
  obtain ⟨kv, hkv, p, hp, q, hq, hpq⟩ :=
    h ⟨[tcp [] 8443], false, false, true, false, 0, [], [], [⟨[[1]]⟩]⟩ (by simp [cfgNoCerts]) 1 (by decide)
  have hq8 : q = 8443 := by
    have hm := servedPort_mem hq
    have : ∀ q ∈ (cfgNoCerts.servers.flatMap fun s => s.listen.map (·.sp)), servedPort cfgNoCerts 1 q = true → q = 8443 := by
      decide
    exact this q hm hq
  subst hq8
  have hp8 : p = 8443 := by rw [hpq]; decide
  subst hp8
  -- no name qualifies, so `allCertDomains` is empty for every iteration order
  have hc : (certsOf cfgNoCerts wP π).isEmpty = true := by
    cases hl : certsOf cfgNoCerts wP π with
    | nil => rfl
    | cons d _ =>
      exfalso
      have hd : d ∈ certsOf cfgNoCerts wP π := by rw [hl]; simp
      have hq := certs_only_qualifying' hd
      have : ∀ d ∈ cfgNoCerts.servers.flatMap allHosts, qualifies cfgNoCerts wP d = false := by decide
      rw [this d (qualifies_mem hq)] at hq; cases hq
  -- … and the only redirect address (:80) has a configured listener
  have honly := only_catchAll_when_no_certs cfgNoCerts wP π hc (by
    intro s hs hr a ha
    refine ⟨plain [tcp [] 80] 0, by simp [cfgNoCerts], ?_⟩
    have : ∀ s ∈ cfgNoCerts.servers, ∀ a ∈ s.listen, hasListener (plain [tcp [] 80] 0).listen (redirAddr cfgNoCerts a) = true := by
      simp [cfgNoCerts, plain, tcp, hasListener, redirAddr, httpPort, defaultHTTPPort]
    exact this s hs a ha)
  -- so a request for "a.test" can only be answered with the default port
  have heff : ∀ rs : List Route, (∀ rt ∈ rs, rt.isRedir = true → rt = catchAllRoute cfgNoCerts) →
      effective 1 rs ≠ some 8443 := by
    intro rs
    induction rs with
    | nil => intro _ h; simp [effective] at h
    | cons r rest ih =>
      intro hall
      have ih' := ih (fun rt hrt => hall rt (List.mem_cons_of_mem _ hrt))
      cases r with
      | user i b => simpa [effective] using ih'
      | redir hs p =>
        have := hall (Route.redir hs p) (by simp) rfl
        simp only [catchAllRoute, Route.redir.injEq] at this
        obtain ⟨rfl, rfl⟩ := this
        simp [effective]; decide
  exact heff kv.2.routes (honly kv hkv) hp

end CaddyModel.C11
