/-
C11 — the small abstract account the property talks about.

1. *Observations* of a phase-1 result.  The canonical answer line of the driver is a
   tabulation of these functions over index sets taken from the CONFIG (names, ports,
   addresses in the order of the case line), never from the result — so two results
   with the same observations print the same line by construction.  The observations
   forget exactly what a Go map iteration order can legitimately permute: the order
   of the hosts inside a redirect route's host matcher, the grouping and order of the
   redirect routes inside one contiguous block, the order of a policy's subjects, of
   `allCertDomains`, and of the listen list of the generated redirect server.
   `effective` is the order-SENSITIVE observation (which redirect a request for a
   name actually gets); it is part of the determinism statement, not of the
   correspondence line.
2. *Spec predicates* of the property: which names qualify, which port a redirect may
   name, which automation policy applies to a name.
-/
import CaddyModel.C11.Model

namespace CaddyModel.C11

/-! ### observations -/

def Route.isRedir : Route → Bool
  | .redir _ _ => true
  | .user _ _ => false

/-- route `r` is a redirect with explicit port `p` whose host matcher lists `d` -/
def Route.redirFor (d : Name) (p : Nat) : Route → Bool
  | .redir (some hs) p' => hs.contains d && decide (p' = p)
  | _ => false

/-- route `r` is a redirect with explicit port `p` and no host matcher -/
def Route.redirAny (p : Nat) : Route → Bool
  | .redir none p' => decide (p' = p)
  | _ => false

/-- some redirect route lists `d` and names port `p` -/
def hasRedir (rs : List Route) (d : Name) (p : Nat) : Bool := rs.any (Route.redirFor d p)

/-- some matcher-less redirect route names port `p` -/
def hasRedirAny (rs : List Route) (p : Nat) : Bool := rs.any (Route.redirAny p)

inductive Tok where
  | u (id : Nat) (hasHost : Bool)
  | r
deriving DecidableEq, Repr

def Route.tok : Route → Tok
  | .user i h => .u i h
  | .redir _ _ => .r

/-- collapse every run of redirect routes into one token -/
def collapse : List Tok → List Tok
  | [] => []
  | .r :: rest =>
    match rest with
    | .r :: _ => collapse rest
    | _ => .r :: collapse rest
  | t :: rest => t :: collapse rest

/-- the user routes in order, with a marker wherever redirect routes sit -/
def skeleton (rs : List Route) : List Tok := collapse (rs.map Route.tok)

/-- the redirect a plain-HTTP request for host `d` gets from the route list: the port of
    the first redirect route that lists `d` or has no host matcher (`none` = no redirect).
    User routes are not consulted (the property speaks of names the HTTP port carries no
    user route for); wildcard patterns cover only themselves. -/
def effective (d : Name) : List Route → Option Nat
  | [] => none
  | .redir none p :: _ => some p
  | .redir (some hs) p :: rest => if hs.contains d then some p else effective d rest
  | .user _ _ :: rest => effective d rest

/-- a route mentions a name outside the table or a port outside the universe -/
def Route.strange (n : Nat) (ports : List Nat) : Route → Bool
  | .redir (some hs) p => hs.any (fun d => decide (n ≤ d)) || !ports.contains p
  | .redir none p => !ports.contains p
  | .user _ _ => false

def insertSorted (x : Nat) : List Nat → List Nat
  | [] => [x]
  | y :: ys => if x < y then x :: y :: ys else if x = y then y :: ys else y :: insertSorted x ys

/-- the explicit ports a redirect can carry in this config, ascending: 0 and every listener start port -/
def portUniverse (c : Config) : List Nat :=
  (c.servers.flatMap fun s => s.listen.map (·.sp)).foldr insertSorted [0]

def dedupAddrs : List Addr → List Addr → List Addr
  | [], acc => acc
  | a :: as, acc => dedupAddrs as (if acc.contains a then acc else acc ++ [a])

/-- every listener address of the config and the redirect address of each, in line order -/
def addrUniverse (c : Config) : List Addr :=
  dedupAddrs ((c.servers.flatMap (·.listen)) ++ (c.servers.flatMap fun s => s.listen.map (redirAddr c))) []

/-! ### what a plain HTTP request gets -/

/-- the answer of the compiled route list to a plain-HTTP request -/
inductive Served where
  | user (id : Nat)      -- the user's route `id` (its terminal handler answers)
  | redir (port : Nat)   -- 308 to `https://{host}[:port]{uri}`, `Connection: close`
  | nothing              -- no route matched: the empty handler
deriving DecidableEq, Repr

/-- user route `id` of a server with routes `us` matches a request for host `d`
    (`none` = a host no pattern matches): it has no host matcher, or one of its host matchers
    (one per matcher set, OR-ed) has a pattern that matches -/
def userMatches (P : Params) (us : List URoute) (id : Nat) (d : Option Name) : Bool :=
  match us[id]? with
  | some r =>
    r.hms.isEmpty ||
    (match d with
     | some d => r.hms.any fun hm => hm.any fun p => P.hm d p
     | none => false)
  | none => false

def routeServes (P : Params) (us : List URoute) (d : Option Name) : Route → Option Served
  | .user id _ => if userMatches P us id d then some (.user id) else none
  | .redir none p => some (.redir p)
  | .redir (some hs) p =>
    match d with
    | some d => if hs.any (fun q => P.hm d q) then some (.redir p) else none
    | none => none

/-- `Server.ServeHTTP` on the route list: the first route whose matchers accept the request
    (user routes end in a terminal handler; redirect routes match protocol http + host list) -/
def serve (P : Params) (us : List URoute) (d : Option Name) : List Route → Served
  | [] => .nothing
  | r :: rs =>
    match routeServes P us d r with
    | some a => a
    | none => serve P us d rs

/-! ### spec predicates -/

/-- `getAutomationPolicyForName`: the first policy without subjects or with a matching one -/
def policyFor (P : Params) (d : Name) : List Policy → Option Policy
  | [] => none
  | p :: ps => if p.subjects.isEmpty || p.subjects.any (fun o => P.mw d o) then some p else policyFor P d ps

/-- the server names `d` in a host matcher and `d` is not in its skip list -/
def hosts (s : Server) (d : Name) : Bool := (allHosts s).contains d && !s.skip.contains d

/-- `d` qualifies for certificate management because of server `s`: the server is not
    disabled, not confined to the HTTP port, manages certificates, names `d`, and `d` is
    a certifiable subject that is neither skipped nor already covered by a loaded certificate -/
def qualifiesOn (c : Config) (P : Params) (s : Server) (d : Name) : Bool :=
  active c s && !s.disableCerts && hosts s d && certOk P s d

def qualifies (c : Config) (P : Params) (d : Name) : Bool := c.servers.any fun s => qualifiesOn c P s d

/-- some policy of the configuration lists `d` verbatim -/
def explicitPolicy (c : Config) (d : Name) : Bool := c.policies.any fun p => p.subjects.contains d

/-- `d` gets a redirect because of server `s` -/
def redirectsOn (c : Config) (s : Server) (d : Name) : Bool :=
  active c s && !s.disableRedir && hosts s d

/-- a port some redirect-enabled server serves `d` on -/
def servedPort (c : Config) (d : Name) (p : Nat) : Bool :=
  c.servers.any fun s => redirectsOn c s d && s.listen.any fun a => decide (a.sp = p)

/-! ### "the same servers, routes and policies" -/

def lookupSrv (k : Nat) : List (Nat × SrvOut) → Option SrvOut
  | [] => none
  | kv :: rest => if kv.1 = k then some kv.2 else lookupSrv k rest

/-- an observation of server `k` of a result (`none` when there is no such server) -/
def obsAt {α} (r : Result) (k : Nat) (f : SrvOut → α) : Option α := (lookupSrv k r.servers).map f

def samePolicy (p p' : Policy) : Prop :=
  p.subjects.Perm p'.subjects ∧ p.issuers = p'.issuers ∧ p.managers = p'.managers

/-- same length, pairwise `samePolicy` -/
def samePolicies : List Policy → List Policy → Prop
  | [], [] => True
  | p :: ps, q :: qs => samePolicy p q ∧ samePolicies ps qs
  | _, _ => False

/-- two provisioning results are the same up to what a map iteration order may legitimately
    permute (order of `allCertDomains`, of a policy's subjects, of the hosts inside a redirect
    route, of the listen list of the generated server, grouping of redirect routes that sit
    next to each other) — and answer every request for a name with the same redirect -/
structure SameResult (r r' : Result) : Prop where
  certs : ∀ d, d ∈ r.certs ↔ d ∈ r'.certs
  policies : samePolicies r.policies r'.policies
  disabled : ∀ k, obsAt r k (·.disabled) = obsAt r' k (·.disabled)
  tls : ∀ k, obsAt r k (·.tls) = obsAt r' k (·.tls)
  listen : ∀ k a, obsAt r k (fun s => s.listen.contains a) = obsAt r' k (fun s => s.listen.contains a)
  skeleton : ∀ k, obsAt r k (fun s => skeleton s.routes) = obsAt r' k (fun s => skeleton s.routes)
  redir : ∀ k d p, obsAt r k (fun s => hasRedir s.routes d p) = obsAt r' k (fun s => hasRedir s.routes d p)
  redirAny : ∀ k p, obsAt r k (fun s => hasRedirAny s.routes p) = obsAt r' k (fun s => hasRedirAny s.routes p)
  effective : ∀ k d, obsAt r k (fun s => effective d s.routes) = obsAt r' k (fun s => effective d s.routes)

/-- the redirect clause at full strength: a request for a redirect-enabled name is answered,
    by some resulting server, with a redirect naming (by the port rule) a port the name is
    served on -/
def RedirectRight (c : Config) (servers : List (Nat × SrvOut)) : Prop :=
  ∀ s ∈ c.servers, ∀ d, redirectsOn c s d = true →
    ∃ kv ∈ servers, ∃ p, effective d kv.2.routes = some p ∧ ∃ q, servedPort c d q = true ∧ p = portRule c q

/-! ### where the result depends on the iteration order of the servers map -/

/-- the server reaches the redirect part of the main loop -/
def redirOn (c : Config) (s : Server) : Bool := engaged c s && !s.disableRedir

/-- the `redirDomains` keys a server contributes: its names, or the catch-all key 0 -/
def keysOf (s : Server) : List Name := if (domainSet s).isEmpty then [0] else domainSet s

def offHTTPS (c : Config) (s : Server) : Bool := s.listen.any fun a => decide (a.sp ≠ httpsPort c)

/-- two redirect-enabled servers contribute key `d`, and one that has names of its own
    listens on a port other than the HTTPS port: whether that listener's address is kept for
    `d` ("prefer the HTTPS port", else first come first served) depends on which server the
    `range app.Servers` loop visits first (DESIGN F16) -/
def ambName (c : Config) (d : Name) : Bool :=
  (indexed c.servers 0).any fun is =>
    redirOn c is.2 && (keysOf is.2).contains d && !(domainSet is.2).isEmpty && offHTTPS c is.2 &&
    (indexed c.servers 0).any fun js => decide (js.1 ≠ is.1) && redirOn c js.2 && (keysOf js.2).contains d

def coversPort (a : Addr) (p : Nat) : Bool := decide (a.sp ≤ p) && decide (p ≤ a.ep)

/-- two servers listen on the HTTP port of the same network: `hasListenerAddress` ignores the
    host on linux, so which of them receives a redirect block depends on the order of the
    inner `range app.Servers` -/
def ambRecv (c : Config) : Bool :=
  (indexed c.servers 0).any fun is => (indexed c.servers 0).any fun js =>
    decide (js.1 ≠ is.1) && is.2.listen.any fun a => js.2.listen.any fun b =>
      decide (a.net = b.net) && coversPort a (httpPort c) && coversPort b (httpPort c)

/-- the decidable exclusion of `deterministic_partial` (and the mask of the correspondence line) -/
def ambiguous (c : Config) : Bool := ambRecv c || (c.servers.flatMap keysOf).any (ambName c)

end CaddyModel.C11
