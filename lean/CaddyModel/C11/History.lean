/-
C11 — histories of loads in one process.  A reload provisions the new config while the old
one is still alive; the process-wide certificate cache then still holds the certificates the
old config loaded by hand.  Phase 1 asks `tlsApp.HasCertificateForSubject(d)` to skip names a
loaded certificate covers: in the code that exists the answer is a function of the config
being provisioned only (the receiver's own `t.loaded` / `t.managing`), and so is the model's
parameter `Params.loaded`.  This file states that as a small process model: the lookup is a
parameter, the code's lookup ignores the process state, a process-wide lookup does not.
-/
import CaddyModel.C11.Model

namespace CaddyModel.C11

/-- one load: the config, its parameters apart from the loaded-certificate lookup, the sorted
    iteration orders, and the names covered by the certificates THIS config loads by hand -/
structure Load where
  cfg : Config
  P : Params
  κ : Orders
  own : List Name

/-- the process state a lookup could consult: what the configs that are still alive loaded -/
structure Proc where
  live : List (List Name)

/-- how `HasCertificateForSubject` answers: from the process state and the own loaded names -/
abbrev Lookup := Proc → List Name → Name → Bool

/-- the code that exists: the receiver's own set only -/
def ownLookup : Lookup := fun _ own d => own.contains d

/-- a process-wide bookkeeping: "some live config loaded a certificate for the name" -/
def sharedLookup : Lookup := fun st own d => own.contains d || st.live.any fun l => l.contains d

/-- provisioning one config in a process state -/
def loadOutcome (lk : Lookup) (st : Proc) (l : Load) : Outcome :=
  phase1 l.cfg { l.P with loaded := lk st l.own } l.κ

/-- a history: every load is provisioned with all earlier ones still alive -/
def runHistory (lk : Lookup) : Proc → List Load → List Outcome
  | _, [] => []
  | st, l :: rest => loadOutcome lk st l :: runHistory lk ⟨l.own :: st.live⟩ rest

end CaddyModel.C11
