/-
C11 — theorems about the Caddyfile side (`Caddyfile.lean`) composed with phase 1: what the
global option `auto_https` and the scheme / port of a site address mean for "which names get
certificate management", end to end from the Caddyfile.
-/
import CaddyModel.C11.Caddyfile
import CaddyModel.C11.Lemmas

namespace CaddyModel.C11

theorem mem_insertSorted {x y : Nat} : ∀ {l : List Nat}, x ∈ insertSorted y l ↔ x = y ∨ x ∈ l
  | [] => by simp [insertSorted]
  | z :: zs => by
    unfold insertSorted
    split
    · simp
    · split
      · rename_i h; subst h; simp
      · simp only [List.mem_cons, mem_insertSorted (l := zs)]
        constructor
        · rintro (h | h | h)
          · exact Or.inr (Or.inl h)
          · exact Or.inl h
          · exact Or.inr (Or.inr h)
        · rintro (h | h | h)
          · exact Or.inr (Or.inl h)
          · exact Or.inl h
          · exact Or.inr (Or.inr h)

theorem mem_foldr_insertSorted {x : Nat} : ∀ {l : List Nat}, x ∈ l.foldr insertSorted [] ↔ x ∈ l
  | [] => by simp
  | y :: ys => by simp [List.foldr_cons, mem_insertSorted, mem_foldr_insertSorted (l := ys)]

theorem adapt_servers {cf : CF} {pols : List Policy} {c : Config} (h : adaptWith cf pols = some c) :
    c.servers = (cfPorts cf).map (cfServer cf) ∧ httpPort c = cf.httpPort ∧ c.policies = pols := by
  unfold adaptWith at h
  split at h
  · cases h
  · cases h; exact ⟨rfl, rfl, rfl⟩

theorem cfServer_mem {cf : CF} {pols : List Policy} {c : Config} (h : adaptWith cf pols = some c) {t : Site} (ht : t ∈ cf.sites) :
    cfServer cf (sitePort cf t) ∈ c.servers := by
  rw [(adapt_servers h).1]
  apply List.mem_map.mpr
  exact ⟨_, mem_foldr_insertSorted.mpr (List.mem_map.mpr ⟨t, ht, rfl⟩), rfl⟩

theorem mem_allHosts_cfServer {cf : CF} {p : Nat} {d : Name} :
    d ∈ allHosts (cfServer cf p) ↔ ∃ t ∈ cf.sites, sitePort cf t = p ∧ t.name = d ∧ d ≠ 0 := by
  simp only [allHosts, cfServer, List.mem_flatMap, List.mem_map, sitesOn, List.mem_filter, decide_eq_true_eq]
  constructor
  · rintro ⟨r, ⟨t, ⟨ht, hp⟩, rfl⟩, hd⟩
    unfold cfRoute at hd
    split at hd
    · simp at hd
    · rename_i hn
      simp at hd
      exact ⟨t, ht, hp, hd.symm, by rw [hd]; exact hn⟩
  · rintro ⟨t, ht, hp, rfl, hn⟩
    refine ⟨cfRoute t, ⟨t, ⟨ht, hp⟩, rfl⟩, ?_⟩
    simp [cfRoute, hn]

theorem mem_cfSkip {cf : CF} {p : Nat} {d : Name} :
    d ∈ cfSkip cf p ↔ p ≠ cf.httpPort ∧ ∃ t ∈ cf.sites, sitePort cf t = p ∧ t.scheme = 1 ∧ t.name = d ∧ d ≠ 0 := by
  unfold cfSkip
  split
  · rename_i h; simp [h]
  · rename_i h
    have key : ∀ (l : List Site) (acc : List Name), d ∈ l.foldl (fun acc s => addSet acc s.name) acc ↔
        d ∈ acc ∨ ∃ t ∈ l, t.name = d := by
      intro l
      induction l with
      | nil => intro acc; simp
      | cons t l ih =>
        intro acc
        simp only [List.foldl_cons, ih, mem_addSet, List.mem_cons]
        constructor
        · rintro ((h1 | h1) | ⟨t', h1, h2⟩)
          · exact Or.inl h1
          · exact Or.inr ⟨t, Or.inl rfl, h1.symm⟩
          · exact Or.inr ⟨t', Or.inr h1, h2⟩
        · rintro (h1 | ⟨t', rfl | h1, h2⟩)
          · exact Or.inl (Or.inl h1)
          · exact Or.inl (Or.inr h2.symm)
          · exact Or.inr ⟨t', h1, h2⟩
    rw [key]
    simp only [List.not_mem_nil, false_or, sitesOn, List.mem_filter, decide_eq_true_eq, Bool.and_eq_true, ne_eq]
    constructor
    · rintro ⟨t, ⟨⟨ht, hp⟩, hs, hn⟩, rfl⟩
      exact ⟨h, t, ht, hp, hs, rfl, hn⟩
    · rintro ⟨_, t, ht, hp, hs, rfl, hn⟩
      exact ⟨t, ⟨⟨ht, hp⟩, hs, hn⟩, rfl⟩

/-- **`auto_https off` switches certificate management off altogether**: whatever the sites and
    whatever automation policies the adapter emits for them (`pols`),
    no name is handed to certificate management, for every iteration order -/
theorem cf_off_manages_nothing (cf : CF) (pols : List Policy) (c : Config) (P : Params) (π : Orders)
    (h : adaptWith cf pols = some c)
    (hoff : cf.off = true) (d : Name) : d ∉ certsOf c P π := by
  intro hd
  have hq := certs_only_qualifying' hd
  simp only [qualifies, List.any_eq_true, qualifiesOn, Bool.and_eq_true] at hq
  obtain ⟨s, hs, ⟨⟨⟨ha, _⟩, _⟩, _⟩⟩ := hq
  rw [(adapt_servers h).1] at hs
  obtain ⟨p, _, rfl⟩ := List.mem_map.mp hs
  simp [active, cfServer, hoff] at ha

example : adapt ⟨0, 0, true, false, false, false, [⟨0, 1, 0, false⟩]⟩ ≠ none := by decide

/-- **a named site qualifies, end to end from the Caddyfile**: a site address with a host, not
    written with `http://`, on a port other than the HTTP port, with `auto_https` neither `off`
    nor `disable_certs`, and without an `http://` twin of the same host on the same port, makes
    its name qualify (so `coverage` applies: it is managed and a policy applies to it) —
    provided the name is a certifiable subject without a loaded certificate (or
    `ignore_loaded_certs` is set) -/
theorem cf_named_site_qualifies (cf : CF) (pols : List Policy) (c : Config) (P : Params)
    (h : adaptWith cf pols = some c)
    {t : Site} (ht : t ∈ cf.sites) (hn : t.name ≠ 0) (hport : sitePort cf t ≠ cf.httpPort)
    (hoff : cf.off = false) (hdc : cf.disableCerts = false)
    (htwin : ∀ u ∈ cf.sites, sitePort cf u = sitePort cf t → u.scheme = 1 → u.name ≠ t.name)
    (hq : P.q t.name = true) (hl : P.loaded t.name = false ∨ cf.ignoreLoaded = true) :
    qualifies c P t.name = true := by
  simp only [qualifies, List.any_eq_true]
  refine ⟨cfServer cf (sitePort cf t), cfServer_mem h ht, ?_⟩
  have hhosts : hosts (cfServer cf (sitePort cf t)) t.name = true := by
    simp only [hosts, Bool.and_eq_true, Bool.not_eq_true']
    constructor
    · have : t.name ∈ allHosts (cfServer cf (sitePort cf t)) := mem_allHosts_cfServer.mpr ⟨t, ht, rfl, rfl, hn⟩
      simpa using this
    · have : t.name ∉ (cfServer cf (sitePort cf t)).skip := by
        intro hin
        obtain ⟨_, u, hu, hp, hs, hname, _⟩ := (mem_cfSkip (cf := cf)).mp hin
        exact htwin u hu hp hs hname
      simpa using this
  simp only [qualifiesOn, Bool.and_eq_true, hhosts, and_true]
  refine ⟨⟨?_, ?_⟩, ?_⟩
  · simp [active, cfServer, hoff, usesOther, (adapt_servers h).2.1]
    omega
  · simp [cfServer, hdc]
  · simp only [certOk, cfServer, hq, Bool.true_and]
    rcases hl with hl | hl <;> simp [hl]

example : qualifies ⟨0, 0, [cfServer ⟨0, 0, false, false, false, false, [⟨0, 1, 0, false⟩, ⟨1, 2, 0, false⟩]⟩ 443], [], none⟩
    { q := fun d => d == 1, pub := fun d => d == 1, ip := fun _ => false, internal := fun _ => false,
      loaded := fun _ => false, ts := fun _ => false, mw := fun a b => a == b, hm := fun a b => a == b } 1 = true := by
  decide

/-- **names written only with `http://` are never managed** (issue 2998): if every site address
    naming `d` carries the `http://` scheme, `d` does not qualify — its server listens only on
    the HTTP port, or `d` is put on the server's skip list -/
theorem cf_http_only_name_not_managed (cf : CF) (pols : List Policy) (c : Config) (P : Params) (π : Orders)
    (h : adaptWith cf pols = some c)
    (d : Name) (hall : ∀ t ∈ cf.sites, t.name = d → t.scheme = 1) : d ∉ certsOf c P π := by
  intro hd
  have hq := certs_only_qualifying' hd
  simp only [qualifies, List.any_eq_true, qualifiesOn, Bool.and_eq_true] at hq
  obtain ⟨s, hs, ⟨⟨⟨ha, _⟩, hh⟩, _⟩⟩ := hq
  rw [(adapt_servers h).1] at hs
  obtain ⟨p, _, rfl⟩ := List.mem_map.mp hs
  simp only [hosts, Bool.and_eq_true, Bool.not_eq_true'] at hh
  obtain ⟨hin, hskip⟩ := hh
  have hin' : d ∈ allHosts (cfServer cf p) := by simpa using hin
  obtain ⟨t, ht, hp, hname, hd0⟩ := mem_allHosts_cfServer.mp hin'
  have hsch := hall t ht hname
  by_cases hpp : p = cf.httpPort
  · -- the server listens only on the HTTP port
    simp [active, cfServer, usesOther, (adapt_servers h).2.1, hpp] at ha
  · have : d ∈ (cfServer cf p).skip := (mem_cfSkip (cf := cf)).mpr ⟨hpp, t, ht, hp, hsch, hname, hd0⟩
    have : (cfServer cf p).skip.contains d = true := by simpa using this
    rw [this] at hskip; cases hskip

example : adapt ⟨0, 0, false, false, false, false, [⟨1, 1, 8080, false⟩, ⟨0, 2, 8080, true⟩]⟩ ≠ none := by decide

end CaddyModel.C11
