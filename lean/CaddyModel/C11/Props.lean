import CaddyModel.C11.Lemmas
