/-
C11 — property theorems (kept apart from the helper lemmas).

Statement: for every HTTP app configuration, each hostname named in a host matcher of a
server that is not confined to the HTTP port, and not excluded by the skip settings, gets
certificate management (an applicable automation policy, with the internal issuer for
names no public CA can certify) and, where the HTTP port carries no user route for it, an
HTTP to HTTPS redirect to the right port; servers confined to the HTTP port get neither.
The resulting servers, routes and policies are the same every time the same configuration
is provisioned.

Every theorem quantifies over ALL configurations, ALL values of the certmagic predicates
(`Params`) and ALL iteration orders `π : Orders` of the Go maps phase 1 ranges over.
Clauses the unchanged tree violates are proved false in `Witness.lean` (`…_full_fails`)
and proved here under an explicit decidable exclusion (`…_partial`).
-/
import CaddyModel.C11.Lemmas
import CaddyModel.C11.Witness
import CaddyModel.C11.CaddyfileProps
import CaddyModel.C11.NamesProps
import CaddyModel.Gen.Glue
import CaddyModel.C11.History
import CaddyModel.Gen.Consts

namespace CaddyModel.C11

/-! ### a small configuration used by the `example`s -/

/-- names: 0 = "", 1 = a public name, 2 = a local name, 3 = a tailscale name -/
def exP : Params :=
  { q := fun d => d == 1 || d == 2 || d == 3, pub := fun d => d == 1 || d == 3, ip := fun _ => false,
    internal := fun d => d == 2, loaded := fun _ => false, ts := fun d => d == 3, mw := fun a b => a == b,
    hm := fun a b => a == b }

def exTcp (p : Nat) : Addr := ⟨0, [], p, p⟩

/-- `s0` serves names 1 2 3 on :8443; `s1` is the user's own HTTP server on :80 with a
    host route for name 1 and a catch-all -/
def exCfg : Config :=
  ⟨0, 0,
   [⟨[exTcp 8443], false, false, false, false, 0, [], [], [⟨[[1, 2]]⟩, ⟨[[3]]⟩]⟩,
    ⟨[exTcp 80], false, false, false, false, 0, [], [], [⟨[[1]]⟩, ⟨[]⟩]⟩],
   [], none⟩

/-! ### certificates -/

/-- **coverage.** Every name that qualifies (named by a server that is not disabled and not
    confined to the HTTP port, not skipped, a certifiable subject without a loaded
    certificate) is handed to certificate management and some automation policy applies to
    it — or it is a tailscale name no explicit policy lists, and then it sits in an implicit
    policy with the tailscale certificate manager.  For every iteration order. -/
theorem coverage (c : Config) (P : Params) (π : Orders) (d : Name) (h : qualifies c P d = true) :
    (d ∈ certsOf c P π ∧ (policyFor P d (policiesOf c P π)).isSome = true) ∨
    (P.ts d = true ∧ explicitPolicy c d = false ∧ ∃ p ∈ policiesOf c P π, d ∈ p.subjects ∧ 0 < p.managers) := by
  by_cases ht : explicitPolicy c d = false ∧ P.ts d = true
  · right
    refine ⟨ht.2, ht.1, ?_⟩
    have hd : d ∈ (loopB P c.policies π (mainLoop c P π).1).tailscale :=
      (mem_tailscaleOf c P π d).mpr ⟨h, ht.1, ht.2⟩
    refine ⟨⟨(loopB P c.policies π (mainLoop c P π).1).tailscale, [],
      (baseOf (((loopB P c.policies π (mainLoop c P π).1).pols).map fillDefault)).managers + 1⟩, ?_, hd, by simp⟩
    unfold policiesOf createPolicies withTailscale
    have hne : (loopB P c.policies π (mainLoop c P π).1).tailscale.isEmpty = false := by
      cases hl : (loopB P c.policies π (mainLoop c P π).1).tailscale with
      | nil => rw [hl] at hd; simp at hd
      | cons => rfl
    simp only [hne, Bool.false_eq_true, if_false]
    exact mem_addPolicy.mpr (Or.inl rfl)
  · left
    exact ⟨(mem_certsOf c P π d).mpr ⟨h, ht⟩,
      policyFor_isSome_of_catchAll (createPolicies_has_catchAll P _ _ _)⟩

example : qualifies exCfg exP 1 = true ∧ qualifies exCfg exP 3 = true := by decide

/-- no name is managed that does not qualify (in particular: nothing that only disabled or
    HTTP-port-only servers name, nothing skipped, nothing with a loaded certificate) -/
theorem certs_only_qualifying (c : Config) (P : Params) (π : Orders) (d : Name) (h : d ∈ certsOf c P π) :
    qualifies c P d = true :=
  ((mem_certsOf c P π d).mp h).1

example : 2 ∈ certsOf exCfg exP Orders.id := by decide

/-- **internal issuer.** A managed name that no public CA can certify and that no explicit
    policy lists resolves (`getAutomationPolicyForName`) to a policy whose only issuer is the
    internal one.  Hypotheses on certmagic: `MatchWildcard d d`, and a tailscale subject
    never matches a non-tailscale name. -/
theorem internal_issuer_for_nonpublic (c : Config) (P : Params) (π : Orders) (d : Name)
    (hd : d ∈ certsOf c P π) (hpub : P.pub d = false) (hexp : explicitPolicy c d = false)
    (hrefl : P.mw d d = true) (hts : ∀ o, P.ts o = true → P.mw d o = false) :
    ∃ p, policyFor P d (policiesOf c P π) = some p ∧ p.issuers = [Issuer.internal] ∧ d ∈ p.subjects := by
  obtain ⟨hq, hnt⟩ := (mem_certsOf c P π d).mp hd
  have htsd : P.ts d = false := by
    cases h : P.ts d with
    | false => rfl
    | true => exact absurd ⟨hexp, h⟩ hnt
  have hin : d ∈ (loopB P c.policies π (mainLoop c P π).1).internal :=
    (mem_internalOf c P π d).mpr ⟨hq, hexp, htsd, Or.inl hpub⟩
  have hne : (loopB P c.policies π (mainLoop c P π).1).internal.isEmpty = false := by
    cases hl : (loopB P c.policies π (mainLoop c P π).1).internal with
    | nil => rw [hl] at hin; simp at hin
    | cons => rfl
  refine ⟨⟨(loopB P c.policies π (mainLoop c P π).1).internal, [Issuer.internal],
    (baseOf (((loopB P c.policies π (mainLoop c P π).1).pols).map fillDefault)).managers⟩, ?_, rfl, hin⟩
  unfold policiesOf createPolicies
  have hint : ∀ pols, policyFor P d (withInternal P (baseOf (((loopB P c.policies π (mainLoop c P π).1).pols).map fillDefault))
      (loopB P c.policies π (mainLoop c P π).1).internal pols) =
      some ⟨(loopB P c.policies π (mainLoop c P π).1).internal, [Issuer.internal],
        (baseOf (((loopB P c.policies π (mainLoop c P π).1).pols).map fillDefault)).managers⟩ := by
    intro pols
    unfold withInternal
    simp only [hne, Bool.false_eq_true, if_false]
    exact policyFor_addPolicy_self hin hrefl pols
  unfold withTailscale
  split
  · exact hint _
  · rename_i htl
    rw [policyFor_addPolicy_other]
    · exact hint _
    · simp only [admits, Bool.or_eq_false_iff, List.any_eq_false]
      refine ⟨by simpa using htl, ?_⟩
      intro o ho
      have := ((mem_tailscaleOf c P π o).mp ho).2.2
      simp [hts o this]

example : 2 ∈ certsOf exCfg exP Orders.id ∧ exP.pub 2 = false ∧ explicitPolicy exCfg 2 = false := by decide

/-- names: 1 = "wiki.h.internal", 2 = "localhost", 3 = "*.h.internal" (matches name 1 only) -/
def wildP : Params :=
  { q := fun d => d == 1 || d == 2 || d == 3, pub := fun _ => false, ip := fun _ => false,
    internal := fun _ => true, loaded := fun _ => false, ts := fun _ => false,
    mw := fun a b => a == b || (a == 1 && b == 3), hm := fun a b => a == b || (a == 1 && b == 3) }

/-- the user has a policy for the wildcard `*.h.internal` with the public ACME issuer; the
    server names `wiki.h.internal` (covered by it) and `localhost` (not covered) -/
def wildCfg : Config :=
  ⟨0, 0, [⟨[exTcp 443], false, false, false, false, 0, [], [], [⟨[[1]]⟩, ⟨[[2]]⟩]⟩],
   [⟨[3], [Issuer.acme], 0⟩], none⟩

/-- the instance of `internal_issuer_for_nonpublic` the seeded change
    `C11-internal-policy-after-user-wildcard` breaks: the implicit internal policy is placed in
    front of the user's partially covering wildcard policy, so the covered name resolves to it -/
example : 1 ∈ certsOf wildCfg wildP Orders.id ∧ wildP.pub 1 = false ∧ explicitPolicy wildCfg 1 = false ∧
    policiesOf wildCfg wildP Orders.id =
      [⟨[1, 2], [Issuer.internal], 0⟩, ⟨[3], [Issuer.acme], 0⟩, ⟨[], [Issuer.acme], 0⟩] ∧
    policyFor wildP 1 (policiesOf wildCfg wildP Orders.id) = some ⟨[1, 2], [Issuer.internal], 0⟩ := by decide

/-- **internal issuer, with certmagic's real predicates**: the same statement for the
    parameters computed from the name STRINGS by the byte-level models of `Names.lean`
    (`SubjectQualifiesForPublicCert`, `MatchWildcard`, `isTailscaleDomain`, …) — the two
    hypotheses about certmagic are now theorems over all byte strings
    (`matchWildcard_refl`, `tailscale_pattern_matches_tailscale_only`).  What remains a
    parameter: the loaded-certificate lookup and the HTTP host matcher (neither is used here). -/
theorem internal_issuer_for_nonpublic_real (c : Config) (names : List Bytes) (loaded : Name → Bool)
    (hm : Name → Name → Bool) (π : Orders) (d : Name) (hlt : d < names.length)
    (hd : d ∈ certsOf c (realParams names loaded hm) π)
    (hpub : qualifiesForPublic names[d] = false) (hexp : explicitPolicy c d = false) :
    ∃ p, policyFor (realParams names loaded hm) d (policiesOf c (realParams names loaded hm) π) = some p ∧
      p.issuers = [Issuer.internal] ∧ d ∈ p.subjects := by
  have hget : names[d]? = some names[d] := by simp [hlt]
  have htsd : (realParams names loaded hm).ts d = false := by
    have := ((mem_certsOf c _ π d).mp hd).2
    cases h : (realParams names loaded hm).ts d with
    | false => rfl
    | true => exact absurd ⟨hexp, h⟩ this
  apply internal_issuer_for_nonpublic c _ π d hd
  · simp [realParams, hget, hpub]
  · exact hexp
  · exact realParams_mw_refl names loaded hm d hlt
  · intro o hto
    cases hmw : (realParams names loaded hm).mw d o with
    | false => rfl
    | true =>
      exfalso
      simp only [realParams, hget] at hmw hto htsd
      cases ho : names[o]? with
      | none => simp [ho] at hmw
      | some t =>
        simp only [ho] at hmw hto
        have := tailscale_pattern_matches_tailscale_only names[d] t hmw hto
        rw [this] at htsd; cases htsd

example : qualifiesForPublic (str "wiki.h.internal") = false ∧ matchWildcard (str "wiki.h.internal") (str "*.h.internal") = true ∧
    isTailscale (str "wiki.h.internal") = false := by decide

/-- **the user's explicit choice of issuers survives automatic HTTPS** (the consumer side of the
    TLS app's policy list: `getAutomationPolicyForName` after phase 1).  If, in the configured
    policies — as written in JSON, or as `buildTLSApp` emits them for `tls internal`, `tls
    <issuer>` … in a Caddyfile — the first policy that admits `d` is `p` and `p` names issuers,
    then after phase 1 `d` resolves to `p` itself or to the implicit internal-issuer policy:
    marking, default issuers, the base policy, the implicit internal and tailscale policies
    never put a policy with OTHER issuers in front of it.  (`hts`: a tailscale subject does not
    match `d`, e.g. by `tailscale_pattern_matches_tailscale_only` when `d` is no tailscale name.) -/
theorem explicit_issuer_choice_survives (c : Config) (P : Params) (π : Orders) (d : Name) (p : Policy)
    (hp : policyFor P d c.policies = some p) (hiss : p.issuers ≠ [])
    (hts : ∀ o, P.ts o = true → P.mw d o = false) :
    policyFor P d (policiesOf c P π) = some p ∨
    ∃ q, policyFor P d (policiesOf c P π) = some q ∧ q.issuers = [Issuer.internal] := by
  -- after the loop over uniqueDomainsForCerts
  have h1 : policyFor P d (loopB P c.policies π (mainLoop c P π).1).pols = some p := by
    unfold loopB
    rw [(loopB_closed P c.policies _ _ rfl).1]
    exact policyFor_markRel hiss (markIf_foldl_rel P c.policies _ _) hp
  have h2 := policyFor_map_fillDefault (P := P) (d := d) hiss h1
  unfold policiesOf createPolicies
  generalize (loopB P c.policies π (mainLoop c P π).1).pols = pols at h2
  -- base policy
  have h3 : policyFor P d (withBase P (pols.map fillDefault)) = some p := by
    unfold withBase
    split
    · exact h2
    · rw [policyFor_addBase _ (by rw [h2]; rfl)]; exact h2
  -- implicit internal policy
  have h4 : ∀ il : List Name,
      policyFor P d (withInternal P (baseOf (pols.map fillDefault)) il (withBase P (pols.map fillDefault))) = some p ∨
      ∃ q, policyFor P d (withInternal P (baseOf (pols.map fillDefault)) il (withBase P (pols.map fillDefault))) = some q ∧
        q.issuers = [Issuer.internal] := by
    intro il
    unfold withInternal
    split
    · exact Or.inl h3
    · rcases policyFor_addPolicy_cases (P := P) (d := d)
        (ap := ⟨il, [Issuer.internal], (baseOf (pols.map fillDefault)).managers⟩) (withBase P (pols.map fillDefault)) with ⟨_, h⟩ | h
      · exact Or.inr ⟨_, h, rfl⟩
      · exact Or.inl (by rw [h, h3])
  -- implicit tailscale policy: it does not admit `d`
  unfold withTailscale
  split
  · exact h4 _
  · rename_i htl
    rw [policyFor_addPolicy_other]
    · exact h4 _
    · simp only [admits, Bool.or_eq_false_iff, List.any_eq_false]
      refine ⟨by simpa using htl, ?_⟩
      intro o ho
      have := ((mem_tailscaleOf c P π o).mp ho).2.2
      simp [hts o this]

example : policyFor exP 1 [⟨[1], [Issuer.internal], 0⟩] = some ⟨[1], [Issuer.internal], 0⟩ := by decide

/-- **what a server contributes depends on that server alone**: if server `s` makes `d`
    qualify in one configuration, `d` qualifies in every configuration with the same HTTP port
    that contains `s` — whatever the other servers and THEIR skip lists are (the seeded change
    `C11-skip-set-shared-across-servers` shares one skip set between the servers) -/
theorem skip_is_per_server (c c' : Config) (P : Params) (s : Server) (d : Name)
    (hport : httpPort c = httpPort c') (hs' : s ∈ c'.servers) (h : qualifiesOn c P s d = true) :
    qualifies c' P d = true := by
  simp only [qualifies, List.any_eq_true]
  refine ⟨s, hs', ?_⟩
  simpa [qualifiesOn, active, hport] using h

example : qualifiesOn exCfg exP ⟨[exTcp 8443], false, false, false, false, 0, [], [], [⟨[[1, 2]]⟩, ⟨[[3]]⟩]⟩ 1 = true := by decide

/-! ### servers confined to the HTTP port (or disabled) -/

/-- **HTTP-only servers get neither.** A server that is disabled or listens only on the HTTP
    port keeps its TLS connection policies (none are added) and is marked disabled; a name
    that only such servers name is neither managed nor listed by any redirect route.
    (`d ≠ 0`: name 0 is the empty string, the code's key for the catch-all redirect.) -/
theorem http_only_server_gets_nothing (c : Config) (P : Params) (π : Orders) (hres : c.reserved = none) :
    (∀ s ∈ c.servers, active c s = false →
      ∃ kv ∈ serversOf c P π, kv.2.listen = s.listen ∧ kv.2.tls = s.tls ∧
        kv.2.disabled = (s.disabled || !usesOther s.listen (httpPort c)) ∧
        ∀ rt ∈ userRoutes s.routes 0, rt ∈ kv.2.routes) ∧
    (∀ d, d ≠ 0 → (∀ s ∈ c.servers, hosts s d = true → active c s = false) →
      d ∉ certsOf c P π ∧ ∀ kv ∈ serversOf c P π, ∀ rt ∈ kv.2.routes, rt.lists d = false) := by
  constructor
  · intro s hs ha
    have inv := loopF_inv c (!(certsOf c P π).isEmpty) π (rsOf c P π)
    obtain ⟨i, hi⟩ := exists_indexed 0 (List.mem_map.mpr ⟨s, hs, rfl⟩ : srvInit c s ∈ c.servers.map (srvInit c))
    obtain ⟨y, hy, hrel⟩ := inv.bwd (i, srvInit c s) hi
    refine ⟨y, ?_, hrel.listen, ?_, hrel.disabled, hrel.mono⟩
    · change y ∈ finalServers c π _
      unfold finalServers
      split
      · exact hy
      · rw [hres]; exact List.mem_append.mpr (Or.inl hy)
    · rw [hrel.tls]
      simp [srvInit, tlsOut, ha]
  · intro d hd0 hall
    constructor
    · intro hin
      have hq := certs_only_qualifying c P π d hin
      simp only [qualifies, List.any_eq_true, qualifiesOn, Bool.and_eq_true] at hq
      obtain ⟨s, hs, ⟨⟨⟨ha, _⟩, hh⟩, _⟩⟩ := hq
      rw [hall s hs hh] at ha; cases ha
    · intro kv hkv rt hrt
      cases hl : rt.lists d with
      | false => rfl
      | true =>
        exfalso
        have hred : rt.isRedir = true := by
          cases rt with
          | user => simp [Route.lists] at hl
          | redir => rfl
        rcases serversOf_redir_sound c P π hkv hrt hred with h | ⟨R, h⟩
        · rw [h] at hl; simp [catchAllRoute, Route.lists] at hl
        · obtain ⟨a, doms, _, h2, _, h4⟩ := rsOf_sound c P π h
          rw [h2] at hl
          obtain ⟨s, hs, hr, hk, _⟩ := h4 d (mkRedirRoute_lists hl)
          rcases mem_keysOf_cases.mp hk with ⟨_, h0⟩ | ⟨_, hds⟩
          · exact hd0 h0
          · have := hall s hs (hosts_iff.mpr hds)
            rw [active_of_engaged (redirOn_iff.mp hr).1] at this; cases this

example : active exCfg ⟨[exTcp 80], false, false, false, false, 0, [], [], [⟨[[1]]⟩, ⟨[]⟩]⟩ = false := by decide

/-! ### redirects -/

/-- **port rule.** Every redirect route of every resulting server either names no port, or
    names the start port of a listener of a redirect-enabled server — and never 80, 443, the
    configured HTTP port or the configured HTTPS port. -/
theorem redirect_port_rule (c : Config) (P : Params) (π : Orders) {kv : Nat × SrvOut} {rt : Route}
    (hkv : kv ∈ serversOf c P π) (hrt : rt ∈ kv.2.routes) (hred : rt.isRedir = true) :
    rt.port = 0 ∨
    (rt.port ≠ httpPort c ∧ rt.port ≠ httpsPort c ∧ rt.port ≠ 80 ∧ rt.port ≠ 443 ∧
      ∃ s ∈ c.servers, redirOn c s = true ∧ ∃ a ∈ s.listen, a.sp = rt.port) := by
  rcases serversOf_redir_sound c P π hkv hrt hred with h | ⟨R, h⟩
  · left; rw [h]; simp [catchAllRoute, Route.port, portRule]
  · obtain ⟨a, doms, _, h2, h3, h4⟩ := rsOf_sound c P π h
    rw [h2, mkRedirRoute_port]
    unfold portRule
    split
    · rename_i hp
      right
      refine ⟨hp.1, hp.2.1, hp.2.2.1, hp.2.2.2, ?_⟩
      cases doms with
      | nil => exact absurd rfl h3
      | cons d _ =>
        obtain ⟨s, hs, hr, _, ha⟩ := h4 d (by simp)
        exact ⟨s, hs, hr, a, ha, rfl⟩
    · exact Or.inl rfl

example : ∃ kv ∈ serversOf exCfg exP Orders.id, ∃ rt ∈ kv.2.routes, rt.isRedir = true ∧ rt.port = 8443 := by decide

theorem redirOn_of_redirectsOn {c : Config} {s : Server} {d : Name} (h : redirectsOn c s d = true) :
    redirOn c s = true ∧ d ∈ keysOf s := by
  simp only [redirectsOn, Bool.and_eq_true, Bool.not_eq_true'] at h
  obtain ⟨⟨ha, hr⟩, hh⟩ := h
  have hd := hosts_iff.mp hh
  refine ⟨redirOn_iff.mpr ⟨by rw [engaged_of_mem_domainSet hd]; exact ha, hr⟩, ?_⟩
  refine mem_keysOf_cases.mpr (Or.inr ⟨?_, hd⟩)
  cases hl : domainSet s with
  | nil => rw [hl] at hd; simp at hd
  | cons => rfl

/-- **redirect exists** (the provable part; the full clause is `Witness.redirect_exists_full_fails`).
    If server `s` is not disabled, not confined to the HTTP port, has redirects enabled and
    names `d` (not skipped), then some resulting server that listens on the HTTP port of the
    network/host of a listener `a` of a redirect-enabled server naming `d` holds a redirect
    route that covers `d` (lists it, or has no host matcher) and names `a`'s port by the port
    rule.  Exclusions: no user server carries the reserved name of the generated redirect
    server, and either some name has a managed certificate or no configured server listens on
    any redirect address (the `len(uniqueDomainsForCerts) != 0` test of issue 4829). -/
theorem redirect_exists_partial (c : Config) (P : Params) (π : Orders) (hres : c.reserved = none)
    {s : Server} {d : Name} (hs : s ∈ c.servers) (h : redirectsOn c s d = true)
    (hins : (certsOf c P π).isEmpty = false ∨
      ∀ s' ∈ c.servers, ∀ a, hasListener s'.listen (redirAddr c a) = false) :
    ∃ a, (∃ s' ∈ c.servers, redirOn c s' = true ∧ d ∈ keysOf s' ∧ a ∈ s'.listen) ∧
      ∃ kv ∈ serversOf c P π, hasListener kv.2.listen (redirAddr c a) = true ∧
        ∃ rt ∈ kv.2.routes, rt.isRedir = true ∧ rt.covers d = true ∧ rt.port = portRule c a.sp := by
  obtain ⟨hr, hk⟩ := redirOn_of_redirectsOn h
  obtain ⟨a, doms, hmem, hd, hsrc⟩ := rsOf_complete c P π hs hr hk
  refine ⟨a, hsrc, ?_⟩
  have hins' : (certsOf c P π).isEmpty = false ∨ ∀ s' ∈ c.servers, hasListener s'.listen (redirAddr c a) = false := by
    rcases hins with h | h
    · exact Or.inl h
    · exact Or.inr (fun s' hs' => h s' hs' a)
  obtain ⟨kv, hkv, hl, hin⟩ := serversOf_redir_complete c P π hres hmem hins'
  exact ⟨kv, hkv, hl, _, hin, mkRedirRoute_isRedir, mkRedirRoute_covers hd, mkRedirRoute_port⟩

example : redirectsOn exCfg ⟨[exTcp 8443], false, false, false, false, 0, [], [], [⟨[[1, 2]]⟩, ⟨[[3]]⟩]⟩ 2 = true ∧
    (certsOf exCfg exP Orders.id).isEmpty = false := by decide

/-- **every interface on the HTTPS port gets its redirect** (the `bind` case, upstream issue
    3443; what the seeded change `C11-redirdomains-overwrite` breaks).  For EVERY listener `a`
    on the HTTPS port of a redirect-enabled server naming `d` — not just for one of them — some
    resulting server that listens on `a`'s interface at the HTTP port holds a redirect route
    covering `d`, without an explicit port.  Same exclusions as `redirect_exists_partial`. -/
theorem redirect_on_every_https_interface (c : Config) (P : Params) (π : Orders) (hres : c.reserved = none)
    {s : Server} {d : Name} {a : Addr} (hs : s ∈ c.servers) (h : redirectsOn c s d = true)
    (ha : a ∈ s.listen) (hp : a.sp = httpsPort c)
    (hins : (certsOf c P π).isEmpty = false ∨ ∀ s' ∈ c.servers, hasListener s'.listen (redirAddr c a) = false) :
    ∃ kv ∈ serversOf c P π, hasListener kv.2.listen (redirAddr c a) = true ∧
      ∃ rt ∈ kv.2.routes, rt.isRedir = true ∧ rt.covers d = true ∧ rt.port = 0 := by
  obtain ⟨hr, hk⟩ := redirOn_of_redirectsOn h
  obtain ⟨i, hi⟩ := exists_indexed 0 hs
  have hmem : assocMem (mainLoop c P π).2 d a := by
    unfold mainLoop
    exact mainLoop_keeps_https c P (ks := (i, s)) (mem_pull.mpr hi) hr hk ha hp
  obtain ⟨doms, hm, hdm⟩ := (mem_domainsByAddr (π := π)).mpr hmem
  have hrs : assocMem (rsOf c P π) (redirAddr c a) (mkRedirRoute c a doms) :=
    (mem_redirServers c π _).mpr ⟨(a, doms), hm, rfl, rfl⟩
  obtain ⟨kv, hkv, hl, hin⟩ := serversOf_redir_complete c P π hres hrs hins
  refine ⟨kv, hkv, hl, _, hin, mkRedirRoute_isRedir, mkRedirRoute_covers hdm, ?_⟩
  rw [mkRedirRoute_port, hp]
  simp [portRule]

example : redirectsOn ⟨0, 0, [⟨[exTcp 443, ⟨0, [49], 443, 443⟩], false, false, false, false, 0, [], [], [⟨[[1]]⟩]⟩], [], none⟩
    ⟨[exTcp 443, ⟨0, [49], 443, 443⟩], false, false, false, false, 0, [], [], [⟨[[1]]⟩]⟩ 1 = true := by decide

/-- **position of the inserted redirects.** In every configured server of the result the
    route list is: the user routes up to and including the last one with a host matcher (none
    if no user route has one), then redirect routes, then the remaining user routes — none of
    which has a host matcher — then redirect routes (the appended catch-alls).  So the
    redirects sit after every host-matcher route and before the user's catch-all routes. -/
theorem redirect_position (c : Config) (P : Params) (π : Orders) (hres : c.reserved = none)
    {kv : Nat × SrvOut} (hkv : kv ∈ serversOf c P π) (hk : kv.1 < c.servers.length) :
    ∃ s ∈ c.servers, ∃ mid cs,
      kv.2.routes = (userRoutes s.routes 0).take (findLast (userRoutes s.routes 0)) ++ mid ++
        (userRoutes s.routes 0).drop (findLast (userRoutes s.routes 0)) ++ cs ∧
      (∀ r ∈ mid, r.isRedir = true) ∧ (∀ r ∈ cs, r.isRedir = true) ∧
      (∀ r ∈ (userRoutes s.routes 0).drop (findLast (userRoutes s.routes 0)), r.hasHost = false) := by
  obtain ⟨s, hs, mid, cs, h1, h2, h3⟩ := serversOf_shaped c P π hres hkv hk
  exact ⟨s, hs, mid, cs, h1, h2, h3, (findLast_spec _).2⟩

example : ∃ kv ∈ serversOf exCfg exP Orders.id, kv.1 = 1 ∧
    kv.2.routes = [Route.user 0 true, Route.redir (some [1, 2, 3]) 8443, Route.user 1 false, Route.redir none 0] := by
  decide

/-! ### what a plain HTTP request gets -/

/-- **a served redirect obeys the port rule**: whenever the route list of a resulting server
    answers a plain-HTTP request (for any host, known or not) with a redirect, the redirect
    names no port or the start port of a listener of a redirect-enabled server — never 80, 443,
    the HTTP or the HTTPS port -/
theorem served_redirect_port_rule (c : Config) (P : Params) (π : Orders) {kv : Nat × SrvOut}
    (hkv : kv ∈ serversOf c P π) (us : List URoute) (d : Option Name) (p : Nat)
    (h : serve P us d kv.2.routes = Served.redir p) :
    p = 0 ∨ (p ≠ httpPort c ∧ p ≠ httpsPort c ∧ p ≠ 80 ∧ p ≠ 443 ∧
      ∃ s ∈ c.servers, redirOn c s = true ∧ ∃ a ∈ s.listen, a.sp = p) := by
  obtain ⟨hs, hm⟩ := serve_redir_mem h
  exact redirect_port_rule c P π hkv hm rfl

example : ∃ kv ∈ serversOf exCfg exP Orders.id, serve exP [⟨[[1]]⟩, ⟨[]⟩] (some 2) kv.2.routes = Served.redir 8443 := by
  decide

/-- **where the HTTP port carries a user route for a name, that route answers**: in every
    configured server of the result, if one of the user's routes WITH a host matcher matches a
    request for `d`, the request is answered by a user route — the inserted redirects never
    get in front of it -/
theorem user_host_route_answers (c : Config) (P : Params) (π : Orders) (hres : c.reserved = none)
    {kv : Nat × SrvOut} (hkv : kv ∈ serversOf c P π) (hk : kv.1 < c.servers.length) :
    ∃ s ∈ c.servers, ∀ (id : Nat) (r : URoute) (d : Name), s.routes[id]? = some r → r.hms.isEmpty = false →
      userMatches P s.routes id (some d) = true →
      ∃ id', serve P s.routes (some d) kv.2.routes = Served.user id' := by
  obtain ⟨s, hs, mid, cs, he, _, _⟩ := serversOf_shaped c P π hres hkv hk
  refine ⟨s, hs, ?_⟩
  intro id r d hget hne hmatch
  -- the matching route sits in the prefix of user routes before the inserted redirects
  have hmem : Route.user id true ∈ userRoutes s.routes 0 := by
    have := userRoutes_mem_of_get (n := 0) hget
    simpa [hne] using this
  have hsplit := List.take_append_drop (findLast (userRoutes s.routes 0)) (userRoutes s.routes 0)
  have hin : Route.user id true ∈ (userRoutes s.routes 0).take (findLast (userRoutes s.routes 0)) := by
    rw [← hsplit] at hmem
    rcases List.mem_append.mp hmem with h | h
    · exact h
    · have := (findLast_spec (userRoutes s.routes 0)).2 _ h
      simp [Route.hasHost] at this
  have hserves : ∃ rt ∈ (userRoutes s.routes 0).take (findLast (userRoutes s.routes 0)),
      (routeServes P s.routes (some d) rt).isSome = true :=
    ⟨_, hin, by simp [routeServes, hmatch]⟩
  rw [he, List.append_assoc, List.append_assoc, serve_append_left hserves]
  obtain ⟨rt, hrt, hrs⟩ := serve_eq_of_mem hserves
  obtain ⟨id', r', hrt', _, _⟩ := mem_userRoutes (List.mem_of_mem_take hrt)
  rw [hrt'] at hrs
  simp only [routeServes] at hrs
  split at hrs
  · exact ⟨id', by simpa using hrs.symm⟩
  · simp at hrs

example : ∃ kv ∈ serversOf exCfg exP Orders.id, kv.1 = 1 ∧
    serve exP [⟨[[1]]⟩, ⟨[]⟩] (some 1) kv.2.routes = Served.user 0 ∧
    serve exP [⟨[[1]]⟩, ⟨[]⟩] (some 2) kv.2.routes = Served.redir 8443 ∧
    serve exP [⟨[[1]]⟩, ⟨[]⟩] none kv.2.routes = Served.user 1 := by decide

/-- **what the redirect matcher depended on before it was provisioned** (old code: `MatchHost(domains)`
    built by phase 1 and never provisioned; for more than `Gen.matchHostLargeThreshold` names its
    lookup is a binary search that is only correct on a list in MatchHost's own sort order).  What
    phase 1 guaranteed instead — and still does: `domains` is in the order `redirDomains` is ranged
    in (byte-wise sorted, `sorted_ranges_matches_source`).  Since the fix "provision the host matcher
    of the automatic HTTP->HTTPS redirect route" the matcher is de-duplicated and provisioned
    (`mkRedirRoute`), so nothing depends on this order any more; the statement stays as the record
    of the old dependency (seeded change
    `C11-matchhost-order-breaks-unprovisioned-redirect-matcher` broke exactly it and is harmless
    now). -/
theorem redirect_hosts_sorted_old_code_dependency (R : Name → Name → Prop) (π : Orders) (rd : RD)
    (h : ((pull π.dom rd).map (·.1)).Pairwise R) :
    ∀ ad ∈ domainsByAddr π rd, ad.2.Pairwise (fun x y => R x y ∨ x = y) :=
  redirect_hosts_follow_iteration_order R π rd h

example : ∀ ad ∈ domainsByAddr { Orders.id with dom := [1, 2, 3] } (mainLoop exCfg exP Orders.id).2,
    ad.2.Pairwise (fun x y => x < y ∨ x = y) := by decide

/-- **phase 1 runs before anything else of `App.Provision`** (regenerated: the first of the
    tracked calls) — the routes it inserts are provisioned with the user's, and the TLS app it
    asks for (`ctx.App("tls")`) is provisioned on demand before it -/
theorem phase1_runs_first_matches_source : Gen.httpProvisionOrder.head? = some "automaticHTTPSPhase1" := by decide

/-- the Caddyfile global options the `cf` stream drives are registered under these names -/
theorem auto_https_options_registered_match_source :
    ["auto_https", "http_port", "https_port"].all Gen.registeredGlobalOptions.contains = true := by decide

/-- the large-list threshold the big-server cases of the harness are sized for -/
theorem large_host_list_threshold_matches_source : Gen.matchHostLargeThreshold = some 100 := by decide

/-! ### the same result every time -/

/-- every listener of every redirect-enabled server that contributes key `d` starts at port `p₀`
    (the name is served on one port only) -/
def singlePort (c : Config) (d : Name) (p₀ : Nat) : Bool :=
  c.servers.all fun s => !(redirOn c s && (keysOf s).contains d) || s.listen.all fun a => decide (a.sp = p₀)

/-- a name served on a single port is redirected to that port by every redirect route that
    lists it, in every server, for every iteration order -/
theorem redirect_port_deterministic (c : Config) (P : Params) (π : Orders) (d : Name) (p₀ : Nat)
    (h : singlePort c d p₀ = true) {kv : Nat × SrvOut} {rt : Route}
    (hkv : kv ∈ serversOf c P π) (hrt : rt ∈ kv.2.routes) (hl : rt.lists d = true) :
    rt.port = portRule c p₀ := by
  have hred : rt.isRedir = true := by
    cases rt with
    | user => simp [Route.lists] at hl
    | redir => rfl
  rcases serversOf_redir_sound c P π hkv hrt hred with h' | ⟨R, h'⟩
  · rw [h'] at hl; simp [catchAllRoute, Route.lists] at hl
  · obtain ⟨a, doms, _, h2, _, h4⟩ := rsOf_sound c P π h'
    rw [h2] at hl ⊢
    obtain ⟨s, hs, hr, hk, ha⟩ := h4 d (mkRedirRoute_lists hl)
    simp only [singlePort, List.all_eq_true, Bool.or_eq_true, Bool.not_eq_true', Bool.and_eq_false_iff,
      decide_eq_true_eq] at h
    rcases h s hs with (h1 | h1) | h1
    · rw [hr] at h1; cases h1
    · have : (keysOf s).contains d = true := by simpa using hk
      rw [this] at h1; cases h1
    · rw [mkRedirRoute_port, h1 a ha]

/-
**Determinism, full statement** (false on the unchanged tree — `Witness.deterministic_old_code_fails`,
`Witness.receiver_old_code_depends_on_order`, `Witness.effective_old_code_depends_on_route_order`):

    ∀ c P π π', SameResult (phase1Result c P π) (phase1Result c P π')
-/

/-- **DESIGN F16, the positive side.** For a key `d` that is not `ambName` (it is NOT the case
    that two redirect-enabled servers contribute `d` and one with names of its own listens off
    the HTTPS port) the set of listener addresses kept in `redirDomains[d]` — the addresses the
    redirect routes for `d` are built from, one route per address (`mem_domainsByAddr`,
    `mem_redirServers`) — is the same for every iteration order of the servers map: it is what
    each contributing server keeps on its own (`keep`). -/
theorem redirect_sources_deterministic (c : Config) (P : Params) (π π' : Orders) (d : Name)
    (h : ambName c d = false) (a : Addr) :
    (assocMem (mainLoop c P π).2 d a ↔ assocMem (mainLoop c P π').2 d a) ∧
    (assocMem (domainsByAddr π (mainLoop c P π).2) a d ↔ assocMem (domainsByAddr π' (mainLoop c P π').2) a d) := by
  have h1 : assocMem (mainLoop c P π).2 d a ↔ assocMem (mainLoop c P π').2 d a := by
    rw [redirDomains_col c P π d h a, redirDomains_col c P π' d h a]
  exact ⟨h1, by rw [mem_domainsByAddr, mem_domainsByAddr]; exact h1⟩

example : ambName exCfg 2 = false ∧ ambName cfgF16 1 = true := by decide

/-- **what never depended on the iteration orders** (a statement about the model with
    arbitrary orders, i.e. also about the code before the repair), for ALL configurations and
    ALL pairs of iteration orders: (1) `allCertDomains` is the same set; (2) the automation policies are the same list
    up to the order of the subjects inside the implicit internal / tailscale policies;
    (3) every configured server keeps its listeners and gets the same `Disabled` flag and the
    same TLS-connection-policy state; (4) every name that is served on one port only (the
    decidable exclusion `singlePort`) is redirected to that port by every redirect route that
    lists it; (5) for every key that is not `ambName` (the decidable exclusion that carves out
    DESIGN F16) the redirect routes are built from the same set of listener addresses.
    NOT covered by a theorem: that placement (which server receives a block, `ambRecv`), the
    relative order of the redirect routes and hence `effective` coincide for configurations
    with `ambiguous c = false` — that part is carried by the correspondence stream and the
    repeated-provision oracle only. -/
theorem old_code_order_independent_part (c : Config) (P : Params) (π π' : Orders) :
    (∀ d, d ∈ (phase1Result c P π).certs ↔ d ∈ (phase1Result c P π').certs) ∧
    samePolicies (phase1Result c P π).policies (phase1Result c P π').policies ∧
    (c.reserved = none → ∀ k, k < c.servers.length →
      obsAt (phase1Result c P π) k flagsOf = obsAt (phase1Result c P π') k flagsOf) ∧
    (∀ d p₀, singlePort c d p₀ = true →
      ∀ r, (r = phase1Result c P π ∨ r = phase1Result c P π') →
        ∀ kv ∈ r.servers, ∀ rt ∈ kv.2.routes, rt.lists d = true → rt.port = portRule c p₀) ∧
    (∀ d, ambName c d = false → ∀ a,
      assocMem (domainsByAddr π (mainLoop c P π).2) a d ↔ assocMem (domainsByAddr π' (mainLoop c P π').2) a d) := by
  refine ⟨?_, policies_same c P π π', ?_, ?_, ?_⟩
  · intro d
    change d ∈ certsOf c P π ↔ d ∈ certsOf c P π'
    rw [mem_certsOf, mem_certsOf]
  · intro hres k hk
    have : ∃ s, c.servers[k]? = some s := ⟨c.servers[k], by simp [hk]⟩
    obtain ⟨s, hs⟩ := this
    rw [server_flags c P π hres k s hs, server_flags c P π' hres k s hs]
  · intro d p₀ h r hr kv hkv rt hrt hl
    rcases hr with rfl | rfl
    · exact redirect_port_deterministic c P π d p₀ h hkv hrt hl
    · exact redirect_port_deterministic c P π' d p₀ h hkv hrt hl
  · intro d h a
    exact (redirect_sources_deterministic c P π π' d h a).2

example : singlePort exCfg 2 8443 = true ∧ ambiguous exCfg = false := by decide

/-- **determinism, at full strength, of the repaired code.**  Every `range` of phase 1 runs
    over `slices.Sorted(maps.Keys(m))`: with `κ` the sorted key lists (naming every key the
    maps can hold — `Complete`) and `ρ`, `ρ'` any two runtime iteration orders of the maps,
    provisioning yields the SAME outcome: the same error, or structurally the same
    `allCertDomains`, automation policies, servers and route lists.  (For the code before the
    repair, whose orders are arbitrary, this is false: `Witness.deterministic_old_code_fails`.) -/
theorem deterministic (c : Config) (P : Params) (κ ρ ρ' : Orders) (h : Complete c κ) :
    phase1 c P (κ.over ρ) = phase1 c P (κ.over ρ') ∧
    certsOf c P (κ.over ρ) = certsOf c P (κ.over ρ') ∧
    policiesOf c P (κ.over ρ) = policiesOf c P (κ.over ρ') ∧
    serversOf c P (κ.over ρ) = serversOf c P (κ.over ρ') := by
  refine ⟨?_, ?_, ?_, ?_⟩
  · rw [phase1_over c P κ ρ h, phase1_over c P κ ρ' h]
  · rw [certsOf_over c P κ ρ h, certsOf_over c P κ ρ' h]
  · rw [policiesOf_over c P κ ρ h, policiesOf_over c P κ ρ' h]
  · rw [serversOf_over c P κ ρ h, serversOf_over c P κ ρ' h]

/-! ### histories of loads in one process -/

/-- a load on its own, in a fresh process -/
def freshOutcome (l : Load) : Outcome := loadOutcome ownLookup ⟨[]⟩ l

/-- **history independence.** With the lookup of the code that exists (`HasCertificateForSubject`
    reads the receiver's own loaded / managed sets), provisioning a config after ANY history of
    earlier loads that are still alive gives exactly what provisioning it in a fresh process
    gives — so loading the same config twice gives the same result, whatever came in between
    (determinism across reloads), and a name qualifies by its own config alone (coverage). -/
theorem history_independent (st : Proc) (l : Load) : loadOutcome ownLookup st l = freshOutcome l := rfl

/-- … for whole histories: every load of a history is answered as if it were the only one -/
theorem history_independent_all : ∀ (st : Proc) (h : List Load),
    runHistory ownLookup st h = h.map freshOutcome
  | _, [] => rfl
  | st, l :: rest => by
    simp only [runHistory, List.map_cons, history_independent]
    rw [history_independent_all _ rest]

/-- names: 1 = "n.test" -/
def histP : Params :=
  { q := fun d => d == 1, pub := fun d => d == 1, ip := fun _ => false, internal := fun _ => false,
    loaded := fun _ => false, ts := fun _ => false, mw := fun a b => a == b, hm := fun a b => a == b }

/-- config A hand-loads a certificate for name 1 and serves nothing; config B names it on :443 -/
def histA : Load := ⟨⟨0, 0, [], [], none⟩, histP, Orders.id, [1]⟩
def histB : Load := ⟨⟨0, 0, [⟨[exTcp 443], false, false, false, false, 0, [], [], [⟨[[1]]⟩]⟩], [], none⟩, histP, Orders.id, []⟩

def outcomeCerts : Outcome → List Name
  | .ok r => r.certs
  | _ => []

/-- **a process-wide "some live config loaded it" lookup breaks history independence** (the seeded
    change `C11-loaded-cert-count-shared-across-configs`): after A, config B no longer manages
    name 1 although B loads no certificate for it; in a fresh process it does -/
theorem shared_lookup_breaks_history_independence :
    ∃ (h : List Load) (l : Load), (runHistory sharedLookup ⟨[]⟩ (h ++ [l])).getLast? ≠ some (freshOutcome l) ∧
      outcomeCerts (freshOutcome l) = [1] ∧
      ((runHistory sharedLookup ⟨[]⟩ (h ++ [l])).getLast?.map outcomeCerts) = some [] := by
  refine ⟨[histA], histB, ?_, by decide, by decide⟩
  intro h
  have : ((runHistory sharedLookup ⟨[]⟩ ([histA] ++ [histB])).getLast?.map outcomeCerts) = some [] := by decide
  rw [h] at this
  revert this
  decide

example : runHistory ownLookup ⟨[]⟩ [histA, histB, histB] = [freshOutcome histA, freshOutcome histB, freshOutcome histB] :=
  history_independent_all _ _

/-- a row of the regenerated fact `Gen.autoHTTPSRanges`: (kind, origin, effects of the loop body, callees in it) —
    every iteration of a map in code reachable from `automaticHTTPSPhase1` (helpers and closures of package
    caddyhttp included), recognised by go/types and by data flow through parameters, not by variable names -/
abbrev RangeRow := String × String × List String × List String

/-- the maps whose iteration order the model exposes as an `Orders` field (`Orders.over` sorts their keys),
    by origin and type: the servers, the certificate names, the redirect domains, the names by address, the
    redirect servers by address -/
def orderedMaps : List String :=
  ["field App.Servers : map[string]*Server", "var : map[string]struct{}", "var : map[string][]caddy.NetworkAddress",
   "var : map[string][]string", "var : map[string][]Route"]

/-- callees that read only (certmagic / strings / slices predicates, the loaded-certificate lookup, the
    configured HTTPS port) or log -/
def readOnlyCalls : List String :=
  ["(*caddytls.TLS).HasCertificateForSubject", "(*zap.Logger).Info", "(*zap.Logger).Warn", "(*zap.Logger).Debug",
   "certmagic.SubjectQualifiesForCert", "slices.Contains", "strings.Contains", "strings.Count", "strings.Trim",
   "strings.ToLower", "zap.String", "(*caddyhttp.App).httpsPort"]

/-- a loop body whose result cannot depend on the order of the keys: per-key writes into a map (`keyed`:
    set inserts, per-key appends) and the collection of the keys into a slice whose only other use is as the
    argument of `TLS.RegisterServerNames` (which inserts every element into a set), calling read-only functions -/
def orderFree (r : RangeRow) : Bool :=
  (r.2.2.1.all fun e => e == "keyed" || e == "append>arg:(*caddytls.TLS).RegisterServerNames") &&
  r.2.2.2.all readOnlyCalls.contains

/-- the one direct map iteration left whose body is not order-free: `MatcherSets.FromInterface` (routes.go,
    reached through `ProvisionMatchers`) appends the decoded matchers of ONE matcher set in the random order of
    the module map. The matchers of a set are AND-ed and phase 1 reads every `*MatchHost` of a set whatever
    its position (model: a matcher set = its host names), so only the matcher index inside an error text
    (not compared) depends on it. Pinned literally: a second such loop breaks the theorem. -/
def matcherSetRow : RangeRow := ("map", "var : map[string]any", ["append>use", "return"], ["fmt.Errorf"])

/-- what `deterministic` assumes about the source, as a predicate over the regenerated rows: every iteration
    of a map reachable from phase 1 goes through `slices.Sorted(maps.Keys(m))`, or is a direct range with an
    order-free body (or the matcher-set row); no bare `maps.Keys/Values/All` iterator and no range over another
    iterator function; and every map the model gives an order to is ranged through sorted keys (the set-typed
    one twice: certificate names and redirect server addresses) -/
def sortedRangesOK (rows : List RangeRow) : Bool :=
  (rows.all fun r => r.1 == "sortedkeys" || (r.1 == "map" && (orderFree r || r == matcherSetRow))) &&
  (orderedMaps.all fun m => rows.contains ("sortedkeys", m, [], [])) &&
  decide (2 ≤ rows.count ("sortedkeys", "var : map[string]struct{}", [], [])) &&
  decide (rows.count matcherSetRow ≤ 1)

/-- **the source iterates its maps over sorted keys** (regenerated from /repo on every run by
    tools/extract/c11ranges.go: `Gen.autoHTTPSRanges`): the premise under which `Orders.over` with a complete
    `κ` — and therefore `deterministic` — is the model of the code.  Reverting the repair
    "automatic HTTPS phase 1 iterates its maps in sorted key order" breaks this theorem; moving loops of
    phase 1 into helpers of the package or renaming locals does not (harmless/C11-refactor). -/
theorem sorted_ranges_matches_source : sortedRangesOK Gen.autoHTTPSRanges = true := by decide

/-- the predicate rejects the code before the repair (the certificate names ranged directly: the body fills the
    two name slices handed to `createAutomationPolicies`), and a bare `maps.Keys` iterator -/
example : sortedRangesOK [("sortedkeys", "field App.Servers : map[string]*Server", [], []),
    ("map", "var : map[string]struct{}", ["append>arg:(*caddyhttp.App).createAutomationPolicies", "assign", "continue-label", "keyed", "return"],
      ["(*caddytls.AutomationPolicy).Subjects", "certmagic.SubjectIsIP"]),
    ("sortedkeys", "var : map[string][]caddy.NetworkAddress", [], []), ("sortedkeys", "var : map[string][]string", [], []),
    ("sortedkeys", "var : map[string][]Route", [], []), ("sortedkeys", "var : map[string]struct{}", [], []),
    ("sortedkeys", "var : map[string]struct{}", [], [])] = false := by decide

example : sortedRangesOK (("mapseq", "var : map[string][]string", ["keyed"], []) :: Gen.autoHTTPSRanges) = false := by decide

/-- … and a loop over a set that calls something not known to be read-only -/
example : orderFree ("map", "var : map[string]struct{}", ["keyed"], ["(*caddytls.TLS).AddAutomationPolicy"]) = false := by decide

/-- the predicate does not depend on where the loops stand (harmless/C11-refactor moves two of them into helpers) -/
example : sortedRangesOK Gen.autoHTTPSRanges.reverse = true := by decide

example : Complete cfgShadow κShadow := κShadow_complete

/-- with complete sorted keys the F16 configuration has one outcome, whatever the runtime order -/
example : Complete cfgF16 ⟨[0, 1], [1], [0, 1], [tcp [] 8443, tcp [] 9443], [tcp [] 80], fun _ => [0, 1], [tcp [] 80]⟩ := by
  refine ⟨?_, ?_, by decide, by decide, by decide, by decide, by decide, by decide⟩
  · intro i hi
    have : i = 0 ∨ i = 1 := by simp [cfgF16] at hi; omega
    rcases this with rfl | rfl <;> simp
  · intro R i hi
    have : i = 0 ∨ i = 1 := by simp [cfgF16] at hi; omega
    rcases this with rfl | rfl <;> simp

end CaddyModel.C11
