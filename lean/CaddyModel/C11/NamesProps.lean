/-
C11 — theorems about the byte-level name predicates (`Names.lean`), over ALL byte strings,
and the phase-1 theorems instantiated with them (no certmagic value is a free parameter any
more except the loaded-certificate lookup and the HTTP host matcher).
-/
import CaddyModel.C11.Names
import CaddyModel.C11.Lemmas

namespace CaddyModel.C11

/-- `MatchWildcard(s, s)` for every string -/
theorem matchWildcard_refl (s : Bytes) : matchWildcard s s = true := by
  simp [matchWildcard]

/-- a subject that qualifies for a public certificate qualifies for a certificate -/
theorem public_implies_cert (s : Bytes) (h : qualifiesForPublic s = true) : qualifiesForCert s = true := by
  simp only [qualifiesForPublic, Bool.and_eq_true] at h
  exact h.1.1

/-- no internal subject qualifies for a public certificate -/
theorem internal_not_public (s : Bytes) (h : isInternal s = true) : qualifiesForPublic s = false := by
  simp [qualifiesForPublic, h]

/-- localhost and every name under `.localhost`, `.local`, `.internal`, `.home.arpa` (written
    in any case, with or without a trailing dot or a port) is internal — hence never public -/
theorem local_suffix_internal (s : Bytes)
    (h : internalKey s = str "localhost" ∨ hasSuffixB (str ".localhost") (internalKey s) = true ∨
      hasSuffixB (str ".local") (internalKey s) = true ∨ hasSuffixB (str ".internal") (internalKey s) = true ∨
      hasSuffixB (str ".home.arpa") (internalKey s) = true) :
    isInternal s = true ∧ qualifiesForPublic s = false := by
  have hi : isInternal s = true := by
    unfold isInternal
    rcases h with h | h | h | h | h <;> simp [h]
  exact ⟨hi, internal_not_public s hi⟩

example : isInternal (str "App.LocalHost.") = true ∧ isInternal (str "h.internal:8443") = true ∧
    isInternal (str "10.1.2.3") = true ∧ isInternal (str "::ffff:192.168.0.1") = true ∧ isInternal (str "fe80::1") = true ∧
    isInternal (str "8.8.8.8") = false ∧ isInternal (str "172.32.0.1") = false ∧ isInternal (str "internal.example.com") = false := by
  decide

/-- every private IPv4 address of the CIDR list is internal, for all octets -/
theorem private_v4_internal (a b c d : Nat)
    (h : a = 127 ∨ (a = 0 ∧ b = 0) ∨ a = 10 ∨ (a = 172 ∧ 16 ≤ b ∧ b ≤ 31) ∨ (a = 192 ∧ b = 168) ∨ (a = 169 ∧ b = 254)) :
    inPrivateNet ([0, 0, 0, 0, 0, 0, 0, 0, 0, 0, 255, 255] ++ [a, b, c, d]) = true := by
  simp only [inPrivateNet, to4, List.take, List.drop, List.cons_append, List.nil_append, if_true]
  rcases h with h | ⟨h1, h2⟩ | h | ⟨h1, h2, h3⟩ | ⟨h1, h2⟩ | ⟨h1, h2⟩ <;> simp_all <;> omega

/-- the parameters of the phase-1 model computed from the name strings -/
def realParams (names : List Bytes) (loaded : Name → Bool) (hm : Name → Name → Bool) : Params :=
  { q := fun d => match names[d]? with | some s => qualifiesForCert s | none => false
    pub := fun d => match names[d]? with | some s => qualifiesForPublic s | none => false
    ip := fun d => match names[d]? with | some s => isIP s | none => false
    internal := fun d => match names[d]? with | some s => isInternal s | none => false
    loaded := loaded
    ts := fun d => match names[d]? with | some s => isTailscale s | none => false
    mw := fun d e => match names[d]?, names[e]? with | some s, some t => matchWildcard s t | _, _ => false
    hm := hm }

theorem realParams_mw_refl (names : List Bytes) (loaded : Name → Bool) (hm : Name → Name → Bool) (d : Name)
    (hd : d < names.length) : (realParams names loaded hm).mw d d = true := by
  have : names[d]? = some names[d] := by simp [hd]
  simp [realParams, this, matchWildcard_refl]


/-! ### a tailscale pattern matches tailscale names only -/

open CaddyModel.C10 (splitAux splitOn joinWith)

theorem splitAux_append' (c : UInt8) (b : Bytes) : ∀ (a acc : Bytes),
    splitAux c (a ++ c :: b) acc = splitAux c a acc ++ splitAux c b []
  | [], acc => by simp [splitAux]
  | x :: a, acc => by
    by_cases hx : x = c
    · simp [splitAux, hx, splitAux_append' c b a []]
    · simp [splitAux, hx, splitAux_append' c b a (x :: acc)]

theorem splitOn_append_sep (c : UInt8) (a b : Bytes) : splitOn c (a ++ c :: b) = splitOn c a ++ splitOn c b := by
  unfold splitOn; exact splitAux_append' c b a []

theorem splitAux_free (c : UInt8) : ∀ (s acc : Bytes), c ∉ s → splitAux c s acc = [acc.reverse ++ s]
  | [], acc, _ => by simp [splitAux]
  | x :: s, acc, h => by
    have hx : x ≠ c := fun e => h (by simp [e])
    have hs : c ∉ s := fun e => h (by simp [e])
    simp [splitAux, hx, splitAux_free c s (x :: acc) hs]

theorem splitOn_free (c : UInt8) (s : Bytes) (h : c ∉ s) : splitOn c s = [s] := by
  unfold splitOn; simpa using splitAux_free c s [] h

theorem mem_splitAux_free (c : UInt8) : ∀ (s acc : Bytes), c ∉ acc → ∀ l ∈ splitAux c s acc, c ∉ l
  | [], acc, hacc, l, hl => by
    simp [splitAux] at hl; subst hl; simpa using hacc
  | x :: s, acc, hacc, l, hl => by
    unfold splitAux at hl
    split at hl
    · rcases List.mem_cons.mp hl with h | h
      · subst h; simpa using hacc
      · exact mem_splitAux_free c s [] (by simp) l h
    · rename_i hx
      refine mem_splitAux_free c s (x :: acc) ?_ l hl
      intro h
      rcases List.mem_cons.mp h with h | h
      · exact hx h.symm
      · exact hacc h

theorem mem_splitOn_free (c : UInt8) (s : Bytes) : ∀ l ∈ splitOn c s, c ∉ l :=
  mem_splitAux_free c s [] (by simp)

theorem splitAux_ne_nil (c : UInt8) : ∀ (s acc : Bytes), splitAux c s acc ≠ []
  | [], _ => by simp [splitAux]
  | x :: s, acc => by
    unfold splitAux
    split
    · simp
    · exact splitAux_ne_nil c s _

theorem joinWith_cons_of_ne_nil (sep x : Bytes) {l : List Bytes} (h : l ≠ []) :
    joinWith sep (x :: l) = x ++ sep ++ joinWith sep l := by
  cases l with
  | nil => exact absurd rfl h
  | cons y ys => rfl

theorem join_splitAux (c : UInt8) : ∀ (s acc : Bytes), joinWith [c] (splitAux c s acc) = acc.reverse ++ s
  | [], acc => by simp [splitAux, joinWith]
  | x :: s, acc => by
    unfold splitAux
    split
    · rename_i hx
      rw [joinWith_cons_of_ne_nil _ _ (splitAux_ne_nil c s []), join_splitAux c s []]
      simp [hx]
    · rw [join_splitAux c s (x :: acc)]; simp

theorem join_splitOn (c : UInt8) (s : Bytes) : joinWith [c] (splitOn c s) = s := by
  unfold splitOn; simpa using join_splitAux c s []

theorem splitOn_join (c : UInt8) : ∀ (L : List Bytes), L ≠ [] → (∀ l ∈ L, c ∉ l) → splitOn c (joinWith [c] L) = L
  | [], h, _ => absurd rfl h
  | [x], _, hf => by simpa [joinWith] using splitOn_free c x (hf x (by simp))
  | x :: y :: rest, _, hf => by
    rw [joinWith_cons_of_ne_nil _ _ (by simp)]
    have : x ++ [c] ++ joinWith [c] (y :: rest) = x ++ c :: joinWith [c] (y :: rest) := by simp
    rw [this, splitOn_append_sep, splitOn_free c x (hf x (by simp)),
      splitOn_join c (y :: rest) (by simp) (fun l hl => hf l (List.mem_cons_of_mem _ hl))]
    rfl

theorem joinWith_append_two (c : UInt8) (x y : Bytes) : ∀ (A : List Bytes), A ≠ [] →
    joinWith [c] (A ++ [x, y]) = joinWith [c] A ++ [c] ++ x ++ [c] ++ y
  | [], h => absurd rfl h
  | [a], _ => by simp [joinWith]
  | a :: b :: rest, _ => by
    have ih := joinWith_append_two c x y (b :: rest) (by simp)
    have e1 : a :: b :: rest ++ [x, y] = a :: ((b :: rest) ++ [x, y]) := rfl
    rw [e1, joinWith_cons_of_ne_nil [c] a (l := (b :: rest) ++ [x, y]) (by simp), ih,
      joinWith_cons_of_ne_nil [c] a (l := b :: rest) (by simp)]
    simp [List.append_assoc]

/-- `L'` is `L` with some labels replaced by `*` -/
def StarRel : List Bytes → List Bytes → Prop
  | [], [] => True
  | a :: L, b :: L' => (b = a ∨ b = [star]) ∧ StarRel L L'
  | _, _ => False

theorem StarRel.refl : ∀ L : List Bytes, StarRel L L
  | [] => trivial
  | a :: L => ⟨Or.inl rfl, StarRel.refl L⟩

theorem StarRel.append {A A' B B' : List Bytes} (h1 : StarRel A A') (h2 : StarRel B B') : StarRel (A ++ B) (A' ++ B') := by
  induction A generalizing A' with
  | nil => cases A' with
    | nil => simpa using h2
    | cons => cases h1
  | cons a A ih => cases A' with
    | nil => cases h1
    | cons a' A' => exact ⟨h1.1, ih h1.2⟩

/-- decomposition at the last two labels -/
theorem StarRel.split_two {u v : Bytes} : ∀ {L P : List Bytes}, StarRel L (P ++ [u, v]) →
    ∃ A x y, L = A ++ [x, y] ∧ A.length = P.length ∧ (u = x ∨ u = [star]) ∧ (v = y ∨ v = [star])
  | [], [], h => by cases h
  | [_], [], h => by cases h.2
  | [x, y], [], h => ⟨[], x, y, rfl, rfl, h.1, h.2.1⟩
  | _ :: _ :: _ :: _, [], h => by cases h.2.2
  | [], _ :: _, h => by cases h
  | a :: L, p :: P, h => by
    obtain ⟨A, x, y, h1, h2, h3, h4⟩ := StarRel.split_two (L := L) (P := P) h.2
    exact ⟨a :: A, x, y, by simp [h1], by simp [h2], h3, h4⟩

/-- what the wildcard loop finds is the subject with some labels starred -/
theorem wildLoop_starRel (target : Bytes) : ∀ (rest done : List Bytes), wildLoop target done rest = true →
    ∃ rest', StarRel rest rest' ∧ joinWith [dot] (done ++ rest') = target
  | [], _, h => by simp [wildLoop] at h
  | l :: rest, done, h => by
    unfold wildLoop at h
    split at h
    · obtain ⟨r', h1, h2⟩ := wildLoop_starRel target rest (done ++ [l]) h
      exact ⟨l :: r', ⟨Or.inl rfl, h1⟩, by simpa [List.append_assoc] using h2⟩
    · simp only [Bool.or_eq_true] at h
      rcases h with h | h
      · refine ⟨[star] :: rest, ⟨Or.inr rfl, StarRel.refl rest⟩, ?_⟩
        have : joinWith [dot] (done ++ [[star]] ++ rest) = target := by simpa using h
        simpa [List.append_assoc] using this
      · obtain ⟨r', h1, h2⟩ := wildLoop_starRel target rest (done ++ [[star]]) h
        exact ⟨[star] :: r', ⟨Or.inr rfl, h1⟩, by simpa [List.append_assoc] using h2⟩

def tsSuffix : Bytes := [46, 116, 115, 46, 110, 101, 116]   -- ".ts.net"

theorem isTailscale_iff (x : Bytes) : isTailscale x = true ↔ ∃ pre, lowerB x = pre ++ tsSuffix := by
  unfold isTailscale lowerB
  simp only [decide_eq_true_eq]
  generalize x.map asciiLower = y
  constructor
  · intro h
    refine ⟨(y.reverse.drop 7).reverse, ?_⟩
    have h2 : y = (y.reverse.drop 7).reverse ++ (y.reverse.take 7).reverse :=
      calc y = y.reverse.reverse := by simp
        _ = (y.reverse.take 7 ++ y.reverse.drop 7).reverse := by rw [List.take_append_drop]
        _ = _ := by rw [List.reverse_append]
    rw [h] at h2
    exact h2
  · rintro ⟨pre, rfl⟩
    simp [tsSuffix]

/-- **a tailscale pattern matches tailscale names only**: if `MatchWildcard(d, o)` and `o` ends
    in `.ts.net` (any case), so does `d` — for all byte strings.  (The hypothesis `hts` of
    `internal_issuer_for_nonpublic`, as a theorem.) -/
theorem tailscale_pattern_matches_tailscale_only (d o : Bytes) (hm : matchWildcard d o = true)
    (ho : isTailscale o = true) : isTailscale d = true := by
  obtain ⟨pre, hpre⟩ := (isTailscale_iff o).mp ho
  unfold matchWildcard at hm
  simp only [Bool.or_eq_true, Bool.and_eq_true] at hm
  rcases hm with hm | ⟨_, hm⟩
  · have : lowerB d = lowerB o := by simpa using hm
    exact (isTailscale_iff d).mpr ⟨pre, by rw [this, hpre]⟩
  · obtain ⟨L', hrel, hjoin⟩ := wildLoop_starRel (lowerB o) (splitOn dot (lowerB d)) [] hm
    simp only [List.nil_append] at hjoin
    -- the labels of L' are dot-free
    have hLfree := mem_splitOn_free dot (lowerB d)
    have hL'free : ∀ l ∈ L', dot ∉ l := by
      have key : ∀ (L L' : List Bytes), StarRel L L' → (∀ l ∈ L, dot ∉ l) → ∀ l ∈ L', dot ∉ l := by
        intro L
        induction L with
        | nil => intro L' h _ l hl; cases L' with
          | nil => simp at hl
          | cons => cases h
        | cons a L ih => intro L' h hf l hl; cases L' with
          | nil => cases h
          | cons b L' =>
            rcases List.mem_cons.mp hl with rfl | hl'
            · rcases h.1 with rfl | rfl
              · exact hf _ (by simp)
              · simp [star, dot]
            · exact ih L' h.2 (fun l hl => hf l (List.mem_cons_of_mem _ hl)) l hl'
      exact key _ _ hrel hLfree
    have hL'ne : L' ≠ [] := by
      intro e
      have hne := splitAux_ne_nil dot (lowerB d) []
      cases hs : splitOn dot (lowerB d) with
      | nil => exact hne hs
      | cons a t => rw [hs, e] at hrel; cases hrel
    -- split the target at its dots in two ways
    have hsplit1 : splitOn dot (lowerB o) = L' := by rw [← hjoin]; exact splitOn_join dot L' hL'ne hL'free
    have hsplit2 : splitOn dot (lowerB o) = splitOn dot pre ++ [[116, 115], [110, 101, 116]] := by
      rw [hpre]
      have e1 : pre ++ tsSuffix = pre ++ dot :: ([116, 115] ++ dot :: [110, 101, 116]) := by simp [tsSuffix, dot]
      rw [e1, splitOn_append_sep, splitOn_append_sep, splitOn_free dot [116, 115] (by simp [dot]),
        splitOn_free dot [110, 101, 116] (by simp [dot])]
      simp
    rw [hsplit1] at hsplit2
    rw [hsplit2] at hrel
    obtain ⟨A, x, y, hL, hlen, hx, hy⟩ := StarRel.split_two hrel
    have hx' : x = [116, 115] := by
      rcases hx with h | h
      · exact h.symm
      · simp [star] at h
    have hy' : y = [110, 101, 116] := by
      rcases hy with h | h
      · exact h.symm
      · simp [star] at h
    have hA : A ≠ [] := by
      intro e
      rw [e] at hlen
      have := splitAux_ne_nil dot pre []
      cases hs : splitOn dot pre with
      | nil => exact this hs
      | cons a t => rw [hs] at hlen; simp at hlen
    have hD : lowerB d = joinWith [dot] A ++ tsSuffix := by
      have := join_splitOn dot (lowerB d)
      rw [hL, hx', hy', joinWith_append_two dot _ _ A hA] at this
      rw [← this]
      simp [tsSuffix, dot, List.append_assoc]
    exact (isTailscale_iff d).mpr ⟨_, hD⟩

example : matchWildcard (str "Node.TS.net") (str "*.ts.NET") = true ∧ isTailscale (str "*.ts.NET") = true := by decide


/-! ### phase 2 -/

theorem star_mem_joinWith (sep : Bytes) : ∀ (A B : List Bytes), star ∈ joinWith sep (A ++ [[star]] ++ B)
  | [], [] => by simp [joinWith]
  | [], b :: B => by simp [joinWith]
  | a :: A, B => by
    have ih := star_mem_joinWith sep A B
    have hne : A ++ [[star]] ++ B ≠ [] := by simp
    have : a :: A ++ [[star]] ++ B = a :: (A ++ [[star]] ++ B) := rfl
    rw [this, joinWith_cons_of_ne_nil sep a hne]
    exact List.mem_append.mpr (Or.inr ih)

theorem starCands_contain_star : ∀ (rest done : List Bytes), ∀ cand ∈ starCands done rest, star ∈ cand
  | [], _, _, h => by simp [starCands] at h
  | l :: rest, done, cand, h => by
    unfold starCands at h
    split at h
    · exact starCands_contain_star rest _ cand h
    · rcases List.mem_cons.mp h with rfl | h
      · exact star_mem_joinWith [dot] done rest
      · exact starCands_contain_star rest _ cand h

/-- **phase 2 hands over every name or a wildcard among the names that covers it**: each name
    of `allCertDomains` is in `TLS.managing` afterwards, unless one of the cumulative-star
    forms of it (`*.b.c`, `*.*.c`, … of `a.b.c`) is itself a name of `allCertDomains` — and
    nothing outside `allCertDomains` is managed -/
theorem phase2_manages_or_covers (names : List Bytes) (certs : List Name) (d : Name) (hd : d ∈ certs) :
    d ∈ managedOf names certs ∨
    ∃ s e cand, names[d]? = some s ∧ e ∈ certs ∧ cand ∈ starCands [] (splitOn dot s) ∧ names[e]? = some cand := by
  by_cases hc : coveredByManagedWildcard names certs d = true
  · right
    unfold coveredByManagedWildcard at hc
    cases hs : names[d]? with
    | none => simp [hs] at hc
    | some s =>
      simp only [hs] at hc
      split at hc
      · cases hc
      · simp only [List.any_eq_true, beq_iff_eq] at hc
        obtain ⟨cand, h1, e, h2, h3⟩ := hc
        exact ⟨s, e, cand, rfl, h2, h1, h3⟩
  · left
    exact List.mem_filter.mpr ⟨hd, by simpa using hc⟩

theorem managedOf_subset (names : List Bytes) (certs : List Name) (d : Name) (h : d ∈ managedOf names certs) : d ∈ certs :=
  (List.mem_filter.mp h).1

/-- if no name of `allCertDomains` contains a `*`, phase 2 hands over exactly `allCertDomains` -/
theorem phase2_manages_all_without_wildcards (names : List Bytes) (certs : List Name)
    (h : ∀ e ∈ certs, ∀ s, names[e]? = some s → star ∉ s) : managedOf names certs = certs := by
  unfold managedOf
  apply List.filter_eq_self.mpr
  intro d hd
  rcases phase2_manages_or_covers names certs d hd with h1 | ⟨s, e, cand, _, he, hc, hn⟩
  · exact (List.mem_filter.mp h1).2
  · exact absurd (starCands_contain_star _ _ cand hc) (h e he cand hn)

example : managedOf [[], str "x.w.test", str "*.w.test", str "a.test"] [1, 2, 3] = [2, 3] := by decide

end CaddyModel.C11
