import CaddyModel.C11.Spec
namespace CaddyModel.C11
open List

theorem extract_perm {κ α} [DecidableEq κ] {k : κ} :
    ∀ {m : List (κ × α)} {v m'}, extract k m = some (v, m') → m.Perm ((k, v) :: m')
  | [], v, m', h => by simp [extract] at h
  | (k', w) :: rest, v, m', h => by
    unfold extract at h
    split at h
    · rename_i hk; cases h; subst hk; exact Perm.refl _
    · cases hh : extract k rest with
      | none => simp [hh] at h
      | some p =>
        obtain ⟨v', rest'⟩ := p
        simp [hh] at h
        obtain ⟨rfl, rfl⟩ := h
        have ih := extract_perm hh
        exact (Perm.cons _ ih).trans (Perm.swap _ _ _)

theorem pull_perm {κ α} [DecidableEq κ] : ∀ (π : List κ) (m : List (κ × α)), (pull π m).Perm m
  | [], m => Perm.refl _
  | k :: ks, m => by
    unfold pull
    split
    · rename_i v m' h
      exact (Perm.cons _ (pull_perm ks m')).trans (extract_perm h).symm
    · exact pull_perm ks m

theorem mem_pull {κ α} [DecidableEq κ] {π : List κ} {m : List (κ × α)} {x} : x ∈ pull π m ↔ x ∈ m :=
  (pull_perm π m).mem_iff

theorem pullKeys_perm {κ} [DecidableEq κ] (π l : List κ) : (pullKeys π l).Perm l := by
  unfold pullKeys
  have h := (pull_perm π (l.map fun k => (k, ()))).map (·.1)
  simpa [Function.comp_def] using h

theorem mem_pullKeys {κ} [DecidableEq κ] {π l : List κ} {x} : x ∈ pullKeys π l ↔ x ∈ l :=
  (pullKeys_perm π l).mem_iff

theorem mem_indexed {α} : ∀ {l : List α} {n i x}, (i, x) ∈ indexed l n → x ∈ l
  | [], _, _, _, h => by simp [indexed] at h
  | y :: ys, n, i, x, h => by
    simp [indexed] at h
    rcases h with ⟨_, rfl⟩ | h
    · simp
    · exact List.mem_cons_of_mem _ (mem_indexed h)

theorem exists_indexed {α} : ∀ {l : List α} {x} (n), x ∈ l → ∃ i, (i, x) ∈ indexed l n
  | y :: ys, x, n, h => by
    rcases List.mem_cons.mp h with rfl | h
    · exact ⟨n, by simp [indexed]⟩
    · obtain ⟨i, hi⟩ := exists_indexed (n + 1) h
      exact ⟨i, by simp [indexed, hi]⟩



/-! ### insertion-ordered maps -/

/-- `v ∈ m[k]` -/
def assocMem {κ α} (m : List (κ × List α)) (k : κ) (v : α) : Prop := ∃ vs, (k, vs) ∈ m ∧ v ∈ vs

theorem assocMem_nil {κ α} {k : κ} {v : α} : ¬ assocMem ([] : List (κ × List α)) k v := by
  rintro ⟨vs, h, _⟩; simp at h

theorem assocMem_append {κ α} [DecidableEq κ] {k k' : κ} {v v' : α} :
    ∀ {m : List (κ × List α)}, assocMem (assocAppend m k v) k' v' ↔ assocMem m k' v' ∨ (k' = k ∧ v' = v)
  | [] => by
    simp [assocAppend, assocMem]
    constructor
    · rintro ⟨vs, ⟨rfl, rfl⟩, h⟩; simp at h; exact ⟨rfl, h⟩
    · rintro ⟨rfl, rfl⟩; exact ⟨[v'], ⟨rfl, rfl⟩, by simp⟩
  | (k0, vs0) :: rest => by
    unfold assocAppend
    split
    · rename_i hk
      subst hk
      constructor
      · rintro ⟨vs, hm, hv⟩
        rcases List.mem_cons.mp hm with h | h
        · cases h
          rcases List.mem_append.mp hv with h | h
          · exact Or.inl ⟨vs0, by simp, h⟩
          · simp at h; exact Or.inr ⟨rfl, h⟩
        · exact Or.inl ⟨vs, List.mem_cons_of_mem _ h, hv⟩
      · rintro (⟨vs, hm, hv⟩ | ⟨rfl, rfl⟩)
        · rcases List.mem_cons.mp hm with h | h
          · cases h; exact ⟨vs0 ++ [v], by simp, by simp [hv]⟩
          · exact ⟨vs, List.mem_cons_of_mem _ h, hv⟩
        · exact ⟨vs0 ++ [v'], by simp, by simp⟩
    · have ih := @assocMem_append κ α _ k k' v v' rest
      constructor
      · rintro ⟨vs, hm, hv⟩
        rcases List.mem_cons.mp hm with h | h
        · cases h; exact Or.inl ⟨vs0, by simp, hv⟩
        · rcases ih.mp ⟨vs, h, hv⟩ with ⟨vs', hm', hv'⟩ | h
          · exact Or.inl ⟨vs', List.mem_cons_of_mem _ hm', hv'⟩
          · exact Or.inr h
      · rintro (⟨vs, hm, hv⟩ | h)
        · rcases List.mem_cons.mp hm with h | h
          · cases h; exact ⟨vs0, by simp, hv⟩
          · obtain ⟨vs', hm', hv'⟩ := ih.mpr (Or.inl ⟨vs, h, hv⟩)
            exact ⟨vs', List.mem_cons_of_mem _ hm', hv'⟩
        · obtain ⟨vs', hm', hv'⟩ := ih.mpr (Or.inr h)
          exact ⟨vs', List.mem_cons_of_mem _ hm', hv'⟩

theorem hasKey_append {κ α} [DecidableEq κ] {k k' : κ} {v : α} :
    ∀ {m : List (κ × List α)}, hasKey (assocAppend m k v) k' = (hasKey m k' || decide (k' = k))
  | [] => by
    by_cases h : k = k'
    · subst h; simp [assocAppend, hasKey]
    · have h' : ¬ k' = k := fun e => h e.symm
      simp [assocAppend, hasKey, h, h']
  | (k0, vs0) :: rest => by
    unfold assocAppend
    split
    · rename_i hk; subst hk
      simp only [hasKey, List.any_cons]
      by_cases h : k0 = k'
      · subst h; simp
      · have h' : ¬ k' = k0 := fun e => h e.symm
        simp [h, h']
    · have ih := @hasKey_append κ α _ k k' v rest
      simp only [hasKey, List.any_cons] at ih ⊢
      rw [ih, Bool.or_assoc]

/-- every key has a non-empty value list -/
def NonEmptyVals {κ α} (m : List (κ × List α)) : Prop := ∀ k vs, (k, vs) ∈ m → vs ≠ []

theorem nonEmptyVals_append {κ α} [DecidableEq κ] {k : κ} {v : α} :
    ∀ {m : List (κ × List α)}, NonEmptyVals m → NonEmptyVals (assocAppend m k v)
  | [], _ => by intro k' vs h; simp [assocAppend] at h; simp [h.2]
  | (k0, vs0) :: rest, hm => by
    unfold assocAppend
    split
    · intro k' vs h
      rcases List.mem_cons.mp h with h | h
      · cases h; simp
      · exact hm k' vs (List.mem_cons_of_mem _ h)
    · intro k' vs h
      rcases List.mem_cons.mp h with h | h
      · cases h; exact hm k0 vs0 (by simp)
      · exact nonEmptyVals_append (fun a b c => hm a b (List.mem_cons_of_mem _ c)) k' vs h

theorem hasKey_iff {κ α} [DecidableEq κ] {m : List (κ × α)} {k : κ} : hasKey m k = true ↔ ∃ v, (k, v) ∈ m := by
  simp only [hasKey, List.any_eq_true, decide_eq_true_eq]
  constructor
  · rintro ⟨⟨k', v⟩, h, rfl⟩; exact ⟨v, h⟩
  · rintro ⟨v, h⟩; exact ⟨(k, v), h, rfl⟩

theorem assocMem_of_hasKey {κ α} [DecidableEq κ] {m : List (κ × List α)} {k : κ}
    (hne : NonEmptyVals m) (h : hasKey m k = true) : ∃ v, assocMem m k v := by
  obtain ⟨vs, hm⟩ := hasKey_iff.mp h
  cases hvs : vs with
  | nil => exact absurd hvs (hne k vs hm)
  | cons v rest => exact ⟨v, vs, hm, by simp [hvs]⟩

theorem hasKey_of_assocMem {κ α} [DecidableEq κ] {m : List (κ × List α)} {k : κ} {v}
    (h : assocMem m k v) : hasKey m k = true := by
  obtain ⟨vs, hm, _⟩ := h
  exact hasKey_iff.mpr ⟨vs, hm⟩



/-! ### the main loop: names -/

theorem mem_addSet {l : List Name} {d x : Name} : x ∈ addSet l d ↔ x ∈ l ∨ x = d := by
  unfold addSet
  split
  · rename_i h
    have : d ∈ l := by simpa using h
    constructor
    · exact Or.inl
    · rintro (h | rfl) <;> assumption
  · simp

theorem mem_foldl_addSet {x : Name} : ∀ {ds l : List Name}, x ∈ ds.foldl addSet l ↔ x ∈ l ∨ x ∈ ds
  | [], l => by simp
  | d :: ds, l => by
    simp only [List.foldl_cons, List.mem_cons]
    rw [mem_foldl_addSet, mem_addSet]
    constructor
    · rintro ((h | h) | h)
      · exact Or.inl h
      · exact Or.inr (Or.inl h)
      · exact Or.inr (Or.inr h)
    · rintro (h | h | h)
      · exact Or.inl (Or.inl h)
      · exact Or.inl (Or.inr h)
      · exact Or.inr h

theorem mem_domainSet_aux (skip : List Name) {x : Name} :
    ∀ {hs acc : List Name},
      x ∈ hs.foldl (fun acc d => if skip.contains d then acc else addSet acc d) acc ↔
        x ∈ acc ∨ (x ∈ hs ∧ x ∉ skip)
  | [], acc => by simp
  | h :: hs, acc => by
    simp only [List.foldl_cons]
    rw [mem_domainSet_aux skip]
    by_cases hsk : skip.contains h = true
    · simp only [hsk, if_true, List.mem_cons]
      have hin : h ∈ skip := by simpa using hsk
      constructor
      · rintro (h1 | ⟨h1, h2⟩)
        · exact Or.inl h1
        · exact Or.inr ⟨Or.inr h1, h2⟩
      · rintro (h1 | ⟨h1 | h1, h2⟩)
        · exact Or.inl h1
        · subst h1; exact absurd hin h2
        · exact Or.inr ⟨h1, h2⟩
    · simp only [hsk, List.mem_cons]
      have hin : h ∉ skip := by simpa using hsk
      rw [if_neg (by simp), mem_addSet]
      constructor
      · rintro ((h1 | rfl) | ⟨h1, h2⟩)
        · exact Or.inl h1
        · exact Or.inr ⟨Or.inl rfl, hin⟩
        · exact Or.inr ⟨Or.inr h1, h2⟩
      · rintro (h1 | ⟨rfl | h1, h2⟩)
        · exact Or.inl (Or.inl h1)
        · exact Or.inl (Or.inr rfl)
        · exact Or.inr ⟨h1, h2⟩

theorem mem_domainSet {s : Server} {d : Name} : d ∈ domainSet s ↔ d ∈ allHosts s ∧ d ∉ s.skip := by
  unfold domainSet
  rw [mem_domainSet_aux]
  simp

theorem hosts_iff {s : Server} {d : Name} : hosts s d = true ↔ d ∈ domainSet s := by
  rw [mem_domainSet]
  simp [hosts]

theorem mem_certNames {P : Params} {s : Server} {d : Name} :
    d ∈ certNames P s ↔ s.disableCerts = false ∧ d ∈ domainSet s ∧ certOk P s d = true := by
  unfold certNames
  split
  · rename_i h; simp [h]
  · rename_i h; simp [h]

theorem engaged_of_mem_domainSet {c : Config} {s : Server} {d : Name} (h : d ∈ domainSet s) :
    engaged c s = active c s := by
  unfold engaged
  have : (domainSet s).isEmpty = false := by
    cases hd : domainSet s with
    | nil => rw [hd] at h; simp at h
    | cons => rfl
  simp [this]

/-- names in `uniqueDomainsForCerts` after any prefix of the main loop -/
theorem mem_mainLoop_uniq (c : Config) (P : Params) {d : Name} :
    ∀ {l : List (Nat × Server)} {st : List Name × RD},
      d ∈ (l.foldl (mainStep c P) st).1 ↔
        d ∈ st.1 ∨ ∃ ks ∈ l, engaged c ks.2 = true ∧ d ∈ certNames P ks.2
  | [], st => by simp
  | ks :: l, st => by
    simp only [List.foldl_cons]
    rw [mem_mainLoop_uniq c P]
    unfold mainStep
    by_cases he : engaged c ks.2 = true
    · simp only [he, if_true, mem_foldl_addSet, List.mem_cons]
      constructor
      · rintro ((h | h) | ⟨ks', hm, h1, h2⟩)
        · exact Or.inl h
        · exact Or.inr ⟨ks, Or.inl rfl, he, h⟩
        · exact Or.inr ⟨ks', Or.inr hm, h1, h2⟩
      · rintro (h | ⟨ks', rfl | hm, h1, h2⟩)
        · exact Or.inl (Or.inl h)
        · exact Or.inl (Or.inr h2)
        · exact Or.inr ⟨ks', hm, h1, h2⟩
    · simp only [he, List.mem_cons]
      constructor
      · rintro (h | ⟨ks', hm, h1, h2⟩)
        · exact Or.inl h
        · exact Or.inr ⟨ks', Or.inr hm, h1, h2⟩
      · rintro (h | ⟨ks', rfl | hm, h1, h2⟩)
        · exact Or.inl h
        · exact absurd h1 he
        · exact Or.inr ⟨ks', hm, h1, h2⟩

/-- `uniqueDomainsForCerts` after the main loop, for every iteration order: exactly the
    names that qualify on some server -/
theorem mem_uniq_iff (c : Config) (P : Params) (π : Orders) (d : Name) :
    d ∈ (mainLoop c P π).1 ↔ qualifies c P d = true := by
  unfold mainLoop
  rw [mem_mainLoop_uniq]
  simp only [List.not_mem_nil, false_or, qualifies, List.any_eq_true, qualifiesOn, Bool.and_eq_true,
    Bool.not_eq_true']
  constructor
  · rintro ⟨ks, hm, he, hc⟩
    obtain ⟨h1, h2, h3⟩ := mem_certNames.mp hc
    refine ⟨ks.2, mem_indexed (mem_pull.mp hm), ?_⟩
    rw [engaged_of_mem_domainSet h2] at he
    exact ⟨⟨⟨he, h1⟩, hosts_iff.mpr h2⟩, h3⟩
  · rintro ⟨s, hs, ⟨⟨ha, h1⟩, h2⟩, h3⟩
    obtain ⟨i, hi⟩ := exists_indexed 0 hs
    have h2' := hosts_iff.mp h2
    refine ⟨(i, s), mem_pull.mpr hi, ?_, mem_certNames.mpr ⟨h1, h2', h3⟩⟩
    rw [engaged_of_mem_domainSet h2']; exact ha



/-! ### the loop over `uniqueDomainsForCerts` -/

def listsName (pols : List Policy) (d : Name) : Bool := pols.any fun p => p.subjects.contains d

theorem markPolicy_subjects (P : Params) (d : Name) :
    ∀ (pols : List Policy), (markPolicy P d pols).map (·.subjects) = pols.map (·.subjects)
  | [] => rfl
  | p :: ps => by
    unfold markPolicy
    split
    · split <;> simp
    · simp [markPolicy_subjects P d ps]

theorem listsName_congr {pols pols' : List Policy} (h : pols'.map (·.subjects) = pols.map (·.subjects)) (d : Name) :
    listsName pols' d = listsName pols d := by
  have e : ∀ l : List Policy, listsName l d = (l.map (·.subjects)).any (fun s => s.contains d) := by
    intro l; simp [listsName, List.any_map, Function.comp_def]
  rw [e, e, h]

/-- what the loop has established after processing the names `ds` -/
structure LoopBInv (P : Params) (pols0 : List Policy) (uniq0 : List Name) (seen : List Name) (b : LoopB) : Prop where
  subj : b.pols.map (·.subjects) = pols0.map (·.subjects)
  uniq : ∀ x, x ∈ b.uniq ↔ x ∈ uniq0 ∧ ¬(x ∈ seen ∧ listsName pols0 x = false ∧ P.ts x = true)
  tail : ∀ x, x ∈ b.tailscale ↔ x ∈ seen ∧ listsName pols0 x = false ∧ P.ts x = true
  intl : ∀ x, x ∈ b.internal ↔ x ∈ seen ∧ listsName pols0 x = false ∧ P.ts x = false ∧
            (P.pub x = false ∨ (P.ip x = true ∧ pols0.isEmpty = true))

theorem loopBInv_step {P : Params} {pols0 : List Policy} {uniq0 seen : List Name} {b : LoopB} {d : Name}
    (h : LoopBInv P pols0 uniq0 seen b) : LoopBInv P pols0 uniq0 (seen ++ [d]) (stepB P pols0.isEmpty b d) := by
  have hl : ∀ x, listsName b.pols x = listsName pols0 x := listsName_congr h.subj
  unfold stepB
  have hl' : (b.pols.any fun p => p.subjects.contains d) = listsName pols0 d := hl d
  rw [hl']
  by_cases h1 : listsName pols0 d = true
  · simp only [h1, if_true]
    refine ⟨by simp [markPolicy_subjects, h.subj], ?_, ?_, ?_⟩
    · intro x; rw [h.uniq x]
      simp only [List.mem_append, List.mem_singleton]
      constructor
      · rintro ⟨a, b'⟩; refine ⟨a, ?_⟩
        rintro ⟨hx | rfl, h2, h3⟩
        · exact b' ⟨hx, h2, h3⟩
        · simp [h1] at h2
      · rintro ⟨a, b'⟩; exact ⟨a, fun ⟨hx, h2, h3⟩ => b' ⟨Or.inl hx, h2, h3⟩⟩
    · intro x; rw [h.tail x]
      simp only [List.mem_append, List.mem_singleton]
      constructor
      · rintro ⟨a, b', c'⟩; exact ⟨Or.inl a, b', c'⟩
      · rintro ⟨hx | rfl, h2, h3⟩
        · exact ⟨hx, h2, h3⟩
        · simp [h1] at h2
    · intro x; rw [h.intl x]
      simp only [List.mem_append, List.mem_singleton]
      constructor
      · rintro ⟨a, b'⟩; exact ⟨Or.inl a, b'⟩
      · rintro ⟨hx | rfl, h2, h3⟩
        · exact ⟨hx, h2, h3⟩
        · simp [h1] at h2
  · have h1' : listsName pols0 d = false := by simpa using h1
    simp only [h1', Bool.false_eq_true, if_false]
    by_cases h2 : P.ts d = true
    · simp only [h2, if_true]
      refine ⟨h.subj, ?_, ?_, ?_⟩
      · intro x
        simp only [List.mem_filter, decide_eq_true_eq, h.uniq x, List.mem_append, List.mem_singleton]
        constructor
        · rintro ⟨⟨a, b'⟩, hne⟩
          refine ⟨a, ?_⟩
          rintro ⟨hx | rfl, h3, h4⟩
          · exact b' ⟨hx, h3, h4⟩
          · exact hne rfl
        · rintro ⟨a, b'⟩
          refine ⟨⟨a, fun ⟨hx, h3, h4⟩ => b' ⟨Or.inl hx, h3, h4⟩⟩, ?_⟩
          rintro rfl
          exact b' ⟨Or.inr rfl, h1', h2⟩
      · intro x
        simp only [List.mem_append, List.mem_singleton, h.tail x]
        constructor
        · rintro (⟨a, b', c'⟩ | rfl)
          · exact ⟨Or.inl a, b', c'⟩
          · exact ⟨Or.inr rfl, h1', h2⟩
        · rintro ⟨hx | rfl, h3, h4⟩
          · exact Or.inl ⟨hx, h3, h4⟩
          · exact Or.inr rfl
      · intro x; rw [h.intl x]
        simp only [List.mem_append, List.mem_singleton]
        constructor
        · rintro ⟨a, b'⟩; exact ⟨Or.inl a, b'⟩
        · rintro ⟨hx | rfl, h3, h4, h5⟩
          · exact ⟨hx, h3, h4, h5⟩
          · simp [h2] at h4
    · have h2' : P.ts d = false := by simpa using h2
      simp only [h2', Bool.false_eq_true, if_false]
      have huniq : ∀ x, x ∈ b.uniq ↔ x ∈ uniq0 ∧ ¬(x ∈ seen ++ [d] ∧ listsName pols0 x = false ∧ P.ts x = true) := by
        intro x; rw [h.uniq x]
        simp only [List.mem_append, List.mem_singleton]
        constructor
        · rintro ⟨a, b'⟩; refine ⟨a, ?_⟩
          rintro ⟨hx | rfl, h3, h4⟩
          · exact b' ⟨hx, h3, h4⟩
          · simp [h2'] at h4
        · rintro ⟨a, b'⟩; exact ⟨a, fun ⟨hx, h3, h4⟩ => b' ⟨Or.inl hx, h3, h4⟩⟩
      have htail : ∀ x, x ∈ b.tailscale ↔ x ∈ seen ++ [d] ∧ listsName pols0 x = false ∧ P.ts x = true := by
        intro x; rw [h.tail x]
        simp only [List.mem_append, List.mem_singleton]
        constructor
        · rintro ⟨a, b', c'⟩; exact ⟨Or.inl a, b', c'⟩
        · rintro ⟨hx | rfl, h3, h4⟩
          · exact ⟨hx, h3, h4⟩
          · simp [h2'] at h4
      by_cases h3 : (!P.pub d || (P.ip d && pols0.isEmpty)) = true
      · simp only [h3, if_true]
        refine ⟨h.subj, huniq, htail, ?_⟩
        intro x
        simp only [List.mem_append, List.mem_singleton, h.intl x]
        constructor
        · rintro (⟨a, b'⟩ | rfl)
          · exact ⟨Or.inl a, b'⟩
          · refine ⟨Or.inr rfl, h1', h2', ?_⟩
            simpa using h3
        · rintro ⟨hx | rfl, h4⟩
          · exact Or.inl ⟨hx, h4⟩
          · exact Or.inr rfl
      · simp only [h3, Bool.false_eq_true, if_false]
        refine ⟨h.subj, huniq, htail, ?_⟩
        intro x; rw [h.intl x]
        simp only [List.mem_append, List.mem_singleton]
        constructor
        · rintro ⟨a, b'⟩; exact ⟨Or.inl a, b'⟩
        · rintro ⟨hx | rfl, h4, h5, h6⟩
          · exact ⟨hx, h4, h5, h6⟩
          · exfalso; apply h3; simpa using h6

theorem loopBInv_foldl {P : Params} {pols0 : List Policy} {uniq0 : List Name} :
    ∀ (ds seen : List Name) (b : LoopB), LoopBInv P pols0 uniq0 seen b →
      LoopBInv P pols0 uniq0 (seen ++ ds) (ds.foldl (stepB P pols0.isEmpty) b)
  | [], seen, b, h => by simpa using h
  | d :: ds, seen, b, h => by
    have := loopBInv_foldl ds (seen ++ [d]) _ (loopBInv_step (d := d) h)
    simpa using this

theorem loopB_inv (P : Params) (pols : List Policy) (π : Orders) (uniq : List Name) :
    LoopBInv P pols uniq (pullKeys π.uniq uniq) (loopB P pols π uniq) := by
  have h0 : LoopBInv P pols uniq [] ⟨pols, [], [], uniq⟩ :=
    ⟨rfl, by intro x; simp, by intro x; simp, by intro x; simp⟩
  have := loopBInv_foldl (pullKeys π.uniq uniq) [] _ h0
  simpa [loopB] using this



/-! ### certificates and policies -/

theorem listsName_eq_explicit (c : Config) (d : Name) : listsName c.policies d = explicitPolicy c d := rfl

/-- `allCertDomains` for every iteration order: the qualifying names, minus tailscale
    names that no explicit policy lists -/
theorem mem_certsOf (c : Config) (P : Params) (π : Orders) (d : Name) :
    d ∈ certsOf c P π ↔ qualifies c P d = true ∧ ¬(explicitPolicy c d = false ∧ P.ts d = true) := by
  unfold certsOf
  rw [(loopB_inv P c.policies π _).uniq d, mem_uniq_iff, listsName_eq_explicit]
  constructor
  · rintro ⟨a, b⟩
    refine ⟨a, fun ⟨h1, h2⟩ => b ⟨?_, h1, h2⟩⟩
    exact mem_pullKeys.mpr ((mem_uniq_iff c P π d).mpr a)
  · rintro ⟨a, b⟩
    exact ⟨a, fun ⟨_, h1, h2⟩ => b ⟨h1, h2⟩⟩

theorem mem_internalOf (c : Config) (P : Params) (π : Orders) (d : Name) :
    d ∈ (loopB P c.policies π (mainLoop c P π).1).internal ↔
      qualifies c P d = true ∧ explicitPolicy c d = false ∧ P.ts d = false ∧
        (P.pub d = false ∨ (P.ip d = true ∧ c.policies.isEmpty = true)) := by
  rw [(loopB_inv P c.policies π _).intl d, mem_pullKeys, mem_uniq_iff, listsName_eq_explicit]

theorem mem_tailscaleOf (c : Config) (P : Params) (π : Orders) (d : Name) :
    d ∈ (loopB P c.policies π (mainLoop c P π).1).tailscale ↔
      qualifies c P d = true ∧ explicitPolicy c d = false ∧ P.ts d = true := by
  rw [(loopB_inv P c.policies π _).tail d, mem_pullKeys, mem_uniq_iff, listsName_eq_explicit]

theorem mem_addPolicy {P : Params} {ap x : Policy} : ∀ {pols : List Policy}, x ∈ addPolicy P ap pols ↔ x = ap ∨ x ∈ pols
  | [] => by simp [addPolicy]
  | ex :: rest => by
    unfold addPolicy
    split
    · simp
    · simp only [List.mem_cons, mem_addPolicy (pols := rest)]
      constructor
      · rintro (h | h | h)
        · exact Or.inr (Or.inl h)
        · exact Or.inl h
        · exact Or.inr (Or.inr h)
      · rintro (h | h | h)
        · exact Or.inr (Or.inl h)
        · exact Or.inl h
        · exact Or.inr (Or.inr h)

/-- the policy's subject list admits `d` (`getAutomationPolicyForName`'s test) -/
def admits (P : Params) (p : Policy) (d : Name) : Bool := p.subjects.isEmpty || p.subjects.any fun o => P.mw d o

theorem policyFor_cons (P : Params) (d : Name) (p : Policy) (ps : List Policy) :
    policyFor P d (p :: ps) = if admits P p d then some p else policyFor P d ps := rfl

/-- a freshly added policy that lists `d` is the one `d` resolves to -/
theorem policyFor_addPolicy_self {P : Params} {ap : Policy} {d : Name} (hd : d ∈ ap.subjects)
    (hmw : P.mw d d = true) : ∀ pols, policyFor P d (addPolicy P ap pols) = some ap := by
  have hadm : admits P ap d = true := by
    simp only [admits, Bool.or_eq_true, List.any_eq_true]
    exact Or.inr ⟨d, hd, hmw⟩
  intro pols
  induction pols with
  | nil => simp [addPolicy, policyFor_cons, hadm]
  | cons ex rest ih =>
    unfold addPolicy
    split
    · simp [policyFor_cons, hadm]
    · rename_i hc
      rw [policyFor_cons]
      have : admits P ex d = false := by
        cases hx : admits P ex d with
        | false => rfl
        | true =>
          exfalso; apply hc
          simp only [admits, Bool.or_eq_true, List.any_eq_true] at hx
          simp only [Bool.or_eq_true, decide_eq_true_eq, supersetOf, List.any_eq_true]
          rcases hx with hx | ⟨o, ho, hmo⟩
          · right
            have : ex.subjects = [] := by simpa using hx
            rw [this]
            exact List.length_pos_of_mem hd
          · left; exact ⟨d, hd, o, ho, hmo⟩
      simp [this, ih]

/-- adding a policy that does not admit `d` does not change what `d` resolves to -/
theorem policyFor_addPolicy_other {P : Params} {ap : Policy} {d : Name} (h : admits P ap d = false) :
    ∀ pols, policyFor P d (addPolicy P ap pols) = policyFor P d pols := by
  intro pols
  induction pols with
  | nil => simp [addPolicy, policyFor_cons, h, policyFor]
  | cons ex rest ih =>
    unfold addPolicy
    split
    · simp [policyFor_cons, h]
    · simp [policyFor_cons, ih]

theorem policyFor_isSome_of_catchAll {P : Params} {d : Name} :
    ∀ {pols : List Policy}, (∃ p ∈ pols, p.subjects = []) → (policyFor P d pols).isSome = true
  | [], h => by obtain ⟨p, hp, _⟩ := h; simp at hp
  | q :: rest, h => by
    rw [policyFor_cons]
    split
    · rfl
    · rename_i hq
      obtain ⟨p, hp, he⟩ := h
      rcases List.mem_cons.mp hp with rfl | hp
      · simp [admits, he] at hq
      · exact policyFor_isSome_of_catchAll ⟨p, hp, he⟩

theorem findBase_some {pols : List Policy} {p : Policy} (h : findBase pols = some p) : p ∈ pols ∧ p.subjects = [] := by
  induction pols with
  | nil => simp [findBase] at h
  | cons q rest ih =>
    unfold findBase at h
    split at h
    · rename_i hq; cases h; exact ⟨by simp, by simpa using hq⟩
    · exact ⟨List.mem_cons_of_mem _ (ih h).1, (ih h).2⟩

theorem withBase_has_catchAll (P : Params) (pols : List Policy) : ∃ p ∈ withBase P pols, p.subjects = [] := by
  unfold withBase
  split
  · rename_i p h; exact ⟨p, (findBase_some h).1, (findBase_some h).2⟩
  · exact ⟨newBase, mem_addPolicy.mpr (Or.inl rfl), rfl⟩

theorem createPolicies_has_catchAll (P : Params) (pols : List Policy) (il tl : List Name) :
    ∃ p ∈ createPolicies P pols il tl, p.subjects = [] := by
  obtain ⟨p, hp, he⟩ := withBase_has_catchAll P (pols.map fillDefault)
  refine ⟨p, ?_, he⟩
  unfold createPolicies withTailscale withInternal
  split <;> split <;> simp [mem_addPolicy, hp]



/-! ### the main loop: `redirDomains` -/

theorem assocMem_append_mono {κ α} [DecidableEq κ] {m : List (κ × List α)} {k k' : κ} {v v' : α}
    (h : assocMem m k' v') : assocMem (assocAppend m k v) k' v' := assocMem_append.mpr (Or.inl h)

theorem rdStepDom_sound {https : Nat} {a : Addr} {rd : RD} {d d' : Name} {a' : Addr}
    (h : assocMem (rdStepDom https a rd d) d' a') : assocMem rd d' a' ∨ (d' = d ∧ a' = a) := by
  unfold rdStepDom at h
  split at h
  · exact assocMem_append.mp h
  · exact Or.inl h

theorem rdStepDom_mono {https : Nat} {a : Addr} {rd : RD} {d d' : Name} {a' : Addr}
    (h : assocMem rd d' a') : assocMem (rdStepDom https a rd d) d' a' := by
  unfold rdStepDom
  split
  · exact assocMem_append_mono h
  · exact h

theorem rdStepDom_hasKey {https : Nat} {a : Addr} {rd : RD} {d d' : Name} :
    hasKey (rdStepDom https a rd d) d' = (hasKey rd d' || decide (d' = d)) := by
  unfold rdStepDom
  split
  · exact hasKey_append
  · rename_i h
    have hk : hasKey rd d = true := by
      cases hh : hasKey rd d with
      | true => rfl
      | false => simp [hh] at h
    by_cases e : d' = d
    · subst e; simp [hk]
    · simp [e]

theorem rdStepDom_nonEmpty {https : Nat} {a : Addr} {rd : RD} {d : Name} (h : NonEmptyVals rd) :
    NonEmptyVals (rdStepDom https a rd d) := by
  unfold rdStepDom
  split
  · exact nonEmptyVals_append h
  · exact h

theorem rdFoldDom_sound {https : Nat} {a : Addr} {d' : Name} {a' : Addr} :
    ∀ {doms : List Name} {rd : RD}, assocMem (doms.foldl (rdStepDom https a) rd) d' a' →
      assocMem rd d' a' ∨ (d' ∈ doms ∧ a' = a)
  | [], rd, h => Or.inl h
  | d :: doms, rd, h => by
    simp only [List.foldl_cons] at h
    rcases rdFoldDom_sound h with h | ⟨h1, h2⟩
    · rcases rdStepDom_sound h with h | ⟨rfl, h2⟩
      · exact Or.inl h
      · exact Or.inr ⟨by simp, h2⟩
    · exact Or.inr ⟨List.mem_cons_of_mem _ h1, h2⟩

theorem rdFoldDom_mono {https : Nat} {a : Addr} {d' : Name} {a' : Addr} :
    ∀ {doms : List Name} {rd : RD}, assocMem rd d' a' → assocMem (doms.foldl (rdStepDom https a) rd) d' a'
  | [], _, h => h
  | _ :: doms, _, h => by
    simp only [List.foldl_cons]
    exact rdFoldDom_mono (doms := doms) (rdStepDom_mono h)

theorem rdFoldDom_hasKey {https : Nat} {a : Addr} {d' : Name} :
    ∀ {doms : List Name} {rd : RD},
      hasKey (doms.foldl (rdStepDom https a) rd) d' = (hasKey rd d' || doms.contains d')
  | [], rd => by simp
  | d :: doms, rd => by
    simp only [List.foldl_cons]
    rw [rdFoldDom_hasKey, rdStepDom_hasKey, Bool.or_assoc]
    congr 1

theorem rdFoldDom_nonEmpty {https : Nat} {a : Addr} :
    ∀ {doms : List Name} {rd : RD}, NonEmptyVals rd → NonEmptyVals (doms.foldl (rdStepDom https a) rd)
  | [], _, h => h
  | _ :: doms, _, h => by
    simp only [List.foldl_cons]
    exact rdFoldDom_nonEmpty (doms := doms) (rdStepDom_nonEmpty h)

theorem mem_keysOf_cases {s : Server} {d : Name} :
    d ∈ keysOf s ↔ ((domainSet s).isEmpty = true ∧ d = 0) ∨ ((domainSet s).isEmpty = false ∧ d ∈ domainSet s) := by
  unfold keysOf
  cases h : (domainSet s).isEmpty <;> simp

theorem rdStepAddr_sound {https : Nat} {s : Server} {rd : RD} {a : Addr} {d' : Name} {a' : Addr}
    (h : assocMem (rdStepAddr https (domainSet s) rd a) d' a') : assocMem rd d' a' ∨ (d' ∈ keysOf s ∧ a' = a) := by
  unfold rdStepAddr at h
  split at h
  · rename_i he
    rcases assocMem_append.mp h with h | ⟨rfl, rfl⟩
    · exact Or.inl h
    · exact Or.inr ⟨mem_keysOf_cases.mpr (Or.inl ⟨he, rfl⟩), rfl⟩
  · rename_i he
    rcases rdFoldDom_sound h with h | ⟨h1, h2⟩
    · exact Or.inl h
    · exact Or.inr ⟨mem_keysOf_cases.mpr (Or.inr ⟨by simpa using he, h1⟩), h2⟩

theorem rdStepAddr_mono {https : Nat} {doms : List Name} {rd : RD} {a : Addr} {d' : Name} {a' : Addr}
    (h : assocMem rd d' a') : assocMem (rdStepAddr https doms rd a) d' a' := by
  unfold rdStepAddr
  split
  · exact assocMem_append_mono h
  · exact rdFoldDom_mono h

theorem rdStepAddr_hasKey {https : Nat} {s : Server} {rd : RD} {a : Addr} {d' : Name} :
    hasKey (rdStepAddr https (domainSet s) rd a) d' = (hasKey rd d' || (keysOf s).contains d') := by
  unfold rdStepAddr keysOf
  split
  · rename_i he
    rw [hasKey_append]
    simp [he]
  · rw [rdFoldDom_hasKey]

theorem rdStepAddr_nonEmpty {https : Nat} {doms : List Name} {rd : RD} {a : Addr} (h : NonEmptyVals rd) :
    NonEmptyVals (rdStepAddr https doms rd a) := by
  unfold rdStepAddr
  split
  · exact nonEmptyVals_append h
  · exact rdFoldDom_nonEmpty h

theorem rdFoldAddr_sound {https : Nat} {s : Server} {d' : Name} {a' : Addr} :
    ∀ {as : List Addr} {rd : RD}, assocMem (as.foldl (rdStepAddr https (domainSet s)) rd) d' a' →
      assocMem rd d' a' ∨ (d' ∈ keysOf s ∧ a' ∈ as)
  | [], _, h => Or.inl h
  | a :: as, rd, h => by
    simp only [List.foldl_cons] at h
    rcases rdFoldAddr_sound h with h | ⟨h1, h2⟩
    · rcases rdStepAddr_sound h with h | ⟨h1, rfl⟩
      · exact Or.inl h
      · exact Or.inr ⟨h1, by simp⟩
    · exact Or.inr ⟨h1, List.mem_cons_of_mem _ h2⟩

theorem rdFoldAddr_mono {https : Nat} {doms : List Name} {d' : Name} {a' : Addr} :
    ∀ {as : List Addr} {rd : RD}, assocMem rd d' a' → assocMem (as.foldl (rdStepAddr https doms) rd) d' a'
  | [], _, h => h
  | _ :: as, _, h => by
    simp only [List.foldl_cons]
    exact rdFoldAddr_mono (as := as) (rdStepAddr_mono h)

theorem rdFoldAddr_hasKey {https : Nat} {s : Server} {d' : Name} :
    ∀ {as : List Addr} {rd : RD},
      hasKey (as.foldl (rdStepAddr https (domainSet s)) rd) d' =
        (hasKey rd d' || (!as.isEmpty && (keysOf s).contains d'))
  | [], rd => by simp
  | a :: as, rd => by
    simp only [List.foldl_cons]
    rw [rdFoldAddr_hasKey, rdStepAddr_hasKey]
    cases hasKey rd d' <;> cases (keysOf s).contains d' <;> cases as.isEmpty <;> simp

theorem rdFoldAddr_nonEmpty {https : Nat} {doms : List Name} :
    ∀ {as : List Addr} {rd : RD}, NonEmptyVals rd → NonEmptyVals (as.foldl (rdStepAddr https doms) rd)
  | [], _, h => h
  | _ :: as, _, h => by
    simp only [List.foldl_cons]
    exact rdFoldAddr_nonEmpty (as := as) (rdStepAddr_nonEmpty h)

theorem listen_ne_nil_of_active {c : Config} {s : Server} (h : active c s = true) : s.listen.isEmpty = false := by
  unfold active usesOther at h
  cases hl : s.listen with
  | nil => simp [hl] at h
  | cons => rfl

theorem redirOn_iff {c : Config} {s : Server} : redirOn c s = true ↔ engaged c s = true ∧ s.disableRedir = false := by
  simp [redirOn]

theorem active_of_engaged {c : Config} {s : Server} (h : engaged c s = true) : active c s = true := by
  unfold engaged at h
  simp only [Bool.and_eq_true] at h
  exact h.1

/-- what `redirDomains` holds after any prefix of the main loop -/
theorem mainLoop_rd_sound (c : Config) (P : Params) {d : Name} {a : Addr} :
    ∀ {l : List (Nat × Server)} {st : List Name × RD},
      assocMem (l.foldl (mainStep c P) st).2 d a →
        assocMem st.2 d a ∨ ∃ ks ∈ l, redirOn c ks.2 = true ∧ d ∈ keysOf ks.2 ∧ a ∈ ks.2.listen
  | [], _, h => Or.inl h
  | ks :: l, st, h => by
    simp only [List.foldl_cons] at h
    rcases mainLoop_rd_sound c P h with h | ⟨ks', hm, h1⟩
    · unfold mainStep at h
      split at h
      · rename_i he
        simp only at h
        split at h
        · exact Or.inl h
        · rename_i hr
          rcases rdFoldAddr_sound h with h | ⟨h1, h2⟩
          · exact Or.inl h
          · exact Or.inr ⟨ks, by simp, redirOn_iff.mpr ⟨he, by simpa using hr⟩, h1, h2⟩
      · exact Or.inl h
    · exact Or.inr ⟨ks', List.mem_cons_of_mem _ hm, h1⟩

theorem mainStep_rd_mono (c : Config) (P : Params) {d : Name} {a : Addr} {st : List Name × RD} {ks : Nat × Server}
    (h : assocMem st.2 d a) : assocMem (mainStep c P st ks).2 d a := by
  unfold mainStep
  split
  · simp only
    split
    · exact h
    · exact rdFoldAddr_mono h
  · exact h

theorem mainLoop_rd_mono (c : Config) (P : Params) {d : Name} {a : Addr} :
    ∀ {l : List (Nat × Server)} {st : List Name × RD}, assocMem st.2 d a → assocMem (l.foldl (mainStep c P) st).2 d a
  | [], _, h => h
  | _ :: l, _, h => by
    simp only [List.foldl_cons]
    exact mainLoop_rd_mono c P (l := l) (mainStep_rd_mono c P h)

theorem mainStep_rd_nonEmpty (c : Config) (P : Params) {st : List Name × RD} {ks : Nat × Server}
    (h : NonEmptyVals st.2) : NonEmptyVals (mainStep c P st ks).2 := by
  unfold mainStep
  split
  · simp only
    split
    · exact h
    · exact rdFoldAddr_nonEmpty h
  · exact h

theorem mainLoop_rd_nonEmpty (c : Config) (P : Params) :
    ∀ {l : List (Nat × Server)} {st : List Name × RD}, NonEmptyVals st.2 → NonEmptyVals (l.foldl (mainStep c P) st).2
  | [], _, h => h
  | _ :: l, _, h => by
    simp only [List.foldl_cons]
    exact mainLoop_rd_nonEmpty c P (l := l) (mainStep_rd_nonEmpty c P h)

/-- every key a redirect-enabled server contributes is present afterwards (with at least
    one address, by `mainLoop_rd_nonEmpty`) -/
theorem mainLoop_rd_complete (c : Config) (P : Params) {d : Name} :
    ∀ {l : List (Nat × Server)} {st : List Name × RD} {ks : Nat × Server},
      ks ∈ l → redirOn c ks.2 = true → d ∈ keysOf ks.2 → NonEmptyVals st.2 →
        ∃ a, assocMem (l.foldl (mainStep c P) st).2 d a
  | ks0 :: l, st, ks, hm, hr, hd, hne => by
    simp only [List.foldl_cons]
    rcases List.mem_cons.mp hm with rfl | hm
    · have he := (redirOn_iff.mp hr).1
      have hk : hasKey (mainStep c P st ks).2 d = true := by
        unfold mainStep
        simp only [he, if_true, (redirOn_iff.mp hr).2, Bool.false_eq_true, if_false]
        unfold rdStepSrv
        rw [rdFoldAddr_hasKey, listen_ne_nil_of_active (active_of_engaged he)]
        simp [hd]
      obtain ⟨a, ha⟩ := assocMem_of_hasKey (mainStep_rd_nonEmpty c P hne) hk
      exact ⟨a, mainLoop_rd_mono c P ha⟩
    · exact mainLoop_rd_complete c P hm hr hd (mainStep_rd_nonEmpty c P hne)



/-! ### `domainsByAddr` and `redirServers` -/

theorem dbaInner_mem {d0 : Name} {a : Addr} {d : Name} :
    ∀ {as : List Addr} {m : DBA},
      assocMem (as.foldl (fun m a => assocAppend m a d0) m) a d ↔ assocMem m a d ∨ (d = d0 ∧ a ∈ as)
  | [], m => by simp
  | a0 :: as, m => by
    simp only [List.foldl_cons]
    rw [dbaInner_mem, assocMem_append]
    simp only [List.mem_cons]
    constructor
    · rintro ((h | ⟨rfl, rfl⟩) | ⟨h1, h2⟩)
      · exact Or.inl h
      · exact Or.inr ⟨rfl, Or.inl rfl⟩
      · exact Or.inr ⟨h1, Or.inr h2⟩
    · rintro (h | ⟨h1, rfl | h2⟩)
      · exact Or.inl (Or.inl h)
      · exact Or.inl (Or.inr ⟨rfl, h1⟩)
      · exact Or.inr ⟨h1, h2⟩

theorem dbaFold_mem {a : Addr} {d : Name} :
    ∀ {l : RD} {m : DBA}, assocMem (l.foldl dbaStep m) a d ↔ assocMem m a d ∨ assocMem l d a
  | [], m => by simp [assocMem_nil]
  | da :: l, m => by
    simp only [List.foldl_cons]
    rw [dbaFold_mem]
    unfold dbaStep
    rw [dbaInner_mem]
    constructor
    · rintro ((h | ⟨rfl, h2⟩) | ⟨vs, h1, h2⟩)
      · exact Or.inl h
      · exact Or.inr ⟨da.2, by simp, h2⟩
      · exact Or.inr ⟨vs, List.mem_cons_of_mem _ h1, h2⟩
    · rintro (h | ⟨vs, h1, h2⟩)
      · exact Or.inl (Or.inl h)
      · rcases List.mem_cons.mp h1 with h | h
        · subst h; exact Or.inl (Or.inr ⟨rfl, h2⟩)
        · exact Or.inr ⟨vs, h, h2⟩

theorem assocMem_pull {κ α} [DecidableEq κ] {π : List κ} {m : List (κ × List α)} {k : κ} {v : α} :
    assocMem (pull π m) k v ↔ assocMem m k v := by
  unfold assocMem
  constructor
  · rintro ⟨vs, h, hv⟩; exact ⟨vs, mem_pull.mp h, hv⟩
  · rintro ⟨vs, h, hv⟩; exact ⟨vs, mem_pull.mpr h, hv⟩

/-- `d ∈ domainsByAddr[a] ↔ a ∈ redirDomains[d]`, whatever the iteration order -/
theorem mem_domainsByAddr {π : Orders} {rd : RD} {a : Addr} {d : Name} :
    assocMem (domainsByAddr π rd) a d ↔ assocMem rd d a := by
  unfold domainsByAddr
  rw [dbaFold_mem, assocMem_pull]
  simp [assocMem_nil]

theorem dbaInner_nonEmpty {d0 : Name} :
    ∀ {as : List Addr} {m : DBA}, NonEmptyVals m → NonEmptyVals (as.foldl (fun m a => assocAppend m a d0) m)
  | [], _, h => h
  | _ :: as, _, h => by
    simp only [List.foldl_cons]
    exact dbaInner_nonEmpty (as := as) (nonEmptyVals_append h)

theorem dbaFold_nonEmpty : ∀ {l : RD} {m : DBA}, NonEmptyVals m → NonEmptyVals (l.foldl dbaStep m)
  | [], _, h => h
  | _ :: l, _, h => by
    simp only [List.foldl_cons]
    exact dbaFold_nonEmpty (l := l) (dbaInner_nonEmpty h)

theorem domainsByAddr_nonEmpty (π : Orders) (rd : RD) : NonEmptyVals (domainsByAddr π rd) :=
  dbaFold_nonEmpty (fun _ _ h => by simp at h)

theorem rsFold_mem (c : Config) {R : Addr} {rt : Route} :
    ∀ {l : DBA} {m : RS},
      assocMem (l.foldl (rsStep c) m) R rt ↔
        assocMem m R rt ∨ ∃ ad ∈ l, R = redirAddr c ad.1 ∧ rt = mkRedirRoute c ad.1 ad.2
  | [], m => by simp
  | ad0 :: l, m => by
    simp only [List.foldl_cons]
    rw [rsFold_mem c]
    unfold rsStep
    rw [assocMem_append]
    simp only [List.mem_cons]
    constructor
    · rintro ((h | ⟨h1, h2⟩) | ⟨ad, hm, h1, h2⟩)
      · exact Or.inl h
      · exact Or.inr ⟨ad0, Or.inl rfl, h1, h2⟩
      · exact Or.inr ⟨ad, Or.inr hm, h1, h2⟩
    · rintro (h | ⟨ad, rfl | hm, h1, h2⟩)
      · exact Or.inl (Or.inl h)
      · exact Or.inl (Or.inr ⟨h1, h2⟩)
      · exact Or.inr ⟨ad, hm, h1, h2⟩

/-- the redirect routes, whatever the iteration order: one per `domainsByAddr` entry, filed
    under the entry's address moved to the HTTP port -/
theorem mem_redirServers (c : Config) (π : Orders) (dba : DBA) {R : Addr} {rt : Route} :
    assocMem (redirServers c π dba) R rt ↔ ∃ ad ∈ dba, R = redirAddr c ad.1 ∧ rt = mkRedirRoute c ad.1 ad.2 := by
  unfold redirServers
  rw [rsFold_mem]
  simp only [assocMem_nil, false_or]
  constructor
  · rintro ⟨ad, h, h'⟩; exact ⟨ad, mem_pull.mp h, h'⟩
  · rintro ⟨ad, h, h'⟩; exact ⟨ad, mem_pull.mpr h, h'⟩

/-- the route lists `d`, or has no host matcher at all -/
def Route.covers (d : Name) : Route → Bool
  | .redir none _ => true
  | .redir (some hs) _ => hs.contains d
  | .user _ _ => false

/-- the route's host matcher lists `d` -/
def Route.lists (d : Name) : Route → Bool
  | .redir (some hs) _ => hs.contains d
  | _ => false

def Route.port : Route → Nat
  | .redir _ p => p
  | .user _ _ => 0

theorem mkRedirRoute_covers {c : Config} {a : Addr} {doms : List Name} {d : Name} (h : d ∈ doms) :
    (mkRedirRoute c a doms).covers d = true := by
  unfold mkRedirRoute
  split
  · simp [Route.covers]
  · have : d ∈ doms.foldl addSet [] := mem_foldl_addSet.mpr (Or.inr h)
    simpa [Route.covers] using this

theorem mkRedirRoute_lists {c : Config} {a : Addr} {doms : List Name} {d : Name}
    (h : (mkRedirRoute c a doms).lists d = true) : d ∈ doms := by
  unfold mkRedirRoute at h
  split at h
  · simp [Route.lists] at h
  · have : d ∈ doms.foldl addSet [] := by simpa [Route.lists] using h
    rcases mem_foldl_addSet.mp this with h' | h'
    · simp at h'
    · exact h'

theorem mkRedirRoute_port {c : Config} {a : Addr} {doms : List Name} :
    (mkRedirRoute c a doms).port = portRule c a.sp := rfl

theorem mkRedirRoute_isRedir {c : Config} {a : Addr} {doms : List Name} :
    (mkRedirRoute c a doms).isRedir = true := rfl

/-- the map of redirect routes phase 1 builds -/
def rsOf (c : Config) (P : Params) (π : Orders) : RS :=
  redirServers c π (domainsByAddr π (mainLoop c P π).2)

/-- every redirect route in the map comes from a listener of a redirect-enabled server, and
    every name it lists is a key of such a server listening there -/
theorem rsOf_sound (c : Config) (P : Params) (π : Orders) {R : Addr} {rt : Route}
    (h : assocMem (rsOf c P π) R rt) :
    ∃ a doms, R = redirAddr c a ∧ rt = mkRedirRoute c a doms ∧ doms ≠ [] ∧
      ∀ d ∈ doms, ∃ s ∈ c.servers, redirOn c s = true ∧ d ∈ keysOf s ∧ a ∈ s.listen := by
  obtain ⟨ad, hm, h1, h2⟩ := (mem_redirServers c π _).mp h
  refine ⟨ad.1, ad.2, h1, h2, domainsByAddr_nonEmpty π _ ad.1 ad.2 hm, ?_⟩
  intro d hd
  have : assocMem (mainLoop c P π).2 d ad.1 := mem_domainsByAddr.mp ⟨ad.2, hm, hd⟩
  unfold mainLoop at this
  rcases mainLoop_rd_sound c P this with h | ⟨ks, hks, h3, h4, h5⟩
  · exact absurd h assocMem_nil
  · exact ⟨ks.2, mem_indexed (mem_pull.mp hks), h3, h4, h5⟩

/-- every key of a redirect-enabled server gets a redirect route built from a listener of a
    redirect-enabled server that contributes the same key -/
theorem rsOf_complete (c : Config) (P : Params) (π : Orders) {s : Server} {d : Name}
    (hs : s ∈ c.servers) (hr : redirOn c s = true) (hd : d ∈ keysOf s) :
    ∃ a doms, assocMem (rsOf c P π) (redirAddr c a) (mkRedirRoute c a doms) ∧ d ∈ doms ∧
      ∃ s' ∈ c.servers, redirOn c s' = true ∧ d ∈ keysOf s' ∧ a ∈ s'.listen := by
  obtain ⟨i, hi⟩ := exists_indexed 0 hs
  obtain ⟨a, ha⟩ := mainLoop_rd_complete c P (st := ([], [])) (mem_pull.mpr hi) hr hd (fun _ _ h => by simp at h)
  have ha' : assocMem (mainLoop c P π).2 d a := ha
  obtain ⟨doms, hm, hdm⟩ := (mem_domainsByAddr (π := π)).mpr ha'
  refine ⟨a, doms, (mem_redirServers c π _).mpr ⟨(a, doms), hm, rfl, rfl⟩, hdm, ?_⟩
  unfold mainLoop at ha'
  rcases mainLoop_rd_sound c P ha' with h | ⟨ks, hks, h3, h4, h5⟩
  · exact absurd h assocMem_nil
  · exact ⟨ks.2, mem_indexed (mem_pull.mp hks), h3, h4, h5⟩



/-! ### distributing the redirect routes over the servers -/

/-- `y` is what has become of the initial server `x` -/
structure SrvRel (c : Config) (rs : RS) (x y : Nat × SrvOut) : Prop where
  key : y.1 = x.1
  listen : y.2.listen = x.2.listen
  disabled : y.2.disabled = x.2.disabled
  tls : y.2.tls = x.2.tls
  sound : ∀ rt ∈ y.2.routes, rt ∈ x.2.routes ∨ rt = catchAllRoute c ∨ ∃ R, assocMem rs R rt
  mono : ∀ rt ∈ x.2.routes, rt ∈ y.2.routes

theorem SrvRel.refl (c : Config) (rs : RS) (x : Nat × SrvOut) : SrvRel c rs x x :=
  ⟨rfl, rfl, rfl, rfl, fun _ h => Or.inl h, fun _ h => h⟩

theorem mem_receive {c : Config} {b : Bool} {routes : List Route} {s : SrvOut} {rt : Route} :
    rt ∈ (receive c b routes s).routes ↔
      rt ∈ s.routes ∨ rt = catchAllRoute c ∨ (b = true ∧ rt ∈ routes) := by
  unfold receive
  cases b
  · simp
  · simp only [if_true, List.mem_append, List.mem_singleton, true_and]
    have htd : rt ∈ s.routes ↔ rt ∈ s.routes.take (findLast s.routes) ∨ rt ∈ s.routes.drop (findLast s.routes) := by
      rw [← List.mem_append, List.take_append_drop]
    rw [htd]
    constructor
    · rintro ((h | h | h) | h)
      · exact Or.inl (Or.inl h)
      · exact Or.inr (Or.inr h)
      · exact Or.inl (Or.inr h)
      · exact Or.inr (Or.inl h)
    · rintro ((h | h) | h | h)
      · exact Or.inl (Or.inl h)
      · exact Or.inl (Or.inr (Or.inr h))
      · exact Or.inr h
      · exact Or.inl (Or.inr (Or.inl h))

theorem SrvRel.receive {c : Config} {rs : RS} {x y : Nat × SrvOut} {b : Bool} {R : Addr} {routes : List Route}
    (h : SrvRel c rs x y) (hr : ∀ rt ∈ routes, assocMem rs R rt) :
    SrvRel c rs x (y.1, receive c b routes y.2) :=
  ⟨h.key, h.listen, h.disabled, h.tls,
   fun rt hrt => by
     rcases mem_receive.mp hrt with h1 | h1 | ⟨_, h1⟩
     · exact h.sound rt h1
     · exact Or.inr (Or.inl h1)
     · exact Or.inr (Or.inr ⟨R, hr rt h1⟩),
   fun rt hrt => mem_receive.mpr (Or.inl (h.mono rt hrt))⟩

structure FInv (c : Config) (rs : RS) (s0 : List (Nat × SrvOut)) (st : LoopF) : Prop where
  fwd : ∀ y ∈ st.srvs, ∃ x ∈ s0, SrvRel c rs x y
  bwd : ∀ x ∈ s0, ∃ y ∈ st.srvs, SrvRel c rs x y
  newR : ∀ rt ∈ st.newRoutes, ∃ R, assocMem rs R rt

theorem FInv.init (c : Config) (rs : RS) (s0 : List (Nat × SrvOut)) : FInv c rs s0 ⟨s0, [], []⟩ :=
  ⟨fun y h => ⟨y, h, SrvRel.refl c rs y⟩, fun x h => ⟨x, h, SrvRel.refl c rs x⟩, fun _ h => by simp at h⟩

theorem FInv.step {c : Config} {rs : RS} {s0 : List (Nat × SrvOut)} {st : LoopF} {b : Bool} {π : Orders}
    {rr : Addr × List Route} (h : FInv c rs s0 st) (hrr : ∀ rt ∈ rr.2, assocMem rs rr.1 rt) :
    FInv c rs s0 (stepF c b π st rr) := by
  unfold stepF
  split
  · rename_i kv hfind
    refine ⟨?_, ?_, h.newR⟩
    · intro y hy
      obtain ⟨y0, hy0, rfl⟩ := List.mem_map.mp hy
      obtain ⟨x, hx, hrel⟩ := h.fwd y0 hy0
      refine ⟨x, hx, ?_⟩
      split
      · exact hrel.receive hrr
      · exact hrel
    · intro x hx
      obtain ⟨y0, hy0, hrel⟩ := h.bwd x hx
      by_cases hk : y0.1 = kv.1
      · exact ⟨(y0.1, receive c b rr.2 y0.2), List.mem_map.mpr ⟨y0, hy0, by simp [hk]⟩, hrel.receive hrr⟩
      · exact ⟨y0, List.mem_map.mpr ⟨y0, hy0, by simp [hk]⟩, hrel⟩
  · refine ⟨h.fwd, h.bwd, ?_⟩
    intro rt hrt
    rcases List.mem_append.mp hrt with h1 | h1
    · exact h.newR rt h1
    · exact ⟨rr.1, hrr rt h1⟩

theorem FInv.foldl {c : Config} {rs : RS} {s0 : List (Nat × SrvOut)} {b : Bool} {π : Orders} :
    ∀ {l : RS} {st : LoopF}, FInv c rs s0 st → (∀ rr ∈ l, ∀ rt ∈ rr.2, assocMem rs rr.1 rt) →
      FInv c rs s0 (l.foldl (stepF c b π) st)
  | [], _, h, _ => h
  | rr :: l, _, h, hl => by
    simp only [List.foldl_cons]
    exact FInv.foldl (l := l) (h.step (hl rr (by simp))) (fun rr' h' => hl rr' (List.mem_cons_of_mem _ h'))

def initSrvs (c : Config) : List (Nat × SrvOut) := indexed (c.servers.map (srvInit c)) 0

theorem loopF_inv (c : Config) (b : Bool) (π : Orders) (rs : RS) : FInv c rs (initSrvs c) (loopF c b π rs) := by
  unfold loopF
  apply FInv.foldl (FInv.init c rs _)
  intro rr hrr rt hrt
  exact ⟨rr.2, mem_pull.mp hrr, hrt⟩

theorem userRoutes_not_redir : ∀ {l : List URoute} {i : Nat} {rt : Route}, rt ∈ userRoutes l i → rt.isRedir = false
  | [], _, _, h => by simp [userRoutes] at h
  | _ :: l, i, rt, h => by
    simp only [userRoutes, List.mem_cons] at h
    rcases h with rfl | h
    · rfl
    · exact userRoutes_not_redir h

theorem initSrvs_user {c : Config} {x : Nat × SrvOut} (h : x ∈ initSrvs c) : ∀ rt ∈ x.2.routes, rt.isRedir = false := by
  have := mem_indexed h
  obtain ⟨s, _, hs⟩ := List.mem_map.mp this
  intro rt hrt
  rw [← hs] at hrt
  exact userRoutes_not_redir hrt

/-- where every redirect route of the final servers comes from -/
theorem serversOf_redir_sound (c : Config) (P : Params) (π : Orders) {kv : Nat × SrvOut} {rt : Route}
    (hkv : kv ∈ serversOf c P π) (hrt : rt ∈ kv.2.routes) (hred : rt.isRedir = true) :
    rt = catchAllRoute c ∨ ∃ R, assocMem (rsOf c P π) R rt := by
  have inv := loopF_inv c (!(certsOf c P π).isEmpty) π (rsOf c P π)
  have fromSrvs : ∀ y ∈ (loopF c (!(certsOf c P π).isEmpty) π (rsOf c P π)).srvs, ∀ rt ∈ y.2.routes,
      rt.isRedir = true → rt = catchAllRoute c ∨ ∃ R, assocMem (rsOf c P π) R rt := by
    intro y hy rt hrt hred
    obtain ⟨x, hx, hrel⟩ := inv.fwd y hy
    rcases hrel.sound rt hrt with h | h
    · rw [initSrvs_user hx rt h] at hred; cases hred
    · exact h
  have fromNew : ∀ rt ∈ (newServer c π (loopF c (!(certsOf c P π).isEmpty) π (rsOf c P π))).routes,
      rt = catchAllRoute c ∨ ∃ R, assocMem (rsOf c P π) R rt := by
    intro rt hrt
    simp only [newServer, List.mem_append, List.mem_singleton] at hrt
    rcases hrt with h | h
    · exact Or.inr (inv.newR rt h)
    · exact Or.inl h
  unfold serversOf finalServers at hkv
  change kv ∈ (if _ then _ else _) at hkv
  split at hkv
  · exact fromSrvs kv hkv rt hrt hred
  · split at hkv
    · obtain ⟨y, hy, rfl⟩ := List.mem_map.mp hkv
      split at hrt
      · exact fromNew rt hrt
      · exact fromSrvs y hy rt hrt hred
    · rcases List.mem_append.mp hkv with h | h
      · exact fromSrvs kv h rt hrt hred
      · simp only [List.mem_singleton] at h
        subst h
        exact fromNew rt hrt



/-- the routes of redirect address `rr.1` have been handed to a server that listens there
    (inserted only if some name has a managed certificate — issue 4829), or queued for the
    generated redirect server when nobody listens there -/
def Placed (c : Config) (b : Bool) (st : LoopF) (rr : Addr × List Route) : Prop :=
  (∃ y ∈ st.srvs, hasListener y.2.listen rr.1 = true ∧ catchAllRoute c ∈ y.2.routes ∧
      (b = true → ∀ rt ∈ rr.2, rt ∈ y.2.routes)) ∨
  ((∀ y ∈ st.srvs, hasListener y.2.listen rr.1 = false) ∧ rr.1 ∈ st.newAddrs ∧ ∀ rt ∈ rr.2, rt ∈ st.newRoutes)

theorem receive_listen {c : Config} {b : Bool} {routes : List Route} {s : SrvOut} :
    (receive c b routes s).listen = s.listen := rfl

theorem stepF_placed_self {c : Config} {b : Bool} {π : Orders} {st : LoopF} {rr : Addr × List Route} :
    Placed c b (stepF c b π st rr) rr := by
  unfold stepF
  split
  · rename_i kv hfind
    have hp := List.find?_some hfind
    have hm := mem_pull.mp (List.mem_of_find?_eq_some hfind)
    left
    refine ⟨(kv.1, receive c b rr.2 kv.2), List.mem_map.mpr ⟨kv, hm, by simp⟩, by simpa [receive_listen] using hp, ?_, ?_⟩
    · exact mem_receive.mpr (Or.inr (Or.inl rfl))
    · intro hb rt hrt
      exact mem_receive.mpr (Or.inr (Or.inr ⟨hb, hrt⟩))
  · rename_i hfind
    right
    have hnone := List.find?_eq_none.mp hfind
    refine ⟨?_, by simp, fun rt hrt => by simp [hrt]⟩
    intro y hy
    have := hnone y (mem_pull.mpr hy)
    simpa using this

theorem stepF_placed_mono {c : Config} {b : Bool} {π : Orders} {st : LoopF} {rr rr' : Addr × List Route}
    (h : Placed c b st rr') : Placed c b (stepF c b π st rr) rr' := by
  unfold stepF
  split
  · rename_i kv hfind
    rcases h with ⟨y, hy, h1, h2, h3⟩ | ⟨h1, h2, h3⟩
    · left
      by_cases hk : y.1 = kv.1
      · refine ⟨(y.1, receive c b rr.2 y.2), List.mem_map.mpr ⟨y, hy, by simp [hk]⟩, by simpa [receive_listen] using h1,
          mem_receive.mpr (Or.inl h2), fun hb rt hrt => mem_receive.mpr (Or.inl (h3 hb rt hrt))⟩
      · exact ⟨y, List.mem_map.mpr ⟨y, hy, by simp [hk]⟩, h1, h2, h3⟩
    · right
      refine ⟨?_, h2, h3⟩
      intro y hy
      obtain ⟨y0, hy0, rfl⟩ := List.mem_map.mp hy
      split
      · simpa [receive_listen] using h1 y0 hy0
      · exact h1 y0 hy0
  · rcases h with h | ⟨h1, h2, h3⟩
    · exact Or.inl h
    · exact Or.inr ⟨h1, by simp [h2], fun rt hrt => by simp [h3 rt hrt]⟩

theorem foldF_placed {c : Config} {b : Bool} {π : Orders} :
    ∀ {l : RS} {st : LoopF} {rr : Addr × List Route},
      (rr ∈ l ∨ Placed c b st rr) → Placed c b (l.foldl (stepF c b π) st) rr
  | [], _, _, h => by
    rcases h with h | h
    · simp at h
    · exact h
  | rr0 :: l, st, rr, h => by
    simp only [List.foldl_cons]
    apply foldF_placed (l := l)
    rcases h with h | h
    · rcases List.mem_cons.mp h with rfl | h
      · exact Or.inr stepF_placed_self
      · exact Or.inl h
    · exact Or.inr (stepF_placed_mono h)

theorem loopF_placed (c : Config) (b : Bool) (π : Orders) (rs : RS) {rr : Addr × List Route} (h : rr ∈ rs) :
    Placed c b (loopF c b π rs) rr := by
  unfold loopF
  exact foldF_placed (Or.inl (mem_pull.mpr h))

theorem hasListener_redirAddr_self (c : Config) (a : Addr) : hasListener [redirAddr c a] (redirAddr c a) = true := by
  simp [hasListener, redirAddr]

theorem hasListener_of_mem {l : List Addr} {R : Addr} (h : R ∈ l) (hR : R.sp = R.ep) : hasListener l R = true := by
  simp only [hasListener, List.any_eq_true, Bool.and_eq_true, decide_eq_true_eq]
  exact ⟨R, h, ⟨rfl, by omega⟩, by omega⟩

/-- **where the redirect routes end up** (no user server carries the reserved name): every
    route of the redirect map sits in a final server that listens on its redirect address —
    provided some name has a managed certificate or no configured server listens there -/
theorem serversOf_redir_complete (c : Config) (P : Params) (π : Orders) (hres : c.reserved = none)
    {a : Addr} {rt : Route} (h : assocMem (rsOf c P π) (redirAddr c a) rt)
    (hins : (certsOf c P π).isEmpty = false ∨ ∀ s ∈ c.servers, hasListener s.listen (redirAddr c a) = false) :
    ∃ kv ∈ serversOf c P π, hasListener kv.2.listen (redirAddr c a) = true ∧ rt ∈ kv.2.routes := by
  obtain ⟨routes, hm, hrt⟩ := h
  have hp := loopF_placed c (!(certsOf c P π).isEmpty) π (rsOf c P π) hm
  have inv := loopF_inv c (!(certsOf c P π).isEmpty) π (rsOf c P π)
  have hsv : serversOf c P π = finalServers c π (loopF c (!(certsOf c P π).isEmpty) π (rsOf c P π)) := rfl
  rcases hp with ⟨y, hy, h1, _, h3⟩ | ⟨h1, h2, h3⟩
  · -- an existing server listens on the redirect address
    have hb : (!(certsOf c P π).isEmpty) = true := by
      rcases hins with h | h
      · simp [h]
      · exfalso
        obtain ⟨x, hx, hrel⟩ := inv.fwd y hy
        have hx' := mem_indexed hx
        obtain ⟨s, hs, hsx⟩ := List.mem_map.mp hx'
        have := h s hs
        rw [hrel.listen, ← hsx] at h1
        simp only [srvInit] at h1
        rw [this] at h1; cases h1
    have hin : rt ∈ y.2.routes := h3 hb rt hrt
    rw [hsv]
    unfold finalServers
    split
    · exact ⟨y, hy, h1, hin⟩
    · rw [hres]
      exact ⟨y, List.mem_append.mpr (Or.inl hy), h1, hin⟩
  · -- nobody listens there: the generated redirect server does
    rw [hsv]
    unfold finalServers
    split
    · rename_i he
      simp only [List.isEmpty_iff] at he
      rw [he] at h2; simp at h2
    · rw [hres]
      refine ⟨(c.servers.length, newServer c π (loopF c (!(certsOf c P π).isEmpty) π (rsOf c P π))),
        List.mem_append.mpr (Or.inr (by simp)), ?_, ?_⟩
      · apply hasListener_of_mem
        · simp only [newServer]
          exact mem_pullKeys.mpr h2
        · rfl
      · simp only [newServer, List.mem_append]
        exact Or.inl (h3 rt hrt)



/-! ### `if len(uniqueDomainsForCerts) != 0` (issue 4829): what happens when it is false -/

/-- with no managed names, existing servers receive catch-all redirects only -/
def NoIns (c : Config) (s0 : List (Nat × SrvOut)) (st : LoopF) : Prop :=
  ∀ y ∈ st.srvs, ∃ x ∈ s0, ∀ rt ∈ y.2.routes, rt ∈ x.2.routes ∨ rt = catchAllRoute c

theorem NoIns.step {c : Config} {s0 : List (Nat × SrvOut)} {st : LoopF} {π : Orders} {rr : Addr × List Route}
    (h : NoIns c s0 st) : NoIns c s0 (stepF c false π st rr) := by
  unfold stepF
  split
  · intro y hy
    obtain ⟨y0, hy0, rfl⟩ := List.mem_map.mp hy
    obtain ⟨x, hx, hs⟩ := h y0 hy0
    refine ⟨x, hx, ?_⟩
    split
    · intro rt hrt
      rcases mem_receive.mp hrt with h1 | h1 | ⟨h1, _⟩
      · exact hs rt h1
      · exact Or.inr h1
      · cases h1
    · exact hs
  · exact h

theorem NoIns.foldl {c : Config} {s0 : List (Nat × SrvOut)} {π : Orders} :
    ∀ {l : RS} {st : LoopF}, NoIns c s0 st → NoIns c s0 (l.foldl (stepF c false π) st)
  | [], _, h => h
  | _ :: l, _, h => by
    simp only [List.foldl_cons]
    exact NoIns.foldl (l := l) h.step

/-- no address is queued for the generated redirect server as long as every redirect address
    has a configured listener -/
theorem newAddrs_nil {c : Config} {rs : RS} {s0 : List (Nat × SrvOut)} {b : Bool} {π : Orders} :
    ∀ {l : RS} {st : LoopF}, FInv c rs s0 st → (∀ rr ∈ l, ∀ rt ∈ rr.2, assocMem rs rr.1 rt) →
      (∀ rr ∈ l, ∃ x ∈ s0, hasListener x.2.listen rr.1 = true) → st.newAddrs = [] →
        (l.foldl (stepF c b π) st).newAddrs = []
  | [], _, _, _, _, h => h
  | rr :: l, st, inv, hl, hrecv, h => by
    simp only [List.foldl_cons]
    apply newAddrs_nil (l := l) (inv.step (hl rr (by simp))) (fun rr' h' => hl rr' (List.mem_cons_of_mem _ h'))
      (fun rr' h' => hrecv rr' (List.mem_cons_of_mem _ h'))
    unfold stepF
    split
    · exact h
    · rename_i hfind
      exfalso
      obtain ⟨x, hx, hlx⟩ := hrecv rr (by simp)
      obtain ⟨y, hy, hrel⟩ := inv.bwd x hx
      have := List.find?_eq_none.mp hfind y (mem_pull.mpr hy)
      rw [hrel.listen] at this
      exact this hlx

/-- **the defect behind `redirect_exists_full_fails`, in general**: if no name ends up with
    a managed certificate and every redirect address already has a configured listener, then
    the only redirect routes anywhere are catch-alls to the HTTPS port — for every iteration
    order, whatever ports the names are served on -/
theorem only_catchAll_when_no_certs (c : Config) (P : Params) (π : Orders)
    (hc : (certsOf c P π).isEmpty = true)
    (hrecv : ∀ s ∈ c.servers, redirOn c s = true → ∀ a ∈ s.listen,
      ∃ s' ∈ c.servers, hasListener s'.listen (redirAddr c a) = true) :
    ∀ kv ∈ serversOf c P π, ∀ rt ∈ kv.2.routes, rt.isRedir = true → rt = catchAllRoute c := by
  have hsv : serversOf c P π = finalServers c π (loopF c false π (rsOf c P π)) := by
    unfold serversOf rsOf; rw [hc]; rfl
  have hno : NoIns c (initSrvs c) (loopF c false π (rsOf c P π)) := by
    unfold loopF
    exact NoIns.foldl (fun y hy => ⟨y, hy, fun rt h => Or.inl h⟩)
  have hnil : (loopF c false π (rsOf c P π)).newAddrs = [] := by
    unfold loopF
    apply newAddrs_nil (FInv.init c (rsOf c P π) _)
    · intro rr hrr rt hrt
      exact ⟨rr.2, mem_pull.mp hrr, hrt⟩
    · intro rr hrr
      have hm := mem_pull.mp hrr
      have hne : rr.2 ≠ [] := by
        -- every key of the redirect map has at least one route
        have : NonEmptyVals (rsOf c P π) := by
          unfold rsOf redirServers
          generalize pull π.addr _ = l
          suffices ∀ (l : DBA) (m : RS), NonEmptyVals m → NonEmptyVals (l.foldl (rsStep c) m) from
            this l [] (fun _ _ h => by simp at h)
          intro l
          induction l with
          | nil => intro m h; exact h
          | cons ad l ih => intro m h; exact ih _ (nonEmptyVals_append h)
        exact this rr.1 rr.2 hm
      cases hr : rr.2 with
      | nil => exact absurd hr hne
      | cons rt _ =>
        obtain ⟨a, doms, h1, _, h3, h4⟩ := rsOf_sound c P π (rt := rt) ⟨rr.2, hm, by rw [hr]; simp⟩
        cases doms with
        | nil => exact absurd rfl h3
        | cons d _ =>
          obtain ⟨s, hs, hron, _, ha⟩ := h4 d (by simp)
          obtain ⟨s', hs', hl⟩ := hrecv s hs hron a ha
          obtain ⟨i, hi⟩ := exists_indexed 0 (List.mem_map.mpr ⟨s', hs', rfl⟩ : srvInit c s' ∈ c.servers.map (srvInit c))
          exact ⟨(i, srvInit c s'), hi, by rw [h1]; exact hl⟩
    · rfl
  intro kv hkv rt hrt hred
  rw [hsv] at hkv
  unfold finalServers at hkv
  simp only [hnil, List.isEmpty_nil, if_true] at hkv
  obtain ⟨x, hx, hs⟩ := hno kv hkv
  rcases hs rt hrt with h | h
  · rw [initSrvs_user hx rt h] at hred; cases hred
  · exact h

theorem certs_only_qualifying' {c : Config} {P : Params} {π : Orders} {d : Name} (h : d ∈ certsOf c P π) :
    qualifies c P d = true := ((mem_certsOf c P π d).mp h).1

theorem servedPort_mem {c : Config} {d : Name} {q : Nat} (h : servedPort c d q = true) :
    q ∈ c.servers.flatMap fun s => s.listen.map (·.sp) := by
  simp only [servedPort, List.any_eq_true, Bool.and_eq_true, decide_eq_true_eq] at h
  obtain ⟨s, hs, _, a, ha, rfl⟩ := h
  exact List.mem_flatMap.mpr ⟨s, hs, List.mem_map.mpr ⟨a, ha, rfl⟩⟩

theorem qualifies_mem {c : Config} {P : Params} {d : Name} (h : qualifies c P d = true) :
    d ∈ c.servers.flatMap allHosts := by
  simp only [qualifies, List.any_eq_true, qualifiesOn, Bool.and_eq_true, hosts] at h
  obtain ⟨s, hs, ⟨⟨_, hh⟩, _⟩⟩ := h
  exact List.mem_flatMap.mpr ⟨s, hs, by simpa using hh.1⟩



/-! ### the automation policies do not depend on the iteration orders -/

def markIf (P : Params) (pols0 : List Policy) (ps : List Policy) (d : Name) : List Policy :=
  if listsName pols0 d then markPolicy P d ps else ps

def predI (P : Params) (pols0 : List Policy) (d : Name) : Bool :=
  !listsName pols0 d && !P.ts d && (!P.pub d || (P.ip d && pols0.isEmpty))

def predT (P : Params) (pols0 : List Policy) (d : Name) : Bool := !listsName pols0 d && P.ts d

theorem loopB_closed (P : Params) (pols0 : List Policy) :
    ∀ (ds : List Name) (b : LoopB), b.pols.map (·.subjects) = pols0.map (·.subjects) →
      (ds.foldl (stepB P pols0.isEmpty) b).pols = ds.foldl (markIf P pols0) b.pols ∧
      (ds.foldl (stepB P pols0.isEmpty) b).internal = b.internal ++ ds.filter (predI P pols0) ∧
      (ds.foldl (stepB P pols0.isEmpty) b).tailscale = b.tailscale ++ ds.filter (predT P pols0)
  | [], b, _ => by simp
  | d :: ds, b, hb => by
    simp only [List.foldl_cons]
    have hl : (b.pols.any fun p => p.subjects.contains d) = listsName pols0 d := listsName_congr hb d
    have key : stepB P pols0.isEmpty b d =
        ⟨markIf P pols0 b.pols d,
         if predI P pols0 d then b.internal ++ [d] else b.internal,
         if predT P pols0 d then b.tailscale ++ [d] else b.tailscale,
         if predT P pols0 d then b.uniq.filter (· ≠ d) else b.uniq⟩ := by
      unfold stepB markIf predI predT
      rw [hl]
      cases h1 : listsName pols0 d <;> cases h2 : P.ts d <;> cases h3 : P.pub d <;> cases h4 : P.ip d <;>
        cases h5 : pols0.isEmpty <;> simp
    have hb' : (stepB P pols0.isEmpty b d).pols.map (·.subjects) = pols0.map (·.subjects) := by
      rw [key]; simp only [markIf]
      split
      · rw [markPolicy_subjects]; exact hb
      · exact hb
    obtain ⟨h1, h2, h3⟩ := loopB_closed P pols0 ds _ hb'
    rw [h1, h2, h3, key]
    refine ⟨rfl, ?_, ?_⟩
    · simp only [List.filter_cons]
      split <;> simp
    · simp only [List.filter_cons]
      split <;> simp

def markOne (P : Params) (p : Policy) : Policy :=
  if p.issuers.isEmpty && allInternal P p then { p with issuers := [Issuer.internal] } else p

theorem markOne_idem (P : Params) (p : Policy) : markOne P (markOne P p) = markOne P p := by
  unfold markOne
  split
  · simp [allInternal]
  · rename_i h; simp [h]

theorem markOne_subjects (P : Params) (p : Policy) : (markOne P p).subjects = p.subjects := by
  unfold markOne; split <;> rfl

theorem markPolicy_cons (P : Params) (d : Name) (p : Policy) (ps : List Policy) :
    markPolicy P d (p :: ps) = if p.subjects.contains d then markOne P p :: ps else p :: markPolicy P d ps := rfl

theorem markPolicy_comm (P : Params) (d e : Name) :
    ∀ ps : List Policy, markPolicy P d (markPolicy P e ps) = markPolicy P e (markPolicy P d ps)
  | [] => rfl
  | p :: ps => by
    cases he : p.subjects.contains e <;> cases hd : p.subjects.contains d <;>
      simp only [markPolicy_cons, he, hd, if_true, if_false, Bool.false_eq_true, markOne_subjects, markOne_idem,
        markPolicy_comm P d e ps]

theorem markIf_comm (P : Params) (pols0 : List Policy) (ps : List Policy) (d e : Name) :
    markIf P pols0 (markIf P pols0 ps d) e = markIf P pols0 (markIf P pols0 ps e) d := by
  unfold markIf
  split <;> split <;> first | rfl | exact markPolicy_comm P e d ps

theorem nodup_addSet {l : List Name} {d : Name} (h : l.Nodup) : (addSet l d).Nodup := by
  unfold addSet
  split
  · exact h
  · rename_i hc
    rw [List.nodup_append]
    refine ⟨h, by simp, ?_⟩
    intro a ha b hb
    simp only [List.mem_singleton] at hb
    subst hb
    intro e; subst e
    exact hc (by simpa using ha)

theorem nodup_foldl_addSet : ∀ {ds l : List Name}, l.Nodup → (ds.foldl addSet l).Nodup
  | [], _, h => h
  | _ :: ds, _, h => by
    simp only [List.foldl_cons]
    exact nodup_foldl_addSet (ds := ds) (nodup_addSet h)

theorem nodup_mainLoop_uniq (c : Config) (P : Params) :
    ∀ {l : List (Nat × Server)} {st : List Name × RD}, st.1.Nodup → (l.foldl (mainStep c P) st).1.Nodup
  | [], _, h => h
  | ks :: l, st, h => by
    simp only [List.foldl_cons]
    apply nodup_mainLoop_uniq c P (l := l)
    unfold mainStep
    split
    · exact nodup_foldl_addSet h
    · exact h

theorem uniq_perm (c : Config) (P : Params) (π π' : Orders) : (mainLoop c P π).1.Perm (mainLoop c P π').1 := by
  have h1 : (mainLoop c P π).1.Nodup := by unfold mainLoop; exact nodup_mainLoop_uniq c P List.nodup_nil
  have h2 : (mainLoop c P π').1.Nodup := by unfold mainLoop; exact nodup_mainLoop_uniq c P List.nodup_nil
  rw [List.perm_ext_iff_of_nodup h1 h2]
  intro d
  rw [mem_uniq_iff, mem_uniq_iff]

theorem processed_perm (c : Config) (P : Params) (π π' : Orders) :
    (pullKeys π.uniq (mainLoop c P π).1).Perm (pullKeys π'.uniq (mainLoop c P π').1) :=
  ((pullKeys_perm _ _).trans (uniq_perm c P π π')).trans (pullKeys_perm _ _).symm

theorem loopB_pols_eq (c : Config) (P : Params) (π π' : Orders) :
    (loopB P c.policies π (mainLoop c P π).1).pols = (loopB P c.policies π' (mainLoop c P π').1).pols := by
  unfold loopB
  rw [(loopB_closed P c.policies _ _ rfl).1, (loopB_closed P c.policies _ _ rfl).1]
  exact List.Perm.foldl_eq' (processed_perm c P π π') (fun x _ y _ z => markIf_comm P c.policies z x y) _

theorem loopB_internal_perm (c : Config) (P : Params) (π π' : Orders) :
    (loopB P c.policies π (mainLoop c P π).1).internal.Perm (loopB P c.policies π' (mainLoop c P π').1).internal := by
  unfold loopB
  rw [(loopB_closed P c.policies _ _ rfl).2.1, (loopB_closed P c.policies _ _ rfl).2.1]
  simpa using (processed_perm c P π π').filter _

theorem loopB_tailscale_perm (c : Config) (P : Params) (π π' : Orders) :
    (loopB P c.policies π (mainLoop c P π).1).tailscale.Perm (loopB P c.policies π' (mainLoop c P π').1).tailscale := by
  unfold loopB
  rw [(loopB_closed P c.policies _ _ rfl).2.2, (loopB_closed P c.policies _ _ rfl).2.2]
  simpa using (processed_perm c P π π').filter _

theorem samePolicy_refl (p : Policy) : samePolicy p p := ⟨List.Perm.refl _, rfl, rfl⟩

theorem samePolicies_refl : ∀ l : List Policy, samePolicies l l
  | [] => trivial
  | p :: ps => ⟨samePolicy_refl p, samePolicies_refl ps⟩

theorem supersetOf_perm {P : Params} {subs subs' : List Name} {ex ex' : Policy}
    (h : subs.Perm subs') (he : ex.subjects.Perm ex'.subjects) : supersetOf P subs ex = supersetOf P subs' ex' := by
  unfold supersetOf
  rw [h.any_eq]
  congr 1
  funext s
  exact he.any_eq

theorem addPolicy_same {P : Params} {ap ap' : Policy} (ha : samePolicy ap ap') :
    ∀ {pols pols' : List Policy}, samePolicies pols pols' → samePolicies (addPolicy P ap pols) (addPolicy P ap' pols')
  | [], [], _ => ⟨ha, trivial⟩
  | [], _ :: _, h => by cases h
  | _ :: _, [], h => by cases h
  | ex :: rest, ex' :: rest', h => by
    obtain ⟨h1, h2⟩ := h
    unfold addPolicy
    rw [supersetOf_perm ha.1 h1.1, h1.1.length_eq, ha.1.length_eq]
    split
    · exact ⟨ha, h1, h2⟩
    · exact ⟨h1, addPolicy_same ha h2⟩

/-- the automation policies are the same (up to the order of the subjects of the implicit
    internal / tailscale policies) for every iteration order -/
theorem policies_same (c : Config) (P : Params) (π π' : Orders) :
    samePolicies (policiesOf c P π) (policiesOf c P π') := by
  unfold policiesOf createPolicies
  rw [loopB_pols_eq c P π π']
  have hi := loopB_internal_perm c P π π'
  have ht := loopB_tailscale_perm c P π π'
  generalize (loopB P c.policies π' (mainLoop c P π').1).pols = pols
  have h1 : samePolicies
      (withInternal P (baseOf (pols.map fillDefault)) (loopB P c.policies π (mainLoop c P π).1).internal (withBase P (pols.map fillDefault)))
      (withInternal P (baseOf (pols.map fillDefault)) (loopB P c.policies π' (mainLoop c P π').1).internal (withBase P (pols.map fillDefault))) := by
    unfold withInternal
    have : (loopB P c.policies π (mainLoop c P π).1).internal.isEmpty = (loopB P c.policies π' (mainLoop c P π').1).internal.isEmpty := by
      have := hi.length_eq
      cases h1 : (loopB P c.policies π (mainLoop c P π).1).internal <;>
        cases h2 : (loopB P c.policies π' (mainLoop c P π').1).internal <;> simp_all
    rw [this]
    split
    · exact samePolicies_refl _
    · apply addPolicy_same _ (samePolicies_refl _)
      exact ⟨hi, rfl, rfl⟩
  unfold withTailscale
  have : (loopB P c.policies π (mainLoop c P π).1).tailscale.isEmpty = (loopB P c.policies π' (mainLoop c P π').1).tailscale.isEmpty := by
    have := ht.length_eq
    cases h1 : (loopB P c.policies π (mainLoop c P π).1).tailscale <;>
      cases h2 : (loopB P c.policies π' (mainLoop c P π').1).tailscale <;> simp_all
  rw [this]
  split
  · exact h1
  · apply addPolicy_same _ h1
    exact ⟨ht, rfl, rfl⟩



/-! ### the configured servers keep their listeners; their flags do not depend on the orders -/

def flagsOf (so : SrvOut) : List Addr × Bool × Nat := (so.listen, so.disabled, so.tls)

theorem lookupSrv_indexed : ∀ (l : List SrvOut) (n k : Nat), n ≤ k → lookupSrv k (indexed l n) = l[k - n]?
  | [], _, _, _ => by simp [indexed, lookupSrv]
  | x :: xs, n, k, h => by
    simp only [indexed, lookupSrv]
    by_cases e : n = k
    · subst e; simp
    · rw [if_neg e, lookupSrv_indexed xs (n + 1) k (by omega)]
      have : k - n = (k - (n + 1)) + 1 := by omega
      rw [this]; simp

theorem lookupSrv_map_flags (k : Nat) (f : Nat × SrvOut → Nat × SrvOut)
    (hf : ∀ kv, (f kv).1 = kv.1 ∧ flagsOf (f kv).2 = flagsOf kv.2) :
    ∀ l : List (Nat × SrvOut), (lookupSrv k (l.map f)).map flagsOf = (lookupSrv k l).map flagsOf
  | [] => rfl
  | kv :: rest => by
    simp only [List.map_cons, lookupSrv, (hf kv).1]
    split
    · simp [(hf kv).2]
    · exact lookupSrv_map_flags k f hf rest

theorem stepF_flags (c : Config) (b : Bool) (π : Orders) (st : LoopF) (rr : Addr × List Route) (k : Nat) :
    (lookupSrv k (stepF c b π st rr).srvs).map flagsOf = (lookupSrv k st.srvs).map flagsOf := by
  unfold stepF
  split
  · apply lookupSrv_map_flags
    intro kv
    split <;> simp [flagsOf, receive]
  · rfl

theorem foldF_flags (c : Config) (b : Bool) (π : Orders) (k : Nat) :
    ∀ (l : RS) (st : LoopF), (lookupSrv k (l.foldl (stepF c b π) st).srvs).map flagsOf = (lookupSrv k st.srvs).map flagsOf
  | [], _ => rfl
  | rr :: l, st => by
    simp only [List.foldl_cons]
    rw [foldF_flags c b π k l, stepF_flags]

theorem lookupSrv_append_of_isSome {k : Nat} {l l' : List (Nat × SrvOut)} (h : (lookupSrv k l).isSome = true) :
    lookupSrv k (l ++ l') = lookupSrv k l := by
  induction l with
  | nil => simp [lookupSrv] at h
  | cons kv rest ih =>
    simp only [List.cons_append, lookupSrv] at h ⊢
    split
    · rfl
    · rename_i hk; simp only [hk, if_false] at h; exact ih h

/-- **the configured servers' listeners and flags**, for every iteration order: a server
    keeps its listen list; it is marked disabled exactly when it was disabled or listens only
    on the HTTP port; it ends with TLS connection policies exactly by the rule `tlsOut` -/
theorem server_flags (c : Config) (P : Params) (π : Orders) (hres : c.reserved = none) (k : Nat) (s : Server)
    (hk : c.servers[k]? = some s) :
    obsAt (phase1Result c P π) k flagsOf = some (s.listen, disabledOut c s, tlsOut c s) := by
  unfold obsAt phase1Result
  simp only
  have h0 : (lookupSrv k (initSrvs c)).map flagsOf = some (s.listen, disabledOut c s, tlsOut c s) := by
    unfold initSrvs
    rw [lookupSrv_indexed _ 0 k (Nat.zero_le _)]
    simp [hk, flagsOf, srvInit]
  have h1 : (lookupSrv k (loopF c (!(certsOf c P π).isEmpty) π (rsOf c P π)).srvs).map flagsOf =
      some (s.listen, disabledOut c s, tlsOut c s) := by
    unfold loopF
    rw [foldF_flags]
    exact h0
  change (lookupSrv k (finalServers c π (loopF c (!(certsOf c P π).isEmpty) π (rsOf c P π)))).map flagsOf = _
  unfold finalServers
  split
  · exact h1
  · rw [hres]
    simp only
    rw [lookupSrv_append_of_isSome]
    · exact h1
    · cases hl : lookupSrv k (loopF c (!(certsOf c P π).isEmpty) π (rsOf c P π)).srvs with
      | none => rw [hl] at h1; simp at h1
      | some => rfl



/-! ### where the redirect routes are inserted -/

def noHost (l : List Route) : Prop := ∀ r ∈ l, r.hasHost = false

theorem lastHostIdx_append : ∀ (l1 l2 : List Route) (i : Nat) (acc : Option Nat),
    lastHostIdx (l1 ++ l2) i acc = lastHostIdx l2 (i + l1.length) (lastHostIdx l1 i acc)
  | [], l2, i, acc => by simp [lastHostIdx]
  | r :: l1, l2, i, acc => by
    simp only [List.cons_append, lastHostIdx, List.length_cons]
    rw [lastHostIdx_append l1 l2]
    congr 1; omega

theorem lastHostIdx_noHost : ∀ {l : List Route} (i : Nat) (acc : Option Nat), noHost l → lastHostIdx l i acc = acc
  | [], _, _, _ => rfl
  | r :: l, i, acc, h => by
    simp only [lastHostIdx, h r (by simp), Bool.false_eq_true, if_false]
    exact lastHostIdx_noHost _ _ (fun r' hr' => h r' (List.mem_cons_of_mem _ hr'))

/-- either no route has a host matcher, or the scan returns the position just after the last one -/
theorem lastHostIdx_spec : ∀ (l : List Route) (i : Nat) (acc : Option Nat),
    (lastHostIdx l i acc = acc ∧ noHost l) ∨
    ∃ j, lastHostIdx l i acc = some (i + j + 1) ∧ j < l.length ∧ noHost (l.drop (j + 1))
  | [], _, _ => Or.inl ⟨rfl, fun _ h => by simp at h⟩
  | r :: l, i, acc => by
    simp only [lastHostIdx]
    rcases lastHostIdx_spec l (i + 1) (if r.hasHost then some (i + 1) else acc) with ⟨h1, h2⟩ | ⟨j, h1, h2, h3⟩
    · by_cases hr : r.hasHost = true
      · right
        refine ⟨0, ?_, by simp, by simpa using h2⟩
        rw [h1]; simp [hr]
      · left
        refine ⟨by rw [h1]; simp [hr], ?_⟩
        intro r' hr'
        rcases List.mem_cons.mp hr' with rfl | h
        · simpa using hr
        · exact h2 r' h
    · right
      refine ⟨j + 1, ?_, by simp; omega, by simpa using h3⟩
      rw [h1]; congr 1; omega

theorem findLast_spec (u : List Route) : findLast u ≤ u.length ∧ noHost (u.drop (findLast u)) := by
  unfold findLast
  rcases lastHostIdx_spec u 0 none with ⟨h1, h2⟩ | ⟨j, h1, h2, h3⟩
  · rw [h1]; simp only [Nat.zero_le, List.drop_zero, true_and]; exact h2
  · rw [h1]; simp only [Nat.zero_add]; exact ⟨by omega, h3⟩

/-- the shape of a server's route list: the user routes `u`, cut at `findLast u`, with
    redirect routes `mid` in the cut and redirect routes `cs` at the end -/
def Shaped (u : List Route) (routes : List Route) : Prop :=
  ∃ mid cs, routes = u.take (findLast u) ++ mid ++ u.drop (findLast u) ++ cs ∧
    (∀ r ∈ mid, r.isRedir = true) ∧ (∀ r ∈ cs, r.isRedir = true)

theorem noHost_of_redir {l : List Route} (h : ∀ r ∈ l, r.isRedir = true) : noHost l := by
  intro r hr
  have := h r hr
  cases r with
  | user => simp [Route.isRedir] at this
  | redir => rfl

theorem findLast_append_noHost (A X : List Route) (hX : noHost X) : findLast (A ++ X) = findLast A := by
  unfold findLast
  rw [lastHostIdx_append, lastHostIdx_noHost _ _ hX]

theorem findLast_shaped {u mid cs : List Route} (hm : noHost mid) (hc : noHost cs) :
    findLast (u.take (findLast u) ++ mid ++ u.drop (findLast u) ++ cs) = findLast u := by
  have hd := (findLast_spec u).2
  have hrest : noHost (mid ++ u.drop (findLast u) ++ cs) := by
    intro r hr
    simp only [List.mem_append] at hr
    rcases hr with (h | h) | h
    · exact hm r h
    · exact hd r h
    · exact hc r h
  calc findLast (u.take (findLast u) ++ mid ++ u.drop (findLast u) ++ cs)
      = findLast (u.take (findLast u) ++ (mid ++ u.drop (findLast u) ++ cs)) := by simp [List.append_assoc]
    _ = findLast (u.take (findLast u)) := findLast_append_noHost _ _ hrest
    _ = findLast (u.take (findLast u) ++ u.drop (findLast u)) := (findLast_append_noHost _ _ hd).symm
    _ = findLast u := by rw [List.take_append_drop]

theorem Shaped.receive {c : Config} {u : List Route} {s : SrvOut} {b : Bool} {routes : List Route}
    (h : Shaped u s.routes) (hr : ∀ r ∈ routes, r.isRedir = true) : Shaped u (receive c b routes s).routes := by
  obtain ⟨mid, cs, he, hm, hc⟩ := h
  have hfl : findLast s.routes = findLast u := by
    rw [he]; exact findLast_shaped (noHost_of_redir hm) (noHost_of_redir hc)
  have hlen : (u.take (findLast u)).length = findLast u := by
    simp [List.length_take, Nat.min_eq_left (findLast_spec u).1]
  have hcatch : ∀ r ∈ cs ++ [catchAllRoute c], r.isRedir = true := by
    intro r hr'
    rcases List.mem_append.mp hr' with h | h
    · exact hc r h
    · simp only [List.mem_singleton] at h; subst h; rfl
  unfold CaddyModel.C11.receive
  cases b
  · exact ⟨mid, cs ++ [catchAllRoute c], by simp [he, List.append_assoc], hm, hcatch⟩
  · refine ⟨routes ++ mid, cs ++ [catchAllRoute c], ?_, ?_, hcatch⟩
    · simp only [if_true, hfl]
      have ht : s.routes.take (findLast u) = u.take (findLast u) := by
        rw [he, List.append_assoc, List.append_assoc, List.take_left' hlen]
      have hdr : s.routes.drop (findLast u) = mid ++ u.drop (findLast u) ++ cs := by
        rw [he, List.append_assoc, List.append_assoc, List.drop_left' hlen]
        simp [List.append_assoc]
      rw [ht, hdr]
      simp [List.append_assoc]
    · intro r hr'
      rcases List.mem_append.mp hr' with h | h
      · exact hr r h
      · exact hm r h

theorem Shaped.init (u : List Route) : Shaped u u :=
  ⟨[], [], by simp, fun _ h => by simp at h, fun _ h => by simp at h⟩

/-- every current server is one of the initial servers with a shaped route list -/
def ShapeInv (s0 : List (Nat × SrvOut)) (st : LoopF) : Prop :=
  ∀ y ∈ st.srvs, ∃ x ∈ s0, y.1 = x.1 ∧ Shaped x.2.routes y.2.routes

theorem ShapeInv.foldl {c : Config} {rs : RS} {s0 : List (Nat × SrvOut)} {b : Bool} {π : Orders} :
    ∀ {l : RS} {st : LoopF}, ShapeInv s0 st → (∀ rr ∈ l, ∀ rt ∈ rr.2, ∃ R, assocMem rs R rt) →
      (∀ R rt, assocMem rs R rt → rt.isRedir = true) → ShapeInv s0 (l.foldl (stepF c b π) st)
  | [], _, h, _, _ => h
  | rr :: l, st, h, hl, hred => by
    simp only [List.foldl_cons]
    apply ShapeInv.foldl (l := l) _ (fun rr' h' => hl rr' (List.mem_cons_of_mem _ h')) hred
    unfold stepF
    split
    · intro y hy
      obtain ⟨y0, hy0, rfl⟩ := List.mem_map.mp hy
      obtain ⟨x, hx, hk, hs⟩ := h y0 hy0
      refine ⟨x, hx, ?_⟩
      split
      · refine ⟨hk, hs.receive ?_⟩
        intro r hr
        obtain ⟨R, hR⟩ := hl rr (by simp) r hr
        exact hred R r hR
      · exact ⟨hk, hs⟩
    · exact h

theorem rsOf_isRedir (c : Config) (P : Params) (π : Orders) {R : Addr} {rt : Route}
    (h : assocMem (rsOf c P π) R rt) : rt.isRedir = true := by
  obtain ⟨a, doms, _, h2, _, _⟩ := rsOf_sound c P π h
  rw [h2]; rfl

/-- **position of the redirect routes**: in every configured server of the result (no user
    server carries the reserved name) the route list is the user routes cut just after the
    last route with a host matcher (at the top if there is none), redirect routes in the cut,
    redirect routes at the end — so the inserted redirects come after every user route with a
    host matcher and before the user's catch-all routes that follow -/
theorem serversOf_shaped (c : Config) (P : Params) (π : Orders) (hres : c.reserved = none)
    {kv : Nat × SrvOut} (hkv : kv ∈ serversOf c P π) (hk : kv.1 < c.servers.length) :
    ∃ s ∈ c.servers, Shaped (userRoutes s.routes 0) kv.2.routes := by
  have hinv : ShapeInv (initSrvs c) (loopF c (!(certsOf c P π).isEmpty) π (rsOf c P π)) := by
    unfold loopF
    apply ShapeInv.foldl (rs := rsOf c P π)
    · intro y hy; exact ⟨y, hy, rfl, Shaped.init _⟩
    · intro rr hrr rt hrt; exact ⟨rr.1, rr.2, mem_pull.mp hrr, hrt⟩
    · intro R rt h; exact rsOf_isRedir c P π h
  have fromSrvs : ∀ y ∈ (loopF c (!(certsOf c P π).isEmpty) π (rsOf c P π)).srvs,
      ∃ s ∈ c.servers, Shaped (userRoutes s.routes 0) y.2.routes := by
    intro y hy
    obtain ⟨x, hx, _, hs⟩ := hinv y hy
    obtain ⟨s, hs', hsx⟩ := List.mem_map.mp (mem_indexed hx)
    refine ⟨s, hs', ?_⟩
    rw [← hsx] at hs
    exact hs
  change kv ∈ finalServers c π _ at hkv
  unfold finalServers at hkv
  split at hkv
  · exact fromSrvs kv hkv
  · rw [hres] at hkv
    rcases List.mem_append.mp hkv with h | h
    · exact fromSrvs kv h
    · simp only [List.mem_singleton] at h
      subst h
      simp at hk



/-! ### DESIGN F16, the positive side: which addresses a key keeps does not depend on the
    order of the servers map unless `ambName` -/

def condOK (https : Nat) (a0 : Addr) (rd : RD) (d : Name) : Prop := hasKey rd d = false ∨ a0.sp = https

theorem rdStepDom_col {https : Nat} {a0 : Addr} {rd : RD} {d1 d : Name} {a : Addr} :
    assocMem (rdStepDom https a0 rd d1) d a ↔ assocMem rd d a ∨ (d = d1 ∧ a = a0 ∧ condOK https a0 rd d1) := by
  unfold rdStepDom condOK
  by_cases h : (!hasKey rd d1 || decide (a0.sp = https)) = true
  · rw [if_pos h, assocMem_append]
    have h' : hasKey rd d1 = false ∨ a0.sp = https := by simpa using h
    constructor
    · rintro (h1 | ⟨h1, h2⟩)
      · exact Or.inl h1
      · exact Or.inr ⟨h1, h2, h'⟩
    · rintro (h1 | ⟨h1, h2, _⟩)
      · exact Or.inl h1
      · exact Or.inr ⟨h1, h2⟩
  · rw [if_neg h]
    have h' : ¬(hasKey rd d1 = false ∨ a0.sp = https) := by simpa using h
    constructor
    · exact Or.inl
    · rintro (h1 | ⟨_, _, h3⟩)
      · exact h1
      · exact absurd h3 h'

theorem rdFoldDom_col {https : Nat} {a0 : Addr} {d : Name} {a : Addr} :
    ∀ {doms : List Name} {rd : RD},
      assocMem (doms.foldl (rdStepDom https a0) rd) d a ↔
        assocMem rd d a ∨ (d ∈ doms ∧ a = a0 ∧ condOK https a0 rd d)
  | [], rd => by simp
  | d1 :: rest, rd => by
    simp only [List.foldl_cons]
    rw [rdFoldDom_col (doms := rest), rdStepDom_col]
    by_cases e : d = d1
    · subst e
      have hk : hasKey (rdStepDom https a0 rd d) d = true := by rw [rdStepDom_hasKey]; simp
      constructor
      · rintro ((h | ⟨_, h2, h3⟩) | ⟨_, h2, h3⟩)
        · exact Or.inl h
        · exact Or.inr ⟨by simp, h2, h3⟩
        · refine Or.inr ⟨by simp, h2, ?_⟩
          rcases h3 with h3 | h3
          · rw [hk] at h3; cases h3
          · exact Or.inr h3
      · rintro (h | ⟨_, h2, h3⟩)
        · exact Or.inl (Or.inl h)
        · exact Or.inl (Or.inr ⟨rfl, h2, h3⟩)
    · have hk : hasKey (rdStepDom https a0 rd d1) d = hasKey rd d := by rw [rdStepDom_hasKey]; simp [e]
      simp only [condOK, hk, List.mem_cons, e, false_or, false_and, or_false]

/-- the addresses a server adds to the column of one of its keys, given whether the key
    already exists: every listener if the server has no names (catch-all key), else the
    listeners on the HTTPS port plus — only if the key is new — the first listener -/
def addedBy (c : Config) (s : Server) (has : Bool) : List Addr :=
  if (domainSet s).isEmpty then s.listen
  else s.listen.filter (fun a => decide (a.sp = httpsPort c)) ++ (if has then [] else s.listen.head?.toList)

theorem rdFoldAddr_col_cond {https : Nat} {s : Server} {d : Name} {a : Addr} (hd : d ∈ domainSet s) :
    ∀ {as : List Addr} {rd : RD},
      assocMem (as.foldl (rdStepAddr https (domainSet s)) rd) d a ↔
        assocMem rd d a ∨ (a ∈ as ∧ a.sp = https) ∨ (hasKey rd d = false ∧ as.head? = some a)
  | [], rd => by simp
  | a0 :: as, rd => by
    have hne : (domainSet s).isEmpty = false := by
      cases hl : domainSet s with
      | nil => rw [hl] at hd; simp at hd
      | cons => rfl
    simp only [List.foldl_cons]
    rw [rdFoldAddr_col_cond hd (as := as)]
    have hstep : ∀ a', assocMem (rdStepAddr https (domainSet s) rd a0) d a' ↔
        assocMem rd d a' ∨ (a' = a0 ∧ condOK https a0 rd d) := by
      intro a'
      unfold rdStepAddr
      rw [if_neg (by simp [hne]), rdFoldDom_col]
      simp [hd]
    have hk : hasKey (rdStepAddr https (domainSet s) rd a0) d = true := by
      rw [rdStepAddr_hasKey]
      have : (keysOf s).contains d = true := by
        simp only [keysOf, hne, Bool.false_eq_true, if_false]; simpa using hd
      rw [this]; simp
    rw [hstep, hk]
    simp only [condOK, List.mem_cons, List.head?_cons, Option.some.injEq, Bool.true_eq_false, false_and, or_false]
    constructor
    · rintro ((h | ⟨rfl, h | h⟩) | ⟨h1, h2⟩)
      · exact Or.inl h
      · exact Or.inr (Or.inr ⟨h, rfl⟩)
      · exact Or.inr (Or.inl ⟨Or.inl rfl, h⟩)
      · exact Or.inr (Or.inl ⟨Or.inr h1, h2⟩)
    · rintro (h | ⟨rfl | h1, h2⟩ | ⟨h1, h2⟩)
      · exact Or.inl (Or.inl h)
      · exact Or.inl (Or.inr ⟨rfl, Or.inr h2⟩)
      · exact Or.inr ⟨h1, h2⟩
      · exact Or.inl (Or.inr ⟨h2.symm, Or.inl h1⟩)

theorem rdFoldAddr_col_uncond {https : Nat} {s : Server} {a : Addr} (he : (domainSet s).isEmpty = true) :
    ∀ {as : List Addr} {rd : RD},
      assocMem (as.foldl (rdStepAddr https (domainSet s)) rd) 0 a ↔ assocMem rd 0 a ∨ a ∈ as
  | [], rd => by simp
  | a0 :: as, rd => by
    simp only [List.foldl_cons]
    rw [rdFoldAddr_col_uncond he (as := as)]
    unfold rdStepAddr
    rw [if_pos he, assocMem_append]
    simp only [List.mem_cons, true_and]
    constructor
    · rintro ((h | h) | h)
      · exact Or.inl h
      · exact Or.inr (Or.inl h)
      · exact Or.inr (Or.inr h)
    · rintro (h | h | h)
      · exact Or.inl (Or.inl h)
      · exact Or.inl (Or.inr h)
      · exact Or.inr h

/-- the column of a key the server contributes, after the server's turn -/
theorem rdStepSrv_col (c : Config) {s : Server} {d : Name} {a : Addr} {rd : RD} (hd : d ∈ keysOf s) :
    assocMem (rdStepSrv c s rd) d a ↔ assocMem rd d a ∨ a ∈ addedBy c s (hasKey rd d) := by
  unfold rdStepSrv addedBy
  rcases mem_keysOf_cases.mp hd with ⟨he, rfl⟩ | ⟨he, hds⟩
  · rw [rdFoldAddr_col_uncond he, if_pos he]
  · rw [rdFoldAddr_col_cond hds, if_neg (by simp [he])]
    simp only [List.mem_append, List.mem_filter, decide_eq_true_eq]
    cases hk : hasKey rd d
    · simp [Option.mem_toList]
    · simp

/-- the server adds to the columns of its own keys only -/
theorem rdStepSrv_col_other (c : Config) {s : Server} {d : Name} {a : Addr} {rd : RD} (hd : d ∉ keysOf s) :
    assocMem (rdStepSrv c s rd) d a ↔ assocMem rd d a := by
  unfold rdStepSrv
  constructor
  · intro h
    rcases rdFoldAddr_sound h with h | ⟨h1, _⟩
    · exact h
    · exact absurd h1 hd
  · exact rdFoldAddr_mono

def contributes (c : Config) (s : Server) (d : Name) : Prop := redirOn c s = true ∧ d ∈ keysOf s

/-- what a contributor keeps for key `d` when it comes first (π-free) -/
def keep (c : Config) (s : Server) : List Addr := addedBy c s false

theorem addedBy_indep {c : Config} {s : Server} {has : Bool} {a : Addr}
    (h : (domainSet s).isEmpty = true ∨ offHTTPS c s = false) : a ∈ addedBy c s has ↔ a ∈ keep c s := by
  unfold keep addedBy
  rcases h with h | h
  · simp [h]
  · split
    · rfl
    · cases has
      · rfl
      · simp only [List.mem_append, List.mem_filter, decide_eq_true_eq, if_true, List.not_mem_nil, or_false,
          Bool.false_eq_true, if_false, Option.mem_toList]
        constructor
        · exact Or.inl
        · rintro (h1 | h1)
          · exact h1
          · have hm : a ∈ s.listen := List.mem_of_mem_head? h1
            simp only [offHTTPS, List.any_eq_false, decide_eq_true_eq, Decidable.not_not] at h
            exact ⟨hm, h a hm⟩

theorem nodup_indexed_keys {α} : ∀ (l : List α) (n : Nat), ((indexed l n).map (·.1)).Nodup ∧ ∀ k ∈ (indexed l n).map (·.1), n ≤ k
  | [], _ => by simp [indexed]
  | x :: xs, n => by
    obtain ⟨h1, h2⟩ := nodup_indexed_keys xs (n + 1)
    simp only [indexed, List.map_cons, List.nodup_cons, List.mem_cons]
    refine ⟨⟨?_, h1⟩, ?_⟩
    · intro h; have := h2 n h; omega
    · rintro k (rfl | h)
      · exact Nat.le_refl _
      · have := h2 k h; omega

/-- the column of key `d` after the main loop over ANY duplicate-free selection of the
    configured servers, provided `d` is not ambiguous: exactly what each contributor keeps -/
theorem mainLoop_col (c : Config) (P : Params) (d : Name) (hamb : ambName c d = false) (a : Addr) :
    ∀ (l seen : List (Nat × Server)) (st : List Name × RD),
      (∀ ks ∈ seen ++ l, ks ∈ indexed c.servers 0) → ((seen ++ l).map (·.1)).Nodup → NonEmptyVals st.2 →
      (∀ a', assocMem st.2 d a' ↔ ∃ ks ∈ seen, contributes c ks.2 d ∧ a' ∈ keep c ks.2) →
      (assocMem (l.foldl (mainStep c P) st).2 d a ↔ ∃ ks ∈ seen ++ l, contributes c ks.2 d ∧ a ∈ keep c ks.2)
  | [], seen, st, _, _, _, hst => by simpa using hst a
  | ks :: l, seen, st, hsub, hnd, hne, hst => by
    simp only [List.foldl_cons]
    have hassoc : seen ++ ks :: l = (seen ++ [ks]) ++ l := by simp
    rw [hassoc] at hsub hnd ⊢
    apply mainLoop_col c P d hamb a l (seen ++ [ks]) _ hsub hnd (mainStep_rd_nonEmpty c P hne)
    intro a'
    by_cases hc : contributes c ks.2 d
    · -- the server contributes key d
      obtain ⟨hr, hk⟩ := hc
      have he := (redirOn_iff.mp hr).1
      have hstep : (mainStep c P st ks).2 = rdStepSrv c ks.2 st.2 := by
        unfold mainStep; simp [he, (redirOn_iff.mp hr).2]
      rw [hstep, rdStepSrv_col c hk, hst a']
      have hindep : a' ∈ addedBy c ks.2 (hasKey st.2 d) ↔ a' ∈ keep c ks.2 := by
        by_cases hcond : (domainSet ks.2).isEmpty = true ∨ offHTTPS c ks.2 = false
        · exact addedBy_indep hcond
        · -- a server with names of its own, off the HTTPS port: it must be the first contributor
          have hcond' : (domainSet ks.2).isEmpty = false ∧ offHTTPS c ks.2 = true := by
            constructor
            · cases h1 : (domainSet ks.2).isEmpty with
              | false => rfl
              | true => exact absurd (Or.inl h1) hcond
            · cases h2 : offHTTPS c ks.2 with
              | true => rfl
              | false => exact absurd (Or.inr h2) hcond
          have hnokey : hasKey st.2 d = false := by
            cases hh : hasKey st.2 d with
            | false => rfl
            | true =>
              exfalso
              obtain ⟨a'', ha''⟩ := assocMem_of_hasKey hne hh
              obtain ⟨ks', hks', hc', _⟩ := (hst a'').mp ha''
              have hne' : ks'.1 ≠ ks.1 := by
                intro e
                have := hnd
                simp only [List.map_append, List.map_cons, List.map_nil, List.append_assoc] at this
                rw [List.nodup_append] at this
                exact this.2.2 ks'.1 (List.mem_map.mpr ⟨ks', hks', rfl⟩) ks.1 (by simp) e
              have h1 := hsub ks (by simp)
              have h2 := hsub ks' (by simp [hks'])
              have : ambName c d = true := by
                simp only [ambName, List.any_eq_true, Bool.and_eq_true, decide_eq_true_eq, Bool.not_eq_true']
                exact ⟨ks, h1, ⟨⟨⟨⟨hr, by simpa using hk⟩, hcond'.1⟩, hcond'.2⟩, ks', h2, ⟨hne', hc'.1⟩, by simpa using hc'.2⟩⟩
              rw [hamb] at this; cases this
          rw [hnokey]; rfl
      rw [hindep]
      simp only [List.mem_append, List.mem_singleton]
      constructor
      · rintro (⟨ks', h1, h2⟩ | h)
        · exact ⟨ks', Or.inl h1, h2⟩
        · exact ⟨ks, Or.inr rfl, ⟨hr, hk⟩, h⟩
      · rintro ⟨ks', h1 | rfl, h2⟩
        · exact Or.inl ⟨ks', h1, h2⟩
        · exact Or.inr h2.2
    · -- the server does not contribute key d: the column is untouched
      have hsame : assocMem (mainStep c P st ks).2 d a' ↔ assocMem st.2 d a' := by
        unfold mainStep
        split
        · rename_i he
          simp only
          split
          · rfl
          · rename_i hr
            apply rdStepSrv_col_other
            intro hk
            exact hc ⟨redirOn_iff.mpr ⟨he, by simpa using hr⟩, hk⟩
        · rfl
      rw [hsame, hst a']
      simp only [List.mem_append, List.mem_singleton]
      constructor
      · rintro ⟨ks', h1, h2⟩; exact ⟨ks', Or.inl h1, h2⟩
      · rintro ⟨ks', h1 | rfl, h2⟩
        · exact ⟨ks', h1, h2⟩
        · exact absurd h2.1 hc

/-- **`redirDomains` is order-independent for every unambiguous key**: the addresses kept
    for `d` are what each contributing server keeps on its own -/
theorem redirDomains_col (c : Config) (P : Params) (π : Orders) (d : Name) (hamb : ambName c d = false) (a : Addr) :
    assocMem (mainLoop c P π).2 d a ↔ ∃ s ∈ c.servers, contributes c s d ∧ a ∈ keep c s := by
  unfold mainLoop
  have hperm := pull_perm π.srv (indexed c.servers 0)
  rw [mainLoop_col c P d hamb a (pull π.srv (indexed c.servers 0)) [] ([], [])
    (by intro ks h; simpa using mem_pull.mp (by simpa using h))
    (by simpa using ((hperm.map (·.1)).nodup_iff).mpr (nodup_indexed_keys c.servers 0).1)
    (fun _ _ h => by simp at h)
    (by intro a'; simp [assocMem_nil])]
  simp only [List.nil_append]
  constructor
  · rintro ⟨ks, h1, h2⟩; exact ⟨ks.2, mem_indexed (mem_pull.mp h1), h2⟩
  · rintro ⟨s, hs, h2⟩
    obtain ⟨i, hi⟩ := exists_indexed 0 hs
    exact ⟨(i, s), mem_pull.mpr hi, h2⟩



/-! ### the repaired code: ranging over sorted keys leaves no runtime order behind -/

theorem extract_none {κ α} [DecidableEq κ] {k : κ} : ∀ {m : List (κ × α)}, extract k m = none → ∀ kv ∈ m, kv.1 ≠ k
  | [], _, _, h => by simp at h
  | (k', w) :: rest, h, kv, hkv => by
    unfold extract at h
    split at h
    · cases h
    · rename_i hk
      cases hh : extract k rest with
      | some p => simp [hh] at h
      | none =>
        rcases List.mem_cons.mp hkv with rfl | h'
        · exact hk
        · exact extract_none hh kv h'

theorem pull_nil {κ α} [DecidableEq κ] : ∀ (π : List κ), pull π ([] : List (κ × α)) = []
  | [] => rfl
  | _ :: ks => by simp [pull, extract, pull_nil ks]

/-- a key list that names every key of a map with distinct keys fixes the iteration order -/
theorem pull_append_of_complete {κ α} [DecidableEq κ] : ∀ (ks ρ : List κ) (m : List (κ × α)),
    (m.map (·.1)).Nodup → (∀ kv ∈ m, kv.1 ∈ ks) → pull (ks ++ ρ) m = pull ks m
  | [], ρ, m, _, hsub => by
    cases m with
    | nil => simp [pull_nil, pull]
    | cons kv _ => exact absurd (hsub kv (by simp)) (by simp)
  | k :: ks, ρ, m, hnd, hsub => by
    simp only [List.cons_append, pull]
    cases hx : extract k m with
    | none =>
      simp only
      apply pull_append_of_complete ks ρ m hnd
      intro kv hkv
      rcases List.mem_cons.mp (hsub kv hkv) with h | h
      · exact absurd h (extract_none hx kv hkv)
      · exact h
    | some p =>
      obtain ⟨v, m'⟩ := p
      simp only
      have hp := extract_perm hx
      have hnd' : (((k, v) :: m').map (·.1)).Nodup := (hp.map (·.1)).nodup_iff.mp hnd
      simp only [List.map_cons, List.nodup_cons] at hnd'
      rw [pull_append_of_complete ks ρ m' hnd'.2]
      intro kv hkv
      rcases List.mem_cons.mp (hsub kv (hp.mem_iff.mpr (List.mem_cons_of_mem _ hkv))) with h | h
      · exfalso; apply hnd'.1; rw [← h]; exact List.mem_map.mpr ⟨kv, hkv, rfl⟩
      · exact h

theorem pullKeys_append_of_complete {κ} [DecidableEq κ] (ks ρ l : List κ) (hnd : l.Nodup) (hsub : ∀ k ∈ l, k ∈ ks) :
    pullKeys (ks ++ ρ) l = pullKeys ks l := by
  unfold pullKeys
  rw [pull_append_of_complete]
  · simpa [Function.comp_def] using hnd
  · intro kv hkv
    obtain ⟨k, hk, rfl⟩ := List.mem_map.mp hkv
    exact hsub k hk

/-- keys of an insertion-ordered map -/
def keysOfMap {κ α} (m : List (κ × α)) : List κ := m.map (·.1)

theorem keys_assocAppend {κ α} [DecidableEq κ] {k : κ} {v : α} : ∀ {m : List (κ × List α)},
    keysOfMap (assocAppend m k v) = if hasKey m k then keysOfMap m else keysOfMap m ++ [k]
  | [] => by simp [assocAppend, keysOfMap, hasKey]
  | (k0, vs0) :: rest => by
    unfold assocAppend
    split
    · rename_i hk; simp [keysOfMap, hasKey, hk]
    · rename_i hk
      have ih := @keys_assocAppend κ α _ k v rest
      simp only [keysOfMap, List.map_cons, hasKey, List.any_cons, hk, decide_false, Bool.false_or] at ih ⊢
      rw [ih]
      split <;> rename_i h' <;> simp [h']

theorem nodupKeys_assocAppend {κ α} [DecidableEq κ] {k : κ} {v : α} {m : List (κ × List α)}
    (h : (keysOfMap m).Nodup) : (keysOfMap (assocAppend m k v)).Nodup := by
  rw [keys_assocAppend]
  split
  · exact h
  · rename_i hk
    rw [List.nodup_append]
    refine ⟨h, by simp, ?_⟩
    intro a ha b hb
    simp only [List.mem_singleton] at hb
    subst hb
    intro e; subst e
    apply hk
    obtain ⟨kv, hkv, rfl⟩ := List.mem_map.mp ha
    exact hasKey_iff.mpr ⟨kv.2, hkv⟩

theorem nodupKeys_foldl {κ α β} [DecidableEq κ] (f : List (κ × List α) → β → List (κ × List α))
    (hf : ∀ m b, (keysOfMap m).Nodup → (keysOfMap (f m b)).Nodup) :
    ∀ (l : List β) (m : List (κ × List α)), (keysOfMap m).Nodup → (keysOfMap (l.foldl f m)).Nodup
  | [], _, h => h
  | b :: l, m, h => by
    simp only [List.foldl_cons]
    exact nodupKeys_foldl f hf l _ (hf m b h)

theorem nodupKeys_rdStepSrv (c : Config) (s : Server) (rd : RD) (h : (keysOfMap rd).Nodup) :
    (keysOfMap (rdStepSrv c s rd)).Nodup := by
  unfold rdStepSrv
  apply nodupKeys_foldl _ _ _ _ h
  intro m a hm
  unfold rdStepAddr
  split
  · exact nodupKeys_assocAppend hm
  · apply nodupKeys_foldl _ _ _ _ hm
    intro m' d hm'
    unfold rdStepDom
    split
    · exact nodupKeys_assocAppend hm'
    · exact hm'

theorem nodupKeys_mainLoop (c : Config) (P : Params) :
    ∀ (l : List (Nat × Server)) (st : List Name × RD), (keysOfMap st.2).Nodup → (keysOfMap (l.foldl (mainStep c P) st).2).Nodup
  | [], _, h => h
  | ks :: l, st, h => by
    simp only [List.foldl_cons]
    apply nodupKeys_mainLoop c P l
    unfold mainStep
    split
    · simp only
      split
      · exact h
      · exact nodupKeys_rdStepSrv c _ _ h
    · exact h

theorem nodupKeys_domainsByAddr (π : Orders) (rd : RD) : (keysOfMap (domainsByAddr π rd)).Nodup := by
  unfold domainsByAddr
  apply nodupKeys_foldl _ _ _ _ (by simp [keysOfMap])
  intro m da hm
  unfold dbaStep
  apply nodupKeys_foldl _ _ _ _ hm
  intro m' a hm'
  exact nodupKeys_assocAppend hm'

theorem nodupKeys_redirServers (c : Config) (π : Orders) (dba : DBA) : (keysOfMap (redirServers c π dba)).Nodup := by
  unfold redirServers
  apply nodupKeys_foldl _ _ _ _ (by simp [keysOfMap])
  intro m ad hm
  exact nodupKeys_assocAppend hm

/-- the sorted key lists name every key the maps of phase 1 can hold -/
structure Complete (c : Config) (κ : Orders) : Prop where
  srv : ∀ i, i < c.servers.length → i ∈ κ.srv
  recv : ∀ R i, i < c.servers.length → i ∈ κ.recv R
  uniq : ∀ d ∈ c.servers.flatMap allHosts, d ∈ κ.uniq
  dom0 : 0 ∈ κ.dom
  dom : ∀ d ∈ c.servers.flatMap allHosts, d ∈ κ.dom
  addr : ∀ s ∈ c.servers, ∀ a ∈ s.listen, a ∈ κ.addr
  raddr : ∀ s ∈ c.servers, ∀ a ∈ s.listen, redirAddr c a ∈ κ.raddr
  laddr : ∀ s ∈ c.servers, ∀ a ∈ s.listen, redirAddr c a ∈ κ.laddr

theorem indexed_key_lt {α} : ∀ {l : List α} {n i x}, (i, x) ∈ indexed l n → i < n + l.length
  | [], _, _, _, h => by simp [indexed] at h
  | y :: ys, n, i, x, h => by
    simp only [indexed, List.mem_cons, Prod.mk.injEq] at h
    rcases h with ⟨rfl, _⟩ | h
    · simp
    · have := indexed_key_lt h; simp only [List.length_cons]; omega

theorem mainLoop_over (c : Config) (P : Params) (κ ρ : Orders) (h : Complete c κ) :
    mainLoop c P (κ.over ρ) = mainLoop c P κ := by
  unfold mainLoop Orders.over
  simp only
  rw [pull_append_of_complete _ _ _ (nodup_indexed_keys c.servers 0).1]
  intro kv hkv
  have := indexed_key_lt (i := kv.1) (x := kv.2) hkv
  exact h.srv kv.1 (by omega)

theorem mem_keysOf_allHosts {c : Config} {s : Server} {d : Name} (hs : s ∈ c.servers) (hd : d ∈ keysOf s) :
    d = 0 ∨ d ∈ c.servers.flatMap allHosts := by
  rcases mem_keysOf_cases.mp hd with ⟨_, h⟩ | ⟨_, h⟩
  · exact Or.inl h
  · exact Or.inr (List.mem_flatMap.mpr ⟨s, hs, (mem_domainSet.mp h).1⟩)

theorem loopB_over (c : Config) (P : Params) (κ ρ : Orders) (h : Complete c κ) :
    loopB P c.policies (κ.over ρ) (mainLoop c P κ).1 = loopB P c.policies κ (mainLoop c P κ).1 := by
  unfold loopB Orders.over
  simp only
  rw [pullKeys_append_of_complete]
  · unfold mainLoop; exact nodup_mainLoop_uniq c P List.nodup_nil
  · intro d hd
    exact h.uniq d (qualifies_mem ((mem_uniq_iff c P κ d).mp hd))

theorem domainsByAddr_over (c : Config) (P : Params) (κ ρ : Orders) (h : Complete c κ) :
    domainsByAddr (κ.over ρ) (mainLoop c P κ).2 = domainsByAddr κ (mainLoop c P κ).2 := by
  unfold domainsByAddr Orders.over
  simp only
  have hne : NonEmptyVals (mainLoop c P κ).2 := by
    unfold mainLoop; exact mainLoop_rd_nonEmpty c P (fun _ _ h => by simp at h)
  rw [pull_append_of_complete]
  · unfold mainLoop; exact nodupKeys_mainLoop c P _ _ (by simp [keysOfMap])
  · intro kv hkv
    obtain ⟨a, ha⟩ := assocMem_of_hasKey hne (hasKey_iff.mpr ⟨kv.2, hkv⟩)
    unfold mainLoop at ha
    rcases mainLoop_rd_sound c P ha with h' | ⟨ks, hks, _, hk, _⟩
    · exact absurd h' assocMem_nil
    · rcases mem_keysOf_allHosts (mem_indexed (mem_pull.mp hks)) hk with h0 | h0
      · rw [h0]; exact h.dom0
      · exact h.dom _ h0

theorem dba_key_listen (c : Config) (P : Params) (π π' : Orders) {ad : Addr × List Name}
    (hm : ad ∈ domainsByAddr π' (mainLoop c P π).2) : ∃ s ∈ c.servers, ad.1 ∈ s.listen := by
  have hne := domainsByAddr_nonEmpty π' (mainLoop c P π).2 ad.1 ad.2 hm
  cases hd : ad.2 with
  | nil => exact absurd hd hne
  | cons d _ =>
    have : assocMem (mainLoop c P π).2 d ad.1 := mem_domainsByAddr.mp ⟨ad.2, hm, by rw [hd]; simp⟩
    unfold mainLoop at this
    rcases mainLoop_rd_sound c P this with h' | ⟨ks, hks, _, _, ha⟩
    · exact absurd h' assocMem_nil
    · exact ⟨ks.2, mem_indexed (mem_pull.mp hks), ha⟩

theorem redirServers_over (c : Config) (P : Params) (κ ρ : Orders) (h : Complete c κ) :
    redirServers c (κ.over ρ) (domainsByAddr κ (mainLoop c P κ).2) =
      redirServers c κ (domainsByAddr κ (mainLoop c P κ).2) := by
  unfold redirServers Orders.over
  simp only
  rw [pull_append_of_complete _ _ _ (nodupKeys_domainsByAddr κ _)]
  intro kv hkv
  obtain ⟨s, hs, ha⟩ := dba_key_listen c P κ κ hkv
  exact h.addr s hs _ ha

theorem rsOf_nonEmpty (c : Config) (P : Params) (π : Orders) : NonEmptyVals (rsOf c P π) := by
  unfold rsOf redirServers
  generalize pull π.addr _ = l
  suffices ∀ (l : DBA) (m : RS), NonEmptyVals m → NonEmptyVals (l.foldl (rsStep c) m) from
    this l [] (fun _ _ h => by simp at h)
  intro l
  induction l with
  | nil => intro m h; exact h
  | cons ad l ih => intro m h; exact ih _ (nonEmptyVals_append h)

theorem rs_key_listen (c : Config) (P : Params) (π : Orders) {rr : Addr × List Route}
    (hm : rr ∈ rsOf c P π) : ∃ s ∈ c.servers, ∃ a ∈ s.listen, rr.1 = redirAddr c a := by
  have hne := rsOf_nonEmpty c P π rr.1 rr.2 hm
  cases hr : rr.2 with
  | nil => exact absurd hr hne
  | cons rt _ =>
    obtain ⟨a, doms, h1, _, h3, h4⟩ := rsOf_sound c P π (rt := rt) ⟨rr.2, hm, by rw [hr]; simp⟩
    cases doms with
    | nil => exact absurd rfl h3
    | cons d _ =>
      obtain ⟨s, hs, _, _, ha⟩ := h4 d (by simp)
      exact ⟨s, hs, a, ha, h1⟩



theorem stepF_keys (c : Config) (b : Bool) (π : Orders) (st : LoopF) (rr : Addr × List Route) :
    keysOfMap (stepF c b π st rr).srvs = keysOfMap st.srvs := by
  unfold stepF
  split
  · simp only [keysOfMap, List.map_map]
    apply List.map_congr_left
    intro kv _
    simp only [Function.comp]
    split <;> rfl
  · rfl

theorem initSrvs_keys_ok (c : Config) (κ : Orders) (h : Complete c κ) (R : Addr) (srvs : List (Nat × SrvOut))
    (hk : keysOfMap srvs = keysOfMap (initSrvs c)) :
    (srvs.map (·.1)).Nodup ∧ ∀ kv ∈ srvs, kv.1 ∈ κ.recv R := by
  have hn := nodup_indexed_keys (c.servers.map (srvInit c)) 0
  constructor
  · have : srvs.map (·.1) = keysOfMap (initSrvs c) := hk
    rw [this]; exact hn.1
  · intro kv hkv
    have : kv.1 ∈ keysOfMap (initSrvs c) := by rw [← hk]; exact List.mem_map.mpr ⟨kv, hkv, rfl⟩
    obtain ⟨kv0, hkv0, he⟩ := List.mem_map.mp this
    have hlt := indexed_key_lt (i := kv0.1) (x := kv0.2) hkv0
    rw [← he]
    exact h.recv R kv0.1 (by simpa using hlt)

theorem stepF_over (c : Config) (b : Bool) (κ ρ : Orders) (h : Complete c κ) (st : LoopF) (rr : Addr × List Route)
    (hk : keysOfMap st.srvs = keysOfMap (initSrvs c)) :
    stepF c b (κ.over ρ) st rr = stepF c b κ st rr := by
  obtain ⟨h1, h2⟩ := initSrvs_keys_ok c κ h rr.1 st.srvs hk
  unfold stepF Orders.over
  simp only
  rw [pull_append_of_complete _ _ _ h1 h2]

theorem foldF_over (c : Config) (b : Bool) (κ ρ : Orders) (h : Complete c κ) :
    ∀ (l : RS) (st : LoopF), keysOfMap st.srvs = keysOfMap (initSrvs c) →
      l.foldl (stepF c b (κ.over ρ)) st = l.foldl (stepF c b κ) st
  | [], _, _ => rfl
  | rr :: l, st, hk => by
    simp only [List.foldl_cons]
    rw [stepF_over c b κ ρ h st rr hk]
    exact foldF_over c b κ ρ h l _ (by rw [stepF_keys]; exact hk)

theorem loopF_over (c : Config) (P : Params) (b : Bool) (κ ρ : Orders) (h : Complete c κ) :
    loopF c b (κ.over ρ) (rsOf c P κ) = loopF c b κ (rsOf c P κ) := by
  unfold loopF
  have : pull (κ.over ρ).raddr (rsOf c P κ) = pull κ.raddr (rsOf c P κ) := by
    unfold Orders.over
    simp only
    rw [pull_append_of_complete _ _ _ (by unfold rsOf; exact nodupKeys_redirServers c κ _)]
    intro kv hkv
    obtain ⟨s, hs, a, ha, he⟩ := rs_key_listen c P κ hkv
    rw [he]; exact h.raddr s hs a ha
  rw [this]
  exact foldF_over c b κ ρ h _ _ rfl

theorem stepF_newAddrs (c : Config) (b : Bool) (π : Orders) (st : LoopF) (rr : Addr × List Route) :
    (stepF c b π st rr).newAddrs = st.newAddrs ∨ (stepF c b π st rr).newAddrs = st.newAddrs ++ [rr.1] := by
  unfold stepF
  split
  · exact Or.inl rfl
  · exact Or.inr rfl

theorem foldF_newAddrs (c : Config) (b : Bool) (π : Orders) :
    ∀ (l : RS) (st : LoopF), (keysOfMap l).Nodup → st.newAddrs.Nodup → (∀ R ∈ st.newAddrs, R ∉ keysOfMap l) →
      (l.foldl (stepF c b π) st).newAddrs.Nodup ∧
      ∀ R ∈ (l.foldl (stepF c b π) st).newAddrs, R ∈ st.newAddrs ∨ R ∈ keysOfMap l
  | [], _, _, h, _ => ⟨h, fun _ h' => Or.inl h'⟩
  | rr :: l, st, hl, hn, hd => by
    simp only [List.foldl_cons]
    simp only [keysOfMap, List.map_cons, List.nodup_cons] at hl
    have hstep : (stepF c b π st rr).newAddrs.Nodup ∧ (∀ R ∈ (stepF c b π st rr).newAddrs, R ∉ keysOfMap l) ∧
        ∀ R ∈ (stepF c b π st rr).newAddrs, R ∈ st.newAddrs ∨ R = rr.1 := by
      rcases stepF_newAddrs c b π st rr with e | e
      · rw [e]
        refine ⟨hn, ?_, fun R hR => Or.inl hR⟩
        intro R hR hin
        exact hd R hR (by simp only [keysOfMap, List.map_cons]; exact List.mem_cons_of_mem _ hin)
      · rw [e]
        refine ⟨?_, ?_, ?_⟩
        · rw [List.nodup_append]
          refine ⟨hn, by simp, ?_⟩
          intro a ha b' hb
          simp only [List.mem_singleton] at hb
          subst hb
          intro e'; subst e'
          exact hd _ ha (by simp [keysOfMap])
        · intro R hR hin
          rcases List.mem_append.mp hR with h' | h'
          · exact hd R h' (by simp only [keysOfMap, List.map_cons]; exact List.mem_cons_of_mem _ hin)
          · simp only [List.mem_singleton] at h'
            subst h'
            exact hl.1 hin
        · intro R hR
          rcases List.mem_append.mp hR with h' | h'
          · exact Or.inl h'
          · exact Or.inr (by simpa using h')
    obtain ⟨h1, h2⟩ := foldF_newAddrs c b π l _ hl.2 hstep.1 hstep.2.1
    refine ⟨h1, ?_⟩
    intro R hR
    rcases h2 R hR with h' | h'
    · rcases hstep.2.2 R h' with h'' | h''
      · exact Or.inl h''
      · exact Or.inr (by simp [keysOfMap, h''])
    · exact Or.inr (by simp only [keysOfMap, List.map_cons]; exact List.mem_cons_of_mem _ h')

theorem finalServers_over (c : Config) (P : Params) (b : Bool) (κ ρ : Orders) (h : Complete c κ) :
    finalServers c (κ.over ρ) (loopF c b κ (rsOf c P κ)) = finalServers c κ (loopF c b κ (rsOf c P κ)) := by
  have hperm := pull_perm κ.raddr (rsOf c P κ)
  have hnd : (keysOfMap (pull κ.raddr (rsOf c P κ))).Nodup := by
    have h0 : (keysOfMap (rsOf c P κ)).Nodup := by unfold rsOf; exact nodupKeys_redirServers c κ _
    have hp : (keysOfMap (pull κ.raddr (rsOf c P κ))).Perm (keysOfMap (rsOf c P κ)) :=
      hperm.map (fun x : Addr × List Route => x.1)
    exact hp.nodup_iff.mpr h0
  obtain ⟨h1, h2⟩ := foldF_newAddrs c b κ (pull κ.raddr (rsOf c P κ))
    ⟨indexed (c.servers.map (srvInit c)) 0, [], []⟩ hnd List.nodup_nil (fun _ h' => by simp at h')
  have hnew : newServer c (κ.over ρ) (loopF c b κ (rsOf c P κ)) = newServer c κ (loopF c b κ (rsOf c P κ)) := by
    unfold newServer Orders.over
    simp only
    rw [pullKeys_append_of_complete _ _ _ (by unfold loopF; exact h1)]
    intro R hR
    have := h2 R (by unfold loopF at hR; exact hR)
    rcases this with h' | h'
    · simp at h'
    · obtain ⟨kv, hkv, rfl⟩ := List.mem_map.mp h'
      obtain ⟨s, hs, a, ha, he⟩ := rs_key_listen c P κ (mem_pull.mp hkv)
      rw [he]; exact h.laddr s hs a ha
  unfold finalServers
  rw [hnew]

theorem certsOf_over (c : Config) (P : Params) (κ ρ : Orders) (h : Complete c κ) :
    certsOf c P (κ.over ρ) = certsOf c P κ := by
  unfold certsOf
  rw [mainLoop_over c P κ ρ h, loopB_over c P κ ρ h]

theorem policiesOf_over (c : Config) (P : Params) (κ ρ : Orders) (h : Complete c κ) :
    policiesOf c P (κ.over ρ) = policiesOf c P κ := by
  unfold policiesOf
  rw [mainLoop_over c P κ ρ h, loopB_over c P κ ρ h]

theorem serversOf_over (c : Config) (P : Params) (κ ρ : Orders) (h : Complete c κ) :
    serversOf c P (κ.over ρ) = serversOf c P κ := by
  have hrs : redirServers c (κ.over ρ) (domainsByAddr (κ.over ρ) (mainLoop c P (κ.over ρ)).2) = rsOf c P κ := by
    rw [mainLoop_over c P κ ρ h, domainsByAddr_over c P κ ρ h, redirServers_over c P κ ρ h]; rfl
  unfold serversOf
  rw [hrs, certsOf_over c P κ ρ h, loopF_over c P _ κ ρ h, finalServers_over c P _ κ ρ h]
  rfl

/-- **the repaired code leaves no runtime order behind**: when the sorted key lists `κ` name
    every key, the outcome does not depend on the runtime order `ρ` of any map -/
theorem phase1_over (c : Config) (P : Params) (κ ρ : Orders) (h : Complete c κ) :
    phase1 c P (κ.over ρ) = phase1 c P κ := by
  unfold phase1 phase1Result
  rw [policiesOf_over c P κ ρ h, serversOf_over c P κ ρ h, certsOf_over c P κ ρ h]



/-! ### every listener on the HTTPS port is kept (the `bind` case, upstream issue 3443) -/

theorem mainLoop_keeps_https (c : Config) (P : Params) {d : Name} {a : Addr} :
    ∀ {l : List (Nat × Server)} {st : List Name × RD} {ks : Nat × Server},
      ks ∈ l → redirOn c ks.2 = true → d ∈ keysOf ks.2 → a ∈ ks.2.listen → a.sp = httpsPort c →
        assocMem (l.foldl (mainStep c P) st).2 d a
  | ks0 :: l, st, ks, hm, hr, hd, ha, hp => by
    simp only [List.foldl_cons]
    rcases List.mem_cons.mp hm with rfl | hm
    · apply mainLoop_rd_mono
      have hstep : (mainStep c P st ks).2 = rdStepSrv c ks.2 st.2 := by
        unfold mainStep; simp [(redirOn_iff.mp hr).1, (redirOn_iff.mp hr).2]
      rw [hstep, rdStepSrv_col c hd]
      right
      unfold addedBy
      split
      · exact ha
      · exact List.mem_append.mpr (Or.inl (List.mem_filter.mpr ⟨ha, by simpa using hp⟩))
    · exact mainLoop_keeps_https c P hm hr hd ha hp



/-! ### what a plain HTTP request gets (`serve`) -/

theorem serve_append_left {P : Params} {us : List URoute} {d : Option Name} :
    ∀ {l1 l2 : List Route}, (∃ r ∈ l1, (routeServes P us d r).isSome = true) → serve P us d (l1 ++ l2) = serve P us d l1
  | [], _, h => by obtain ⟨r, hr, _⟩ := h; simp at hr
  | r :: l1, l2, h => by
    simp only [List.cons_append, serve]
    cases hr : routeServes P us d r with
    | some a => rfl
    | none =>
      simp only
      apply serve_append_left
      obtain ⟨r', hr', hs⟩ := h
      rcases List.mem_cons.mp hr' with rfl | h'
      · rw [hr] at hs; cases hs
      · exact ⟨r', h', hs⟩

theorem serve_eq_of_mem {P : Params} {us : List URoute} {d : Option Name} :
    ∀ {l : List Route}, (∃ r ∈ l, (routeServes P us d r).isSome = true) →
      ∃ r ∈ l, routeServes P us d r = some (serve P us d l)
  | [], h => by obtain ⟨r, hr, _⟩ := h; simp at hr
  | r :: l, h => by
    simp only [serve]
    cases hr : routeServes P us d r with
    | some a => exact ⟨r, by simp, hr⟩
    | none =>
      simp only
      obtain ⟨r', hr', hs⟩ := h
      rcases List.mem_cons.mp hr' with rfl | h'
      · rw [hr] at hs; cases hs
      · obtain ⟨r'', h1, h2⟩ := serve_eq_of_mem (l := l) ⟨r', h', hs⟩
        exact ⟨r'', List.mem_cons_of_mem _ h1, h2⟩

/-- if `serve` answers with a redirect, a redirect route with that port is in the list -/
theorem serve_redir_mem {P : Params} {us : List URoute} {d : Option Name} {p : Nat} :
    ∀ {l : List Route}, serve P us d l = Served.redir p → ∃ hs, Route.redir hs p ∈ l
  | [], h => by simp [serve] at h
  | r :: l, h => by
    simp only [serve] at h
    cases hr : routeServes P us d r with
    | some a =>
      rw [hr] at h
      simp only at h
      subst h
      cases r with
      | user id b => simp only [routeServes] at hr; split at hr <;> simp at hr
      | redir hs q =>
        refine ⟨hs, ?_⟩
        cases hs with
        | none => simp only [routeServes, Option.some.injEq, Served.redir.injEq] at hr; subst hr; simp
        | some l' =>
          simp only [routeServes] at hr
          cases d with
          | none => simp at hr
          | some d' =>
            simp only at hr
            split at hr
            · simp only [Option.some.injEq, Served.redir.injEq] at hr; subst hr; simp
            · simp at hr
    | none =>
      rw [hr] at h
      obtain ⟨hs, hm⟩ := serve_redir_mem (l := l) h
      exact ⟨hs, List.mem_cons_of_mem _ hm⟩

theorem mem_userRoutes : ∀ {l : List URoute} {n : Nat} {rt : Route}, rt ∈ userRoutes l n →
    ∃ id r, rt = Route.user id (!r.hms.isEmpty) ∧ n ≤ id ∧ l[id - n]? = some r
  | [], _, _, h => by simp [userRoutes] at h
  | r :: l, n, rt, h => by
    simp only [userRoutes, List.mem_cons] at h
    rcases h with rfl | h
    · exact ⟨n, r, rfl, Nat.le_refl _, by simp⟩
    · obtain ⟨id, r', h1, h2, h3⟩ := mem_userRoutes h
      refine ⟨id, r', h1, by omega, ?_⟩
      have : id - n = (id - (n + 1)) + 1 := by omega
      rw [this]; simpa using h3

theorem userRoutes_mem_of_get : ∀ {l : List URoute} {n id : Nat} {r : URoute}, l[id]? = some r →
    Route.user (n + id) (!r.hms.isEmpty) ∈ userRoutes l n
  | [], _, _, _, h => by simp at h
  | r0 :: l, n, id, r, h => by
    cases id with
    | zero => simp at h; subst h; simp [userRoutes]
    | succ k =>
      simp at h
      have := userRoutes_mem_of_get (n := n + 1) h
      simp only [userRoutes, List.mem_cons]
      right
      have e : n + (k + 1) = n + 1 + k := by omega
      rw [e]; exact this



/-! ### the host list of a redirect route follows the iteration order of `redirDomains` -/

/-- every value list is ordered (`R` or equal) and made of names already seen -/
def DbaInv (R : Name → Name → Prop) (seen : List Name) (m : DBA) : Prop :=
  ∀ ad ∈ m, ad.2.Pairwise (fun x y => R x y ∨ x = y) ∧ ∀ x ∈ ad.2, x ∈ seen

theorem DbaInv.append {R : Name → Name → Prop} {seen : List Name} {a : Addr} {d : Name}
    (hd : d ∈ seen) (hR : ∀ x ∈ seen, R x d ∨ x = d) :
    ∀ {m : DBA}, DbaInv R seen m → DbaInv R seen (assocAppend m a d)
  | [], _ => by
    intro ad had
    simp only [assocAppend, List.mem_singleton] at had
    subst had
    exact ⟨by simp, by simpa using hd⟩
  | (k, vs) :: rest, h => by
    unfold assocAppend
    split
    · intro ad had
      rcases List.mem_cons.mp had with rfl | had
      · have hv := h (k, vs) (by simp)
        refine ⟨?_, ?_⟩
        · rw [List.pairwise_append]
          refine ⟨hv.1, by simp, ?_⟩
          intro x hx y hy
          simp only [List.mem_singleton] at hy
          subst hy
          exact hR x (hv.2 x hx)
        · intro x hx
          rcases List.mem_append.mp hx with hx | hx
          · exact hv.2 x hx
          · simp only [List.mem_singleton] at hx; subst hx; exact hd
      · exact h ad (List.mem_cons_of_mem _ had)
    · intro ad had
      rcases List.mem_cons.mp had with rfl | had
      · exact h _ (by simp)
      · exact DbaInv.append hd hR (m := rest) (fun ad' h' => h ad' (List.mem_cons_of_mem _ h')) ad had

theorem DbaInv.inner {R : Name → Name → Prop} {seen : List Name} {d : Name}
    (hd : d ∈ seen) (hR : ∀ x ∈ seen, R x d ∨ x = d) :
    ∀ (as : List Addr) {m : DBA}, DbaInv R seen m → DbaInv R seen (as.foldl (fun m a => assocAppend m a d) m)
  | [], _, h => h
  | _ :: as, _, h => by
    simp only [List.foldl_cons]
    exact DbaInv.inner hd hR as (DbaInv.append hd hR h)

theorem DbaInv.outer {R : Name → Name → Prop} :
    ∀ (l : RD) (seen : List Name) (m : DBA), (l.map (·.1)).Pairwise R → (∀ x ∈ seen, ∀ k ∈ l.map (·.1), R x k) →
      DbaInv R seen m → DbaInv R (seen ++ l.map (·.1)) (l.foldl dbaStep m)
  | [], seen, m, _, _, h => by simpa using h
  | (d, as) :: l, seen, m, hp, hs, h => by
    simp only [List.map_cons, List.pairwise_cons] at hp
    simp only [List.foldl_cons, List.map_cons]
    have hmono : DbaInv R (seen ++ [d]) m := fun ad had =>
      ⟨(h ad had).1, fun x hx => List.mem_append.mpr (Or.inl ((h ad had).2 x hx))⟩
    have hR : ∀ x ∈ seen ++ [d], R x d ∨ x = d := by
      intro x hx
      rcases List.mem_append.mp hx with hx | hx
      · exact Or.inl (hs x hx d (by simp))
      · simp only [List.mem_singleton] at hx; exact Or.inr hx
    have hstep : DbaInv R (seen ++ [d]) (dbaStep m (d, as)) := by
      unfold dbaStep
      exact DbaInv.inner (by simp) hR as hmono
    have := DbaInv.outer l (seen ++ [d]) _ hp.2 (by
      intro x hx k hk
      rcases List.mem_append.mp hx with hx | hx
      · exact hs x hx k (by simp [hk])
      · simp only [List.mem_singleton] at hx; subst hx; exact hp.1 k hk) hstep
    simpa [List.append_assoc] using this

/-- **the host list of every redirect route is in the order `redirDomains` is ranged in**: if
    the keys come out `R`-sorted (as `slices.Sorted(maps.Keys(redirDomains))` does, byte-wise),
    every `domainsByAddr` value — the `MatchHost(domains)` of a redirect route — is `R`-sorted
    too (equal neighbours only if a listener address is repeated).  The redirect matcher is
    never provisioned: above MatchHost's large-list threshold its lookup is a binary search that
    RELIES on exactly this order. -/
theorem redirect_hosts_follow_iteration_order (R : Name → Name → Prop) (π : Orders) (rd : RD)
    (h : ((pull π.dom rd).map (·.1)).Pairwise R) :
    ∀ ad ∈ domainsByAddr π rd, ad.2.Pairwise (fun x y => R x y ∨ x = y) := by
  intro ad had
  unfold domainsByAddr at had
  have := DbaInv.outer (R := R) (pull π.dom rd) [] [] h (by simp) (fun _ h' => by simp at h')
  exact (this ad had).1



/-! ### an explicit policy with issuers survives phase 1 -/

theorem policyFor_addPolicy_cases {P : Params} {ap : Policy} {d : Name} :
    ∀ l : List Policy, (admits P ap d = true ∧ policyFor P d (addPolicy P ap l) = some ap) ∨
      policyFor P d (addPolicy P ap l) = policyFor P d l
  | [] => by
    by_cases h : admits P ap d = true
    · left; exact ⟨h, by simp [addPolicy, policyFor_cons, h]⟩
    · right; simp [addPolicy, policyFor_cons, h, policyFor]
  | ex :: rest => by
    unfold addPolicy
    split
    · by_cases h : admits P ap d = true
      · left; exact ⟨h, by simp [policyFor_cons, h]⟩
      · right; simp [policyFor_cons, h]
    · rcases policyFor_addPolicy_cases (P := P) (ap := ap) (d := d) rest with ⟨h1, h2⟩ | h2
      · by_cases hx : admits P ex d = true
        · right; simp [policyFor_cons, hx]
        · left; exact ⟨h1, by simp [policyFor_cons, hx, h2]⟩
      · right; simp [policyFor_cons, h2]

/-- the policies after marking: same subjects, and a policy with issuers is left alone -/
def MarkRel (P : Params) : List Policy → List Policy → Prop
  | [], [] => True
  | q :: l, q' :: l' => (q' = q ∨ (q.issuers = [] ∧ q' = markOne P q)) ∧ MarkRel P l l'
  | _, _ => False

theorem MarkRel.refl (P : Params) : ∀ l, MarkRel P l l
  | [] => trivial
  | q :: l => ⟨Or.inl rfl, MarkRel.refl P l⟩

theorem MarkRel.trans {P : Params} : ∀ {a b c : List Policy}, MarkRel P a b → MarkRel P b c → MarkRel P a c
  | [], [], [], _, _ => trivial
  | [], [], _ :: _, _, h => by cases h
  | [], _ :: _, _, h, _ => by cases h
  | _ :: _, [], _, h, _ => by cases h
  | _ :: _, _ :: _, [], _, h => by cases h
  | q :: a, q' :: b, q'' :: c, h1, h2 => by
    refine ⟨?_, MarkRel.trans h1.2 h2.2⟩
    rcases h1.1 with rfl | ⟨hi, rfl⟩
    · exact h2.1
    · rcases h2.1 with rfl | ⟨_, rfl⟩
      · exact Or.inr ⟨hi, rfl⟩
      · exact Or.inr ⟨hi, by rw [markOne_idem]⟩

theorem markPolicy_rel (P : Params) (d : Name) : ∀ l, MarkRel P l (markPolicy P d l)
  | [] => trivial
  | q :: l => by
    rw [markPolicy_cons]
    split
    · refine ⟨?_, MarkRel.refl P l⟩
      unfold markOne
      split
      · rename_i h
        right
        simp only [Bool.and_eq_true, List.isEmpty_iff] at h
        exact ⟨h.1, by simp [markOne, h.1, h.2]⟩
      · exact Or.inl rfl
    · exact ⟨Or.inl rfl, markPolicy_rel P d l⟩

theorem markIf_foldl_rel (P : Params) (pols0 : List Policy) : ∀ (ds : List Name) (l : List Policy),
    MarkRel P l (ds.foldl (markIf P pols0) l)
  | [], l => MarkRel.refl P l
  | d :: ds, l => by
    simp only [List.foldl_cons]
    refine MarkRel.trans ?_ (markIf_foldl_rel P pols0 ds _)
    unfold markIf
    split
    · exact markPolicy_rel P d l
    · exact MarkRel.refl P l

theorem policyFor_markRel {P : Params} {d : Name} {p : Policy} (hp : p.issuers ≠ []) :
    ∀ {l l' : List Policy}, MarkRel P l l' → policyFor P d l = some p → policyFor P d l' = some p
  | [], [], _, h => by simp [policyFor] at h
  | [], _ :: _, h, _ => by cases h
  | _ :: _, [], h, _ => by cases h
  | q :: l, q' :: l', hr, h => by
    have hadm : admits P q' d = admits P q d := by
      rcases hr.1 with rfl | ⟨_, rfl⟩
      · rfl
      · simp [admits, markOne_subjects]
    rw [policyFor_cons] at h ⊢
    rw [hadm]
    split at h
    · rename_i ha
      simp only [Option.some.injEq] at h
      subst h
      rcases hr.1 with rfl | ⟨hi, _⟩
      · simp [ha]
      · exact absurd hi hp
    · rename_i ha
      simp only [ha]
      exact policyFor_markRel hp hr.2 h

theorem policyFor_map_fillDefault {P : Params} {d : Name} {p : Policy} (hp : p.issuers ≠ []) :
    ∀ {l : List Policy}, policyFor P d l = some p → policyFor P d (l.map fillDefault) = some p
  | [], h => by simp [policyFor] at h
  | q :: l, h => by
    have hadm : admits P (fillDefault q) d = admits P q d := by
      unfold fillDefault; split <;> rfl
    rw [List.map_cons, policyFor_cons, hadm]
    rw [policyFor_cons] at h
    split at h
    · rename_i ha
      simp only [Option.some.injEq] at h
      subst h
      have : fillDefault q = q := by
        unfold fillDefault
        split
        · rename_i he; exact absurd (by simpa using he) hp
        · rfl
      simp [ha, this]
    · rename_i ha
      simp only [ha]
      exact policyFor_map_fillDefault hp h



/-- the fresh base policy (no subjects) is appended behind every existing policy -/
theorem policyFor_addBase {P : Params} {d : Name} : ∀ l : List Policy, (policyFor P d l).isSome = true →
    policyFor P d (addPolicy P newBase l) = policyFor P d l
  | [], h => by simp [policyFor] at h
  | ex :: rest, h => by
    unfold addPolicy
    have : (supersetOf P newBase.subjects ex || decide (ex.subjects.length < newBase.subjects.length)) = false := by
      simp [supersetOf, newBase]
    rw [this]
    simp only [Bool.false_eq_true, if_false, policyFor_cons]
    split
    · rfl
    · rename_i ha
      rw [policyFor_cons] at h
      simp only [ha] at h
      exact policyFor_addBase rest h

end CaddyModel.C11
