import CaddyModel.C11.Spec
