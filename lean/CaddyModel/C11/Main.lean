import CaddyModel.Util.DrvMain
import CaddyModel.C11.Driver

def main (args : List String) : IO Unit :=
  CaddyModel.drvMain "C11" CaddyModel.C11.handle CaddyModel.C11.witnessLines args
