/-
C04 — clauses of the property that the UNCHANGED code violates: each full statement is shown,
its negation is proved with a concrete schedule (kernel-evaluated), and the schedule is exported
as a protocol line (`Driver.witnessLines`) that is replayed on the real code on every run.
The provable parts are the `Props` theorems with their explicit exclusions.
-/
import CaddyModel.C04.Reach

namespace CaddyModel.C04

theorem run_witness {α : Type} {ls : List Label} {f : G → α} {a : α}
    (h : (runLabels G.init ls).map f = some a) : ∃ s, runLabels G.init ls = some s ∧ f s = a := by
  cases hr : runLabels G.init ls with
  | none => rw [hr] at h; cases h
  | some s => rw [hr] at h; exact ⟨s, rfl, Option.some.inj h⟩

/-- every `Delete` of the schedule is made by a caller that was handed the key -/
def noRogueDelete (ls : List Label) : Bool :=
  ls.all fun l => match l with
    | .del1 _ none => false
    | _ => true

/-! ### F12 — mixed use of LoadOrNew (failing constructor) and LoadOrStore

FULL STATEMENT (false): for every schedule in which every Delete is made by a holder,
`0 < holders e → destructed e = 0` (`not_destructed_before_own_release` without exclusion (b)).

A: LoadOrNew(0) inserts its placeholder; B: LoadOrStore(0) loads it and waits; A's constructor
fails, A removes the placeholder; B takes the `else` branch: it writes its value into the
orphaned entry and returns (nil, true).  C: LoadOrNew(0) constructs a new live value.  B, which
believes it holds key 0, calls Delete(0): that decrements C's entry to 0, removes it and
destructs C's value while C still holds it. -/
def mixedUseRun : List Label :=
  [.lnLookup 0, .lsLookup 0, .ctorErr 0, .lnFailDel 0, .lsRead 0 1,
   .lnLookup 0, .ctorOk 1, .del1 0 (some 0), .del2 1, .del3 1]

theorem mixed_use_full_fails :
    ∃ ls s e, noRogueDelete ls = true ∧ runLabels G.init ls = some s ∧ e < s.next
      ∧ 0 < (s.ent e).holders ∧ 0 < (s.ent e).destructed := by
  have h : (runLabels G.init mixedUseRun).map
      (fun s => (decide (1 < s.next), (s.ent 1).holders, (s.ent 1).destructed)) = some (true, 1, 1) := by decide
  obtain ⟨s, hr, hf⟩ := run_witness h
  refine ⟨mixedUseRun, s, 1, by decide, hr, ?_⟩
  have h1 : decide (1 < s.next) = true := congrArg (·.1) hf
  have h2 : (s.ent 1).holders = 1 := congrArg (·.2.1) hf
  have h3 : (s.ent 1).destructed = 1 := congrArg (·.2.2) hf
  exact ⟨of_decide_eq_true h1, by omega, by omega⟩

/-- the same run: `LoadOrStore` hands its caller a nil value (`lsReadRet = none`) with loaded = true -/
theorem loadOrStore_returns_nil :
    ∃ s, runLabels G.init (mixedUseRun.take 4) = some s ∧ gstep s (.lsRead 0 1) ≠ none ∧ lsReadRet s 0 = none := by
  have h : (runLabels G.init (mixedUseRun.take 4)).map
      (fun s => ((gstep s (.lsRead 0 1)).isSome, lsReadRet s 0)) = some (true, none) := by decide
  obtain ⟨s, hr, hf⟩ := run_witness h
  refine ⟨s, hr, ?_, congrArg (·.2) hf⟩
  have : (gstep s (.lsRead 0 1)).isSome = true := congrArg (·.1) hf
  intro hn; rw [hn] at this; cases this

/-- it is exactly exclusion (b) that the run needs: its only excluded label is the `lsRead` -/
example : cleanRun G.init (mixedUseRun.take 4) = true ∧ cleanRun G.init (mixedUseRun.take 5) = false := by decide

/-! ### References reads the count after releasing the pool lock

FULL STATEMENT (false): `References` returns `(n, true)` only with `n ≥ 1` = the number of
references of the key (`references_partial` without the hypothesis `inPool s e`).

A: LoadOrStore(0); B: References(0) fetches the entry and releases the pool lock; A: Delete(0)
brings the count to 0 and removes the entry; B loads the count: `(0, true)` — a key that
"exists" with zero references, which no atomic execution can report. -/
def refsStaleRun : List Label := [.lsLookup 0, .refs1 0, .del1 0 (some 0)]

theorem references_full_fails :
    ∃ ls s e, cleanRun G.init ls = true ∧ runLabels G.init ls = some s
      ∧ gstep s (.refs2 e) ≠ none ∧ refs2Ret s e = 0 := by
  have h : (runLabels G.init refsStaleRun).map
      (fun s => ((gstep s (.refs2 0)).isSome, refs2Ret s 0)) = some (true, 0) := by decide
  obtain ⟨s, hr, hf⟩ := run_witness h
  refine ⟨refsStaleRun, s, 0, by decide, hr, ?_, congrArg (·.2) hf⟩
  have : (gstep s (.refs2 0)).isSome = true := congrArg (·.1) hf
  intro hn; rw [hn] at this; cases this

/-! ### the constructor of the next value can run before the destructor of the previous one

FULL STATEMENT (false, strict reading of "at most one live value at a time"): per key at most
one value is constructed-and-not-yet-destructed.  True is `one_live_value`: at most one value
is in the map / held.  The destructor runs outside both locks, after the entry left the map, so
a new constructor for the same key may complete first (for a listener: the new socket is
opened before the old one is closed).

A: LoadOrStore(0), Delete(0) up to the removal; B: LoadOrNew(0) constructs value 2 while value
1 still awaits its destructor. -/
def overlapRun : List Label := [.lsLookup 0, .del1 0 (some 0), .lnLookup 0, .ctorOk 1]

theorem one_undestructed_value_full_fails :
    ∃ ls s e e', cleanRun G.init ls = true ∧ runLabels G.init ls = some s ∧ e ≠ e'
      ∧ (s.ent e).key = (s.ent e').key
      ∧ (s.ent e).value.isSome = true ∧ (s.ent e).destructed = 0
      ∧ (s.ent e').value.isSome = true ∧ (s.ent e').destructed = 0 := by
  have h : (runLabels G.init overlapRun).map
      (fun s => ((s.ent 0).key, (s.ent 1).key, (s.ent 0).value.isSome, (s.ent 0).destructed,
                 (s.ent 1).value.isSome, (s.ent 1).destructed)) = some (0, 0, true, 0, true, 0) := by decide
  obtain ⟨s, hr, hf⟩ := run_witness h
  refine ⟨overlapRun, s, 0, 1, by decide, hr, by decide, ?_, congrArg (·.2.2.1) hf, congrArg (·.2.2.2.1) hf,
    congrArg (·.2.2.2.2.1) hf, congrArg (·.2.2.2.2.2) hf⟩
  have a : (s.ent 0).key = 0 := congrArg (·.1) hf
  have b : (s.ent 1).key = 0 := congrArg (·.2.1) hf
  rw [a, b]

/-! ### Range concurrent with a failing constructor deadlocks

(Not a clause of the property as worded — linearizability is a safety property — but a schedule
of the quantified operations after which two calls can never return.)

`Stuck s e`: a `Range` call holds the pool read lock and the placeholder `e`, whose constructor
failed, is still write-locked in the map.  `Range` needs `e`'s lock to finish; the failing
`LoadOrNew` needs the pool write lock to remove `e` and only then unlocks it. -/
def Stuck (s : G) (e : Nat) : Prop :=
  0 < s.rangers ∧ e < s.next ∧ 0 < (s.ent e).failing ∧ (s.ent e).ctor = 0
    ∧ (s.ent e).wlocked = true ∧ inPool s e = true

theorem rangeFree_false_of_stuck {s : G} {e : Nat} (h : Stuck s e) : rangeFree s = false := by
  obtain ⟨_, he, _, _, hw, hm⟩ := h
  unfold rangeFree
  rw [Bool.eq_false_iff]
  intro hall
  rw [List.all_eq_true] at hall
  have := hall e (List.mem_range.mpr he)
  simp [hw, hm] at this

/-- in a stuck state neither call can take its next region … -/
theorem stuck_disabled {s : G} {e : Nat} (h : Stuck s e) :
    gstep s .rangeEnd = none ∧ gstep s (.lnFailDel e) = none := by
  have hr := rangeFree_false_of_stuck h
  obtain ⟨h0, _, _, _, _, _⟩ := h
  constructor
  · simp [gstep, hr]
  · simp only [gstep]
    have : ¬ s.rangers = 0 := by omega
    simp [this]

theorem stuck_updEnt {s : G} {e e' : Nat} {f : Entry → Entry} (h : Stuck s e)
    (hk : (f (s.ent e')).key = (s.ent e').key)
    (hf : e' = e → (s.ent e).failing ≤ (f (s.ent e)).failing ∧ (f (s.ent e)).ctor = 0 ∧ (f (s.ent e)).wlocked = true) :
    Stuck (updEnt s e' f) e := by
  obtain ⟨h0, he, hfl, hc, hw, hm⟩ := h
  refine ⟨h0, he, ?_, ?_, ?_, ?_⟩
  all_goals first
    | (rw [inPool_updEnt s e' f hk e]; exact hm)
    | (by_cases hee : e' = e
       · subst hee
         obtain ⟨a, b, c⟩ := hf rfl
         simp only [updEnt, if_true]
         first | omega | assumption
       · have : (updEnt s e' f).ent e = s.ent e := by simp [updEnt, Ne.symm hee]
         rw [this]; assumption)

/-- … for ever: every region any goroutine can still execute leads to a stuck state again, so
    the `Range` call and the failing `LoadOrNew` call never return -/
theorem stuck_forever {s s' : G} {e : Nat} {l : Label} (h : Stuck s e) (hs : gstep s l = some s') :
    Stuck s' e := by
  have hr := rangeFree_false_of_stuck h
  have h0 : ¬ s.rangers = 0 := by have := h.1; omega
  have hc := h.2.2.2.1
  have hw := h.2.2.2.2.1
  cases l with
  | lnLookup k => simp [gstep, h0] at hs
  | lsLookup k => simp [gstep, h0] at hs
  | lnFailDel e' => simp [gstep, h0] at hs
  | del1 k ho => cases ho <;> simp [gstep, h0] at hs
  | rangeEnd => simp [gstep, hr] at hs
  | rangeBegin =>
    simp only [gstep] at hs; cases hs
    obtain ⟨a, b, c, d, e1, f1⟩ := h
    exact ⟨Nat.succ_pos _, b, c, d, e1, f1⟩
  | ctorOk e' =>
    simp only [gstep] at hs
    split at hs
    · rename_i hg; cases hs
      have hb : ∀ x, Stuck x e → Stuck (bumpVal x) e := fun _ hx => hx
      exact hb _ (stuck_updEnt h rfl (by intro hee; subst hee; omega))
    · cases hs
  | ctorErr e' =>
    simp only [gstep] at hs
    split at hs
    · rename_i hg; cases hs
      exact stuck_updEnt h rfl (by intro hee; subst hee; omega)
    · cases hs
  | lnRead e' =>
    simp only [gstep] at hs
    split at hs
    · rename_i hg
      have hne : e' = e → False := by intro hee; subst hee; rw [hw] at hg; exact absurd hg.2.2 (by simp)
      split at hs <;> cases hs <;> exact stuck_updEnt h rfl (fun hee => (hne hee).elim)
    · cases hs
  | lsRead e' v =>
    simp only [gstep] at hs
    split at hs
    · rename_i hg
      have hne : e' = e → False := by intro hee; subst hee; rw [hw] at hg; exact absurd hg.2.2 (by simp)
      split at hs <;> cases hs <;> exact stuck_updEnt h rfl (fun hee => (hne hee).elim)
    · cases hs
  | del2 e' =>
    simp only [gstep] at hs
    split at hs
    · rename_i hg
      have hne : e' = e → False := by intro hee; subst hee; rw [hw] at hg; exact absurd hg.2.2 (by simp)
      split at hs <;> cases hs <;> exact stuck_updEnt h rfl (fun hee => (hne hee).elim)
    · cases hs
  | del3 e' =>
    simp only [gstep] at hs
    split at hs
    · cases hs
      exact stuck_updEnt h rfl (fun _ => ⟨Nat.le_refl _, hc, hw⟩)
    · cases hs
  | refs1 k =>
    simp only [gstep] at hs
    split at hs
    · cases hs
      exact stuck_updEnt h rfl (fun _ => ⟨Nat.le_refl _, hc, hw⟩)
    · cases hs; exact h
  | refs2 e' =>
    simp only [gstep] at hs
    split at hs
    · cases hs
      exact stuck_updEnt h rfl (fun _ => ⟨Nat.le_refl _, hc, hw⟩)
    · cases hs

/-- … and a stuck state is reachable -/
def deadlockRun : List Label := [.lnLookup 0, .ctorErr 0, .rangeBegin]

theorem range_failing_ctor_deadlock_reachable :
    ∃ s, cleanRun G.init deadlockRun = true ∧ runLabels G.init deadlockRun = some s ∧ Stuck s 0 := by
  have h : (runLabels G.init deadlockRun).map
      (fun s => (decide (0 < s.rangers), decide (0 < s.next), decide (0 < (s.ent 0).failing), (s.ent 0).ctor,
                 (s.ent 0).wlocked, inPool s 0)) = some (true, true, true, 0, true, true) := by decide
  obtain ⟨s, hr, hf⟩ := run_witness h
  refine ⟨s, by decide, hr, ?_⟩
  exact ⟨of_decide_eq_true (congrArg (·.1) hf), of_decide_eq_true (congrArg (·.2.1) hf),
    of_decide_eq_true (congrArg (·.2.2.1) hf), congrArg (·.2.2.2.1) hf, congrArg (·.2.2.2.2.1) hf,
    congrArg (·.2.2.2.2.2) hf⟩

/-! ### the exported protocol lines are these schedules (thread-level runs, kernel-evaluated) -/

-- F12 line `sched 1 N0f;S0,d0;N0o 0100122111`: C (thread 2) still holds entry 1, whose value was destructed
example : let y := runSched 1 [[.ln 0 false], [.ls 0, .cdel 0], [.ln 0 true]] [0, 1, 0, 0, 1, 2, 2, 1, 1, 1]
    (y.clean, (y.g.ent 1).holders, (y.g.ent 1).destructed) = (false, 1, 1) := by decide
-- `sched 1 S0,d0;R0 0101`: the fourth event is thread 1's `Q0`
example : ((runSched 1 [[.ls 0, .cdel 0], [.refs 0]] [0, 1, 0, 1]).out.reverse.drop 3).head? = some "1:Q0/-" := by decide
-- `sched 1 S0,d0;N0o 0011`
example : let y := runSched 1 [[.ls 0, .cdel 0], [.ln 0 true]] [0, 0, 1, 1]
    (y.clean, y.g.pool 0, (y.g.ent 0).value, (y.g.ent 1).value) = (true, some 1, some 1, some 2) := by decide
-- `sched 1 N0f;G 001`: nothing is enabled, two calls unfinished
example : let y := runSched 1 [[.ln 0 false], [.range]] [0, 0, 1]
    (allFinished y.threads, (firstEnabled 1 y.g y.threads 0).isSome) = (false, false) := by decide

end CaddyModel.C04
