/-
C04 — what the code did BEFORE the repairs of the fix round (non-vacuity of the repaired
clauses: each `…_old_code_fails` theorem exhibits, kernel-evaluated, the behaviour the old code
had and the repaired code — the model in `Model.lean` — provably no longer has), and one
observation about destructor timing that the property does not forbid.
The schedules are kept as regression lines in `corpus/C04/fixed-findings.txt`.
-/
import CaddyModel.C04.Reach
import CaddyModel.C04.Clients

namespace CaddyModel.C04

theorem run_witness {α : Type} {ls : List Label} {f : G → α} {a : α}
    (h : (runLabels G.init ls).map f = some a) : ∃ s, runLabels G.init ls = some s ∧ f s = a := by
  cases hr : runLabels G.init ls with
  | none => rw [hr] at h; cases h
  | some s => rw [hr] at h; exact ⟨s, rfl, Option.some.inj h⟩

/-- every `Delete` of the schedule is made by a caller that was handed the key -/
def noRogueDelete (ls : List Label) : Bool :=
  ls.all fun l => match l with
    | .del1 _ none => false
    | _ => true

/-! ### old LoadOrStore: the `else` branch after a failed constructor

Old code (usagepool.go before the fix): a LoadOrStore that had loaded an entry whose LoadOrNew
constructor then failed wrote its own value into the (already removed) entry, returned
(nil, true) and counted on the entry.  `gstepOld` is the repaired model with that one branch put
back.  Repaired: the call starts over (`lsRead` on a failed entry only gives up the entry). -/

def gstepOld (s : G) : Label → Option G
  | .lsRead e v =>
    if e < s.next ∧ 0 < (s.ent e).lsWaiters ∧ (s.ent e).wlocked = false ∧ (s.ent e).err = true then
      some (updEnt s e fun E =>
        { E with value := some v, err := false, lsWaiters := E.lsWaiters - 1, holders := E.holders + 1 })
    else gstep s (.lsRead e v)
  | l => gstep s l

def runLabelsOld : G → List Label → Option G
  | s, [] => some s
  | s, l :: ls => match gstepOld s l with
    | some s' => runLabelsOld s' ls
    | none => none

/-- A: LoadOrNew(0) inserts its placeholder; B: LoadOrStore(0) loads it and waits; A's constructor
    fails, A removes the placeholder; B (old code) adopts the orphaned entry.  C: LoadOrNew(0)
    constructs a new live value.  B calls Delete(0): that decrements C's entry to 0, removes it
    and destructs C's value while C still holds it. -/
def mixedUseRun : List Label :=
  [.lnLookup 0, .lsLookup 0, .ctorErr 0, .lnFailDel 0, .lsRead 0 1,
   .lnLookup 0, .ctorOk 1, .del1 0 (some 0), .del2 1, .del3 1]

theorem mixed_use_old_code_fails :
    (runLabelsOld G.init mixedUseRun).map
      (fun s => (noRogueDelete mixedUseRun, (s.ent 1).holders, (s.ent 1).destructed)) = some (true, 1, 1) := by
  decide

/-- the same schedule on the repaired code: B's `Delete` is not even enabled as a holder's Delete
    (B holds nothing — it started over), the schedule is not a run -/
example : runLabels G.init mixedUseRun = none := by decide
/-- … and with B starting over (`lsLookup` again: it loads C's pending entry and gets C's value):
    both hold C's value (number 3), nothing is destructed -/
example : (runLabels G.init [.lnLookup 0, .lsLookup 0, .ctorErr 0, .lnFailDel 0, .lsRead 0 1,
      .lnLookup 0, .lsLookup 0, .ctorOk 1, .lsRead 1 2]).map
    (fun s => ((s.ent 1).holders, (s.ent 1).value, (s.ent 1).destructed, (s.ent 0).deadRefs)) = some (2, some 3, 0, 2) := by
  decide

/-! ### old References: the count was read after the pool lock had been released

Old code: `References` fetched the entry under `up.RLock()`, released the lock and only then loaded
`refs`.  A `Delete` in between made it report (0, true).  Repaired: one region (`Label.refs`),
the answer is `refsNow` of a single state, which is never `some 0` (`Props.references_report`). -/
theorem references_old_code_fails :
    ∃ ls ls' s0 s1 e, cleanRun G.init (ls ++ ls') = true ∧ runLabels G.init ls = some s0 ∧ s0.pool 0 = some e
      ∧ runLabels s0 ls' = some s1 ∧ (s1.ent e).refs = 0 := by
  have h0 : (runLabels G.init [.lsLookup 0]).map (fun s => s.pool 0) = some (some 0) := by decide
  have h1 : (runLabels G.init [.lsLookup 0, .del1 0 (some 0)]).map (fun s => (s.ent 0).refs) = some 0 := by decide
  obtain ⟨s0, hr0, hp0⟩ := run_witness h0
  obtain ⟨s1, hr1, hp1⟩ := run_witness h1
  refine ⟨[.lsLookup 0], [.del1 0 (some 0)], s0, s1, 0, by decide, hr0, hp0, ?_, hp1⟩
  simp only [runLabels] at hr1 hr0 ⊢
  cases hg : gstep G.init (.lsLookup 0) with
  | none => rw [hg] at hr0; cases hr0
  | some t =>
    rw [hg] at hr0 hr1
    cases hr0
    exact hr1

/-! ### old Range: waited for a placeholder's lock while holding the pool read lock

Old code: `Range` held `up.RLock()` and blocked on `upv.RLock()` of a placeholder under
construction; if that constructor failed, LoadOrNew needed `up.Lock()` to remove the placeholder
before unlocking it: neither call could ever return.  The configuration — a write-locked
placeholder of a failed constructor, still in the map — is reachable (below); repaired `Range`
skips entries whose lock it cannot get at once, is a single region and never blocks, and no
region needs a lock that is held across a region boundary (`Props.progress`). -/
theorem range_old_code_deadlock_configuration :
    (runLabels G.init [.lnLookup 0, .ctorErr 0]).map
      (fun s => (cleanRun G.init [.lnLookup 0, .ctorErr 0], inPool s 0, (s.ent 0).wlocked, (s.ent 0).failing))
      = some (true, true, true, 1) := by
  decide

/-! ### observation: the next value of a key may be constructed before the previous one is destructed

The property asks that the destructor runs exactly once AFTER the last holder released the value
and never earlier; it does not ask that it runs before the key is used again.  The destructor
runs outside both locks, after the entry left the map, so a new constructor for the same key can
complete first (for a listener: the new socket is opened before the old one is closed).  "At most
one live value" is `Props.one_live_value`: at most one value per key is in the map or held. -/
def overlapRun : List Label := [.lsLookup 0, .del1 0 (some 0), .lnLookup 0, .ctorOk 1]

theorem next_constructor_may_precede_previous_destructor :
    (runLabels G.init overlapRun).map
      (fun s => (cleanRun G.init overlapRun && (s.ent 0).key == (s.ent 1).key, (s.ent 0).value, (s.ent 0).destructed,
                 (s.ent 0).holders, (s.ent 1).value, (s.ent 1).holders))
      = some (true, some 1, 0, 0, some 2, 1) := by
  decide

/-! ### the regression lines are these schedules (thread-level runs, kernel-evaluated) -/

-- `sched 1 N0f;S0,d0;N0o 0100122111` on the repaired code: B starts over and shares C's value
example : let y := runSched 1 [[.ln 0 false], [.ls 0, .cdel 0], [.ln 0 true]] [0, 1, 0, 0, 1, 2, 2, 1, 1, 1]
    (y.clean, (y.g.ent 1).holders, (y.g.ent 1).destructed, allFinished y.threads) = (true, 1, 0, true) := by decide
-- `sched 1 S0,d0;R0 0101`: References is one region
example : ((runSched 1 [[.ls 0, .cdel 0], [.refs 0]] [0, 1, 0, 1]).out.reverse.drop 1).head? = some "1:Q1/1" := by decide
-- `sched 1 N0f;G 001`: Range skips the placeholder and returns; everything finishes
example : let y := runSched 1 [[.ln 0 false], [.range]] [0, 0, 1]
    (allFinished y.threads, (y.out.reverse.drop 2).head?) = (true, some "1:G_/1") := by decide

/-! ### why the one exclusion is needed: a release by a client that holds nothing

`excluded` rules out a `Delete` by a caller that holds no reference.  That is a contract of the pool's
CLIENTS, and client glue can break it: `acmeserver.Handler.Cleanup` called `databasePool.Delete` also for a
handler whose `Provision` had failed before `openDatabase` (found in wave f; witness test and candidate fix
in `.run/fixes/C04-n-acmeserver-cleanup.*`; the reverse proxy's `Cleanup` had the same shape and was repaired
earlier).  What then happens is this run: config A holds the database; the rejected config B's cleanup
releases a reference it never took; A's value is destructed while A still remembers it. -/
theorem release_by_non_holder_destructs_held_value :
    let y := runSched 1 [[.ln 0 true], [.del 0]] [0, 0, 1, 1, 1]
    (y.clean, holdCount y.threads 0, (y.g.ent 0).destructed, y.stuck) = (false, 1, 1, false) := by
  decide

/-- the same for the reverse proxy's per-request client (wave g): a request that gives back a reference for an
    upstream it did not provision in this iteration — e.g. because the dynamic source's address was replaced by the
    handler's static upstream without going through `provisionUpstream` — is a release by a client that holds
    nothing (`requestOps` pairs every release with its own acquisition; this program does not).  Handler A holds
    address 0; the request's unpaired release removes the entry: the address is absent from the pool while A still
    remembers its reference — `ClientTrace.per_request_client_keeps_count` fails without its pairing hypothesis. -/
theorem request_release_without_acquire_breaks_count :
    let y := (runGroupsSys 1 [[handlerLoadOps [0]], [[.del 0]]] [0, 1]).1
    (y.clean, y.g.pool 0, holdCount y.threads 0, y.threads.all (fun th => th.pc == .idle)) = (false, none, 1, true) := by
  decide

end CaddyModel.C04
