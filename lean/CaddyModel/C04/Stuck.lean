/-
C04 — the thread-level model never gets stuck: in every state the driver can reach, for all programs and
schedules, every thread is at a program counter that fits its operation, and every label it issues is
enabled in the net (its token is there, its entry is not write-locked when the thread checked that, the
reference a Delete gives back is one the thread really holds, for the key it deletes).  So the executable
model that is compared with the real code is a faithful lifting of `gstep`: `Sys.stuck` stays false and the
answer never contains `model-stuck`.
-/
import CaddyModel.C04.Places

namespace CaddyModel.C04


/-- program counter and operation in progress fit together, and the entry a thread is parked on was
    created for the key of its operation -/
def PcOk (g : G) (th : Thread) : Prop :=
  match th.pc, th.prog with
  | .idle, _ => True
  | .ctor e, .ln k _ :: _ => (g.ent e).key = k
  | .lnFail _, .ln _ _ :: _ => True
  | .lnWait e, .ln k _ :: _ => (g.ent e).key = k
  | .lsWait e _, .ls k :: _ => (g.ent e).key = k
  | .lsWait e _, .lsp k :: _ => (g.ent e).key = k
  | .delRead _, .del _ :: _ => True
  | .delRead _, .cdel _ :: _ => True
  | .delRead _, .closeAll :: _ => True
  | .destruct _ _, .del _ :: _ => True
  | .destruct _ _, .cdel _ :: _ => True
  | .destruct _ _, .closeAll :: _ => True
  | _, _ => False

/-- what a thread remembers is stored under the key it remembers it for -/
def HeldKey (g : G) (th : Thread) : Prop := ∀ x ∈ th.held, (g.ent x.2).key = x.1

/-- the guards of a label that are not about its own token -/
def SideOk (g : G) : Label → Prop
  | .lnRead e => (g.ent e).wlocked = false
  | .lsRead e _ => (g.ent e).wlocked = false
  | .del2 e => (g.ent e).wlocked = false
  | .del1 k (some h) => h < g.next ∧ 0 < (g.ent h).holders ∧ (g.ent h).key = k
  | _ => True

theorem tmove_not_stuck {nk : Nat} {g : G} {th : Thread} (h : PcOk g th) : ∀ x, tmove nk g th = x → x ≠ Move.stuck := by
  intro x hx hs
  subst hs
  obtain ⟨prog, pc, held⟩ := th
  cases prog with
  | nil => simp [tmove] at hx
  | cons op rest =>
    cases pc <;> cases op
    case ctor.ln e k b => cases b <;> simp only [tmove] at hx <;> cases hx
    all_goals (simp only [PcOk] at h)
    all_goals (simp only [tmove] at hx)
    all_goals (try unfold delStart at hx)
    all_goals (try unfold delStartWith at hx)
    all_goals (try unfold delRead at hx)
    iterate 5 (all_goals (first | (cases hx; done) | split at hx))

theorem oldestHeld_mem {x : Nat × Nat} : ∀ {l : List (Nat × Nat)}, oldestHeld l = some x → x ∈ l
  | [], h => by simp [oldestHeld] at h
  | [y], h => by simp only [oldestHeld, Option.some.injEq] at h; subst h; simp
  | y :: z :: zs, h => by
    have h' : oldestHeld (z :: zs) = some x := by simpa [oldestHeld] using h
    exact List.mem_cons_of_mem _ (oldestHeld_mem h')

/-- what the thread remembers: allocated entries with a holder, stored under the remembered key -/
def HeldGood (g : G) (th : Thread) : Prop :=
  ∀ x ∈ th.held, x.2 < g.next ∧ 0 < (g.ent x.2).holders ∧ (g.ent x.2).key = x.1

theorem delStartWith_side {g : G} {k : Nat} {h : Option Nat} {held' : List (Nat × Nat)} {stay after : List Op}
    {th' : Thread} {ls : List Label} {ev : String} (hs : SideOk g (.del1 k h))
    (hm : delStartWith g k h held' stay after = .go ls th' ev) : ∀ l ∈ ls, SideOk g l := by
  unfold delStartWith at hm
  split at hm
  · cases hm; intro l hl; simp at hl; subst hl; exact hs
  · split at hm
    · cases hm; intro l hl; simp at hl; subst hl; exact hs
    · split at hm <;> (cases hm; intro l hl; simp at hl; subst hl; exact hs)

theorem delRead_side {g : G} {th th' : Thread} {e : Nat} {after : List Op} {ls : List Label} {ev : String}
    (hm : delRead g th e after = .go ls th' ev) : ∀ l ∈ ls, SideOk g l := by
  unfold delRead at hm
  split at hm
  · cases hm
  · rename_i hw
    have hw' : (g.ent e).wlocked = false := by simpa using hw
    split at hm
    · split at hm <;> (cases hm; intro l hl; simp at hl; subst hl; exact hw')
    · cases hm; intro l hl; simp at hl; subst hl; exact hw'

/-- **the side guards of every label a thread issues hold** -/
theorem tmove_side {nk : Nat} {g : G} {th th' : Thread} {ls : List Label} {ev : String}
    (hg : HeldGood g th) (hm : tmove nk g th = .go ls th' ev) : ∀ l ∈ ls, SideOk g l := by
  obtain ⟨prog, pc, held⟩ := th
  have triv : ∀ (l : Label), ls = [l] → SideOk g l → ∀ l' ∈ ls, SideOk g l' := by
    intro l hls hl l' hl'; subst hls; simp at hl'; subst hl'; exact hl
  have delK : ∀ k, SideOk g (.del1 k (findHeld k held)) := by
    intro k
    cases hf : findHeld k held with
    | none => trivial
    | some h0 =>
      have hmem := (findHeld_some hf).1
      obtain ⟨a, b, c⟩ := hg (k, h0) hmem
      exact ⟨a, b, c⟩
  cases prog with
  | nil => simp [tmove] at hm
  | cons op rest =>
    cases pc <;> cases op
    case ctor.ln e k b =>
      cases b <;> simp only [tmove] at hm <;> cases hm <;> exact triv _ rfl (by simp [SideOk])
    all_goals (simp only [tmove] at hm)
    all_goals try (cases hm; done)
    case idle.ln k b => split at hm <;> cases hm <;> exact triv _ rfl (by simp [SideOk])
    case idle.ls k => split at hm <;> cases hm <;> exact triv _ rfl (by simp [SideOk])
    case idle.lsp k => split at hm <;> cases hm <;> exact triv _ rfl (by simp [SideOk])
    case idle.del k => exact delStartWith_side (delK k) hm
    case idle.cdel k =>
      split at hm
      · cases hm; intro l hl; simp at hl
      · exact delStartWith_side (delK k) hm
    case idle.refs k => cases hm; exact triv _ rfl (by simp [SideOk])
    case idle.range => cases hm; exact triv _ rfl (by simp [SideOk])
    case idle.closeAll =>
      split at hm
      · cases hm; intro l hl; simp at hl
      · rename_i k e ho
        have hmem := oldestHeld_mem ho
        obtain ⟨a, b, c⟩ := hg (k, e) hmem
        exact delStartWith_side (k := k) (h := some e) (show SideOk g (.del1 k (some e)) from ⟨a, b, c⟩) hm
    case lnFail.ln e k b => cases hm; exact triv _ rfl (by simp [SideOk])
    case lnWait.ln e k b =>
      split at hm
      · cases hm
      · rename_i hw; cases hm; exact triv _ rfl (by simpa [SideOk] using hw)
    case lsWait.ls e v k =>
      split at hm
      · cases hm
      · rename_i hw
        split at hm <;> cases hm <;> exact triv _ rfl (by simpa [SideOk] using hw)
    case lsWait.lsp e v k =>
      split at hm
      · cases hm
      · rename_i hw
        split at hm <;> cases hm <;> exact triv _ rfl (by simpa [SideOk] using hw)
    case delRead.del e k => exact delRead_side hm
    case delRead.cdel e k => exact delRead_side hm
    case delRead.closeAll e => exact delRead_side hm
    case destruct.del e v k => cases hm; exact triv _ rfl (by simp [SideOk])
    case destruct.cdel e v k => cases hm; exact triv _ rfl (by simp [SideOk])
    case destruct.closeAll e v => cases hm; exact triv _ rfl (by simp [SideOk])


/-- what a move establishes for the thread afterwards -/
def NextOk (g' : G) (th th' : Thread) : Prop :=
  PcOk g' th' ∧ ∀ x ∈ th'.held, x ∈ th.held ∨ (g'.ent x.2).key = x.1

theorem delStartWith_next {g g' : G} {k : Nat} {h : Option Nat} {held' : List (Nat × Nat)} {op : Op} {rest after : List Op}
    {th th' : Thread} {ls : List Label} {ev : String} (hsub : ∀ x ∈ held', x ∈ th.held)
    (hop : op = .del k ∨ op = .cdel k ∨ op = .closeAll)
    (hm : delStartWith g k h held' (op :: rest) after = .go ls th' ev) : NextOk g' th th' := by
  unfold delStartWith at hm
  split at hm
  · cases hm; exact ⟨by simp [PcOk], fun x hx => Or.inl (hsub x hx)⟩
  · split at hm
    · cases hm
      refine ⟨?_, fun x hx => Or.inl (hsub x hx)⟩
      rcases hop with h1 | h1 | h1 <;> (subst h1; simp [PcOk])
    · split at hm <;> (cases hm; exact ⟨by simp [PcOk], fun x hx => Or.inl (hsub x hx)⟩)

theorem delRead_next {g g' : G} {th th' : Thread} {e : Nat} {after : List Op} {ls : List Label} {ev : String}
    (hpc : PcOk g' { th with pc := .destruct e 0 } ) (hm : delRead g th e after = .go ls th' ev) :
    NextOk g' th th' := by
  unfold delRead at hm
  split at hm
  · cases hm
  · split at hm
    · split at hm
      · cases hm; exact ⟨by simp [PcOk], fun x hx => Or.inl hx⟩
      · cases hm
        refine ⟨?_, fun x hx => Or.inl hx⟩
        obtain ⟨prog, pc, held⟩ := th
        cases prog with
        | nil => simp [PcOk] at hpc
        | cons op rest => cases op <;> simp [PcOk] at hpc ⊢
    · cases hm; exact ⟨by simp [PcOk], fun x hx => Or.inl hx⟩

theorem tmove_next {nk : Nat} {g g' : G} {th th' : Thread} {ls : List Label} {ev : String}
    (hmap : MapOk g) (hpc : PcOk g th) (hb : ∀ p e, pcAt th.pc = some (p, e) → e < g.next)
    (hm : tmove nk g th = .go ls th' ev) (hr : runLabels g ls = some g') : NextOk g' th th' := by
  obtain ⟨prog, pc, held⟩ := th
  cases prog with
  | nil => simp [tmove] at hm
  | cons op rest =>
    cases pc <;> cases op
    case ctor.ln e k b =>
      have he : e < g.next := hb .ctor e rfl
      simp only [PcOk] at hpc
      cases b <;> simp only [tmove] at hm <;> cases hm
      · exact ⟨by simp [PcOk], fun x hx => Or.inl hx⟩
      · have hg := runLabels_single hr
        refine ⟨by simp [PcOk], ?_⟩
        intro x hx
        simp only [List.mem_cons] at hx
        rcases hx with hx | hx
        · subst hx; exact Or.inr (((gstep_frame hg).2.2 e he).trans hpc)
        · exact Or.inl hx
    all_goals (simp only [PcOk] at hpc)
    all_goals (simp only [tmove] at hm)
    all_goals try (cases hm; done)
    case idle.ln k b =>
      split at hm
      · rename_i e hp
        cases hm
        have hg := runLabels_single hr
        obtain ⟨he, hk, _⟩ := hmap k e hp
        exact ⟨by simp only [PcOk]; exact ((gstep_frame hg).2.2 e he).trans hk, fun x hx => Or.inl hx⟩
      · rename_i hp
        cases hm
        have hg := runLabels_single hr
        simp only [gstep, hp] at hg; cases hg
        exact ⟨by simp [PcOk, alloc, newCtorEntry], fun x hx => Or.inl hx⟩
    case idle.ls k =>
      split at hm
      · rename_i e hp
        cases hm
        have hg := runLabels_single hr
        obtain ⟨he, hk, _⟩ := hmap k e hp
        exact ⟨by simp only [PcOk]; exact ((gstep_frame hg).2.2 e he).trans hk, fun x hx => Or.inl hx⟩
      · rename_i hp
        cases hm
        have hg := runLabels_single hr
        simp only [gstep, hp] at hg; cases hg
        refine ⟨by simp [PcOk], ?_⟩
        intro x hx
        simp only [List.mem_cons] at hx
        rcases hx with hx | hx
        · subst hx; exact Or.inr (by simp [bumpVal, alloc, newStoredEntry])
        · exact Or.inl hx
    case idle.lsp k =>
      split at hm
      · rename_i e hp
        cases hm
        have hg := runLabels_single hr
        obtain ⟨he, hk, _⟩ := hmap k e hp
        exact ⟨by simp only [PcOk]; exact ((gstep_frame hg).2.2 e he).trans hk, fun x hx => Or.inl hx⟩
      · rename_i hp
        cases hm
        have hg := runLabels_single hr
        simp only [gstep, hp] at hg; cases hg
        refine ⟨by simp [PcOk], ?_⟩
        intro x hx
        simp only [List.mem_cons] at hx
        rcases hx with hx | hx
        · subst hx; exact Or.inr (by simp [bumpVal, alloc, newPlainEntry])
        · exact Or.inl hx
    case idle.del k => exact delStartWith_next (fun x hx => eraseHeld_subset hx) (Or.inl rfl) hm
    case idle.cdel k =>
      split at hm
      · cases hm; exact ⟨by simp [PcOk], fun x hx => Or.inl hx⟩
      · exact delStartWith_next (fun x hx => eraseHeld_subset hx) (Or.inr (Or.inl rfl)) hm
    case idle.refs k => cases hm; exact ⟨by simp [PcOk], fun x hx => Or.inl hx⟩
    case idle.range => cases hm; exact ⟨by simp [PcOk], fun x hx => Or.inl hx⟩
    case idle.closeAll =>
      split at hm
      · cases hm; exact ⟨by simp [PcOk], fun x hx => Or.inl hx⟩
      · rename_i k e ho
        exact delStartWith_next (k := k) (fun x hx => mem_of_mem_dropLast' hx) (Or.inr (Or.inr rfl)) hm
    case lnFail.ln e k b => cases hm; exact ⟨by simp [PcOk], fun x hx => Or.inl hx⟩
    case lnWait.ln e k b =>
      have he : e < g.next := hb .waiters e rfl
      split at hm
      · cases hm
      · cases hm
        have hg := runLabels_single hr
        refine ⟨by simp [PcOk], ?_⟩
        intro x hx
        split at hx
        · exact Or.inl hx
        · simp only [List.mem_cons] at hx
          rcases hx with hx | hx
          · subst hx; exact Or.inr (((gstep_frame hg).2.2 e he).trans hpc)
          · exact Or.inl hx
    case lsWait.ls e v k =>
      have he : e < g.next := hb .lsWaiters e rfl
      split at hm
      · cases hm
      · split at hm <;> cases hm
        · have hg := runLabels_single hr
          exact ⟨by simp [PcOk], fun x hx => Or.inl hx⟩
        · have hg := runLabels_single hr
          refine ⟨by simp [PcOk], ?_⟩
          intro x hx
          simp only [List.mem_cons] at hx
          rcases hx with hx | hx
          · subst hx; exact Or.inr (((gstep_frame hg).2.2 e he).trans hpc)
          · exact Or.inl hx
    case lsWait.lsp e v k =>
      have he : e < g.next := hb .lsWaiters e rfl
      split at hm
      · cases hm
      · split at hm <;> cases hm
        · exact ⟨by simp [PcOk], fun x hx => Or.inl hx⟩
        · have hg := runLabels_single hr
          refine ⟨by simp [PcOk], ?_⟩
          intro x hx
          simp only [List.mem_cons] at hx
          rcases hx with hx | hx
          · subst hx; exact Or.inr (((gstep_frame hg).2.2 e he).trans hpc)
          · exact Or.inl hx
    case delRead.del e k => exact delRead_next (by simp [PcOk]) hm
    case delRead.cdel e k => exact delRead_next (by simp [PcOk]) hm
    case delRead.closeAll e => exact delRead_next (by simp [PcOk]) hm
    case destruct.del e v k => cases hm; exact ⟨by simp [PcOk], fun x hx => Or.inl hx⟩
    case destruct.cdel e v k => cases hm; exact ⟨by simp [PcOk], fun x hx => Or.inl hx⟩
    case destruct.closeAll e v => cases hm; exact ⟨by simp [PcOk], fun x hx => Or.inl hx⟩


/-! ### enabledness of a label from its token and its side guards -/

theorem gstep_enabled {g : G} {l : Label}
    (htok : ∀ p e, tokDec l = some (p, e) → e < g.next ∧ 0 < placeOf (g.ent e) p) (hs : SideOk g l) :
    (gstep g l).isSome = true := by
  cases l with
  | lnLookup k => simp only [gstep]; split <;> rfl
  | lsLookup k => simp only [gstep]; split <;> rfl
  | lspLookup k => simp only [gstep]; split <;> rfl
  | ctorOk e => have := htok .ctor e rfl; simp [gstep, placeOf] at this ⊢; simp [this]
  | ctorErr e => have := htok .ctor e rfl; simp [gstep, placeOf] at this ⊢; simp [this]
  | lnFailDel e => have := htok .failing e rfl; simp [gstep, placeOf] at this ⊢; simp [this]
  | lnRead e =>
    have := htok .waiters e rfl
    have hw : (g.ent e).wlocked = false := hs
    simp only [gstep, placeOf] at this ⊢
    simp only [this, hw, and_self, if_true]; split <;> rfl
  | lsRead e v =>
    have := htok .lsWaiters e rfl
    have hw : (g.ent e).wlocked = false := hs
    simp only [gstep, placeOf] at this ⊢
    simp only [this, hw, and_self, if_true]; split <;> rfl
  | del1 k ho =>
    cases ho with
    | none => simp [gstep]
    | some h => have hh : h < g.next ∧ 0 < (g.ent h).holders ∧ (g.ent h).key = k := hs; simp [gstep, hh]
  | del2 e =>
    have := htok .del2 e rfl
    have hw : (g.ent e).wlocked = false := hs
    simp only [gstep, placeOf] at this ⊢
    simp only [this, hw, and_self, if_true]
    split
    · rfl
    · split <;> rfl
  | del3 e => have := htok .del3 e rfl; simp [gstep, placeOf] at this ⊢; simp [this]
  | refs k => rfl
  | range => rfl

theorem pcOk_mono {g g' : G} {th : Thread} (hk : ∀ e, e < g.next → (g'.ent e).key = (g.ent e).key)
    (hb : ∀ p e, pcAt th.pc = some (p, e) → e < g.next) (h : PcOk g th) : PcOk g' th := by
  obtain ⟨prog, pc, held⟩ := th
  cases prog with
  | nil => cases pc <;> simp [PcOk] at h ⊢
  | cons op rest =>
    cases pc <;> cases op <;> simp only [PcOk] at h ⊢ <;> try trivial
    all_goals (first
      | exact (hk _ (hb .ctor _ rfl)).trans h
      | exact (hk _ (hb .waiters _ rfl)).trans h
      | exact (hk _ (hb .lsWaiters _ rfl)).trans h)

/-- everything the executable model needs to be a faithful lifting of the net -/
structure Sound (y : Sys) : Prop where
  books : Books y
  places : PlaceBooks y
  pcok : ∀ th ∈ y.threads, PcOk y.g th
  hkey : ∀ th ∈ y.threads, HeldKey y.g th
  ns : y.stuck = false

theorem sound_of_eq {y y' : Sys} (hg : y'.g = y.g) (ht : y'.threads = y.threads) (hs : y'.stuck = y.stuck)
    (h : Sound y) : Sound y' := by
  obtain ⟨g, ths, c, o, st⟩ := y
  obtain ⟨g', ths', c', o', st'⟩ := y'
  simp only at hg ht hs
  subst hg ht hs
  exact ⟨⟨h.books.count, h.books.ok⟩, ⟨h.places.count, h.places.ok, h.places.fin, h.places.map⟩, h.pcok, h.hkey, h.ns⟩

theorem le_sum_map (f : Thread → Nat) : ∀ {ths : List Thread} {th : Thread}, th ∈ ths → f th ≤ (ths.map f).sum
  | [], _, h => by simp at h
  | a :: as, th, h => by
    simp only [List.mem_cons] at h
    rcases h with h | h
    · subst h; simp
    · have := le_sum_map f h
      simp; omega

theorem heldGood_of_sound {y : Sys} (h : Sound y) {th : Thread} (hth : th ∈ y.threads) : HeldGood y.g th := by
  intro x hx
  have hlt : x.2 < y.g.next := h.books.ok th hth x hx
  refine ⟨hlt, ?_, h.hkey th hth x hx⟩
  rw [h.books.count x.2 hlt]
  have h1 : 0 < heldOf x.2 th := by
    unfold heldOf
    exact List.countP_pos_iff.mpr ⟨x, hx, by simp⟩
  have h2 := heldOf_le_holdCount x.2 hth
  omega

theorem sound_tstep (nk : Nat) (y : Sys) (t : Nat) (h : Sound y) : Sound (tstep nk y t) := by
  have hB := books_tstep nk y t h.books
  have hP := placeBooks_tstep nk y t h.places
  unfold tstep at hB hP ⊢
  split
  · exact sound_of_eq (y := y) rfl rfl rfl h
  · rename_i th hth
    have hmem : th ∈ y.threads := List.mem_of_getElem? hth
    simp only [hth] at hB hP
    split
    · exact sound_of_eq (y := y) rfl rfl rfl h
    · exact sound_of_eq (y := y) rfl rfl rfl h
    · rename_i hm
      exact absurd rfl (tmove_not_stuck (h.pcok th hmem) _ hm)
    · rename_i ls th' ev hm
      simp only [hm] at hB hP
      -- the labels are enabled
      have hen : (runLabels y.g ls).isSome = true := by
        obtain ⟨hmove, _⟩ := tmove_pc hm
        rcases hmove with ⟨hls, _⟩ | ⟨l, hls, hdec, _⟩
        · subst hls; rfl
        · subst hls
          have hside := tmove_side (heldGood_of_sound h hmem) hm l (by simp)
          have : (gstep y.g l).isSome = true := by
            apply gstep_enabled _ hside
            intro p e hpe
            have hat : pcAt th.pc = some (p, e) := hdec.trans hpe
            have hlt := h.places.ok th hmem p e hat
            refine ⟨hlt, ?_⟩
            rw [h.places.count p e hlt]
            have h1 : atPlace p e th = 1 := by simp [atPlace, hat]
            have h2 : atPlace p e th ≤ placeCount y.threads p e := le_sum_map (atPlace p e) hmem
            omega
          simp only [runLabels]
          cases hg : gstep y.g l with
          | none => rw [hg] at this; cases this
          | some s => rfl
      split
      · rename_i hr; rw [hr] at hen; cases hen
      · rename_i g' hr
        simp only [hr] at hB hP
        obtain ⟨hpc', hheld'⟩ := tmove_next h.places.map (h.pcok th hmem) (h.places.ok th hmem) hm hr
        -- keys of old entries do not change, the net only grows
        have hkeys : ∀ e, e < y.g.next → (g'.ent e).key = (y.g.ent e).key := by
          obtain ⟨hmove, _⟩ := tmove_pc hm
          rcases hmove with ⟨hls, _⟩ | ⟨l, hls, _, _⟩
          · subst hls; simp only [runLabels] at hr; cases hr; intro e _; rfl
          · subst hls; exact (gstep_frame (runLabels_single hr)).2.2
        refine ⟨hB, hP, ?_, ?_, h.ns⟩
        · intro th2 hth2
          show PcOk g' th2
          rcases List.mem_or_eq_of_mem_set hth2 with hm2 | hm2
          · exact pcOk_mono hkeys (h.places.ok th2 hm2) (h.pcok th2 hm2)
          · subst hm2; exact hpc'
        · intro th2 hth2 x hx
          show (g'.ent x.2).key = x.1
          rcases List.mem_or_eq_of_mem_set hth2 with hm2 | hm2
          · exact (hkeys x.2 (h.books.ok th2 hm2 x hx)).trans (h.hkey th2 hm2 x hx)
          · subst hm2
            rcases hheld' x hx with hold | hnew
            · exact (hkeys x.2 (h.books.ok th hmem x hold)).trans (h.hkey th hmem x hold)
            · exact hnew

theorem sound_foldl (nk : Nat) : ∀ (sched : List Nat) (y : Sys), Sound y → Sound (sched.foldl (tstep nk) y)
  | [], _, h => h
  | t :: ts, y, h => sound_foldl nk ts (tstep nk y t) (sound_tstep nk y t h)

theorem sound_drain (nk : Nat) : ∀ (fuel : Nat) (y : Sys), Sound y → Sound (drain nk fuel y)
  | 0, _, h => h
  | fuel + 1, y, h => by
    unfold drain
    split
    · exact h
    · exact sound_drain nk fuel _ (sound_tstep nk y _ h)

theorem sound_runSched (nk : Nat) (progs : List (List Op)) (sched : List Nat) : Sound (runSched nk progs sched) := by
  unfold runSched
  refine sound_drain nk _ _ (sound_foldl nk sched _ ⟨⟨?_, ?_⟩, ⟨?_, ?_, ?_, mapOk_init⟩, ?_, ?_, rfl⟩)
  · intro e he; exact absurd he (Nat.not_lt_zero _)
  · intro th hth x hx
    simp only [List.mem_map] at hth
    obtain ⟨p, _, rfl⟩ := hth
    simp at hx
  · intro p e he; exact absurd he (Nat.not_lt_zero _)
  · intro th hth p e hp
    simp only [List.mem_map] at hth
    obtain ⟨q, _, rfl⟩ := hth
    simp [pcAt] at hp
  · intro th hth _
    simp only [List.mem_map] at hth
    obtain ⟨q, _, rfl⟩ := hth
    rfl
  · intro th hth
    simp only [List.mem_map] at hth
    obtain ⟨q, _, rfl⟩ := hth
    simp [PcOk]
  · intro th hth x hx
    simp only [List.mem_map] at hth
    obtain ⟨q, _, rfl⟩ := hth
    simp at hx

end CaddyModel.C04
